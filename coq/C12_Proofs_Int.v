(* C12 — typed retrieval: the modelled stream extraction equals the number-text spec. *)
From Coq Require Import List Ascii ZArith NArith Bool Lia.
From DuneV Require Import Params_gen C12_Model C12_Spec.
Import ListNotations.
Local Open Scope char_scope.

Lemma c12_digit_nonspace : forall c d, c12_digit c = Some d -> c12_is_space c = false.
Proof.
  intros c d. unfold c12_digit, c12_is_space. generalize (N_of_ascii c) as n. intros n H.
  destruct ((48 <=? n)%N && (n <=? 57)%N) eqn:E; [|discriminate].
  apply andb_true_iff in E as [E1 E2]. apply N.leb_le in E1, E2.
  apply orb_false_iff; split.
  - apply andb_false_iff. right. apply N.leb_gt. lia.
  - apply N.eqb_neq. lia.
Qed.

Lemma c12_dropwhile_head : forall f s c r, c12_dropwhile f s = c :: r -> f c = false.
Proof.
  induction s as [|x s IH]; intros c r H; simpl in H; [discriminate|].
  destruct (f x) eqn:E; [eauto|]. inversion H; subst; exact E.
Qed.

Lemma c12_is_nil_dropwhile : forall f s, c12_is_nil (c12_dropwhile f s) = forallb f s.
Proof.
  induction s as [|x s IH]; simpl; [reflexivity|]. destruct (f x); simpl; [exact IH|reflexivity].
Qed.

Definition c12_step (a d : Z) : Z := (10 * a + d)%Z.

(* the part after the sign, both ways *)
Definition c12_model_body (s : c12_str) (acc : Z) (n : nat) : option (Z * nat) :=
  let '(m, k, rest) := c12_digits s acc n in
  if c12_is_nil (c12_skip_space rest) then Some (m, k) else None.

Definition c12_spec_body (s : c12_str) (acc : Z) : option (Z * nat) :=
  match c12_all_some c12_digit (c12_takewhile c12_nonspace s) with
  | Some vals => if forallb c12_is_space (c12_dropwhile c12_nonspace s)
                 then Some (fold_left c12_step vals acc, length vals) else None
  | None => None
  end.

Lemma c12_digits_cons : forall c r acc n,
  c12_digits (c :: r) acc n =
  match c12_digit c with Some d => c12_digits r (10 * acc + d)%Z (S n) | None => (acc, n, c :: r) end.
Proof. reflexivity. Qed.

Lemma c12_body_eq : forall s acc n,
  c12_model_body s acc n =
  match c12_spec_body s acc with Some (m, l) => Some (m, n + l) | None => None end.
Proof.
  induction s as [|c r IH]; intros acc n.
  - unfold c12_model_body, c12_spec_body. cbn. f_equal. f_equal. lia.
  - unfold c12_model_body, c12_spec_body. rewrite c12_digits_cons.
    cbn [c12_takewhile c12_dropwhile].
    destruct (c12_digit c) as [d|] eqn:Ed.
    + pose proof (c12_digit_nonspace _ _ Ed) as Hns.
      unfold c12_nonspace at 1 3. rewrite Hns. cbn [negb c12_all_some]. rewrite Ed.
      specialize (IH (10 * acc + d)%Z (S n)).
      unfold c12_model_body, c12_spec_body in IH. rewrite IH.
      destruct (c12_all_some c12_digit (c12_takewhile c12_nonspace r)) as [vals|]; [|reflexivity].
      destruct (forallb c12_is_space (c12_dropwhile c12_nonspace r)); [|reflexivity].
      cbn [fold_left length]. unfold c12_step at 2. f_equal. f_equal. lia.
    + unfold c12_skip_space. cbn [c12_dropwhile]. unfold c12_nonspace at 1 3.
      destruct (c12_is_space c) eqn:Es; cbn [negb c12_all_some forallb].
      * rewrite c12_is_nil_dropwhile. rewrite Es. cbn [andb].
        destruct (forallb c12_is_space r); [|reflexivity]. cbn. f_equal. f_equal. lia.
      * rewrite Ed. reflexivity.
Qed.

Lemma c12_takewhile_nil_or : forall s, c12_takewhile c12_nonspace s = [] ->
  c12_all_some c12_digit (c12_takewhile c12_nonspace s) = Some [].
Proof. intros s H. rewrite H. reflexivity. Qed.

Lemma c12_all_some_length : forall A B (f : A -> option B) l r,
  c12_all_some f l = Some r -> length r = length l.
Proof.
  induction l as [|x l IH]; intros r H; simpl in H.
  - inversion H; reflexivity.
  - destruct (f x); [|discriminate]. destruct (c12_all_some f l) eqn:E; [|discriminate].
    inversion H; subst. simpl. f_equal. apply IH. reflexivity.
Qed.

(* digits part: model (after the sign was consumed) = spec on the token / trailing blanks *)
Definition c12_scalar_of (r : option Z * c12_str * bool) : option Z :=
  match r with
  | (Some v, rest, _) => if c12_is_nil (c12_skip_space rest) then Some v else None
  | _ => None
  end.

Lemma c12_signed_tail : forall lo hi neg s2,
  c12_scalar_of (c12_extract_tail true lo hi neg s2) =
  (if forallb c12_is_space (c12_dropwhile c12_nonspace s2)
   then c12_spec_int_digits lo hi neg (c12_takewhile c12_nonspace s2) else None).
Proof.
  intros lo hi neg s2. unfold c12_extract_tail.
  pose proof (c12_body_eq s2 0%Z O) as H. unfold c12_model_body, c12_spec_body in H.
  destruct (c12_digits s2 0 O) as [[m n] rest].
  unfold c12_spec_int_digits.
  destruct (c12_all_some c12_digit (c12_takewhile c12_nonspace s2)) as [vals|] eqn:Ev.
  - pose proof (c12_all_some_length _ _ _ _ _ Ev) as Hl.
    destruct (forallb c12_is_space (c12_dropwhile c12_nonspace s2)).
    + destruct (c12_is_nil (c12_skip_space rest)) eqn:En; [|discriminate].
      inversion H; subst.
      destruct (c12_takewhile c12_nonspace s2) as [|t0 tt].
      * destruct vals; [reflexivity|discriminate].
      * destruct vals as [|v0 vv]; [discriminate|]. cbn [length Nat.add].
        change (fun a d : Z => (10 * a + d)%Z) with c12_step.
        destruct ((lo <=? _) && (_ <=? hi))%Z; cbn [c12_scalar_of]; [rewrite En|]; reflexivity.
    + destruct (c12_is_nil (c12_skip_space rest)) eqn:En; [discriminate|].
      destruct n; [reflexivity|].
      destruct ((lo <=? _) && (_ <=? hi))%Z; cbn [c12_scalar_of]; [rewrite En|]; reflexivity.
  - destruct (c12_is_nil (c12_skip_space rest)) eqn:En; [discriminate|].
    assert (Hr : (if forallb c12_is_space (c12_dropwhile c12_nonspace s2)
                  then match c12_takewhile c12_nonspace s2 with [] => None | _ :: _ => @None Z end
                  else None) = None).
    { destruct (forallb _ _); [destruct (c12_takewhile _ _)|]; reflexivity. }
    rewrite Hr.
    destruct n; [reflexivity|].
    destruct ((lo <=? _) && (_ <=? hi))%Z; cbn [c12_scalar_of]; [rewrite En|]; reflexivity.
Qed.

Lemma c12_token_other : forall lo hi c t, c <> "-" -> c <> "+" ->
  c12_spec_int_token lo hi (c :: t) = c12_spec_int_digits lo hi false (c :: t).
Proof.
  intros lo hi c t H1 H2. unfold c12_spec_int_token.
  destruct c as [[] [] [] [] [] [] [] []]; try reflexivity; congruence.
Qed.

Lemma c12_parse_scalar_of : forall ex s, c12_parse_scalar ex s = c12_scalar_of (ex s).
Proof. intros. unfold c12_parse_scalar, c12_scalar_of. destruct (ex s) as [[[v|] rest] e]; reflexivity. Qed.

(* Parser<int>/Parser<long> accept exactly  blank* [+-]? digit+ blank*  in range, with its value *)
Lemma c12_int_exact : forall lo hi s,
  c12_parse_scalar (c12_extract_int true lo hi) s = c12_spec_int lo hi s.
Proof.
  intros lo hi s. rewrite c12_parse_scalar_of. unfold c12_extract_int, c12_spec_int, c12_skip_space.
  destruct (c12_dropwhile c12_is_space s) as [|c r] eqn:Es1.
  - reflexivity.
  - pose proof (c12_dropwhile_head _ _ _ _ Es1) as Hc.
    cbn [c12_dropwhile c12_takewhile]. unfold c12_nonspace at 1 3. rewrite Hc. cbn [negb].
    destruct (Ascii.eqb_spec c "-") as [->|Hm].
    + rewrite c12_signed_tail. reflexivity.
    + destruct (Ascii.eqb_spec c "+") as [->|Hp].
      * rewrite c12_signed_tail. reflexivity.
      * rewrite c12_token_other by assumption.
        rewrite c12_signed_tail.
        cbn [c12_dropwhile c12_takewhile]. unfold c12_nonspace at 1 3. rewrite Hc. reflexivity.
Qed.

(* ------------------------------------------------------------------ fixed-size ranges *)

Lemma c12_digits_sound : forall s acc n m k rest,
  c12_digits s acc n = (m, k, rest) ->
  exists ds vals, s = ds ++ rest /\ c12_all_some c12_digit ds = Some vals /\
                  m = fold_left c12_step vals acc /\ k = n + length ds /\ c12_nondigit_start rest.
Proof.
  induction s as [|c r IH]; intros acc n m k rest H.
  - inversion H; subst. exists [], []. cbn. repeat split; try lia.
  - rewrite c12_digits_cons in H. destruct (c12_digit c) as [d|] eqn:Ed.
    + apply IH in H as (ds & vals & -> & Hv & -> & -> & Hn).
      exists (c :: ds), (d :: vals). cbn. rewrite Ed, Hv. repeat split; try lia. exact Hn.
    + inversion H; subst. exists [], []. cbn. repeat split; try lia. exact Ed.
Qed.

Lemma c12_digits_complete : forall ds vals rest acc n,
  c12_all_some c12_digit ds = Some vals -> c12_nondigit_start rest ->
  c12_digits (ds ++ rest) acc n = (fold_left c12_step vals acc, n + length ds, rest).
Proof.
  induction ds as [|c ds IH]; intros vals rest acc n Hv Hn.
  - cbn in Hv. inversion Hv; subst. cbn [app fold_left length].
    replace (n + 0) with n by lia.
    destruct rest as [|x rest]; [reflexivity|]. rewrite c12_digits_cons. cbn in Hn. rewrite Hn. reflexivity.
  - cbn in Hv. destruct (c12_digit c) as [d|] eqn:Ed; [|discriminate].
    destruct (c12_all_some c12_digit ds) as [vs|] eqn:Evs; [|discriminate]. inversion Hv; subst.
    cbn [app]. rewrite c12_digits_cons, Ed. rewrite (IH vs rest _ _ eq_refl Hn).
    cbn [fold_left length]. unfold c12_step at 2. f_equal. f_equal. lia.
Qed.

Lemma c12_split_blanks : forall s, exists b, s = b ++ c12_dropwhile c12_is_space s /\ forallb c12_is_space b = true.
Proof.
  induction s as [|c s (b & Hs & Hb)].
  - exists []. split; reflexivity.
  - cbn. destruct (c12_is_space c) eqn:E.
    + exists (c :: b). cbn. rewrite E, Hb. split; [f_equal; exact Hs|reflexivity].
    + exists []. split; reflexivity.
Qed.

Lemma c12_dropwhile_app : forall b s, forallb c12_is_space b = true ->
  c12_dropwhile c12_is_space (b ++ s) = c12_dropwhile c12_is_space s.
Proof.
  induction b as [|c b IH]; intros s H; [reflexivity|].
  cbn in *. apply andb_true_iff in H as [Hc Hb]. rewrite Hc. apply IH. exact Hb.
Qed.

Lemma c12_tail_sound : forall lo hi neg s2 v rest e,
  c12_extract_tail true lo hi neg s2 = (Some v, rest, e) ->
  exists ds, s2 = ds ++ rest /\ c12_spec_int_digits lo hi neg ds = Some v /\ ds <> [] /\
             c12_nondigit_start rest /\ e = c12_is_nil rest.
Proof.
  intros lo hi neg s2 v rest e H. unfold c12_extract_tail in H.
  destruct (c12_digits s2 0 O) as [[m k] rest'] eqn:Ed.
  apply c12_digits_sound in Ed as (ds & vals & -> & Hv & -> & -> & Hn).
  destruct ds as [|c ds]; [cbn in H; discriminate|].
  cbn [length Nat.add] in H.
  destruct ((lo <=? (if neg then - fold_left c12_step vals 0 else fold_left c12_step vals 0)) &&
            ((if neg then - fold_left c12_step vals 0 else fold_left c12_step vals 0) <=? hi))%Z eqn:Er;
    [|discriminate].
  inversion H; subst. exists (c :: ds). repeat split; try assumption; try discriminate.
  unfold c12_spec_int_digits. rewrite Hv.
  change (fun a d : Z => (10 * a + d)%Z) with c12_step. rewrite Er. reflexivity.
Qed.

Lemma c12_tail_complete : forall lo hi neg ds rest v,
  c12_spec_int_digits lo hi neg ds = Some v -> c12_nondigit_start rest ->
  c12_extract_tail true lo hi neg (ds ++ rest) = (Some v, rest, c12_is_nil rest).
Proof.
  intros lo hi neg ds rest v H Hn. unfold c12_spec_int_digits in H.
  destruct ds as [|c ds]; [discriminate|].
  destruct (c12_all_some c12_digit (c :: ds)) as [vals|] eqn:Ev; [|discriminate].
  change (fun a d : Z => (10 * a + d)%Z) with c12_step in H.
  unfold c12_extract_tail. rewrite (c12_digits_complete _ _ _ _ _ Ev Hn).
  cbn [length Nat.add].
  destruct ((lo <=? _) && (_ <=? hi))%Z; [|discriminate]. inversion H; subst. reflexivity.
Qed.

Lemma c12_sign_nonspace_minus : c12_is_space "-" = false. Proof. reflexivity. Qed.
Lemma c12_sign_nonspace_plus : c12_is_space "+" = false. Proof. reflexivity. Qed.

Lemma c12_digits_head : forall lo hi neg c ds v,
  c12_spec_int_digits lo hi neg (c :: ds) = Some v -> exists d, c12_digit c = Some d.
Proof.
  intros lo hi neg c ds v H. unfold c12_spec_int_digits in H. cbn in H.
  destruct (c12_digit c) as [d|]; [eauto|discriminate].
Qed.

Lemma c12_extract_sound : forall lo hi s v rest e,
  c12_extract_int true lo hi s = (Some v, rest, e) ->
  exists b t, s = b ++ t ++ rest /\ forallb c12_is_space b = true /\
              c12_spec_int_token lo hi t = Some v /\ c12_nondigit_start rest /\ e = c12_is_nil rest.
Proof.
  intros lo hi s v rest e H. unfold c12_extract_int, c12_skip_space in H.
  destruct (c12_split_blanks s) as (b & Hs & Hb).
  destruct (c12_dropwhile c12_is_space s) as [|c r] eqn:Es1; [discriminate|].
  destruct (Ascii.eqb_spec c "-") as [->|Hm].
  { apply c12_tail_sound in H as (ds & -> & Ht & _ & Hn & He).
    exists b, ("-" :: ds). repeat split; try assumption. }
  destruct (Ascii.eqb_spec c "+") as [->|Hp].
  { apply c12_tail_sound in H as (ds & -> & Ht & _ & Hn & He).
    exists b, ("+" :: ds). repeat split; try assumption. }
  apply c12_tail_sound in H as (ds & Hds & Ht & Hne & Hn & He).
  destruct ds as [|c' ds]; [congruence|]. cbn in Hds. inversion Hds; subst c' r.
  exists b, (c :: ds). repeat split; try assumption.
  rewrite c12_token_other by assumption. exact Ht.
Qed.

Lemma c12_extract_complete : forall lo hi b t rest v,
  forallb c12_is_space b = true -> c12_spec_int_token lo hi t = Some v -> c12_nondigit_start rest ->
  c12_extract_int true lo hi (b ++ t ++ rest) = (Some v, rest, c12_is_nil rest).
Proof.
  intros lo hi b t rest v Hb Ht Hn. unfold c12_extract_int, c12_skip_space.
  rewrite (c12_dropwhile_app _ _ Hb).
  destruct t as [|c t]; [discriminate|].
  destruct (Ascii.eqb_spec c "-") as [->|Hm].
  { cbn [app c12_dropwhile]. rewrite c12_sign_nonspace_minus. cbn [Ascii.eqb Bool.eqb andb].
    apply c12_tail_complete; assumption. }
  destruct (Ascii.eqb_spec c "+") as [->|Hp].
  { cbn [app c12_dropwhile]. rewrite c12_sign_nonspace_plus. cbn [Ascii.eqb Bool.eqb andb].
    apply c12_tail_complete; assumption. }
  rewrite c12_token_other in Ht by assumption.
  destruct (c12_digits_head _ _ _ _ _ _ Ht) as [d Hd].
  cbn [app c12_dropwhile]. rewrite (c12_digit_nonspace _ _ Hd).
  destruct (Ascii.eqb_spec c "-"); [contradiction|]. destruct (Ascii.eqb_spec c "+"); [contradiction|].
  change (c :: t ++ rest) with ((c :: t) ++ rest). apply c12_tail_complete; assumption.
Qed.

Lemma c12_range_items_sound : forall lo hi n s vs rest,
  c12_range_items (c12_extract_int true lo hi) n s = Some (vs, rest) -> c12_items_then lo hi n s vs rest.
Proof.
  induction n as [|n IH]; intros s vs rest H; cbn in H.
  - inversion H; subst. constructor.
  - destruct (c12_extract_int true lo hi s) as [[[v|] r] e] eqn:Ex; [|discriminate].
    destruct (c12_range_items (c12_extract_int true lo hi) n r) as [[vs' r']|] eqn:Er; [|discriminate].
    inversion H; subst.
    apply c12_extract_sound in Ex as (b & t & -> & Hb & Ht & Hn & _).
    constructor; auto.
Qed.

Lemma c12_range_items_complete : forall lo hi n s vs rest,
  c12_items_then lo hi n s vs rest -> c12_range_items (c12_extract_int true lo hi) n s = Some (vs, rest).
Proof.
  intros lo hi n s vs rest H. induction H as [s|n b t v r vs rest Hb Ht Hn H IH]; [reflexivity|].
  cbn. rewrite (c12_extract_complete _ _ _ _ _ _ Hb Ht Hn). rewrite IH. reflexivity.
Qed.

(* with the repaired probe (fixes/C12-1.patch) a fixed-size range converts exactly the texts that
   consist of n integer items and blanks, to exactly their values *)
Lemma c12_range_exact_fixed : forall lo hi n s vs,
  c12_parse_range true (c12_extract_int true lo hi) n s = Some vs <-> c12_spec_range_rel lo hi n s vs.
Proof.
  intros lo hi n s vs. unfold c12_parse_range, c12_spec_range_rel. split.
  - destruct (c12_range_items _ n s) as [[vs' rest]|] eqn:E; [|discriminate].
    destruct (c12_is_nil (c12_skip_space rest)) eqn:En; [|discriminate].
    intros H; inversion H; subst. exists rest. split.
    + apply c12_range_items_sound. exact E.
    + unfold c12_skip_space in En. rewrite c12_is_nil_dropwhile in En. exact En.
  - intros (rest & H & Hb). rewrite (c12_range_items_complete _ _ _ _ _ _ H).
    unfold c12_skip_space. rewrite c12_is_nil_dropwhile, Hb. reflexivity.
Qed.

(* the probe as it stands (`Value dummy`) is NOT exact: F-C12-1 *)
Definition c12_witness_range : c12_str := ["1"; " "; "2"; " "; "3"; " "; "-"].
Lemma c12_range_exact_asis_refuted :
  exists s vs, c12_parse_range false (c12_ity_extract C12Int) 3 s = Some vs /\
               ~ c12_spec_range_rel (- 2 ^ 31) (2 ^ 31 - 1) 3 s vs.
Proof.
  exists c12_witness_range, [1; 2; 3]%Z. split; [vm_compute; reflexivity|].
  intro H. apply c12_range_exact_fixed in H. vm_compute in H. discriminate.
Qed.

(* soundness half survives: what the present code accepts always starts with n well-formed items *)
Lemma c12_range_asis_items : forall lo hi n s vs,
  c12_parse_range false (c12_extract_int true lo hi) n s = Some vs ->
  exists rest, c12_items_then lo hi n s vs rest.
Proof.
  intros lo hi n s vs. unfold c12_parse_range.
  destruct (c12_range_items _ n s) as [[vs' rest]|] eqn:E; [|discriminate].
  intros H. exists rest. apply c12_range_items_sound.
  destruct (c12_extract_int true lo hi rest) as [[[v|] r] [|]]; try discriminate; inversion H; subst; exact E.
Qed.

(* ------------------------------------------------------------------ bool, vector, bitset *)

Lemma c12_all_some_ext : forall A B (f g : A -> option B) l,
  (forall x, f x = g x) -> c12_all_some f l = c12_all_some g l.
Proof. induction l as [|x l IH]; intros H; cbn; [reflexivity|]. rewrite H, IH by exact H. reflexivity. Qed.

Lemma c12_bool_exact : forall s, c12_parse_bool s = c12_spec_bool s.
Proof.
  intros s. unfold c12_parse_bool, c12_spec_bool.
  (* the words re-read from the source are the spec's words (if the source changes them this step fails) *)
  change (c12_words c12_param_true_words) with [["y"; "e"; "s"]; ["t"; "r"; "u"; "e"]]%char.
  change (c12_words c12_param_false_words) with [["n"; "o"]; ["f"; "a"; "l"; "s"; "e"]]%char.
  cbn [existsb]. rewrite !orb_false_r.
  change (c12_ity_extract C12Int) with (c12_extract_int true (- 2 ^ 31) (2 ^ 31 - 1)).
  rewrite c12_int_exact. reflexivity.
Qed.

Lemma c12_vector_exact : forall lo hi s,
  c12_parse_vector (c12_extract_int true lo hi) s = c12_all_some (c12_spec_int lo hi) (c12_split s).
Proof. intros. unfold c12_parse_vector. apply c12_all_some_ext. intros x. apply c12_int_exact. Qed.

Lemma c12_bitset_exact : forall n s,
  c12_parse_bitset n s =
  (if Nat.eqb (length (c12_split s)) n then c12_all_some c12_spec_bool (c12_split s) else None).
Proof.
  intros. unfold c12_parse_bitset. destruct (Nat.eqb _ n); [|reflexivity].
  apply c12_all_some_ext. exact c12_bool_exact.
Qed.

(* ParameterTree::split = the tokens between " \t\n\r" *)
Lemma c12_split_aux_tokens : forall s cur, c12_split_aux s cur = c12_spec_tokens_by c12_is_ws s cur.
Proof. induction s as [|c r IH]; intros cur; cbn; [reflexivity|]. rewrite !IH. reflexivity. Qed.
Lemma c12_split_tokens : forall s, c12_split s = c12_spec_tokens_ws s.
Proof. intros. apply c12_split_aux_tokens. Qed.

(* no partially converted value: whatever Parser<int> returns, re-reading its decimal digits... is the
   token itself: stated as "accepted texts are exactly blanks + one integer text + blanks" above *)

Lemma c12_vector_exact_tokens : forall lo hi s,
  c12_parse_vector (c12_extract_int true lo hi) s = c12_all_some (c12_spec_int lo hi) (c12_spec_tokens_ws s).
Proof. intros lo hi s. rewrite <- c12_split_tokens. exact (c12_vector_exact lo hi s). Qed.

(* ------------------------------------------------------------------ the probe as found, exactly *)

Lemma c12_range_asfound_exact : forall A (ex : c12_str -> option A * c12_str * bool) n s vs,
  c12_parse_range false ex n s = Some vs <->
  exists rest, c12_range_items ex n s = Some (vs, rest) /\ fst (fst (ex rest)) = None /\ snd (ex rest) = true.
Proof.
  intros A ex n s vs. unfold c12_parse_range. split.
  - destruct (c12_range_items ex n s) as [[vs' rest]|]; [|discriminate].
    destruct (ex rest) as [[[v|] r] [|]] eqn:E; try discriminate. intros H; inversion H; subst.
    exists rest. rewrite E. auto.
  - intros (rest & -> & H1 & H2). destruct (ex rest) as [[[v|] r] [|]]; cbn in *; try discriminate. reflexivity.
Qed.

Lemma c12_all_digits_some : forall ds,
  forallb (fun c => match c12_digit c with Some _ => true | None => false end) ds = true ->
  exists vals, c12_all_some c12_digit ds = Some vals.
Proof.
  induction ds as [|c ds IH]; intros H; [exists []; reflexivity|].
  cbn in H. destruct (c12_digit c) as [d|] eqn:Ed; [|discriminate]. destruct (IH H) as [vals Hv].
  exists (d :: vals). cbn. rewrite Ed, Hv. reflexivity.
Qed.

Lemma c12_all_some_digits : forall ds vals, c12_all_some c12_digit ds = Some vals ->
  forallb (fun c => match c12_digit c with Some _ => true | None => false end) ds = true.
Proof.
  induction ds as [|c ds IH]; intros vals H; [reflexivity|]. cbn in *.
  destruct (c12_digit c); [|discriminate]. destruct (c12_all_some c12_digit ds) eqn:E; [|discriminate].
  apply (IH _ eq_refl).
Qed.

(* the digits part fails at the end of the text: no digit at all, or digits to the end with an unrepresentable value *)
Lemma c12_tail_fail_eof : forall lo hi neg s2 rest,
  c12_extract_tail true lo hi neg s2 = (None, rest, true) ->
  s2 = [] \/ (s2 <> [] /\ forallb (fun c => match c12_digit c with Some _ => true | None => false end) s2 = true /\
              c12_spec_int_digits lo hi neg s2 = None).
Proof.
  intros lo hi neg s2 rest H. unfold c12_extract_tail in H.
  destruct (c12_digits s2 0 O) as [[m k] r] eqn:Ed.
  apply c12_digits_sound in Ed as (ds & vals & -> & Hv & -> & -> & Hn).
  destruct ds as [|c ds].
  - cbn in H. inversion H; subst. destruct rest; [left; reflexivity|discriminate].
  - right. cbn [length Nat.add] in H.
    destruct ((lo <=? (if neg then - fold_left c12_step vals 0 else fold_left c12_step vals 0)) &&
              ((if neg then - fold_left c12_step vals 0 else fold_left c12_step vals 0) <=? hi))%Z eqn:Er; [discriminate|].
    inversion H; subst. destruct rest; [|discriminate]. rewrite app_nil_r. split; [discriminate|]. split.
    + apply (c12_all_some_digits _ _ Hv).
    + unfold c12_spec_int_digits. rewrite Hv. change (fun a d : Z => (10 * a + d)%Z) with c12_step. rewrite Er. reflexivity.
Qed.

(* C12_range_items, full: exactly what the probe as found accepted -- n items followed by a dropped tail *)
Lemma c12_range_asfound_shape : forall lo hi n s vs,
  c12_parse_range false (c12_extract_int true lo hi) n s = Some vs ->
  exists rest, c12_items_then lo hi n s vs rest /\ c12_dropped_tail lo hi rest.
Proof.
  intros lo hi n s vs H. apply c12_range_asfound_exact in H as (rest & Hi & Hn & He).
  exists rest. split; [apply c12_range_items_sound; exact Hi|].
  unfold c12_extract_int, c12_skip_space in Hn, He.
  destruct (c12_split_blanks rest) as (b & Hs & Hb). exists b.
  destruct (c12_dropwhile c12_is_space rest) as [|c r] eqn:Es1.
  { exists []. split; [exact Hs|]. split; [exact Hb|]. left. reflexivity. }
  exists (c :: r). split; [exact Hs|]. split; [exact Hb|]. right.
  destruct (Ascii.eqb_spec c "-") as [->|Hm].
  { destruct (c12_extract_tail true lo hi true r) as [[[v|] r'] e] eqn:Et; cbn in Hn, He; [discriminate|]. subst e.
    apply c12_tail_fail_eof in Et as [->|(Hne & Hd & Hs')].
    - left. exists "-"%char. split; reflexivity.
    - right. exists ["-"%char], r. split; [reflexivity|]. split; [right; exists "-"%char; split; reflexivity|].
      split; [exact Hne|]. split; [exact Hd|exact Hs']. }
  destruct (Ascii.eqb_spec c "+") as [->|Hp].
  { destruct (c12_extract_tail true lo hi false r) as [[[v|] r'] e] eqn:Et; cbn in Hn, He; [discriminate|]. subst e.
    apply c12_tail_fail_eof in Et as [->|(Hne & Hd & Hs')].
    - left. exists "+"%char. split; reflexivity.
    - right. exists ["+"%char], r. split; [reflexivity|]. split; [right; exists "+"%char; split; reflexivity|].
      split; [exact Hne|]. split; [exact Hd|exact Hs']. }
  destruct (c12_extract_tail true lo hi false (c :: r)) as [[[v|] r'] e] eqn:Et; cbn in Hn, He; [discriminate|]. subst e.
  apply c12_tail_fail_eof in Et as [Hnil|(Hne & Hd & Hs')]; [discriminate|].
  right. exists [], (c :: r). split; [reflexivity|]. split; [left; reflexivity|]. split; [exact Hne|]. split; [exact Hd|].
  rewrite c12_token_other by assumption. exact Hs'.
Qed.

(* ------------------------------------------------------------------ unsigned types *)

Lemma c12_unsigned_tail : forall lo hi neg s2,
  c12_scalar_of (c12_extract_tail false lo hi neg s2) =
  (if forallb c12_is_space (c12_dropwhile c12_nonspace s2)
   then c12_spec_uint_digits hi neg (c12_takewhile c12_nonspace s2) else None).
Proof.
  intros lo hi neg s2. unfold c12_extract_tail.
  pose proof (c12_body_eq s2 0%Z O) as H. unfold c12_model_body, c12_spec_body in H.
  destruct (c12_digits s2 0 O) as [[m n] rest].
  unfold c12_spec_uint_digits.
  destruct (c12_all_some c12_digit (c12_takewhile c12_nonspace s2)) as [vals|] eqn:Ev.
  - pose proof (c12_all_some_length _ _ _ _ _ Ev) as Hl.
    destruct (forallb c12_is_space (c12_dropwhile c12_nonspace s2)).
    + destruct (c12_is_nil (c12_skip_space rest)) eqn:En; [|discriminate].
      inversion H; subst.
      destruct (c12_takewhile c12_nonspace s2) as [|t0 tt].
      * destruct vals; [reflexivity|discriminate].
      * destruct vals as [|v0 vv]; [discriminate|]. cbn [length Nat.add].
        change (fun a d : Z => (10 * a + d)%Z) with c12_step.
        destruct (_ <=? hi)%Z; cbn [c12_scalar_of]; [rewrite En|]; reflexivity.
    + destruct (c12_is_nil (c12_skip_space rest)) eqn:En; [discriminate|].
      destruct n; [reflexivity|].
      destruct (_ <=? hi)%Z; cbn [c12_scalar_of]; [rewrite En|]; reflexivity.
  - destruct (c12_is_nil (c12_skip_space rest)) eqn:En; [discriminate|].
    assert (Hr : (if forallb c12_is_space (c12_dropwhile c12_nonspace s2)
                  then match c12_takewhile c12_nonspace s2 with [] => None | _ :: _ => @None Z end
                  else None) = None).
    { destruct (forallb _ _); [destruct (c12_takewhile _ _)|]; reflexivity. }
    rewrite Hr.
    destruct n; [reflexivity|].
    destruct (_ <=? hi)%Z; cbn [c12_scalar_of]; [rewrite En|]; reflexivity.
Qed.

Lemma c12_utoken_other : forall hi c t, c <> "-" -> c <> "+" ->
  c12_spec_uint_token hi (c :: t) = c12_spec_uint_digits hi false (c :: t).
Proof.
  intros hi c t H1 H2. unfold c12_spec_uint_token.
  destruct c as [[] [] [] [] [] [] [] []]; try reflexivity; congruence.
Qed.

(* Parser<unsigned ...>: exactly  blank* [+-]? digit+ blank*  with magnitude <= max; a leading '-' wraps *)
Lemma c12_uint_exact : forall lo hi s,
  c12_parse_scalar (c12_extract_int false lo hi) s = c12_spec_uint hi s.
Proof.
  intros lo hi s. rewrite c12_parse_scalar_of. unfold c12_extract_int, c12_spec_uint, c12_skip_space.
  destruct (c12_dropwhile c12_is_space s) as [|c r] eqn:Es1.
  - reflexivity.
  - pose proof (c12_dropwhile_head _ _ _ _ Es1) as Hc.
    cbn [c12_dropwhile c12_takewhile]. unfold c12_nonspace at 1 3. rewrite Hc. cbn [negb].
    destruct (Ascii.eqb_spec c "-") as [->|Hm].
    + rewrite c12_unsigned_tail. reflexivity.
    + destruct (Ascii.eqb_spec c "+") as [->|Hp].
      * rewrite c12_unsigned_tail. reflexivity.
      * rewrite c12_utoken_other by assumption.
        rewrite c12_unsigned_tail.
        cbn [c12_dropwhile c12_takewhile]. unfold c12_nonspace at 1 3. rewrite Hc. reflexivity.
Qed.

(* Parser<std::string> is total: every text converts, to itself without surrounding " \t\n\r" *)
Lemma c12_string_total : forall s, c12_parse_string s = c12_ltrim (c12_rtrim s).
Proof. reflexivity. Qed.
