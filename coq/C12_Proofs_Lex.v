(* C12 — the line machine on the unquoted single-line dialect: string lemmas and the step lemmas. *)
From Coq Require Import List Ascii ZArith NArith Bool Lia.
From DuneV Require Import C12_Model C12_Spec C12_Proofs_Tree.
Import ListNotations.
Local Open Scope char_scope.


Lemma c12_ws_not_hash : forall c, c12_is_ws c = true -> Ascii.eqb c "#" = false.
Proof. intros c H. destruct (Ascii.eqb_spec c "#"); [subst; vm_compute in H; discriminate|reflexivity]. Qed.
Lemma c12_ws_not_eq : forall c, c12_is_ws c = true -> Ascii.eqb c "=" = false.
Proof. intros c H. destruct (Ascii.eqb_spec c "="); [subst; vm_compute in H; discriminate|reflexivity]. Qed.
Lemma c12_ws_not_rbr : forall c, c12_is_ws c = true -> Ascii.eqb c "]" = false.
Proof. intros c H. destruct (Ascii.eqb_spec c "]"); [subst; vm_compute in H; discriminate|reflexivity]. Qed.

Lemma c12_blank_no : forall c b, (forall x, c12_is_ws x = true -> Ascii.eqb x c = false) ->
  c12_blankb b = true -> c12_nochar c b = true.
Proof.
  intros c b Hc. unfold c12_blankb, c12_nochar. induction b as [|x b IH]; cbn; [reflexivity|]. intros H.
  apply andb_true_iff in H as [H1 H2]. rewrite (Hc _ H1), (IH H2). reflexivity.
Qed.

Lemma c12_no_app : forall c a b, c12_nochar c (a ++ b) = c12_nochar c a && c12_nochar c b.
Proof. intros. unfold c12_nochar. apply forallb_app. Qed.

Lemma c12_ltrim_blank_app : forall b s, c12_blankb b = true -> c12_ltrim (b ++ s) = c12_ltrim s.
Proof.
  induction b as [|x b IH]; intros s H; [reflexivity|]. cbn in *.
  apply andb_true_iff in H as [H1 H2]. unfold c12_ltrim in *. cbn. rewrite H1. apply IH. exact H2.
Qed.

Lemma c12_ltrim_blank : forall b, c12_blankb b = true -> c12_ltrim b = [].
Proof. intros b H. rewrite <- (app_nil_r b). rewrite c12_ltrim_blank_app by exact H. reflexivity. Qed.

(* a string is "tight" when it neither starts nor ends with a blank *)
Definition c12_tight (s : c12_str) : Prop := c12_ltrim s = s /\ c12_rtrim s = s.

Lemma c12_ltrim_head : forall c s, c12_ltrim (c :: s) = c :: s -> c12_is_ws c = false.
Proof.
  intros c s H. destruct (c12_is_ws c) eqn:E; [|reflexivity].
  exfalso. assert (L : forall t, length (c12_dropwhile c12_is_ws t) <= length t).
  { induction t as [|y t IHt]; cbn [c12_dropwhile length]; [lia|]. destruct (c12_is_ws y); cbn [length]; lia. }
  specialize (L s). unfold c12_ltrim in H. cbn [c12_dropwhile] in H. rewrite E in H. rewrite H in L. cbn [length] in L. lia.
Qed.

Lemma c12_ltrim_cons_app : forall c s t, c12_is_ws c = false -> c12_ltrim ((c :: s) ++ t) = (c :: s) ++ t.
Proof. intros c s t H. unfold c12_ltrim. cbn [app c12_dropwhile]. rewrite H. reflexivity. Qed.

Lemma c12_rtrim_blank : forall b, c12_blankb b = true -> c12_rtrim b = [].
Proof.
  induction b as [|x b IH]; intros H; [reflexivity|]. cbn in *.
  apply andb_true_iff in H as [H1 H2]. rewrite (IH H2), H1. reflexivity.
Qed.

Lemma c12_rtrim_app_blank : forall s b, c12_blankb b = true -> c12_rtrim (s ++ b) = c12_rtrim s.
Proof.
  induction s as [|x s IH]; intros b H.
  - cbn. apply c12_rtrim_blank. exact H.
  - cbn. rewrite (IH b H). reflexivity.
Qed.

Lemma c12_before_app : forall c a s, c12_nochar c a = true -> c12_before c (a ++ s) = a ++ c12_before c s.
Proof.
  induction a as [|x a IH]; intros s H; [reflexivity|]. cbn in *.
  apply andb_true_iff in H as [H1 H2]. apply negb_true_iff in H1. rewrite H1. f_equal. apply IH. exact H2.
Qed.

Lemma c12_before_no : forall c a, c12_nochar c a = true -> c12_before c a = a.
Proof. intros c a H. rewrite <- (app_nil_r a) at 1. rewrite c12_before_app by exact H. cbn. apply app_nil_r. Qed.

Lemma c12_split_at_app : forall c a s, c12_nochar c a = true -> c12_split_at c (a ++ c :: s) = Some (a, s).
Proof.
  induction a as [|x a IH]; intros s H.
  - cbn. rewrite Ascii.eqb_refl. reflexivity.
  - cbn in *. apply andb_true_iff in H as [H1 H2]. apply negb_true_iff in H1. rewrite H1.
    rewrite (IH s H2). reflexivity.
Qed.

Lemma c12_split_at_none : forall c a, c12_nochar c a = true -> c12_split_at c a = None.
Proof.
  induction a as [|x a IH]; intros H; [reflexivity|]. cbn in *.
  apply andb_true_iff in H as [H1 H2]. apply negb_true_iff in H1. rewrite H1, (IH H2). reflexivity.
Qed.

(* ------------------------------------------------------------------ classification of dialect lines *)

Lemma c12_tightb_tight : forall s, c12_tightb s = true -> c12_ltrim s = s /\ c12_rtrim s = s.
Proof.
  intros s H. unfold c12_tightb in H. apply andb_true_iff in H as [H1 H2].
  split; apply c12_eqs_eq; assumption.
Qed.

Lemma c12_classify_blank : forall qhash b, c12_blankb b = true -> c12_classify qhash b = C12Skip.
Proof. intros qhash b H. unfold c12_classify. rewrite (c12_ltrim_blank b H). reflexivity. Qed.

Lemma c12_classify_comment : forall qhash b text, c12_blankb b = true -> c12_classify qhash (b ++ "#" :: text) = C12Skip.
Proof. intros qhash b text H. unfold c12_classify. rewrite (c12_ltrim_blank_app b _ H). reflexivity. Qed.

Lemma c12_trim_name : forall name b2, c12_tightb name = true -> c12_blankb b2 = true ->
  c12_rtrim (c12_ltrim (name ++ b2)) = name.
Proof.
  intros name b2 Ht Hb. destruct (c12_tightb_tight _ Ht) as [Hl Hr].
  destruct name as [|c n].
  - cbn [app]. rewrite (c12_ltrim_blank b2 Hb). reflexivity.
  - rewrite (c12_ltrim_cons_app c n b2 (c12_ltrim_head _ _ Hl)).
    rewrite (c12_rtrim_app_blank _ _ Hb). exact Hr.
Qed.

Lemma c12_classify_header : forall qhash b0 b1 name b2 trail,
  c12_sline_ok (C12SHeader b0 b1 name b2 trail) = true ->
  c12_classify qhash (b0 ++ "[" :: b1 ++ name ++ b2 ++ "]" :: trail) =
  C12Prefix (if c12_is_nil name then [] else name ++ ["."]).
Proof.
  intros qhash b0 b1 name b2 trail H. cbn [c12_sline_ok] in H.
  repeat (apply andb_true_iff in H as [H ?]).
  rename H into Hb0, H3 into Hb1, H2 into Hb2, H1 into Ht, H0 into Hn.
  unfold c12_classify. rewrite (c12_ltrim_blank_app b0 _ Hb0).
  change (c12_ltrim ("[" :: b1 ++ name ++ b2 ++ "]" :: trail)) with ("[" :: b1 ++ name ++ b2 ++ "]" :: trail).
  cbn [Ascii.eqb Bool.eqb andb].
  assert (Hno : c12_nochar "]" (b1 ++ name ++ b2) = true).
  { rewrite !c12_no_app, Hn, (c12_blank_no "]" b1 c12_ws_not_rbr Hb1),
      (c12_blank_no "]" b2 c12_ws_not_rbr Hb2). reflexivity. }
  replace ("[" :: b1 ++ name ++ b2 ++ "]" :: trail) with ("[" :: (b1 ++ name ++ b2) ++ "]" :: trail)
    by (now rewrite <- !app_assoc).
  cbn [c12_split_at Ascii.eqb Bool.eqb andb]. rewrite (c12_split_at_app "]" _ trail Hno). cbn [tl].
  rewrite (c12_ltrim_blank_app b1 _ Hb1). rewrite (c12_trim_name name b2 Ht Hb2). reflexivity.
Qed.

Lemma c12_quote_cases : forall q, c12_is_quote q = true -> c12_is_ws q = false /\ Ascii.eqb q "#" = false.
Proof.
  intros q H. destruct q as [[] [] [] [] [] [] [] []]; try (split; reflexivity); vm_compute in H; discriminate.
Qed.

(* key part, '=', and a right-hand side W (no '#') followed by an optional comment *)
Lemma c12_classify_assign_shape : forall qhash b0 key b1 b2 W comment,
  c12_blankb b0 = true -> c12_blankb b1 = true -> c12_blankb b2 = true -> c12_key_ok key = true ->
  c12_nochar "#" W = true -> c12_comment_ok comment = true ->
  c12_classify qhash (b0 ++ key ++ b1 ++ "=" :: b2 ++ W ++ comment) =
  if qhash then
    match c12_ltrim (W ++ comment) with
    | q :: v1 => if c12_is_quote q then C12Assign key (q :: c12_cut_qcomment q [] v1)
                 else C12Assign key (c12_ltrim W)
    | [] => C12Assign key (c12_ltrim W)
    end
  else C12Assign key (c12_ltrim W).
Proof.
  intros qhash b0 key b1 b2 W comment Hb0 Hb1 Hb2 Hk HW Hc. unfold c12_key_ok in Hk.
  repeat (apply andb_true_iff in Hk as [Hk ?]).
  rename Hk into Hkne, H2 into Hkt, H1 into Hkeq, H0 into Hkh, H into Hkbr.
  destruct key as [|k0 key']; [discriminate|].
  destruct (c12_tightb_tight _ Hkt) as [Hkl Hkr]. pose proof (c12_ltrim_head _ _ Hkl) as Hk0.
  unfold c12_classify. rewrite (c12_ltrim_blank_app b0 _ Hb0).
  rewrite (c12_ltrim_cons_app k0 key' _ Hk0).
  cbn [app].
  assert (Hk0h : Ascii.eqb k0 "#" = false).
  { cbn in Hkh. apply andb_true_iff in Hkh as [Hkh _]. apply negb_true_iff in Hkh. exact Hkh. }
  rewrite Hk0h. apply negb_true_iff in Hkbr. rewrite Hkbr.
  change (k0 :: key' ++ b1 ++ "=" :: b2 ++ W ++ comment)
    with ((k0 :: key') ++ b1 ++ "=" :: b2 ++ W ++ comment).
  set (key := k0 :: key') in *.
  assert (Hnoe : c12_nochar "=" (key ++ b1) = true).
  { rewrite c12_no_app, Hkeq, (c12_blank_no "=" b1 c12_ws_not_eq Hb1). reflexivity. }
  assert (Hfull : c12_split_at "=" (key ++ b1 ++ "=" :: b2 ++ W ++ comment) = Some (key ++ b1, b2 ++ W ++ comment)).
  { replace (key ++ b1 ++ "=" :: b2 ++ W ++ comment) with ((key ++ b1) ++ "=" :: b2 ++ W ++ comment)
      by (now rewrite <- !app_assoc). apply c12_split_at_app. exact Hnoe. }
  rewrite Hfull.
  replace (key ++ b1 ++ "=" :: b2 ++ W ++ comment)
    with ((key ++ b1 ++ "=" :: b2 ++ W) ++ comment)
    by (rewrite <- !app_assoc; cbn [app]; now rewrite <- !app_assoc).
  assert (Hnoh : c12_nochar "#" (key ++ b1 ++ "=" :: b2 ++ W) = true).
  { rewrite !c12_no_app. cbn [c12_nochar forallb]. fold (c12_nochar "#" (b2 ++ W)).
    rewrite !c12_no_app, Hkh, HW, (c12_blank_no "#" b1 c12_ws_not_hash Hb1),
      (c12_blank_no "#" b2 c12_ws_not_hash Hb2). reflexivity. }
  rewrite (c12_before_app "#" _ comment Hnoh).
  assert (Hcb : c12_before "#" comment = []).
  { destruct comment as [|c cm]; [reflexivity|]. cbn in *. rewrite Hc. reflexivity. }
  rewrite Hcb, app_nil_r.
  replace (key ++ b1 ++ "=" :: b2 ++ W) with ((key ++ b1) ++ "=" :: b2 ++ W)
    by (now rewrite <- !app_assoc).
  rewrite (c12_split_at_app "=" _ _ Hnoe).
  subst key. rewrite (c12_trim_name _ b1 Hkt Hb1).
  rewrite !(c12_ltrim_blank_app b2 _ Hb2). reflexivity.
Qed.

Lemma c12_cut_nohash : forall q X acc rest, c12_nochar "#" X = true ->
  c12_cut_qcomment q acc (X ++ rest) = c12_cut_qcomment q (acc ++ X) rest.
Proof.
  induction X as [|x X IH]; intros acc rest H.
  - rewrite app_nil_r. reflexivity.
  - cbn in H. apply andb_true_iff in H as [H1 H2]. apply negb_true_iff in H1.
    cbn [app c12_cut_qcomment]. rewrite H1. cbn [andb]. rewrite (IH _ _ H2), <- app_assoc. reflexivity.
Qed.

(* plain right-hand side: both variants of the comment search agree *)
Lemma c12_classify_assign_plain : forall qhash b0 key b1 b2 W comment,
  c12_blankb b0 = true -> c12_blankb b1 = true -> c12_blankb b2 = true -> c12_key_ok key = true ->
  c12_nochar "#" W = true -> c12_comment_ok comment = true ->
  match c12_ltrim (W ++ comment) with q :: _ => c12_is_quote q = false | [] => True end ->
  c12_classify qhash (b0 ++ key ++ b1 ++ "=" :: b2 ++ W ++ comment) = C12Assign key (c12_ltrim W).
Proof.
  intros qhash b0 key b1 b2 W comment Hb0 Hb1 Hb2 Hk HW Hc Hq.
  rewrite c12_classify_assign_shape by assumption. destruct qhash; [|reflexivity].
  destruct (c12_ltrim (W ++ comment)) as [|q v1]; [reflexivity|]. rewrite Hq. reflexivity.
Qed.

(* quoted right-hand side q X, closed on this line when a comment follows *)
Lemma c12_classify_assign_quoted : forall qhash b0 key b1 b2 q X comment,
  c12_blankb b0 = true -> c12_blankb b1 = true -> c12_blankb b2 = true -> c12_key_ok key = true ->
  c12_is_quote q = true -> c12_nochar "#" X = true -> c12_comment_ok comment = true ->
  (comment = [] \/ c12_last_opt (c12_rtrim X) = Some q) ->
  c12_classify qhash (b0 ++ key ++ b1 ++ "=" :: b2 ++ (q :: X) ++ comment) = C12Assign key (q :: X).
Proof.
  intros qhash b0 key b1 b2 q X comment Hb0 Hb1 Hb2 Hk Hq HX Hc Hcl.
  assert (Hqh : Ascii.eqb q "#" = false).
  { apply (c12_quote_cases q Hq). }
  assert (HW : c12_nochar "#" (q :: X) = true).
  { cbn [c12_nochar forallb]. fold (c12_nochar "#" X). rewrite Hqh, HX. reflexivity. }
  assert (Hqws : c12_is_ws q = false).
  { apply (c12_quote_cases q Hq). }
  assert (Hlt : forall s, c12_ltrim (q :: s) = q :: s).
  { intros s. unfold c12_ltrim. cbn [c12_dropwhile]. rewrite Hqws. reflexivity. }
  rewrite c12_classify_assign_shape by assumption. rewrite Hlt.
  destruct qhash; [|reflexivity].
  cbn [app]. rewrite Hlt, Hq. f_equal. f_equal.
  rewrite (c12_cut_nohash q X [] comment HX). cbn [app].
  destruct comment as [|c cm]; [reflexivity|]. cbn in Hc. cbn [c12_cut_qcomment]. rewrite Hc.
  destruct Hcl as [Hcl|Hcl]; [discriminate|]. rewrite Hcl, Ascii.eqb_refl. reflexivity.
Qed.

Lemma c12_value_plain : forall value b3 rest ub,
  c12_blankb b3 = true -> c12_tightb value = true ->
  match value with c :: _ => negb (c12_is_quote c) | [] => true end = true ->
  c12_value (c12_ltrim (value ++ b3)) rest ub = (value, rest, ub).
Proof.
  intros value b3 rest ub Hb Ht Hq. destruct (c12_tightb_tight _ Ht) as [Hl Hr].
  destruct value as [|c v].
  - cbn [app]. rewrite (c12_ltrim_blank b3 Hb). reflexivity.
  - rewrite (c12_ltrim_cons_app c v b3 (c12_ltrim_head _ _ Hl)).
    cbn [app c12_value]. apply negb_true_iff in Hq. rewrite Hq.
    change (c :: v ++ b3) with ((c :: v) ++ b3). rewrite (c12_rtrim_app_blank _ _ Hb), Hr. reflexivity.
Qed.

(* ------------------------------------------------------------------ quoted values *)

Lemma c12_quote_not_ws : forall q, c12_is_quote q = true -> c12_is_ws q = false.
Proof.
  intros q H. apply (c12_quote_cases q H).
Qed.

Lemma c12_rtrim_snoc : forall s c, c12_is_ws c = false -> c12_rtrim (s ++ [c]) = s ++ [c].
Proof.
  induction s as [|x s IH]; intros c H; cbn.
  - rewrite H. reflexivity.
  - rewrite (IH c H). destruct (s ++ [c]) eqn:E; [destruct s; discriminate|].
    cbn. rewrite andb_false_r. reflexivity.
Qed.

Lemma c12_last_opt_snoc : forall s c, c12_last_opt (s ++ [c]) = Some c.
Proof.
  induction s as [|x s IH]; intros c; [reflexivity|]. cbn [app c12_last_opt].
  destruct (s ++ [c]) eqn:E; [destruct s; discriminate|]. rewrite <- E. apply IH.
Qed.

(* text ending with the quote (then blanks): the loop stops, the value is what precedes the quote *)
Lemma c12_closed : forall q X b3, c12_is_quote q = true -> c12_blankb b3 = true ->
  c12_last_opt (c12_rtrim (X ++ q :: b3)) = Some q /\ removelast (c12_rtrim (X ++ q :: b3)) = X.
Proof.
  intros q X b3 Hq Hb.
  replace (X ++ q :: b3) with ((X ++ [q]) ++ b3) by (now rewrite <- app_assoc).
  rewrite (c12_rtrim_app_blank _ _ Hb), (c12_rtrim_snoc _ _ (c12_quote_not_ws _ Hq)).
  split; [apply c12_last_opt_snoc|apply removelast_last].
Qed.

Lemma c12_quote_cont_closed : forall q value rest ub,
  c12_last_opt (c12_rtrim value) = Some q -> c12_quote_cont q value rest ub = (value, rest, ub).
Proof. intros q value rest ub H. destruct rest; cbn; rewrite H, Ascii.eqb_refl; reflexivity. Qed.

Lemma c12_quote_cont_open : forall q value l rest ub,
  c12_qopen q value = true ->
  exists ub', c12_quote_cont q value (l :: rest) ub = c12_quote_cont q (value ++ "010" :: l) rest ub'.
Proof.
  intros q value l rest ub H. unfold c12_qopen in H. cbn [c12_quote_cont].
  destruct (c12_last_opt (c12_rtrim value)) as [c|].
  - apply negb_true_iff in H. rewrite H. eexists. reflexivity.
  - eexists. reflexivity.
Qed.

Lemma c12_quote_cont_multi : forall q mid lastl b3 acc rest ub,
  c12_is_quote q = true -> c12_blankb b3 = true ->
  c12_qopen_all q acc (mid ++ [lastl]) = true ->
  exists ub', c12_quote_cont q acc (mid ++ [lastl ++ q :: b3] ++ rest) ub =
              (c12_qvalue acc (mid ++ [lastl]) ++ q :: b3, rest, ub').
Proof.
  intros q mid lastl b3. induction mid as [|m mid IH]; intros acc rest ub Hq Hb Ho.
  - cbn [app c12_qopen_all] in *. apply andb_true_iff in Ho as [Ho _].
    destruct (c12_quote_cont_open q acc (lastl ++ q :: b3) rest ub Ho) as [ub' E].
    exists ub'. eapply eq_trans; [exact E|]. unfold c12_qvalue. cbn [fold_left].
    replace (acc ++ "010"%char :: lastl ++ q :: b3) with ((acc ++ "010"%char :: lastl) ++ q :: b3)
      by (rewrite <- app_assoc; reflexivity).
    apply c12_quote_cont_closed. apply (c12_closed q _ b3 Hq Hb).
  - cbn [app c12_qopen_all] in *. apply andb_true_iff in Ho as [Ho Ho'].
    destruct (c12_quote_cont_open q acc m (mid ++ [lastl ++ q :: b3] ++ rest) ub Ho) as [ub1 E].
    destruct (IH (acc ++ "010"%char :: m) rest ub1 Hq Hb Ho') as [ub' E']. exists ub'. eapply eq_trans; [exact E|]. exact E'.
Qed.

Lemma c12_value_quoted1 : forall q l0 b3 rest ub, c12_is_quote q = true -> c12_blankb b3 = true ->
  c12_value (q :: l0 ++ q :: b3) rest ub = (l0, rest, ub).
Proof.
  intros q l0 b3 rest ub Hq Hb. cbn [c12_value]. rewrite Hq.
  destruct (c12_closed q l0 b3 Hq Hb) as [Hc Hr].
  rewrite (c12_quote_cont_closed _ _ rest ub Hc), Hr. reflexivity.
Qed.

Lemma c12_value_quotedN : forall q l0 mid lastl b3 rest ub, c12_is_quote q = true -> c12_blankb b3 = true ->
  c12_qopen_all q l0 (mid ++ [lastl]) = true ->
  exists ub', c12_value (q :: l0) (mid ++ [lastl ++ q :: b3] ++ rest) ub =
              (c12_qvalue l0 (mid ++ [lastl]), rest, ub').
Proof.
  intros q l0 mid lastl b3 rest ub Hq Hb Ho. cbn [c12_value]. rewrite Hq.
  destruct (c12_quote_cont_multi q mid lastl b3 l0 rest ub Hq Hb Ho) as [ub' E].
  exists ub'. rewrite E. destruct (c12_closed q (c12_qvalue l0 (mid ++ [lastl])) b3 Hq Hb) as [_ Hr]. rewrite Hr. reflexivity.
Qed.

(* ------------------------------------------------------------------ the line machine on a dialect document *)

Definition c12_ts (r : c12_ini_result) : c12_tree * c12_status := (c12_ir_tree r, c12_ir_status r).

Lemma c12_loop_skip : forall qhash fuel line rest pt prefix seen ow ub,
  c12_classify qhash line = C12Skip ->
  c12_ts (c12_ini_loop qhash (S fuel) (line :: rest) pt prefix seen ow ub) = c12_ts (c12_ini_loop qhash fuel rest pt prefix seen ow ub).
Proof. intros. cbn [c12_ini_loop]. rewrite H. reflexivity. Qed.

Lemma c12_loop_prefix : forall qhash fuel line rest pt prefix seen ow ub p,
  c12_classify qhash line = C12Prefix p ->
  c12_ts (c12_ini_loop qhash (S fuel) (line :: rest) pt prefix seen ow ub) = c12_ts (c12_ini_loop qhash fuel rest pt p seen ow ub).
Proof. intros. cbn [c12_ini_loop]. rewrite H. reflexivity. Qed.

Lemma c12_loop_assign : forall qhash fuel line rest pt prefix seen ow ub k value0 v rest' ub',
  c12_classify qhash line = C12Assign k value0 -> c12_value value0 rest ub = (v, rest', ub') ->
  c12_ts (c12_ini_loop qhash (S fuel) (line :: rest) pt prefix seen ow ub) =
  match c12_store pt seen ow (prefix ++ k) v with
  | inl (pt', seen') => c12_ts (c12_ini_loop qhash fuel rest' pt' prefix seen' ow ub')
  | inr e => e
  end.
Proof.
  intros. cbn [c12_ini_loop]. rewrite H, H0.
  destruct (c12_store pt seen ow (prefix ++ k) v) as [[pt' seen']|[pt' st]]; reflexivity.
Qed.

Lemma c12_quote_hash : forall q, c12_is_quote q = true -> Ascii.eqb q "#" = false.
Proof.
  intros q Hq. apply (c12_quote_cases q Hq).
Qed.

Lemma c12_ltrim_quote : forall q s, c12_is_quote q = true -> c12_ltrim (q :: s) = q :: s.
Proof. intros q s Hq. unfold c12_ltrim. cbn [c12_dropwhile]. rewrite (c12_quote_not_ws q Hq). reflexivity. Qed.

Lemma c12_simple_doc_loop : forall qhash ls fuel pt prefix seen ow ub,
  forallb c12_sline_ok ls = true -> length (flat_map c12_render_sline ls) < fuel ->
  c12_ts (c12_ini_loop qhash fuel (flat_map c12_render_sline ls) pt prefix seen ow ub) =
  c12_store_all (c12_sdoc_assigns ls prefix) pt seen ow.
Proof.
  intros qhash. induction ls as [|l ls IH]; intros fuel pt prefix seen ow ub Hok Hlen.
  - destruct fuel; [cbn in Hlen; lia|]. reflexivity.
  - destruct fuel as [|fuel]; [cbn in Hlen; lia|].
    cbn [forallb] in Hok. apply andb_true_iff in Hok as [Hl Hls].
    cbn [flat_map] in *. rewrite app_length in Hlen.
    destruct l as [b|b text|b0 b1 name b2 trail|b0 key b1 b2 value b3 comment
                   |b0 key b1 b2 q l0 b3 comment|b0 key b1 b2 q l0 mid lastl b3];
      cbn [c12_render_sline app length] in *.
    + eapply eq_trans; [apply c12_loop_skip; apply (c12_classify_blank qhash b Hl)|].
      cbn [c12_sdoc_assigns]. apply IH; [exact Hls|lia].
    + eapply eq_trans; [apply c12_loop_skip; apply (c12_classify_comment qhash b text Hl)|].
      cbn [c12_sdoc_assigns]. apply IH; [exact Hls|lia].
    + eapply eq_trans; [apply c12_loop_prefix; apply (c12_classify_header qhash _ _ _ _ _ Hl)|].
      cbn [c12_sdoc_assigns]. apply IH; [exact Hls|lia].
    + cbn [c12_sline_ok] in Hl. repeat (apply andb_true_iff in Hl as [Hl ?]).
      assert (HW : c12_nochar "#" (value ++ b3) = true).
      { rewrite c12_no_app. rewrite (c12_blank_no "#" b3 c12_ws_not_hash) by assumption. rewrite andb_true_r. assumption. }
      assert (Hnq : match c12_ltrim ((value ++ b3) ++ comment) with q :: _ => c12_is_quote q = false | [] => True end).
      { destruct value as [|v0 value'].
        - cbn [app]. rewrite (c12_ltrim_blank_app b3 _ ltac:(assumption)).
          destruct comment as [|c cm]; [exact I|]. cbn in H. apply Ascii.eqb_eq in H. subst c. reflexivity.
        - destruct (c12_tightb_tight _ ltac:(eassumption)) as [Hvl _].
          cbn [app]. unfold c12_ltrim. cbn [c12_dropwhile]. rewrite (c12_ltrim_head _ _ Hvl).
          match goal with Hx : negb (c12_is_quote v0) = true |- _ => apply negb_true_iff in Hx; exact Hx end. }
      eapply eq_trans.
      { eapply c12_loop_assign.
        - replace (b0 ++ key ++ b1 ++ "="%char :: b2 ++ value ++ b3 ++ comment)
            with (b0 ++ key ++ b1 ++ "="%char :: b2 ++ (value ++ b3) ++ comment) by (now rewrite <- app_assoc).
          apply c12_classify_assign_plain; assumption.
        - apply c12_value_plain; assumption. }
      cbn [c12_sdoc_assigns c12_store_all].
      destruct (c12_store pt seen ow (prefix ++ key) value) as [[pt' seen']|[pt' st]]; [apply IH; [exact Hls|lia]|reflexivity].
    + cbn [c12_sline_ok] in Hl. repeat (apply andb_true_iff in Hl as [Hl ?]).
      assert (Hq : c12_is_quote q = true) by assumption.
      assert (HX : c12_nochar "#" (l0 ++ q :: b3) = true).
      { rewrite c12_no_app. cbn [c12_nochar forallb]. fold (c12_nochar "#" b3).
        rewrite (c12_blank_no "#" b3 c12_ws_not_hash) by assumption.
        rewrite (c12_quote_hash q Hq). cbn. rewrite andb_true_r. assumption. }
      eapply eq_trans.
      { eapply c12_loop_assign.
        - apply (c12_classify_assign_quoted qhash b0 key b1 b2 q (l0 ++ q :: b3) comment); try assumption.
          right. apply (c12_closed q l0 b3 Hq). assumption.
        - apply c12_value_quoted1; assumption. }
      cbn [c12_sdoc_assigns c12_store_all].
      destruct (c12_store pt seen ow (prefix ++ key) l0) as [[pt' seen']|[pt' st]]; [apply IH; [exact Hls|lia]|reflexivity].
    + cbn [c12_sline_ok] in Hl. repeat (apply andb_true_iff in Hl as [Hl ?]).
      assert (Hq : c12_is_quote q = true) by assumption.
      destruct (c12_value_quotedN q l0 mid lastl b3 (flat_map c12_render_sline ls) ub Hq ltac:(assumption) ltac:(assumption)) as [ub' E].
      eapply eq_trans.
      { eapply c12_loop_assign.
        - replace (b0 ++ key ++ b1 ++ "="%char :: b2 ++ q :: l0)
            with (b0 ++ key ++ b1 ++ "="%char :: b2 ++ (q :: l0) ++ []) by (now rewrite app_nil_r).
          apply (c12_classify_assign_quoted qhash b0 key b1 b2 q l0 []); try assumption; [reflexivity|left; reflexivity].
        - rewrite <- app_assoc. exact E. }
      cbn [c12_sdoc_assigns c12_store_all].
      destruct (c12_store pt seen ow (prefix ++ key) _) as [[pt' seen']|[pt' st]]; [|reflexivity].
      apply IH; [exact Hls|]. rewrite app_length in Hlen. cbn in Hlen. lia.
Qed.

(* C12_roundtrip: for every document of the dialect (any layout of blanks, comment lines, trailing
   comments, group headers vs dotted keys, plain / quoted / multi-line quoted values), every
   pre-existing tree and both overwrite modes, readINITree does exactly "store the written
   (full key, value) list in order" *)
Lemma c12_roundtrip : forall qhash ls pt ow,
  forallb c12_sline_ok ls = true ->
  c12_ts (c12_parse_ini_lines qhash (flat_map c12_render_sline ls) pt ow) = c12_store_all (c12_sdoc_assigns ls []) pt [] ow.
Proof.
  intros qhash ls pt ow Hok. unfold c12_parse_ini_lines.
  apply c12_simple_doc_loop; [exact Hok|lia].
Qed.

(* ... and the same from the bytes of the document *)
Lemma c12_lines_app : forall l X, c12_nochar "010" l = true -> c12_lines (l ++ "010" :: X) = l :: c12_lines X.
Proof.
  induction l as [|x l IH]; intros X H.
  - reflexivity.
  - cbn in H. apply andb_true_iff in H as [H1 H2]. apply negb_true_iff in H1.
    cbn [app c12_lines]. rewrite H1, (IH X H2). reflexivity.
Qed.

Lemma c12_lines_single : forall l, c12_nochar "010" l = true -> c12_lines l = [l].
Proof.
  induction l as [|x l IH]; intros H; [reflexivity|].
  cbn in H. apply andb_true_iff in H as [H1 H2]. apply negb_true_iff in H1.
  cbn [c12_lines]. rewrite H1, (IH H2). reflexivity.
Qed.

Lemma c12_lines_join : forall ls, ls <> [] -> forallb (c12_nochar "010") ls = true ->
  c12_lines (c12_join_lines ls) = ls.
Proof.
  induction ls as [|l ls IH]; intros Hne H; [congruence|].
  cbn [forallb] in H. apply andb_true_iff in H as [Hl Hls].
  destruct ls as [|l2 ls].
  - cbn. apply c12_lines_single. exact Hl.
  - cbn [c12_join_lines]. rewrite (c12_lines_app l _ Hl). f_equal. apply IH; [discriminate|exact Hls].
Qed.

Lemma c12_roundtrip_bytes : forall qhash ls pt ow,
  forallb c12_sline_ok ls = true ->
  forallb (c12_nochar "010") (flat_map c12_render_sline ls) = true ->
  c12_ts (c12_parse_ini qhash (c12_join_lines (flat_map c12_render_sline ls)) pt ow) =
  c12_store_all (c12_sdoc_assigns ls []) pt [] ow.
Proof.
  intros qhash ls pt ow Hok Hnl. unfold c12_parse_ini.
  destruct (flat_map c12_render_sline ls) as [|x r] eqn:E.
  - destruct ls as [|l ls]; [reflexivity|].
    destruct l; cbn in E; discriminate.
  - rewrite c12_lines_join; [|discriminate|exact Hnl]. rewrite <- E. apply c12_roundtrip. exact Hok.
Qed.

(* ------------------------------------------------------------------ what storing means *)

(* keys already stored from this source stay in keysInFile *)
Lemma c12_store_seen : forall pt seen ow k v pt' seen',
  c12_store pt seen ow k v = inl (pt', seen') -> seen' = k :: seen.
Proof.
  intros pt seen ow k v pt' seen' H. unfold c12_store in H.
  destruct (existsb _ seen); [discriminate|].
  destruct ow; cbv zeta in H.
  - destruct (c12_set _ _ _) as [t ok]; destruct ok; inversion H; reflexivity.
  - destruct (c12_has_key _ _) as [[|]|]; cbn [negb] in H; try discriminate.
    + inversion H; reflexivity.
    + destruct (c12_set _ _ _) as [t ok]; destruct ok; inversion H; reflexivity.
Qed.

Lemma c12_store_inr_status : forall pt seen ow k v pt' st,
  c12_store pt seen ow k v = inr (pt', st) -> st <> C12Ok.
Proof.
  intros pt seen ow k v pt' st E. unfold c12_store in E.
  destruct (existsb (c12_eqs k) seen); [inversion E; discriminate|].
  destruct ow; cbv zeta in E.
  - destruct (c12_set pt (c12_path k) v) as [t ok]; destruct ok; inversion E; discriminate.
  - destruct (c12_has_key pt (c12_path k)) as [[|]|]; cbn [negb] in E; try discriminate; try (inversion E; discriminate).
    destruct (c12_set pt (c12_path k) v) as [t ok]; destruct ok; inversion E; discriminate.
Qed.

Lemma c12_store_dup : forall pt seen ow k v,
  existsb (c12_eqs k) seen = true -> c12_store pt seen ow k v = inr (pt, C12ParserError).
Proof. intros. unfold c12_store. rewrite H. reflexivity. Qed.

Lemma c12_existsb_mono : forall k x seen, existsb (c12_eqs k) seen = true -> existsb (c12_eqs k) (x :: seen) = true.
Proof. intros. cbn. rewrite H. apply orb_true_r. Qed.

(* once a key is in keysInFile, any later assignment of it ends the run with an error *)
Lemma c12_store_all_seen : forall l2 k v l3 pt seen ow,
  existsb (c12_eqs k) seen = true ->
  snd (c12_store_all (l2 ++ (k, v) :: l3) pt seen ow) <> C12Ok.
Proof.
  induction l2 as [|[k2 v2] l2 IH]; intros k v l3 pt seen ow Hs.
  - cbn [app c12_store_all]. rewrite (c12_store_dup _ _ _ _ _ Hs). cbn. discriminate.
  - cbn [app c12_store_all]. destruct (c12_store pt seen ow k2 v2) as [[pt' seen']|[pt' st]] eqn:E.
    + rewrite (c12_store_seen _ _ _ _ _ _ _ E). apply IH. apply c12_existsb_mono. exact Hs.
    + cbn. exact (c12_store_inr_status _ _ _ _ _ _ _ E).
Qed.

(* C12_duplicate: a key assigned twice in one source (in whatever spelling: the full keys are equal)
   is rejected, for every tree, overwrite mode, and whatever lies between and around *)
Lemma c12_duplicate : forall l1 k v1 l2 v2 l3 pt seen ow,
  snd (c12_store_all (l1 ++ (k, v1) :: l2 ++ (k, v2) :: l3) pt seen ow) <> C12Ok.
Proof.
  induction l1 as [|[k0 v0] l1 IH]; intros k v1 l2 v2 l3 pt seen ow.
  - cbn [app c12_store_all]. destruct (c12_store pt seen ow k v1) as [[pt' seen']|[pt' st]] eqn:E.
    + rewrite (c12_store_seen _ _ _ _ _ _ _ E). apply c12_store_all_seen. cbn. rewrite c12_eqs_refl. reflexivity.
    + cbn. exact (c12_store_inr_status _ _ _ _ _ _ _ E).
  - cbn [app c12_store_all]. destruct (c12_store pt seen ow k0 v0) as [[pt' seen']|[pt' st]] eqn:E.
    + apply IH.
    + cbn. exact (c12_store_inr_status _ _ _ _ _ _ _ E).
Qed.

(* and if nothing else goes wrong before it, the error is ParameterTreeParserError *)
Lemma c12_duplicate_status : forall pt seen ow k v,
  existsb (c12_eqs k) seen = true -> snd (c12_store_all [(k, v)] pt seen ow) = C12ParserError.
Proof. intros. cbn. rewrite (c12_store_dup _ _ _ _ _ H). reflexivity. Qed.

(* C12_overwrite: one assignment of a fresh-in-this-source key k.
   overwrite = false and k present: the tree is untouched;
   otherwise (and k not naming a subtree): afterwards k maps to the written value *)
Lemma c12_overwrite : forall pt seen k v,
  existsb (c12_eqs k) seen = false ->
  (c12_has_key pt (c12_path k) = Some true -> c12_store pt seen false k v = inl (pt, k :: seen)) /\
  (forall ow, (ow = true \/ c12_has_key pt (c12_path k) = Some false) ->
     c12_has_sub pt (c12_path k) = Some false ->
     forall pt' seen', c12_store pt seen ow k v = inl (pt', seen') ->
     c12_lookup pt' (c12_path k) = Some v).
Proof.
  intros pt seen k v Hs. split.
  - intros H. unfold c12_store. rewrite Hs, H. reflexivity.
  - intros ow How Hsub pt' seen' H. unfold c12_store in H. rewrite Hs in H.
    assert (Hset : forall t, c12_set pt (c12_path k) v = (t, true) -> c12_lookup t (c12_path k) = Some v).
    { intros t Ht. apply (c12_set_lookup _ _ _ _ (c12_path_nonempty k) Hsub Ht). }
    destruct ow; cbv zeta in H.
    + destruct (c12_set _ _ _) as [t ok] eqn:Es; destruct ok; inversion H; subst. apply Hset. reflexivity.
    + destruct How as [How|How]; [discriminate|]. rewrite How in H. cbn [negb] in H.
      destruct (c12_set _ _ _) as [t ok] eqn:Es; destruct ok; inversion H; subst. apply Hset. reflexivity.
Qed.

(* groups and dotted keys are two spellings of the same thing: two dialect documents that denote the same
   (full key, value) list are read to the same tree and status *)
Lemma c12_group_equals_dotted : forall qhash ls1 ls2 pt ow,
  forallb c12_sline_ok ls1 = true -> forallb c12_sline_ok ls2 = true ->
  c12_sdoc_assigns ls1 [] = c12_sdoc_assigns ls2 [] ->
  c12_ts (c12_parse_ini_lines qhash (flat_map c12_render_sline ls1) pt ow) =
  c12_ts (c12_parse_ini_lines qhash (flat_map c12_render_sline ls2) pt ow).
Proof. intros. rewrite !c12_roundtrip by assumption. congruence. Qed.
