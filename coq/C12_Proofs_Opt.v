(* C12 — readNamedOptions: positional arguments are mapped to the keywords in order. *)
From Coq Require Import List Ascii ZArith NArith Bool Lia Arith.
From DuneV Require Import C12_Model C12_Spec C12_Proofs_Tree.
Import ListNotations.
Local Open Scope char_scope.

Definition c12_done (i m : nat) : list bool := repeat true i ++ repeat false m.

Lemma c12_skip_done_spec : forall i m c, c12_skip_done (c12_done i m) c = c + i.
Proof.
  induction i as [|i IH]; intros m c.
  - unfold c12_done. cbn. destruct m; cbn; lia.
  - unfold c12_done in *. cbn. rewrite IH. lia.
Qed.

Lemma c12_skipn_done : forall c i m, c <= i -> skipn c (c12_done i m) = c12_done (i - c) m.
Proof.
  induction c as [|c IH]; intros i m H.
  - rewrite Nat.sub_0_r. reflexivity.
  - destruct i as [|i]; [lia|]. unfold c12_done in *. cbn. apply IH. lia.
Qed.

Lemma c12_mark_done : forall i m, c12_mark i (c12_done i (S m)) = c12_done (S i) m.
Proof.
  induction i as [|i IH]; intros m.
  - reflexivity.
  - unfold c12_done in *. cbn. f_equal. apply IH.
Qed.

Lemma c12_done_length : forall i m, length (c12_done i m) = i + m.
Proof. intros. unfold c12_done. rewrite app_length, !repeat_length. reflexivity. Qed.

Lemma c12_missing_done : forall i m required,
  c12_named_missing (c12_done i m) required = Nat.ltb i (Nat.min required (i + m)).
Proof.
  unfold c12_named_missing. induction i as [|i IH]; intros m required.
  - unfold c12_done. cbn [repeat app]. destruct required as [|r]; [destruct m; reflexivity|].
    destruct m as [|m]; [reflexivity|]. cbn. reflexivity.
  - destruct required as [|r]; [reflexivity|].
    unfold c12_done in *. cbn [repeat app firstn existsb negb orb]. rewrite IH.
    change (S i + m) with (S (i + m)). rewrite <- Nat.succ_min_distr. reflexivity.
Qed.

Lemma c12_skipn_nth : forall (l : list c12_str) i, i < length l -> skipn i l = nth i l [] :: skipn (S i) l.
Proof.
  induction l as [|x l IH]; intros i H; [cbn in H; lia|].
  destruct i as [|i]; [reflexivity|]. cbn in H. cbn [skipn nth]. apply IH. lia.
Qed.

Lemma c12_plain_not_help : forall opt, c12_plain_arg opt = true ->
  c12_dashdash opt = None /\ (c12_eqs opt ["-"; "h"] || c12_eqs opt ["-"; "-"; "h"; "e"; "l"; "p"]) = false.
Proof.
  intros opt H. unfold c12_plain_arg in H.
  destruct (c12_dashdash opt) eqn:Ed; [discriminate|]. split; [reflexivity|].
  apply negb_true_iff in H. rewrite H. cbn [orb].
  destruct (c12_eqs opt ["-"; "-"; "h"; "e"; "l"; "p"]) eqn:E; [|reflexivity].
  apply c12_eqs_eq in E. subst. discriminate.
Qed.

Lemma c12_named_store_ow : forall pt key value,
  c12_named_store pt key value true =
  (fst (c12_set pt (c12_path key) value), if snd (c12_set pt (c12_path key) value) then C12Ok else C12RangeError).
Proof. intros. unfold c12_named_store. destruct (c12_set pt (c12_path key) value). reflexivity. Qed.

(* verdict of readNamedOptions from the loop's result *)
Definition c12_fin (required : nat) (r : c12_tree * c12_status * list bool) : c12_tree * c12_status :=
  let '(t, st, d) := r in
  match st with
  | C12Ok => (t, if c12_named_missing d required then C12ParserError else C12Ok)
  | _ => (t, st)
  end.

Definition c12_pos_spec (kw args : list c12_str) (i required : nat) (pt : c12_tree) : c12_tree * c12_status :=
  let n := length kw in
  let '(t, st) := c12_set_all (combine (skipn i kw) args) pt in
  match st with
  | C12Ok => if Nat.ltb (n - i) (length args) then (t, C12ParserError)
             else if Nat.ltb (i + length args) (Nat.min required n) then (t, C12ParserError)
             else (t, C12Ok)
  | _ => (t, st)
  end.

Lemma c12_named_positional_loop : forall kw required am args i current pt,
  current <= i -> i <= length kw -> forallb c12_plain_arg args = true ->
  c12_fin required (c12_named_loop args pt kw (c12_done i (length kw - i)) current am true) =
  c12_pos_spec kw args i required pt.
Proof.
  intros kw required am. induction args as [|opt rest IH]; intros i current pt Hc Hi Hp.
  - cbn [c12_named_loop c12_fin]. unfold c12_pos_spec.
    assert (Hcomb : combine (skipn i kw) (@nil c12_str) = []) by (destruct (skipn i kw); reflexivity).
    rewrite Hcomb. cbn [c12_set_all length]. rewrite c12_missing_done.
    replace (i + (length kw - i)) with (length kw) by lia. rewrite Nat.add_0_r.
    generalize (Nat.ltb i (Nat.min required (length kw))). intros b. destruct (length kw - i); destruct b; reflexivity.
  - cbn [forallb] in Hp. apply andb_true_iff in Hp as [Hopt Hrest].
    destruct (c12_plain_not_help opt Hopt) as [Hdd Hhelp].
    cbn [c12_named_loop]. rewrite Hhelp, Hdd.
    rewrite (c12_skipn_done current i _ Hc), c12_skip_done_spec.
    replace (current + (i - current)) with i by lia.
    rewrite c12_done_length. replace (i + (length kw - i)) with (length kw) by lia.
    destruct (Nat.leb (length kw) i) eqn:El.
    + apply Nat.leb_le in El. assert (i = length kw) by lia. subst i.
      cbn [c12_fin]. unfold c12_pos_spec. rewrite skipn_all. cbn [combine c12_set_all length].
      rewrite Nat.sub_diag. reflexivity.
    + apply Nat.leb_gt in El.
      rewrite c12_named_store_ow.
      unfold c12_pos_spec. rewrite (c12_skipn_nth kw i El). cbn [combine c12_set_all length].
      destruct (c12_set pt (c12_path (nth i kw [])) opt) as [pt' ok]. cbn [fst snd].
      destruct ok.
      * replace (length kw - i) with (S (length kw - S i)) by lia. rewrite c12_mark_done.
        rewrite (IH (S i) i pt' ltac:(lia) ltac:(lia) Hrest). unfold c12_pos_spec.
        destruct (c12_set_all (combine (skipn (S i) kw) rest) pt') as [t st].
        destruct st; try reflexivity.
        replace (S i + length rest) with (i + S (length rest)) by lia.
        destruct (Nat.ltb_spec (length kw - S i) (length rest)), (Nat.ltb_spec (S (length kw - S i)) (S (length rest)));
          try lia; reflexivity.
      * reflexivity.
Qed.

(* C12_options (readNamedOptions, positional part): arguments that are neither --name=value nor a
   help request are assigned to the keywords in order; more arguments than keywords is an error
   ("superfluous"), fewer than the required number is an error ("missing") *)
Lemma c12_named_positional : forall args kw required am pt,
  forallb c12_plain_arg args = true ->
  c12_read_named_options args pt kw required am true = c12_spec_named_positional args kw required pt.
Proof.
  intros args kw required am pt Hp. unfold c12_read_named_options.
  pose proof (c12_named_positional_loop kw required am args 0 0 pt (le_n 0) (Nat.le_0_l _) Hp) as H.
  rewrite Nat.sub_0_r in H. unfold c12_done in H. cbn [repeat app] in H.
  unfold c12_fin in H.
  destruct (c12_named_loop args pt kw (repeat false (length kw)) 0 am true) as [[t st] d].
  unfold c12_spec_named_positional. unfold c12_pos_spec in H. cbn [skipn] in H. rewrite Nat.sub_0_r in H. cbn [Nat.add] in H.
  destruct st; exact H.
Qed.

(* ------------------------------------------------------------------ readNamedOptions in full *)

Lemma c12_skip_done_fu : forall l c, c12_skip_done l c = c + c12_first_unused l.
Proof.
  induction l as [|b l IH]; intros c; [cbn; lia|]. destruct b; cbn; [rewrite IH; lia|lia].
Qed.

(* the `current` cursor of the code is the first keyword without a value, as long as everything before it has one *)
Lemma c12_cursor : forall done c, c <= length done -> forallb (fun b => b) (firstn c done) = true ->
  c12_skip_done (skipn c done) c = c12_first_unused done.
Proof.
  induction done as [|b done IH]; intros c Hc Hall.
  - cbn in Hc. assert (c = 0) by lia. subst. reflexivity.
  - destruct c as [|c]; [apply c12_skip_done_fu|].
    cbn in Hall. apply andb_true_iff in Hall as [Hb Hall]. subst b. cbn in Hc.
    cbn [skipn c12_first_unused]. rewrite c12_skip_done_fu.
    specialize (IH c ltac:(lia) Hall). rewrite c12_skip_done_fu in IH. lia.
Qed.

Lemma c12_fu_le : forall l, c12_first_unused l <= length l.
Proof. induction l as [|[] l IH]; cbn; lia. Qed.

Lemma c12_fu_prefix : forall l, forallb (fun b => b) (firstn (c12_first_unused l) l) = true.
Proof. induction l as [|[] l IH]; cbn; [reflexivity|exact IH|reflexivity]. Qed.

Lemma c12_mark_length : forall i l, length (c12_mark i l) = length l.
Proof. intros i l. revert i. induction l as [|b l IH]; intros [|i]; cbn; try reflexivity. rewrite IH. reflexivity. Qed.

Lemma c12_mark_prefix : forall n i l, forallb (fun b => b) (firstn n l) = true ->
  forallb (fun b => b) (firstn n (c12_mark i l)) = true.
Proof.
  induction n as [|n IH]; intros i l H; [reflexivity|].
  destruct l as [|b l]; [destruct i; reflexivity|]. cbn in H. apply andb_true_iff in H as [Hb H]. subst b.
  destruct i as [|i]; cbn; [exact H|apply IH; exact H].
Qed.

Lemma c12_named_loop_spec : forall kw am ow args pt done current,
  current <= length done -> forallb (fun b => b) (firstn current done) = true ->
  c12_named_loop args pt kw done current am ow = c12_spec_named_loop args pt kw done am ow.
Proof.
  intros kw am ow. induction args as [|opt rest IH]; intros pt done current Hc Hall; [reflexivity|].
  cbn [c12_named_loop c12_spec_named_loop]. unfold c12_arg_kind_of.
  destruct (c12_eqs opt ["-"%char; "h"%char] || c12_eqs opt ["-"%char; "-"%char; "h"%char; "e"%char; "l"%char; "p"%char]); [reflexivity|].
  destruct (c12_dashdash opt) as [body|].
  - destruct (c12_split_at "=" body) as [[key value]|]; [|reflexivity].
    destruct (c12_index_of key kw) as [i|].
    + rewrite andb_false_r.
      destruct (c12_named_store pt key value ow) as [pt' st]. destruct st; try reflexivity.
      apply IH; [rewrite c12_mark_length; exact Hc|apply c12_mark_prefix; exact Hall].
    + destruct am; cbn [negb andb]; [|reflexivity].
      destruct (c12_named_store pt key value ow) as [pt' st]. destruct st; try reflexivity.
      apply IH; assumption.
  - rewrite (c12_cursor done current Hc Hall). cbv zeta.
    destruct (Nat.leb (length done) (c12_first_unused done)); [reflexivity|].
    destruct (c12_named_store pt (nth (c12_first_unused done) kw []) opt ow) as [pt' st]. destruct st; try reflexivity.
    apply IH; [rewrite c12_mark_length; apply c12_fu_le|apply c12_mark_prefix; apply c12_fu_prefix].
Qed.

(* C12_options_positional, full statement: for ALL argument vectors, keyword lists, trees and flags
   readNamedOptions is the documented mapping c12_spec_read_named (help, --name=value with the "value missing" /
   "unknown" errors, positional arguments to the first keyword without a value, "superfluous", "already
   specified", "missing") *)
Lemma c12_read_named_spec : forall args pt kw required am ow,
  c12_read_named_options args pt kw required am ow = c12_spec_read_named args pt kw required am ow.
Proof.
  intros. unfold c12_read_named_options, c12_spec_read_named.
  rewrite (c12_named_loop_spec kw am ow args pt (repeat false (length kw)) 0 (Nat.le_0_l _) eq_refl).
  destruct (c12_spec_named_loop args pt kw (repeat false (length kw)) am ow) as [[t st] d].
  destruct st; reflexivity.
Qed.

(* ------------------------------------------------------------------ readOptions for every argument vector *)
Lemma c12_read_options_spec : forall args pt, c12_read_options args pt = c12_spec_read_options args pt.
Proof.
  assert (G : forall n args, length args <= n -> forall pt, c12_read_options args pt = c12_spec_read_options args pt).
  { induction n as [|n IH]; intros args Hn pt.
    - destruct args; [reflexivity|cbn in Hn; lia].
    - destruct args as [|a rest]; [reflexivity|]. cbn in Hn.
      unfold c12_spec_read_options. cbn [c12_read_options c12_options_scan].
      destruct a as [|c [|c2 a']].
      + cbn [c12_is_option]. specialize (IH rest ltac:(lia) pt). unfold c12_spec_read_options in IH. exact IH.
      + cbn [c12_is_option].
        assert (E : c12_read_options rest pt = c12_spec_read_options rest pt) by (apply IH; lia).
        unfold c12_spec_read_options in E.
        destruct c as [[] [] [] [] [] [] [] []]; exact E.
      + cbn [c12_is_option].
        destruct (Ascii.eqb_spec c "-"%char) as [->|Hc].
        * destruct rest as [|v rest']; [reflexivity|]. cbn [tl c12_set_all].
          destruct (c12_options_scan rest') as [l d] eqn:Escan. cbn [c12_set_all].
          destruct (c12_set pt (c12_path (c2 :: a')) v) as [pt' ok]. destruct ok; [|reflexivity].
          cbn in Hn. specialize (IH rest' ltac:(lia) pt'). unfold c12_spec_read_options in IH. rewrite Escan in IH. exact IH.
        * assert (E : c12_read_options rest pt = c12_spec_read_options rest pt) by (apply IH; lia).
          unfold c12_spec_read_options in E.
          destruct c as [[] [] [] [] [] [] [] []]; try exact E; congruence. }
  intros args pt. apply (G (length args)). lia.
Qed.
