(* C12 — key lists: getValueKeys/getSubKeys of every node are in order of first appearance. *)
From Coq Require Import List Ascii ZArith NArith Bool Lia.
From DuneV Require Import C12_Model C12_Spec C12_Proofs_Tree C12_Proofs_Frame C12_Proofs_Lex.
Import ListNotations.

Definition c12_in (k : c12_str) (l : list c12_str) : bool := existsb (c12_eqs k) l.
(* append if absent *)
Definition c12_push (l : list c12_str) (new : list c12_str) : list c12_str := l ++ c12_nodup new l.

Lemma c12_in_keys : forall A k (l : list (c12_str * A)), c12_in k (map fst l) = c12_mem k l.
Proof.
  induction l as [|[k' a] l IH]; [reflexivity|]. unfold c12_in, c12_mem in *. cbn.
  destruct (c12_eqs k k'); [reflexivity|exact IH].
Qed.

Lemma c12_in_sym : forall x l, existsb (c12_eqs x) l = existsb (fun y => c12_eqs y x) l.
Proof. induction l as [|y l IH]; [reflexivity|]. cbn. rewrite IH, c12_eqs_sym. reflexivity. Qed.

Lemma c12_keys_assoc_set : forall A k (a : A) l,
  map fst (c12_assoc_set k a l) = c12_push (map fst l) [k].
Proof.
  intros A k a l. unfold c12_push. cbn [c12_nodup].
  change (existsb (c12_eqs k) (map fst l)) with (c12_in k (map fst l)). rewrite c12_in_keys.
  induction l as [|[k' a'] l IH].
  - reflexivity.
  - unfold c12_mem in *. cbn. destruct (c12_eqs k k') eqn:E; cbn.
    + rewrite app_nil_r. reflexivity.
    + f_equal. exact IH.
Qed.

Lemma c12_keys_app_new : forall A k (a : A) l, c12_assoc k l = None ->
  map fst (l ++ [(k, a)]) = c12_push (map fst l) [k].
Proof.
  intros A k a l H. unfold c12_push. cbn [c12_nodup].
  change (existsb (c12_eqs k) (map fst l)) with (c12_in k (map fst l)). rewrite c12_in_keys.
  unfold c12_mem. rewrite H. rewrite map_app. reflexivity.
Qed.

Lemma c12_push_nil : forall l, c12_push l [] = l.
Proof. intros. unfold c12_push. cbn. apply app_nil_r. Qed.

Lemma c12_push_present : forall l k, c12_in k l = true -> c12_push l [k] = l.
Proof. intros l k H. unfold c12_push, c12_in in *. cbn. rewrite H. apply app_nil_r. Qed.

Lemma c12_node_empty : forall pr, c12_node c12_empty pr = c12_empty.
Proof. destruct pr; reflexivity. Qed.

Lemma c12_strip_prefix_nil_r : forall pr k, c12_strip_prefix pr [k] = Some [k] -> pr = [].
Proof. intros [|a pr] k H; [reflexivity|]. cbn in H. destruct (c12_eqs a k); [destruct pr; discriminate|discriminate]. Qed.

(* STEP: a successful pt[p] = ... appends, at every node, the key it newly creates there -- and nothing else *)
Lemma c12_upd_keys : forall p pr t f t',
  c12_upd t p f = (t', true) ->
  c12_vkeys t' pr = c12_push (c12_vkeys t pr) (c12_vcand pr p) /\
  c12_skeys t' pr = c12_push (c12_skeys t pr) (c12_scand pr p).
Proof.
  induction p as [|k p IH]; intros pr t f t' H.
  - cbn in H. inversion H; subst. unfold c12_vcand, c12_scand.
    destruct pr; cbn; rewrite !c12_push_nil; split; reflexivity.
  - destruct p as [|k2 p].
    + (* leaf *)
      rewrite c12_upd_leaf in H.
      assert (Hsubs : c12_subs t' = c12_subs t).
      { destruct (c12_assoc k (c12_vals t)); [destruct (c12_mem k (c12_subs t)); [discriminate|]|]; inversion H; reflexivity. }
      destruct pr as [|a pr].
      * unfold c12_vkeys, c12_skeys, c12_vcand, c12_scand. cbn [c12_node c12_strip_prefix]. rewrite Hsubs, c12_push_nil.
        split; [|reflexivity].
        destruct (c12_assoc k (c12_vals t)) as [old|] eqn:Ea.
        -- destruct (c12_mem k (c12_subs t)); [discriminate|]. inversion H; subst. cbn [c12_vals].
           apply c12_keys_assoc_set.
        -- inversion H; subst. cbn [c12_vals]. apply c12_keys_app_new. exact Ea.
      * unfold c12_vkeys, c12_skeys, c12_vcand, c12_scand. cbn [c12_node]. rewrite Hsubs.
        assert (Hn : match c12_strip_prefix (a :: pr) [k] with Some [x] => [x] | _ => [] end = []
                     /\ match c12_strip_prefix (a :: pr) [k] with Some (x :: _ :: _) => [x] | _ => [] end = []).
        { cbn. destruct (c12_eqs a k); [destruct pr; split; reflexivity|split; reflexivity]. }
        destruct Hn as [Hn1 Hn2]. rewrite Hn1, Hn2, !c12_push_nil. split; reflexivity.
    + (* inner *)
      rewrite c12_upd_cons2 in H. destruct (c12_mem k (c12_vals t)) eqn:Hv; [discriminate|]. cbv zeta in H.
      destruct (c12_upd (match c12_assoc k (c12_subs t) with Some s => s | None => c12_empty end) (k2 :: p) f)
        as [s' ok] eqn:Eu. inversion H; subst. clear H.
      destruct pr as [|a pr].
      * unfold c12_vkeys, c12_skeys, c12_vcand, c12_scand. cbn [c12_node c12_strip_prefix c12_vals c12_subs].
        rewrite c12_push_nil. split; [reflexivity|]. apply c12_keys_assoc_set.
      * unfold c12_vkeys, c12_skeys, c12_vcand, c12_scand. cbn [c12_node c12_strip_prefix c12_subs].
        destruct (c12_eqs a k) eqn:Eak.
        -- apply c12_eqs_eq in Eak. subst a. rewrite c12_assoc_set_same.
           destruct (IH pr _ f s' Eu) as [IHv IHs]. unfold c12_vkeys, c12_skeys, c12_vcand, c12_scand in IHv, IHs.
           destruct (c12_assoc k (c12_subs t)) as [s|]; [split; assumption|].
           rewrite c12_node_empty in IHv, IHs. split; assumption.
        -- rewrite (c12_assoc_set_other _ k a s' (c12_subs t) Eak). rewrite !c12_push_nil. split; reflexivity.
Qed.

(* a present key contributes nothing new *)
Lemma c12_has_key_keys : forall p pr t,
  c12_has_key t p = Some true ->
  c12_push (c12_vkeys t pr) (c12_vcand pr p) = c12_vkeys t pr /\
  c12_push (c12_skeys t pr) (c12_scand pr p) = c12_skeys t pr.
Proof.
  induction p as [|k p IH]; intros pr t H; [discriminate|].
  destruct p as [|k2 p].
  - rewrite c12_has_key_leaf in H. destruct (c12_assoc k (c12_vals t)) as [v|] eqn:Ea; [|discriminate].
    destruct pr as [|a pr]; unfold c12_vkeys, c12_skeys, c12_vcand, c12_scand; cbn [c12_node c12_strip_prefix].
    + rewrite c12_push_nil. split; [|reflexivity]. apply c12_push_present. rewrite c12_in_keys.
      unfold c12_mem. rewrite Ea. reflexivity.
    + destruct (c12_eqs a k); [destruct pr|]; rewrite !c12_push_nil; split; reflexivity.
  - rewrite c12_has_key_cons2 in H. destruct (c12_assoc k (c12_subs t)) as [s|] eqn:Es; [|discriminate].
    destruct (c12_mem k (c12_vals t)); [discriminate|].
    destruct pr as [|a pr]; unfold c12_vkeys, c12_skeys, c12_vcand, c12_scand; cbn [c12_node c12_strip_prefix].
    + rewrite c12_push_nil. split; [reflexivity|]. apply c12_push_present. rewrite c12_in_keys.
      unfold c12_mem. rewrite Es. reflexivity.
    + destruct (c12_eqs a k) eqn:Eak.
      * apply c12_eqs_eq in Eak. subst a. rewrite Es. apply (IH pr s H).
      * rewrite !c12_push_nil. split; reflexivity.
Qed.

Lemma c12_store_keys : forall t seen ow k v t' seen' pr,
  c12_store t seen ow k v = inl (t', seen') ->
  c12_vkeys t' pr = c12_push (c12_vkeys t pr) (c12_vcand pr (c12_path k)) /\
  c12_skeys t' pr = c12_push (c12_skeys t pr) (c12_scand pr (c12_path k)).
Proof.
  intros t seen ow k v t' seen' pr H. unfold c12_store in H.
  destruct (existsb (c12_eqs k) seen); [discriminate|].
  assert (Hset : forall t1, c12_set t (c12_path k) v = (t1, true) ->
                 c12_vkeys t1 pr = c12_push (c12_vkeys t pr) (c12_vcand pr (c12_path k)) /\
                 c12_skeys t1 pr = c12_push (c12_skeys t pr) (c12_scand pr (c12_path k))).
  { intros t1 Hs. apply (c12_upd_keys _ _ _ _ _ Hs). }
  destruct ow; cbv zeta in H.
  - destruct (c12_set t (c12_path k) v) as [t1 ok] eqn:Es; destruct ok; inversion H; subst. apply Hset. reflexivity.
  - destruct (c12_has_key t (c12_path k)) as [[|]|] eqn:Eh; cbn [negb] in H; try discriminate.
    + inversion H; subst. destruct (c12_has_key_keys _ pr _ Eh) as [H1 H2]. rewrite H1, H2. split; reflexivity.
    + destruct (c12_set t (c12_path k) v) as [t1 ok] eqn:Es; destruct ok; inversion H; subst. apply Hset. reflexivity.
Qed.

(* ------------------------------------------------------------------ first occurrences *)

Lemma c12_nodup_ext : forall l s1 s2, (forall x, c12_in x s1 = c12_in x s2) -> c12_nodup l s1 = c12_nodup l s2.
Proof.
  induction l as [|x l IH]; intros s1 s2 H; [reflexivity|]. cbn.
  change (existsb (c12_eqs x) s1) with (c12_in x s1). change (existsb (c12_eqs x) s2) with (c12_in x s2).
  rewrite (H x). destruct (c12_in x s2); [apply IH; exact H|].
  f_equal. apply IH. intros y. unfold c12_in in *. cbn. rewrite (H y). reflexivity.
Qed.

Lemma c12_in_app : forall x a b, c12_in x (a ++ b) = c12_in x a || c12_in x b.
Proof. intros. unfold c12_in. apply existsb_app. Qed.

Lemma c12_in_eq_true : forall x y l, c12_eqs x y = true -> c12_in x l = c12_in y l.
Proof. intros x y l H. apply c12_eqs_eq in H. subst. reflexivity. Qed.

Lemma c12_nodup_app : forall a b seen,
  c12_nodup (a ++ b) seen = c12_nodup a seen ++ c12_nodup b (a ++ seen).
Proof.
  induction a as [|x a IH]; intros b seen; [reflexivity|]. cbn [app c12_nodup].
  change (existsb (c12_eqs x) seen) with (c12_in x seen).
  destruct (c12_in x seen) eqn:Ex.
  - rewrite IH. f_equal. apply c12_nodup_ext. intros y. unfold c12_in in *. cbn.
    rewrite !existsb_app.
    destruct (c12_eqs y x) eqn:Eyx; [|reflexivity].
    apply c12_eqs_eq in Eyx. subst y. rewrite Ex. cbn. rewrite orb_true_r. reflexivity.
  - cbn [app]. f_equal. rewrite IH. f_equal. apply c12_nodup_ext. intros y. unfold c12_in. cbn.
    rewrite !existsb_app. cbn. destruct (c12_eqs y x); destruct (existsb (c12_eqs y) a); reflexivity.
Qed.

Lemma c12_in_nodup : forall x a seen, c12_in x (c12_nodup a seen) || c12_in x seen = c12_in x a || c12_in x seen.
Proof.
  induction a as [|y a IH]; intros seen; [reflexivity|]. cbn [c12_nodup].
  change (existsb (c12_eqs y) seen) with (c12_in y seen).
  destruct (c12_in y seen) eqn:Ey.
  - rewrite IH. unfold c12_in at 3. cbn. fold (c12_in x a).
    destruct (c12_eqs x y) eqn:Exy; [|reflexivity].
    rewrite (c12_in_eq_true _ _ seen Exy), Ey. rewrite !orb_true_r. reflexivity.
  - unfold c12_in at 1 3. cbn. fold (c12_in x (c12_nodup a (y :: seen))). fold (c12_in x a).
    specialize (IH (y :: seen)). unfold c12_in at 2 4 in IH. cbn in IH. fold (c12_in x seen) in IH.
    destruct (c12_eqs x y); cbn in *; [reflexivity|exact IH].
Qed.

Lemma c12_push_push : forall l a b, c12_push (c12_push l a) b = c12_push l (a ++ b).
Proof.
  intros l a b. unfold c12_push. rewrite c12_nodup_app, <- app_assoc. f_equal. f_equal.
  apply c12_nodup_ext. intros x. rewrite !c12_in_app.
  rewrite (orb_comm (c12_in x l)), c12_in_nodup. reflexivity.
Qed.

(* WHOLE SOURCE: afterwards the key lists of every node are the old ones followed by the newly written keys
   in order of first appearance *)
Lemma c12_store_all_keys : forall kvs t seen ow t' pr,
  c12_store_all kvs t seen ow = (t', C12Ok) ->
  c12_vkeys t' pr = c12_push (c12_vkeys t pr) (flat_map (fun kv => c12_vcand pr (c12_path (fst kv))) kvs) /\
  c12_skeys t' pr = c12_push (c12_skeys t pr) (flat_map (fun kv => c12_scand pr (c12_path (fst kv))) kvs).
Proof.
  induction kvs as [|[k v] kvs IH]; intros t seen ow t' pr H.
  - cbn in H. inversion H; subst. cbn. rewrite !c12_push_nil. split; reflexivity.
  - cbn [c12_store_all] in H. destruct (c12_store t seen ow k v) as [[t1 seen1]|[t1 st]] eqn:Es.
    + destruct (c12_store_keys _ _ _ _ _ _ _ pr Es) as [Hv Hs].
      destruct (IH _ _ _ _ pr H) as [IHv IHs]. cbn [flat_map fst].
      rewrite IHv, IHs, Hv, Hs, !c12_push_push. split; reflexivity.
    + inversion H; subst. exfalso. exact (c12_store_inr_status _ _ _ _ _ _ _ Es eq_refl).
Qed.

Lemma c12_flat_map_map : forall A B C (g : A -> B) (f : B -> list C) l, flat_map f (map g l) = flat_map (fun x => f (g x)) l.
Proof. induction l as [|x l IH]; [reflexivity|]. cbn. rewrite IH. reflexivity. Qed.

(* C12_key_order: a source read into the empty tree: at EVERY node, getValueKeys and getSubKeys are exactly
   the spec's lists -- the keys written directly below / further below that node, in order of first appearance *)
Lemma c12_key_order : forall kvs ow t' pr,
  c12_store_all kvs c12_empty [] ow = (t', C12Ok) ->
  let d := map (fun kv : c12_str * c12_str => (c12_path (fst kv), snd kv)) kvs in
  c12_vkeys t' pr = c12_spec_value_keys d pr /\ c12_skeys t' pr = c12_spec_sub_keys d pr.
Proof.
  intros kvs ow t' pr H d. destruct (c12_store_all_keys _ _ _ _ _ pr H) as [Hv Hs].
  assert (Hev : c12_vkeys c12_empty pr = []) by (unfold c12_vkeys; rewrite c12_node_empty; reflexivity).
  assert (Hes : c12_skeys c12_empty pr = []) by (unfold c12_skeys; rewrite c12_node_empty; reflexivity).
  rewrite Hev in Hv. rewrite Hes in Hs. unfold c12_push in Hv, Hs. cbn [app] in Hv, Hs.
  unfold c12_spec_value_keys, c12_spec_sub_keys. subst d. rewrite !c12_flat_map_map. cbn [fst].
  split; assumption.
Qed.

(* no key is listed twice *)
Lemma c12_nodup_spec : forall l seen x, In x (c12_nodup l seen) -> c12_in x seen = false.
Proof.
  induction l as [|y l IH]; intros seen x H; [destruct H|]. cbn in H.
  change (existsb (c12_eqs y) seen) with (c12_in y seen) in H.
  destruct (c12_in y seen) eqn:Ey.
  - apply (IH _ _ H).
  - destruct H as [->|H]; [exact Ey|]. specialize (IH _ _ H). unfold c12_in in *. cbn in IH.
    apply orb_false_iff in IH as [_ IH]. exact IH.
Qed.

Lemma c12_nodup_NoDup : forall l seen, NoDup (c12_nodup l seen).
Proof.
  induction l as [|y l IH]; intros seen; [constructor|]. cbn.
  destruct (existsb (c12_eqs y) seen); [apply IH|]. constructor; [|apply IH].
  intros Hin. apply c12_nodup_spec in Hin. unfold c12_in in Hin. cbn in Hin. rewrite c12_eqs_refl in Hin. discriminate.
Qed.

Lemma c12_keys_unique : forall kvs ow t' pr,
  c12_store_all kvs c12_empty [] ow = (t', C12Ok) -> NoDup (c12_vkeys t' pr) /\ NoDup (c12_skeys t' pr).
Proof.
  intros kvs ow t' pr H. destruct (c12_key_order kvs ow t' pr H) as [Hv Hs]. rewrite Hv, Hs.
  split; apply c12_nodup_NoDup.
Qed.
