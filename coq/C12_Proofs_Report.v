(* C12 — report() followed by readINITree(). *)
From Coq Require Import List Ascii ZArith NArith Bool Lia.
From DuneV Require Import C12_Model C12_Spec C12_Proofs_Tree C12_Proofs_Frame C12_Proofs_Lex C12_Proofs_Api.
Import ListNotations.
Local Open Scope char_scope.

(* the report text is the rendering of its lines as dialect items *)
Lemma c12_render_rline_sline : forall l, c12_render_sline (c12_rline_sline l) = [c12_render_rline l].
Proof.
  intros [k v|n]; cbn.
  - rewrite app_nil_r. reflexivity.
  - reflexivity.
Qed.

Lemma c12_report_lines_items : forall rl, map c12_render_rline rl = flat_map c12_render_sline (map c12_rline_sline rl).
Proof. induction rl as [|l rl IH]; [reflexivity|]. cbn [map flat_map]. rewrite c12_render_rline_sline, <- IH. reflexivity. Qed.

(* ------------------------------------------------------------------ assignments of concatenated item lists *)
Fixpoint c12_sdoc_prefix (ls : list c12_sline) (prefix : c12_str) : c12_str :=
  match ls with
  | [] => prefix
  | C12SHeader _ _ name _ _ :: r => c12_sdoc_prefix r (if c12_is_nil name then [] else name ++ ["."])
  | _ :: r => c12_sdoc_prefix r prefix
  end.

Lemma c12_sdoc_assigns_app : forall l1 l2 cur,
  c12_sdoc_assigns (l1 ++ l2) cur = c12_sdoc_assigns l1 cur ++ c12_sdoc_assigns l2 (c12_sdoc_prefix l1 cur).
Proof.
  induction l1 as [|x l1 IH]; intros l2 cur; [reflexivity|].
  destruct x; cbn [app c12_sdoc_assigns c12_sdoc_prefix]; rewrite IH; reflexivity.
Qed.

Definition c12_blocks (pfx : c12_str) (subs : list (c12_str * c12_tree)) : list (c12_str * list c12_rline) :=
  map (fun ks : c12_str * c12_tree =>
         (fst ks, C12RHeader (pfx ++ fst ks) :: c12_report_rlines (snd ks) (pfx ++ fst ks ++ ["."]))) subs.

Lemma c12_report_rlines_unfold : forall vals subs pfx,
  c12_report_rlines (C12Node vals subs) pfx =
  map (fun kv : c12_str * c12_str => C12RValue (fst kv) (snd kv)) (c12_sort vals) ++
  concat (map snd (c12_sort (c12_blocks pfx subs))).
Proof.
  intros vals subs pfx. cbn [c12_report_rlines]. f_equal. f_equal. f_equal. f_equal.
  unfold c12_blocks. induction subs as [|[k s] subs IH]; [reflexivity|]. cbn [map fst snd]. f_equal. exact IH.
Qed.

Lemma c12_assoc_in : forall A k (l : list (c12_str * A)) a, c12_assoc k l = Some a -> In (k, a) l.
Proof.
  induction l as [|[k' a'] l IH]; intros a H; [discriminate|]. cbn in H.
  destruct (c12_eqs k k') eqn:E.
  - apply c12_eqs_eq in E. inversion H; subst. left. reflexivity.
  - right. apply IH. exact H.
Qed.

(* value lines keep the prefix and contribute (prefix ++ key, value) *)
Lemma c12_values_part : forall (l : list (c12_str * c12_str)) rest cur k v,
  In (k, v) l ->
  In (cur ++ k, v) (c12_sdoc_assigns (map c12_rline_sline (map (fun kv : c12_str * c12_str => C12RValue (fst kv) (snd kv)) l) ++ rest) cur).
Proof.
  induction l as [|[k' v'] l IH]; intros rest cur k v H; [destruct H|].
  cbn [map app c12_rline_sline c12_sdoc_assigns fst snd]. destruct H as [H|H].
  - inversion H; subst. left. reflexivity.
  - right. apply IH. exact H.
Qed.

Lemma c12_values_part_prefix : forall (l : list (c12_str * c12_str)) cur,
  c12_sdoc_prefix (map c12_rline_sline (map (fun kv : c12_str * c12_str => C12RValue (fst kv) (snd kv)) l)) cur = cur.
Proof. induction l as [|[k v] l IH]; intros cur; [reflexivity|]. cbn. apply IH. Qed.

(* every entry of the tree is among the assignments its report denotes *)
Lemma c12_report_has_entry : forall p t pfx v,
  forallb c12_seg_ok p = true -> c12_lookup t p = Some v ->
  In (pfx ++ c12_dotted p, v) (c12_rl_assigns (c12_report_rlines t pfx) pfx).
Proof.
  induction p as [|k p IH]; intros t pfx v Hp Hl; [discriminate|].
  destruct t as [vals subs]. unfold c12_rl_assigns. rewrite c12_report_rlines_unfold, map_app.
  cbn [forallb] in Hp. apply andb_true_iff in Hp as [Hk Hp].
  destruct p as [|k2 p].
  - rewrite c12_lookup_leaf in Hl. cbn [c12_vals c12_subs] in Hl.
    destruct (c12_assoc k vals) as [v0|] eqn:Ea; [|discriminate].
    destruct (c12_mem k subs); [discriminate|]. inversion Hl; subst v0.
    cbn [c12_dotted]. apply c12_values_part. apply c12_sort_in. apply c12_assoc_in. exact Ea.
  - rewrite c12_lookup_cons2 in Hl. cbn [c12_vals c12_subs] in Hl.
    destruct (c12_mem k vals); [discriminate|].
    destruct (c12_assoc k subs) as [s|] eqn:Es; [|discriminate].
    specialize (IH s (pfx ++ k ++ ["."]) v Hp Hl).
    rewrite c12_sdoc_assigns_app, c12_values_part_prefix. apply in_or_app. right.
    (* the block of k inside the concatenation of the sorted blocks *)
    assert (Hb : In (k, C12RHeader (pfx ++ k) :: c12_report_rlines s (pfx ++ k ++ ["."])) (c12_sort (c12_blocks pfx subs))).
    { apply c12_sort_in. unfold c12_blocks.
      apply (in_map (fun ks : c12_str * c12_tree => (fst ks, C12RHeader (pfx ++ fst ks) :: c12_report_rlines (snd ks) (pfx ++ fst ks ++ ["."]))) subs (k, s)).
      apply c12_assoc_in. exact Es. }
    apply (in_map snd) in Hb. cbn [snd] in Hb.
    apply in_split in Hb as (c1 & c2 & Hc). rewrite Hc, concat_app. cbn [concat].
    rewrite !map_app, !c12_sdoc_assigns_app. apply in_or_app. right. apply in_or_app. left.
    cbn [map c12_rline_sline c12_sdoc_assigns].
    assert (Hne : c12_is_nil (pfx ++ k) = false).
    { unfold c12_seg_ok in Hk. apply andb_true_iff in Hk as [Hk _]. destruct k; [discriminate|]. destruct pfx; reflexivity. }
    rewrite Hne. unfold c12_rl_assigns in IH.
    replace ((pfx ++ k) ++ ["."]) with (pfx ++ k ++ ["."]) by (now rewrite app_assoc).
    replace (pfx ++ c12_dotted (k :: k2 :: p)) with ((pfx ++ k ++ ["."]) ++ c12_dotted (k2 :: p)); [exact IH|].
    change (c12_dotted (k :: k2 :: p)) with (k ++ "." :: c12_dotted (k2 :: p)). rewrite <- !app_assoc. reflexivity.
Qed.

(* dotted names and paths *)
Lemma c12_path_nodot : forall k, c12_nochar "." k = true -> c12_path k = [k].
Proof.
  induction k as [|c k IH]; intros H; [reflexivity|]. cbn in H. apply andb_true_iff in H as [H1 H2].
  apply negb_true_iff in H1. cbn [c12_path]. rewrite H1, (IH H2). reflexivity.
Qed.

Lemma c12_path_app_dot : forall a b, c12_path (a ++ "." :: b) = c12_path a ++ c12_path b.
Proof.
  induction a as [|c a IH]; intros b; [reflexivity|]. cbn [app c12_path]. rewrite IH.
  destruct (Ascii.eqb c "."); [reflexivity|].
  pose proof (c12_path_nonempty a) as Hn. destruct (c12_path a) as [|h t]; [congruence|]. reflexivity.
Qed.

Lemma c12_path_dotted : forall p, p <> [] -> forallb c12_seg_ok p = true -> c12_path (c12_dotted p) = p.
Proof.
  induction p as [|k p IH]; intros Hne H; [congruence|]. cbn [forallb] in H. apply andb_true_iff in H as [Hk Hp].
  unfold c12_seg_ok in Hk. apply andb_true_iff in Hk as [_ Hk].
  destruct p as [|k2 p]; [cbn; apply c12_path_nodot; exact Hk|].
  change (c12_dotted (k :: k2 :: p)) with (k ++ "." :: c12_dotted (k2 :: p)).
  rewrite c12_path_app_dot, (c12_path_nodot k Hk), (IH ltac:(discriminate) Hp). reflexivity.
Qed.

(* C12_report_roundtrip: what report() prints, read back by readINITree into an empty tree, is accepted and
   contains every entry of the tree with its value *)
Lemma c12_report_roundtrip : forall qhash t ow,
  forallb c12_rline_ok (c12_report_rlines t []) = true ->
  c12_hierarchy (map (fun kv : c12_str * c12_str => c12_path (fst kv)) (c12_rl_assigns (c12_report_rlines t []) [])) = true ->
  let r := c12_parse_ini_lines qhash (c12_report_lines t []) c12_empty ow in
  c12_ir_status r = C12Ok /\
  forall p v, p <> [] -> forallb c12_seg_ok p = true -> c12_lookup t p = Some v -> c12_lookup (c12_ir_tree r) p = Some v.
Proof.
  intros qhash t ow Hok Hh r.
  assert (Hr : c12_ts r = c12_store_all (c12_rl_assigns (c12_report_rlines t []) []) c12_empty [] ow).
  { subst r. unfold c12_report_lines. rewrite c12_report_lines_items. apply c12_roundtrip.
    rewrite forallb_forall in *. intros x Hx. apply in_map_iff in Hx as (l & <- & Hl). apply (Hok l Hl). }
  destruct (c12_values _ c12_empty [] ow Hh (c12_keys_free_empty _)) as (t' & Hs & Hl & _).
  rewrite Hs in Hr. unfold c12_ts in Hr. inversion Hr as [[Ht Hst]]. split; [reflexivity|].
  intros p v Hne Hp Hlook.
  pose proof (c12_report_has_entry p t [] v Hp Hlook) as Hin. cbn [app] in Hin.
  pose proof (Hl _ _ Hin) as Hfin. rewrite (c12_path_dotted p Hne Hp) in Hfin. rewrite Ht. exact Hfin.
Qed.
