(* C12 — whole sources: pre-existing entries are kept (overwrite = false) or replaced (overwrite = true),
   for every sequence of assignments. *)
From Coq Require Import List Ascii ZArith NArith Bool Lia.
From DuneV Require Import C12_Model C12_Spec C12_Proofs_Tree C12_Proofs_Frame C12_Proofs_Lex.
Import ListNotations.

Lemma c12_store_frame : forall t seen ow k v t' seen' q,
  c12_store t seen ow k v = inl (t', seen') -> c12_unrel (c12_path k) q = true -> c12_obs t' q = c12_obs t q.
Proof.
  intros t seen ow k v t' seen' q H Hu. unfold c12_store in H.
  destruct (existsb (c12_eqs k) seen); [discriminate|].
  assert (Hset : forall t1 ok, c12_set t (c12_path k) v = (t1, ok) -> c12_obs t1 q = c12_obs t q).
  { intros t1 ok Hs. pose proof (c12_upd_frame (c12_path k) q t (fun _ => v) Hu) as F.
    unfold c12_set in Hs. rewrite Hs in F. exact F. }
  destruct ow; cbv zeta in H.
  - destruct (c12_set t (c12_path k) v) as [t1 ok] eqn:Es; destruct ok; inversion H; subst. eapply Hset; reflexivity.
  - destruct (c12_has_key t (c12_path k)) as [[|]|]; cbn [negb] in H; try discriminate.
    + inversion H; subst. reflexivity.
    + destruct (c12_set t (c12_path k) v) as [t1 ok] eqn:Es; destruct ok; inversion H; subst. eapply Hset; reflexivity.
Qed.

(* assignments to unrelated keys leave every observation at q as it was -- any number of them, either mode *)
Lemma c12_store_all_frame : forall kvs t seen ow t' q,
  c12_store_all kvs t seen ow = (t', C12Ok) ->
  (forall k v, In (k, v) kvs -> c12_unrel (c12_path k) q = true) ->
  c12_obs t' q = c12_obs t q.
Proof.
  induction kvs as [|[k v] kvs IH]; intros t seen ow t' q H Hu.
  - cbn in H. inversion H; reflexivity.
  - cbn [c12_store_all] in H. destruct (c12_store t seen ow k v) as [[t1 seen1]|[t1 st]] eqn:Es.
    + rewrite (IH _ _ _ _ q H (fun k' v' Hin => Hu k' v' (or_intror Hin))).
      apply (c12_store_frame _ _ _ _ _ _ _ q Es). apply (Hu k v). left. reflexivity.
    + inversion H; subst. exfalso. exact (c12_store_inr_status _ _ _ _ _ _ _ Es eq_refl).
Qed.

Lemma c12_store_all_app : forall l1 l2 t seen ow t',
  c12_store_all (l1 ++ l2) t seen ow = (t', C12Ok) ->
  exists t1 seen1, c12_store_all l1 t seen ow = (t1, C12Ok) /\ c12_store_all l2 t1 seen1 ow = (t', C12Ok).
Proof.
  induction l1 as [|[k v] l1 IH]; intros l2 t seen ow t' H.
  - exists t, seen. split; [reflexivity|exact H].
  - cbn [app c12_store_all] in *. destruct (c12_store t seen ow k v) as [[t1 seen1]|[t1 st]] eqn:Es.
    + apply IH. exact H.
    + inversion H; subst. exfalso. exact (c12_store_inr_status _ _ _ _ _ _ _ Es eq_refl).
Qed.

Lemma c12_obs_has_key : forall t1 t2 q, c12_obs t1 q = c12_obs t2 q -> c12_has_key t1 q = c12_has_key t2 q.
Proof. intros t1 t2 q H. unfold c12_obs in H. inversion H; reflexivity. Qed.
Lemma c12_obs_lookup : forall t1 t2 q, c12_obs t1 q = c12_obs t2 q -> c12_lookup t1 q = c12_lookup t2 q.
Proof. intros t1 t2 q H. unfold c12_obs in H. inversion H; reflexivity. Qed.

(* a key that is present does not name a subtree *)
Lemma c12_has_key_not_sub : forall p t, c12_has_key t p = Some true -> c12_has_sub t p = Some false.
Proof.
  induction p as [|k p IH]; intros t H; [discriminate|]. destruct p as [|k2 p].
  - rewrite c12_has_key_leaf in H. rewrite c12_has_sub_leaf.
    destruct (c12_assoc k (c12_vals t)); [|discriminate].
    unfold c12_mem in H. destruct (c12_assoc k (c12_subs t)); [discriminate|reflexivity].
  - rewrite c12_has_key_cons2 in H. rewrite c12_has_sub_cons2.
    destruct (c12_assoc k (c12_subs t)) as [s|]; [|discriminate].
    destruct (c12_mem k (c12_vals t)); [discriminate|]. apply IH. exact H.
Qed.

(* C12_overwrite_kept: overwrite = false.  A pre-existing entry q survives ANY source unchanged, provided the
   source's keys do not collide with q structurally (each is q itself or neither prefix nor extension of q) *)
Lemma c12_overwrite_false_keeps : forall kvs t seen t' q,
  c12_store_all kvs t seen false = (t', C12Ok) ->
  c12_has_key t q = Some true ->
  (forall k v, In (k, v) kvs -> c12_path k = q \/ c12_unrel (c12_path k) q = true) ->
  c12_obs t' q = c12_obs t q.
Proof.
  induction kvs as [|[k v] kvs IH]; intros t seen t' q H Hk Hrel.
  - cbn in H. inversion H; reflexivity.
  - cbn [c12_store_all] in H. destruct (c12_store t seen false k v) as [[t1 seen1]|[t1 st]] eqn:Es.
    + assert (Ho : c12_obs t1 q = c12_obs t q).
      { destruct (Hrel k v (or_introl eq_refl)) as [Heq|Hu].
        - unfold c12_store in Es. destruct (existsb (c12_eqs k) seen); [discriminate|].
          rewrite Heq, Hk in Es. cbn in Es. inversion Es; reflexivity.
        - apply (c12_store_frame _ _ _ _ _ _ _ q Es Hu). }
      rewrite <- Ho. apply (IH t1 seen1 t' q H).
      * rewrite (c12_obs_has_key _ _ _ Ho). exact Hk.
      * intros k' v' Hin. apply (Hrel k' v'). right. exact Hin.
    + inversion H; subst. exfalso. exact (c12_store_inr_status _ _ _ _ _ _ _ Es eq_refl).
Qed.

(* C12_overwrite_replaced: overwrite = true.  A pre-existing entry that the source assigns (necessarily once:
   C12_duplicate) holds the written value afterwards, whatever else the source assigns to unrelated keys *)
Lemma c12_overwrite_true_replaces : forall l1 k v l2 t seen t',
  c12_store_all (l1 ++ (k, v) :: l2) t seen true = (t', C12Ok) ->
  c12_has_key t (c12_path k) = Some true ->
  (forall k' v', In (k', v') (l1 ++ l2) -> c12_unrel (c12_path k') (c12_path k) = true) ->
  c12_lookup t' (c12_path k) = Some v.
Proof.
  intros l1 k v l2 t seen t' H Hk Hrel.
  apply c12_store_all_app in H as (t1 & seen1 & H1 & H2).
  assert (Ho1 : c12_obs t1 (c12_path k) = c12_obs t (c12_path k)).
  { apply (c12_store_all_frame _ _ _ _ _ _ H1). intros k' v' Hin. apply (Hrel k' v'). apply in_or_app. left. exact Hin. }
  cbn [c12_store_all] in H2. destruct (c12_store t1 seen1 true k v) as [[t2 seen2]|[t2 st]] eqn:Es.
  - assert (Hl2 : c12_lookup t2 (c12_path k) = Some v).
    { unfold c12_store in Es. destruct (existsb (c12_eqs k) seen1); [discriminate|]. cbv zeta in Es.
      destruct (c12_set t1 (c12_path k) v) as [t2' ok] eqn:Eset; destruct ok; inversion Es; subst.
      refine (proj1 (c12_set_lookup (c12_path k) t1 v t2 (c12_path_nonempty k) _ Eset)).
      apply c12_has_key_not_sub. rewrite (c12_obs_has_key _ _ _ Ho1). exact Hk. }
    assert (Ho2 : c12_obs t' (c12_path k) = c12_obs t2 (c12_path k)).
    { apply (c12_store_all_frame _ _ _ _ _ _ H2). intros k' v' Hin. apply (Hrel k' v'). apply in_or_app. right. exact Hin. }
    rewrite (c12_obs_lookup _ _ _ Ho2). exact Hl2.
  - inversion H2; subst. exfalso. exact (c12_store_inr_status _ _ _ _ _ _ _ Es eq_refl).
Qed.
