(* C12 — the tree: recursive descent on '.', hasKey / operator[] / get with default. *)
From Coq Require Import List Ascii ZArith NArith Bool Lia.
From DuneV Require Import C12_Model C12_Spec.
Import ListNotations.

Lemma c12_eqs_refl : forall a, c12_eqs a a = true.
Proof. induction a as [|x a IH]; cbn; [reflexivity|]. rewrite Ascii.eqb_refl, IH. reflexivity. Qed.

Lemma c12_eqs_eq : forall a b, c12_eqs a b = true -> a = b.
Proof.
  induction a as [|x a IH]; intros [|y b] H; cbn in H; try discriminate; [reflexivity|].
  apply andb_true_iff in H as [H1 H2]. apply Ascii.eqb_eq in H1. subst. f_equal. apply IH. exact H2.
Qed.

Lemma c12_assoc_set_same : forall A k (a : A) l, c12_assoc k (c12_assoc_set k a l) = Some a.
Proof.
  induction l as [|[k' a'] l IH]; cbn.
  - rewrite c12_eqs_refl. reflexivity.
  - destruct (c12_eqs k k') eqn:E; cbn; rewrite E; [reflexivity|exact IH].
Qed.

Lemma c12_assoc_app_none : forall A k (a : A) l, c12_assoc k l = None -> c12_assoc k (l ++ [(k, a)]) = Some a.
Proof.
  induction l as [|[k' a'] l IH]; cbn; intros H.
  - rewrite c12_eqs_refl. reflexivity.
  - destruct (c12_eqs k k'); [discriminate|]. apply IH. exact H.
Qed.

(* hasKey(key) holds exactly when the const operator[] finds a value *)
Lemma c12_has_key_lookup : forall p t,
  c12_has_key t p = Some true <-> exists v, c12_lookup t p = Some v.
Proof.
  induction p as [|k rest IH]; intros t.
  - cbn. split; [discriminate|intros [v H]; discriminate].
  - destruct rest as [|k2 rest'].
    + cbn. destruct (c12_assoc k (c12_vals t)) as [v|].
      * destruct (c12_mem k (c12_subs t)); split; try discriminate; eauto. intros [w H]; discriminate.
      * split; [discriminate|intros [w H]; discriminate].
    + specialize (IH). cbn [c12_has_key c12_lookup].
      destruct (c12_mem k (c12_vals t)).
      * destruct (c12_assoc k (c12_subs t)); split; try discriminate; intros [w H]; discriminate.
      * destruct (c12_assoc k (c12_subs t)) as [s|]; [apply IH|].
        split; [discriminate|intros [w H]; discriminate].
Qed.

(* get(key, default): the default exactly when the key is absent; a present key is converted
   (or the conversion error is raised) -- never silently replaced by the default *)
Lemma c12_default : forall (T : Type) (parse : c12_str -> option T) t p d,
  (c12_has_key t p = Some false -> c12_get_or parse t p d = Some d) /\
  (c12_has_key t p = Some true ->
     exists v, c12_lookup t p = Some v /\ c12_get_or parse t p d = parse v) /\
  (c12_has_key t p = None -> c12_get_or parse t p d = None).
Proof.
  intros T parse t p d. unfold c12_get_or, c12_get. repeat split.
  - intros H. rewrite H. reflexivity.
  - intros H. destruct (proj1 (c12_has_key_lookup p t) H) as [v Hv]. exists v. rewrite H, Hv. auto.
  - intros H. rewrite H. reflexivity.
Qed.

Lemma c12_has_sub_empty : forall p, c12_has_sub c12_empty p = Some false.
Proof. destruct p as [|k [|k2 r]]; reflexivity. Qed.

Lemma c12_has_sub_cons2 : forall t k k2 r,
  c12_has_sub t (k :: k2 :: r) =
  match c12_assoc k (c12_subs t) with
  | None => Some false
  | Some s => if c12_mem k (c12_vals t) then None else c12_has_sub s (k2 :: r)
  end.
Proof. reflexivity. Qed.
Lemma c12_lookup_cons2 : forall t k k2 r,
  c12_lookup t (k :: k2 :: r) =
  if c12_mem k (c12_vals t) then None
  else match c12_assoc k (c12_subs t) with None => None | Some s => c12_lookup s (k2 :: r) end.
Proof. reflexivity. Qed.
Lemma c12_upd_cons2 : forall t k k2 r f,
  c12_upd t (k :: k2 :: r) f =
  if c12_mem k (c12_vals t) then (t, false)
  else let s := match c12_assoc k (c12_subs t) with Some s => s | None => c12_empty end in
       let '(s', ok) := c12_upd s (k2 :: r) f in
       (C12Node (c12_vals t) (c12_assoc_set k s' (c12_subs t)), ok).
Proof. reflexivity. Qed.

(* pt[key] = f(old): afterwards the key maps to the new value, provided the key does not name a subtree *)
Lemma c12_upd_lookup : forall p t f t',
  p <> [] -> c12_has_sub t p = Some false -> c12_upd t p f = (t', true) ->
  exists o, c12_lookup t' p = Some (f o).
Proof.
  induction p as [|k rest IH]; intros t f t' Hne Hs Hu; [congruence|].
  destruct rest as [|k2 rest'].
  - cbn in Hs, Hu.
    assert (Hm : c12_mem k (c12_subs t) = false).
    { unfold c12_mem. destruct (c12_assoc k (c12_subs t)); [|reflexivity].
      destruct (c12_mem k (c12_vals t)); discriminate. }
    destruct (c12_assoc k (c12_vals t)) as [old|] eqn:Ea.
    + rewrite Hm in Hu. inversion Hu; subst. exists (Some old). cbn.
      rewrite c12_assoc_set_same, Hm. reflexivity.
    + inversion Hu; subst. exists None. cbn. rewrite (c12_assoc_app_none _ _ _ _ Ea), Hm. reflexivity.
  - rewrite c12_has_sub_cons2 in Hs. rewrite c12_upd_cons2 in Hu.
    destruct (c12_mem k (c12_vals t)) eqn:Hv; [inversion Hu|].
    cbv zeta in Hu.
    assert (Hs' : c12_has_sub (match c12_assoc k (c12_subs t) with Some s => s | None => c12_empty end)
                              (k2 :: rest') = Some false).
    { destruct (c12_assoc k (c12_subs t)); [exact Hs|apply c12_has_sub_empty]. }
    destruct (c12_upd (match c12_assoc k (c12_subs t) with Some s => s | None => c12_empty end)
                      (k2 :: rest') f) as [s' ok] eqn:Eu.
    inversion Hu; subst.
    destruct (IH _ f s' ltac:(discriminate) Hs' Eu) as [o Ho]. exists o.
    rewrite c12_lookup_cons2. cbn [c12_vals c12_subs]. rewrite Hv, c12_assoc_set_same. exact Ho.
Qed.

Lemma c12_set_lookup : forall p t v t',
  p <> [] -> c12_has_sub t p = Some false -> c12_set t p v = (t', true) ->
  c12_lookup t' p = Some v /\ c12_has_key t' p = Some true.
Proof.
  intros p t v t' Hne Hs Hu. unfold c12_set in Hu.
  destruct (c12_upd_lookup p t _ t' Hne Hs Hu) as [o Ho]. split; [exact Ho|].
  apply c12_has_key_lookup. eauto.
Qed.

(* the key of a dotted name is never the empty path *)
Lemma c12_path_nonempty : forall s, c12_path s <> [].
Proof.
  induction s as [|c r IH]; cbn; [discriminate|].
  destruct (Ascii.eqb c "."); [discriminate|]. destruct (c12_path r); discriminate.
Qed.
