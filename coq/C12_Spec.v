(* C12 — the abstract statement and its executable oracle.

   A configuration source denotes an ordered list of assignments (path, value): the hierarchy
   is the set of paths, "groups" and "dotted keys" are just two spellings of a path.
   The tree obtained from a source must be exactly that list:
     value of a key         = the value written for its path            (c12_spec_value)
     value keys of a node   = last segments of the paths directly below it, in order of first
                              appearance                                (c12_spec_value_keys)
     sub keys of a node     = next segments of the longer paths below it, in order of first
                              appearance                                (c12_spec_sub_keys)
     pre-existing entries   = kept, or overwritten in place             (c12_spec_merge)
   Typed retrieval: an integer text is  blank* [+-]? digit+ blank*  denoting a representable
   value (c12_spec_int); a fixed-size range is exactly n blank-separated integer texts
   (c12_spec_range); nothing else converts. *)
From Coq Require Import List Ascii ZArith NArith Bool.
From DuneV Require Import C12_Model.
Import ListNotations.
Local Open Scope char_scope.

Definition c12_assign := (list c12_str * c12_str)%type.

Fixpoint c12_eqp (a b : list c12_str) : bool :=
  match a, b with
  | [], [] => true
  | x :: a', y :: b' => c12_eqs x y && c12_eqp a' b'
  | _, _ => false
  end.

Fixpoint c12_spec_value (d : list c12_assign) (p : list c12_str) : option c12_str :=
  match d with
  | [] => None
  | (q, v) :: r => if c12_eqp p q then Some v else c12_spec_value r p
  end.

Fixpoint c12_spec_replace (p : list c12_str) (v : c12_str) (d : list c12_assign) : list c12_assign :=
  match d with
  | [] => []
  | (q, w) :: r => if c12_eqp p q then (q, v) :: r else (q, w) :: c12_spec_replace p v r
  end.

(* source [doc] read into a tree already holding [pre] *)
Definition c12_spec_merge (pre doc : list c12_assign) (ow : bool) : list c12_assign :=
  fold_left (fun acc (a : c12_assign) =>
               match c12_spec_value acc (fst a) with
               | Some _ => if ow then c12_spec_replace (fst a) (snd a) acc else acc
               | None => acc ++ [a]
               end) doc pre.

Fixpoint c12_strip_prefix (pr p : list c12_str) : option (list c12_str) :=
  match pr, p with
  | [], _ => Some p
  | x :: pr', y :: p' => if c12_eqs x y then c12_strip_prefix pr' p' else None
  | _, [] => None
  end.

(* first occurrences, order kept *)
Fixpoint c12_nodup (l : list c12_str) (seen : list c12_str) : list c12_str :=
  match l with
  | [] => []
  | x :: r => if existsb (c12_eqs x) seen then c12_nodup r seen else x :: c12_nodup r (x :: seen)
  end.

Definition c12_spec_value_keys (d : list c12_assign) (pr : list c12_str) : list c12_str :=
  c12_nodup (flat_map (fun a : c12_assign => match c12_strip_prefix pr (fst a) with
                                             | Some [k] => [k] | _ => [] end) d) [].

Definition c12_spec_sub_keys (d : list c12_assign) (pr : list c12_str) : list c12_str :=
  c12_nodup (flat_map (fun a : c12_assign => match c12_strip_prefix pr (fst a) with
                                             | Some (k :: _ :: _) => [k] | _ => [] end) d) [].

(* a hierarchy: paths are non-empty, pairwise different, none is a proper prefix of another *)
Definition c12_is_prefix (p q : list c12_str) : bool :=
  match c12_strip_prefix p q with Some _ => true | None => false end.
Fixpoint c12_spec_wf (d : list c12_assign) : bool :=
  match d with
  | [] => true
  | (p, _) :: r => negb (c12_is_nil p)
                   && forallb (fun a : c12_assign => negb (c12_is_prefix p (fst a)) && negb (c12_is_prefix (fst a) p)) r
                   && c12_spec_wf r
  end.

(* ------------------------------------------------------------------ typed retrieval *)

Fixpoint c12_takewhile (f : ascii -> bool) (s : c12_str) : c12_str :=
  match s with
  | [] => []
  | c :: r => if f c then c :: c12_takewhile f r else []
  end.
Definition c12_nonspace (c : ascii) : bool := negb (c12_is_space c).

(* digit+ denoting m; the value (-m when neg) must lie in lo..hi *)
Definition c12_spec_int_digits (lo hi : Z) (neg : bool) (ds : c12_str) : option Z :=
  match ds with
  | [] => None
  | _ => match c12_all_some c12_digit ds with
         | None => None
         | Some vals =>
           let m := fold_left (fun a d => 10 * a + d)%Z vals 0%Z in
           let v := if neg then (- m)%Z else m in
           if ((lo <=? v) && (v <=? hi))%Z then Some v else None
         end
  end.

(* sign? digit+  (no blanks) *)
Definition c12_spec_int_token (lo hi : Z) (s : c12_str) : option Z :=
  match s with
  | "-" :: r => c12_spec_int_digits lo hi true r
  | "+" :: r => c12_spec_int_digits lo hi false r
  | _ => c12_spec_int_digits lo hi false s
  end.

(* blank* token blank*  where the token (the maximal blank-free piece) is an integer text *)
Definition c12_spec_int (lo hi : Z) (s : c12_str) : option Z :=
  let s1 := c12_dropwhile c12_is_space s in
  if forallb c12_is_space (c12_dropwhile c12_nonspace s1)
  then c12_spec_int_token lo hi (c12_takewhile c12_nonspace s1)
  else None.

(* separated tokens; blanks (isspace) for ranges, " \t\n\r" for vector/bitset (ParameterTree::split) *)
Fixpoint c12_spec_tokens_by (f : ascii -> bool) (s cur : c12_str) : list c12_str :=
  match s with
  | [] => if c12_is_nil cur then [] else [rev_append cur []]
  | c :: r => if f c
              then (if c12_is_nil cur then c12_spec_tokens_by f r [] else rev_append cur [] :: c12_spec_tokens_by f r [])
              else c12_spec_tokens_by f r (c :: cur)
  end.
Definition c12_spec_tokens (s : c12_str) : list c12_str := c12_spec_tokens_by c12_is_space s [].
Definition c12_spec_tokens_ws (s : c12_str) : list c12_str := c12_spec_tokens_by c12_is_ws s [].
Definition c12_spec_strip_ws (s : c12_str) : c12_str :=
  rev_append (c12_dropwhile c12_is_ws (rev_append (c12_dropwhile c12_is_ws s) [])) [].

(* a token that is several integer texts written without a separator ("1-2"): the property does
   not say whether that is one malformed item or two items; the oracle abstains on it *)
Fixpoint c12_glued_aux (s : c12_str) (prev_digit : bool) (signs_inside : nat) : option nat :=
  match s with
  | [] => if prev_digit then Some signs_inside else None
  | c :: r => match c12_digit c with
              | Some _ => c12_glued_aux r true signs_inside
              | None => if (Ascii.eqb c "-" || Ascii.eqb c "+") && prev_digit
                        then c12_glued_aux r false (S signs_inside) else None
              end
  end.
Definition c12_is_glued (s : c12_str) : bool :=
  let body := match s with "-" :: r => r | "+" :: r => r | _ => s end in
  match c12_glued_aux body false O with Some (S _) => true | _ => false end.

Inductive c12_verdict (A : Type) := C12Accept (a : A) | C12Reject | C12Unspecified.
Arguments C12Accept {A} a. Arguments C12Reject {A}. Arguments C12Unspecified {A}.

Definition c12_spec_range (lo hi : Z) (n : nat) (s : c12_str) : c12_verdict (list Z) :=
  let toks := c12_spec_tokens s in
  if existsb c12_is_glued toks then C12Unspecified
  else if negb (Nat.eqb (length toks) n) then C12Reject
  else match c12_all_some (c12_spec_int_token lo hi) toks with
       | Some vs => C12Accept vs
       | None => C12Reject
       end.

(* the exact statement for fixed-size ranges: the text is n integer texts, each preceded by
   optional blanks and ending where its digits end, followed by blanks only *)
Definition c12_nondigit_start (s : c12_str) : Prop :=
  match s with [] => True | c :: _ => c12_digit c = None end.

Inductive c12_items_then (lo hi : Z) : nat -> c12_str -> list Z -> c12_str -> Prop :=
| C12ItemsDone : forall s, c12_items_then lo hi O s [] s
| C12ItemsMore : forall n b t v r vs rest,
    forallb c12_is_space b = true ->
    c12_spec_int_token lo hi t = Some v ->
    c12_nondigit_start r ->
    c12_items_then lo hi n r vs rest ->
    c12_items_then lo hi (S n) (b ++ t ++ r) (v :: vs) rest.

Definition c12_spec_range_rel (lo hi : Z) (n : nat) (s : c12_str) (vs : list Z) : Prop :=
  exists rest, c12_items_then lo hi n s vs rest /\ forallb c12_is_space rest = true.

Definition c12_spec_bool (s : c12_str) : option bool :=
  let r := map c12_tolower s in
  if c12_eqs r ["y";"e";"s"] || c12_eqs r ["t";"r";"u";"e"] then Some true
  else if c12_eqs r ["n";"o"] || c12_eqs r ["f";"a";"l";"s";"e"] then Some false
  else match c12_spec_int (- 2 ^ 31) (2 ^ 31 - 1) r with
       | Some v => Some (negb (v =? 0)%Z)
       | None => None
       end.

(* ------------------------------------------------------------------ the documented dialect, single-line part

   A document is a list of lines of four kinds.  b* are blanks (spaces, tabs, CR), "tight" means
   neither starting nor ending with a blank.  Its meaning is the list of (full key, value)
   assignments in order, where a key below a header  [name]  is  name.key  -- i.e. groups and dotted
   keys denote the same path. *)
Inductive c12_sline :=
| C12SBlank (b : c12_str)                                   (* b *)
| C12SComment (b text : c12_str)                            (* b # text *)
| C12SHeader (b0 b1 name b2 trail : c12_str)                (* b0 [ b1 name b2 ] trail *)
| C12SAssign (b0 key b1 b2 value b3 comment : c12_str)      (* b0 key b1 = b2 value b3 [# ...] *)
| C12SQuoted1 (b0 key b1 b2 : c12_str) (q : ascii) (l0 b3 comment : c12_str)
                                                            (* b0 key b1 = b2 q l0 q b3 [# ...] *)
| C12SQuotedN (b0 key b1 b2 : c12_str) (q : ascii) (l0 : c12_str) (mid : list c12_str) (lastl b3 : c12_str).
                                                            (* b0 key b1 = b2 q l0 / mid... / lastl q b3 *)

(* the lines an item is written as (a multi-line quoted value takes several) *)
Definition c12_render_sline (l : c12_sline) : list c12_str :=
  match l with
  | C12SBlank b => [b]
  | C12SComment b text => [b ++ "#" :: text]
  | C12SHeader b0 b1 name b2 trail => [b0 ++ "[" :: b1 ++ name ++ b2 ++ "]" :: trail]
  | C12SAssign b0 key b1 b2 value b3 comment => [b0 ++ key ++ b1 ++ "=" :: b2 ++ value ++ b3 ++ comment]
  | C12SQuoted1 b0 key b1 b2 q l0 b3 comment => [b0 ++ key ++ b1 ++ "=" :: b2 ++ (q :: l0 ++ q :: b3) ++ comment]
  | C12SQuotedN b0 key b1 b2 q l0 mid lastl b3 =>
      (b0 ++ key ++ b1 ++ "=" :: b2 ++ q :: l0) :: mid ++ [lastl ++ q :: b3]
  end.

(* the value a multi-line quoted item denotes: its lines joined by line breaks *)
Definition c12_qvalue (l0 : c12_str) (more : list c12_str) : c12_str :=
  fold_left (fun acc l => acc ++ "010" :: l) more l0.
(* the text read so far does not yet end (ignoring blanks) with the quote character *)
Definition c12_qopen (q : ascii) (acc : c12_str) : bool :=
  match c12_last_opt (c12_rtrim acc) with Some c => negb (Ascii.eqb c q) | None => true end.
Fixpoint c12_qopen_all (q : ascii) (acc : c12_str) (more : list c12_str) : bool :=
  match more with
  | [] => true
  | l :: r => c12_qopen q acc && c12_qopen_all q (acc ++ "010" :: l) r
  end.

Definition c12_blankb (b : c12_str) : bool := forallb c12_is_ws b.
Definition c12_nochar (c : ascii) (s : c12_str) : bool := forallb (fun x => negb (Ascii.eqb x c)) s.
Definition c12_tightb (s : c12_str) : bool := c12_eqs (c12_ltrim s) s && c12_eqs (c12_rtrim s) s.

Definition c12_key_ok (key : c12_str) : bool :=
  negb (c12_is_nil key) && c12_tightb key && c12_nochar "=" key && c12_nochar "#" key
  && match key with c :: _ => negb (Ascii.eqb c "[") | [] => true end.
Definition c12_comment_ok (comment : c12_str) : bool :=
  match comment with [] => true | c :: _ => Ascii.eqb c "#" end.

Definition c12_sline_ok (l : c12_sline) : bool :=
  match l with
  | C12SQuoted1 b0 key b1 b2 q l0 b3 comment =>
      c12_blankb b0 && c12_blankb b1 && c12_blankb b2 && c12_blankb b3 && c12_key_ok key
      && c12_is_quote q && c12_nochar "#" l0 && c12_comment_ok comment
  | C12SQuotedN b0 key b1 b2 q l0 mid lastl b3 =>
      c12_blankb b0 && c12_blankb b1 && c12_blankb b2 && c12_blankb b3 && c12_key_ok key
      && c12_is_quote q && c12_nochar "#" l0 && c12_qopen_all q l0 (mid ++ [lastl])
  | C12SBlank b => c12_blankb b
  | C12SComment b _ => c12_blankb b
  | C12SHeader b0 b1 name b2 _ =>
      c12_blankb b0 && c12_blankb b1 && c12_blankb b2 && c12_tightb name && c12_nochar "]" name
  | C12SAssign b0 key b1 b2 value b3 comment =>
      c12_blankb b0 && c12_blankb b1 && c12_blankb b2 && c12_blankb b3 && c12_key_ok key
      && c12_tightb value && c12_nochar "#" value
      && match value with c :: _ => negb (c12_is_quote c) | [] => true end
      && c12_comment_ok comment
  end.

Fixpoint c12_sdoc_assigns (ls : list c12_sline) (prefix : c12_str) : list (c12_str * c12_str) :=
  match ls with
  | [] => []
  | C12SHeader _ _ name _ _ :: r => c12_sdoc_assigns r (if c12_is_nil name then [] else name ++ ["."])
  | C12SAssign _ key _ _ value _ _ :: r => (prefix ++ key, value) :: c12_sdoc_assigns r prefix
  | C12SQuoted1 _ key _ _ _ l0 _ _ :: r => (prefix ++ key, l0) :: c12_sdoc_assigns r prefix
  | C12SQuotedN _ key _ _ _ l0 mid lastl _ :: r =>
      (prefix ++ key, c12_qvalue l0 (mid ++ [lastl])) :: c12_sdoc_assigns r prefix
  | _ :: r => c12_sdoc_assigns r prefix
  end.

(* reading an assignment list into a tree: duplicates within the source are rejected, existing keys
   kept or overwritten, the rest is ParameterTree::operator[] *)
Fixpoint c12_store_all (kvs : list (c12_str * c12_str)) (pt : c12_tree) (seen : list c12_str) (ow : bool)
  : c12_tree * c12_status :=
  match kvs with
  | [] => (pt, C12Ok)
  | (k, v) :: r => match c12_store pt seen ow k v with
                   | inl (pt', seen') => c12_store_all r pt' seen' ow
                   | inr e => e
                   end
  end.

(* ------------------------------------------------------------------ command line

   readOptions: the argument list  -k1 v1 -k2 v2 ...  denotes the assignments k_i := v_i.
   readNamedOptions, documented mapping: positional arguments go to the keywords in order; named
   arguments --k=v go to k; the first [required] keywords must have received a value; more
   positional arguments than keywords are superfluous. *)
Fixpoint c12_set_all (kvs : list (c12_str * c12_str)) (pt : c12_tree) : c12_tree * c12_status :=
  match kvs with
  | [] => (pt, C12Ok)
  | (k, v) :: r => let '(pt', ok) := c12_set pt (c12_path k) v in
                   if ok then c12_set_all r pt' else (pt', C12RangeError)
  end.

Definition c12_render_options (kvs : list (c12_str * c12_str)) : list c12_str :=
  flat_map (fun kv : c12_str * c12_str => ["-"%char :: fst kv; snd kv]) kvs.

Definition c12_plain_arg (a : c12_str) : bool :=
  match c12_dashdash a with Some _ => false | None => negb (c12_eqs a ["-"; "h"]) end.

(* only positional arguments, overwrite allowed *)
Definition c12_spec_named_positional (args keywords : list c12_str) (required : nat) (pt : c12_tree)
  : c12_tree * c12_status :=
  let '(t, st) := c12_set_all (combine keywords args) pt in
  match st with
  | C12Ok => if Nat.ltb (length keywords) (length args) then (t, C12ParserError)
             else if Nat.ltb (length args) (Nat.min required (length keywords)) then (t, C12ParserError)
             else (t, C12Ok)
  | _ => (t, st)
  end.

(* only named arguments --k=v with every k a keyword, overwrite allowed *)
Definition c12_named_pair (a : c12_str) : option (c12_str * c12_str) :=
  match c12_dashdash a with
  | Some body => c12_split_at "=" body
  | None => None
  end.
Definition c12_spec_named_only (pairs : list (c12_str * c12_str)) (keywords : list c12_str) (required : nat)
           (pt : c12_tree) : c12_tree * c12_status :=
  let '(t, st) := c12_set_all pairs pt in
  match st with
  | C12Ok => if forallb (fun k => existsb (c12_eqs k) (map fst pairs)) (firstn required keywords)
             then (t, C12Ok) else (t, C12ParserError)
  | _ => (t, st)
  end.

(* two paths of one hierarchy: neither is a prefix of the other (in particular they differ) *)
Fixpoint c12_unrel (p q : list c12_str) : bool :=
  match p, q with
  | k :: p', k' :: q' => if c12_eqs k k' then c12_unrel p' q' else true
  | _, _ => false
  end.
(* a list of keys whose paths are pairwise unrelated *)
Fixpoint c12_hierarchy (ps : list (list c12_str)) : bool :=
  match ps with
  | [] => true
  | p :: r => forallb (c12_unrel p) r && c12_hierarchy r
  end.

(* lines written to a byte string *)
Fixpoint c12_join_lines (ls : list c12_str) : c12_str :=
  match ls with
  | [] => []
  | l :: r => match r with [] => l | _ => l ++ "010" :: c12_join_lines r end
  end.

(* ------------------------------------------------------------------ key lists of a node

   getValueKeys() / getSubKeys() of the node reached by sub(pr) (empty lists if there is no such node) *)
Fixpoint c12_node (t : c12_tree) (pr : list c12_str) : c12_tree :=
  match pr with
  | [] => t
  | k :: r => match c12_assoc k (c12_subs t) with Some s => c12_node s r | None => c12_empty end
  end.
Definition c12_vkeys (t : c12_tree) (pr : list c12_str) : list c12_str := map fst (c12_vals (c12_node t pr)).
Definition c12_skeys (t : c12_tree) (pr : list c12_str) : list c12_str := map fst (c12_subs (c12_node t pr)).

(* the key an assignment of path p contributes to the value / sub key list of node pr *)
Definition c12_vcand (pr p : list c12_str) : list c12_str :=
  match c12_strip_prefix pr p with Some [k] => [k] | _ => [] end.
Definition c12_scand (pr p : list c12_str) : list c12_str :=
  match c12_strip_prefix pr p with Some (k :: _ :: _) => [k] | _ => [] end.

(* ------------------------------------------------------------------ readNamedOptions, the documented mapping

   Arguments are read left to right; [used] records which keywords have received a value.
     -h / --help                      the help request
     --name=value                     value for parameter name; an error if "=value" is missing, or if
                                      name is no keyword and further parameters are not allowed
     anything else (positional)       value for the first keyword that has not received one yet;
                                      an error ("superfluous") if every keyword has one
     storing (c12_named_store)        if overwriting is not allowed and the tree already holds a non-empty
                                      value for the parameter: error ("already specified")
     at the end                       each of the first [required] keywords must have received a value *)
Inductive c12_arg_kind := C12ArgHelp | C12ArgNoValue | C12ArgNamed (key value : c12_str) | C12ArgPositional.

Definition c12_arg_kind_of (opt : c12_str) : c12_arg_kind :=
  if c12_eqs opt ["-"; "h"] || c12_eqs opt ["-"; "-"; "h"; "e"; "l"; "p"] then C12ArgHelp
  else match c12_dashdash opt with
       | Some body => match c12_split_at "=" body with
                      | Some (k, v) => C12ArgNamed k v
                      | None => C12ArgNoValue
                      end
       | None => C12ArgPositional
       end.

(* index of the first keyword without a value (= number of keywords if there is none) *)
Fixpoint c12_first_unused (used : list bool) : nat :=
  match used with
  | true :: r => S (c12_first_unused r)
  | _ => O
  end.

Fixpoint c12_spec_named_loop (args : list c12_str) (pt : c12_tree) (keywords : list c12_str)
         (used : list bool) (allow_more ow : bool) : c12_tree * c12_status * list bool :=
  match args with
  | [] => (pt, C12Ok, used)
  | opt :: rest =>
    match c12_arg_kind_of opt with
    | C12ArgHelp => (pt, C12HelpRequest, used)
    | C12ArgNoValue => (pt, C12ParserError, used)
    | C12ArgNamed key value =>
      match c12_index_of key keywords with
      | None =>
        if allow_more then
          match c12_named_store pt key value ow with
          | (pt', C12Ok) => c12_spec_named_loop rest pt' keywords used allow_more ow
          | (pt', st) => (pt', st, used)
          end
        else (pt, C12ParserError, used)                          (* unknown parameter *)
      | Some i =>
        match c12_named_store pt key value ow with
        | (pt', C12Ok) => c12_spec_named_loop rest pt' keywords (c12_mark i used) allow_more ow
        | (pt', st) => (pt', st, used)
        end
      end
    | C12ArgPositional =>
      let i := c12_first_unused used in
      if Nat.leb (length used) i then (pt, C12ParserError, used)  (* superfluous unnamed parameter *)
      else match c12_named_store pt (nth i keywords []) opt ow with
           | (pt', C12Ok) => c12_spec_named_loop rest pt' keywords (c12_mark i used) allow_more ow
           | (pt', st) => (pt', st, used)
           end
    end
  end.

Definition c12_spec_read_named (args : list c12_str) (pt : c12_tree) (keywords : list c12_str)
           (required : nat) (allow_more ow : bool) : c12_tree * c12_status :=
  match c12_spec_named_loop args pt keywords (repeat false (length keywords)) allow_more ow with
  | (pt', C12Ok, used) => (pt', if existsb negb (firstn required used) then C12ParserError else C12Ok)
  | (pt', st, _) => (pt', st)
  end.

(* what the probe of the code as found (before 3e08a7e) silently dropped after the n-th item:
   blanks followed by nothing, by a lone sign, or by an integer text whose value is not representable *)
Definition c12_is_sign (c : ascii) : bool := Ascii.eqb c "-" || Ascii.eqb c "+".
Definition c12_dropped_tail (lo hi : Z) (r : c12_str) : Prop :=
  exists b t, r = b ++ t /\ forallb c12_is_space b = true /\
    (t = [] \/ (exists c, t = [c] /\ c12_is_sign c = true) \/
     (exists sg ds, t = sg ++ ds /\ (sg = [] \/ exists c, sg = [c] /\ c12_is_sign c = true) /\ ds <> [] /\
                    forallb (fun c => match c12_digit c with Some _ => true | None => false end) ds = true /\
                    c12_spec_int_token lo hi t = None)).

(* unsigned types: blank* [+-]? digit+ blank* with magnitude m <= hi; "-m" denotes 2^w - m (the standard
   library's wrap-around for unsigned extraction: modelled library behaviour, stated, not endorsed) *)
Definition c12_spec_uint_digits (hi : Z) (neg : bool) (ds : c12_str) : option Z :=
  match ds with
  | [] => None
  | _ => match c12_all_some c12_digit ds with
         | None => None
         | Some vals =>
           let m := fold_left (fun a d => 10 * a + d)%Z vals 0%Z in
           if (m <=? hi)%Z then Some (if neg then ((hi + 1 - m) mod (hi + 1))%Z else m) else None
         end
  end.
Definition c12_spec_uint_token (hi : Z) (s : c12_str) : option Z :=
  match s with
  | "-" :: r => c12_spec_uint_digits hi true r
  | "+" :: r => c12_spec_uint_digits hi false r
  | _ => c12_spec_uint_digits hi false s
  end.
Definition c12_spec_uint (hi : Z) (s : c12_str) : option Z :=
  let s1 := c12_dropwhile c12_is_space s in
  if forallb c12_is_space (c12_dropwhile c12_nonspace s1)
  then c12_spec_uint_token hi (c12_takewhile c12_nonspace s1)
  else None.

(* readOptions, every argument vector: scanning left to right, an argument "-k..." (at least one character after
   the hyphen) takes the NEXT argument -- whatever it looks like -- as its value; all other arguments are
   ignored; an option at the very end has no value (dangling) *)
Definition c12_is_option (a : c12_str) : bool :=
  match a with c :: _ :: _ => Ascii.eqb c "-" | _ => false end.
Fixpoint c12_options_scan (args : list c12_str) : list (c12_str * c12_str) * bool :=
  match args with
  | [] => ([], false)
  | a :: rest =>
    if c12_is_option a then
      match rest with
      | [] => ([], true)
      | v :: rest' => let '(l, d) := c12_options_scan rest' in ((tl a, v) :: l, d)
      end
    else c12_options_scan rest
  end.
Definition c12_spec_read_options (args : list c12_str) (pt : c12_tree) : c12_tree * c12_status :=
  let '(l, dangling) := c12_options_scan args in
  let '(t, st) := c12_set_all l pt in
  (t, match st with C12Ok => if dangling then C12RangeError else C12Ok | _ => st end).

(* ------------------------------------------------------------------ report() read back

   a report line as an item of the INI dialect:  key = "value"  is a quoted single-line assignment,
   [ name ]  a group header *)
Definition c12_rline_sline (l : c12_rline) : c12_sline :=
  match l with
  | C12RValue k v => C12SQuoted1 [] k [" "] [" "] """" v [] []
  | C12RHeader n => C12SHeader [] [" "] n [" "] []
  end.
(* the printable fragment: the line is inside the dialect of C12_roundtrip (keys non-empty, tight, without = # and
   not starting with [ ; header names tight without ] ; values without # on their -- only -- line) *)
Definition c12_rline_ok (l : c12_rline) : bool := c12_sline_ok (c12_rline_sline l).
(* the (full key, value) list a report denotes when read from prefix [cur] *)
Definition c12_rl_assigns (rl : list c12_rline) (cur : c12_str) : list (c12_str * c12_str) :=
  c12_sdoc_assigns (map c12_rline_sline rl) cur.
Fixpoint c12_dotted (p : list c12_str) : c12_str :=
  match p with
  | [] => []
  | k :: r => match r with [] => k | _ => k ++ "." :: c12_dotted r end
  end.
Definition c12_seg_ok (k : c12_str) : bool := negb (c12_is_nil k) && c12_nochar "." k.

(* a floating-point literal and the exact decimal it denotes:
   sign? I [. F] [e|E sign? X]  with digit strings I, F, X,  I ++ F non-empty, X non-empty when present;
   value (-1)^neg * digits(I ++ F) * 10^(+-X - |F|) *)
Definition c12_digits_value (ds : c12_str) : option Z :=
  match c12_all_some c12_digit ds with
  | Some vals => Some (fold_left (fun a d => 10 * a + d)%Z vals 0%Z)
  | None => None
  end.
Inductive c12_double_literal : c12_str -> bool * Z * Z -> Prop :=
| C12DoubleLiteral : forall sg neg I dot F ex m e,
    (sg = [] /\ neg = false \/ sg = ["+"%char] /\ neg = false \/ sg = ["-"%char] /\ neg = true) ->
    (dot = [] /\ F = [] \/ dot = ["."%char]) ->
    I ++ F <> [] ->
    c12_digits_value (I ++ F) = Some m ->
    (ex = [] /\ e = (- Z.of_nat (length F))%Z \/
     exists ec esg eneg X xv, ex = ec :: esg ++ X /\ (ec = "e"%char \/ ec = "E"%char) /\
        (esg = [] /\ eneg = false \/ esg = ["+"%char] /\ eneg = false \/ esg = ["-"%char] /\ eneg = true) /\
        X <> [] /\ c12_digits_value X = Some xv /\
        e = ((if eneg then - xv else xv) - Z.of_nat (length F))%Z) ->
    c12_double_literal (sg ++ I ++ dot ++ F ++ ex) (neg, m, e).

(* n items of any element type: each an (optionally blank-preceded) text t with Tok t v *)
Inductive c12_gitems {A : Type} (Tok : c12_str -> A -> Prop) : nat -> c12_str -> list A -> c12_str -> Prop :=
| C12GItemsDone : forall s, c12_gitems Tok O s [] s
| C12GItemsMore : forall n b t v r vs rest,
    forallb c12_is_space b = true -> Tok t v -> c12_gitems Tok n r vs rest ->
    c12_gitems Tok (S n) (b ++ t ++ r) (v :: vs) rest.
