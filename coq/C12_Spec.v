(* C12 — the abstract statement and its executable oracle.

   A configuration source denotes an ordered list of assignments (path, value): the hierarchy
   is the set of paths, "groups" and "dotted keys" are just two spellings of a path.
   The tree obtained from a source must be exactly that list:
     value of a key         = the value written for its path            (c12_spec_value)
     value keys of a node   = last segments of the paths directly below it, in order of first
                              appearance                                (c12_spec_value_keys)
     sub keys of a node     = next segments of the longer paths below it, in order of first
                              appearance                                (c12_spec_sub_keys)
     pre-existing entries   = kept, or overwritten in place             (c12_spec_merge)
   Typed retrieval: an integer text is  blank* [+-]? digit+ blank*  denoting a representable
   value (c12_spec_int); a fixed-size range is exactly n blank-separated integer texts
   (c12_spec_range); nothing else converts. *)
From Coq Require Import List Ascii ZArith NArith Bool.
From DuneV Require Import C12_Model.
Import ListNotations.
Local Open Scope char_scope.

Definition c12_assign := (list c12_str * c12_str)%type.

Fixpoint c12_eqp (a b : list c12_str) : bool :=
  match a, b with
  | [], [] => true
  | x :: a', y :: b' => c12_eqs x y && c12_eqp a' b'
  | _, _ => false
  end.

Fixpoint c12_spec_value (d : list c12_assign) (p : list c12_str) : option c12_str :=
  match d with
  | [] => None
  | (q, v) :: r => if c12_eqp p q then Some v else c12_spec_value r p
  end.

Fixpoint c12_spec_replace (p : list c12_str) (v : c12_str) (d : list c12_assign) : list c12_assign :=
  match d with
  | [] => []
  | (q, w) :: r => if c12_eqp p q then (q, v) :: r else (q, w) :: c12_spec_replace p v r
  end.

(* source [doc] read into a tree already holding [pre] *)
Definition c12_spec_merge (pre doc : list c12_assign) (ow : bool) : list c12_assign :=
  fold_left (fun acc (a : c12_assign) =>
               match c12_spec_value acc (fst a) with
               | Some _ => if ow then c12_spec_replace (fst a) (snd a) acc else acc
               | None => acc ++ [a]
               end) doc pre.

Fixpoint c12_strip_prefix (pr p : list c12_str) : option (list c12_str) :=
  match pr, p with
  | [], _ => Some p
  | x :: pr', y :: p' => if c12_eqs x y then c12_strip_prefix pr' p' else None
  | _, [] => None
  end.

(* first occurrences, order kept *)
Fixpoint c12_nodup (l : list c12_str) (seen : list c12_str) : list c12_str :=
  match l with
  | [] => []
  | x :: r => if existsb (c12_eqs x) seen then c12_nodup r seen else x :: c12_nodup r (x :: seen)
  end.

Definition c12_spec_value_keys (d : list c12_assign) (pr : list c12_str) : list c12_str :=
  c12_nodup (flat_map (fun a : c12_assign => match c12_strip_prefix pr (fst a) with
                                             | Some [k] => [k] | _ => [] end) d) [].

Definition c12_spec_sub_keys (d : list c12_assign) (pr : list c12_str) : list c12_str :=
  c12_nodup (flat_map (fun a : c12_assign => match c12_strip_prefix pr (fst a) with
                                             | Some (k :: _ :: _) => [k] | _ => [] end) d) [].

(* a hierarchy: paths are non-empty, pairwise different, none is a proper prefix of another *)
Definition c12_is_prefix (p q : list c12_str) : bool :=
  match c12_strip_prefix p q with Some _ => true | None => false end.
Fixpoint c12_spec_wf (d : list c12_assign) : bool :=
  match d with
  | [] => true
  | (p, _) :: r => negb (c12_is_nil p)
                   && forallb (fun a : c12_assign => negb (c12_is_prefix p (fst a)) && negb (c12_is_prefix (fst a) p)) r
                   && c12_spec_wf r
  end.

(* ------------------------------------------------------------------ typed retrieval *)

Fixpoint c12_takewhile (f : ascii -> bool) (s : c12_str) : c12_str :=
  match s with
  | [] => []
  | c :: r => if f c then c :: c12_takewhile f r else []
  end.
Definition c12_nonspace (c : ascii) : bool := negb (c12_is_space c).

(* digit+ denoting m; the value (-m when neg) must lie in lo..hi *)
Definition c12_spec_int_digits (lo hi : Z) (neg : bool) (ds : c12_str) : option Z :=
  match ds with
  | [] => None
  | _ => match c12_all_some c12_digit ds with
         | None => None
         | Some vals =>
           let m := fold_left (fun a d => 10 * a + d)%Z vals 0%Z in
           let v := if neg then (- m)%Z else m in
           if ((lo <=? v) && (v <=? hi))%Z then Some v else None
         end
  end.

(* sign? digit+  (no blanks) *)
Definition c12_spec_int_token (lo hi : Z) (s : c12_str) : option Z :=
  match s with
  | "-" :: r => c12_spec_int_digits lo hi true r
  | "+" :: r => c12_spec_int_digits lo hi false r
  | _ => c12_spec_int_digits lo hi false s
  end.

(* blank* token blank*  where the token (the maximal blank-free piece) is an integer text *)
Definition c12_spec_int (lo hi : Z) (s : c12_str) : option Z :=
  let s1 := c12_dropwhile c12_is_space s in
  if forallb c12_is_space (c12_dropwhile c12_nonspace s1)
  then c12_spec_int_token lo hi (c12_takewhile c12_nonspace s1)
  else None.

(* separated tokens; blanks (isspace) for ranges, " \t\n\r" for vector/bitset (ParameterTree::split) *)
Fixpoint c12_spec_tokens_by (f : ascii -> bool) (s cur : c12_str) : list c12_str :=
  match s with
  | [] => if c12_is_nil cur then [] else [rev cur]
  | c :: r => if f c
              then (if c12_is_nil cur then c12_spec_tokens_by f r [] else rev cur :: c12_spec_tokens_by f r [])
              else c12_spec_tokens_by f r (c :: cur)
  end.
Definition c12_spec_tokens (s : c12_str) : list c12_str := c12_spec_tokens_by c12_is_space s [].
Definition c12_spec_tokens_ws (s : c12_str) : list c12_str := c12_spec_tokens_by c12_is_ws s [].
Definition c12_spec_strip_ws (s : c12_str) : c12_str :=
  rev (c12_dropwhile c12_is_ws (rev (c12_dropwhile c12_is_ws s))).

(* a token that is several integer texts written without a separator ("1-2"): the property does
   not say whether that is one malformed item or two items; the oracle abstains on it *)
Fixpoint c12_glued_aux (s : c12_str) (prev_digit : bool) (signs_inside : nat) : option nat :=
  match s with
  | [] => if prev_digit then Some signs_inside else None
  | c :: r => match c12_digit c with
              | Some _ => c12_glued_aux r true signs_inside
              | None => if (Ascii.eqb c "-" || Ascii.eqb c "+") && prev_digit
                        then c12_glued_aux r false (S signs_inside) else None
              end
  end.
Definition c12_is_glued (s : c12_str) : bool :=
  let body := match s with "-" :: r => r | "+" :: r => r | _ => s end in
  match c12_glued_aux body false O with Some (S _) => true | _ => false end.

Inductive c12_verdict (A : Type) := C12Accept (a : A) | C12Reject | C12Unspecified.
Arguments C12Accept {A} a. Arguments C12Reject {A}. Arguments C12Unspecified {A}.

Definition c12_spec_range (lo hi : Z) (n : nat) (s : c12_str) : c12_verdict (list Z) :=
  let toks := c12_spec_tokens s in
  if existsb c12_is_glued toks then C12Unspecified
  else if negb (Nat.eqb (length toks) n) then C12Reject
  else match c12_all_some (c12_spec_int_token lo hi) toks with
       | Some vs => C12Accept vs
       | None => C12Reject
       end.

Definition c12_spec_bool (s : c12_str) : option bool :=
  let r := map c12_tolower s in
  if c12_eqs r ["y";"e";"s"] || c12_eqs r ["t";"r";"u";"e"] then Some true
  else if c12_eqs r ["n";"o"] || c12_eqs r ["f";"a";"l";"s";"e"] then Some false
  else match c12_spec_int (- 2 ^ 31) (2 ^ 31 - 1) r with
       | Some v => Some (negb (v =? 0)%Z)
       | None => None
       end.
