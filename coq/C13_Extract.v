(* Extraction of the C13 model and oracle for the correspondence check (ExtrOcamlBasic only). *)
From Coq Require Import Extraction ExtrOcamlBasic.
From Coq Require Import List NArith.
From DuneV Require Import Params_gen C13_Model C13_Spec.
Extraction Language OCaml.
Extraction "c13_model.ml"
  c13_fixed c13_asis c13_tree c13_default_numberer c13_param_default_local c13_tuple_insert c13_tuple_view c13_list_insert
  c13_mod_remove_all c13_mod_repair c13_sync_seq c13_is_synced c13_sync c13_sync_rank c13_fixed_order c13_pack c13_calc_publish c13_message
  c13_obs_of_result c13_proc_of_obs
  c13_sorted_valid_b c13_monotone_b c13_completion_b c13_restore_pre c13_restore_b.
