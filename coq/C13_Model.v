(* C13 — executable model of Dune::IndicesSyncer<T>::sync (dune/common/parallel/indicessyncer.hh) over one
   ParallelIndexSet and its RemoteIndices (send list == receive list, as the constructor asserts).
   Definitions only (no proofs).  List-level: an index set is the list of its pairs in iteration order, a
   remote index list is the list of its entries in list order, the map rank -> list is an association list
   in ascending rank order (std::map iteration order).  A remote entry refers to its local pair by the KEY
   (global, local attribute) -- exactly what sync() snapshots in globalMap_ before the index set is re-sorted;
   the pointer itself is recomputed by c13_repair (repairLocalIndexPointers) as a position in the new set.

   The code has two warts that make the property false (findings C13-1, C13-2); the model carries both behind
   a variant so that the SAME definitions describe the tree as it is (c13_asis) and as repaired (c13_fixed):
     v_rattr : insertIntoRemoteIndexList's "entry already exists" test compares the REMOTE attribute
               (fixed) / compares globalIndexPair().second, i.e. the LOCAL attribute, with the remote one (as is)
     v_dedup : recvAndUnpack adds an unknown (global, attribute) once per sync (fixed) / once per publishing
               neighbour, because only the old part of the index set is searched (as is). *)
From Coq Require Import List NArith Bool.
From DuneV Require Import Params_gen.
Import ListNotations.
Local Open Scope N_scope.

Record c13_variant := C13Variant { v_rattr : bool; v_dedup : bool }.
Definition c13_fixed := C13Variant true true.
Definition c13_asis := C13Variant false false.
(* the variant the CURRENT source is: both switches are re-read from indicessyncer.hh on every run (tools/params.d/C13.py);
   Properties_C13.v proves c13_tree = c13_fixed, so reverting either repair in the source breaks that theorem *)
Definition c13_tree := C13Variant c13_param_dup_test_remote_attr c13_param_dedup_added.

(* IndexPair<G, ParallelLocalIndex<A>>: global, attribute, local number, public flag *)
Record c13_pair := C13Pair { c13_g : N; c13_a : N; c13_l : N; c13_p : bool }.
Definition c13_key := (N * N)%type.                    (* (global, local attribute): std::pair<GlobalIndex,Attribute> *)
Definition c13_rentry := (c13_key * N)%type.           (* key of the local pair, remote attribute *)
Definition c13_rmap := list (N * list c13_rentry).     (* std::map<int, RemoteIndexList*> *)
Record c13_proc := C13Proc { c13_iset : list c13_pair; c13_ri : c13_rmap }.
Definition c13_world := list c13_proc.                 (* position = rank *)

Definition c13_keyof (p : c13_pair) : c13_key := (c13_g p, c13_a p).
(* operator< / == of std::pair<GlobalIndex,Attribute> *)
Definition c13_key_lt (x y : c13_key) : bool := (fst x <? fst y) || ((fst x =? fst y) && (snd x <? snd y)).
Definition c13_key_eq (x y : c13_key) : bool := (fst x =? fst y) && (snd x =? snd y).

Fixpoint c13_dropwhile {A} (f : A -> bool) (l : list A) : list A :=
  match l with [] => [] | x :: r => if f x then c13_dropwhile f r else l end.

(* ------------------------------------------------------------------ packAndSend
   One publication: (global, attribute on the sender, [(process, attribute)] for every neighbour whose iterator
   stands on an OLD entry with that global index).  All entries are old while packing (every send is packed
   before the first receive), so isOld() is constantly true here and is not modelled.
   `its` = the iterator tuples: per neighbour the part of its list not yet passed. *)
Definition c13_publication := (N * N * list (N * N))%type.

Definition c13_advance (g : N) (l : list c13_rentry) : list c13_rentry :=
  c13_dropwhile (fun e => fst (fst e) <? g) l.

Definition c13_holder_at (g : N) (x : N * list c13_rentry) : list (N * N) :=
  match snd x with
  | e :: _ => if fst (fst e) =? g then [(fst x, snd e)] else []
  | [] => []
  end.
Definition c13_holders (g : N) (its : c13_rmap) : list (N * N) := flat_map (c13_holder_at g) its.

Fixpoint c13_pack (dest : N) (iset : list c13_pair) (its : c13_rmap) : list c13_publication :=
  match iset with
  | [] => []
  | ip :: rest =>
      let its' := map (fun x => (fst x, c13_advance (c13_g ip) (snd x))) its in
      let hs := c13_holders (c13_g ip) its' in
      if existsb (fun h => fst h =? dest) hs               (* knownRemote *)
      then (c13_g ip, c13_a ip, hs) :: c13_pack dest rest its'
      else c13_pack dest rest its'
  end.

(* calculateMessageSizes: the `publish` count written in front of the message comes from the collective
   iterator: local pairs for which dest's list holds an entry with the same global index AND local attribute *)
Definition c13_calc_publish (dest : N) (iset : list c13_pair) (ri : c13_rmap) : nat :=
  match find (fun x => fst x =? dest) ri with
  | Some x => length (filter (fun ip => existsb (fun e => c13_key_eq (fst e) (c13_keyof ip)) (snd x)) iset)
  | None => 0%nat
  end.

(* ------------------------------------------------------------------ insertIntoRemoteIndexList *)
(* for(tmp = iterators; !atEnd && tmp.globalIndexPair()==globalPair; ++tmp) if(<test>) indexIsThere = true *)
Fixpoint c13_dup_there (v : c13_variant) (key : c13_key) (ra : N) (l : list c13_rentry) : bool :=
  match l with
  | e :: r => if c13_key_eq (fst e) key
              then (if (if v_rattr v then snd e =? ra else snd (fst e) =? ra) then true else c13_dup_there v key ra r)
              else false
  | [] => false
  end.

Fixpoint c13_list_insert (v : c13_variant) (key : c13_key) (ra : N) (l : list c13_rentry) : list c13_rentry :=
  match l with
  | [] => [(key, ra)]
  | e :: r =>
      if c13_key_lt (fst e) key then e :: c13_list_insert v key ra r
      else if c13_key_eq (fst e) key then (if c13_dup_there v key ra l then l else (key, ra) :: l)
      else (key, ra) :: l
  end.

(* iteratorsMap_.find(process); a missing list is created (new neighbour discovered) *)
Fixpoint c13_map_insert (v : c13_variant) (proc : N) (key : c13_key) (ra : N) (m : c13_rmap) : c13_rmap :=
  match m with
  | [] => [(proc, [(key, ra)])]
  | x :: r =>
      if fst x =? proc then (fst x, c13_list_insert v key ra (snd x)) :: r
      else if proc <? fst x then (proc, [(key, ra)]) :: m
      else x :: c13_map_insert v proc key ra r
  end.

(* ------------------------------------------------------------------ recvAndUnpack *)
Definition c13_same_ga (g a : N) (p : c13_pair) : bool := (c13_g p =? g) && (c13_a p =? a).

(* indexSet_.add(global, ParallelLocalIndex(numberer(global), myAttribute, true)) -> newIndices_.push_back *)
Definition c13_add (v : c13_variant) (numb : N -> N) (g a : N) (added : list c13_pair) : list c13_pair :=
  if v_dedup v && existsb (c13_same_ga g a) added then added
  else added ++ [C13Pair g a (numb g) c13_param_added_public].      (* the `true` of both add sites, re-read from the source *)

(* IndicesSyncer::DefaultNumberer: std::numeric_limits<size_t>::max() for every global index *)
Definition c13_default_numberer : N -> N := fun _ => c13_param_default_local.

(* for(; pos->global()==global; ++pos) if(pos->local().attribute()==myAttribute) ...
   (on [] the C++ loop would read past end(); only reachable when the last pairs of the set all carry `global`
   under other attributes, i.e. when a rank holds one global index under several attributes) *)
Fixpoint c13_attr_there (g a : N) (idx : list c13_pair) : bool :=
  match idx with
  | p :: r => if c13_g p =? g then (if c13_a p =? a then true else c13_attr_there g a r) else false
  | [] => false
  end.

Record c13_rstate := C13RState { rs_added : list c13_pair; rs_ri : c13_rmap }.

(* the loop over the (process, attribute) pairs of one publication.
   idx = `index` (a suffix of the OLD index set: lower_bound searches [index, iEnd) only) *)
Fixpoint c13_pairs_loop (v : c13_variant) (rank_ : N) (numb : N -> N) (g : N) (pairs : list (N * N))
         (idx added : list c13_pair) (myattr : N) (srcl : list (N * N))
  : list c13_pair * list c13_pair * N * list (N * N) :=
  match pairs with
  | [] => (idx, added, myattr, srcl)
  | pa :: rest =>
      if fst pa =? rank_ then
        let att := snd pa in
        let pos := c13_dropwhile (fun p => c13_g p <? g) idx in        (* std::lower_bound(index, iEnd, IndexPair(global)) *)
        match pos with
        | p :: _ =>
            if c13_g p =? g
            then c13_pairs_loop v rank_ numb g rest pos
                   (if c13_attr_there g att pos then added else c13_add v numb g att added) att srcl
            else c13_pairs_loop v rank_ numb g rest idx (c13_add v numb g att added) att srcl
        | [] => c13_pairs_loop v rank_ numb g rest idx (c13_add v numb g att added) att srcl
        end
      else c13_pairs_loop v rank_ numb g rest idx added myattr (srcl ++ [pa])
  end.

Definition c13_unpack_one (v : c13_variant) (rank_ : N) (numb : N -> N) (source : N)
           (st : list c13_pair * c13_rstate) (pb : c13_publication) : list c13_pair * c13_rstate :=
  let g := fst (fst pb) in
  let sattr := snd (fst pb) in
  let '(idx', added', myattr, srcl) :=
      c13_pairs_loop v rank_ numb g (snd pb) (fst st) (rs_added (snd st)) 0 [(source, sattr)] in
  (idx', C13RState added' (fold_left (fun m pa => c13_map_insert v (fst pa) (g, myattr) (snd pa) m) srcl (rs_ri (snd st)))).

(* one recvAndUnpack: `index` starts at begin() of the old set for every message *)
Definition c13_receive (v : c13_variant) (rank_ : N) (numb : N -> N) (old : list c13_pair)
           (st : c13_rstate) (source : N) (msg : list c13_publication) : c13_rstate :=
  snd (fold_left (c13_unpack_one v rank_ numb source) msg (old, st)).

(* ------------------------------------------------------------------ endResize: sort the new pairs, merge *)
Fixpoint c13_sort_insert (x : c13_pair) (l : list c13_pair) : list c13_pair :=
  match l with
  | [] => [x]
  | y :: r => if c13_key_lt (c13_keyof y) (c13_keyof x) then y :: c13_sort_insert x r else x :: l
  end.
Definition c13_sort (l : list c13_pair) : list c13_pair := fold_right c13_sort_insert [] l.

(* ParallelIndexSet::merge: old first iff old < added in (global, attribute); no pair is dropped *)
Fixpoint c13_merge (old added : list c13_pair) : list c13_pair :=
  match old with
  | [] => added
  | o :: old' =>
      (fix inner (added : list c13_pair) : list c13_pair :=
         match added with
         | [] => old
         | n :: added' => if c13_key_lt (c13_keyof o) (c13_keyof n) then o :: c13_merge old' added
                          else n :: inner added'
         end) added
  end.

(* ------------------------------------------------------------------ repairLocalIndexPointers (free function)
   pos = `index` as a position in the re-sorted set; dereferencing position >= size is the out-of-bounds read. *)
Inductive c13_ptrs := C13Ptrs (ps : list nat) | C13PastEnd | C13OutOfFuel.

Fixpoint c13_find_fwd (fuel : nat) (iset : list c13_pair) (key : c13_key) (pos : nat) : option (option nat) :=
  (* Some (Some k): found at k; Some None: past-the-end dereference; None: fuel *)
  match fuel with
  | O => None
  | S f =>
      match nth_error iset pos with
      | None => Some None
      | Some p =>
          if c13_key_eq (c13_keyof p) key then Some (Some pos)
          else match nth_error iset (S pos) with           (* ++index; if(index->global() > gIndex->first) *)
               | None => Some None
               | Some p' => if fst key <? c13_g p' then c13_find_fwd f iset key 0 else c13_find_fwd f iset key (S pos)
               end
      end
  end.

Fixpoint c13_repair_list (fuel : nat) (iset : list c13_pair) (l : list c13_rentry) (pos : nat) : c13_ptrs :=
  match l with
  | [] => C13Ptrs []
  | e :: r =>
      match c13_find_fwd fuel iset (fst e) pos with
      | None => C13OutOfFuel
      | Some None => C13PastEnd
      | Some (Some k) =>
          match c13_repair_list fuel iset r (S k) with
          | C13Ptrs ps => C13Ptrs (k :: ps)
          | err => err
          end
      end
  end.

Definition c13_repair_fuel (iset : list c13_pair) : nat := (2 * length iset + 2)%nat.

(* ------------------------------------------------------------------ sync *)
Inductive c13_result :=
| C13Ok (iset : list c13_pair) (ri : c13_rmap) (ptrs : list (N * c13_ptrs))
| C13Deadlock.            (* a neighbour that does not list us never sends: MPI_Probe blocks forever *)

Definition c13_proc_of (w : c13_world) (q : N) : c13_proc := nth (N.to_nat q) w (C13Proc [] []).
Definition c13_neighbours (pr : c13_proc) : list N := map fst (c13_ri pr).
Definition c13_lists (pr : c13_proc) (q : N) : bool := existsb (fun x => fst x =? q) (c13_ri pr).

(* the message rank q sends to rank_ (packAndSend(destination = rank_) on q) *)
Definition c13_message (w : c13_world) (q rank_ : N) : list c13_publication :=
  c13_pack rank_ (c13_iset (c13_proc_of w q)) (c13_ri (c13_proc_of w q)).

(* the receive phase of rank_: messages of the sources in the given order *)
Definition c13_recv_all (v : c13_variant) (numb : N -> N) (w : c13_world) (rank_ : N) (order : list N) : c13_rstate :=
  let me := c13_proc_of w rank_ in
  fold_left (fun st q => c13_receive v rank_ numb (c13_iset me) st q (c13_message w q rank_))
            order (C13RState [] (c13_ri me)).

Definition c13_sync_rank (v : c13_variant) (numb : N -> N) (w : c13_world) (rank_ : N) (order : list N) : c13_result :=
  let me := c13_proc_of w rank_ in
  if forallb (fun q => c13_lists (c13_proc_of w q) rank_) order then
    let st := c13_recv_all v numb w rank_ order in
    let iset' := c13_merge (c13_iset me) (c13_sort (rs_added st)) in
    C13Ok iset' (rs_ri st)
          (map (fun x => (fst x, c13_repair_list (c13_repair_fuel iset') iset' (snd x) 0)) (rs_ri st))
  else C13Deadlock.

(* fixed order = the old neighbours ascending; arrival order = any permutation sigma of them *)
Definition c13_sync (v : c13_variant) (numb : N -> N -> N) (w : c13_world) (sigma : N -> list N) : list c13_result :=
  map (fun r => c13_sync_rank v (numb r) w r (sigma r)) (map N.of_nat (seq 0 (length w))).
Definition c13_fixed_order (w : c13_world) (r : N) : list N := c13_neighbours (c13_proc_of w r).

(* ------------------------------------------------------------------ sequence numbers: isSynced()
   ParallelIndexSet::seqNo_ is incremented by endResize(); repairLocalIndexPointers copies it into sourceSeqNo_/destSeqNo_
   and the last statement of sync() assigns it once more; isSynced() compares (source and target are the same set here). *)
Record c13_seqs := C13Seqs { sq_set : N; sq_src : N; sq_dst : N }.
Definition c13_end_resize_seq (s : c13_seqs) : c13_seqs := C13Seqs (sq_set s + 1) (sq_src s) (sq_dst s).
Definition c13_repair_seq (s : c13_seqs) : c13_seqs := C13Seqs (sq_set s) (sq_set s) (sq_set s).
Definition c13_sync_seq (s : c13_seqs) : c13_seqs :=
  let s1 := c13_end_resize_seq s in          (* beginResize .. endResize *)
  let s2 := c13_repair_seq s1 in             (* repairLocalIndexPointers(globalMap_, remoteIndices_, indexSet_) *)
  C13Seqs (sq_set s2) (sq_set s2) (sq_set s2).  (* remoteIndices_.sourceSeqNo_ = remoteIndices_.destSeqNo_ = indexSet_.seqNo() *)
Definition c13_is_synced (s : c13_seqs) : bool := (sq_src s =? sq_set s) && (sq_dst s =? sq_set s).
(* getModifier() declares the lists in sync at the moment it is called; a later endResize makes them stale again *)
Definition c13_get_modifier_seq (s : c13_seqs) : c13_seqs := C13Seqs (sq_set s) (sq_set s) (sq_set s).

(* ------------------------------------------------------------------ the iterator tuple, literally: three parallel lists
   (remote index list, globalMap_ list, oldMap_ list) walked by one Iterators object; insertIntoRemoteIndexList inserts into
   all three at the iterator position.  c13_list_insert above is the same loop on the zipped view (proved: C13_tuple_insert_refines). *)
Definition c13_tuple := (list N * list c13_key * list bool)%type.      (* remote attributes, (global, attribute), isOld *)
Fixpoint c13_tuple_dup_there (v : c13_variant) (key : c13_key) (ra : N) (rl : list N) (gl : list c13_key) : bool :=
  match rl, gl with
  | r :: rl', g :: gl' => if c13_key_eq g key
                          then (if (if v_rattr v then r =? ra else snd g =? ra) then true else c13_tuple_dup_there v key ra rl' gl')
                          else false
  | _, _ => false
  end.
Fixpoint c13_tuple_insert (v : c13_variant) (key : c13_key) (ra : N) (rl : list N) (gl : list c13_key) (bl : list bool) : c13_tuple :=
  match rl, gl, bl with
  | r :: rl', g :: gl', b :: bl' =>
      if c13_key_lt g key                                   (* while(isNotAtEnd() && globalIndexPair() < globalPair) ++iterators *)
      then match c13_tuple_insert v key ra rl' gl' bl' with (a, b', c) => (r :: a, g :: b', b :: c) end
      else if c13_key_eq g key
           then (if c13_tuple_dup_there v key ra rl gl then (rl, gl, bl) else (ra :: rl, key :: gl, false :: bl))
           else (ra :: rl, key :: gl, false :: bl)          (* iterators.insert(RemoteIndex(attribute), globalPair): old = false *)
  | _, _, _ => (ra :: rl, key :: gl, false :: bl)           (* isAtEnd() *)
  end.
Definition c13_tuple_view (t : c13_tuple) : list c13_rentry := combine (snd (fst t)) (fst (fst t)).

(* ------------------------------------------------------------------ RemoteIndexListModifier<T,A,true> (remoteindices.hh), literally:
   the remote list with the parallel list glist_ of global indices; remove / insert move forward only (ascending calls) *)
(* remove(global): while (iter_ != end_ and giter_'s value < global) ++; if giter_'s value == global, remove both. *)
Fixpoint c13_mod_remove (g : N) (rl : list c13_rentry) (gl : list N) : list c13_rentry * list N :=
  match rl, gl with
  | e :: rl', x :: gl' => if x <? g then match c13_mod_remove g rl' gl' with (a, b) => (e :: a, x :: b) end
                          else if x =? g then (rl', gl') else (rl, gl)
  | _, _ => (rl, gl)
  end.
(* the harness' deletion: remove the listed globals in ascending order (one modifier walks forward; here restarted, same result) *)
Definition c13_mod_remove_all (gs : list N) (rl : list c13_rentry) : list c13_rentry :=
  fst (fold_left (fun st g => c13_mod_remove g (fst st) (snd st)) gs (rl, map (fun e => fst (fst e)) rl)).
(* insert(index, global): move forward while giter_'s value < global, insert in front of the position *)
Fixpoint c13_mod_insert (e : c13_rentry) (g : N) (rl : list c13_rentry) (gl : list N) : list c13_rentry * list N :=
  match rl, gl with
  | y :: rl', x :: gl' => if x <? g then match c13_mod_insert e g rl' gl' with (a, b) => (y :: a, x :: b) end
                          else (e :: rl, g :: gl)
  | _, _ => (e :: rl, g :: gl)
  end.
(* repairLocalIndexPointers() of the modifier: for every entry advance `index` while index->global() < giter's value (never back);
   pos = position in the new index set; None = ran off the end (the C++ reads past end() there) *)
Fixpoint c13_mod_seek (fuel : nat) (iset : list c13_pair) (g : N) (pos : nat) : option nat :=
  match fuel with
  | O => None
  | S f => match nth_error iset pos with
           | None => None
           | Some p => if c13_g p <? g then c13_mod_seek f iset g (S pos) else Some pos
           end
  end.
Fixpoint c13_mod_repair (iset : list c13_pair) (gl : list N) (pos : nat) : option (list nat) :=
  match gl with
  | [] => Some []
  | g :: gl' => match c13_mod_seek (S (length iset)) iset g pos with
                | None => None
                | Some k => match c13_mod_repair iset gl' k with Some ks => Some (k :: ks) | None => None end
                end
  end.
