(* C13 — lemmas and proofs, part 1: keys, sorted insertion into a remote list / into the neighbour map,
   pointer repair. *)
From Coq Require Import List NArith Bool Lia Sorted Permutation.
From DuneV Require Import C13_Model C13_Spec.
Import ListNotations.
Local Open Scope N_scope.

(* ------------------------------------------------------------------ keys *)
Definition klt (x y : c13_key) : Prop := fst x < fst y \/ (fst x = fst y /\ snd x < snd y).
Definition kle (x y : c13_key) : Prop := ~ klt y x.

Lemma key_lt_spec x y : c13_key_lt x y = true <-> klt x y.
Proof.
  unfold c13_key_lt, klt. rewrite orb_true_iff, andb_true_iff, N.eqb_eq. rewrite !N.ltb_lt. reflexivity.
Qed.
Lemma key_lt_false x y : c13_key_lt x y = false <-> kle y x.
Proof. unfold kle. rewrite <- key_lt_spec. destruct (c13_key_lt x y); split; intros H; try discriminate; try reflexivity;
    try (exfalso; apply H; reflexivity).
Qed.
Lemma key_eq_spec (x y : c13_key) : c13_key_eq x y = true <-> x = y.
Proof.
  unfold c13_key_eq. rewrite andb_true_iff, !N.eqb_eq. destruct x, y; simpl. split; [intros [-> ->]; reflexivity | intros H; inversion H; auto].
Qed.
Lemma key_eq_refl x : c13_key_eq x x = true.
Proof. apply key_eq_spec; reflexivity. Qed.
Lemma klt_irrefl x : ~ klt x x.
Proof. unfold klt; lia. Qed.
Lemma klt_trans x y z : klt x y -> klt y z -> klt x z.
Proof. unfold klt; lia. Qed.
Lemma kle_refl x : kle x x.
Proof. apply klt_irrefl. Qed.
Lemma kle_trans x y z : kle x y -> kle y z -> kle x z.
Proof. unfold kle, klt; lia. Qed.
Lemma klt_kle_trans x y z : klt x y -> kle y z -> klt x z.
Proof. unfold kle, klt; lia. Qed.
Lemma kle_klt_trans x y z : kle x y -> klt y z -> klt x z.
Proof. unfold kle, klt; lia. Qed.
Lemma klt_kle x y : klt x y -> kle x y.
Proof. unfold kle, klt; lia. Qed.
Lemma k_trich (x y : c13_key) : klt x y \/ x = y \/ klt y x.
Proof.
  destruct x as [a b], y as [c d]; unfold klt; simpl.
  destruct (N.lt_trichotomy a c) as [|[->|]]; auto.
  destruct (N.lt_trichotomy b d) as [|[->|]]; auto.
Qed.
Lemma kle_antisym x y : kle x y -> kle y x -> x = y.
Proof. intros H1 H2. destruct (k_trich x y) as [|[|]]; auto; contradiction. Qed.

(* a remote list is ordered when the keys of its entries never decrease *)
Definition rsorted (l : list c13_rentry) : Prop := StronglySorted (fun a b => kle (fst a) (fst b)) l.
Definition rlist_wf (l : list c13_rentry) : Prop := rsorted l /\ NoDup l.

Lemma rsorted_tail e l : rsorted (e :: l) -> rsorted l.
Proof. intros H; inversion H; auto. Qed.
Lemma rsorted_head e l x : rsorted (e :: l) -> In x l -> kle (fst e) (fst x).
Proof. intros H Hi; inversion H; subst. rewrite Forall_forall in H3; auto. Qed.

(* ------------------------------------------------------------------ insertIntoRemoteIndexList, one list *)
Lemma list_insert_incl v key ra l e : In e l -> In e (c13_list_insert v key ra l).
Proof.
  induction l as [|x r IH]; simpl; intros Hi; [contradiction|].
  destruct (c13_key_lt (fst x) key).
  - destruct Hi as [->|Hi]; [left; auto | right; auto].
  - destruct (c13_key_eq (fst x) key).
    + destruct (if if v_rattr v then snd x =? ra else snd (fst x) =? ra then true else c13_dup_there v key ra r); simpl; auto.
    + simpl; auto.
Qed.

Lemma list_insert_inv v key ra l e : In e (c13_list_insert v key ra l) -> e = (key, ra) \/ In e l.
Proof.
  induction l as [|x r IH]; simpl.
  - intros [<-|[]]; auto.
  - destruct (c13_key_lt (fst x) key).
    + intros [->|Hi]; auto. destruct (IH Hi); auto.
    + destruct (c13_key_eq (fst x) key).
      * destruct (if if v_rattr v then snd x =? ra else snd (fst x) =? ra then true else c13_dup_there v key ra r); simpl; intros H; intuition.
      * simpl; intros H; intuition.
Qed.

(* the duplicate test of the repaired code decides membership on the block of entries carrying `key` *)
Lemma dup_there_fixed key ra l :
  rsorted l -> (forall x, In x l -> kle key (fst x)) ->
  (c13_dup_there c13_fixed key ra l = true <-> In (key, ra) l).
Proof.
  induction l as [|e r IH]; simpl; intros Hs Hge.
  - split; [discriminate | tauto].
  - destruct (c13_key_eq (fst e) key) eqn:Ek.
    + apply key_eq_spec in Ek.
      destruct (snd e =? ra) eqn:Er.
      * apply N.eqb_eq in Er. split; auto. intros _. left. destruct e; simpl in *; subst; reflexivity.
      * rewrite IH; [| eapply rsorted_tail; eauto | intros; apply Hge; auto].
        split; auto. intros [He|]; auto. subst e; simpl in Er. rewrite N.eqb_refl in Er; discriminate.
    + split; [discriminate|]. intros [He|Hi].
      * subst e; simpl in Ek. rewrite key_eq_refl in Ek; discriminate.
      * exfalso. pose proof (rsorted_head _ _ _ Hs Hi) as H1. simpl in H1.
        pose proof (Hge e (or_introl eq_refl)) as H2.
        assert (fst e = key) by (apply kle_antisym; auto). subst key. rewrite key_eq_refl in Ek; discriminate.
Qed.

Lemma list_insert_fixed_in key ra l : rsorted l -> In (key, ra) (c13_list_insert c13_fixed key ra l).
Proof.
  induction l as [|x r IH]; simpl; intros Hs; auto.
  destruct (c13_key_lt (fst x) key) eqn:E1.
  - right. apply IH. eapply rsorted_tail; eauto.
  - destruct (c13_key_eq (fst x) key) eqn:E2; [|left; reflexivity].
    match goal with |- In _ (if ?c then _ else _) => destruct c eqn:E3 end; [|left; reflexivity].
    apply key_lt_false in E1.
    assert (Hge : forall y, In y (x :: r) -> kle key (fst y)).
    { apply key_eq_spec in E2. intros y [<-|Hy]; [rewrite E2; apply kle_refl|].
      rewrite <- E2. eapply rsorted_head; eauto. }
    apply (dup_there_fixed key ra (x :: r) Hs Hge). simpl. rewrite E2. exact E3.
Qed.

Lemma list_insert_sorted v key ra l : rsorted l -> rsorted (c13_list_insert v key ra l).
Proof.
  induction l as [|x r IH]; simpl; intros Hs.
  - constructor; constructor.
  - destruct (c13_key_lt (fst x) key) eqn:E1.
    + constructor; [apply IH; eapply rsorted_tail; eauto|].
      apply Forall_forall. intros y Hy. apply list_insert_inv in Hy. destruct Hy as [->|Hy].
      * simpl. apply klt_kle, key_lt_spec; auto.
      * eapply rsorted_head; eauto.
    + apply key_lt_false in E1.
      assert (Hnew : rsorted ((key, ra) :: x :: r)).
      { constructor; auto. apply Forall_forall. intros y [<-|Hy]; simpl; auto.
        eapply kle_trans; [exact E1|]. eapply rsorted_head; eauto. }
      destruct (c13_key_eq (fst x) key); auto.
      match goal with |- rsorted (if ?c then _ else _) => destruct c end; auto.
Qed.

Lemma list_insert_nodup key ra l : rlist_wf l -> NoDup (c13_list_insert c13_fixed key ra l).
Proof.
  intros [Hs Hn]. induction l as [|x r IH]; simpl.
  - constructor; auto; constructor.
  - destruct (c13_key_lt (fst x) key) eqn:E1.
    + inversion Hn; subst. constructor; [| apply IH; auto; eapply rsorted_tail; eauto].
      intros Hi. apply list_insert_inv in Hi. destruct Hi as [->|Hi]; auto.
      simpl in E1. apply key_lt_spec in E1. exact (klt_irrefl _ E1).
    + apply key_lt_false in E1.
      assert (Hge : forall y, In y (x :: r) -> kle key (fst y)).
      { intros y [<-|Hy]; auto. eapply kle_trans; [exact E1|]. eapply rsorted_head; eauto. }
      destruct (c13_key_eq (fst x) key) eqn:E2.
      * match goal with |- NoDup (if ?c then _ else _) => destruct c eqn:E3 end; auto.
        constructor; auto. intros Hi. apply (dup_there_fixed key ra (x :: r) Hs Hge) in Hi. simpl in Hi.
        rewrite E2 in Hi. rewrite Hi in E3. discriminate.
      * constructor; auto. intros [He|Hi].
        { subst x; simpl in E2; rewrite key_eq_refl in E2; discriminate. }
        { pose proof (rsorted_head _ _ _ Hs Hi) as H1. simpl in H1.
          assert (fst x = key) by (apply kle_antisym; auto). subst key. rewrite key_eq_refl in E2; discriminate. }
Qed.

Lemma list_insert_wf key ra l : rlist_wf l -> rlist_wf (c13_list_insert c13_fixed key ra l).
Proof. intros H; split; [apply list_insert_sorted; apply H | apply list_insert_nodup; auto]. Qed.
