(* C13 — part 9: exact, order-free characterisation of the state after the receive phase:
   neighbour keys, remote entries and added pairs as functions of the SET of processed messages;
   extensionality of strictly ordered lists and maps. *)
From Coq Require Import List NArith Bool Lia Sorted Permutation.
From DuneV Require Import C13_Model C13_Spec C13_Proofs C13_Proofs_Recv C13_Proofs_Sync C13_Proofs_Completion C13_Proofs_Sound C13_Proofs_Iset C13_Proofs_Repair.
Import ListNotations.
Local Open Scope N_scope.

(* ------------------------------------------------------------------ strictly ordered lists are determined by their members *)
Section SortedExt.
  Context {A : Type}.
  Variable lt : A -> A -> Prop.
  Hypothesis lt_irrefl : forall x, ~ lt x x.
  Hypothesis lt_trans : forall x y z, lt x y -> lt y z -> lt x z.

  Lemma sorted_ext : forall l1 l2, StronglySorted lt l1 -> StronglySorted lt l2 ->
    (forall x, In x l1 <-> In x l2) -> l1 = l2.
  Proof.
    induction l1 as [|x1 t1 IH]; intros l2 H1 H2 Hm.
    - destruct l2 as [|x2 t2]; auto. exfalso. apply (proj2 (Hm x2)). left; auto.
    - destruct l2 as [|x2 t2]. { exfalso. apply (proj1 (Hm x1)). left; auto. }
      inversion H1 as [|? ? S1 F1]; subst. inversion H2 as [|? ? S2 F2]; subst.
      rewrite Forall_forall in F1, F2.
      assert (x1 = x2).
      { destruct (proj1 (Hm x1) (or_introl eq_refl)) as [E|E]; auto.
        destruct (proj2 (Hm x2) (or_introl eq_refl)) as [E'|E']; auto.
        exfalso. apply (lt_irrefl x1). eapply lt_trans; [apply F1; exact E' | apply F2; exact E]. }
      subst x2. f_equal. apply IH; auto. intros y; split; intros Hy.
      + destruct (proj1 (Hm y) (or_intror Hy)) as [E|E]; auto. subst y. exfalso. apply (lt_irrefl x1). apply F1; auto.
      + destruct (proj2 (Hm y) (or_intror Hy)) as [E|E]; auto. subst y. exfalso. apply (lt_irrefl x1). apply F2; auto.
  Qed.
End SortedExt.

Lemma strict_keys_ext l1 l2 : strict_keys l1 -> strict_keys l2 -> (forall e, In e l1 <-> In e l2) -> l1 = l2.
Proof.
  apply (sorted_ext (fun a b : c13_rentry => klt (fst a) (fst b))).
  - intros x. apply klt_irrefl.
  - intros x y z. apply klt_trans.
Qed.

Lemma istrict_ext l1 l2 : istrict l1 -> istrict l2 -> (forall e, In e l1 <-> In e l2) -> l1 = l2.
Proof.
  apply (sorted_ext (fun a b : c13_pair => klt (c13_keyof a) (c13_keyof b))).
  - intros x. apply klt_irrefl.
  - intros x y z. apply klt_trans.
Qed.

Lemma rmap_sorted_unique m q l l' : rmap_sorted m -> In (q, l) m -> In (q, l') m -> l = l'.
Proof.
  induction 1 as [|z r Hs IH Hf]; intros H1 H2; [contradiction|]. rewrite Forall_forall in Hf.
  destruct H1 as [->|H1], H2 as [E|H2].
  - inversion E; auto.
  - specialize (Hf _ H2). simpl in Hf. lia.
  - subst z. specialize (Hf _ H1). simpl in Hf. lia.
  - auto.
Qed.

(* two strictly ordered neighbour maps with the same keys, the same entries and strictly ordered lists are equal *)
Lemma rmap_ext : forall m1 m2, rmap_sorted m1 -> rmap_sorted m2 ->
  (forall q, In q (map fst m1) <-> In q (map fst m2)) ->
  (forall q e, In_rmap m1 q e <-> In_rmap m2 q e) ->
  (forall q l, In (q, l) m1 -> strict_keys l) -> (forall q l, In (q, l) m2 -> strict_keys l) -> m1 = m2.
Proof.
  intros m1 m2 S1 S2 HK HE L1 L2.
  apply (sorted_ext (fun a b : N * list c13_rentry => fst a < fst b)); auto.
  - intros x. lia.
  - intros x y z. lia.
  - assert (Hdir : forall ma mb, rmap_sorted ma -> rmap_sorted mb ->
              (forall q, In q (map fst ma) -> In q (map fst mb)) ->
              (forall q e, In_rmap ma q e <-> In_rmap mb q e) ->
              (forall q l, In (q, l) ma -> strict_keys l) -> (forall q l, In (q, l) mb -> strict_keys l) ->
              forall x, In x ma -> In x mb).
    { intros ma mb Sa Sb Hk He La Lb [q l] Hx.
      assert (Hq : In q (map fst mb)) by (apply Hk; apply in_map_iff; exists (q, l); auto).
      apply in_map_iff in Hq. destruct Hq as [[q' l'] [E Hy]]. simpl in E. subst q'.
      assert (l = l'); [|subst; auto].
      apply strict_keys_ext; [apply (La q); auto | apply (Lb q); auto|].
      intros e; split; intros Hi.
      - destruct (proj1 (He q e) (ex_intro _ l (conj Hx Hi))) as [l2 [G1 G2]].
        rewrite (rmap_sorted_unique mb q l' l2 Sb Hy G1). auto.
      - destruct (proj2 (He q e) (ex_intro _ l' (conj Hy Hi))) as [l2 [G1 G2]].
        rewrite (rmap_sorted_unique ma q l l2 Sa Hx G1). auto. }
    intros x; split; apply Hdir; auto; try (intros q; apply HK); intros q e; split; apply HE.
Qed.

(* ------------------------------------------------------------------ neighbour keys after the receive phase (any variant) *)
Lemma fold_insert_keys v key srcl : forall m q,
  In q (map fst (fold_left (fun m pa => c13_map_insert v (fst pa) key (snd pa) m) srcl m)) <->
  In q (map fst m) \/ exists pa, In pa srcl /\ q = fst pa.
Proof.
  induction srcl as [|pa r IH]; simpl; intros m q.
  - split; auto. intros [H|[pa [[] _]]]; auto.
  - rewrite IH, map_insert_keys. split.
    + intros [[->|H]|[pa' [H1 H2]]]; auto; right; [exists pa | exists pa']; auto.
    + intros [H|[pa' [[<-|H1] H2]]]; auto. right. exists pa'; auto.
Qed.

Definition key_from (rank_ src : N) (pb : c13_publication) (q : N) : Prop :=
  exists pa, In pa (pub_sources rank_ src pb) /\ q = fst pa.

Lemma unpack_one_keys v rank_ numb source idx st pb idx' st' :
  c13_unpack_one v rank_ numb source (idx, st) pb = (idx', st') ->
  forall q, In q (map fst (rs_ri st')) <-> In q (map fst (rs_ri st)) \/ key_from rank_ source pb q.
Proof.
  unfold c13_unpack_one. simpl.
  destruct (c13_pairs_loop v rank_ numb (fst (fst pb)) (snd pb) idx (rs_added st) 0 [(source, snd (fst pb))])
    as [[[i1 a1] m1] s1] eqn:El.
  intros Heq. inversion Heq; subst idx' st'; clear Heq. simpl. intros q.
  destruct (pairs_loop_spec _ _ _ _ idx _ _ _ _ _ _ _ _ _ (incl_refl idx) El) as [_ [_ [H3 _]]].
  rewrite fold_insert_keys. unfold key_from, pub_sources, selfb. simpl in H3. rewrite H3. simpl. reflexivity.
Qed.

Lemma receive_keys v rank_ numb source : forall msg idx st q,
  In q (map fst (rs_ri (snd (fold_left (c13_unpack_one v rank_ numb source) msg (idx, st))))) <->
  In q (map fst (rs_ri st)) \/ exists pb, In pb msg /\ key_from rank_ source pb q.
Proof.
  induction msg as [|pb r IH]; simpl; intros idx st q.
  - split; auto. intros [H|[pb [[] _]]]; auto.
  - destruct (c13_unpack_one v rank_ numb source (idx, st) pb) as [idx1 st1] eqn:E1.
    rewrite IH, (unpack_one_keys _ _ _ _ _ _ _ _ _ E1). split.
    + intros [[H|H]|[pb' [H1 H2]]]; auto; right; [exists pb | exists pb']; auto.
    + intros [H|[pb' [[<-|H1] H2]]]; auto. right. exists pb'; auto.
Qed.

Lemma recv_all_keys v numb w rank_ old : forall order st q,
  In q (map fst (rs_ri (fold_left (fun st s => c13_receive v rank_ numb old st s (c13_message w s rank_)) order st))) <->
  In q (map fst (rs_ri st)) \/ exists src pb, In src order /\ In pb (c13_message w src rank_) /\ key_from rank_ src pb q.
Proof.
  induction order as [|s r IH]; simpl; intros st q.
  - split; auto. intros [H|[src [pb [[] _]]]]; auto.
  - rewrite IH. unfold c13_receive. rewrite receive_keys. split.
    + intros [[H|[pb [H1 H2]]]|[src [pb [H1 H2]]]]; auto; right; [exists s, pb | exists src, pb]; intuition.
    + intros [H|[src [pb [[<-|H1] [H2 H3]]]]]; auto.
      * left. right. exists pb; auto.
      * right. exists src, pb; auto.
Qed.

(* ------------------------------------------------------------------ where added pairs come from (any variant) *)
Lemma add_from v numb g a added x : In x (c13_add v numb g a added) -> In x added \/ x = C13Pair g a (numb g) true.
Proof.
  unfold c13_add. destruct (v_dedup v && existsb (c13_same_ga g a) added); auto.
  intros H. apply in_app_or in H. destruct H as [|[<-|[]]]; auto.
Qed.

Lemma pairs_loop_from v rank_ numb g : forall pairs idx added myattr srcl idx' added' myattr' srcl',
  c13_pairs_loop v rank_ numb g pairs idx added myattr srcl = (idx', added', myattr', srcl') ->
  forall x, In x added' -> In x added \/ exists a, In (rank_, a) pairs /\ x = C13Pair g a (numb g) true.
Proof.
  induction pairs as [|pa rest IH]; simpl; intros idx added myattr srcl idx' added' myattr' srcl' Heq x Hx.
  - inversion Heq; subst; auto.
  - assert (Hstep : forall idx0 added0 m0, (forall y, In y added0 -> In y added \/ y = C13Pair g (snd pa) (numb g) true) ->
        fst pa = rank_ ->
        c13_pairs_loop v rank_ numb g rest idx0 added0 m0 srcl = (idx', added', myattr', srcl') ->
        In x added \/ exists a, In (rank_, a) (pa :: rest) /\ x = C13Pair g a (numb g) true).
    { intros idx0 added0 m0 H0 Hp Heq0. destruct (IH _ _ _ _ _ _ _ _ Heq0 x Hx) as [H|[a [H1 H2]]].
      - destruct (H0 x H) as [ | -> ]; auto. right. exists (snd pa). split; auto. left. destruct pa; simpl in *; subst; auto.
      - right. exists a. split; auto. right; auto. }
    destruct (fst pa =? rank_) eqn:Es.
    + apply N.eqb_eq in Es.
      destruct (c13_dropwhile (fun p => c13_g p <? g) idx) as [|p pos'].
      * apply (Hstep idx (c13_add v numb g (snd pa) added) (snd pa)); auto; intros y Hy; apply add_from in Hy; auto.
      * destruct (c13_g p =? g).
        { destruct (c13_attr_there g (snd pa) (p :: pos')).
          - apply (Hstep (p :: pos') added (snd pa)); auto.
          - apply (Hstep (p :: pos') (c13_add v numb g (snd pa) added) (snd pa)); auto; intros y Hy; apply add_from in Hy; auto. }
        { apply (Hstep idx (c13_add v numb g (snd pa) added) (snd pa)); auto; intros y Hy; apply add_from in Hy; auto. }
    + destruct (IH _ _ _ _ _ _ _ _ Heq x Hx) as [H|[a [H1 H2]]]; auto. right. exists a. split; auto.
Qed.

Definition added_from (numb : N -> N) (rank_ : N) (pb : c13_publication) (x : c13_pair) : Prop :=
  exists a, In (rank_, a) (snd pb) /\ x = C13Pair (pb_g pb) a (numb (pb_g pb)) true.

Lemma receive_added_from v rank_ numb source : forall msg idx st x,
  In x (rs_added (snd (fold_left (c13_unpack_one v rank_ numb source) msg (idx, st)))) ->
  In x (rs_added st) \/ exists pb, In pb msg /\ added_from numb rank_ pb x.
Proof.
  induction msg as [|pb r IH]; simpl; intros idx st x Hx; auto.
  destruct (c13_unpack_one v rank_ numb source (idx, st) pb) as [idx1 st1] eqn:E1.
  destruct (IH idx1 st1 x Hx) as [H|[pb' [H1 H2]]]; [|right; exists pb'; auto].
  unfold c13_unpack_one in E1. simpl in E1.
  destruct (c13_pairs_loop v rank_ numb (fst (fst pb)) (snd pb) idx (rs_added st) 0 [(source, snd (fst pb))])
    as [[[i1 a1] m1] s1] eqn:El.
  inversion E1; subst idx1 st1; clear E1. simpl in H.
  destruct (pairs_loop_from _ _ _ _ _ _ _ _ _ _ _ _ _ El x H) as [|[a [G1 G2]]]; auto.
  right. exists pb. split; auto. exists a. auto.
Qed.

Lemma recv_all_added_from v numb w rank_ old : forall order st x,
  In x (rs_added (fold_left (fun st s => c13_receive v rank_ numb old st s (c13_message w s rank_)) order st)) ->
  In x (rs_added st) \/ exists src pb, In src order /\ In pb (c13_message w src rank_) /\ added_from numb rank_ pb x.
Proof.
  induction order as [|s r IH]; simpl; intros st x Hx; auto.
  destruct (IH _ x Hx) as [H|[src [pb [H1 [H2 H3]]]]]; [|right; exists src, pb; auto].
  unfold c13_receive in H. apply receive_added_from in H. destruct H as [|[pb [H1 H2]]]; auto.
  right. exists s, pb. auto.
Qed.

(* ------------------------------------------------------------------ what a message says about the receiver is unambiguous *)
Lemma message_shape w src r pb : sglob (c13_iset (c13_proc_of w src)) -> In pb (c13_message w src r) ->
  exists ip, In ip (c13_iset (c13_proc_of w src)) /\
    pb = (c13_g ip, c13_a ip, c13_holders (c13_g ip) (adv_all (c13_g ip) (c13_ri (c13_proc_of w src)))).
Proof.
  intros Hs. unfold c13_message. rewrite pack_all by exact Hs. intros H. apply in_flat_map in H.
  destruct H as [ip [H1 H2]]. exists ip. split; auto. unfold pub_of in H2.
  destruct (existsb _ _); [|contradiction]. destruct H2 as [<-|[]]. reflexivity.
Qed.

Lemma holders_inv g m q x : In (q, x) (c13_holders g (adv_all g m)) ->
  exists l e, In (q, l) m /\ In e l /\ eg e = g /\ snd e = x.
Proof.
  unfold c13_holders, adv_all. rewrite in_flat_map. intros [z [Hz Hx]].
  apply in_map_iff in Hz. destruct Hz as [[q1 l1] [E1 M1]]. subst z. unfold c13_holder_at in Hx. simpl in Hx.
  destruct (c13_advance g l1) as [|e1 r1] eqn:A1; [contradiction|].
  destruct (fst (fst e1) =? g) eqn:Eg; [|contradiction]. destruct Hx as [Hx|[]]. inversion Hx; subst.
  exists l1, e1. split; auto. split.
  - unfold c13_advance in A1. apply (dropwhile_incl (fun e => fst (fst e) <? g) l1). rewrite A1. left; auto.
  - split; auto. apply N.eqb_eq in Eg. exact Eg.
Qed.

Lemma message_self_unique w src r pb x y :
  sglob (c13_iset (c13_proc_of w src)) -> rmap_sorted (c13_ri (c13_proc_of w src)) ->
  In pb (c13_message w src r) -> In (r, x) (snd pb) -> In (r, y) (snd pb) -> x = y.
Proof.
  intros Hs Hm Hpb Hx Hy. destruct (message_shape _ _ _ _ Hs Hpb) as [ip [_ ->]]. simpl in Hx, Hy.
  eapply holders_functional; eauto.
Qed.
