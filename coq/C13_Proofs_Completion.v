(* C13 — lemmas and proofs, part 5: what packAndSend publishes, and completion at the receiver. *)
From Coq Require Import List NArith Bool Lia Sorted Permutation.
From DuneV Require Import C13_Model C13_Spec C13_Proofs C13_Proofs_Recv C13_Proofs_Sync.
Import ListNotations.
Local Open Scope N_scope.

Definition eg (e : c13_rentry) : N := fst (fst e).
Definition sglob (l : list c13_pair) : Prop := StronglySorted (fun a b => c13_g a < c13_g b) l.
Definition lglob (l : list c13_rentry) : Prop := StronglySorted (fun a b => eg a < eg b) l.

(* the sender's state: one copy per global index in the set and in every neighbour's list, valid references *)
Definition sender_ok (pr : c13_proc) : Prop :=
  sglob (c13_iset pr) /\ rmap_sorted (c13_ri pr) /\
  (forall q l, In (q, l) (c13_ri pr) -> lglob l) /\
  (forall q e, In_rmap (c13_ri pr) q e -> has_key (c13_iset pr) (fst e)).

Lemma dropwhile_dropwhile {A} (f1 f : A -> bool) l :
  (forall x, f1 x = true -> f x = true) -> c13_dropwhile f (c13_dropwhile f1 l) = c13_dropwhile f l.
Proof.
  intros H. induction l as [|x r IH]; simpl; auto.
  destruct (f1 x) eqn:E1.
  - rewrite (H x E1). exact IH.
  - reflexivity.
Qed.

Lemma advance_advance g0 g l : g0 <= g -> c13_advance g (c13_advance g0 l) = c13_advance g l.
Proof.
  intros Hle. unfold c13_advance. apply dropwhile_dropwhile. intros x Hx. apply N.ltb_lt in Hx. apply N.ltb_lt. lia.
Qed.

Lemma advance_head g l e : lglob l -> In e l -> eg e = g -> exists r, c13_advance g l = e :: r.
Proof.
  unfold c13_advance. induction l as [|x r IH]; intros Hs Hi Hg; [contradiction|].
  inversion Hs; subst. rewrite Forall_forall in H2. cbn [c13_dropwhile].
  match goal with |- context [if ?c then _ else _] => destruct c eqn:E end.
  - apply N.ltb_lt in E. destruct Hi as [->|Hi]; [unfold eg, c13_rentry, c13_key in *; lia|]. apply IH; auto.
  - apply N.ltb_ge in E. destruct Hi as [->|Hi]; [eexists; reflexivity|].
    specialize (H2 e Hi). unfold eg, c13_rentry, c13_key in *. lia.
Qed.

Definition adv_all (g : N) (m : c13_rmap) : c13_rmap := map (fun x => (fst x, c13_advance g (snd x))) m.

Lemma adv_all_adv_all g0 g m : g0 <= g -> adv_all g (adv_all g0 m) = adv_all g m.
Proof.
  intros H. unfold adv_all. rewrite map_map. apply map_ext. intros x. simpl. rewrite advance_advance; auto.
Qed.

Definition pub_of (dest : N) (ri : c13_rmap) (ip : c13_pair) : list c13_publication :=
  let hs := c13_holders (c13_g ip) (adv_all (c13_g ip) ri) in
  if existsb (fun h => fst h =? dest) hs then [(c13_g ip, c13_a ip, hs)] else [].

Lemma pack_spec dest ri : forall iset g0,
  StronglySorted (fun a b => c13_g a <= c13_g b) iset -> (forall ip, In ip iset -> g0 <= c13_g ip) ->
  c13_pack dest iset (adv_all g0 ri) = flat_map (pub_of dest ri) iset.
Proof.
  induction iset as [|ip rest IH]; intros g0 Hs Hg0; [reflexivity|].
  simpl. fold (adv_all (c13_g ip) (adv_all g0 ri)).
  rewrite adv_all_adv_all by (apply Hg0; left; auto).
  inversion Hs; subst. rewrite Forall_forall in H2.
  rewrite (IH (c13_g ip) H1 H2). unfold pub_of.
  destruct (existsb (fun h => fst h =? dest) (c13_holders (c13_g ip) (adv_all (c13_g ip) ri))); reflexivity.
Qed.

Lemma adv_all_0 m : adv_all 0 m = m.
Proof.
  assert (H : forall l, c13_advance 0 l = l).
  { unfold c13_advance. destruct l as [|x r]; simpl; auto.
    match goal with |- context [if ?c then _ else _] => destruct c eqn:E end; auto. apply N.ltb_lt in E. lia. }
  unfold adv_all. induction m as [|[q l] r IH]; simpl; auto. rewrite H, IH. reflexivity.
Qed.

Lemma sglob_le l : sglob l -> StronglySorted (fun a b => c13_g a <= c13_g b) l.
Proof.
  induction 1; constructor; auto. rewrite Forall_forall in *. intros x Hx. specialize (H0 x Hx). lia.
Qed.

Lemma pack_all dest pr : sglob (c13_iset pr) ->
  c13_pack dest (c13_iset pr) (c13_ri pr) = flat_map (pub_of dest (c13_ri pr)) (c13_iset pr).
Proof.
  intros Hs. rewrite <- (adv_all_0 (c13_ri pr)) at 1. apply pack_spec; [apply sglob_le; auto | intros; lia].
Qed.

(* who is listed in a publication *)
Lemma holders_in g m q l e : lglob l -> In (q, l) m -> In e l -> eg e = g -> In (q, snd e) (c13_holders g (adv_all g m)).
Proof.
  intros Hl Hm He Hg. unfold c13_holders, adv_all. apply in_flat_map.
  exists (q, c13_advance g l). split; [apply in_map_iff; exists (q, l); auto|].
  destruct (advance_head g l e Hl He Hg) as [r Hr]. unfold c13_holder_at. simpl. rewrite Hr.
  unfold eg in Hg. rewrite Hg, N.eqb_refl. left; reflexivity.
Qed.

Lemma holders_functional g m q x y : rmap_sorted m ->
  In (q, x) (c13_holders g (adv_all g m)) -> In (q, y) (c13_holders g (adv_all g m)) -> x = y.
Proof.
  intros Hs. unfold c13_holders, adv_all. rewrite !in_flat_map.
  intros [z1 [Hz1 Hx]] [z2 [Hz2 Hy]].
  apply in_map_iff in Hz1, Hz2. destruct Hz1 as [[q1 l1] [E1 M1]], Hz2 as [[q2 l2] [E2 M2]]. subst z1 z2.
  unfold c13_holder_at in Hx, Hy. simpl in Hx, Hy.
  destruct (c13_advance g l1) as [|e1 r1] eqn:A1; [contradiction|].
  destruct (c13_advance g l2) as [|e2 r2] eqn:A2; [contradiction|].
  destruct (fst (fst e1) =? g); [|contradiction]. destruct (fst (fst e2) =? g); [|contradiction].
  destruct Hx as [Hx|[]], Hy as [Hy|[]]. inversion Hx; inversion Hy; subst.
  assert (l1 = l2); [|subst; rewrite A1 in A2; inversion A2; subst; reflexivity].
  (* keys of a strictly ordered map are unique *)
  clear - Hs M1 M2. induction m as [|z r IH]; [contradiction|].
  inversion Hs; subst. rewrite Forall_forall in H2.
  destruct M1 as [->|M1], M2 as [E|M2].
  - inversion E; auto.
  - specialize (H2 _ M2). simpl in H2. lia.
  - subst z. specialize (H2 _ M1). simpl in H2. lia.
  - auto.
Qed.

Lemma sglob_key_unique l p1 p2 : sglob l -> In p1 l -> In p2 l -> c13_g p1 = c13_g p2 -> p1 = p2.
Proof.
  induction 1 as [|x r Hs IH Hf]; intros H1 H2 Hg; [contradiction|]. rewrite Forall_forall in Hf.
  destruct H1 as [->|H1], H2 as [->|H2]; auto.
  - specialize (Hf _ H2). lia.
  - specialize (Hf _ H1). lia.
Qed.

(* main: completion at the receiver q of what p believed, for every processing order that contains p *)
Lemma P_completion numb w p q order iset' ri' ptrs l e :
  sender_ok (c13_proc_of w p) -> proc_ok (c13_proc_of w q) ->
  In (q, l) (c13_ri (c13_proc_of w p)) -> In e l -> In p order ->
  c13_sync_rank c13_fixed numb w q order = C13Ok iset' ri' ptrs ->
  has_key iset' (eg e, snd e) /\
  In_rmap ri' p ((eg e, snd e), snd (fst e)) /\
  forall r lr e', In (r, lr) (c13_ri (c13_proc_of w p)) -> r <> q -> In e' lr -> eg e' = eg e ->
    In_rmap ri' r ((eg e, snd e), snd e').
Proof.
  intros [Sg [Sm [Sl Sv]]] [Hs [Hwf Hval]] Hl He Hord. unfold c13_sync_rank.
  destruct (forallb _ order); [|discriminate]. intros Heq. inversion Heq; subst; clear Heq.
  set (me := c13_proc_of w q) in *. set (sender := c13_proc_of w p) in *.
  unfold c13_recv_all. fold me.
  assert (Hinit : RInv (c13_iset me) (C13RState [] (c13_ri me))).
  { constructor; simpl; auto. intros q0 e0 He0. rewrite app_nil_r. exact (Hval q0 e0 He0). }
  destruct (recv_all_inv numb w q (c13_iset me) order _ Hinit) as [[I1 I1'] [I2 [I3 I4]]].
  set (st := fold_left _ order _) in *.
  assert (Hperm : Permutation (c13_merge (c13_iset me) (c13_sort (rs_added st))) (c13_iset me ++ rs_added st)).
  { rewrite merge_perm. apply Permutation_app_head. apply sort_perm. }
  (* the pair of p that carries the global index of e *)
  destruct (Sv q e (ex_intro _ l (conj Hl He))) as [ip [Hip Hkey]].
  set (g := eg e) in *.
  assert (Hg : c13_g ip = g) by (unfold c13_keyof in Hkey; unfold g, eg; rewrite <- Hkey; reflexivity).
  assert (Ha : c13_a ip = snd (fst e)) by (unfold c13_keyof in Hkey; rewrite <- Hkey; reflexivity).
  set (hs := c13_holders g (adv_all g (c13_ri sender))).
  assert (Hq : In (q, snd e) hs) by (apply (holders_in g _ q l e); auto; apply (Sl q); auto).
  assert (Hpb : In (g, c13_a ip, hs) (c13_message w p q)).
  { unfold c13_message. fold sender. rewrite pack_all by exact Sg. apply in_flat_map. exists ip. split; auto.
    unfold pub_of. rewrite Hg. fold hs.
    assert (Ex : existsb (fun h => fst h =? q) hs = true) by (apply existsb_exists; exists (q, snd e); split; auto; simpl; apply N.eqb_refl).
    rewrite Ex. left; reflexivity. }
  destruct (I4 p _ Hord Hpb) as [myattr [M1 [M2 M3]]]. simpl in M1, M2.
  assert (Hmy : myattr = snd e) by (apply (holders_functional g (c13_ri sender) q); auto).
  subst myattr.
  split; [eapply has_key_perm; [symmetry; exact Hperm | exact M2]|].
  split.
  - specialize (M3 (p, c13_a ip)). simpl in M3. rewrite <- Ha. apply M3. left; reflexivity.
  - intros r lr e' Hlr Hne He' Hge'.
    specialize (M3 (r, snd e')). simpl in M3. apply M3. right.
    apply filter_In. split.
    + apply (holders_in g _ r lr e'); auto. apply (Sl r); auto.
    + unfold selfb. simpl. apply negb_true_iff. apply N.eqb_neq. exact Hne.
Qed.
