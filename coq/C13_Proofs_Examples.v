(* C13 — the hypotheses of the main theorems are satisfiable: witness world c13_w4 (third-party knowledge, rank 2 deleted its copy). *)
From Coq Require Import List NArith Bool Lia Sorted.
From DuneV Require Import C13_Model C13_Spec C13_Proofs C13_Proofs_Recv C13_Proofs_Sync C13_Proofs_Repair C13_Proofs_Completion C13_Proofs_Witness.
Import ListNotations.
Local Open Scope N_scope.
Ltac srt := repeat (first [apply SSorted_nil | apply SSorted_cons | apply Forall_nil | apply Forall_cons]);
            try (unfold kle, klt, eg, c13_keyof; simpl; lia).
Ltac nd := repeat (apply NoDup_cons; [simpl; intuition congruence|]); try apply NoDup_nil.
Lemma W_hyps_satisfiable : sender_ok (c13_proc_of c13_w4 0) /\ proc_ok (c13_proc_of c13_w4 2) /\ proc_ok (c13_proc_of c13_w4 1).
Proof.
  split; [|split].
  - split; [unfold sglob; simpl; srt|]. split; [unfold rmap_sorted; simpl; srt|]. split.
    + intros q l H. simpl in H. destruct H as [H|[H|[]]]; inversion H; subst; unfold lglob; srt.
    + intros q e [l [H1 H2]]. simpl in H1. destruct H1 as [H|[H|[]]]; inversion H; subst; simpl in H2;
        destruct H2 as [<-|[]]; eexists; (split; [left; reflexivity | reflexivity]).
  - split; [unfold isorted; simpl; srt|]. split.
    + split; [unfold rmap_sorted; simpl; srt|]. intros q l H. simpl in H.
      destruct H as [H|[H|[]]]; inversion H; subst; (split; [unfold rsorted; srt | nd]).
    + intros q e [l [H1 H2]]. simpl in H1. destruct H1 as [H|[H|[]]]; inversion H; subst; simpl in H2; contradiction.
  - split; [unfold isorted; simpl; srt|]. split.
    + split; [unfold rmap_sorted; simpl; srt|]. intros q l H. simpl in H.
      destruct H as [H|[H|[]]]; inversion H; subst; (split; [unfold rsorted; srt | nd]).
    + intros q e [l [H1 H2]]. simpl in H1. destruct H1 as [H|[H|[]]]; inversion H; subst; simpl in H2;
        destruct H2 as [<-|[]]; eexists; (split; [left; reflexivity | reflexivity]).
Qed.
