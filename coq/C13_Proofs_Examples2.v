(* C13 — the hypotheses of C13_restore / C13_order_independent are satisfiable: a two-rank world (global 5: owner on
   rank 0, overlap on rank 1), rank 1 deletes its copy with its remote entry, rank 0 still lists it. *)
From Coq Require Import List NArith Bool Lia Sorted Permutation.
From DuneV Require Import C13_Model C13_Spec C13_Proofs C13_Proofs_Recv C13_Proofs_Sync C13_Proofs_Completion C13_Proofs_Sound
  C13_Proofs_Iset C13_Proofs_Repair C13_Proofs_Char C13_Proofs_Order C13_Proofs_RestoreFull.
Import ListNotations.
Local Open Scope N_scope.

Definition c13_x2 : c13_world :=
  [ C13Proc [C13Pair 5 1 0 true] [(1, [((5, 1), 2)])]; C13Proc [C13Pair 5 2 7 true] [(0, [((5, 2), 1)])] ].
Definition c13_x2' : c13_world :=
  [ C13Proc [C13Pair 5 1 0 true] [(1, [((5, 1), 2)])]; C13Proc [] [(0, [])] ].
Definition c13_d2 (p g : N) : bool := (p =? 1) && (g =? 5).

Lemma x2_cases p : p = 0 \/ p = 1 \/ (c13_proc_of c13_x2 p = C13Proc [] [] /\ c13_proc_of c13_x2' p = C13Proc [] [] /\ 2 <= p).
Proof.
  destruct (N.lt_ge_cases p 2) as [H|H]; [lia|]. right; right.
  unfold c13_proc_of. rewrite !nth_overflow by (simpl; lia). auto.
Qed.

Lemma x2_pubcopy p g a : pubcopy c13_x2 p g a <-> (p = 0 /\ g = 5 /\ a = 1) \/ (p = 1 /\ g = 5 /\ a = 2).
Proof.
  unfold pubcopy. split.
  - intros [ip [H1 [H2 [H3 H4]]]]. destruct (x2_cases p) as [->|[->|[E _]]].
    + simpl in H1. destruct H1 as [<-|[]]. simpl in *. auto.
    + simpl in H1. destruct H1 as [<-|[]]. simpl in *. auto.
    + rewrite E in H1. contradiction.
  - intros [[-> [-> ->]]|[-> [-> ->]]]; eexists; (split; [left; reflexivity | simpl; auto]).
Qed.

Lemma x2_consistent : consistent c13_x2.
Proof.
  constructor.
  - intros p. destruct (x2_cases p) as [->|[->|[E _]]]; [| |rewrite E]; simpl; repeat constructor.
  - intros p. destruct (x2_cases p) as [->|[->|[E _]]]; [| |rewrite E]; simpl; repeat constructor.
  - intros p q l H. destruct (x2_cases p) as [->|[->|[E _]]]; [| |rewrite E in H; contradiction];
      simpl in H; destruct H as [H|[]]; inversion H; subst; (split; [repeat constructor | discriminate]).
  - intros p q g la ra. rewrite !x2_pubcopy. split.
    + intros [l [H1 H2]]. destruct (x2_cases p) as [->|[->|[E _]]]; [| |rewrite E in H1; contradiction];
        simpl in H1; destruct H1 as [H1|[]]; inversion H1; subst; destruct H2 as [H2|[]]; inversion H2; subst;
        (split; [lia|]); auto 10.
    + intros [Hne [[[-> [-> ->]]|[-> [-> ->]]] [[-> [_ ->]]|[-> [_ ->]]]]]; try lia;
        eexists; (split; [left; reflexivity | left; reflexivity]).
Qed.

Lemma x2_deleted : deleted c13_x2 c13_x2' c13_d2.
Proof.
  intros p. destruct (x2_cases p) as [->|[->|[E [E' _]]]]; [reflexivity | reflexivity |].
  rewrite E, E'. reflexivity.
Qed.

Lemma x2_still_listed : still_listed c13_x2 c13_x2' c13_d2.
Proof.
  intros p ip Hi Hd. unfold c13_d2 in Hd. apply andb_true_iff in Hd. destruct Hd as [H1 H2]. apply N.eqb_eq in H1, H2. subst p.
  exists 0, ((5, 1), 2). split; [lia|]. split; [|unfold eg; simpl; auto].
  exists [((5, 1), 2)]. split; left; reflexivity.
Qed.

(* and the conclusion of C13_restore on it, computed: rank 1 gets its copy back (numbered by the numberer) *)
Lemma x2_restored :
  c13_sync_rank c13_fixed (fun g => 100 + g) c13_x2' 1 [0] =
  C13Ok [C13Pair 5 2 105 true] [(0, [((5, 2), 1)])] [(0, C13Ptrs [0%nat])].
Proof. vm_compute. reflexivity. Qed.

(* the restored world of the example and its description *)
From DuneV Require Import C13_Proofs_World C13_Proofs_Twice.
Definition c13_x2r : c13_world :=
  [ C13Proc [C13Pair 5 1 0 true] [(1, [((5, 1), 2)])]; C13Proc [C13Pair 5 2 105 true] [(0, [((5, 2), 1)])] ].
Lemma x2_is_restored : is_restored c13_x2 c13_x2r c13_d2 (fun _ g => 100 + g).
Proof.
  intros p. destruct (x2_cases p) as [->|[->|[E [_ H]]]]; [reflexivity | reflexivity |].
  rewrite E. unfold c13_proc_of. rewrite nth_overflow by (simpl; lia). reflexivity.
Qed.
Lemma x2_world_ok : world_ok c13_x2' /\ sigma_ok c13_x2' (c13_fixed_order c13_x2').
Proof.
  split; [split|].
  - intros r. apply (W'_sender_ok c13_x2 c13_x2' c13_d2 x2_consistent x2_deleted).
  - intros p q H. destruct (x2_cases p) as [->|[->|[_ [E _]]]]; [| |rewrite E in H; contradiction];
      simpl in H; destruct H as [<-|[]]; simpl; auto.
  - intros r s. unfold c13_fixed_order, c13_neighbours. reflexivity.
Qed.
