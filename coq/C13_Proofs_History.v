(* C13 — part 17 (dimension audit 2):
   A. PRE-EXISTING STATE: histories of any length.  A stage = delete copies (with their remote entries) from the world the
      previous stage left, then sync.  Every stage starts from a world that already went through earlier deletions and syncs
      (re-added pairs renumbered, lists re-grown); the theorem says that nothing of the earlier stages survives except the
      local numbers the numberers handed out: after ANY number of stages the world is consistent, has the remote lists and the
      (global, attribute) keys of the first world, and a further stage again returns the restored world on every rank.
   B. ASYMMETRIC CONFIGURATION: what rank r computes depends on r's own numberer and r's own processing order only; the
      numberers / useFixedOrder flags / arrival orders of the other ranks are irrelevant (sync(), sync(numberer),
      sync(numberer, true) may be mixed freely over the ranks of one collective call). *)
From Coq Require Import List NArith Bool Lia Sorted Permutation Arith PeanoNat.
From DuneV Require Import Params_gen C13_Model C13_Spec C13_Proofs C13_Proofs_Recv C13_Proofs_Sync C13_Proofs_Completion C13_Proofs_Sound
  C13_Proofs_Iset C13_Proofs_Repair C13_Proofs_Char C13_Proofs_Order C13_Proofs_RestoreFull C13_Proofs_World C13_Proofs_Twice
  C13_Proofs_Examples2.
Import ListNotations.
Local Open Scope N_scope.

(* the worlds reachable from W0 by stages "delete (every deleted copy still listed elsewhere); sync" *)
Inductive history (W0 : c13_world) : c13_world -> Prop :=
| h_start : history W0 W0
| h_stage W W' W2 D numb : history W0 W -> deleted W W' D -> still_listed W W' D -> is_restored W W2 D numb -> history W0 W2.

Lemma renum_keys numb D l : map c13_keyof (map (renum numb D) l) = map c13_keyof l.
Proof.
  induction l as [|x r IH]; simpl; [reflexivity|]. rewrite IH. f_equal.
  unfold c13_keyof. rewrite renum_g, renum_a. reflexivity.
Qed.

(* one stage on a consistent world: the collective sync returns the restored world on every rank *)
Lemma stage_sync W W' W2 D numb sigma p :
  consistent W -> deleted W W' D -> still_listed W W' D ->
  (forall r s, In s (sigma r) <-> In s (map fst (c13_ri (c13_proc_of W r)))) -> length W' = length W -> (p < length W)%nat ->
  is_restored W W2 D numb ->
  exists ptrs, nth_error (c13_sync c13_fixed numb W' sigma) p =
               Some (C13Ok (c13_iset (c13_proc_of W2 (N.of_nat p))) (c13_ri (c13_proc_of W2 (N.of_nat p))) ptrs).
Proof.
  intros HW HD HL Hs Hlen Hp HR.
  destruct (P_world_restore W W' D numb sigma p HW HD HL Hs Hlen Hp) as [ptrs H].
  exists ptrs. rewrite H, (HR (N.of_nat p)). reflexivity.
Qed.

Lemma P_history_restore W0 W : consistent W0 -> history W0 W ->
  consistent W /\
  (forall p, c13_ri (c13_proc_of W p) = c13_ri (c13_proc_of W0 p) /\
             map c13_keyof (c13_iset (c13_proc_of W p)) = map c13_keyof (c13_iset (c13_proc_of W0 p))) /\
  (forall W' W2 D numb sigma p,
     deleted W W' D -> still_listed W W' D ->
     (forall r s, In s (sigma r) <-> In s (map fst (c13_ri (c13_proc_of W r)))) -> length W' = length W -> (p < length W)%nat ->
     is_restored W W2 D numb ->
     exists ptrs, nth_error (c13_sync c13_fixed numb W' sigma) p =
                  Some (C13Ok (c13_iset (c13_proc_of W2 (N.of_nat p))) (c13_ri (c13_proc_of W2 (N.of_nat p))) ptrs)).
Proof.
  intros H0 Hh.
  assert (Hc : consistent W /\
               (forall p, c13_ri (c13_proc_of W p) = c13_ri (c13_proc_of W0 p) /\
                          map c13_keyof (c13_iset (c13_proc_of W p)) = map c13_keyof (c13_iset (c13_proc_of W0 p)))).
  { induction Hh as [|W W' W2 D numb Hh [IHc IHe] HD HL HR].
    - split; [exact H0|]. intros p. split; reflexivity.
    - split; [eapply P_restored_consistent; eauto|].
      intros p. rewrite (HR p). unfold restored_proc. simpl. rewrite renum_keys. apply IHe. }
  destruct Hc as [Hc He]. split; [exact Hc|]. split; [exact He|].
  intros W' W2 D numb sigma p HD HL Hs Hlen Hp HR. eapply stage_sync; eauto.
Qed.

(* non-vacuity: the two-rank example world after one stage *)
Lemma x2_history : history c13_x2 c13_x2r.
Proof. eapply h_stage; [apply h_start | exact x2_deleted | exact x2_still_listed | exact x2_is_restored]. Qed.
(* ... and a second stage on the restored world (rank 1 deletes the re-added copy again): the world after it *)
Definition c13_x2r' : c13_world := [ C13Proc [C13Pair 5 1 0 true] [(1, [((5, 1), 2)])]; C13Proc [] [(0, [])] ].
Lemma x2_second_stage :
  c13_sync c13_fixed (fun _ g => 200 + g) c13_x2r' (c13_fixed_order c13_x2r') =
  [ C13Ok [C13Pair 5 1 0 true] [(1, [((5, 1), 2)])] [(1, C13Ptrs [0%nat])];
    C13Ok [C13Pair 5 2 205 true] [(0, [((5, 2), 1)])] [(0, C13Ptrs [0%nat])] ].
Proof. vm_compute. reflexivity. Qed.

(* ------------------------------------------------------------------ B: per-rank configuration *)
Lemma P_rank_configuration_local v numb numb' w sigma sigma' r : (r < length w)%nat ->
  numb (N.of_nat r) = numb' (N.of_nat r) -> sigma (N.of_nat r) = sigma' (N.of_nat r) ->
  nth_error (c13_sync v numb w sigma) r = nth_error (c13_sync v numb' w sigma') r.
Proof. intros Hr Hn Hs. rewrite !sync_nth by exact Hr. rewrite Hn, Hs. reflexivity. Qed.

(* mixed configuration, concretely: rank 0 runs sync() (default numberer), rank 1 sync(numberer, true) *)
Lemma x2_mixed :
  c13_sync c13_fixed (fun r => if r =? 0 then c13_default_numberer else (fun g => 100 + g)) c13_x2' (c13_fixed_order c13_x2') =
  [ C13Ok [C13Pair 5 1 0 true] [(1, [((5, 1), 2)])] [(1, C13Ptrs [0%nat])];
    C13Ok [C13Pair 5 2 105 true] [(0, [((5, 2), 1)])] [(0, C13Ptrs [0%nat])] ].
Proof. vm_compute. reflexivity. Qed.
