(* C13 — lemmas and proofs, part 7: the index set stays a map.  recvAndUnpack searches only the part of the old set
   behind `index`; because every message lists its publications by ascending global index this search is exact, so a
   pair is added only when its key is absent, and (repaired code) at most once per sync. *)
From Coq Require Import List NArith Bool Lia Sorted Permutation.
From DuneV Require Import C13_Model C13_Spec C13_Proofs C13_Proofs_Recv C13_Proofs_Sync C13_Proofs_Completion.
Import ListNotations.
Local Open Scope N_scope.

Definition gsorted (l : list c13_pair) : Prop := StronglySorted (fun a b => c13_g a <= c13_g b) l.
(* idx is what is left of old behind `index`; everything in front has a smaller global index than g *)
Definition behind (old idx : list c13_pair) (g : N) : Prop :=
  exists pre, old = pre ++ idx /\ forall p, In p pre -> c13_g p < g.

Lemma dropwhile_split {A} (f : A -> bool) l :
  exists d, l = d ++ c13_dropwhile f l /\ (forall x, In x d -> f x = true) /\
            (match c13_dropwhile f l with x :: _ => f x = false | [] => True end).
Proof.
  induction l as [|x r IH]; simpl.
  - exists []. split; [reflexivity|]. split; [intros x []|exact I].
  - destruct (f x) eqn:E.
    + destruct IH as [d [H1 [H2 H3]]]. exists (x :: d). split; [simpl; rewrite <- H1; reflexivity|]. split; auto.
      intros y [<-|Hy]; auto.
    + exists []. split; [reflexivity|]. split; [intros y []|exact E].
Qed.

Lemma behind_lower_bound old idx g :
  behind old idx g -> behind old (c13_dropwhile (fun p => c13_g p <? g) idx) g.
Proof.
  intros [pre [H1 H2]]. destruct (dropwhile_split (fun p => c13_g p <? g) idx) as [d [D1 [D2 _]]].
  exists (pre ++ d). split; [rewrite <- app_assoc, <- D1; exact H1|].
  intros p Hp. apply in_app_or in Hp. destruct Hp as [Hp|Hp]; auto. apply N.ltb_lt. apply (D2 p Hp).
Qed.

Lemma behind_mono old idx g g' : g <= g' -> behind old idx g -> behind old idx g'.
Proof. intros Hle [pre [H1 H2]]. exists pre. split; auto. intros p Hp. specialize (H2 p Hp). lia. Qed.

Lemma gsorted_app_r l1 l2 : gsorted (l1 ++ l2) -> gsorted l2.
Proof. induction l1; simpl; auto. intros H; inversion H; auto. Qed.

Lemma attr_there_complete g a l p :
  gsorted l -> (forall y, In y l -> g <= c13_g y) -> In p l -> c13_keyof p = (g, a) -> c13_attr_there g a l = true.
Proof.
  induction l as [|x r IH]; intros Hs Hge Hp Hk; [contradiction|]. simpl.
  inversion Hs; subst. rewrite Forall_forall in H2.
  destruct Hp as [->|Hp].
  - unfold c13_keyof in Hk. inversion Hk. rewrite !N.eqb_refl. reflexivity.
  - assert (c13_g x = g).
    { specialize (H2 p Hp). specialize (Hge x (or_introl eq_refl)). unfold c13_keyof in Hk. inversion Hk. lia. }
    rewrite H. rewrite N.eqb_refl. destruct (c13_a x =? a); auto. apply IH; auto. intros y Hy. apply Hge; right; auto.
Qed.

(* the search of recvAndUnpack is exact *)
Lemma search_exact old idx g a :
  gsorted old -> behind old idx g ->
  let pos := c13_dropwhile (fun p => c13_g p <? g) idx in
  (match pos with
   | p :: _ => if c13_g p =? g then c13_attr_there g a pos else false
   | [] => false
   end) = true <-> has_key old (g, a).
Proof.
  intros Hs Hb pos. pose proof (behind_lower_bound old idx g Hb) as [pre [P1 P2]]. fold pos in P1.
  destruct (dropwhile_split (fun p => c13_g p <? g) idx) as [d [_ [_ D3]]]. fold pos in D3.
  assert (Hpos_s : gsorted pos) by (apply (gsorted_app_r pre); rewrite <- P1; exact Hs).
  assert (Hge : forall y, In y pos -> g <= c13_g y).
  { destruct pos as [|x r]; [intros y []|]. apply N.ltb_ge in D3. intros y [<-|Hy]; auto.
    inversion Hpos_s; subst. rewrite Forall_forall in H2. specialize (H2 y Hy). lia. }
  split.
  - destruct pos as [|x r] eqn:E; [discriminate|]. destruct (c13_g x =? g); [|discriminate].
    intros H. destruct (attr_there_in _ _ _ H) as [p [H1 H2]]. exists p. split; auto. rewrite P1. apply in_or_app; auto.
  - intros [p [H1 H2]]. rewrite P1 in H1. apply in_app_or in H1. destruct H1 as [H1|H1].
    + specialize (P2 p H1). unfold c13_keyof in H2. inversion H2. lia.
    + destruct pos as [|x r] eqn:E; [contradiction|].
      assert (c13_g x = g).
      { pose proof (Hge x (or_introl eq_refl)). destruct H1 as [->|H1]; [unfold c13_keyof in H2; inversion H2; auto|].
        inversion Hpos_s; subst. rewrite Forall_forall in H5. specialize (H5 p H1). unfold c13_keyof in H2. inversion H2. lia. }
      rewrite H, N.eqb_refl. rewrite <- H. rewrite H. eapply attr_there_complete; eauto.
Qed.

(* invariant of newIndices_ (repaired code): fresh keys, no key twice, numbered by the numberer, public *)
Record AInv (numb : N -> N) (old added : list c13_pair) : Prop := {
  a_fresh : forall p, In p added -> ~ has_key old (c13_keyof p);
  a_nodup : NoDup (map c13_keyof added);
  a_shape : forall p, In p added -> c13_p p = true /\ c13_l p = numb (c13_g p) }.

Lemma NoDup_app_one {A} (l : list A) a : NoDup l -> ~ In a l -> NoDup (l ++ [a]).
Proof.
  intros H1 H2. apply (Permutation_NoDup (l := a :: l)); [apply Permutation_cons_append | constructor; auto].
Qed.

Lemma add_inv numb old added g a : AInv numb old added -> ~ has_key old (g, a) -> AInv numb old (c13_add c13_fixed numb g a added).
Proof.
  intros [F N S] Hn. unfold c13_add. simpl. destruct (existsb (c13_same_ga g a) added) eqn:E; [constructor; auto|].
  constructor.
  - intros p Hp. apply in_app_or in Hp. destruct Hp as [Hp|[<-|[]]]; auto.
  - rewrite map_app. simpl. apply NoDup_app_one; auto.
    intros Hi. apply in_map_iff in Hi. destruct Hi as [p [H1 H2]].
    assert (existsb (c13_same_ga g a) added = true); [|congruence].
    apply existsb_exists. exists p. split; auto. unfold c13_keyof in H1. inversion H1. unfold c13_same_ga. rewrite !N.eqb_refl. reflexivity.
  - intros p Hp. apply in_app_or in Hp. destruct Hp as [Hp|[<-|[]]]; auto.
Qed.

(* the loop over the pairs of one publication keeps both invariants *)
Lemma pairs_loop_ainv rank_ numb g old : gsorted old -> forall pairs idx added myattr srcl idx' added' myattr' srcl',
  behind old idx g -> AInv numb old added ->
  c13_pairs_loop c13_fixed rank_ numb g pairs idx added myattr srcl = (idx', added', myattr', srcl') ->
  behind old idx' g /\ AInv numb old added'.
Proof.
  intros Hs. induction pairs as [|pa rest IH]; simpl; intros idx added myattr srcl idx' added' myattr' srcl' Hb Ha Heq.
  - inversion Heq; subst; auto.
  - destruct (fst pa =? rank_).
    + pose proof (search_exact old idx g (snd pa) Hs Hb) as Hex. simpl in Hex.
      pose proof (behind_lower_bound old idx g Hb) as Hb'.
      destruct (c13_dropwhile (fun p => c13_g p <? g) idx) as [|p pos'] eqn:Epos.
      * apply (IH _ _ _ _ _ _ _ _ Hb) in Heq; auto. apply add_inv; auto. intros H. apply Hex in H. discriminate.
      * destruct (c13_g p =? g) eqn:Eg.
        { destruct (c13_attr_there g (snd pa) (p :: pos')) eqn:Eth.
          - apply (IH _ _ _ _ _ _ _ _ Hb') in Heq; auto.
          - apply (IH _ _ _ _ _ _ _ _ Hb') in Heq; auto. apply add_inv; auto. intros H. apply Hex in H. discriminate. }
        { apply (IH _ _ _ _ _ _ _ _ Hb) in Heq; auto. apply add_inv; auto. intros H. apply Hex in H. discriminate. }
    + eapply IH; eauto.
Qed.

Definition pb_g (pb : c13_publication) : N := fst (fst pb).
Definition msg_sorted (msg : list c13_publication) : Prop := StronglySorted (fun a b => pb_g a <= pb_g b) msg.

Lemma receive_ainv rank_ numb source old : gsorted old -> forall msg idx st,
  msg_sorted msg -> (forall pb, In pb msg -> behind old idx (pb_g pb)) -> AInv numb old (rs_added st) ->
  AInv numb old (rs_added (snd (fold_left (c13_unpack_one c13_fixed rank_ numb source) msg (idx, st)))).
Proof.
  intros Hs. induction msg as [|pb r IH]; simpl; intros idx st Hm Hb Ha; auto.
  unfold c13_unpack_one at 2. simpl.
  destruct (c13_pairs_loop c13_fixed rank_ numb (fst (fst pb)) (snd pb) idx (rs_added st) 0 [(source, snd (fst pb))])
    as [[[i1 a1] m1] s1] eqn:El.
  destruct (pairs_loop_ainv _ _ _ _ Hs _ _ _ _ _ _ _ _ _ (Hb pb (or_introl eq_refl)) Ha El) as [B1 A1].
  inversion Hm; subst. rewrite Forall_forall in H2.
  apply IH; auto. intros pb' Hpb'. eapply behind_mono; [apply (H2 pb' Hpb') | exact B1].
Qed.

(* messages built by packAndSend list their publications by ascending global index *)
Lemma pack_sorted dest pr : sglob (c13_iset pr) -> msg_sorted (c13_pack dest (c13_iset pr) (c13_ri pr)).
Proof.
  intros Hs. rewrite pack_all by exact Hs. unfold msg_sorted.
  induction Hs as [|ip rest Hs IH Hf]; simpl; [constructor|].
  unfold pub_of at 1. destruct (existsb _ _); simpl; auto.
  constructor; auto. apply Forall_forall. intros pb Hpb. apply in_flat_map in Hpb. destruct Hpb as [ip' [G1 G2]].
  rewrite Forall_forall in Hf. specialize (Hf ip' G1). unfold pub_of in G2.
  destruct (existsb _ _); [|contradiction]. destruct G2 as [<-|[]]. unfold pb_g. simpl. lia.
Qed.

Lemma recv_all_ainv numb w rank_ old : gsorted old ->
  (forall q, sglob (c13_iset (c13_proc_of w q))) -> forall order st,
  AInv numb old (rs_added st) ->
  AInv numb old (rs_added (fold_left (fun st q => c13_receive c13_fixed rank_ numb old st q (c13_message w q rank_)) order st)).
Proof.
  intros Hs Hw. induction order as [|q r IH]; simpl; intros st Ha; auto.
  apply IH. unfold c13_receive. apply receive_ainv; auto.
  - unfold c13_message. apply pack_sorted. apply Hw.
  - intros pb _. exists []. split; auto. intros p [].
Qed.

(* ordered by key without a repeated key = strictly ordered *)
Lemma sorted_nodup_strict l : isorted l -> NoDup (map c13_keyof l) ->
  StronglySorted (fun a b => klt (c13_keyof a) (c13_keyof b)) l.
Proof.
  induction l as [|x r IH]; intros Hs Hn; [constructor|].
  inversion Hs; subst. inversion Hn; subst. constructor; auto.
  apply Forall_forall. intros y Hy. rewrite Forall_forall in H2. specialize (H2 y Hy).
  destruct (k_trich (c13_keyof x) (c13_keyof y)) as [|[E|]]; auto; [|contradiction].
  exfalso. apply H3. rewrite E. apply in_map; auto.
Qed.

Definition istrict (l : list c13_pair) : Prop := StronglySorted (fun a b => klt (c13_keyof a) (c13_keyof b)) l.

Lemma istrict_isorted l : istrict l -> isorted l.
Proof. induction 1; constructor; auto. rewrite Forall_forall in *. intros y Hy. apply klt_kle; auto. Qed.
Lemma istrict_gsorted l : istrict l -> gsorted l.
Proof.
  induction 1; constructor; auto. rewrite Forall_forall in *. intros y Hy. specialize (H0 y Hy).
  unfold klt, c13_keyof in H0. simpl in H0. lia.
Qed.
Lemma istrict_nodup l : istrict l -> NoDup (map c13_keyof l).
Proof.
  induction 1; simpl; constructor; auto. rewrite Forall_forall in H0. intros Hi. apply in_map_iff in Hi.
  destruct Hi as [y [H1 H2]]. specialize (H0 y H2). rewrite H1 in H0. exact (klt_irrefl _ H0).
Qed.

Lemma nodup_keys_app old added :
  NoDup (map c13_keyof old) -> NoDup (map c13_keyof added) -> (forall p, In p added -> ~ has_key old (c13_keyof p)) ->
  NoDup (map c13_keyof (old ++ added)).
Proof.
  induction old as [|x l IHl]; simpl; intros Hn Ha F; auto.
  inversion Hn; subst. constructor.
  - rewrite map_app. intros Hi. apply in_app_or in Hi. destruct Hi as [Hi|Hi]; auto.
    apply in_map_iff in Hi. destruct Hi as [p [G1 G2]]. apply (F p G2). exists x. split; [left; auto | auto].
  - apply IHl; auto. intros p Hp Hk. apply (F p Hp). destruct Hk as [y [Y1 Y2]]. exists y. split; [right; auto|auto].
Qed.

(* the index set after sync is again strictly ordered by (global, attribute): no pair twice; every new pair is public
   and carries the number the numberer returned *)
Lemma P_rank_iset_strict numb w r order iset' ri' ptrs :
  istrict (c13_iset (c13_proc_of w r)) -> (forall q, sglob (c13_iset (c13_proc_of w q))) ->
  c13_sync_rank c13_fixed numb w r order = C13Ok iset' ri' ptrs ->
  istrict iset' /\
  forall p, In p iset' -> In p (c13_iset (c13_proc_of w r)) \/ (c13_p p = true /\ c13_l p = numb (c13_g p)).
Proof.
  intros Hs Hw. unfold c13_sync_rank. destruct (forallb _ order); [|discriminate]. intros Heq. inversion Heq; subst; clear Heq.
  set (me := c13_proc_of w r) in *. unfold c13_recv_all. fold me.
  assert (Ha0 : AInv numb (c13_iset me) []) by (constructor; [intros p [] | constructor | intros p []]).
  pose proof (recv_all_ainv numb w r (c13_iset me) (istrict_gsorted _ Hs) Hw order (C13RState [] (c13_ri me)) Ha0) as [F N S].
  set (st := fold_left _ order _) in *.
  assert (Hperm : Permutation (c13_merge (c13_iset me) (c13_sort (rs_added st))) (c13_iset me ++ rs_added st)).
  { rewrite merge_perm. apply Permutation_app_head. apply sort_perm. }
  split.
  - apply sorted_nodup_strict; [apply merge_sorted; auto using sort_sorted, istrict_isorted|].
    apply (Permutation_NoDup (l := map c13_keyof (c13_iset me ++ rs_added st))); [apply Permutation_map; symmetry; exact Hperm|].
    apply nodup_keys_app; auto. apply istrict_nodup; auto.
  - intros p Hp. apply (Permutation_in _ Hperm) in Hp. apply in_app_or in Hp. destruct Hp as [|Hp]; auto.
Qed.
