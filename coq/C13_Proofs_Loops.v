(* C13 — part 13: the numberer call sequence; the announced publish count equals what is packed; the iterator tuple
   (three parallel lists) refines the list-level insertion; RemoteIndexListModifier<..,true>::remove is a filter. *)
From Coq Require Import List NArith Bool Lia Sorted Permutation Arith PeanoNat.
From DuneV Require Import Params_gen C13_Model C13_Spec C13_Proofs C13_Proofs_Recv C13_Proofs_Sync C13_Proofs_Completion C13_Proofs_Sound
  C13_Proofs_Iset C13_Proofs_Repair C13_Proofs_Char.
Import ListNotations.
Local Open Scope N_scope.

(* ------------------------------------------------------------------ the numberer
   c13_add evaluates numb exactly when it appends a pair, so the sequence of numberer calls of a rank IS the list of
   globals of newIndices_ (rs_added) in push order. *)
Definition c13_calls (st : c13_rstate) : list N := map c13_g (rs_added st).
Definition gblock (g : N) (blk : list c13_pair) : Prop := forall x, In x blk -> c13_g x = g.

Lemma add_app v numb g a added : exists b, c13_add v numb g a added = added ++ b /\ gblock g b.
Proof.
  unfold c13_add. destruct (v_dedup v && existsb (c13_same_ga g a) added).
  - exists []. split; [rewrite app_nil_r; reflexivity | intros x []].
  - eexists. split; [reflexivity|]. intros x [<-|[]]. reflexivity.
Qed.

Lemma pairs_loop_app v rank_ numb g : forall pairs idx added myattr srcl idx' added' myattr' srcl',
  c13_pairs_loop v rank_ numb g pairs idx added myattr srcl = (idx', added', myattr', srcl') ->
  exists blk, added' = added ++ blk /\ gblock g blk.
Proof.
  induction pairs as [|pa rest IH]; simpl; intros idx added myattr srcl idx' added' myattr' srcl' Heq.
  - inversion Heq; subst. exists []. split; [rewrite app_nil_r; reflexivity | intros x []].
  - assert (Hstep : forall idx0 m0 b0, gblock g b0 ->
              c13_pairs_loop v rank_ numb g rest idx0 (added ++ b0) m0 srcl = (idx', added', myattr', srcl') ->
              exists blk, added' = added ++ blk /\ gblock g blk).
    { intros idx0 m0 b0 Hb0 Heq0. destruct (IH _ _ _ _ _ _ _ _ Heq0) as [blk [E Hb]].
      exists (b0 ++ blk). split; [rewrite E, app_assoc; reflexivity|].
      intros x Hx. apply in_app_or in Hx. destruct Hx; auto. }
    assert (Hnil : gblock g []) by (intros x []).
    destruct (fst pa =? rank_).
    + destruct (add_app v numb g (snd pa) added) as [b [Eb Hb]].
      destruct (c13_dropwhile (fun p => c13_g p <? g) idx) as [|p pos'].
      * rewrite Eb in Heq. eapply Hstep; eauto.
      * destruct (c13_g p =? g).
        { destruct (c13_attr_there g (snd pa) (p :: pos')).
          - apply (Hstep (p :: pos') (snd pa) [] Hnil). rewrite app_nil_r. exact Heq.
          - rewrite Eb in Heq. eapply Hstep; eauto. }
        { rewrite Eb in Heq. eapply Hstep; eauto. }
    + eapply IH; eauto.
Qed.

Definition gle (x y : c13_pair) : Prop := c13_g x <= c13_g y.
Lemma ssorted_app {A} (R : A -> A -> Prop) l1 l2 :
  StronglySorted R l1 -> StronglySorted R l2 -> (forall x y, In x l1 -> In y l2 -> R x y) -> StronglySorted R (l1 ++ l2).
Proof.
  induction 1 as [|x r Hs IH Hf]; simpl; intros H2 H12; auto. constructor.
  - apply IH; auto; intros a b Ha Hb; apply H12; auto; right; auto.
  - apply Forall_forall. intros y Hy. apply in_app_or in Hy. destruct Hy as [Hy|Hy].
    + rewrite Forall_forall in Hf; auto.
    + apply H12; auto; left; auto.
Qed.
Lemma gblock_sorted g blk : gblock g blk -> StronglySorted gle blk.
Proof.
  induction blk as [|x r IH]; intros H; constructor.
  - apply IH. intros y Hy. apply H; right; auto.
  - apply Forall_forall. intros y Hy. unfold gle. rewrite (H x (or_introl eq_refl)), (H y (or_intror Hy)). lia.
Qed.

(* one message: the numberer is called for ascending global indices ("It will be called for ascending global indices") *)
Lemma receive_calls_ascending v rank_ numb source : forall msg idx st, msg_sorted msg ->
  exists blk, rs_added (snd (fold_left (c13_unpack_one v rank_ numb source) msg (idx, st))) = rs_added st ++ blk /\
              StronglySorted gle blk /\
              (forall x, In x blk -> exists pb, In pb msg /\ c13_g x = pb_g pb).
Proof.
  induction msg as [|pb r IH]; simpl; intros idx st Hm.
  - exists []. split; [rewrite app_nil_r; reflexivity|]. split; [constructor | intros x []].
  - inversion Hm as [|? ? Hm' Hf]; subst. rewrite Forall_forall in Hf.
    unfold c13_unpack_one at 2. simpl.
    destruct (c13_pairs_loop v rank_ numb (fst (fst pb)) (snd pb) idx (rs_added st) 0 [(source, snd (fst pb))])
      as [[[i1 a1] m1] s1] eqn:El.
    destruct (pairs_loop_app _ _ _ _ _ _ _ _ _ _ _ _ _ El) as [b1 [E1 Hb1]].
    match goal with |- context [fold_left _ r (i1, ?S1)] => destruct (IH i1 S1 Hm') as [b2 [E2 [S2 P2]]] end.
    simpl in E2. exists (b1 ++ b2). split; [rewrite E2, E1, app_assoc; reflexivity|]. split.
    + apply ssorted_app; [apply (gblock_sorted _ _ Hb1) | exact S2 |].
      intros x y Hx Hy. unfold gle. rewrite (Hb1 x Hx). destruct (P2 y Hy) as [pb' [Q1 Q2]]. rewrite Q2. apply (Hf pb' Q1).
    + intros x Hx. apply in_app_or in Hx. destruct Hx as [Hx|Hx].
      * exists pb. split; [left; reflexivity | rewrite (Hb1 x Hx); reflexivity].
      * destruct (P2 x Hx) as [pb' [Q1 Q2]]. exists pb'. split; [right; exact Q1 | exact Q2].
Qed.

(* ------------------------------------------------------------------ calculateMessageSizes announces what packAndSend packs *)
Lemma length_flat_map_01 {A B} (f : A -> list B) (t : A -> bool) l :
  (forall x, In x l -> length (f x) = if t x then 1%nat else 0%nat) -> length (flat_map f l) = length (filter t l).
Proof.
  induction l as [|x r IH]; simpl; intros H; auto. rewrite app_length, (H x (or_introl eq_refl)), IH by (intros y Hy; apply H; right; auto).
  destruct (t x); reflexivity.
Qed.

Lemma filter_ext_in' {A} (f g : A -> bool) l : (forall x, In x l -> f x = g x) -> filter f l = filter g l.
Proof.
  induction l as [|x r IH]; simpl; intros H; auto. rewrite (H x (or_introl eq_refl)), IH by (intros y Hy; apply H; right; auto). reflexivity.
Qed.

Lemma P_publish_count dest pr : sender_ok pr ->
  c13_calc_publish dest (c13_iset pr) (c13_ri pr) = length (c13_pack dest (c13_iset pr) (c13_ri pr)).
Proof.
  intros [Sg [Sm [Sl Sv]]]. rewrite pack_all by exact Sg. unfold c13_calc_publish.
  set (ri := c13_ri pr) in *. set (iset := c13_iset pr) in *.
  set (t := fun ip => existsb (fun h : N * N => fst h =? dest) (c13_holders (c13_g ip) (adv_all (c13_g ip) ri))).
  rewrite (length_flat_map_01 (pub_of dest ri) t) by (intros ip _; unfold pub_of, t; destruct (existsb _ _); reflexivity).
  assert (Hmain : forall ip, In ip iset ->
            t ip = match find (fun x => fst x =? dest) ri with
                   | Some x => existsb (fun e => c13_key_eq (fst e) (c13_keyof ip)) (snd x)
                   | None => false end).
  { intros ip Hip. unfold t. destruct (find (fun x => fst x =? dest) ri) as [[q l]|] eqn:F.
    - apply find_some in F. destruct F as [F1 F2]. simpl in F2. apply N.eqb_eq in F2. subst q. simpl.
      destruct (existsb (fun e => c13_key_eq (fst e) (c13_keyof ip)) l) eqn:E.
      + apply existsb_exists in E. destruct E as [e [E1 E2]]. apply key_eq_spec in E2.
        apply existsb_exists. exists (dest, snd e). split; [|simpl; apply N.eqb_refl].
        apply (holders_in (c13_g ip) ri dest l e); auto; [apply (Sl dest); auto|].
        unfold eg. rewrite E2. reflexivity.
      + destruct (existsb (fun h : N * N => fst h =? dest) _) eqn:E'; auto. exfalso.
        apply existsb_exists in E'. destruct E' as [[q a] [H1 H2]]. simpl in H2. apply N.eqb_eq in H2. subst q.
        destruct (holders_inv _ _ _ _ H1) as [l' [e [G1 [G2 [G3 G4]]]]].
        assert (l' = l) by (eapply rmap_sorted_unique; eauto). subst l'.
        assert (Hk : c13_key_eq (fst e) (c13_keyof ip) = true).
        { apply key_eq_spec. destruct (Sv dest e (ex_intro _ l (conj F1 G2))) as [p' [P1 P2]].
          assert (p' = ip). { eapply sglob_key_unique; eauto. unfold c13_keyof in P2. unfold eg in G3. rewrite <- P2 in G3. exact G3. }
          subst p'. auto. }
        assert (existsb (fun e => c13_key_eq (fst e) (c13_keyof ip)) l = true) by (apply existsb_exists; exists e; auto). congruence.
    - destruct (existsb (fun h : N * N => fst h =? dest) _) eqn:E'; auto. exfalso.
      apply existsb_exists in E'. destruct E' as [[q a] [H1 H2]]. simpl in H2. apply N.eqb_eq in H2. subst q.
      destruct (holders_inv _ _ _ _ H1) as [l' [e [G1 _]]].
      pose proof (find_none _ _ F (dest, l') G1) as Hn. simpl in Hn. rewrite N.eqb_refl in Hn. discriminate. }
  destruct (find (fun x => fst x =? dest) ri) as [x|].
  - f_equal. symmetry. apply filter_ext_in'. intros ip Hip. rewrite (Hmain ip Hip). reflexivity.
  - rewrite (filter_ext_in' t (fun _ => false)) by exact Hmain. clear. induction iset; simpl; auto.
Qed.

(* ------------------------------------------------------------------ the iterator tuple refines the list-level insertion *)
Lemma tuple_dup_there_view v key ra : forall rl gl, length rl = length gl ->
  c13_tuple_dup_there v key ra rl gl = c13_dup_there v key ra (combine gl rl).
Proof.
  induction rl as [|r rl IH]; intros [|g gl] Hl; simpl in *; try discriminate; auto.
  destruct (c13_key_eq g key); auto. destruct (if v_rattr v then r =? ra else snd g =? ra); auto.
Qed.

Definition inserted_at {A} (n : nat) (x : A) (l l' : list A) : Prop := l' = firstn n l ++ x :: skipn n l.

Lemma P_tuple_insert_refines v key ra : forall rl gl bl, length rl = length gl -> length bl = length gl ->
  let t := c13_tuple_insert v key ra rl gl bl in
  c13_tuple_view t = c13_list_insert v key ra (combine gl rl) /\
  length (fst (fst t)) = length (snd (fst t)) /\ length (snd t) = length (snd (fst t)) /\
  (t = (rl, gl, bl) \/
   exists n, inserted_at n ra rl (fst (fst t)) /\ inserted_at n key gl (snd (fst t)) /\ inserted_at n false bl (snd t)).
Proof.
  unfold c13_tuple_view.
  induction rl as [|r rl IH]; intros [|g gl] [|b bl] H1 H2; simpl in *; try discriminate.
  - repeat split; auto. right. exists 0%nat. repeat split.
  - destruct (c13_key_lt g key).
    + specialize (IH gl bl). destruct (c13_tuple_insert v key ra rl gl bl) as [[a b'] c]. simpl in *.
      destruct IH as [I1 [I2 [I3 I4]]]; [lia | lia |]. rewrite I1. repeat split; auto.
      destruct I4 as [E|[n [N1 [N2 N3]]]].
      * inversion E; subst. left; reflexivity.
      * right. exists (S n). unfold inserted_at in *. simpl. rewrite N1, N2, N3. repeat split.
    + destruct (c13_key_eq g key).
      * rewrite (tuple_dup_there_view v key ra rl gl) by lia.
        match goal with |- context [if ?c then (r :: rl, g :: gl, b :: bl) else _] => destruct c end.
        { repeat split; simpl; auto; try lia. }
        { repeat split; simpl; auto; try lia. right. exists 0%nat. repeat split. }
      * repeat split; simpl; auto; try lia. right. exists 0%nat. repeat split.
Qed.
