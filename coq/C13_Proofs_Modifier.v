(* C13 — part 14: RemoteIndexListModifier<T,A,true> as literal loops: remove is a filter (so the deletion of the property,
   del_proc, IS what the modifier does), insert is the ordered insertion, its repairLocalIndexPointers is total and exact. *)
From Coq Require Import List NArith Bool Lia Sorted Permutation Arith PeanoNat.
From DuneV Require Import Params_gen C13_Model C13_Spec C13_Proofs C13_Proofs_Recv C13_Proofs_Sync C13_Proofs_Completion C13_Proofs_Sound
  C13_Proofs_Iset C13_Proofs_Repair C13_Proofs_Char C13_Proofs_Order C13_Proofs_RestoreFull.
Import ListNotations.
Local Open Scope N_scope.

Lemma filter_all {A} (f : A -> bool) l : (forall x, In x l -> f x = true) -> filter f l = l.
Proof.
  induction l as [|x r IH]; simpl; intros H; auto. rewrite (H x (or_introl eq_refl)). f_equal. apply IH. intros y Hy; apply H; right; auto.
Qed.

Lemma mod_remove_filter g : forall rl, lglob rl ->
  c13_mod_remove g rl (map eg rl) =
  (filter (fun e => negb (eg e =? g)) rl, map eg (filter (fun e => negb (eg e =? g)) rl)).
Proof.
  induction rl as [|e rl IH]; intros Hs; [reflexivity|]. inversion Hs as [|? ? Hs' Hf]; subst. rewrite Forall_forall in Hf.
  cbn [map c13_mod_remove filter].
  destruct (eg e <? g) eqn:E1.
  - apply N.ltb_lt in E1. rewrite (IH Hs'). assert (E : (eg e =? g) = false) by (apply N.eqb_neq; lia). rewrite E. reflexivity.
  - apply N.ltb_ge in E1. destruct (eg e =? g) eqn:E2; simpl.
    + apply N.eqb_eq in E2. rewrite filter_all; auto. intros x Hx. specialize (Hf x Hx). apply negb_true_iff, N.eqb_neq. lia.
    + apply N.eqb_neq in E2. rewrite filter_all; auto. intros x Hx. specialize (Hf x Hx). apply negb_true_iff, N.eqb_neq. lia.
Qed.

Lemma lglob_filter f l : lglob l -> lglob (filter f l).
Proof. apply ssorted_filter. Qed.

(* removing the globals gs one after the other = keeping the entries whose global index is not in gs *)
Lemma P_mod_remove_all_filter : forall gs rl, lglob rl ->
  c13_mod_remove_all gs rl = filter (fun e => negb (existsb (N.eqb (eg e)) gs)) rl.
Proof.
  unfold c13_mod_remove_all. intros gs rl Hs.
  change (map (fun e : c13_rentry => fst (fst e)) rl) with (map eg rl).
  assert (H : forall gs rl, lglob rl ->
     fst (fold_left (fun st g => c13_mod_remove g (fst st) (snd st)) gs (rl, map eg rl)) =
     filter (fun e => negb (existsb (N.eqb (eg e)) gs)) rl).
  { clear. induction gs as [|g gs IH]; intros rl Hs; simpl.
    - symmetry. apply filter_all. auto.
    - rewrite mod_remove_filter by exact Hs. rewrite IH by (apply lglob_filter; exact Hs).
      clear. induction rl as [|e r IHr]; simpl; auto.
      destruct (eg e =? g) eqn:E; simpl; rewrite IHr; [reflexivity|]. reflexivity. }
  apply H. exact Hs.
Qed.

(* hence: the property's deletion of the copies D with their remote entries is exactly what the modifier calls produce *)
Lemma P_del_proc_is_modifier (Dl : list N) pr : (forall q l, In (q, l) (c13_ri pr) -> lglob l) ->
  c13_ri (del_proc (fun g => existsb (N.eqb g) Dl) pr) = map (fun x => (fst x, c13_mod_remove_all Dl (snd x))) (c13_ri pr).
Proof.
  intros Hl. unfold del_proc. simpl. apply map_ext_in. intros [q l] Hq. simpl. f_equal.
  rewrite P_mod_remove_all_filter by (apply (Hl q); exact Hq). reflexivity.
Qed.

(* insert(index, global) puts the entry in front of the first entry with a global index >= global: order is kept *)
Lemma P_mod_insert_ordered e : forall rl, lglob rl -> (forall x, In x rl -> eg x <> eg e) ->
  let r := c13_mod_insert e (eg e) rl (map eg rl) in
  lglob (fst r) /\ snd r = map eg (fst r) /\ (forall x, In x (fst r) <-> x = e \/ In x rl).
Proof.
  induction rl as [|y rl IH]; intros Hs Hne; cbn [map c13_mod_insert].
  - simpl. repeat split; auto; try (constructor; constructor). intros [H|[]]; auto. intros [H|[]]; left; auto.
  - inversion Hs as [|? ? Hs' Hf]; subst. rewrite Forall_forall in Hf.
    destruct (eg y <? eg e) eqn:E.
    + apply N.ltb_lt in E. destruct (IH Hs' (fun x Hx => Hne x (or_intror Hx))) as [I1 [I2 I3]].
      destruct (c13_mod_insert e (eg e) rl (map eg rl)) as [a b]. simpl in *. split; [|split].
      * constructor; auto. apply Forall_forall. intros x Hx. apply I3 in Hx. destruct Hx as [->|Hx]; auto.
      * rewrite I2. reflexivity.
      * intros x. rewrite I3. tauto.
    + apply N.ltb_ge in E. simpl. split; [|split; [reflexivity|intros x; split; intros H; intuition (subst; auto)]].
      constructor; auto. apply Forall_forall. intros x [<-|Hx].
      * pose proof (Hne y (or_introl eq_refl)). lia.
      * specialize (Hf x Hx). lia.
Qed.

(* the modifier's repairLocalIndexPointers (with the ++giter of fix 1d43834): total and exact on an index set ordered by
   global index that holds every listed global index *)
Lemma mod_seek_ok iset g : gsorted iset -> forall fuel pos k p,
  nth_error iset k = Some p -> c13_g p = g -> (pos <= k)%nat -> (k - pos < fuel)%nat ->
  (forall j pj, (j < pos)%nat -> nth_error iset j = Some pj -> c13_g pj < g) ->
  exists k', c13_mod_seek fuel iset g pos = Some k' /\ (pos <= k' <= k)%nat /\
             (exists p', nth_error iset k' = Some p' /\ c13_g p' = g) /\
             (forall j pj, (j < k')%nat -> nth_error iset j = Some pj -> c13_g pj < g).
Proof.
  intros Hs. induction fuel as [|f IH]; intros pos k p Hk Hg Hle Hf Hb; [lia|]. simpl.
  assert (Hlen : (k < length iset)%nat) by (apply nth_error_Some; congruence).
  destruct (nth_error iset pos) as [pp|] eqn:Ep; [|apply nth_error_None in Ep; lia].
  assert (Hpp : c13_g pp <= g).
  { subst g. clear - Hs Ep Hk Hle. revert pos k pp p Ep Hk Hle. induction Hs as [|x r Hs IH Hf]; intros pos k pp p Ep Hk Hle.
    - destruct pos; discriminate.
    - rewrite Forall_forall in Hf. destruct pos, k; simpl in *; try lia.
      + inversion Ep; inversion Hk; subst. lia.
      + inversion Ep; subst. apply Hf. eapply nth_error_In; eauto.
      + eapply IH; eauto. lia. }
  destruct (c13_g pp <? g) eqn:E.
  - apply N.ltb_lt in E. assert (pos <> k) by (intros ->; rewrite Hk in Ep; inversion Ep; subst; lia).
    destruct (IH (S pos) k p Hk Hg) as [k' [F1 [F2 [F3 F4]]]]; [lia | lia | |].
    + intros j pj Hj Hpj. destruct (Nat.eq_dec j pos) as [->|]; [rewrite Ep in Hpj; inversion Hpj; subst; auto | apply (Hb j); auto; lia].
    + exists k'. repeat split; auto; lia.
  - apply N.ltb_ge in E. exists pos. split; auto. split; [lia|]. split; [exists pp; split; auto; lia | exact Hb].
Qed.

Lemma P_mod_repair_total iset : gsorted iset -> forall gl pos,
  StronglySorted N.le gl -> (forall g, In g gl -> exists p, In p iset /\ c13_g p = g) ->
  (forall g j pj, In g gl -> (j < pos)%nat -> nth_error iset j = Some pj -> c13_g pj < g) ->
  exists ks, c13_mod_repair iset gl pos = Some ks /\
             Forall2 (fun g k => exists p, nth_error iset k = Some p /\ c13_g p = g) gl ks.
Proof.
  intros Hs. induction gl as [|g gl IH]; intros pos Hsg Hin Hb; cbn [c13_mod_repair].
  - exists []. split; auto.
  - destruct (Hin g (or_introl eq_refl)) as [p [Hp Hg]]. apply In_nth_error in Hp. destruct Hp as [k Hk].
    assert (Hlen : (k < length iset)%nat) by (apply nth_error_Some; congruence).
    assert (Hle : (pos <= k)%nat).
    { destruct (le_lt_dec pos k); auto. exfalso. pose proof (Hb g k p (or_introl eq_refl) l Hk). lia. }
    destruct (mod_seek_ok iset g Hs (S (length iset)) pos k p Hk Hg Hle) as [k' [F1 [F2 [F3 F4]]]];
      [lia | intros j pj Hj Hpj; apply (Hb g j pj); auto; left; auto |].
    rewrite F1. inversion Hsg as [|? ? Hsg' Hf]; subst. rewrite Forall_forall in Hf.
    destruct (IH k' Hsg') as [ks [R1 R2]].
    + intros g' Hg'. apply Hin; right; auto.
    + intros g' j pj Hg' Hj Hpj. specialize (F4 j pj Hj Hpj). specialize (Hf g' Hg'). lia.
    + rewrite R1. exists (k' :: ks). split; auto.
Qed.
