(* C13 — part 10: the result of sync does not depend on the order in which the incoming messages are processed. *)
From Coq Require Import List NArith Bool Lia Sorted Permutation.
From DuneV Require Import C13_Model C13_Spec C13_Proofs C13_Proofs_Recv C13_Proofs_Sync C13_Proofs_Completion C13_Proofs_Sound
  C13_Proofs_Iset C13_Proofs_Repair C13_Proofs_Char.
Import ListNotations.
Local Open Scope N_scope.

(* one copy per (rank, global): the attribute a rank holds a global index with is a function att rank global, and
   everything a process records (own pairs, local and remote attributes of its remote entries) agrees with it *)
Definition agree_entries (att : N -> N -> N) (s : N) (m : c13_rmap) : Prop :=
  forall q e, In_rmap m q e -> snd (fst e) = att s (eg e) /\ snd e = att q (eg e).
Definition agree_proc (att : N -> N -> N) (s : N) (pr : c13_proc) : Prop :=
  (forall ip, In ip (c13_iset pr) -> c13_a ip = att s (c13_g ip)) /\ agree_entries att s (c13_ri pr).

Lemma published_agree att w src r pb q e :
  sender_ok (c13_proc_of w src) -> agree_proc att src (c13_proc_of w src) ->
  In pb (c13_message w src r) -> published r src pb q e ->
  snd (fst e) = att r (eg e) /\ snd e = att q (eg e).
Proof.
  intros [Sg [Sm [Sl Sv]]] [Ai Ae] Hpb [myattr [pa [H1 [H2 [-> ->]]]]].
  destruct (message_shape _ _ _ _ Sg Hpb) as [ip [Hip ->]]. simpl in *. unfold eg. simpl.
  split.
  - destruct (holders_inv _ _ _ _ H1) as [l [e0 [G1 [G2 [G3 G4]]]]].
    destruct (Ae r e0 (ex_intro _ l (conj G1 G2))) as [_ A2]. rewrite G3 in A2. congruence.
  - unfold pub_sources in H2. simpl in H2. destruct H2 as [<-|H2]; simpl; [apply Ai; auto|].
    apply filter_In in H2. destruct H2 as [H2 _]. destruct pa as [t c]. simpl.
    destruct (holders_inv _ _ _ _ H2) as [l [e0 [G1 [G2 [G3 G4]]]]].
    destruct (Ae t e0 (ex_intro _ l (conj G1 G2))) as [_ A2]. rewrite G3 in A2. congruence.
Qed.

Lemma pair_shape_eq numb x y : c13_keyof x = c13_keyof y ->
  c13_p x = true /\ c13_l x = numb (c13_g x) -> c13_p y = true /\ c13_l y = numb (c13_g y) -> x = y.
Proof.
  destruct x, y; unfold c13_keyof; simpl. intros E [-> ->] [-> ->]. inversion E; subst. reflexivity.
Qed.

Lemma forallb_members {A} (f : A -> bool) l1 l2 : (forall x, In x l1 <-> In x l2) -> forallb f l1 = forallb f l2.
Proof.
  intros H. destruct (forallb f l1) eqn:E1, (forallb f l2) eqn:E2; auto.
  - rewrite forallb_forall in E1. assert (forallb f l2 = true) by (apply forallb_forall; intros x Hx; apply E1, H; auto). congruence.
  - rewrite forallb_forall in E2. assert (forallb f l1 = true) by (apply forallb_forall; intros x Hx; apply E2, H; auto). congruence.
Qed.

Section Order.
  Variables (numb : N -> N) (w : c13_world) (r : N) (att : N -> N -> N).
  Hypothesis Hme : proc_ok (c13_proc_of w r).
  Hypothesis Hstrict : istrict (c13_iset (c13_proc_of w r)).
  Hypothesis Hglob : forall q, sglob (c13_iset (c13_proc_of w q)).
  Hypothesis Hag_me : agree_entries att r (c13_ri (c13_proc_of w r)).

  Definition senders_ok (order : list N) : Prop :=
    forall s, In s order -> sender_ok (c13_proc_of w s) /\ agree_proc att s (c13_proc_of w s).

  Let old := c13_iset (c13_proc_of w r).
  Let ri0 := c13_ri (c13_proc_of w r).
  Definition from_msgs (order : list N) (q : N) (e : c13_rentry) : Prop :=
    exists src pb, In src order /\ In pb (c13_message w src r) /\ published r src pb q e.

  (* the receive phase, characterised *)
  Lemma recv_char order : senders_ok order ->
    let st := c13_recv_all c13_fixed numb w r order in
    rmap_wf (rs_ri st) /\
    (forall q e, In_rmap (rs_ri st) q e <-> In_rmap ri0 q e \/ from_msgs order q e) /\
    AInv numb old (rs_added st) /\
    (forall k, has_key (rs_added st) k <->
       ~ has_key old k /\ exists src pb, In src order /\ In pb (c13_message w src r) /\ In (r, snd k) (snd pb) /\ pb_g pb = fst k) /\
    (forall q l, In (q, l) (rs_ri st) -> strict_keys l).
  Proof.
    intros Hso st. unfold st, c13_recv_all. fold old ri0.
    destruct Hme as [Hs [Hwf Hval]].
    assert (Hinit : RInv old (C13RState [] ri0)).
    { constructor; simpl; auto. intros q0 e0 He0. rewrite app_nil_r. exact (Hval q0 e0 He0). }
    destruct (recv_all_inv numb w r old order _ Hinit) as [[I1 I1'] [I2 [I3 I4]]].
    assert (Ha0 : AInv numb old []) by (constructor; [intros p [] | constructor | intros p []]).
    pose proof (recv_all_ainv numb w r old (istrict_gsorted _ Hstrict) Hglob order (C13RState [] ri0) Ha0) as HA.
    set (stf := fold_left _ order _) in *.
    assert (Huniq : forall src pb x y, In src order -> In pb (c13_message w src r) -> In (r, x) (snd pb) -> In (r, y) (snd pb) -> x = y).
    { intros src pb x y Hsrc Hpb. destruct (Hso src Hsrc) as [[Sg [Sm _]] _]. eapply message_self_unique; eauto. }
    assert (Hchar : forall q e, In_rmap (rs_ri stf) q e <-> In_rmap ri0 q e \/ from_msgs order q e).
    { intros q e. split.
      - intros He. apply recv_all_from in He. exact He.
      - intros [He|[src [pb [Hsrc [Hpb [myattr [pa [P1 [P2 [-> ->]]]]]]]]]]; [apply I3; exact He|].
        destruct (I4 src pb Hsrc Hpb) as [m' [M1 [_ M3]]].
        rewrite (Huniq src pb myattr m' Hsrc Hpb P1 M1). apply M3. exact P2. }
    split; [exact I1|]. split; [exact Hchar|]. split; [exact HA|]. split.
    - intros k. split.
      + intros [x [Hx Hk]]. split; [rewrite <- Hk; apply (a_fresh _ _ _ HA x Hx)|].
        apply recv_all_added_from in Hx. simpl in Hx. destruct Hx as [[]|[src [pb [H1 [H2 [a [H3 H4]]]]]]].
        exists src, pb. subst x. unfold c13_keyof in Hk. simpl in Hk. subst k. simpl. auto.
      + intros [Hn [src [pb [H1 [H2 [H3 H4]]]]]].
        destruct (I4 src pb H1 H2) as [m' [M1 [M2 _]]].
        rewrite <- (Huniq src pb (snd k) m' H1 H2 H3 M1) in M2. unfold pb_g in H4. rewrite H4 in M2.
        replace (fst k, snd k) with k in M2 by (destruct k; reflexivity).
        destruct M2 as [x [Hx Hk]]. apply in_app_or in Hx. destruct Hx as [Hx|Hx]; [exfalso; apply Hn; exists x; auto|].
        exists x; auto.
    - intros q l Hl. apply (wf_agree_strict (att r) (att q)); [apply (proj2 I1 q l Hl)|].
      intros e He. destruct (proj1 (Hchar q e) (ex_intro _ l (conj Hl He))) as [H|[src [pb [H1 [H2 H3]]]]].
      + apply Hag_me; auto.
      + destruct (Hso src H1) as [So Ag]. eapply published_agree; eauto.
  Qed.

  Lemma P_order_independent o1 o2 : (forall q, In q o1 <-> In q o2) -> senders_ok o1 ->
    c13_sync_rank c13_fixed numb w r o1 = c13_sync_rank c13_fixed numb w r o2.
  Proof.
    intros Hm Hs1.
    assert (Hs2 : senders_ok o2) by (intros s Hs; apply Hs1, Hm; auto).
    destruct (recv_char o1 Hs1) as [W1 [C1 [A1 [K1 L1]]]]. destruct (recv_char o2 Hs2) as [W2 [C2 [A2 [K2 L2]]]].
    unfold c13_sync_rank. rewrite (forallb_members _ o1 o2 Hm).
    destruct (forallb _ o2); [|reflexivity].
    set (st1 := c13_recv_all c13_fixed numb w r o1) in *. set (st2 := c13_recv_all c13_fixed numb w r o2) in *.
    assert (Eri : rs_ri st1 = rs_ri st2).
    { apply rmap_ext; auto; try apply W1; try apply W2.
      - intros q. unfold st1, st2, c13_recv_all. rewrite !recv_all_keys. split; intros [H|[src [pb [H1 H2]]]]; auto; right; exists src, pb; split; auto; apply Hm; auto.
      - intros q e. rewrite C1, C2. split; intros [H|[src [pb [H1 H2]]]]; auto; right; exists src, pb; split; auto; apply Hm; auto. }
    assert (Ead : c13_sort (rs_added st1) = c13_sort (rs_added st2)).
    { assert (Hdir : forall sa sb, AInv numb old (rs_added sa) -> AInv numb old (rs_added sb) ->
                (forall k, has_key (rs_added sa) k -> has_key (rs_added sb) k) ->
                forall x, In x (c13_sort (rs_added sa)) -> In x (c13_sort (rs_added sb))).
      { intros sa sb Aa Ab Hk x Hx. apply (Permutation_in _ (sort_perm _)) in Hx.
        destruct (Hk (c13_keyof x) (ex_intro _ x (conj Hx eq_refl))) as [y [Hy Ey]].
        rewrite (pair_shape_eq numb x y (eq_sym Ey) (a_shape _ _ _ Aa x Hx) (a_shape _ _ _ Ab y Hy)).
        apply (Permutation_in _ (Permutation_sym (sort_perm _))). exact Hy. }
      assert (Hstr : forall sa, AInv numb old (rs_added sa) -> istrict (c13_sort (rs_added sa))).
      { intros sa Aa. apply sorted_nodup_strict; [apply sort_sorted|].
        apply (Permutation_NoDup (l := map c13_keyof (rs_added sa))); [apply Permutation_map, Permutation_sym, sort_perm | apply (a_nodup _ _ _ Aa)]. }
      apply istrict_ext; auto. intros x; split; apply Hdir; auto; intros k Hk.
      - apply K2. apply K1 in Hk. destruct Hk as [Hn [src [pb [H1 H2]]]]. split; auto. exists src, pb. split; auto. apply Hm; auto.
      - apply K1. apply K2 in Hk. destruct Hk as [Hn [src [pb [H1 H2]]]]. split; auto. exists src, pb. split; auto. apply Hm; auto. }
    rewrite Eri, Ead. reflexivity.
  Qed.
End Order.
