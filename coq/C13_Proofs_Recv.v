(* C13 — lemmas and proofs, part 2: the neighbour map, recvAndUnpack, the receive phase. *)
From Coq Require Import List NArith Bool Lia Sorted Permutation.
From DuneV Require Import C13_Model C13_Spec C13_Proofs.
Import ListNotations.
Local Open Scope N_scope.

Definition In_rmap (m : c13_rmap) (q : N) (e : c13_rentry) : Prop := exists l, In (q, l) m /\ In e l.
Definition rmap_sorted (m : c13_rmap) : Prop := StronglySorted (fun a b => fst a < fst b) m.
Definition rmap_wf (m : c13_rmap) : Prop := rmap_sorted m /\ forall q l, In (q, l) m -> rlist_wf l.

Lemma map_insert_incl v proc key ra m q e : In_rmap m q e -> In_rmap (c13_map_insert v proc key ra m) q e.
Proof.
  induction m as [|x r IH]; intros [l [Hl He]]; simpl in *; [contradiction|].
  destruct (fst x =? proc) eqn:E1.
  - destruct Hl as [->|Hl].
    + exists (c13_list_insert v key ra l). simpl. split; [left; reflexivity | apply list_insert_incl; auto].
    + exists l; split; [right|]; auto.
  - destruct (proc <? fst x).
    + exists l; split; [right|]; auto.
    + destruct Hl as [->|Hl].
      * exists l; split; [left|]; auto.
      * destruct IH as [l' [H1 H2]]; [exists l; auto|]. exists l'; split; [right|]; auto.
Qed.

Lemma map_insert_inv v proc key ra m q e :
  In_rmap (c13_map_insert v proc key ra m) q e -> In_rmap m q e \/ (q = proc /\ e = (key, ra)).
Proof.
  induction m as [|x r IH]; simpl.
  - intros [l [[H|[]] He]]. inversion H; subst. destruct He as [<-|[]]. right; auto.
  - destruct (fst x =? proc) eqn:E1.
    + apply N.eqb_eq in E1. intros [l [[H|H] He]].
      * inversion H; subst. apply list_insert_inv in He. destruct He as [->|He]; [right; auto|].
        left. exists (snd x). split; auto. left. destruct x; reflexivity.
      * left. exists l; split; auto. right; auto.
    + destruct (proc <? fst x).
      * intros [l [[H|H] He]].
        { inversion H; subst. destruct He as [<-|[]]. right; auto. }
        { left. exists l; auto. }
      * intros [l [[H|H] He]].
        { left. exists l; split; auto. left; auto. }
        { destruct IH as [[l' [H1 H2]]|H']; [exists l; auto| |right; auto]. left. exists l'; split; auto. right; auto. }
Qed.

Lemma map_insert_in proc key ra m :
  (forall q l, In (q, l) m -> rsorted l) -> In_rmap (c13_map_insert c13_fixed proc key ra m) proc (key, ra).
Proof.
  induction m as [|x r IH]; simpl; intros Hs.
  - exists [(key, ra)]. split; left; reflexivity.
  - destruct (fst x =? proc) eqn:E1.
    + apply N.eqb_eq in E1. exists (c13_list_insert c13_fixed key ra (snd x)). split; [left; rewrite E1; reflexivity|].
      apply list_insert_fixed_in. apply (Hs (fst x)). left. destruct x; reflexivity.
    + destruct (proc <? fst x).
      * exists [(key, ra)]. split; left; reflexivity.
      * destruct IH as [l [H1 H2]]; [intros q l Hl; apply (Hs q); right; auto|]. exists l. split; [right|]; auto.
Qed.

Lemma map_insert_keys v proc key ra m q :
  In q (map fst (c13_map_insert v proc key ra m)) <-> q = proc \/ In q (map fst m).
Proof.
  induction m as [|x r IH]; simpl.
  - intuition.
  - destruct (fst x =? proc) eqn:E1.
    + apply N.eqb_eq in E1. simpl. intuition (try congruence).
    + destruct (proc <? fst x); simpl; [intuition (try congruence)|]. rewrite IH. intuition (try congruence).
Qed.

Lemma map_insert_wf proc key ra m : rmap_wf m -> rmap_wf (c13_map_insert c13_fixed proc key ra m).
Proof.
  intros [Hs Hl]. induction m as [|x r IH]; simpl.
  - split; [constructor; constructor|]. intros q l [H|[]]. inversion H; subst. split; [constructor; constructor | constructor; auto; constructor].
  - assert (Hr : rmap_wf r).
    { split; [inversion Hs; auto | intros q l H; apply (Hl q); right; auto]. }
    destruct (fst x =? proc) eqn:E1.
    + split.
      * inversion Hs; subst. constructor; auto.
      * intros q l [H|H]; [|apply (Hl q); right; auto]. inversion H; subst.
        apply list_insert_wf. apply (Hl (fst x)). left. destruct x; reflexivity.
    + destruct (proc <? fst x) eqn:E2.
      * apply N.ltb_lt in E2. split.
        { constructor; auto. apply Forall_forall. intros y [<-|Hy]; simpl; auto.
          inversion Hs; subst. rewrite Forall_forall in H2. specialize (H2 y Hy). lia. }
        { intros q l [H|H]; [|apply (Hl q); auto]. inversion H; subst.
          split; [constructor; constructor | constructor; auto; constructor]. }
      * apply N.ltb_ge in E2. apply N.eqb_neq in E1.
        destruct (IH (proj1 Hr) (proj2 Hr)) as [Hs' Hl'].
        split.
        { constructor; auto. apply Forall_forall. intros y Hy.
          assert (Hk : In (fst y) (map fst (c13_map_insert c13_fixed proc key ra r))) by (apply in_map; auto).
          apply map_insert_keys in Hk. destruct Hk as [->|Hk]; [lia|].
          inversion Hs; subst. rewrite Forall_forall in H2. apply in_map_iff in Hk. destruct Hk as [z [Hz1 Hz2]].
          rewrite <- Hz1. apply H2; auto. }
        { intros q l [H|H]; [apply (Hl q); left; auto | apply (Hl' q); auto]. }
Qed.

(* ------------------------------------------------------------------ helpers of recvAndUnpack *)
Lemma dropwhile_incl {A} (f : A -> bool) l : incl (c13_dropwhile f l) l.
Proof. induction l as [|x r IH]; simpl; [apply incl_refl|]. destruct (f x); [apply incl_tl; auto | apply incl_refl]. Qed.

Lemma attr_there_in g a l : c13_attr_there g a l = true -> exists p, In p l /\ c13_keyof p = (g, a).
Proof.
  induction l as [|p r IH]; simpl; [discriminate|].
  destruct (c13_g p =? g) eqn:E1; [|discriminate]. destruct (c13_a p =? a) eqn:E2.
  - intros _. exists p. apply N.eqb_eq in E1, E2. unfold c13_keyof. rewrite E1, E2. auto.
  - intros H. destruct (IH H) as [p' [H1 H2]]. exists p'; auto.
Qed.

Lemma add_incl v numb g a added : incl added (c13_add v numb g a added).
Proof. unfold c13_add. destruct (v_dedup v && existsb (c13_same_ga g a) added); [apply incl_refl | apply incl_appl, incl_refl]. Qed.

Lemma add_has v numb g a added : exists p, In p (c13_add v numb g a added) /\ c13_keyof p = (g, a).
Proof.
  unfold c13_add. destruct (v_dedup v && existsb (c13_same_ga g a) added) eqn:E.
  - apply andb_true_iff in E. destruct E as [_ E]. apply existsb_exists in E. destruct E as [p [H1 H2]].
    exists p. split; auto. unfold c13_same_ga in H2. apply andb_true_iff in H2. destruct H2 as [H2 H3].
    apply N.eqb_eq in H2, H3. unfold c13_keyof. rewrite H2, H3. reflexivity.
  - exists (C13Pair g a (numb g) true). split; [apply in_or_app; right; left; reflexivity | reflexivity].
Qed.

Definition has_key (l : list c13_pair) (k : c13_key) : Prop := exists p, In p l /\ c13_keyof p = k.

Lemma has_key_incl l l' k : incl l l' -> has_key l k -> has_key l' k.
Proof. intros Hi [p [H1 H2]]. exists p; auto. Qed.

Lemma pairs_loop_spec v rank_ numb g old : forall pairs idx added myattr srcl idx' added' myattr' srcl',
  incl idx old ->
  c13_pairs_loop v rank_ numb g pairs idx added myattr srcl = (idx', added', myattr', srcl') ->
  incl idx' old /\ incl added added' /\
  srcl' = srcl ++ filter (fun pa => negb (fst pa =? rank_)) pairs /\
  (has_key (old ++ added) (g, myattr) \/ existsb (fun pa => fst pa =? rank_) pairs = true ->
   has_key (old ++ added') (g, myattr')) /\
  (existsb (fun pa => fst pa =? rank_) pairs = true -> In (rank_, myattr') pairs) /\
  (existsb (fun pa => fst pa =? rank_) pairs = false -> myattr' = myattr).
Proof.
  induction pairs as [|pa rest IH]; simpl; intros idx added myattr srcl idx' added' myattr' srcl' Hidx Heq.
  - inversion Heq; subst. repeat split; auto using incl_refl. { rewrite app_nil_r; reflexivity. }
    { intros [H|H]; [auto|discriminate]. } { discriminate. }
  - destruct (fst pa =? rank_) eqn:Eself; simpl.
    + (* the pair addressed to us *)
      set (pos := c13_dropwhile (fun p => c13_g p <? g) idx) in *.
      assert (Hpos : incl pos old) by (eapply incl_tran; [apply dropwhile_incl | exact Hidx]).
      assert (Hgoal : forall idx0 added0, incl idx0 old -> incl added added0 -> has_key (old ++ added0) (g, snd pa) ->
                c13_pairs_loop v rank_ numb g rest idx0 added0 (snd pa) srcl = (idx', added', myattr', srcl') ->
                incl idx' old /\ incl added added' /\ srcl' = srcl ++ filter (fun pa => negb (fst pa =? rank_)) rest /\
                (has_key (old ++ added) (g, myattr) \/ true = true -> has_key (old ++ added') (g, myattr')) /\
                (true = true -> pa = (rank_, myattr') \/ In (rank_, myattr') rest) /\ (true = false -> myattr' = myattr)).
      { intros idx0 added0 Hi0 Ha0 Hk0 Heq0. destruct (IH _ _ _ _ _ _ _ _ Hi0 Heq0) as [H1 [H2 [H3 [H4 [H5 H6]]]]].
        repeat split; auto. { eapply incl_tran; eauto. }
        { intros _. destruct (existsb (fun pa0 => fst pa0 =? rank_) rest) eqn:Er; [right; auto|].
          left. rewrite (H6 eq_refl). apply N.eqb_eq in Eself. destruct pa; simpl in *; subst; reflexivity. }
        { discriminate. } }
      destruct pos as [|p pos'] eqn:Epos.
      * apply (Hgoal idx (c13_add v numb g (snd pa) added)); auto using add_incl.
        destruct (add_has v numb g (snd pa) added) as [p [H1 H2]]. exists p. split; auto. apply in_or_app; auto.
      * destruct (c13_g p =? g) eqn:Eg.
        { destruct (c13_attr_there g (snd pa) (p :: pos')) eqn:Eth.
          - apply (Hgoal (p :: pos') added); auto using incl_refl.
            destruct (attr_there_in _ _ _ Eth) as [p' [H1 H2]]. exists p'. split; auto. apply in_or_app; left. apply Hpos; auto.
          - apply (Hgoal (p :: pos') (c13_add v numb g (snd pa) added)); auto using add_incl.
            destruct (add_has v numb g (snd pa) added) as [p' [H1 H2]]. exists p'. split; auto. apply in_or_app; auto. }
        { apply (Hgoal idx (c13_add v numb g (snd pa) added)); auto using add_incl.
          destruct (add_has v numb g (snd pa) added) as [p' [H1 H2]]. exists p'. split; auto. apply in_or_app; auto. }
    + destruct (IH _ _ _ _ _ _ _ _ Hidx Heq) as [H1 [H2 [H3 [H4 [H5 H6]]]]]. repeat split; auto.
      rewrite H3, <- app_assoc. reflexivity.
Qed.

(* ------------------------------------------------------------------ one publication, one message, all messages *)
Record RInv (old : list c13_pair) (st : c13_rstate) : Prop := {
  ri_wf : rmap_wf (rs_ri st);
  ri_valid : forall q e, In_rmap (rs_ri st) q e -> has_key (old ++ rs_added st) (fst e) }.

Definition selfb (rank_ : N) (pa : N * N) : bool := fst pa =? rank_.
Definition pub_sources (rank_ source : N) (pb : c13_publication) : list (N * N) :=
  (source, snd (fst pb)) :: filter (fun pa => negb (selfb rank_ pa)) (snd pb).

Lemma fold_insert_spec key srcl : forall m, rmap_wf m ->
  let m' := fold_left (fun m pa => c13_map_insert c13_fixed (fst pa) key (snd pa) m) srcl m in
  rmap_wf m' /\ (forall q e, In_rmap m q e -> In_rmap m' q e) /\
  (forall pa, In pa srcl -> In_rmap m' (fst pa) (key, snd pa)) /\
  (forall q e, In_rmap m' q e -> In_rmap m q e \/ fst e = key).
Proof.
  induction srcl as [|pa r IH]; simpl; intros m Hm.
  - split; [exact Hm|]. split; [auto|]. split; [intros pa []|auto].
  - destruct (IH (c13_map_insert c13_fixed (fst pa) key (snd pa) m) (map_insert_wf _ _ _ _ Hm)) as [H1 [H2 [H3 H4]]].
    split; [exact H1|]. split; [|split].
    + intros q e He. apply H2. apply map_insert_incl; auto.
    + intros pa' [<-|Hp]; [|auto]. apply H2. apply map_insert_in. intros q l Hl. apply (proj2 Hm q l Hl).
    + intros q e He. destruct (H4 q e He) as [He'|]; auto. apply map_insert_inv in He'. destruct He' as [|[_ ->]]; auto.
Qed.

Definition pub_post (old : list c13_pair) (rank_ source : N) (pb : c13_publication) (st : c13_rstate) : Prop :=
  exists myattr, In (rank_, myattr) (snd pb) /\ has_key (old ++ rs_added st) (fst (fst pb), myattr) /\
    forall pa, In pa (pub_sources rank_ source pb) -> In_rmap (rs_ri st) (fst pa) ((fst (fst pb), myattr), snd pa).

Lemma pub_post_mono old rank_ source pb st st' :
  incl (rs_added st) (rs_added st') -> (forall q e, In_rmap (rs_ri st) q e -> In_rmap (rs_ri st') q e) ->
  pub_post old rank_ source pb st -> pub_post old rank_ source pb st'.
Proof.
  intros Ha Hr [a [H1 [H2 H3]]]. exists a. repeat split; auto.
  eapply has_key_incl; [|exact H2]. apply incl_app; [apply incl_appl, incl_refl | apply incl_appr; auto].
Qed.

Lemma unpack_one_inv rank_ numb source old idx st pb idx' st' :
  incl idx old -> RInv old st -> existsb (selfb rank_) (snd pb) = true ->
  c13_unpack_one c13_fixed rank_ numb source (idx, st) pb = (idx', st') ->
  incl idx' old /\ RInv old st' /\ incl (rs_added st) (rs_added st') /\
  (forall q e, In_rmap (rs_ri st) q e -> In_rmap (rs_ri st') q e) /\
  pub_post old rank_ source pb st'.
Proof.
  intros Hidx [Hwf Hval] Hself. unfold c13_unpack_one. simpl.
  destruct (c13_pairs_loop c13_fixed rank_ numb (fst (fst pb)) (snd pb) idx (rs_added st) 0 [(source, snd (fst pb))])
    as [[[i1 a1] m1] s1] eqn:El.
  intros Heq. inversion Heq; subst idx' st'; clear Heq. simpl.
  destruct (pairs_loop_spec _ _ _ _ old _ _ _ _ _ _ _ _ _ Hidx El) as [H1 [H2 [H3 [H4 [H5 H6]]]]].
  specialize (H4 (or_intror Hself)). specialize (H5 Hself).
  destruct (fold_insert_spec (fst (fst pb), m1) s1 (rs_ri st) Hwf) as [F1 [F2 [F3 F4]]].
  split; [exact H1|]. split; [|split; [exact H2|split; [exact F2|]]].
  - constructor; simpl; [exact F1|].
    intros q e He. destruct (F4 q e He) as [He'|Hk].
    + eapply has_key_incl; [|apply (Hval q e He')]. apply incl_app; [apply incl_appl, incl_refl | apply incl_appr; auto].
    + rewrite Hk. exact H4.
  - exists m1. split; [exact H5|]. split; [exact H4|]. simpl. intros pa Hpa. apply F3. rewrite H3. exact Hpa.
Qed.

Lemma receive_inv rank_ numb source old : forall msg idx st,
  incl idx old -> RInv old st -> (forall pb, In pb msg -> existsb (selfb rank_) (snd pb) = true) ->
  let res := fold_left (c13_unpack_one c13_fixed rank_ numb source) msg (idx, st) in
  incl (fst res) old /\ RInv old (snd res) /\ incl (rs_added st) (rs_added (snd res)) /\
  (forall q e, In_rmap (rs_ri st) q e -> In_rmap (rs_ri (snd res)) q e) /\
  (forall pb, In pb msg -> pub_post old rank_ source pb (snd res)).
Proof.
  induction msg as [|pb r IH]; simpl; intros idx st Hidx Hinv Hself.
  - split; [exact Hidx|]. split; [exact Hinv|]. split; [apply incl_refl|]. split; [auto|intros pb []].
  - destruct (c13_unpack_one c13_fixed rank_ numb source (idx, st) pb) as [idx1 st1] eqn:E1.
    destruct (unpack_one_inv _ _ _ _ _ _ _ _ _ Hidx Hinv (Hself pb (or_introl eq_refl)) E1) as [U1 [U2 [U3 [U4 U5]]]].
    destruct (IH idx1 st1 U1 U2 (fun pb' H => Hself pb' (or_intror H))) as [R1 [R2 [R3 [R4 R5]]]].
    split; [exact R1|]. split; [exact R2|]. split; [eapply incl_tran; eauto|]. split; [auto|].
    intros pb' [<-|Hp]; [|auto]. eapply pub_post_mono; eauto.
Qed.
