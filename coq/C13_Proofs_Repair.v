(* C13 — lemmas and proofs, part 4: repairLocalIndexPointers is total and correct on ordered sets and lists with
   strictly increasing keys (at most one entry per local pair in a neighbour's list). *)
From Coq Require Import List NArith Bool Lia Sorted Permutation Arith.
From DuneV Require Import C13_Model C13_Spec C13_Proofs C13_Proofs_Recv C13_Proofs_Sync.
Import ListNotations.
Local Open Scope N_scope.

Lemma isorted_nth : forall l i j a b, isorted l -> (i <= j)%nat ->
  nth_error l i = Some a -> nth_error l j = Some b -> kle (c13_keyof a) (c13_keyof b).
Proof.
  induction l as [|x r IH]; intros i j a b Hs Hij Hi Hj.
  - destruct i; discriminate.
  - inversion Hs; subst. destruct i, j; simpl in *.
    + inversion Hi; inversion Hj; subst. apply kle_refl.
    + inversion Hi; subst. rewrite Forall_forall in H2. apply H2. eapply nth_error_In; eauto.
    + lia.
    + apply (IH i j a b); auto. lia.
Qed.

Definition ptr_to (iset : list c13_pair) (key : c13_key) (k : nat) : Prop :=
  exists p, nth_error iset k = Some p /\ c13_keyof p = key.
Definition below (iset : list c13_pair) (pos : nat) (key : c13_key) : Prop :=
  forall j p, (j < pos)%nat -> nth_error iset j = Some p -> klt (c13_keyof p) key.

Lemma find_fwd_S f iset key pos :
  c13_find_fwd (S f) iset key pos =
  match nth_error iset pos with
  | None => Some None
  | Some p =>
      if c13_key_eq (c13_keyof p) key then Some (Some pos)
      else match nth_error iset (S pos) with
           | None => Some None
           | Some p' => if fst key <? c13_g p' then c13_find_fwd f iset key 0 else c13_find_fwd f iset key (S pos)
           end
  end.
Proof. reflexivity. Qed.

Lemma find_fwd_ok iset key : isorted iset -> forall fuel pos k,
  ptr_to iset key k -> (pos <= k)%nat -> below iset pos key -> (k - pos < fuel)%nat ->
  exists k', c13_find_fwd fuel iset key pos = Some (Some k') /\ ptr_to iset key k' /\ below iset k' key.
Proof.
  intros Hs. induction fuel as [|f IH]; intros pos k Hk Hle Hb Hf; [lia|].
  destruct Hk as [pk [Hk1 Hk2]]. rewrite find_fwd_S.
  assert (Hlen : (k < length iset)%nat) by (apply nth_error_Some; congruence).
  destruct (nth_error iset pos) as [p|] eqn:Ep; [|apply nth_error_None in Ep; lia].
  destruct (c13_key_eq (c13_keyof p) key) eqn:Eq.
  - apply key_eq_spec in Eq. exists pos. split; auto. split; auto. exists p; auto.
  - assert (Hne : c13_keyof p <> key) by (intros H; rewrite H, key_eq_refl in Eq; discriminate).
    assert (Hlt : (pos < k)%nat).
    { destruct (Nat.eq_dec pos k) as [->|]; [|lia]. rewrite Hk1 in Ep. inversion Ep; subst. contradiction. }
    destruct (nth_error iset (S pos)) as [p'|] eqn:Ep'; [|apply nth_error_None in Ep'; lia].
    assert (H1 : kle (c13_keyof p') key) by (rewrite <- Hk2; eapply isorted_nth; eauto).
    assert (H2 : (fst key <? c13_g p') = false).
    { apply N.ltb_ge. unfold kle, klt in H1. unfold c13_keyof in H1. simpl in H1. lia. }
    rewrite H2. apply (IH (S pos) k); [exists pk; auto | lia | | lia].
    intros j pj Hj Hpj. destruct (Nat.eq_dec j pos) as [->|]; [| apply (Hb j); auto; lia].
    rewrite Ep in Hpj. inversion Hpj; subst pj.
    assert (H3 : kle (c13_keyof p) key) by (rewrite <- Hk2; eapply isorted_nth; [exact Hs | | exact Ep | exact Hk1]; lia).
    destruct (k_trich (c13_keyof p) key) as [|[|]]; auto; contradiction.
Qed.

Definition strict_keys (l : list c13_rentry) : Prop := StronglySorted (fun a b => klt (fst a) (fst b)) l.

Lemma repair_list_ok iset fuel : isorted iset -> (length iset < fuel)%nat -> forall l pos,
  strict_keys l -> (forall e, In e l -> has_key iset (fst e)) ->
  (forall e, In e l -> below iset pos (fst e)) ->
  exists ps, c13_repair_list fuel iset l pos = C13Ptrs ps /\ Forall2 (fun e k => ptr_to iset (fst e) k) l ps.
Proof.
  intros Hs Hfuel. induction l as [|e r IH]; intros pos Hst Hval Hb; simpl.
  - exists []. split; auto.
  - destruct (Hval e (or_introl eq_refl)) as [p [Hp1 Hp2]].
    apply In_nth_error in Hp1. destruct Hp1 as [k0 Hk0].
    assert (Hlen : (k0 < length iset)%nat) by (apply nth_error_Some; congruence).
    assert (Hle : (pos <= k0)%nat).
    { destruct (le_lt_dec pos k0); auto. exfalso.
      pose proof (Hb e (or_introl eq_refl) k0 p l Hk0) as H. rewrite Hp2 in H. exact (klt_irrefl _ H). }
    destruct (find_fwd_ok iset (fst e) Hs fuel pos k0) as [k' [F1 [F2 F3]]];
      [exists p; auto | auto | apply Hb; left; auto | lia |].
    rewrite F1. inversion Hst; subst.
    destruct (IH (S k')) as [ps [R1 R2]]; auto.
    + intros e' He'. apply Hval; right; auto.
    + intros e' He' j pj Hj Hpj. rewrite Forall_forall in H2. specialize (H2 e' He').
      destruct (Nat.eq_dec j k') as [->|].
      * destruct F2 as [p2 [G1 G2]]. rewrite G1 in Hpj. inversion Hpj; subst. rewrite G2. exact H2.
      * eapply klt_trans; [apply (F3 j pj); auto; lia | exact H2].
    + rewrite R1. exists (k' :: ps). split; auto.
Qed.

(* the pointers sync() leaves behind: for every neighbour list with strictly increasing keys the repair terminates
   inside the set and every entry points to the pair carrying its key *)
Lemma P_rank_repair numb w r order iset' ri' ptrs :
  proc_ok (c13_proc_of w r) ->
  c13_sync_rank c13_fixed numb w r order = C13Ok iset' ri' ptrs ->
  forall q l, In (q, l) ri' -> strict_keys l ->
  exists ps, In (q, C13Ptrs ps) ptrs /\ Forall2 (fun e k => ptr_to iset' (fst e) k) l ps.
Proof.
  intros Hok Heq q l Hl Hst.
  destruct (P_rank_sorted_valid_monotone _ _ _ _ _ _ _ Hok Heq) as [Hs [_ [Hval _]]].
  unfold c13_sync_rank in Heq. destruct (forallb _ order); [|discriminate]. inversion Heq; subst. clear Heq.
  set (iset' := c13_merge _ _) in *. set (ri' := rs_ri _) in *.
  destruct (repair_list_ok iset' (c13_repair_fuel iset') Hs) with (l := l) (pos := 0%nat) as [ps [R1 R2]]; auto.
  - unfold c13_repair_fuel. lia.
  - intros e He. apply (Hval q). exists l; auto.
  - intros e He j p Hj. lia.
  - exists ps. split; auto. apply in_map_iff. exists (q, l). simpl. rewrite R1. auto.
Qed.

(* lists whose entries are determined by the global index (one copy of a global index per rank: the attribute a
   process holds an index with is a function att of (process, global)) have strictly increasing keys *)
Lemma wf_agree_strict (attl attr : N -> N) l :
  rlist_wf l -> (forall e, In e l -> snd (fst e) = attl (fst (fst e)) /\ snd e = attr (fst (fst e))) -> strict_keys l.
Proof.
  intros [Hs Hn] Hag. induction l as [|e r IH]; [constructor|].
  inversion Hs; subst. inversion Hn; subst. constructor.
  - apply IH; auto. intros e' He'. apply Hag; right; auto.
  - apply Forall_forall. intros e' He'. rewrite Forall_forall in H2. specialize (H2 e' He').
    destruct (k_trich (fst e) (fst e')) as [|[Heq|]]; auto; [|contradiction].
    exfalso. apply H3.
    destruct (Hag e (or_introl eq_refl)) as [A1 A2]. destruct (Hag e' (or_intror He')) as [B1 B2].
    assert (e = e'); [|subst; auto].
    destruct e as [[g a] b], e' as [[g' a'] b']; simpl in *. inversion Heq; subst. reflexivity.
Qed.
