(* C13 — part 8: the restore scenario, as far as it is proved (see Properties_C13.v for what is missing). *)
From Coq Require Import List NArith Bool Lia Sorted Permutation.
From DuneV Require Import C13_Model C13_Spec C13_Proofs C13_Proofs_Recv C13_Proofs_Sync C13_Proofs_Completion C13_Proofs_Sound C13_Proofs_Iset.
Import ListNotations.
Local Open Scope N_scope.

Lemma P_restore_partial numb w p q order iset' ri' ptrs l e :
  sender_ok (c13_proc_of w p) -> proc_ok (c13_proc_of w q) ->
  istrict (c13_iset (c13_proc_of w q)) -> (forall s, sglob (c13_iset (c13_proc_of w s))) ->
  In (q, l) (c13_ri (c13_proc_of w p)) -> In e l -> In p order ->
  c13_sync_rank c13_fixed numb w q order = C13Ok iset' ri' ptrs ->
  (* the copy is back, exactly once, with the attribute p recorded, public, numbered by the numberer unless it was never gone *)
  (exists ip, In ip iset' /\ c13_keyof ip = (eg e, snd e) /\
              (In ip (c13_iset (c13_proc_of w q)) \/ (c13_p ip = true /\ c13_l ip = numb (c13_g ip)))) /\
  istrict iset' /\
  (* its remote entries for p and for every other holder p knows are back *)
  In_rmap ri' p ((eg e, snd e), snd (fst e)) /\
  (forall r lr e', In (r, lr) (c13_ri (c13_proc_of w p)) -> r <> q -> In e' lr -> eg e' = eg e ->
     In_rmap ri' r ((eg e, snd e), snd e')) /\
  (* nothing else changed hands: old pairs and entries kept, every entry is old or published, lists stay well formed *)
  (forall x, In x (c13_iset (c13_proc_of w q)) -> In x iset') /\
  (forall s x, In_rmap (c13_ri (c13_proc_of w q)) s x -> In_rmap ri' s x) /\
  (forall s x, In_rmap ri' s x -> In_rmap (c13_ri (c13_proc_of w q)) s x \/
      exists src pb, In src order /\ In pb (c13_message w src q) /\ published q src pb s x) /\
  rmap_wf ri'.
Proof.
  intros Hsp Hq Hst Hw Hl He Hord Heq.
  destruct (P_completion _ _ _ _ _ _ _ _ _ _ Hsp Hq Hl He Hord Heq) as [C1 [C2 C3]].
  destruct (P_rank_sorted_valid_monotone _ _ _ _ _ _ _ Hq Heq) as [_ [M2 [_ [M4 M5]]]].
  destruct (P_rank_iset_strict _ _ _ _ _ _ _ Hst Hw Heq) as [S1 S2].
  destruct C1 as [ip [I1 I2]].
  split; [exists ip; split; auto|]. split; auto. split; auto. split; auto. split; auto. split; auto. split; auto.
  eapply P_rank_no_junk; eauto.
Qed.
