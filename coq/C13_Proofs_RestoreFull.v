(* C13 — part 11: C13_restore.  W = a consistent world (what RemoteIndices::rebuild produces for a decomposition with
   one copy per (rank, global): every list is the intersection of the public copies of the two ranks, ordered by global
   index, absent when empty -- the statement of C04_spec); W' = W after deleting at every rank an arbitrary set of copies
   together with their remote entries; if every deleted copy is still listed by some other rank then sync gives back W,
   up to the local numbers of the re-added pairs, for every processing order. *)
From Coq Require Import List NArith Bool Lia Sorted Permutation.
From DuneV Require Import C13_Model C13_Spec C13_Proofs C13_Proofs_Recv C13_Proofs_Sync C13_Proofs_Completion C13_Proofs_Sound
  C13_Proofs_Iset C13_Proofs_Repair C13_Proofs_Char C13_Proofs_Order.
Import ListNotations.
Local Open Scope N_scope.

Definition pubcopy (W : c13_world) (p g a : N) : Prop :=
  exists ip, In ip (c13_iset (c13_proc_of W p)) /\ c13_g ip = g /\ c13_a ip = a /\ c13_p ip = true.

Record consistent (W : c13_world) : Prop := {
  cs_iset : forall p, sglob (c13_iset (c13_proc_of W p));
  cs_map : forall p, rmap_sorted (c13_ri (c13_proc_of W p));
  cs_lists : forall p q l, In (q, l) (c13_ri (c13_proc_of W p)) -> lglob l /\ l <> [];
  cs_entries : forall p q g la ra,
    In_rmap (c13_ri (c13_proc_of W p)) q ((g, la), ra) <-> p <> q /\ pubcopy W p g la /\ pubcopy W q g ra }.

(* deleting the copies selected by D (a predicate on global indices) and their remote entries; lists are kept even if empty *)
Definition del_proc (D : N -> bool) (pr : c13_proc) : c13_proc :=
  C13Proc (filter (fun ip => negb (D (c13_g ip))) (c13_iset pr))
          (map (fun x => (fst x, filter (fun e => negb (D (eg e))) (snd x))) (c13_ri pr)).
Definition deleted (W W' : c13_world) (D : N -> N -> bool) : Prop :=
  forall p, c13_proc_of W' p = del_proc (D p) (c13_proc_of W p).
Definition still_listed (W W' : c13_world) (D : N -> N -> bool) : Prop :=
  forall p ip, In ip (c13_iset (c13_proc_of W p)) -> D p (c13_g ip) = true ->
    exists s e, s <> p /\ In_rmap (c13_ri (c13_proc_of W' s)) p e /\ eg e = c13_g ip.
Definition renum (numb : N -> N) (D : N -> bool) (ip : c13_pair) : c13_pair :=
  if D (c13_g ip) then C13Pair (c13_g ip) (c13_a ip) (numb (c13_g ip)) true else ip.

(* ------------------------------------------------------------------ small facts *)
Lemma ssorted_filter {A} (R : A -> A -> Prop) f l : StronglySorted R l -> StronglySorted R (filter f l).
Proof.
  induction 1 as [|x r Hs IH Hf]; simpl; [constructor|]. destruct (f x); auto. constructor; auto.
  rewrite Forall_forall in *. intros y Hy. apply filter_In in Hy. apply Hf, Hy.
Qed.

Lemma sglob_istrict l : sglob l -> istrict l.
Proof.
  induction 1 as [|x r Hs IH Hf]; constructor; auto. rewrite Forall_forall in *. intros y Hy. left. simpl. apply Hf; auto.
Qed.

Lemma lglob_strict l : lglob l -> strict_keys l.
Proof.
  induction 1 as [|x r Hs IH Hf]; constructor; auto. rewrite Forall_forall in *. intros y Hy. left. apply (Hf y Hy).
Qed.

Lemma strict_wf l : strict_keys l -> rlist_wf l.
Proof.
  induction 1 as [|x r Hs IH Hf]; [split; constructor|]. rewrite Forall_forall in Hf. destruct IH as [I1 I2]. split.
  - constructor; auto. apply Forall_forall. intros y Hy. apply klt_kle. auto.
  - constructor; auto. intros Hi. exact (klt_irrefl _ (Hf x Hi)).
Qed.

Lemma del_entries D pr q e :
  In_rmap (c13_ri (del_proc D pr)) q e <-> In_rmap (c13_ri pr) q e /\ D (eg e) = false.
Proof.
  unfold del_proc, In_rmap. simpl. split.
  - intros [l [H1 H2]]. apply in_map_iff in H1. destruct H1 as [[q' l'] [E H1]]. simpl in E. inversion E; subst.
    apply filter_In in H2. destruct H2 as [H2 H3]. apply negb_true_iff in H3. split; auto. exists l'; auto.
  - intros [[l [H1 H2]] H3]. exists (filter (fun e => negb (D (eg e))) l). split.
    + apply in_map_iff. exists (q, l); auto.
    + apply filter_In. split; auto. rewrite H3; reflexivity.
Qed.

Lemma del_keys D pr : map fst (c13_ri (del_proc D pr)) = map fst (c13_ri pr).
Proof. unfold del_proc. simpl. rewrite map_map. reflexivity. Qed.

Lemma del_iset D pr ip : In ip (c13_iset (del_proc D pr)) <-> In ip (c13_iset pr) /\ D (c13_g ip) = false.
Proof. unfold del_proc. simpl. rewrite filter_In, negb_true_iff. reflexivity. Qed.

Lemma rmap_sorted_map (f : list c13_rentry -> list c13_rentry) m :
  rmap_sorted m -> rmap_sorted (map (fun x => (fst x, f (snd x))) m).
Proof.
  induction 1 as [|x r Hs IH Hf]; simpl; constructor; auto. rewrite Forall_forall in *. intros y Hy.
  apply in_map_iff in Hy. destruct Hy as [z [<- Hz]]. simpl. apply Hf; auto.
Qed.

Section Restore.
  Variables (W W' : c13_world) (D : N -> N -> bool).
  Hypothesis HW : consistent W.
  Hypothesis HD : deleted W W' D.
  Hypothesis HL : still_listed W W' D.

  Lemma pubcopy_unique p g a ip : pubcopy W p g a -> In ip (c13_iset (c13_proc_of W p)) -> c13_g ip = g ->
    c13_a ip = a /\ c13_p ip = true.
  Proof.
    intros [ip' [H1 [H2 [H3 H4]]]] Hi Hg.
    assert (ip = ip') by (eapply sglob_key_unique; [apply (cs_iset W HW p) | auto | auto | congruence]). subst; auto.
  Qed.

  (* the attribute function of the decomposition *)
  Definition att_of (s g : N) : N :=
    match find (fun ip => c13_g ip =? g) (c13_iset (c13_proc_of W s)) with Some ip => c13_a ip | None => 0 end.

  Lemma att_of_copy s ip : In ip (c13_iset (c13_proc_of W s)) -> c13_a ip = att_of s (c13_g ip).
  Proof.
    intros Hi. unfold att_of. destruct (find _ _) as [ip'|] eqn:F.
    - apply find_some in F. destruct F as [F1 F2]. apply N.eqb_eq in F2.
      assert (ip = ip') by (eapply sglob_key_unique; [apply (cs_iset W HW s) | auto | auto | congruence]). subst; auto.
    - exfalso. apply (find_none _ _ F ip) in Hi. rewrite N.eqb_refl in Hi. discriminate.
  Qed.

  Lemma att_of_pubcopy s g a : pubcopy W s g a -> a = att_of s g.
  Proof. intros [ip [H1 [H2 [H3 _]]]]. subst. apply att_of_copy; auto. Qed.

  Lemma W_agree s : agree_proc att_of s (c13_proc_of W s).
  Proof.
    split; [intros ip Hi; apply att_of_copy; auto|].
    intros q [[g la] ra] He. apply (cs_entries W HW) in He. destruct He as [_ [H1 H2]]. unfold eg; simpl.
    split; apply att_of_pubcopy; auto.
  Qed.

  Lemma W'_agree s : agree_proc att_of s (c13_proc_of W' s).
  Proof.
    rewrite (HD s). destruct (W_agree s) as [A1 A2]. split.
    - intros ip Hi. apply del_iset in Hi. apply A1, Hi.
    - intros q e He. apply del_entries in He. apply A2, He.
  Qed.

  Lemma W'_sglob s : sglob (c13_iset (c13_proc_of W' s)).
  Proof. rewrite (HD s). unfold del_proc; simpl. apply ssorted_filter. apply (cs_iset W HW). Qed.

  Lemma W'_sender_ok s : sender_ok (c13_proc_of W' s).
  Proof.
    split; [apply W'_sglob|]. rewrite (HD s). split; [unfold del_proc; simpl; apply rmap_sorted_map; apply (cs_map W HW)|]. split.
    - intros q l Hl. unfold del_proc in Hl. simpl in Hl. apply in_map_iff in Hl. destruct Hl as [[q' l'] [E Hl]]. inversion E; subst.
      apply ssorted_filter. exact (proj1 (cs_lists W HW s _ l' Hl)).
    - intros q [[g la] ra] He. apply del_entries in He. destruct He as [He Hd]. apply (cs_entries W HW) in He.
      destruct He as [_ [[ip [H1 [H2 [H3 H4]]]] _]]. exists ip. split.
      + apply del_iset. split; auto. unfold eg in Hd; simpl in Hd. congruence.
      + unfold c13_keyof. simpl. congruence.
  Qed.

  Lemma sender_proc_ok pr : sender_ok pr -> proc_ok pr /\ istrict (c13_iset pr).
  Proof.
    intros [Sg [Sm [Sl Sv]]]. split; [|apply sglob_istrict; auto]. split; [apply istrict_isorted, sglob_istrict; auto|].
    split; auto. split; auto. intros q l Hl. apply strict_wf, lglob_strict. apply (Sl q); auto.
  Qed.

  (* what any W' rank publishes is true in W *)
  Lemma published_sound p src pb q e :
    In pb (c13_message W' src p) -> published p src pb q e -> In_rmap (c13_ri (c13_proc_of W p)) q e.
  Proof.
    intros Hpb [myattr [pa [H1 [H2 [-> ->]]]]].
    destruct (message_shape _ _ _ _ (W'_sglob src) Hpb) as [ip [Hip ->]]. simpl in *.
    rewrite (HD src) in Hip. apply del_iset in Hip. destruct Hip as [Hip _].
    destruct (holders_inv _ _ _ _ H1) as [l [e0 [G1 [G2 [G3 G4]]]]].
    assert (E0 : In_rmap (c13_ri (c13_proc_of W src)) p e0).
    { assert (In_rmap (c13_ri (c13_proc_of W' src)) p e0) by (exists l; auto). rewrite (HD src) in H. apply del_entries in H. apply H. }
    destruct e0 as [[g0 la0] ra0]. unfold eg in G3. simpl in G3, G4. subst g0 ra0.
    apply (cs_entries W HW) in E0. destruct E0 as [Hne [Ps Pp]].
    destruct (pubcopy_unique src _ _ ip Ps Hip eq_refl) as [U1 U2].
    unfold pub_sources in H2. simpl in H2. destruct H2 as [<-|H2]; simpl.
    - apply (cs_entries W HW). split; [congruence|]. split; auto. exists ip. auto.
    - apply filter_In in H2. destruct H2 as [H2 H3]. destruct pa as [t c]. simpl in *.
      unfold selfb in H3. simpl in H3. apply negb_true_iff, N.eqb_neq in H3.
      destruct (holders_inv _ _ _ _ H2) as [l1 [e1 [K1 [K2 [K3 K4]]]]].
      assert (E1 : In_rmap (c13_ri (c13_proc_of W src)) t e1).
      { assert (In_rmap (c13_ri (c13_proc_of W' src)) t e1) by (exists l1; auto). rewrite (HD src) in H. apply del_entries in H. apply H. }
      destruct e1 as [[g1 la1] ra1]. unfold eg in K3. simpl in K3, K4. subst g1 ra1.
      apply (cs_entries W HW) in E1. destruct E1 as [_ [_ Pt]].
      apply (cs_entries W HW). split; [congruence|]. split; auto.
  Qed.

  (* every entry of W that p deleted is published to p by the rank that still lists the copy *)
  Lemma deleted_entry_published p q g la ra order :
    (forall s, In s order <-> In s (map fst (c13_ri (c13_proc_of W p)))) ->
    In_rmap (c13_ri (c13_proc_of W p)) q ((g, la), ra) -> D p g = true ->
    from_msgs W' p order q ((g, la), ra) /\
    exists src pb, In src order /\ In pb (c13_message W' src p) /\ In (p, la) (snd pb) /\ pb_g pb = g.
  Proof.
    intros Hord He Hd. apply (cs_entries W HW) in He. destruct He as [Hpq [Pp Pq]].
    destruct Pp as [ip [I1 [I2 [I3 I4]]]]. subst la.
    destruct (HL p ip I1) as [s [es [Hsp [Hes Hg]]]]; [congruence|]. rewrite I2 in Hg.
    (* s still lists p for g in W': its copy of g is alive and its entries for g are all alive *)
    pose proof Hes as Hes'. rewrite (HD s) in Hes'. apply del_entries in Hes'. destruct Hes' as [HesW Hds].
    destruct es as [[g0 as_] b]. unfold eg in Hg, Hds. simpl in Hg, Hds. subst g0.
    apply (cs_entries W HW) in HesW. destruct HesW as [_ [Ps Pp']].
    destruct (pubcopy_unique p g b ip Pp' I1 I2) as [U1 _]. assert (b = c13_a ip) by congruence. subst b.
    destruct Ps as [ips [S1 [S2 [S3 S4]]]].
    assert (S1' : In ips (c13_iset (c13_proc_of W' s))) by (rewrite (HD s); apply del_iset; split; auto; congruence).
    destruct Hes as [ls [L1 L2]].
    destruct (W'_sender_ok s) as [Sg [Sm [Sl Sv]]].
    set (hs := c13_holders g (adv_all g (c13_ri (c13_proc_of W' s)))).
    assert (Hp : In (p, c13_a ip) hs) by (apply (holders_in g _ p ls ((g, as_), c13_a ip)); auto; apply (Sl p); auto).
    assert (Hpb : In (g, c13_a ips, hs) (c13_message W' s p)).
    { unfold c13_message. rewrite pack_all by exact Sg. apply in_flat_map. exists ips. split; auto.
      unfold pub_of. rewrite S2. fold hs.
      assert (Ex : existsb (fun h => fst h =? p) hs = true) by (apply existsb_exists; exists (p, c13_a ip); split; auto; simpl; apply N.eqb_refl).
      rewrite Ex. left; reflexivity. }
    assert (Hso : In s order).
    { apply Hord. assert (Hin : In_rmap (c13_ri (c13_proc_of W p)) s ((g, c13_a ip), as_)).
      { apply (cs_entries W HW). split; auto. split; [exists ip; auto | exists ips; auto]. }
      destruct Hin as [l0 [Hin _]]. apply in_map_iff. exists (s, l0); auto. }
    split; [|exists s, (g, c13_a ips, hs); auto].
    exists s, (g, c13_a ips, hs). split; auto. split; auto.
    exists (c13_a ip). destruct (N.eq_dec q s) as [->|Hqs].
    - exists (s, c13_a ips). split; auto. split; [left; reflexivity|]. simpl. split; auto.
      destruct Pq as [iq [Q1 [Q2 [Q3 Q4]]]].
      assert (iq = ips) by (eapply sglob_key_unique; [apply (cs_iset W HW s) | auto | auto | congruence]). subst. reflexivity.
    - exists (q, ra). split; auto. split; [|auto]. right. apply filter_In. split.
      + (* s knows q holds g, and has not deleted that entry *)
        assert (Hsq : In_rmap (c13_ri (c13_proc_of W' s)) q ((g, c13_a ips), ra)).
        { rewrite (HD s). apply del_entries. split; [|exact Hds]. apply (cs_entries W HW). split; [congruence|]. split; auto. exists ips; auto. }
        destruct Hsq as [lq [Q1 Q2]]. apply (holders_in g _ q lq ((g, c13_a ips), ra)); auto. apply (Sl q); auto.
      + unfold selfb. simpl. apply negb_true_iff, N.eqb_neq. auto.
  Qed.
End Restore.

Lemma renum_key numb D ip : c13_keyof (renum numb D ip) = c13_keyof ip.
Proof. unfold renum. destruct (D (c13_g ip)); reflexivity. Qed.

Lemma renum_istrict numb D l : istrict l -> istrict (map (renum numb D) l).
Proof.
  induction 1 as [|x r Hs IH Hf]; simpl; constructor; auto. rewrite Forall_forall in *. intros y Hy.
  apply in_map_iff in Hy. destruct Hy as [z [<- Hz]]. rewrite !renum_key. apply Hf; auto.
Qed.

Section RestoreMain.
  Variables (W W' : c13_world) (D : N -> N -> bool) (numb : N -> N) (p : N) (order : list N).
  Hypothesis HW : consistent W.
  Hypothesis HD : deleted W W' D.
  Hypothesis HL : still_listed W W' D.
  Hypothesis Hord : forall s, In s order <-> In s (map fst (c13_ri (c13_proc_of W p))).

  Let Wp := c13_proc_of W p.
  Let me := c13_proc_of W' p.

  Lemma restore_no_deadlock : forallb (fun q => c13_lists (c13_proc_of W' q) p) order = true.
  Proof.
    apply forallb_forall. intros q Hq. apply Hord in Hq. apply in_map_iff in Hq. destruct Hq as [[q' l] [E Hl]]. simpl in E. subst q'.
    destruct (cs_lists W HW p q l Hl) as [_ Hne]. destruct l as [|[[g la] ra] l']; [congruence|].
    assert (He : In_rmap (c13_ri (c13_proc_of W p)) q ((g, la), ra)) by (exists (((g, la), ra) :: l'); split; auto; left; auto).
    apply (cs_entries W HW) in He. destruct He as [Hne' [P1 P2]].
    assert (Hs : In_rmap (c13_ri (c13_proc_of W q)) p ((g, ra), la)) by (apply (cs_entries W HW); auto).
    destruct Hs as [l2 [Hl2 _]]. unfold c13_lists. apply existsb_exists.
    assert (Hk : In p (map fst (c13_ri (c13_proc_of W' q)))).
    { rewrite (HD q), del_keys. apply in_map_iff. exists (p, l2); auto. }
    apply in_map_iff in Hk. destruct Hk as [x [Hx1 Hx2]]. exists x. split; auto. apply N.eqb_eq; auto.
  Qed.

  Theorem P_restore : exists ptrs,
    c13_sync_rank c13_fixed numb W' p order = C13Ok (map (renum numb (D p)) (c13_iset Wp)) (c13_ri Wp) ptrs /\
    forall q l, In (q, l) (c13_ri Wp) ->
      exists ps, In (q, C13Ptrs ps) ptrs /\ Forall2 (fun e k => ptr_to (map (renum numb (D p)) (c13_iset Wp)) (fst e) k) l ps.
  Proof.
    destruct (sender_proc_ok _ (W'_sender_ok W W' D HW HD p)) as [Hme Hstrict]. fold me in Hme, Hstrict.
    assert (Hglob : forall q, sglob (c13_iset (c13_proc_of W' q))) by (apply (W'_sglob W W' D HW HD)).
    assert (Hag : agree_entries (att_of W) p (c13_ri me)) by (apply (W'_agree W W' D HW HD p)).
    assert (Hso : senders_ok W' (att_of W) order) by (intros s _; split; [apply (W'_sender_ok W W' D HW HD) | apply (W'_agree W W' D HW HD)]).
    destruct (recv_char numb W' p (att_of W) Hme Hstrict Hglob Hag order Hso) as [W1 [C1 [A1 [K1 L1]]]].
    set (st := c13_recv_all c13_fixed numb W' p order) in *.
    set (iset_f := c13_merge (c13_iset me) (c13_sort (rs_added st))).
    assert (Eq0 : c13_sync_rank c13_fixed numb W' p order = C13Ok iset_f (rs_ri st)
              (map (fun x => (fst x, c13_repair_list (c13_repair_fuel iset_f) iset_f (snd x) 0)) (rs_ri st))).
    { unfold c13_sync_rank. rewrite restore_no_deadlock. reflexivity. }
    assert (Hme_iset : forall x, In x (c13_iset me) <-> In x (c13_iset Wp) /\ D p (c13_g x) = false).
    { intros x. unfold me. rewrite (HD p). apply del_iset. }
    assert (Hme_ri : forall q e, In_rmap (c13_ri me) q e <-> In_rmap (c13_ri Wp) q e /\ D p (eg e) = false).
    { intros q e. unfold me. rewrite (HD p). apply del_entries. }
    (* ---- remote lists *)
    assert (Eri : rs_ri st = c13_ri Wp).
    { apply rmap_ext; auto; try apply W1; try apply (cs_map W HW).
      - intros q. unfold st, c13_recv_all. rewrite recv_all_keys. simpl. fold me. unfold me at 1. rewrite (HD p), del_keys. fold Wp.
        split; [|auto]. intros [H|[src [pb [H1 [H2 [pa [H3 H4]]]]]]]; auto.
        pose proof (pack_self _ _ _ _ H2) as Hself. apply existsb_exists in Hself. destruct Hself as [[r' m] [S1 S2]].
        unfold selfb in S2. simpl in S2. apply N.eqb_eq in S2. subst r'.
        assert (Hpub : published p src pb q ((fst (fst pb), m), snd pa)) by (exists m, pa; auto).
        pose proof (published_sound W W' D HW HD p src pb q _ H2 Hpub) as [l [G1 _]].
        apply in_map_iff. exists (q, l); auto.
      - intros q e. rewrite C1. split.
        + intros [H|[src [pb [H1 [H2 H3]]]]]; [apply Hme_ri in H; apply H | eapply published_sound; eauto].
        + intros He. destruct e as [[g la] ra]. destruct (D p g) eqn:Ed.
          * right. apply (deleted_entry_published W W' D HW HD HL p q g la ra order Hord He Ed).
          * left. apply Hme_ri. split; auto.
      - intros q l Hl. apply lglob_strict. apply (cs_lists W HW p q l Hl). }
    (* ---- index set *)
    assert (Eis : iset_f = map (renum numb (D p)) (c13_iset Wp)).
    { destruct (P_rank_iset_strict _ _ _ _ _ _ _ Hstrict Hglob Eq0) as [S1 _].
      apply istrict_ext; auto; [apply renum_istrict, sglob_istrict, (cs_iset W HW)|].
      assert (Hperm : Permutation iset_f (c13_iset me ++ rs_added st)).
      { unfold iset_f. rewrite merge_perm. apply Permutation_app_head. apply sort_perm. }
      assert (Hold_nokey : forall g a, D p g = true -> ~ has_key (c13_iset me) (g, a)).
      { intros g a Hd [x [Hx Hk]]. apply Hme_iset in Hx. unfold c13_keyof in Hk. inversion Hk. subst. destruct Hx; congruence. }
      intros x. split.
      - intros Hx. apply (Permutation_in _ Hperm) in Hx. apply in_app_or in Hx. destruct Hx as [Hx|Hx].
        + apply Hme_iset in Hx. destruct Hx as [Hx Hd]. apply in_map_iff. exists x. split; [unfold renum; rewrite Hd; reflexivity | exact Hx].
        + destruct (proj1 (K1 (c13_keyof x)) (ex_intro _ x (conj Hx eq_refl))) as [Hn [src [pb [H1 [H2 [H3 H4]]]]]].
          simpl in H3, H4.
          assert (Hpub : published p src pb src ((fst (fst pb), c13_a x), snd (fst pb))).
          { exists (c13_a x), (src, snd (fst pb)). split; auto. split; [left; reflexivity | auto]. }
          pose proof (published_sound W W' D HW HD p src pb src _ H2 Hpub) as Hin.
          apply (cs_entries W HW) in Hin. destruct Hin as [_ [[ip [P1 [P2 [P3 P4]]]] _]].
          unfold pb_g in H4. rewrite H4 in P2.
          assert (Hd : D p (c13_g ip) = true).
          { destruct (D p (c13_g ip)) eqn:Ed; auto. exfalso. apply Hn. exists ip. split; [apply Hme_iset; auto|].
            unfold c13_keyof. congruence. }
          apply in_map_iff. exists ip. split; auto. unfold renum. rewrite Hd.
          destruct (a_shape _ _ _ A1 x Hx) as [X1 X2]. destruct x; simpl in *. congruence.
      - intros Hx. apply in_map_iff in Hx. destruct Hx as [ip [<- Hip]]. unfold renum. destruct (D p (c13_g ip)) eqn:Ed.
        + destruct (HL p ip Hip Ed) as [s [es [Hsp [Hes Hg]]]].
          rewrite (HD s) in Hes. apply del_entries in Hes. destruct Hes as [Hes _].
          destruct es as [[g0 as_] b]. unfold eg in Hg. simpl in Hg. subst g0.
          apply (cs_entries W HW) in Hes. destruct Hes as [_ [Ps Pp]].
          destruct (pubcopy_unique W HW p _ _ ip Pp Hip eq_refl) as [U1 U2].
          assert (Hent : In_rmap (c13_ri (c13_proc_of W p)) s ((c13_g ip, c13_a ip), as_)).
          { apply (cs_entries W HW). split; auto. split; auto. exists ip; auto. }
          destruct (deleted_entry_published W W' D HW HD HL p s _ _ _ order Hord Hent Ed) as [_ [src [pb [H1 [H2 [H3 H4]]]]]].
          assert (Hk : has_key (rs_added st) (c13_g ip, c13_a ip)).
          { apply K1. split; [apply Hold_nokey; auto|]. exists src, pb. simpl. auto. }
          destruct Hk as [x [Hx Hk]]. apply (Permutation_in _ (Permutation_sym Hperm)). apply in_or_app. right.
          assert (Ex : x = C13Pair (c13_g ip) (c13_a ip) (numb (c13_g ip)) true).
          { apply (pair_shape_eq numb); [exact Hk | apply (a_shape _ _ _ A1 x Hx) | simpl; auto]. }
          rewrite <- Ex. exact Hx.
        + apply (Permutation_in _ (Permutation_sym Hperm)). apply in_or_app. left. apply Hme_iset. auto. }
    rewrite <- Eis, <- Eri. eexists. split; [exact Eq0|].
    intros q l Hl. apply (P_rank_repair _ _ _ _ _ _ _ Hme Eq0 q l Hl). apply L1 with q; auto.
  Qed.
End RestoreMain.

(* sync on a consistent world changes nothing (C13_restore with the empty deletion): the second of two syncs is idle *)
Lemma renum_none numb l : map (renum numb (fun _ => false)) l = l.
Proof. induction l as [|x r IH]; simpl; [reflexivity|]. rewrite IH. reflexivity. Qed.

Lemma del_none pr : del_proc (fun _ => false) pr = pr.
Proof.
  destruct pr as [iset ri]. unfold del_proc. simpl. f_equal.
  - induction iset as [|x r IH]; simpl; [reflexivity|]. rewrite IH. reflexivity.
  - induction ri as [|[q l] r IH]; simpl; [reflexivity|]. rewrite IH. f_equal. f_equal.
    induction l as [|e l' IHl]; simpl; [reflexivity|]. rewrite IHl. reflexivity.
Qed.

Lemma P_sync_idempotent W numb p order : consistent W ->
  (forall s, In s order <-> In s (map fst (c13_ri (c13_proc_of W p)))) ->
  exists ptrs, c13_sync_rank c13_fixed numb W p order = C13Ok (c13_iset (c13_proc_of W p)) (c13_ri (c13_proc_of W p)) ptrs.
Proof.
  intros HW Hord.
  destruct (P_restore W W (fun _ _ => false) numb p order HW) as [ptrs [H _]]; auto.
  - intros q. rewrite del_none. reflexivity.
  - intros q ip _ Hd. discriminate.
  - exists ptrs. rewrite renum_none in H. exact H.
Qed.
