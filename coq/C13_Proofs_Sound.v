(* C13 — lemmas and proofs, part 6: nothing is invented.  Every remote entry present after sync was present before
   or is a fact some neighbour published to us; every pair of the new index set is an old pair or a published one. *)
From Coq Require Import List NArith Bool Lia Sorted Permutation.
From DuneV Require Import C13_Model C13_Spec C13_Proofs C13_Proofs_Recv C13_Proofs_Sync.
Import ListNotations.
Local Open Scope N_scope.

(* the entry ((g, myattr), a) under key proc is what publication pb received from `source` says *)
Definition published (rank_ source : N) (pb : c13_publication) (q : N) (e : c13_rentry) : Prop :=
  exists myattr pa, In (rank_, myattr) (snd pb) /\ In pa (pub_sources rank_ source pb) /\
                    q = fst pa /\ e = ((fst (fst pb), myattr), snd pa).

Lemma fold_insert_from v key srcl : forall m q e,
  In_rmap (fold_left (fun m pa => c13_map_insert v (fst pa) key (snd pa) m) srcl m) q e ->
  In_rmap m q e \/ exists pa, In pa srcl /\ q = fst pa /\ e = (key, snd pa).
Proof.
  induction srcl as [|pa r IH]; simpl; intros m q e H; auto.
  destruct (IH _ _ _ H) as [H'|[pa' [H1 H2]]].
  - apply map_insert_inv in H'. destruct H' as [|[-> ->]]; auto. right. exists pa. auto.
  - right. exists pa'. auto.
Qed.

Lemma unpack_one_from v rank_ numb source idx st pb idx' st' :
  existsb (selfb rank_) (snd pb) = true ->
  c13_unpack_one v rank_ numb source (idx, st) pb = (idx', st') ->
  forall q e, In_rmap (rs_ri st') q e -> In_rmap (rs_ri st) q e \/ published rank_ source pb q e.
Proof.
  intros Hself. unfold c13_unpack_one. simpl.
  destruct (c13_pairs_loop v rank_ numb (fst (fst pb)) (snd pb) idx (rs_added st) 0 [(source, snd (fst pb))])
    as [[[i1 a1] m1] s1] eqn:El.
  intros Heq. inversion Heq; subst idx' st'; clear Heq. simpl. intros q e He.
  destruct (pairs_loop_spec _ _ _ _ idx _ _ _ _ _ _ _ _ _ (incl_refl idx) El) as [_ [_ [H3 [_ [H5 _]]]]].
  apply fold_insert_from in He. destruct He as [|[pa [P1 [P2 P3]]]]; auto.
  right. exists m1, pa. split; [apply H5; exact Hself|]. split; [rewrite H3 in P1; exact P1|]. auto.
Qed.

Lemma receive_from v rank_ numb source : forall msg idx st,
  (forall pb, In pb msg -> existsb (selfb rank_) (snd pb) = true) ->
  forall q e, In_rmap (rs_ri (snd (fold_left (c13_unpack_one v rank_ numb source) msg (idx, st)))) q e ->
  In_rmap (rs_ri st) q e \/ exists pb, In pb msg /\ published rank_ source pb q e.
Proof.
  induction msg as [|pb r IH]; simpl; intros idx st Hself q e He; auto.
  destruct (c13_unpack_one v rank_ numb source (idx, st) pb) as [idx1 st1] eqn:E1.
  destruct (IH idx1 st1 (fun pb' H => Hself pb' (or_intror H)) q e He) as [H|[pb' [H1 H2]]].
  - destruct (unpack_one_from _ _ _ _ _ _ _ _ _ (Hself pb (or_introl eq_refl)) E1 q e H) as [|]; auto.
    right. exists pb. auto.
  - right. exists pb'. auto.
Qed.

Lemma recv_all_from v numb w rank_ old : forall order st q e,
  In_rmap (rs_ri (fold_left (fun st s => c13_receive v rank_ numb old st s (c13_message w s rank_)) order st)) q e ->
  In_rmap (rs_ri st) q e \/
  exists src pb, In src order /\ In pb (c13_message w src rank_) /\ published rank_ src pb q e.
Proof.
  induction order as [|s r IH]; simpl; intros st q e He; auto.
  destruct (IH _ q e He) as [H|[src [pb [H1 [H2 H3]]]]].
  - unfold c13_receive in H. apply receive_from in H; [|intros pb Hpb; eapply pack_self; eauto].
    destruct H as [|[pb [H1 H2]]]; auto. right. exists s, pb. auto.
  - right. exists src, pb. auto.
Qed.

(* any variant of the model, any order: remote entries after sync are old entries or published facts *)
Lemma P_rank_no_junk v numb w r order iset' ri' ptrs :
  c13_sync_rank v numb w r order = C13Ok iset' ri' ptrs ->
  forall q e, In_rmap ri' q e ->
    In_rmap (c13_ri (c13_proc_of w r)) q e \/
    exists src pb, In src order /\ In pb (c13_message w src r) /\ published r src pb q e.
Proof.
  unfold c13_sync_rank. destruct (forallb _ order); [|discriminate]. intros Heq. inversion Heq; subst; clear Heq.
  intros q e He. unfold c13_recv_all in He. apply recv_all_from in He. exact He.
Qed.
