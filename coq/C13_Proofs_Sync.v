(* C13 — lemmas and proofs, part 3: packAndSend, endResize (sort + merge), the receive phase of a rank,
   sorted_valid and monotone for one rank of the repaired model. *)
From Coq Require Import List NArith Bool Lia Sorted Permutation.
From DuneV Require Import C13_Model C13_Spec C13_Proofs C13_Proofs_Recv.
Import ListNotations.
Local Open Scope N_scope.

(* every packed publication lists the destination itself (assert(foundSelf) in recvAndUnpack) *)
Lemma pack_self dest : forall iset its pb, In pb (c13_pack dest iset its) -> existsb (selfb dest) (snd pb) = true.
Proof.
  induction iset as [|ip rest IH]; simpl; intros its pb H; [contradiction|].
  match type of H with In _ (if ?c then _ else _) => destruct c eqn:E end.
  - destruct H as [<-|H]; [exact E | eapply IH; eauto].
  - eapply IH; eauto.
Qed.

(* ------------------------------------------------------------------ sort and merge *)
Definition isorted (l : list c13_pair) : Prop := StronglySorted (fun a b => kle (c13_keyof a) (c13_keyof b)) l.

Lemma sort_insert_perm x l : Permutation (c13_sort_insert x l) (x :: l).
Proof.
  induction l as [|y r IH]; simpl; auto.
  destruct (c13_key_lt (c13_keyof y) (c13_keyof x)); auto.
  rewrite IH. apply perm_swap.
Qed.
Lemma sort_perm l : Permutation (c13_sort l) l.
Proof. induction l as [|x r IH]; simpl; auto. rewrite sort_insert_perm. auto. Qed.

Lemma sort_insert_sorted x l : isorted l -> isorted (c13_sort_insert x l).
Proof.
  induction l as [|y r IH]; simpl; intros Hs.
  - constructor; constructor.
  - destruct (c13_key_lt (c13_keyof y) (c13_keyof x)) eqn:E.
    + inversion Hs; subst. constructor; [apply IH; exact H1|]. apply Forall_forall. intros z Hz.
      apply (Permutation_in _ (sort_insert_perm x r)) in Hz. destruct Hz as [<-|Hz].
      * apply klt_kle, key_lt_spec; auto.
      * rewrite Forall_forall in H2; auto.
    + apply key_lt_false in E. constructor; auto. apply Forall_forall. intros z [<-|Hz]; auto.
      inversion Hs; subst. rewrite Forall_forall in H2. eapply kle_trans; [exact E | auto].
Qed.
Lemma sort_sorted l : isorted (c13_sort l).
Proof. induction l; simpl; [constructor | apply sort_insert_sorted; auto]. Qed.

Lemma merge_nil_r old : c13_merge old [] = old.
Proof. destruct old; reflexivity. Qed.
Lemma merge_cons o old' n added' :
  c13_merge (o :: old') (n :: added') =
  if c13_key_lt (c13_keyof o) (c13_keyof n) then o :: c13_merge old' (n :: added') else n :: c13_merge (o :: old') added'.
Proof. reflexivity. Qed.

Lemma merge_perm : forall old added, Permutation (c13_merge old added) (old ++ added).
Proof.
  induction old as [|o old' IH]; intros added; [reflexivity|].
  induction added as [|n added' IHa].
  - rewrite merge_nil_r, app_nil_r. reflexivity.
  - rewrite merge_cons. destruct (c13_key_lt (c13_keyof o) (c13_keyof n)).
    + simpl. constructor. apply IH.
    + rewrite IHa. simpl. rewrite <- Permutation_middle. apply perm_swap.
Qed.

Lemma merge_sorted : forall old added, isorted old -> isorted added -> isorted (c13_merge old added).
Proof.
  induction old as [|o old' IH]; intros added Ho Ha; [exact Ha|].
  induction added as [|n added' IHa].
  - rewrite merge_nil_r; auto.
  - rewrite merge_cons. destruct (c13_key_lt (c13_keyof o) (c13_keyof n)) eqn:E.
    + inversion Ho; subst. constructor; [apply IH; auto|].
      apply Forall_forall. intros z Hz. apply (Permutation_in _ (merge_perm _ _)) in Hz.
      apply in_app_or in Hz. destruct Hz as [Hz|[<-|Hz]].
      * rewrite Forall_forall in H2; auto.
      * apply klt_kle, key_lt_spec; auto.
      * inversion Ha; subst. rewrite Forall_forall in H4. eapply kle_trans; [apply klt_kle, key_lt_spec; exact E | auto].
    + apply key_lt_false in E. inversion Ha; subst. constructor; [apply IHa; auto|].
      apply Forall_forall. intros z Hz. apply (Permutation_in _ (merge_perm _ _)) in Hz.
      apply in_app_or in Hz. destruct Hz as [[<-|Hz]|Hz].
      * exact E.
      * inversion Ho; subst. rewrite Forall_forall in H4. eapply kle_trans; [exact E | auto].
      * rewrite Forall_forall in H2; auto.
Qed.

(* ------------------------------------------------------------------ the receive phase of one rank *)
Definition proc_ok (pr : c13_proc) : Prop :=
  isorted (c13_iset pr) /\ rmap_wf (c13_ri pr) /\
  forall q e, In_rmap (c13_ri pr) q e -> has_key (c13_iset pr) (fst e).

Lemma recv_all_inv numb w rank_ old : forall order st,
  RInv old st ->
  let res := fold_left (fun st q => c13_receive c13_fixed rank_ numb old st q (c13_message w q rank_)) order st in
  RInv old res /\ incl (rs_added st) (rs_added res) /\
  (forall q e, In_rmap (rs_ri st) q e -> In_rmap (rs_ri res) q e) /\
  (forall q pb, In q order -> In pb (c13_message w q rank_) -> pub_post old rank_ q pb res).
Proof.
  induction order as [|q r IH]; simpl; intros st Hinv.
  - split; [exact Hinv|]. split; [apply incl_refl|]. split; [auto|]. intros q pb [].
  - unfold c13_receive at 2.
    pose proof (receive_inv rank_ numb q old (c13_message w q rank_) old st (incl_refl _) Hinv
                  (fun pb H => pack_self _ _ _ _ H)) as R. simpl in R.
    destruct R as [_ [R2 [R3 [R4 R5]]]].
    set (st1 := snd (fold_left (c13_unpack_one c13_fixed rank_ numb q) (c13_message w q rank_) (old, st))) in *.
    destruct (IH st1 R2) as [I1 [I2 [I3 I4]]].
    split; [exact I1|]. split; [eapply incl_tran; eauto|]. split; [auto|].
    intros q' pb [<-|Hq] Hpb; [|auto].
    eapply pub_post_mono; [exact I2 | exact I3 | auto].
Qed.

Lemma has_key_perm l l' k : Permutation l l' -> has_key l k -> has_key l' k.
Proof. intros Hp [p [H1 H2]]. exists p. split; auto. eapply Permutation_in; eauto. Qed.

(* sorted_valid (lists and keys) and monotone for one rank; any processing order *)
Lemma P_rank_sorted_valid_monotone numb w r order iset' ri' ptrs :
  proc_ok (c13_proc_of w r) ->
  c13_sync_rank c13_fixed numb w r order = C13Ok iset' ri' ptrs ->
  isorted iset' /\ rmap_wf ri' /\
  (forall q e, In_rmap ri' q e -> has_key iset' (fst e)) /\
  (forall p, In p (c13_iset (c13_proc_of w r)) -> In p iset') /\
  (forall q e, In_rmap (c13_ri (c13_proc_of w r)) q e -> In_rmap ri' q e).
Proof.
  intros [Hs [Hwf Hval]]. unfold c13_sync_rank.
  destruct (forallb _ order); [|discriminate]. intros Heq. inversion Heq; subst; clear Heq.
  set (me := c13_proc_of w r) in *. unfold c13_recv_all. fold me.
  assert (Hinit : RInv (c13_iset me) (C13RState [] (c13_ri me))).
  { constructor; simpl; auto. intros q e He. rewrite app_nil_r. exact (Hval q e He). }
  destruct (recv_all_inv numb w r (c13_iset me) order _ Hinit) as [[I1 I1'] [I2 [I3 I4]]].
  set (st := fold_left _ order _) in *.
  assert (Hperm : Permutation (c13_merge (c13_iset me) (c13_sort (rs_added st))) (c13_iset me ++ rs_added st)).
  { rewrite merge_perm. apply Permutation_app_head. apply sort_perm. }
  split; [apply merge_sorted; auto using sort_sorted|]. split; [exact I1|]. split; [|split].
  - intros q e He. eapply has_key_perm; [symmetry; exact Hperm|]. exact (I1' q e He).
  - intros p Hp. eapply Permutation_in; [symmetry; exact Hperm|]. apply in_or_app; auto.
  - exact I3.
Qed.
