(* C13 — part 15: the world a restoring sync produces is again consistent, so a second sync on it is idle. *)
From Coq Require Import List NArith Bool Lia Sorted Permutation Arith PeanoNat.
From DuneV Require Import Params_gen C13_Model C13_Spec C13_Proofs C13_Proofs_Recv C13_Proofs_Sync C13_Proofs_Completion C13_Proofs_Sound
  C13_Proofs_Iset C13_Proofs_Repair C13_Proofs_Char C13_Proofs_Order C13_Proofs_RestoreFull C13_Proofs_World.
Import ListNotations.
Local Open Scope N_scope.

Definition restored_proc (numb : N -> N) (D : N -> bool) (pr : c13_proc) : c13_proc :=
  C13Proc (map (renum numb D) (c13_iset pr)) (c13_ri pr).
(* rank p of the restored world is rank p of W with the re-added pairs renumbered (also beyond the last rank: both empty) *)
Definition is_restored (W W2 : c13_world) (D : N -> N -> bool) (numb : N -> N -> N) : Prop :=
  forall p, c13_proc_of W2 p = restored_proc (numb p) (D p) (c13_proc_of W p).

Lemma renum_g numb D ip : c13_g (renum numb D ip) = c13_g ip.
Proof. unfold renum. destruct (D (c13_g ip)); reflexivity. Qed.
Lemma renum_a numb D ip : c13_a (renum numb D ip) = c13_a ip.
Proof. unfold renum. destruct (D (c13_g ip)); reflexivity. Qed.

Lemma renum_sglob numb D l : sglob l -> sglob (map (renum numb D) l).
Proof.
  induction 1 as [|x r Hs IH Hf]; simpl; constructor; auto. rewrite Forall_forall in *. intros y Hy.
  apply in_map_iff in Hy. destruct Hy as [z [<- Hz]]. rewrite !renum_g. apply Hf; auto.
Qed.

Lemma P_restored_consistent W W' W2 D numb :
  consistent W -> deleted W W' D -> still_listed W W' D -> is_restored W W2 D numb -> consistent W2.
Proof.
  intros HW HD HL HR.
  assert (Hpub : forall p g a, pubcopy W2 p g a <-> pubcopy W p g a).
  { intros p g a. unfold pubcopy. rewrite (HR p). simpl. split.
    - intros [ip' [H1 [H2 [H3 H4]]]]. apply in_map_iff in H1. destruct H1 as [ip [E Hip]]. subst ip'.
      rewrite renum_g in H2. rewrite renum_a in H3. exists ip. repeat split; auto.
      unfold renum in H4. destruct (D p (c13_g ip)) eqn:Ed; auto.
      (* a deleted copy that is still listed was public *)
      destruct (HL p ip Hip Ed) as [s [es [_ [Hes Hg]]]]. rewrite (HD s) in Hes. apply del_entries in Hes. destruct Hes as [Hes _].
      destruct es as [[g0 as_] b]. unfold eg in Hg. simpl in Hg. subst g0.
      apply (cs_entries W HW) in Hes. destruct Hes as [_ [_ Pp]].
      apply (pubcopy_unique W HW p _ _ ip Pp Hip eq_refl).
    - intros [ip [H1 [H2 [H3 H4]]]]. exists (renum (numb p) (D p) ip). split; [apply in_map; auto|].
      rewrite renum_g, renum_a. repeat split; auto. unfold renum. destruct (D p (c13_g ip)); auto. }
  constructor.
  - intros p. rewrite (HR p). simpl. apply renum_sglob. apply (cs_iset W HW).
  - intros p. rewrite (HR p). simpl. apply (cs_map W HW).
  - intros p q l. rewrite (HR p). simpl. apply (cs_lists W HW).
  - intros p q g la ra. rewrite !Hpub. rewrite (HR p). simpl. apply (cs_entries W HW).
Qed.

(* sync restores W (up to the numbers of the re-added pairs) and a second sync -- any numberer, any order -- changes nothing *)
Lemma P_restore_then_idle W W' W2 D numb numb2 p order order2 :
  consistent W -> deleted W W' D -> still_listed W W' D -> is_restored W W2 D numb ->
  (forall s, In s order <-> In s (map fst (c13_ri (c13_proc_of W p)))) ->
  (forall s, In s order2 <-> In s (map fst (c13_ri (c13_proc_of W p)))) ->
  (exists ptrs, c13_sync_rank c13_fixed (numb p) W' p order =
                C13Ok (c13_iset (c13_proc_of W2 p)) (c13_ri (c13_proc_of W2 p)) ptrs) /\
  (exists ptrs, c13_sync_rank c13_fixed numb2 W2 p order2 =
                C13Ok (c13_iset (c13_proc_of W2 p)) (c13_ri (c13_proc_of W2 p)) ptrs).
Proof.
  intros HW HD HL HR Ho Ho2. split.
  - destruct (P_restore W W' D (numb p) p order HW HD HL Ho) as [ptrs [H _]]. exists ptrs. rewrite H, (HR p). reflexivity.
  - apply P_sync_idempotent; [eapply P_restored_consistent; eauto|]. rewrite (HR p). simpl. exact Ho2.
Qed.

(* a consistent world is determined by its index sets: a rebuild after sync (which yields a consistent world, C04) on the synced
   sets returns exactly the synced remote lists -- what the harness observes with hist=1 *)
Lemma pubcopy_same_isets W1 W2 : (forall p, c13_iset (c13_proc_of W1 p) = c13_iset (c13_proc_of W2 p)) ->
  forall p g a, pubcopy W1 p g a <-> pubcopy W2 p g a.
Proof. intros H p g a. unfold pubcopy. rewrite (H p). reflexivity. Qed.

Lemma P_consistent_unique W1 W2 : consistent W1 -> consistent W2 ->
  (forall p, c13_iset (c13_proc_of W1 p) = c13_iset (c13_proc_of W2 p)) ->
  forall p, c13_ri (c13_proc_of W1 p) = c13_ri (c13_proc_of W2 p).
Proof.
  intros H1 H2 Hi p.
  assert (Hent : forall q e, In_rmap (c13_ri (c13_proc_of W1 p)) q e <-> In_rmap (c13_ri (c13_proc_of W2 p)) q e).
  { intros q [[g la] ra]. rewrite (cs_entries W1 H1), (cs_entries W2 H2), !(pubcopy_same_isets W1 W2 Hi). reflexivity. }
  assert (Hkeys : forall Wa Wb, consistent Wa -> consistent Wb ->
            (forall q e, In_rmap (c13_ri (c13_proc_of Wa p)) q e -> In_rmap (c13_ri (c13_proc_of Wb p)) q e) ->
            forall q, In q (map fst (c13_ri (c13_proc_of Wa p))) -> In q (map fst (c13_ri (c13_proc_of Wb p)))).
  { intros Wa Wb Ha Hb He q Hq. apply in_map_iff in Hq. destruct Hq as [[q' l] [E Hl]]. simpl in E. subst q'.
    destruct (cs_lists Wa Ha p q l Hl) as [_ Hne]. destruct l as [|e l']; [congruence|].
    destruct (He q e (ex_intro _ (e :: l') (conj Hl (or_introl eq_refl)))) as [l2 [G1 _]].
    apply in_map_iff. exists (q, l2); auto. }
  apply rmap_ext.
  - apply (cs_map W1 H1).
  - apply (cs_map W2 H2).
  - intros q. split; [apply (Hkeys W1 W2 H1 H2) | apply (Hkeys W2 W1 H2 H1)]; intros q' e; apply Hent.
  - exact Hent.
  - intros q l Hl. apply lglob_strict. apply (cs_lists W1 H1 p q l Hl).
  - intros q l Hl. apply lglob_strict. apply (cs_lists W2 H2 p q l Hl).
Qed.
