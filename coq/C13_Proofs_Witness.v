(* C13 — concrete witnesses (vm_compute): the two warts of the tree as it is, and non-vacuity of the repaired model. *)
From Coq Require Import List NArith Bool.
From DuneV Require Import C13_Model C13_Spec.
Import ListNotations.
Local Open Scope N_scope.

(* corpus/C13 line 1: two ranks, owner/overlap, nothing deleted *)
Definition c13_w1 : c13_world :=
  [ C13Proc [C13Pair 0 1 0 true; C13Pair 1 1 1 true; C13Pair 2 2 2 true] [(1, [((1, 1), 2); ((2, 2), 1)])];
    C13Proc [C13Pair 1 2 0 true; C13Pair 2 1 1 true; C13Pair 3 1 2 true] [(0, [((1, 2), 1); ((2, 1), 2)])] ].
(* corpus/C13 line 3: global 5 with equal attributes on three ranks, rank 1 has deleted its copy and its remote entries *)
Definition c13_w3 : c13_world :=
  [ C13Proc [C13Pair 5 2 0 true] [(1, [((5, 2), 2)]); (2, [((5, 2), 2)])];
    C13Proc [] [(0, []); (2, [])];
    C13Proc [C13Pair 5 2 0 true] [(0, [((5, 2), 2)]); (1, [((5, 2), 2)])] ].
(* third-party knowledge with differing attributes: global 7 owner on 0, overlap on 1, copy on 2; rank 2 deleted its copy *)
Definition c13_w4 : c13_world :=
  [ C13Proc [C13Pair 7 1 0 true; C13Pair 9 1 1 true] [(1, [((7, 1), 2)]); (2, [((7, 1), 3)])];
    C13Proc [C13Pair 7 2 0 true] [(0, [((7, 2), 1)]); (2, [((7, 2), 3)])];
    C13Proc [C13Pair 8 1 1 true] [(0, []); (1, [])] ].
Definition c13_w4_orig : c13_world :=
  [ C13Proc [C13Pair 7 1 0 true; C13Pair 9 1 1 true] [(1, [((7, 1), 2)]); (2, [((7, 1), 3)])];
    C13Proc [C13Pair 7 2 0 true] [(0, [((7, 2), 1)]); (2, [((7, 2), 3)])];
    C13Proc [C13Pair 7 3 0 true; C13Pair 8 1 1 true] [(0, [((7, 3), 1)]); (1, [((7, 3), 2)])] ].

Definition c13_numb0 : N -> N -> N := fun _ _ => 0.
Definition c13_all_ok (rs : list c13_result) : bool :=
  forallb (fun r => match c13_obs_of_result r with Some o => c13_sorted_valid_b o | None => false end) rs.
Definition c13_obs_list (rs : list c13_result) : list c13_obs :=
  map (fun r => match c13_obs_of_result r with Some o => o | None => C13Obs [] [] [] false end) rs.
Definition c13_in_obs (w : c13_world) : list c13_obs :=
  map (fun pr => C13Obs (c13_iset pr) (c13_ri pr) [] true) w.

Lemma W_asis_sorted_valid_refuted :
  exists w numb sigma, forallb c13_proc_ok_b w = true /\ c13_all_ok (c13_sync c13_asis numb w sigma) = false /\
    exists r iset ri q, nth_error (c13_sync c13_asis numb w sigma) r = Some (C13Ok iset ri [(q, C13PastEnd)]).
Proof.
  exists c13_w1, c13_numb0, (c13_fixed_order c13_w1). split; [vm_compute; reflexivity|]. split; [vm_compute; reflexivity|].
  exists 0%nat. eexists. eexists. eexists. vm_compute. reflexivity.
Qed.

Lemma W_asis_index_added_twice :
  exists w numb sigma r iset ri ptrs, forallb c13_proc_ok_b w = true /\
    nth_error (c13_sync c13_asis numb w sigma) r = Some (C13Ok iset ri ptrs) /\ c13_iset_ok iset = false.
Proof.
  exists c13_w3, c13_numb0, (c13_fixed_order c13_w3), 1%nat. eexists. eexists. eexists.
  split; [vm_compute; reflexivity|]. split; [vm_compute; reflexivity|]. vm_compute. reflexivity.
Qed.

(* the repaired model on the same worlds, and a restore with third-party knowledge *)
Lemma W_fixed_w1 : c13_all_ok (c13_sync c13_fixed c13_numb0 c13_w1 (c13_fixed_order c13_w1)) = true /\
  map c13_proc_of_obs (c13_obs_list (c13_sync c13_fixed c13_numb0 c13_w1 (c13_fixed_order c13_w1))) = c13_w1.
Proof. repeat split; vm_compute; reflexivity. Qed.
Lemma W_fixed_w3 : c13_all_ok (c13_sync c13_fixed c13_numb0 c13_w3 (c13_fixed_order c13_w3)) = true.
Proof. vm_compute; reflexivity. Qed.
Lemma W_fixed_w4_restores :
  forallb c13_proc_ok_b c13_w4 = true /\
  c13_restore_pre (c13_in_obs c13_w4_orig) (c13_in_obs c13_w4) = true /\
  map c13_proc_of_obs (c13_obs_list (c13_sync c13_fixed c13_numb0 c13_w4 (c13_fixed_order c13_w4))) = c13_w4_orig /\
  map c13_proc_of_obs (c13_obs_list (c13_sync c13_fixed c13_numb0 c13_w4 (fun r => rev (c13_fixed_order c13_w4 r)))) = c13_w4_orig /\
  c13_completion_b (c13_in_obs c13_w4) (c13_obs_list (c13_sync c13_fixed c13_numb0 c13_w4 (c13_fixed_order c13_w4))) = true.
Proof. repeat split; vm_compute; reflexivity. Qed.

(* DESIGN section 5 remark: two remote entries that refer to the LAST pair of the set make the pointer repair
   dereference end() (the wrap-around test reads index->global() after ++index); the same happens for the last but one pair.  Such a list arises when a neighbour
   holds one global index under two attributes (outside the property's decompositions) or through wart C13-1. *)
Lemma W_repair_last_pair_twice :
  c13_repair_list 10 [C13Pair 3 1 0 true; C13Pair 5 1 1 true] [((5, 1), 2); ((5, 1), 3)] 0 = C13PastEnd /\
  c13_repair_list 10 [C13Pair 3 1 0 true; C13Pair 5 1 1 true; C13Pair 6 1 2 true] [((5, 1), 2); ((5, 1), 3)] 0 = C13PastEnd /\
  c13_repair_list 10 [C13Pair 3 1 0 true; C13Pair 5 1 1 true; C13Pair 6 1 2 true; C13Pair 7 1 3 true] [((5, 1), 2); ((5, 1), 3)] 0 = C13Ptrs [1%nat; 1%nat].
Proof. repeat split; vm_compute; reflexivity. Qed.
