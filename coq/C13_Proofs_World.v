(* C13 — part 12: statements about the WHOLE world (c13_sync: every rank, any process count, any neighbour graph), the tie of
   the model's variant to the source, sequence numbers, pointers under the one-copy-per-rank agreement. *)
From Coq Require Import List NArith Bool Lia Sorted Permutation Arith PeanoNat.
From DuneV Require Import Params_gen C13_Model C13_Spec C13_Proofs C13_Proofs_Recv C13_Proofs_Sync C13_Proofs_Completion C13_Proofs_Sound
  C13_Proofs_Iset C13_Proofs_Repair C13_Proofs_Char C13_Proofs_Order C13_Proofs_RestoreFull.
Import ListNotations.
Local Open Scope N_scope.

(* ---- the source is the repaired variant; the three tags agree; the default numberer; isSynced *)
Lemma P_tree_is_fixed : c13_tree = c13_fixed.
Proof. reflexivity. Qed.
Lemma P_tags_agree : c13_param_tag_send = c13_param_tag_probe /\ c13_param_tag_send = c13_param_tag_recv.
Proof. split; reflexivity. Qed.
Lemma P_added_public : c13_param_added_public = true /\ c13_param_added_public_second_site = true.
Proof. split; reflexivity. Qed.
Lemma P_default_numberer g : c13_param_default_is_size_max = true /\ c13_default_numberer g = 2 ^ 64 - 1.
Proof. split; reflexivity. Qed.
Lemma P_synced s : c13_is_synced (c13_sync_seq s) = true.
Proof. unfold c13_is_synced, c13_sync_seq. simpl. rewrite !N.eqb_refl. reflexivity. Qed.
Lemma P_modifier_then_resize_not_synced s : c13_is_synced (c13_end_resize_seq (c13_get_modifier_seq s)) = false.
Proof.
  unfold c13_is_synced, c13_end_resize_seq, c13_get_modifier_seq. simpl.
  assert (H : (sq_set s =? sq_set s + 1) = false) by (apply N.eqb_neq; lia). rewrite H. reflexivity.
Qed.

(* ---- rank r of the world *)
Lemma nth_map_seq {A} (f : nat -> A) : forall n s r, (r < n)%nat -> nth_error (map f (seq s n)) r = Some (f (s + r)%nat).
Proof.
  induction n as [|n IH]; intros s r Hr; [lia|]. destruct r as [|r]; simpl.
  - rewrite Nat.add_0_r. reflexivity.
  - rewrite IH by lia. f_equal. f_equal. lia.
Qed.

Lemma sync_nth v numb w sigma r : (r < length w)%nat ->
  nth_error (c13_sync v numb w sigma) r =
  Some (c13_sync_rank v (numb (N.of_nat r)) w (N.of_nat r) (sigma (N.of_nat r))).
Proof.
  intros Hr. unfold c13_sync. rewrite map_map. rewrite (nth_map_seq _ (length w) 0%nat r Hr). reflexivity.
Qed.
Lemma sync_length v numb w sigma : length (c13_sync v numb w sigma) = length w.
Proof. unfold c13_sync. rewrite !map_length, seq_length. reflexivity. Qed.

(* a world every rank of which is well formed, with symmetric neighbour relation; sigma = any arrival order per rank *)
Definition world_ok (w : c13_world) : Prop :=
  (forall r, sender_ok (c13_proc_of w r)) /\
  (forall p q, In q (map fst (c13_ri (c13_proc_of w p))) -> In p (map fst (c13_ri (c13_proc_of w q)))).
Definition sigma_ok (w : c13_world) (sigma : N -> list N) : Prop :=
  forall r s, In s (sigma r) <-> In s (map fst (c13_ri (c13_proc_of w r))).

Lemma lists_spec pr q : c13_lists pr q = true <-> In q (map fst (c13_ri pr)).
Proof.
  unfold c13_lists. rewrite existsb_exists. split.
  - intros [x [H1 H2]]. apply N.eqb_eq in H2. subst. apply in_map; auto.
  - intros H. apply in_map_iff in H. destruct H as [x [H1 H2]]. exists x. split; auto. apply N.eqb_eq; auto.
Qed.

Lemma no_deadlock w sigma r v numb : world_ok w -> sigma_ok w sigma ->
  exists iset ri ptrs, c13_sync_rank v numb w r (sigma r) = C13Ok iset ri ptrs.
Proof.
  intros [_ Hsym] Hs. unfold c13_sync_rank.
  assert (H : forallb (fun q => c13_lists (c13_proc_of w q) r) (sigma r) = true).
  { apply forallb_forall. intros q Hq. apply lists_spec. apply Hsym. apply Hs. exact Hq. }
  rewrite H. eexists. eexists. eexists. reflexivity.
Qed.

(* sync of the whole world never deadlocks and every rank's result has all per-rank post-conditions *)
Lemma P_world_sync numb w sigma r : world_ok w -> sigma_ok w sigma -> (r < length w)%nat ->
  exists iset' ri' ptrs,
    nth_error (c13_sync c13_fixed numb w sigma) r = Some (C13Ok iset' ri' ptrs) /\
    istrict iset' /\ rmap_wf ri' /\
    (forall q e, In_rmap ri' q e -> has_key iset' (fst e)) /\
    (forall p, In p (c13_iset (c13_proc_of w (N.of_nat r))) -> In p iset') /\
    (forall q e, In_rmap (c13_ri (c13_proc_of w (N.of_nat r))) q e -> In_rmap ri' q e) /\
    (forall p, In p iset' -> In p (c13_iset (c13_proc_of w (N.of_nat r))) \/
                             (c13_p p = true /\ c13_l p = numb (N.of_nat r) (c13_g p))).
Proof.
  intros Hw Hs Hr. destruct (no_deadlock w sigma (N.of_nat r) c13_fixed (numb (N.of_nat r)) Hw Hs) as [iset' [ri' [ptrs Heq]]].
  exists iset', ri', ptrs. rewrite (sync_nth _ _ _ _ _ Hr). split; [rewrite Heq; reflexivity|].
  destruct Hw as [Hso _]. destruct (sender_proc_ok _ (Hso (N.of_nat r))) as [Hok Hst].
  destruct (P_rank_sorted_valid_monotone _ _ _ _ _ _ _ Hok Heq) as [_ [M2 [M3 [M4 M5]]]].
  destruct (P_rank_iset_strict _ _ _ _ _ _ _ Hst (fun q => proj1 (Hso q)) Heq) as [S1 S2].
  repeat (split; auto).
Qed.

(* completion, world level: whatever p records about its neighbour q is complete on q after the collective sync *)
Lemma P_world_completion numb w sigma p q l e : world_ok w -> sigma_ok w sigma -> (q < length w)%nat ->
  In (N.of_nat q, l) (c13_ri (c13_proc_of w p)) -> In e l ->
  exists iset' ri' ptrs,
    nth_error (c13_sync c13_fixed numb w sigma) q = Some (C13Ok iset' ri' ptrs) /\
    has_key iset' (eg e, snd e) /\
    In_rmap ri' p ((eg e, snd e), snd (fst e)) /\
    forall r lr e', In (r, lr) (c13_ri (c13_proc_of w p)) -> r <> N.of_nat q -> In e' lr -> eg e' = eg e ->
      In_rmap ri' r ((eg e, snd e), snd e').
Proof.
  intros Hw Hs Hq Hl He.
  destruct (no_deadlock w sigma (N.of_nat q) c13_fixed (numb (N.of_nat q)) Hw Hs) as [iset' [ri' [ptrs Heq]]].
  exists iset', ri', ptrs. rewrite (sync_nth _ _ _ _ _ Hq). split; [rewrite Heq; reflexivity|].
  destruct Hw as [Hso Hsym].
  assert (Hp : In p (sigma (N.of_nat q))).
  { apply Hs. apply Hsym. apply in_map_iff. exists (N.of_nat q, l). auto. }
  apply (P_completion _ _ _ _ _ _ _ _ l e (Hso p) (proj1 (sender_proc_ok _ (Hso (N.of_nat q)))) Hl He Hp Heq).
Qed.

(* pointers: under the one-copy-per-rank agreement EVERY list of the result has all its pointers repaired *)
Lemma P_rank_pointers numb w r att order iset' ri' ptrs :
  proc_ok (c13_proc_of w r) -> istrict (c13_iset (c13_proc_of w r)) ->
  (forall q, sglob (c13_iset (c13_proc_of w q))) ->
  agree_entries att r (c13_ri (c13_proc_of w r)) -> senders_ok w att order ->
  c13_sync_rank c13_fixed numb w r order = C13Ok iset' ri' ptrs ->
  forall q l, In (q, l) ri' ->
    exists ps, In (q, C13Ptrs ps) ptrs /\ Forall2 (fun e k => ptr_to iset' (fst e) k) l ps.
Proof.
  intros Hme Hst Hg Hag Hso Heq q l Hl.
  apply (P_rank_repair _ _ _ _ _ _ _ Hme Heq q l Hl).
  destruct (recv_char numb w r att Hme Hst Hg Hag order Hso) as [_ [_ [_ [_ L1]]]].
  unfold c13_sync_rank in Heq. destruct (forallb _ order); [|discriminate]. inversion Heq; subst.
  apply (L1 q l Hl).
Qed.

(* restore, world level *)
Lemma P_world_restore W W' D numb sigma p : consistent W -> deleted W W' D -> still_listed W W' D ->
  (forall r s, In s (sigma r) <-> In s (map fst (c13_ri (c13_proc_of W r)))) -> length W' = length W -> (p < length W)%nat ->
  exists ptrs,
    nth_error (c13_sync c13_fixed numb W' sigma) p =
      Some (C13Ok (map (renum (numb (N.of_nat p)) (D (N.of_nat p))) (c13_iset (c13_proc_of W (N.of_nat p))))
                  (c13_ri (c13_proc_of W (N.of_nat p))) ptrs).
Proof.
  intros HW HD HL Hs Hlen Hp.
  destruct (P_restore W W' D (numb (N.of_nat p)) (N.of_nat p) (sigma (N.of_nat p)) HW HD HL (Hs (N.of_nat p))) as [ptrs [H _]].
  exists ptrs. rewrite sync_nth by lia. rewrite H. reflexivity.
Qed.

(* order independence of the whole collective sync: useFixedOrder or any arrival order on every rank, same world afterwards *)
Lemma P_world_order_independent numb w att sigma1 sigma2 :
  (forall r, sender_ok (c13_proc_of w r) /\ agree_proc att r (c13_proc_of w r)) ->
  (forall r q, In q (sigma1 r) <-> In q (sigma2 r)) ->
  c13_sync c13_fixed numb w sigma1 = c13_sync c13_fixed numb w sigma2.
Proof.
  intros Hw Hs. unfold c13_sync. apply map_ext. intros r.
  destruct (Hw r) as [So [_ Ae]]. destruct (sender_proc_ok _ So) as [Hok Hst].
  apply (P_order_independent (numb r) w r att Hok Hst (fun q => proj1 (proj1 (Hw q))) Ae); [apply Hs|].
  intros s _. exact (Hw s).
Qed.

(* ---- closure: under the one-copy-per-rank agreement the state after sync again satisfies every hypothesis the theorems need
   (sender_ok, agreement), so they apply to each of a sequence of syncs -- also on partial-knowledge worlds *)
Lemma istrict_agree_sglob (f : N -> N) l : istrict l -> (forall x, In x l -> c13_a x = f (c13_g x)) -> sglob l.
Proof.
  induction 1 as [|x r Hs IH Hf]; intros Ha; constructor.
  - apply IH. intros y Hy. apply Ha; right; auto.
  - rewrite Forall_forall in *. intros y Hy. specialize (Hf y Hy). unfold klt, c13_keyof in Hf. simpl in Hf.
    destruct Hf as [|[E L]]; auto. rewrite (Ha x (or_introl eq_refl)), (Ha y (or_intror Hy)), E in L. lia.
Qed.
Lemma strict_agree_lglob (f : N -> N) l : strict_keys l -> (forall e, In e l -> snd (fst e) = f (eg e)) -> lglob l.
Proof.
  induction 1 as [|x r Hs IH Hf]; intros Ha; constructor.
  - apply IH. intros y Hy. apply Ha; right; auto.
  - rewrite Forall_forall in *. intros y Hy. specialize (Hf y Hy). unfold klt in Hf. unfold eg in *.
    destruct Hf as [|[E L]]; auto. rewrite (Ha x (or_introl eq_refl)), (Ha y (or_intror Hy)) in L. unfold eg in L. rewrite E in L. lia.
Qed.

Lemma P_rank_closure numb w r att order iset' ri' ptrs :
  proc_ok (c13_proc_of w r) -> istrict (c13_iset (c13_proc_of w r)) ->
  (forall q, sglob (c13_iset (c13_proc_of w q))) ->
  agree_proc att r (c13_proc_of w r) -> senders_ok w att order ->
  c13_sync_rank c13_fixed numb w r order = C13Ok iset' ri' ptrs ->
  sender_ok (C13Proc iset' ri') /\ agree_proc att r (C13Proc iset' ri').
Proof.
  intros Hme Hst Hg [Ai Ae] Hso Heq.
  destruct (P_rank_sorted_valid_monotone _ _ _ _ _ _ _ Hme Heq) as [_ [M2 [M3 _]]].
  rename M2 into Mwf, M3 into Mval.
  destruct (P_rank_iset_strict _ _ _ _ _ _ _ Hst Hg Heq) as [S1 _].
  destruct (recv_char numb w r att Hme Hst Hg Ae order Hso) as [_ [C1 [A1 [K1 L1]]]].
  pose proof Heq as Heq'. unfold c13_sync_rank in Heq'. destruct (forallb _ order); [|discriminate].
  injection Heq' as E1 E2 _. subst iset' ri'.
  set (st := c13_recv_all c13_fixed numb w r order) in *.
  (* entries agree *)
  assert (Hent : agree_entries att r (rs_ri st)).
  { intros q e He. apply C1 in He. destruct He as [He|[src [pb [H1 [H2 H3]]]]]; [apply Ae; auto|].
    destruct (Hso src H1) as [So Ag]. eapply published_agree; eauto. }
  (* pairs agree *)
  assert (Hpairs : forall x, In x (c13_merge (c13_iset (c13_proc_of w r)) (c13_sort (rs_added st))) -> c13_a x = att r (c13_g x)).
  { intros x Hx. assert (Hperm : Permutation (c13_merge (c13_iset (c13_proc_of w r)) (c13_sort (rs_added st))) (c13_iset (c13_proc_of w r) ++ rs_added st)).
    { rewrite merge_perm. apply Permutation_app_head. apply sort_perm. }
    apply (Permutation_in _ Hperm) in Hx. apply in_app_or in Hx. destruct Hx as [Hx|Hx]; [apply Ai; auto|].
    destruct (proj1 (K1 (c13_keyof x)) (ex_intro _ x (conj Hx eq_refl))) as [_ [src [pb [H1 [H2 [H3 H4]]]]]].
    simpl in H3, H4. destruct (Hso src H1) as [[Sg [Sm [Sl Sv]]] [_ Ag]].
    destruct (message_shape _ _ _ _ Sg H2) as [ip [_ E]]. subst pb. simpl in H3. unfold pb_g in H4. simpl in H4.
    destruct (holders_inv _ _ _ _ H3) as [l [e0 [G1 [G2 [G3 G4]]]]].
    destruct (Ag r e0 (ex_intro _ l (conj G1 G2))) as [_ A2]. rewrite G3, H4 in A2. congruence. }
  split; [|split; auto].
  split; [apply (istrict_agree_sglob (att r)); auto|]. split; [apply Mwf|]. split; [|exact Mval].
  intros q l Hl. apply (strict_agree_lglob (att r)); [apply (L1 q l Hl)|].
  intros e He. apply (Hent q e). exists l; auto.
Qed.
