(* C13 — the abstract statement and its executable oracle.
   An observed state of one rank (what the harness dumps, what the model computes):
   index set in iteration order, remote lists in list order, and for every remote entry the position of the
   pair its pointer refers to (None = refers to no pair of the set).
   The four post-conditions of the property are boolean functions of the observed worlds
      B = after rebuild (consistent),  D = after deleting copies and their remote entries,  S = after sync
   and are applied by ml/C13_driver.ml to the IMPLEMENTATION's own dump. *)
From Coq Require Import List NArith Bool.
From DuneV Require Import C13_Model.
Import ListNotations.
Local Open Scope N_scope.

Record c13_obs := C13Obs { o_iset : list c13_pair; o_ri : c13_rmap; o_ptrs : list (N * list (option nat)); o_synced : bool }.

Definition c13_pair_eqb (x y : c13_pair) : bool :=
  (c13_g x =? c13_g y) && (c13_a x =? c13_a y) && (c13_l x =? c13_l y) && Bool.eqb (c13_p x) (c13_p y).
Definition c13_rentry_eqb (x y : c13_rentry) : bool := c13_key_eq (fst x) (fst y) && (snd x =? snd y).
Definition c13_key_le (x y : c13_key) : bool := negb (c13_key_lt y x).

Fixpoint c13_sorted_by {A} (le : A -> A -> bool) (l : list A) : bool :=
  match l with
  | x :: (y :: _) as r => le x y && c13_sorted_by le r
  | _ => true
  end.
Fixpoint c13_nodup_b {A} (eqb : A -> A -> bool) (l : list A) : bool :=
  match l with [] => true | x :: r => negb (existsb (eqb x) r) && c13_nodup_b eqb r end.

Definition c13_list_of (m : c13_rmap) (q : N) : list c13_rentry :=
  match find (fun x => fst x =? q) m with Some x => snd x | None => [] end.

(* --- (1) sorted_valid: the index set is strictly ordered by (global, attribute); every remote list is ordered by
   the key of the local pair and free of duplicates; the neighbour map is strictly ordered by rank; every entry
   points to a pair of the set that carries the entry's key *)
Definition c13_ptr_ok (iset : list c13_pair) (e : c13_rentry) (k : option nat) : bool :=
  match k with
  | Some k => match nth_error iset k with Some p => c13_key_eq (c13_keyof p) (fst e) | None => false end
  | None => false
  end.
Fixpoint c13_ptrs_ok (iset : list c13_pair) (l : list c13_rentry) (ks : list (option nat)) : bool :=
  match l, ks with
  | [], [] => true
  | e :: l', k :: ks' => c13_ptr_ok iset e k && c13_ptrs_ok iset l' ks'
  | _, _ => false
  end.
Definition c13_rlist_ok (l : list c13_rentry) : bool :=
  c13_sorted_by (fun x y => c13_key_le (fst x) (fst y)) l && c13_nodup_b c13_rentry_eqb l.
Definition c13_iset_ok (iset : list c13_pair) : bool :=
  c13_sorted_by (fun x y => c13_key_lt (c13_keyof x) (c13_keyof y)) iset.
Definition c13_sorted_valid_b (o : c13_obs) : bool :=
  c13_iset_ok (o_iset o) &&
  c13_sorted_by (fun x y => fst x <? fst y) (o_ri o) &&
  forallb (fun x => c13_rlist_ok (snd x)) (o_ri o) &&
  (Nat.eqb (length (o_ri o)) (length (o_ptrs o))) &&
  forallb (fun xy => (fst (fst xy) =? fst (snd xy)) && c13_ptrs_ok (o_iset o) (snd (fst xy)) (snd (snd xy)))
          (combine (o_ri o) (o_ptrs o)).

(* --- (2) monotone: nothing known before is lost or altered *)
Definition c13_monotone_b (d s : c13_obs) : bool :=
  forallb (fun p => existsb (c13_pair_eqb p) (o_iset s)) (o_iset d) &&
  forallb (fun x => forallb (fun e => existsb (c13_rentry_eqb e) (c13_list_of (o_ri s) (fst x))) (snd x)) (o_ri d).

(* --- (3) completion: for p, neighbour q, global g that p believed present on q with attribute b:
   q has (g, b); q lists every holder r <> q of g that p knew -- p itself included -- with the right attributes *)
Definition c13_obs_of (w : list c13_obs) (q : N) : c13_obs := nth (N.to_nat q) w (C13Obs [] [] [] false).
Definition c13_has_entry (o : c13_obs) (r : N) (e : c13_rentry) : bool :=
  existsb (c13_rentry_eqb e) (c13_list_of (o_ri o) r).
Definition c13_completion_entry (d s : list c13_obs) (p q : N) (e : c13_rentry) : bool :=
  let g := fst (fst e) in let la := snd (fst e) in let b := snd e in
  let sq := c13_obs_of s q in
  existsb (c13_same_ga g b) (o_iset sq) &&
  c13_has_entry sq p ((g, b), la) &&
  forallb (fun y => (fst y =? q) ||
                    forallb (fun e' => negb (fst (fst e') =? g) || c13_has_entry sq (fst y) ((g, b), snd e')) (snd y))
          (o_ri (c13_obs_of d p)).
Definition c13_completion_b (d s : list c13_obs) : bool :=
  forallb (fun p => forallb (fun x => forallb (c13_completion_entry d s p (fst x)) (snd x)) (o_ri (c13_obs_of d p)))
          (map N.of_nat (seq 0 (length d))).

(* --- (4) restore: if every deleted copy is still listed by another rank, sync gives back B
   (up to the local numbers of the re-added pairs when `exact` is false) *)
Definition c13_restore_pre (b d : list c13_obs) : bool :=
  forallb (fun p =>
    forallb (fun ip => existsb (c13_same_ga (c13_g ip) (c13_a ip)) (o_iset (c13_obs_of d p)) ||
                       existsb (fun q => negb (q =? p) &&
                                         existsb (fun e => (fst (fst e) =? c13_g ip) && (snd e =? c13_a ip))
                                                 (c13_list_of (o_ri (c13_obs_of d q)) p))
                               (map N.of_nat (seq 0 (length d))))
            (o_iset (c13_obs_of b p)))
    (map N.of_nat (seq 0 (length b))).
Fixpoint c13_list_eqb {A} (eqb : A -> A -> bool) (x y : list A) : bool :=
  match x, y with
  | [], [] => true
  | a :: x', b :: y' => eqb a b && c13_list_eqb eqb x' y'
  | _, _ => false
  end.
Definition c13_restore_obs (exact : bool) (b d s : c13_obs) : bool :=
  c13_list_eqb (fun x y => (c13_g x =? c13_g y) && (c13_a x =? c13_a y) && Bool.eqb (c13_p x) (c13_p y) &&
                           (((c13_l x =? c13_l y)) || (negb exact && negb (existsb (c13_same_ga (c13_g x) (c13_a x)) (o_iset d)))))
               (o_iset b) (o_iset s) &&
  c13_list_eqb (fun x y => (fst x =? fst y) && c13_list_eqb c13_rentry_eqb (snd x) (snd y)) (o_ri b) (o_ri s).
Definition c13_restore_b (exact : bool) (b d s : list c13_obs) : bool :=
  Nat.eqb (length b) (length s) &&
  forallb (fun p => c13_restore_obs exact (c13_obs_of b p) (c13_obs_of d p) (c13_obs_of s p)) (map N.of_nat (seq 0 (length b))).

(* --- executable well-formedness of an input state (what rebuild + deletion produce): index set strictly ordered,
   neighbour map strictly ordered by rank, lists ordered and duplicate-free, every key present in the set *)
Definition c13_proc_ok_b (pr : c13_proc) : bool :=
  c13_iset_ok (c13_iset pr) &&
  c13_sorted_by (fun x y => fst x <? fst y) (c13_ri pr) &&
  forallb (fun x => c13_rlist_ok (snd x) &&
                    forallb (fun e => existsb (fun p => c13_key_eq (c13_keyof p) (fst e)) (c13_iset pr)) (snd x)) (c13_ri pr).

(* --- the model's result as an observation *)
Definition c13_obs_of_result (r : c13_result) : option c13_obs :=
  match r with
  | C13Ok iset ri ptrs =>
      Some (C13Obs iset ri
              (map (fun x => (fst x, match snd x with C13Ptrs ps => map Some ps | _ => [] end)) ptrs) true)
  | C13Deadlock => None
  end.
Definition c13_proc_of_obs (o : c13_obs) : c13_proc := C13Proc (o_iset o) (o_ri o).
