(* Extraction of the C14 model and spec formulas for the correspondence check (ExtrOcamlBasic only:
   Z, positive, nat stay Coq inductives). *)
From Coq Require Import Extraction ExtrOcamlBasic.
From Coq Require Import List ZArith.
From DuneV Require Import C14_Params C14_Model C14_Spec.
Extraction Language OCaml.
Extraction "c14_model.ml"
  c14_rank_dynamic c14_dyn_index c14_init_dyn_only c14_init_dyn_all c14_extents_ctor c14_extent c14_extents_list
  c14_extents_convert c14_extents_eqb c14_product
  c14_map_right c14_map_left c14_map_right_trace c14_map_left_trace c14_stride_right c14_stride_left
  c14_map_stride c14_span_size_stride c14_is_exhaustive_stride
  c14_map c14_required_span_size c14_stride c14_is_exhaustive c14_strides_of c14_to_stride
  c14_stride_to_left c14_stride_to_right c14_relayout c14_tuples c14_validb c14_fits
  c14_get c14_set c14_mdspan_offset c14_mdspan_get c14_mdspan_set c14_md_size
  c14_mdarray_new c14_mdarray_get c14_mdarray_set c14_copy_loop c14_mdarray_from_mdspan
  c14_default_acc c14_view_cell c14_view_get c14_copy_loop_acc c14_mdarray_from_mdspan_acc
  c14_view_offset c14_view_swap c14_view_assign c14_array_swap c14_array_assign c14_array_get c14_mapping_eqb
  c14_is_unique c14_is_strided c14_is_always_unique c14_is_always_exhaustive c14_is_always_strided
  c14_map_right_w c14_map_left_w c14_map_stride_w
  c14_subspan_extent c14_span_elems c14_span_size_bytes c14_wrap c14_mdspan_of_extents c14_view_convert
  c14_mdarray_fill c14_mdarray_of_container c14_mdarray_convert c14_to_mdspan c14_array_set c14_array_eqb c14_mapping_eqb_cross c14_mapping_eqb_cross_w c14_bump
  c14_span_first c14_span_last c14_span_subspan c14_span_at c14_span_index c14_span_front c14_span_back
  c14_prod c14_dot c14_spec_strides_right c14_spec_strides_left c14_spec_right c14_spec_left c14_spec_fill
  c14_unrank_right c14_unrank_left.
