(* C14 — executable model of dune/common/std/{extents,layout_left,layout_right,layout_stride,
   mdspan,mdarray,span}.hh.  Definitions only (no proofs).  Index arithmetic is over Z; the
   machine-integer side condition (every value fits index_type) is the predicate c14_fits used
   by the theorems and by the generator.  Each definition names the C++ loop it transcribes. *)
From Coq Require Import List ZArith Bool.
From DuneV Require Import C14_Params.   (* literals re-read from the C++ sources on every run: tools/params.d/C14.py via checks/C14.py *)
Import ListNotations.
Local Open Scope Z_scope.

(* ------------------------------------------------------------------ extents<I, exts...> *)
(* the template arguments: Some e = static extent e, None = Std::dynamic_extent *)
Definition c14_pattern := list (option Z).
Definition c14_is_dyn (e : option Z) : bool := match e with None => true | Some _ => false end.

(* rank_dynamic_ = ((exts == dynamic_extent) + ... + 0) *)
Definition c14_rank_dynamic (p : c14_pattern) : nat := length (filter c14_is_dyn p).

(* make_dynamic_index(): di[0] = 0; di[i+1] = di[i] + (exts[i] == dynamic_extent); rank+1 entries *)
Fixpoint c14_dyn_index_from (acc : nat) (p : c14_pattern) : list nat :=
  acc :: match p with
         | [] => []
         | e :: p' => c14_dyn_index_from (if c14_is_dyn e then S acc else acc) p'
         end.
Definition c14_dyn_index (p : c14_pattern) : list nat := c14_dyn_index_from 0 p.

(* init_dynamic_extents<N>, branch N == rank_dynamic(): dynamic_extents_[i] = e[i], i < rank_dynamic *)
Definition c14_init_dyn_only (p : c14_pattern) (e : list Z) : list Z := firstn (c14_rank_dynamic p) e.
(* branch N == rank(): for (i = 0, j = 0; i < rank; ++i) if (static_extent(i) == dyn) dynamic_extents_[j++] = e[i] *)
Fixpoint c14_init_dyn_all (p : c14_pattern) (e : list Z) : list Z :=
  match p, e with
  | None :: p', x :: e' => x :: c14_init_dyn_all p' e'
  | Some _ :: p', _ :: e' => c14_init_dyn_all p' e'
  | _, _ => []
  end.
(* the constructors taking N values (variadic, std::array, span): `if constexpr (N == rank_dynamic())` first *)
Definition c14_extents_ctor (p : c14_pattern) (e : list Z) : list Z :=
  if Nat.eqb (length e) (c14_rank_dynamic p) then c14_init_dyn_only p e else c14_init_dyn_all p e.

(* extent(r): static value if there is one, else dynamic_extents_[dynamic_index_[r]] *)
Definition c14_extent (p : c14_pattern) (dyn : list Z) (r : nat) : Z :=
  match nth r p None with
  | Some e => e
  | None => nth (nth r (c14_dyn_index p) 0%nat) dyn 0
  end.
(* as_array(): all extents in order *)
Definition c14_extents_list (p : c14_pattern) (dyn : list Z) : list Z :=
  map (c14_extent p dyn) (seq 0 (length p)).
(* converting constructor extents(const extents<I,e...>& other): init_dynamic_extents<sizeof...(e)>(as_array(other)),
   i.e. the N-values constructor path (with its `if constexpr (N == rank_dynamic())` dispatch) applied to
   the full list of the source's extents; p' = target pattern, (p, dyn) = source object *)
Definition c14_extents_convert (p' p : c14_pattern) (dyn : list Z) : list Z :=
  c14_extents_ctor p' (c14_extents_list p dyn).
(* operator==: same rank and all extents equal *)
Definition c14_extents_eqb (a b : list Z) : bool :=
  Nat.eqb (length a) (length b) && forallb (fun ab => fst ab =? snd ab) (combine a b).

(* product(): prod = 1; for i: prod *= extent(i) *)
Definition c14_product (E : list Z) : Z := fold_left Z.mul E c14_param_product_init.

(* ------------------------------------------------------------------ layout_right / layout_left *)
(* the common loop body  value = indices[k] + extent(k) * value *)
Definition c14_horner_step (v : Z) (ie : Z * Z) : Z := fst ie + snd ie * v.

(* layout_right::operator(): value = indices.front(); for j in 0..rank-2: value = indices[j+1] + extent(j+1)*value *)
Definition c14_map_right (E idx : list Z) : Z :=
  match idx with
  | [] => c14_param_right_rank0_offset                (* operator()() of rank 0: `return 0;` *)
  | i0 :: rest => fold_left c14_horner_step (combine rest (tl E)) i0
  end.
(* layout_left::operator(): value = indices.back(); for r in 1..rank-1: j = rank-r; value = indices[j-1] + extent(j-1)*value *)
Definition c14_map_left (E idx : list Z) : Z :=
  match rev idx with
  | [] => c14_param_left_rank0_offset
  | il :: rest => fold_left c14_horner_step (combine rest (tl (rev E))) il
  end.
(* all values `value` takes during the loop (for the machine-integer lemma) *)
Fixpoint c14_scan_left (v : Z) (l : list (Z * Z)) : list Z :=
  v :: match l with [] => [] | ie :: l' => c14_scan_left (c14_horner_step v ie) l' end.
Definition c14_map_right_trace (E idx : list Z) : list Z :=
  match idx with [] => [0] | i0 :: rest => c14_scan_left i0 (combine rest (tl E)) end.
Definition c14_map_left_trace (E idx : list Z) : list Z :=
  match rev idx with [] => [0] | il :: rest => c14_scan_left il (combine rest (tl (rev E))) end.

(* layout_right::stride(i): prod = 1; for r in i+1..rank-1: prod *= extent(r) *)
Definition c14_stride_right (E : list Z) (i : nat) : Z := fold_left Z.mul (skipn (S i) E) 1.
(* layout_left::stride(i): prod = 1; for r in 0..i-1: prod *= extent(r) *)
Definition c14_stride_left (E : list Z) (i : nat) : Z := fold_left Z.mul (firstn i E) 1.

(* ------------------------------------------------------------------ layout_stride *)
(* operator(): ((index_type(ii) * strides_[r]) + ... + 0)  -- a right fold *)
Definition c14_map_stride (St idx : list Z) : Z :=
  match idx with
  | [] => c14_param_stride_rank0_offset               (* operator()() of rank 0 *)
  | _ => fold_right (fun is acc => fst is * snd is + acc) 0 (combine idx St)
  end.
(* size(extents, strides): rank 0 -> 1; product()==0 -> 0; else result = 1; result += (extent(r)-1)*strides[r] *)
Definition c14_span_size_stride (E St : list Z) : Z :=
  match E with
  | [] => c14_param_stride_rank0_span
  | _ => if c14_product E =? 0 then c14_param_stride_empty_span
         else fold_left (fun res es => res + (fst es - 1) * snd es) (combine E St) c14_param_stride_span_init
  end.
(* is_exhaustive(): rank()==0 || (required_span_size() > 0 && required_span_size() == extents().product()) *)
Definition c14_is_exhaustive_stride (E St : list Z) : bool :=
  match E with
  | [] => true
  | _ => (0 <? c14_span_size_stride E St) && (c14_span_size_stride E St =? c14_product E)
  end.

(* ------------------------------------------------------------------ a mapping of any of the three layouts *)
Inductive c14_layout := C14_Left | C14_Right | C14_Stride.
Record c14_mapping := C14_Mapping { c14_lay : c14_layout; c14_ext : list Z; c14_str : list Z }.

Definition c14_map (m : c14_mapping) (idx : list Z) : Z :=
  match c14_lay m with
  | C14_Left => c14_map_left (c14_ext m) idx
  | C14_Right => c14_map_right (c14_ext m) idx
  | C14_Stride => c14_map_stride (c14_str m) idx
  end.
Definition c14_required_span_size (m : c14_mapping) : Z :=
  match c14_lay m with
  | C14_Stride => c14_span_size_stride (c14_ext m) (c14_str m)
  | _ => c14_product (c14_ext m)
  end.
Definition c14_stride (m : c14_mapping) (r : nat) : Z :=
  match c14_lay m with
  | C14_Left => c14_stride_left (c14_ext m) r
  | C14_Right => c14_stride_right (c14_ext m) r
  | C14_Stride => nth r (c14_str m) 0
  end.
Definition c14_is_exhaustive (m : c14_mapping) : bool :=
  match c14_lay m with
  | C14_Stride => c14_is_exhaustive_stride (c14_ext m) (c14_str m)
  | C14_Left => c14_param_left_is_exhaustive          (* static constexpr bool is_exhaustive () { return true; } *)
  | C14_Right => c14_param_right_is_exhaustive
  end.
(* the constant answers of the other queries, as written in the three headers *)
Definition c14_is_unique (l : c14_layout) : bool :=
  match l with C14_Left => c14_param_left_is_unique | C14_Right => c14_param_right_is_unique | C14_Stride => c14_param_stride_is_unique end.
Definition c14_is_strided (l : c14_layout) : bool :=
  match l with C14_Left => c14_param_left_is_strided | C14_Right => c14_param_right_is_strided | C14_Stride => c14_param_stride_is_strided end.
Definition c14_is_always_unique (l : c14_layout) : bool :=
  match l with C14_Left => c14_param_left_is_always_unique | C14_Right => c14_param_right_is_always_unique | C14_Stride => c14_param_stride_is_always_unique end.
Definition c14_is_always_exhaustive (l : c14_layout) : bool :=
  match l with C14_Left => c14_param_left_is_always_exhaustive | C14_Right => c14_param_right_is_always_exhaustive | C14_Stride => c14_param_stride_is_always_exhaustive end.
Definition c14_is_always_strided (l : c14_layout) : bool :=
  match l with C14_Left => c14_param_left_is_always_strided | C14_Right => c14_param_right_is_always_strided | C14_Stride => c14_param_stride_is_always_strided end.
Definition c14_strides_of (m : c14_mapping) : list Z := map (c14_stride m) (seq 0 (length (c14_ext m))).

(* conversions between mappings *)
(* layout_stride::mapping(const M& m): extents_(m.extents()); strides_[r] = m.stride(r) *)
Definition c14_to_stride (m : c14_mapping) : c14_mapping :=
  C14_Mapping C14_Stride (c14_ext m) (c14_strides_of m).
(* layout_left::mapping(const layout_stride::mapping&): the assert loop
     prod = 1; for r in 0..rank-2 { assert(stride(r) == prod); prod *= extent(r); } assert(stride(rank-1) == prod)
   None = an assertion fails *)
Fixpoint c14_check_strides (prod : Z) (ES : list (Z * Z)) : bool :=
  match ES with
  | [] => true
  | es :: ES' => (snd es =? prod) && c14_check_strides (prod * fst es) ES'
  end.
Definition c14_stride_to_left (E St : list Z) : option c14_mapping :=
  if c14_check_strides 1 (combine E St) then Some (C14_Mapping C14_Left E []) else None.
(* layout_right::mapping(const layout_stride::mapping&): the same loop running from rank-1 down to 0 *)
Definition c14_stride_to_right (E St : list Z) : option c14_mapping :=
  if c14_check_strides 1 (combine (rev E) (rev St)) then Some (C14_Mapping C14_Right E []) else None.
(* layout_left <-> layout_right, only for rank <= 1; same-layout conversion with another extents type *)
Definition c14_relayout (l : c14_layout) (m : c14_mapping) : option c14_mapping :=
  match l, c14_lay m with
  | C14_Stride, _ => Some (c14_to_stride m)
  | C14_Left, C14_Stride => c14_stride_to_left (c14_ext m) (c14_str m)
  | C14_Right, C14_Stride => c14_stride_to_right (c14_ext m) (c14_str m)
  | C14_Left, C14_Left | C14_Right, C14_Right => Some (C14_Mapping l (c14_ext m) [])
  | _, _ => if (length (c14_ext m) <=? 1)%nat then Some (C14_Mapping l (c14_ext m) []) else None
  end.

(* ------------------------------------------------------------------ index tuples *)
(* 0, 1, ..., n-1 : the loop `for (i = 0; i < n; ++i)` *)
Fixpoint c14_zrange_from (k : Z) (count : nat) : list Z :=
  match count with O => [] | S c => k :: c14_zrange_from (k + 1) c end.
Definition c14_zrange (n : Z) : list Z := c14_zrange_from 0 (Z.to_nat n).
(* all tuples of the index space in the order of the nested loops of mdarray::init_from_mdspan
   (dimension 0 outermost) *)
Fixpoint c14_tuples (E : list Z) : list (list Z) :=
  match E with
  | [] => [[]]
  | e :: E' => flat_map (fun i => map (cons i) (c14_tuples E')) (c14_zrange e)
  end.
Definition c14_validb (idx E : list Z) : bool :=
  Nat.eqb (length idx) (length E) && forallb (fun ie => (0 <=? fst ie) && (fst ie <? snd ie)) (combine idx E).
Definition c14_fits (bits : Z) (signed : bool) (v : Z) : bool :=
  if signed then (- 2 ^ (bits - 1) <=? v) && (v <? 2 ^ (bits - 1)) else (0 <=? v) && (v <? 2 ^ bits).

(* ------------------------------------------------------------------ storage, mdspan, mdarray *)
Section Store.
  Context {T : Type}.
  (* p[i] on a sequence of elements; None = outside the storage (undefined behaviour in C++) *)
  Definition c14_get (store : list T) (k : Z) : option T :=
    if k <? 0 then None else nth_error store (Z.to_nat k).
  Fixpoint c14_set_nat (store : list T) (k : nat) (v : T) : option (list T) :=
    match store, k with
    | [], _ => None
    | _ :: s, O => Some (v :: s)
    | x :: s, S k' => match c14_set_nat s k' v with Some s' => Some (x :: s') | None => None end
    end.
  Definition c14_set (store : list T) (k : Z) (v : T) : option (list T) :=
    if k <? 0 then None else c14_set_nat store (Z.to_nat k) v.

  (* mdspan = (data handle = store + base, mapping, default_accessor):
     operator()(i...) = accessor_.access(data_handle_, mapping_(i...)) = p[mapping(i...)] *)
  Definition c14_mdspan_offset (base : Z) (m : c14_mapping) (idx : list Z) : Z := base + c14_map m idx.
  Definition c14_mdspan_get (store : list T) (base : Z) (m : c14_mapping) (idx : list Z) : option T :=
    c14_get store (c14_mdspan_offset base m idx).
  Definition c14_mdspan_set (store : list T) (base : Z) (m : c14_mapping) (idx : list Z) (v : T) : option (list T) :=
    c14_set store (c14_mdspan_offset base m idx) v.
  (* size(): s = 1; for r: s *= extent(r) *)
  Definition c14_md_size (m : c14_mapping) : Z := c14_product (c14_ext m).

  (* mdarray = (container, mapping).  mdarray(mapping m [, v]): container_(required_span_size [, v]) *)
  Definition c14_mdarray_new (m : c14_mapping) (v : T) : list T := repeat v (Z.to_nat (c14_required_span_size m)).
  Definition c14_mdarray_get (cont : list T) (m : c14_mapping) (idx : list Z) : option T := c14_get cont (c14_map m idx).
  Definition c14_mdarray_set (cont : list T) (m : c14_mapping) (idx : list Z) (v : T) := c14_set cont (c14_map m idx) v.

  (* mdarray(const mdspan& other): container_(other.size()), mapping_(other.mapping()), then
     init_from_mdspan: nested loops over all tuples, container_[mapping_(ii...)] = other[{ii...}] *)
  Fixpoint c14_copy_loop (cont : list T) (mdst : c14_mapping) (store : list T) (base : Z) (msrc : c14_mapping)
           (tuples : list (list Z)) : option (list T) :=
    match tuples with
    | [] => Some cont
    | idx :: rest =>
        match c14_mdspan_get store base msrc idx with
        | None => None
        | Some v => match c14_mdarray_set cont mdst idx v with
                    | None => None
                    | Some cont' => c14_copy_loop cont' mdst store base msrc rest
                    end
        end
    end.
  Definition c14_mdarray_from_mdspan (dflt : T) (l : c14_layout) (store : list T) (base : Z) (msrc : c14_mapping)
    : option (list T * c14_mapping) :=
    match c14_relayout l msrc with
    | None => None
    | Some mdst =>
        match c14_copy_loop (repeat dflt (Z.to_nat (c14_md_size msrc))) mdst store base msrc (c14_tuples (c14_ext msrc)) with
        | None => None
        | Some cont => Some (cont, mdst)
        end
    end.
  (* ---- accessor policy as an explicit component of a view: access(handle, i) designates a storage cell.
     mdspan::operator[](i...) = accessor_.access(data_handle_, mapping_(i...)).  default_accessor: handle + i. *)
  Definition c14_accessor := Z -> Z -> Z.
  Definition c14_default_acc : c14_accessor := fun h i => h + i.
  Definition c14_view_cell (acc : c14_accessor) (h : Z) (m : c14_mapping) (idx : list Z) : Z := acc h (c14_map m idx).
  Definition c14_view_get (store : list T) (acc : c14_accessor) (h : Z) (m : c14_mapping) (idx : list Z) : option T :=
    c14_get store (c14_view_cell acc h m idx).
  (* init_from_mdspan with the source read through its accessor: container_[mapping_(ii...)] = other[{ii...}] *)
  Fixpoint c14_copy_loop_acc (cont : list T) (mdst : c14_mapping) (store : list T) (acc : c14_accessor) (h : Z)
           (msrc : c14_mapping) (tuples : list (list Z)) : option (list T) :=
    match tuples with
    | [] => Some cont
    | idx :: rest =>
        match c14_view_get store acc h msrc idx with
        | None => None
        | Some v => match c14_mdarray_set cont mdst idx v with
                    | None => None
                    | Some cont' => c14_copy_loop_acc cont' mdst store acc h msrc rest
                    end
        end
    end.
  Definition c14_mdarray_from_mdspan_acc (dflt : T) (l : c14_layout) (store : list T) (acc : c14_accessor) (h : Z)
             (msrc : c14_mapping) : option (list T * c14_mapping) :=
    match c14_relayout l msrc with
    | None => None
    | Some mdst =>
        match c14_copy_loop_acc (repeat dflt (Z.to_nat (c14_md_size msrc))) mdst store acc h msrc (c14_tuples (c14_ext msrc)) with
        | None => None
        | Some cont => Some (cont, mdst)
        end
    end.
End Store.

(* ------------------------------------------------------------------ swap / assignment of views and arrays *)
(* an mdspan is the pair (data handle = position of its first element in the storage, mapping);
   friend swap(x, y) exchanges data_handle_, mapping_ and accessor_; x = y copies all three *)
Definition c14_view := (Z * c14_mapping)%type.
Definition c14_view_offset (v : c14_view) (idx : list Z) : Z := c14_mdspan_offset (fst v) (snd v) idx.
Definition c14_view_swap (x y : c14_view) : c14_view * c14_view := (y, x).
Definition c14_view_assign (x y : c14_view) : c14_view * c14_view := (y, y).     (* x = y  or  x = std::move(y) *)
(* an mdarray is the pair (container, mapping); swap exchanges both members, assignment copies both *)
Definition c14_array (T : Type) := (list T * c14_mapping)%type.
Definition c14_array_swap {T} (x y : c14_array T) : c14_array T * c14_array T := (y, x).
Definition c14_array_assign {T} (x y : c14_array T) : c14_array T * c14_array T := (y, y).
Definition c14_array_get {T} (x : c14_array T) (idx : list Z) : option T := c14_mdarray_get (fst x) (snd x) idx.
(* operator== of mappings: layout_left/right compare extents, layout_stride extents and strides (rank 0: true) *)
Definition c14_mapping_eqb (a b : c14_mapping) : bool :=
  c14_extents_eqb (c14_ext a) (c14_ext b) &&
  match c14_lay a with
  | C14_Stride => match c14_ext a with [] => true | _ => c14_extents_eqb (c14_strides_of a) (c14_strides_of b) end
  | _ => true
  end.

(* ------------------------------------------------------------------ span<T, Extent> on a store *)
Record c14_span := C14_Span { c14_sp_off : Z; c14_sp_len : Z }.
(* None = an assert of span.hh fails (precondition) *)
Definition c14_span_first (s : c14_span) (count : Z) : option c14_span :=
  if count <=? c14_sp_len s then Some (C14_Span (c14_sp_off s) count) else None.
Definition c14_span_last (s : c14_span) (count : Z) : option c14_span :=
  if count <=? c14_sp_len s then Some (C14_Span (c14_sp_off s + (c14_sp_len s - count)) count) else None.
(* subspan(offset, count): count = None stands for Std::dynamic_extent *)
Definition c14_span_subspan (s : c14_span) (offset : Z) (count : option Z) : option c14_span :=
  match count with
  | None => if offset <=? c14_sp_len s then Some (C14_Span (c14_sp_off s + offset) (c14_sp_len s - offset)) else None
  | Some c => if (offset <=? c14_sp_len s) && (c <=? c14_sp_len s - offset)
              then Some (C14_Span (c14_sp_off s + offset) c) else None
  end.
(* at(i): throws std::out_of_range if i >= size(); result is the position in the store *)
Definition c14_span_at (s : c14_span) (i : Z) : option Z :=
  if c14_sp_len s <=? i then None else Some (c14_sp_off s + i).
Definition c14_span_index (s : c14_span) (i : Z) : Z := c14_sp_off s + i.
Definition c14_span_front (s : c14_span) : option Z := if c14_sp_len s =? 0 then None else Some (c14_sp_off s).
Definition c14_span_back (s : c14_span) : option Z :=
  if c14_sp_len s =? 0 then None else Some (c14_sp_off s + (c14_sp_len s - 1)).

(* static extent of the result of the compile-time subspan<Offset,Count>():
   subspan_extent(O, C) = (C != dynamic_extent) ? C : (Extent != dynamic_extent) ? Extent - O : dynamic_extent *)
Definition c14_subspan_extent (ext : option Z) (o : Z) (c : option Z) : option Z :=
  match c with
  | Some n => Some n
  | None => match ext with Some e => Some (e - o) | None => None end
  end.
(* begin() .. end(): the positions visited by iteration; size_bytes() = size() * sizeof(element_type) *)
Definition c14_span_elems (s : c14_span) : list Z := map (fun k => c14_sp_off s + k) (c14_zrange (c14_sp_len s)).
Definition c14_span_size_bytes (s : c14_span) (elem_size : Z) : Z := c14_sp_len s * elem_size.

(* ------------------------------------------------------------------ index_type(v): conversion to a machine integer type *)
Definition c14_wrap (bits : Z) (signed : bool) (v : Z) : Z :=
  let r := v mod 2 ^ bits in
  if signed && (2 ^ (bits - 1) <=? r) then r - 2 ^ bits else r.

(* ------------------------------------------------------------------ constructors / conversions of views and arrays *)
(* mdspan(p, exts...) / mdspan(p, array|span of extents) / mdspan(p, extents): mapping_type(extents_type(...)),
   only for layouts whose mapping is constructible from extents (left, right) *)
Definition c14_mdspan_of_extents (l : c14_layout) (p : c14_pattern) (vals : list Z) (h : Z) : c14_view :=
  (h, C14_Mapping l (c14_extents_list p (c14_extents_ctor p vals)) []).
(* mdspan converting constructor: data handle kept, mapping converted *)
Definition c14_view_convert (l : c14_layout) (x : c14_view) : option c14_view :=
  match c14_relayout l (snd x) with Some m' => Some (fst x, m') | None => None end.
Section Arrays.
  Context {T : Type}.
  (* mdarray(extents|mapping [, value]) : container of required_span_size copies of value *)
  Definition c14_mdarray_fill (m : c14_mapping) (v : T) : c14_array T := (c14_mdarray_new m v, m).
  (* mdarray(extents|mapping, container [, alloc]) : the container is adopted as it is *)
  Definition c14_mdarray_of_container (m : c14_mapping) (c : list T) : c14_array T := (c, m).
  (* converting constructor mdarray(const mdarray<...>& other): container_(other.container_), mapping_(other.mapping_) *)
  Definition c14_mdarray_convert (l : c14_layout) (x : c14_array T) : option (c14_array T) :=
    match c14_relayout l (snd x) with Some m' => Some (fst x, m') | None => None end.
  (* to_mdspan(): mdspan(container_data(), mapping()) -- the storage IS the container, data handle = its first cell *)
  Definition c14_to_mdspan (x : c14_array T) : list T * c14_view := (fst x, (0, snd x)).
  Definition c14_array_set (x : c14_array T) (idx : list Z) (v : T) : option (c14_array T) :=
    match c14_mdarray_set (fst x) (snd x) idx v with Some c => Some (c, snd x) | None => None end.
  (* operator== of mdarray: mappings equal and containers equal *)
  Definition c14_array_eqb (eqT : T -> T -> bool) (x y : c14_array T) : bool :=
    c14_mapping_eqb (snd x) (snd y) && Nat.eqb (length (fst x)) (length (fst y)) &&
    forallb (fun ab => eqT (fst ab) (snd ab)) (combine (fst x) (fst y)).
End Arrays.
(* layout_stride::mapping == other strided mapping (after fix 652a2a1): extents equal and stride(r) equal for all r *)
Definition c14_mapping_eqb_cross (a b : c14_mapping) : bool :=
  match c14_ext a with
  | [] => Nat.eqb (length (c14_ext b)) 0
  | _ => c14_extents_eqb (c14_ext a) (c14_ext b) && c14_extents_eqb (c14_strides_of a) (c14_strides_of b)
  end.

(* layout_stride::mapping<E>::operator==(a, b) with b of ANOTHER extents type, as the header has it at c59aad0:
     if (!(a.extents() == b.extents())) return false;              -- extents::operator== compares in common_type (exact)
     for r: if (a.stride(r) != index_type(b.stride(r))) return false;   -- b's stride is first NARROWED to a's index_type
   bits/signed describe a's index_type.  (c14_mapping_eqb_cross above is the comparison in the common type, i.e. the
   behaviour after fixes/C14-9.patch.) *)
Definition c14_mapping_eqb_cross_w (bits : Z) (signed : bool) (a b : c14_mapping) : bool :=
  match c14_ext a with
  | [] => Nat.eqb (length (c14_ext b)) 0
  | _ => c14_extents_eqb (c14_ext a) (c14_ext b) &&
         c14_extents_eqb (c14_strides_of a) (map (c14_wrap bits signed) (c14_strides_of b))
  end.

(* ------------------------------------------------------------------ the Horner loops in index_type arithmetic *)
(* value = indices[k] + extent(k) * value  with every operation performed in a `bits`-wide (un)signed integer type *)
Definition c14_horner_step_w (bits : Z) (signed : bool) (v : Z) (ie : Z * Z) : Z :=
  c14_wrap bits signed (fst ie + c14_wrap bits signed (snd ie * v)).
Definition c14_map_right_w (bits : Z) (signed : bool) (E idx : list Z) : Z :=
  match idx with
  | [] => c14_param_right_rank0_offset
  | i0 :: rest => fold_left (c14_horner_step_w bits signed) (combine rest (tl E)) i0
  end.
Definition c14_map_left_w (bits : Z) (signed : bool) (E idx : list Z) : Z :=
  match rev idx with
  | [] => c14_param_left_rank0_offset
  | il :: rest => fold_left (c14_horner_step_w bits signed) (combine rest (tl (rev E))) il
  end.
(* layout_stride: ((index_type(ii) * strides_[r]) + ... + 0) in index_type arithmetic *)
Definition c14_map_stride_w (bits : Z) (signed : bool) (St idx : list Z) : Z :=
  match idx with
  | [] => c14_param_stride_rank0_offset
  | _ => fold_right (fun is acc => c14_wrap bits signed (c14_wrap bits signed (fst is * snd is) + acc)) 0 (combine idx St)
  end.
