(* C14 — lemmas and proofs. *)
From Coq Require Import List ZArith Bool Lia.
From DuneV Require Import C14_Model C14_Spec.
Import ListNotations.
Local Open Scope Z_scope.

Lemma c14_example_right : c14_map_right [2;3;4] [1;2;3] = 23.
Proof. vm_compute. reflexivity. Qed.
