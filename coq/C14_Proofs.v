(* C14 — lemmas and proofs, part 1: products, the Horner loops of layout_right / layout_left,
   range, injectivity, bijectivity, stride steps, layout_stride. *)
From Coq Require Import List ZArith Bool Lia.
From DuneV Require Import C14_Params C14_Model C14_Spec.
Import ListNotations.
Local Open Scope Z_scope.

(* ------------------------------------------------------------------ products *)
Lemma c14_fold_mul : forall E a, fold_left Z.mul E a = a * c14_prod E.
Proof. induction E as [|e E IH]; intros a; simpl; [lia|]. rewrite IH. ring. Qed.

Lemma c14_product_prod : forall E, c14_product E = c14_prod E.
Proof. intros E. unfold c14_product, c14_param_product_init. rewrite c14_fold_mul. ring. Qed.

Lemma c14_prod_app : forall A B, c14_prod (A ++ B) = c14_prod A * c14_prod B.
Proof. induction A as [|a A IH]; intros B; cbn [c14_prod app]; [ring|]. rewrite IH. ring. Qed.

Lemma c14_prod_rev : forall E, c14_prod (rev E) = c14_prod E.
Proof. induction E as [|e E IH]; simpl; [reflexivity|]. rewrite c14_prod_app, IH. simpl. ring. Qed.

Lemma c14_prod_nonneg : forall E, c14_nonneg E -> 0 <= c14_prod E.
Proof. induction 1; simpl; nia. Qed.

Lemma c14_valid_length : forall idx E, c14_valid idx E -> length idx = length E.
Proof. induction 1; simpl; congruence. Qed.

Lemma c14_valid_prod_pos : forall idx E, c14_valid idx E -> 1 <= c14_prod E.
Proof. induction 1; simpl; nia. Qed.

Lemma c14_valid_nonneg : forall idx E, c14_valid idx E -> c14_nonneg E.
Proof. induction 1; constructor; auto; lia. Qed.

Lemma c14_valid_rev : forall idx E, c14_valid idx E -> c14_valid (rev idx) (rev E).
Proof.
  induction 1; simpl; [constructor|].
  apply Forall2_app; auto.
Qed.

Lemma c14_valid_app : forall a b A B, c14_valid a A -> c14_valid b B -> c14_valid (a ++ b) (A ++ B).
Proof. intros. apply Forall2_app; auto. Qed.

(* ------------------------------------------------------------------ dot products *)
Lemma c14_dot_app : forall a b c d, length a = length b ->
  c14_dot (a ++ c) (b ++ d) = c14_dot a b + c14_dot c d.
Proof.
  induction a as [|x a IH]; intros [|y b] c d H; simpl in *; try discriminate; [lia|].
  rewrite IH by lia. ring.
Qed.

Lemma c14_dot_rev : forall a b, length a = length b -> c14_dot (rev a) (rev b) = c14_dot a b.
Proof.
  induction a as [|x a IH]; intros [|y b] H; simpl in *; try discriminate; [reflexivity|].
  rewrite c14_dot_app by (rewrite !rev_length; lia). rewrite IH by lia. simpl. ring.
Qed.

Lemma c14_dot_nil_r : forall a, c14_dot a [] = 0.
Proof. destruct a; reflexivity. Qed.

(* ------------------------------------------------------------------ layout_right: Horner loop = row-major formula *)
Lemma c14_horner_fold : forall rest Et v, length rest = length Et ->
  fold_left c14_horner_step (combine rest Et) v = v * c14_prod Et + c14_dot rest (c14_spec_strides_right Et).
Proof.
  induction rest as [|i rest IH]; intros [|e Et] v H; simpl in *; try discriminate; [lia|].
  rewrite IH by lia. unfold c14_horner_step; simpl. ring.
Qed.

Lemma c14_right_formula : forall E idx, length idx = length E ->
  c14_map_right E idx = c14_spec_right E idx.
Proof.
  intros [|e E] [|i idx] H; simpl in *; try discriminate; [reflexivity|].
  unfold c14_spec_right. simpl. rewrite c14_horner_fold by lia. ring.
Qed.

(* ------------------------------------------------------------------ layout_left: the same loop on the reversed lists *)
Lemma c14_left_as_right : forall E idx, c14_map_left E idx = c14_map_right (rev E) (rev idx).
Proof. reflexivity. Qed.

Lemma c14_strides_right_snoc : forall E e,
  c14_spec_strides_right (E ++ [e]) = map (Z.mul e) (c14_spec_strides_right E) ++ [1].
Proof.
  induction E as [|x E IH]; intros e; simpl; [reflexivity|].
  rewrite IH, c14_prod_app. simpl. f_equal. ring.
Qed.

Lemma c14_strides_left_rev : forall E a,
  map (Z.mul a) (c14_spec_strides_right (rev E)) = rev (c14_spec_strides_left_from a E).
Proof.
  induction E as [|e E IH]; intros a; simpl; [reflexivity|].
  rewrite c14_strides_right_snoc, map_app, map_map. simpl.
  rewrite <- IH. f_equal; [|f_equal; lia].
  apply map_ext. intros; ring.
Qed.

Lemma c14_strides_left_length : forall E a, length (c14_spec_strides_left_from a E) = length E.
Proof. induction E; intros; simpl; auto. Qed.
Lemma c14_strides_right_length : forall E, length (c14_spec_strides_right E) = length E.
Proof. induction E; simpl; auto. Qed.

Lemma c14_map_mul1 : forall l, map (Z.mul 1) l = l.
Proof. induction l as [|x l IH]; [reflexivity|]. cbn [map]. rewrite IH. f_equal. ring. Qed.

Lemma c14_left_formula : forall E idx, length idx = length E ->
  c14_map_left E idx = c14_spec_left E idx.
Proof.
  intros E idx H. rewrite c14_left_as_right, c14_right_formula by (rewrite !rev_length; auto).
  unfold c14_spec_right, c14_spec_left, c14_spec_strides_left.
  pose proof (c14_strides_left_rev E 1) as R.
  rewrite c14_map_mul1 in R.
  rewrite R. apply c14_dot_rev. rewrite c14_strides_left_length. auto.
Qed.

(* the recursive (Horner) reading of the column-major formula, as in the doc comment of layout_left *)
Lemma c14_dot_left_scale : forall E idx a b,
  c14_dot idx (c14_spec_strides_left_from (a * b) E) = a * c14_dot idx (c14_spec_strides_left_from b E).
Proof.
  induction E as [|x E IH]; intros [|j idx] a b; cbn [c14_dot c14_spec_strides_left_from]; try ring.
  replace (a * b * x) with (a * (b * x)) by ring. rewrite IH. ring.
Qed.

Lemma c14_spec_left_cons : forall e E i idx,
  c14_spec_left (e :: E) (i :: idx) = i + e * c14_spec_left E idx.
Proof.
  intros. unfold c14_spec_left, c14_spec_strides_left. cbn [c14_dot c14_spec_strides_left_from].
  replace (1 * e) with (e * 1) by ring. rewrite c14_dot_left_scale. ring.
Qed.

(* ------------------------------------------------------------------ range *)
Lemma c14_spec_right_range : forall idx E, c14_valid idx E -> 0 <= c14_spec_right E idx < c14_prod E.
Proof.
  unfold c14_spec_right. induction 1 as [|i e idx E Hi H IH]; simpl; [lia|].
  pose proof (c14_valid_prod_pos _ _ H). nia.
Qed.

Lemma c14_right_in_range : forall idx E, c14_valid idx E ->
  0 <= c14_map_right E idx < c14_product E.
Proof.
  intros. rewrite c14_right_formula, c14_product_prod by (eapply c14_valid_length; eauto).
  apply c14_spec_right_range; auto.
Qed.

Lemma c14_left_in_range : forall idx E, c14_valid idx E ->
  0 <= c14_map_left E idx < c14_product E.
Proof.
  intros. rewrite c14_left_as_right, c14_product_prod, <- c14_prod_rev, <- c14_product_prod.
  apply c14_right_in_range. apply c14_valid_rev; auto.
Qed.

(* ------------------------------------------------------------------ injectivity (mixed-radix uniqueness) *)
Lemma c14_spec_right_inj : forall i E, c14_valid i E -> forall j, c14_valid j E ->
  c14_spec_right E i = c14_spec_right E j -> i = j.
Proof.
  induction 1 as [|x e i E Hx H IH]; intros j Hj Heq; inversion Hj as [|y e' j' E' Hy Hj']; subst; [reflexivity|].
  unfold c14_spec_right in *. simpl in Heq.
  pose proof (c14_spec_right_range _ _ H) as R1. pose proof (c14_spec_right_range _ _ Hj') as R2.
  unfold c14_spec_right in R1, R2.
  assert (x = y) by nia. subst y.
  f_equal. apply IH; auto. unfold c14_spec_right. lia.
Qed.

Lemma c14_right_injective : forall E i j, c14_valid i E -> c14_valid j E ->
  c14_map_right E i = c14_map_right E j -> i = j.
Proof.
  intros E i j Hi Hj. rewrite !c14_right_formula by (eapply c14_valid_length; eauto).
  apply c14_spec_right_inj; auto.
Qed.

Lemma c14_left_injective : forall E i j, c14_valid i E -> c14_valid j E ->
  c14_map_left E i = c14_map_left E j -> i = j.
Proof.
  intros E i j Hi Hj H. rewrite !c14_left_as_right in H.
  apply c14_right_injective in H; auto using c14_valid_rev.
  rewrite <- (rev_involutive i), <- (rev_involutive j). congruence.
Qed.

(* ------------------------------------------------------------------ surjectivity: inverse digit decomposition *)
Lemma c14_unrank_right_ok : forall E, c14_nonneg E -> forall k, 0 <= k < c14_prod E ->
  c14_valid (c14_unrank_right E k) E /\ c14_spec_right E (c14_unrank_right E k) = k.
Proof.
  induction 1 as [|e E He H IH]; intros k Hk; simpl in *.
  - split; [constructor|]. unfold c14_spec_right; simpl. lia.
  - pose proof (c14_prod_nonneg _ H) as HP.
    assert (0 < c14_prod E) by nia.
    destruct (IH (k mod c14_prod E)) as [V S]; [apply Z.mod_pos_bound; lia|].
    split.
    + constructor; auto. split; [apply Z.div_pos; lia|]. apply Z.div_lt_upper_bound; nia.
    + unfold c14_spec_right in *. simpl. rewrite S.
      pose proof (Z.div_mod k (c14_prod E)). nia.
Qed.

Lemma c14_right_exhaustive : forall E, c14_nonneg E -> forall k, 0 <= k < c14_product E ->
  exists idx, c14_valid idx E /\ c14_map_right E idx = k.
Proof.
  intros E HE k Hk. rewrite c14_product_prod in Hk.
  destruct (c14_unrank_right_ok E HE k Hk) as [V S].
  exists (c14_unrank_right E k). split; auto.
  rewrite c14_right_formula; auto. eapply c14_valid_length; eauto.
Qed.

Lemma c14_nonneg_rev : forall E, c14_nonneg E -> c14_nonneg (rev E).
Proof. intros E H. unfold c14_nonneg in *. apply Forall_rev; auto. Qed.

Lemma c14_left_exhaustive : forall E, c14_nonneg E -> forall k, 0 <= k < c14_product E ->
  exists idx, c14_valid idx E /\ c14_map_left E idx = k.
Proof.
  intros E HE k Hk.
  destruct (c14_right_exhaustive (rev E) (c14_nonneg_rev _ HE) k) as [idx [V S]].
  { rewrite c14_product_prod, c14_prod_rev, <- c14_product_prod. auto. }
  exists (rev idx). split.
  - rewrite <- (rev_involutive E). apply c14_valid_rev; auto.
  - rewrite c14_left_as_right, rev_involutive. auto.
Qed.

(* the explicit inverse for layout_left: least significant digit first *)
Lemma c14_unrank_left_ok : forall E, c14_nonneg E -> forall k, 0 <= k < c14_prod E ->
  c14_valid (c14_unrank_left E k) E /\ c14_spec_left E (c14_unrank_left E k) = k.
Proof.
  induction 1 as [|e E He H IH]; intros k Hk; simpl in *.
  - split; [constructor|]. unfold c14_spec_left; simpl. lia.
  - pose proof (c14_prod_nonneg _ H) as HP.
    assert (0 < e) by nia.
    destruct (IH (k / e)) as [V S].
    { split; [apply Z.div_pos; lia|]. apply Z.div_lt_upper_bound; nia. }
    split.
    + constructor; auto. apply Z.mod_pos_bound; lia.
    + rewrite c14_spec_left_cons, S. pose proof (Z.div_mod k e). nia.
Qed.

(* ------------------------------------------------------------------ zero extents *)
Lemma c14_zero_extent_prod : forall E, In 0 E -> c14_prod E = 0.
Proof.
  induction E as [|e E IH]; intros H; [destruct H|].
  cbn [c14_prod]. destruct H as [H|H]; [subst; ring|rewrite IH; auto; ring].
Qed.

Lemma c14_zero_extent_no_valid : forall E idx, In 0 E -> ~ c14_valid idx E.
Proof.
  intros E idx H V. pose proof (c14_valid_prod_pos _ _ V) as P. rewrite (c14_zero_extent_prod _ H) in P. lia.
Qed.

(* ------------------------------------------------------------------ strides *)
Lemma c14_stride_right_nth : forall E r, (r < length E)%nat ->
  c14_stride_right E r = nth r (c14_spec_strides_right E) 0.
Proof.
  unfold c14_stride_right. induction E as [|e E IH]; intros r Hr; simpl in *; [lia|].
  destruct r; simpl.
  - rewrite c14_fold_mul. lia.
  - destruct E as [|e' E']; simpl in *; [lia|]. apply (IH r). lia.
Qed.

Lemma c14_stride_left_nth_gen : forall E a r, (r < length E)%nat ->
  a * c14_prod (firstn r E) = nth r (c14_spec_strides_left_from a E) 0.
Proof.
  induction E as [|e E IH]; intros a r Hr; [simpl in Hr; lia|].
  destruct r; cbn [firstn c14_prod nth c14_spec_strides_left_from]; [ring|].
  rewrite <- IH by (simpl in Hr; lia). ring.
Qed.

Lemma c14_stride_left_nth : forall E r, (r < length E)%nat ->
  c14_stride_left E r = nth r (c14_spec_strides_left E) 0.
Proof.
  intros. unfold c14_stride_left, c14_spec_strides_left. rewrite <- c14_stride_left_nth_gen; auto.
  rewrite c14_fold_mul. reflexivity.
Qed.

Lemma c14_dot_bump : forall idx s r, (r < length idx)%nat -> length idx = length s ->
  c14_dot (c14_bump idx r) s = c14_dot idx s + nth r s 0.
Proof.
  induction idx as [|i idx IH]; intros [|x s] r Hr Hl; simpl in *; try lia.
  destruct r; simpl; [ring|]. rewrite IH by lia. ring.
Qed.

Lemma c14_bump_length : forall idx r, length (c14_bump idx r) = length idx.
Proof. induction idx; intros [|r]; simpl; auto. Qed.

Lemma c14_right_step : forall E idx r, length idx = length E -> (r < length E)%nat ->
  c14_map_right E (c14_bump idx r) = c14_map_right E idx + c14_stride_right E r.
Proof.
  intros. rewrite !c14_right_formula by (rewrite ?c14_bump_length; auto).
  unfold c14_spec_right. rewrite c14_dot_bump, c14_stride_right_nth; auto; try lia.
  rewrite c14_strides_right_length; auto.
Qed.

Lemma c14_left_step : forall E idx r, length idx = length E -> (r < length E)%nat ->
  c14_map_left E (c14_bump idx r) = c14_map_left E idx + c14_stride_left E r.
Proof.
  intros. rewrite !c14_left_formula by (rewrite ?c14_bump_length; auto).
  unfold c14_spec_left. rewrite c14_dot_bump, c14_stride_left_nth; auto; try lia.
  unfold c14_spec_strides_left. rewrite c14_strides_left_length; auto.
Qed.

(* ------------------------------------------------------------------ layout_stride *)
Lemma c14_map_stride_dot : forall St idx, c14_map_stride St idx = c14_dot idx St.
Proof.
  assert (G : forall idx St, fold_right (fun is acc => fst is * snd is + acc) 0 (combine idx St) = c14_dot idx St).
  { induction idx as [|i idx IH]; intros [|s St]; simpl; auto. rewrite IH. reflexivity. }
  intros St [|i idx]; [reflexivity|]. unfold c14_map_stride. apply G.
Qed.

Lemma c14_stride_step : forall St idx r, length idx = length St -> (r < length idx)%nat ->
  c14_map_stride St (c14_bump idx r) = c14_map_stride St idx + nth r St 0.
Proof. intros. rewrite !c14_map_stride_dot. apply c14_dot_bump; auto. Qed.

Definition c14_sum_span (E St : list Z) : Z := c14_dot (map (fun e => e - 1) E) St.

Lemma c14_span_fold : forall E St a,
  fold_left (fun res es => res + (fst es - 1) * snd es) (combine E St) a = a + c14_sum_span E St.
Proof.
  unfold c14_sum_span. induction E as [|e E IH]; intros [|s St] a; simpl; try lia.
  rewrite IH. ring.
Qed.

Lemma c14_span_size_stride_spec : forall E St, E <> [] ->
  c14_span_size_stride E St = if c14_prod E =? 0 then 0 else 1 + c14_sum_span E St.
Proof.
  intros [|e E] St H; [congruence|]. unfold c14_span_size_stride.
  rewrite c14_product_prod. destruct (c14_prod (e :: E) =? 0); auto. apply c14_span_fold.
Qed.

Lemma c14_dot_le_sum_span : forall idx E, c14_valid idx E -> forall St, Forall (fun s => 0 <= s) St ->
  0 <= c14_dot idx St <= c14_sum_span E St.
Proof.
  unfold c14_sum_span.
  induction 1 as [|i e idx E Hi H IH]; intros St HS; simpl; [lia|].
  destruct St as [|s St]; [lia|]. inversion HS; subst. specialize (IH St H3). nia.
Qed.

Lemma c14_stride_in_range : forall idx E St, c14_valid idx E -> Forall (fun s => 0 <= s) St ->
  0 <= c14_map_stride St idx < c14_span_size_stride E St.
Proof.
  intros idx E St V HS. rewrite c14_map_stride_dot.
  pose proof (c14_dot_le_sum_span _ _ V _ HS).
  destruct E as [|e E].
  - inversion V; subst. simpl. unfold c14_param_stride_rank0_span. lia.
  - rewrite c14_span_size_stride_spec by congruence.
    pose proof (c14_valid_prod_pos _ _ V).
    destruct (Z.eqb_spec (c14_prod (e :: E)) 0); lia.
Qed.

(* uniqueness of a strided mapping under the chain condition (dimensions ordered by decreasing stride) *)
Lemma c14_chain_bound : forall idx E, c14_valid idx E -> forall St, length St = length E ->
  c14_stride_chain (combine E St) -> 0 <= c14_dot idx St < c14_tail_bound (combine E St).
Proof.
  induction 1 as [|i e idx E Hi H IH]; intros St HL HC; simpl in *; [lia|].
  destruct St as [|s St]; simpl in *; [discriminate|].
  destruct HC as [HB HC]. specialize (IH St ltac:(lia) HC). nia.
Qed.

Lemma c14_chain_injective : forall i E, c14_valid i E -> forall j St, c14_valid j E -> length St = length E ->
  c14_stride_chain (combine E St) -> c14_dot i St = c14_dot j St -> i = j.
Proof.
  induction 1 as [|x e i E Hx H IH]; intros j St Hj HL HC Heq; inversion Hj as [|y e' j' E' Hy Hj']; subst; [reflexivity|].
  destruct St as [|s St]; simpl in *; [discriminate|].
  destruct HC as [HB HC].
  pose proof (c14_chain_bound _ _ H St ltac:(lia) HC) as B1.
  pose proof (c14_chain_bound _ _ Hj' St ltac:(lia) HC) as B2.
  remember (c14_dot i St) as X. remember (c14_dot j' St) as Y. remember (c14_tail_bound (combine E St)) as B.
  assert (x = y).
  { destruct (Z.lt_trichotomy x y) as [L|[L|L]]; auto; exfalso.
    - assert (s * (x + 1) <= s * y) by (apply Z.mul_le_mono_nonneg_l; lia). lia.
    - assert (s * (y + 1) <= s * x) by (apply Z.mul_le_mono_nonneg_l; lia). lia. }
  subst y. f_equal. subst X Y. apply (IH j' St); auto; lia.
Qed.

Lemma c14_stride_injective : forall E St i j, c14_valid i E -> c14_valid j E -> length St = length E ->
  c14_stride_chain (combine E St) -> c14_map_stride St i = c14_map_stride St j -> i = j.
Proof. intros E St i j Hi Hj HL HC. rewrite !c14_map_stride_dot. eapply c14_chain_injective; eauto. Qed.

Lemma c14_combine_rev : forall (A B : list Z), length A = length B -> combine (rev A) (rev B) = rev (combine A B).
Proof.
  induction A as [|a A IH]; intros [|b B] H; simpl in *; try discriminate; [reflexivity|].
  rewrite <- IH by lia.
  assert (G : forall (X Y : list Z) x y, length X = length Y -> combine (X ++ [x]) (Y ++ [y]) = combine X Y ++ [(x, y)]).
  { clear. induction X as [|x0 X IH]; intros [|y0 Y] x y H; simpl in *; try discriminate; [reflexivity|]. rewrite IH by lia. reflexivity. }
  apply G. rewrite !rev_length. lia.
Qed.

(* ... and with the dimensions listed by increasing stride (layout_left-like, padded or not) *)
Lemma c14_stride_injective_asc : forall E St i j, c14_valid i E -> c14_valid j E -> length St = length E ->
  c14_stride_chain_asc (combine E St) -> c14_map_stride St i = c14_map_stride St j -> i = j.
Proof.
  intros E St i j Hi Hj HL HC Heq. unfold c14_stride_chain_asc in HC.
  rewrite <- c14_combine_rev in HC by lia.
  rewrite !c14_map_stride_dot in Heq.
  pose proof (c14_valid_length _ _ Hi). pose proof (c14_valid_length _ _ Hj).
  rewrite <- (c14_dot_rev i), <- (c14_dot_rev j) in Heq by lia.
  apply (c14_chain_injective _ _ (c14_valid_rev _ _ Hi) _ _ (c14_valid_rev _ _ Hj)) in Heq; auto.
  - rewrite <- (rev_involutive i), <- (rev_involutive j). congruence.
  - rewrite !rev_length. auto.
Qed.

(* the canonical strides satisfy the chain condition, so left/right are instances *)
Lemma c14_chain_right : forall E, c14_nonneg E -> Forall (fun e => 1 <= e) E ->
  c14_stride_chain (combine E (c14_spec_strides_right E)).
Proof.
  induction E as [|e E IH]; intros HN HP; simpl; [auto|].
  inversion HN; inversion HP; subst. split; [|apply IH; auto].
  destruct E as [|e' E']; simpl; lia.
Qed.

(* ------------------------------------------------------------------ machine integers: no intermediate of the Horner loop exceeds the span size *)
Lemma c14_scan_bound : forall rest Et, c14_valid rest Et -> forall v B, 0 <= v < B ->
  Forall (fun x => 0 <= x < B * c14_prod Et) (c14_scan_left v (combine rest Et)).
Proof.
  induction 1 as [|i e rest Et Hi H IH]; intros v B Hv; simpl.
  - constructor; [lia|constructor].
  - pose proof (c14_valid_prod_pos _ _ H).
    assert (1 <= e * c14_prod Et) by nia.
    assert (B * 1 <= B * (e * c14_prod Et)) by (apply Z.mul_le_mono_nonneg_l; lia).
    constructor; [lia|].
    specialize (IH (c14_horner_step v (i, e)) (B * e)).
    replace (B * (e * c14_prod Et)) with (B * e * c14_prod Et) by ring.
    apply IH. unfold c14_horner_step; simpl. nia.
Qed.

Lemma c14_right_trace_bound : forall idx E, c14_valid idx E ->
  Forall (fun x => 0 <= x < c14_product E) (c14_map_right_trace E idx).
Proof.
  intros idx E V. rewrite c14_product_prod. inversion V as [|i e rest Et Hi H]; subst; simpl.
  - constructor; [lia|constructor].
  - replace (e * c14_prod Et) with (e * c14_prod Et) by ring. apply c14_scan_bound; auto.
Qed.

Lemma c14_left_trace_bound : forall idx E, c14_valid idx E ->
  Forall (fun x => 0 <= x < c14_product E) (c14_map_left_trace E idx).
Proof.
  intros idx E V. rewrite c14_product_prod, <- c14_prod_rev, <- c14_product_prod.
  apply (c14_right_trace_bound _ _ (c14_valid_rev _ _ V)).
Qed.

Lemma c14_trace_last_right : forall E idx, last (c14_map_right_trace E idx) 0 = c14_map_right E idx.
Proof.
  intros E [|i rest]; simpl; [reflexivity|].
  generalize (combine rest (tl E)) i. induction l as [|x l IH]; intros v; simpl; [reflexivity|].
  rewrite <- IH. destruct l; reflexivity.
Qed.

(* ------------------------------------------------------------------ the three layouts together *)
Lemma c14_in_range : forall m idx, c14_wf m -> c14_valid idx (c14_ext m) ->
  0 <= c14_map m idx < c14_required_span_size m.
Proof.
  intros [l E St] idx W V. unfold c14_wf, c14_map, c14_required_span_size in *. simpl in *.
  destruct l.
  - apply c14_left_in_range; auto.
  - apply c14_right_in_range; auto.
  - apply c14_stride_in_range; tauto.
Qed.

Lemma c14_injective : forall m i j, c14_unique m -> c14_valid i (c14_ext m) -> c14_valid j (c14_ext m) ->
  c14_map m i = c14_map m j -> i = j.
Proof.
  intros [l E St] i j U Vi Vj. unfold c14_unique, c14_map in *. simpl in *.
  destruct l.
  - apply c14_left_injective; auto.
  - apply c14_right_injective; auto.
  - destruct U as [HL [C|C]].
    + eapply c14_stride_injective; eauto.
    + eapply c14_stride_injective_asc; eauto.
Qed.

Lemma c14_exhaustive : forall m, c14_lay m <> C14_Stride -> c14_nonneg (c14_ext m) ->
  forall k, 0 <= k < c14_required_span_size m ->
  exists idx, c14_valid idx (c14_ext m) /\ c14_map m idx = k.
Proof.
  intros [l E St] HS HN k Hk. unfold c14_map, c14_required_span_size in *. simpl in *.
  destruct l; try congruence.
  - apply c14_left_exhaustive; auto.
  - apply c14_right_exhaustive; auto.
Qed.

Lemma c14_step : forall m idx r, c14_wf m -> length idx = length (c14_ext m) -> (r < length (c14_ext m))%nat ->
  c14_map m (c14_bump idx r) = c14_map m idx + c14_stride m r.
Proof.
  intros [l E St] idx r W HL Hr. unfold c14_wf, c14_map, c14_stride in *. simpl in *.
  destruct l.
  - apply c14_left_step; auto.
  - apply c14_right_step; auto.
  - apply c14_stride_step; lia.
Qed.

Lemma c14_zero_extent : forall m, In 0 (c14_ext m) ->
  c14_required_span_size m = 0 /\ forall idx, ~ c14_valid idx (c14_ext m).
Proof.
  intros [l E St] H. unfold c14_required_span_size. simpl in *.
  split; [|intros; apply c14_zero_extent_no_valid; auto].
  pose proof (c14_zero_extent_prod _ H) as P.
  destruct l; try (rewrite c14_product_prod; auto).
  destruct E as [|e E]; [destruct H|].
  rewrite c14_span_size_stride_spec by congruence. rewrite P. reflexivity.
Qed.

(* canonical strides make layout_stride coincide with layout_right / layout_left on all tuples *)
Lemma c14_stride_canonical_right : forall E idx, length idx = length E ->
  c14_map_stride (c14_spec_strides_right E) idx = c14_map_right E idx.
Proof. intros. rewrite c14_map_stride_dot, c14_right_formula; auto. Qed.
Lemma c14_stride_canonical_left : forall E idx, length idx = length E ->
  c14_map_stride (c14_spec_strides_left E) idx = c14_map_left E idx.
Proof. intros. rewrite c14_map_stride_dot, c14_left_formula; auto. Qed.

(* ------------------------------------------------------------------ non-vacuity witnesses *)
Lemma c14_ex_valid : c14_valid [1; 2; 3] [2; 3; 4] /\ c14_map_right [2; 3; 4] [1; 2; 3] = 23 /\ c14_map_left [2; 3; 4] [1; 2; 3] = 23.
Proof. split; [repeat constructor; lia|split; vm_compute; reflexivity]. Qed.
Lemma c14_ex_unique_padded :
  c14_unique (C14_Mapping C14_Stride [2; 3] [10; 2]) /\ c14_wf (C14_Mapping C14_Stride [2; 3] [10; 2]) /\
  c14_required_span_size (C14_Mapping C14_Stride [2; 3] [10; 2]) = 15.
Proof.
  split; [|split].
  - unfold c14_unique; simpl. split; [reflexivity|left]. unfold c14_tail_bound; simpl. lia.
  - unfold c14_wf; simpl. split; [reflexivity|repeat constructor; lia].
  - vm_compute. reflexivity.
Qed.
