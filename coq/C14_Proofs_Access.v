(* C14 — lemmas and proofs, part 2: extents objects, index-space enumeration, storage access of
   mdspan / mdarray, mdarray(mdspan) copy loop, layout conversions, span. *)
From Coq Require Import List ZArith Bool Lia.
From DuneV Require Import C14_Model C14_Spec C14_Proofs.
Import ListNotations.
Local Open Scope Z_scope.

(* ------------------------------------------------------------------ extents: static/dynamic index table *)
Definition c14_extent_acc (acc : nat) (p : c14_pattern) (dyn : list Z) (r : nat) : Z :=
  match nth r p None with
  | Some e => e
  | None => nth (nth r (c14_dyn_index_from acc p) 0%nat) dyn 0
  end.

Lemma c14_skipn_hd : forall (acc : nat) (dyn : list Z),
  match skipn acc dyn with
  | [] => nth acc dyn 0 = 0 /\ skipn (S acc) dyn = []
  | x :: d' => nth acc dyn 0 = x /\ skipn (S acc) dyn = d'
  end.
Proof.
  induction acc as [|acc IH]; intros [|y dyn]; simpl; auto.
  specialize (IH dyn). destruct (skipn acc dyn) eqn:K; simpl in *; auto.
Qed.

Lemma c14_extents_list_fill_gen : forall p acc dyn,
  map (c14_extent_acc acc p dyn) (seq 0 (length p)) = c14_spec_fill p (skipn acc dyn).
Proof.
  induction p as [|x p IH]; intros acc dyn; [reflexivity|].
  cbn [length seq map]. rewrite <- seq_shift, map_map.
  destruct x as [e|].
  - cbn [c14_spec_fill]. f_equal. rewrite <- (IH acc dyn). apply map_ext. intros r. reflexivity.
  - pose proof (c14_skipn_hd acc dyn) as K.
    cbn [c14_spec_fill]. destruct (skipn acc dyn) as [|y d'] eqn:Q; destruct K as [K1 K2].
    + unfold c14_extent_acc at 1. cbn. rewrite K1. f_equal.
      change (@nil Z) with (@nil Z). rewrite <- K2. rewrite <- (IH (S acc) dyn). apply map_ext. intros r. reflexivity.
    + unfold c14_extent_acc at 1. cbn. rewrite K1. f_equal.
      rewrite <- K2. rewrite <- (IH (S acc) dyn). apply map_ext. intros r. reflexivity.
Qed.

(* the object built from the dynamic values dyn reports exactly the intended extents *)
Lemma c14_extents_list_fill : forall p dyn, c14_extents_list p dyn = c14_spec_fill p dyn.
Proof. intros. exact (c14_extents_list_fill_gen p 0 dyn). Qed.

Lemma c14_fill_init_all : forall p e, c14_spec_compatible p e -> c14_spec_fill p (c14_init_dyn_all p e) = e.
Proof.
  induction p as [|x p IH]; intros [|y e] H; simpl in *; try tauto.
  - destruct x; tauto.
  - destruct x as [s|]; simpl.
    + destruct H as [-> H]. f_equal. auto.
    + f_equal. auto.
Qed.

Lemma c14_fill_firstn : forall p d, c14_spec_fill p (firstn (c14_rank_dynamic p) d) = c14_spec_fill p d.
Proof.
  induction p as [|x p IH]; intros d; [reflexivity|].
  destruct x as [s|].
  - cbn [c14_spec_fill]. f_equal. apply IH.
  - change (c14_rank_dynamic (None :: p)) with (S (c14_rank_dynamic p)).
    destruct d as [|y d]; cbn [firstn c14_spec_fill]; [reflexivity|]. f_equal. apply IH.
Qed.

Lemma c14_extents_all : forall p e, c14_spec_compatible p e ->
  c14_extents_list p (c14_init_dyn_all p e) = e.
Proof. intros. rewrite c14_extents_list_fill. apply c14_fill_init_all; auto. Qed.

Lemma c14_extents_dyn : forall p d,
  c14_extents_list p (c14_init_dyn_only p d) = c14_spec_fill p d.
Proof. intros. rewrite c14_extents_list_fill. apply c14_fill_firstn. Qed.

Lemma c14_compatible_length : forall p e, c14_spec_compatible p e -> length e = length p.
Proof.
  induction p as [|x p IH]; intros [|y e] H; simpl in *; try tauto.
  - destruct x; tauto.
  - destruct x; f_equal; apply IH; tauto.
Qed.

Lemma c14_filter_length_le : forall (p : c14_pattern), (length (filter c14_is_dyn p) <= length p)%nat.
Proof. induction p as [|x p IH]; simpl; [lia|]. destruct (c14_is_dyn x); simpl; lia. Qed.

Lemma c14_all_dynamic : forall p, c14_rank_dynamic p = length p -> forall e, length e = length p ->
  c14_spec_fill p e = e.
Proof.
  induction p as [|x p IH]; intros H [|y e] HL; simpl in *; try discriminate; [reflexivity|].
  assert (length (filter c14_is_dyn p) <= length p)%nat by apply c14_filter_length_le.
  destruct x as [s|]; unfold c14_rank_dynamic in H; simpl in H; [lia|].
  f_equal. apply IH; [unfold c14_rank_dynamic|]; lia.
Qed.

(* both constructor forms, as dispatched by `if constexpr (N == rank_dynamic())` *)
Lemma c14_extents_ctor_all : forall p e, c14_spec_compatible p e ->
  c14_extents_list p (c14_extents_ctor p e) = e.
Proof.
  intros p e H. unfold c14_extents_ctor.
  pose proof (c14_compatible_length _ _ H) as HL.
  destruct (Nat.eqb_spec (length e) (c14_rank_dynamic p)) as [Q|Q].
  - rewrite c14_extents_dyn. apply c14_all_dynamic; lia.
  - apply c14_extents_all; auto.
Qed.

Lemma c14_extents_ctor_dyn : forall p d, length d = c14_rank_dynamic p ->
  c14_extents_list p (c14_extents_ctor p d) = c14_spec_fill p d.
Proof.
  intros p d H. unfold c14_extents_ctor. rewrite H, Nat.eqb_refl. apply c14_extents_dyn.
Qed.

(* converting constructor between compatible extents types preserves every extent *)
Lemma c14_extents_convert_ok : forall p' p dyn, c14_spec_compatible p' (c14_extents_list p dyn) ->
  c14_extents_list p' (c14_extents_convert p' p dyn) = c14_extents_list p dyn.
Proof. intros. unfold c14_extents_convert. apply c14_extents_ctor_all; auto. Qed.

(* ------------------------------------------------------------------ enumeration of the index space *)
Lemma c14_in_zrange_from : forall c k i, In i (c14_zrange_from k c) <-> k <= i < k + Z.of_nat c.
Proof.
  induction c as [|c IH]; intros k i; cbn [c14_zrange_from In].
  - split; [tauto|lia].
  - rewrite IH. lia.
Qed.

Lemma c14_in_zrange : forall e i, In i (c14_zrange e) <-> 0 <= i < e.
Proof. intros e i. unfold c14_zrange. rewrite c14_in_zrange_from. lia. Qed.

Lemma c14_in_tuples : forall E t, In t (c14_tuples E) <-> c14_valid t E.
Proof.
  induction E as [|e E IH]; intros t; simpl.
  - split; [intros [<-|[]]; constructor|]. intros H; inversion H; auto.
  - rewrite in_flat_map. split.
    + intros [i [Hi Ht]]. apply in_map_iff in Ht. destruct Ht as [t' [<- Ht']].
      constructor; [apply c14_in_zrange; auto|apply IH; auto].
    + intros H. inversion H as [|i e' t' E' Hi Ht']; subst.
      exists i. split; [apply c14_in_zrange; auto|]. apply in_map. apply IH; auto.
Qed.

(* ------------------------------------------------------------------ storage *)
Section StoreLemmas.
  Context {T : Type}.

  Lemma c14_set_nat_spec : forall (s : list T) k v, (k < length s)%nat ->
    exists s', c14_set_nat s k v = Some s' /\ length s' = length s /\ nth_error s' k = Some v /\
               forall k', k' <> k -> nth_error s' k' = nth_error s k'.
  Proof.
    induction s as [|x s IH]; intros k v H; simpl in *; [lia|].
    destruct k as [|k].
    - eexists; repeat split; intros [|k'] Hk; simpl; auto; congruence.
    - destruct (IH k v ltac:(lia)) as [s' [E1 [E2 [E3 E4]]]]. rewrite E1.
      eexists; repeat split; simpl; auto. intros [|k'] Hk; simpl; auto.
  Qed.

  Lemma c14_set_spec : forall (s : list T) k v, 0 <= k < Z.of_nat (length s) ->
    exists s', c14_set s k v = Some s' /\ length s' = length s /\ c14_get s' k = Some v /\
               forall k', k' <> k -> c14_get s' k' = c14_get s k'.
  Proof.
    intros s k v H. unfold c14_set, c14_get.
    destruct (Z.ltb_spec k 0); [lia|].
    destruct (c14_set_nat_spec s (Z.to_nat k) v ltac:(lia)) as [s' [E1 [E2 [E3 E4]]]].
    exists s'. repeat split; auto.
    intros k' Hk. destruct (Z.ltb_spec k' 0); auto. apply E4. lia.
  Qed.

  Lemma c14_get_inside : forall (s : list T) k, 0 <= k < Z.of_nat (length s) -> exists v, c14_get s k = Some v.
  Proof.
    intros s k H. unfold c14_get. destruct (Z.ltb_spec k 0); [lia|].
    destruct (nth_error s (Z.to_nat k)) eqn:Q; [eauto|].
    apply nth_error_None in Q. lia.
  Qed.

  Lemma c14_get_outside : forall (s : list T) k, ~ (0 <= k < Z.of_nat (length s)) -> c14_get s k = None.
  Proof.
    intros s k H. unfold c14_get. destruct (Z.ltb_spec k 0); auto.
    apply nth_error_None. lia.
  Qed.

  (* mdspan access designates store[base + map idx], inside the storage whenever the storage holds
     required_span_size elements from base on *)
  Lemma c14_mdspan_access : forall (store : list T) base m idx, c14_wf m -> c14_valid idx (c14_ext m) ->
    0 <= base -> base + c14_required_span_size m <= Z.of_nat (length store) ->
    c14_mdspan_get store base m idx = c14_get store (base + c14_map m idx) /\
    base <= base + c14_map m idx < base + c14_required_span_size m /\
    exists v, c14_mdspan_get store base m idx = Some v.
  Proof.
    intros store base m idx W V Hb Hs. pose proof (c14_in_range m idx W V).
    split; [reflexivity|]. split; [lia|]. apply c14_get_inside. unfold c14_mdspan_offset. lia.
  Qed.

  Lemma c14_mdspan_write_read : forall (store : list T) base m idx v, c14_wf m -> c14_unique m ->
    c14_valid idx (c14_ext m) -> 0 <= base -> base + c14_required_span_size m <= Z.of_nat (length store) ->
    exists store', c14_mdspan_set store base m idx v = Some store' /\ length store' = length store /\
      c14_mdspan_get store' base m idx = Some v /\
      (forall j, c14_valid j (c14_ext m) -> j <> idx -> c14_mdspan_get store' base m j = c14_mdspan_get store base m j) /\
      (forall k, k <> base + c14_map m idx -> c14_get store' k = c14_get store k).
  Proof.
    intros store base m idx v W U V Hb Hs. pose proof (c14_in_range m idx W V).
    unfold c14_mdspan_set, c14_mdspan_get, c14_mdspan_offset.
    destruct (c14_set_spec store (base + c14_map m idx) v ltac:(lia)) as [s' [E1 [E2 [E3 E4]]]].
    exists s'. repeat split; auto.
    intros j Vj Hj. apply E4. intros Q. apply Hj. apply (c14_injective m j idx U Vj V). lia.
  Qed.

  (* every mdarray constructor taking extents/mapping (and value) sizes the container by required_span_size *)
  Lemma c14_mdarray_sized : forall m (v : T), 0 <= c14_required_span_size m ->
    Z.of_nat (length (c14_mdarray_new m v)) = c14_required_span_size m.
  Proof. intros. unfold c14_mdarray_new. rewrite repeat_length. lia. Qed.

  Lemma c14_mdarray_new_get : forall m (v : T) idx, c14_wf m -> c14_valid idx (c14_ext m) ->
    c14_mdarray_get (c14_mdarray_new m v) m idx = Some v.
  Proof.
    intros m v idx W V. pose proof (c14_in_range m idx W V) as R.
    unfold c14_mdarray_get, c14_get, c14_mdarray_new.
    destruct (Z.ltb_spec (c14_map m idx) 0); [lia|].
    rewrite nth_error_repeat; auto. lia.
  Qed.

  (* the element-wise copy loop of mdarray(const mdspan&) *)
  Lemma c14_copy_loop_spec : forall mdst (store : list T) base msrc tuples cont,
    c14_wf mdst -> c14_unique mdst -> c14_ext mdst = c14_ext msrc ->
    c14_required_span_size mdst <= Z.of_nat (length cont) ->
    (forall t, In t tuples -> c14_valid t (c14_ext msrc)) ->
    (forall t, c14_valid t (c14_ext msrc) -> exists v, c14_mdspan_get store base msrc t = Some v) ->
    exists cont', c14_copy_loop cont mdst store base msrc tuples = Some cont' /\ length cont' = length cont /\
      forall t, c14_valid t (c14_ext msrc) ->
        (In t tuples -> c14_mdarray_get cont' mdst t = c14_mdspan_get store base msrc t) /\
        (~ In t tuples -> c14_mdarray_get cont' mdst t = c14_mdarray_get cont mdst t).
  Proof.
    intros mdst store base msrc tuples. induction tuples as [|idx rest IH]; intros cont W U HE Hsz Hval Hsrc.
    - exists cont. simpl. repeat split; auto. intros [].
    - simpl. assert (Vi : c14_valid idx (c14_ext msrc)) by (apply Hval; left; auto).
      destruct (Hsrc idx Vi) as [v Hv]. rewrite Hv.
      assert (Vd : c14_valid idx (c14_ext mdst)) by (rewrite HE; auto).
      pose proof (c14_in_range mdst idx W Vd) as R.
      unfold c14_mdarray_set.
      destruct (c14_set_spec cont (c14_map mdst idx) v ltac:(lia)) as [c1 [E1 [E2 [E3 E4]]]].
      rewrite E1.
      destruct (IH c1 W U HE ltac:(lia) ltac:(intros; apply Hval; right; auto) Hsrc) as [c2 [F1 [F2 F3]]].
      exists c2. split; [auto|]. split; [lia|].
      intros t Vt. destruct (F3 t Vt) as [G1 G2]. split.
      + intros [<-|Hin]; [|auto].
        destruct (in_dec (list_eq_dec Z.eq_dec) idx rest) as [Hin|Hnin]; [auto|].
        rewrite G2 by auto. unfold c14_mdarray_get. rewrite E3. auto.
      + intros Hn. rewrite G2 by (intros Q; apply Hn; right; auto).
        unfold c14_mdarray_get. apply E4. intros Q. apply Hn. left.
        apply (c14_injective mdst idx t U Vd); [rewrite HE; auto|lia].
  Qed.
  Lemma c14_copy_loop_acc_spec : forall mdst (store : list T) acc h msrc tuples cont,
    c14_wf mdst -> c14_unique mdst -> c14_ext mdst = c14_ext msrc ->
    c14_required_span_size mdst <= Z.of_nat (length cont) ->
    (forall t, In t tuples -> c14_valid t (c14_ext msrc)) ->
    (forall t, c14_valid t (c14_ext msrc) -> exists v, c14_view_get store acc h msrc t = Some v) ->
    exists cont', c14_copy_loop_acc cont mdst store acc h msrc tuples = Some cont' /\ length cont' = length cont /\
      forall t, c14_valid t (c14_ext msrc) ->
        (In t tuples -> c14_mdarray_get cont' mdst t = c14_view_get store acc h msrc t) /\
        (~ In t tuples -> c14_mdarray_get cont' mdst t = c14_mdarray_get cont mdst t).
  Proof.
    intros mdst store acc h msrc tuples. induction tuples as [|idx rest IH]; intros cont W U HE Hsz Hval Hsrc.
    - exists cont. simpl. repeat split; auto. intros [].
    - simpl. assert (Vi : c14_valid idx (c14_ext msrc)) by (apply Hval; left; auto).
      destruct (Hsrc idx Vi) as [v Hv]. rewrite Hv.
      assert (Vd : c14_valid idx (c14_ext mdst)) by (rewrite HE; auto).
      pose proof (c14_in_range mdst idx W Vd) as R.
      unfold c14_mdarray_set.
      destruct (c14_set_spec cont (c14_map mdst idx) v ltac:(lia)) as [c1 [E1 [E2 [E3 E4]]]].
      rewrite E1.
      destruct (IH c1 W U HE ltac:(lia) ltac:(intros; apply Hval; right; auto) Hsrc) as [c2 [F1 [F2 F3]]].
      exists c2. split; [auto|]. split; [lia|].
      intros t Vt. destruct (F3 t Vt) as [G1 G2]. split.
      + intros [<-|Hin]; [|auto].
        destruct (in_dec (list_eq_dec Z.eq_dec) idx rest) as [Hin|Hnin]; [auto|].
        rewrite G2 by auto. unfold c14_mdarray_get. rewrite E3. auto.
      + intros Hn. rewrite G2 by (intros Q; apply Hn; right; auto).
        unfold c14_mdarray_get. apply E4. intros Q. apply Hn. left.
        apply (c14_injective mdst idx t U Vd); [rewrite HE; auto|lia].
  Qed.

  (* the default-accessor definitions are the instance acc = c14_default_acc *)
  Lemma c14_view_get_default : forall (store : list T) base m idx,
    c14_view_get store c14_default_acc base m idx = c14_mdspan_get store base m idx.
  Proof. reflexivity. Qed.

  Lemma c14_copy_loop_default : forall mdst (store : list T) base msrc tuples cont,
    c14_copy_loop_acc cont mdst store c14_default_acc base msrc tuples = c14_copy_loop cont mdst store base msrc tuples.
  Proof.
    intros mdst store base msrc tuples. induction tuples as [|idx rest IH]; intros cont; simpl; [reflexivity|].
    rewrite c14_view_get_default. destruct (c14_mdspan_get store base msrc idx); [|reflexivity].
    destruct (c14_mdarray_set cont mdst idx t); auto.
  Qed.

  (* element access through an arbitrary accessor: the cell is acc(handle, map idx); it is inside the storage
     whenever the accessor sends [0, required_span_size) into the storage; distinct tuples reach distinct cells
     whenever the accessor is injective there *)
  Lemma c14_view_access_acc : forall (store : list T) (acc : c14_accessor) h m idx, c14_wf m -> c14_valid idx (c14_ext m) ->
    (forall k, 0 <= k < c14_required_span_size m -> 0 <= acc h k < Z.of_nat (length store)) ->
    c14_view_get store acc h m idx = c14_get store (acc h (c14_map m idx)) /\
    0 <= c14_map m idx < c14_required_span_size m /\
    exists v, c14_view_get store acc h m idx = Some v.
  Proof.
    intros store acc h m idx W V Hacc. pose proof (c14_in_range m idx W V) as R.
    split; [reflexivity|]. split; [auto|]. apply c14_get_inside. apply Hacc; auto.
  Qed.

  Lemma c14_view_cells_distinct : forall (acc : c14_accessor) h m i j, c14_wf m -> c14_unique m ->
    c14_valid i (c14_ext m) -> c14_valid j (c14_ext m) ->
    (forall k k', 0 <= k < c14_required_span_size m -> 0 <= k' < c14_required_span_size m -> acc h k = acc h k' -> k = k') ->
    c14_view_cell acc h m i = c14_view_cell acc h m j -> i = j.
  Proof.
    intros acc h m i j W U Vi Vj Inj Q. unfold c14_view_cell in Q.
    apply (c14_injective m i j U Vi Vj). apply Inj; auto using c14_in_range.
  Qed.
End StoreLemmas.

(* ------------------------------------------------------------------ conversions between layouts *)
Lemma c14_map_nth_seq : forall (L : list Z), map (fun r => nth r L 0) (seq 0 (length L)) = L.
Proof.
  induction L as [|x L IH]; [reflexivity|].
  cbn [length seq map nth]. f_equal. rewrite <- seq_shift, map_map. exact IH.
Qed.

Lemma c14_map_seq_ext : forall (f g : nat -> Z) n, (forall r, (r < n)%nat -> f r = g r) -> map f (seq 0 n) = map g (seq 0 n).
Proof. intros. apply map_ext_in. intros r Hr. apply in_seq in Hr. apply H. lia. Qed.

Lemma c14_strides_of_right : forall E St, c14_strides_of (C14_Mapping C14_Right E St) = c14_spec_strides_right E.
Proof.
  intros. unfold c14_strides_of, c14_stride. simpl.
  etransitivity; [|apply (c14_map_nth_seq (c14_spec_strides_right E))]. rewrite c14_strides_right_length.
  apply c14_map_seq_ext. intros. apply c14_stride_right_nth; auto.
Qed.

Lemma c14_strides_of_left : forall E St, c14_strides_of (C14_Mapping C14_Left E St) = c14_spec_strides_left E.
Proof.
  intros. unfold c14_strides_of, c14_stride. simpl.
  etransitivity; [|apply (c14_map_nth_seq (c14_spec_strides_left E))].
  replace (length (c14_spec_strides_left E)) with (length E) by (unfold c14_spec_strides_left; rewrite c14_strides_left_length; auto).
  apply c14_map_seq_ext. intros. apply c14_stride_left_nth; auto.
Qed.

Lemma c14_strides_of_stride : forall E St, length St = length E -> c14_strides_of (C14_Mapping C14_Stride E St) = St.
Proof.
  intros. unfold c14_strides_of, c14_stride. simpl. rewrite <- H. apply c14_map_nth_seq.
Qed.

(* any -> layout_stride via stride(r) *)
Lemma c14_to_stride_ok : forall m idx, c14_wf m -> length idx = length (c14_ext m) ->
  c14_map (c14_to_stride m) idx = c14_map m idx /\ c14_ext (c14_to_stride m) = c14_ext m.
Proof.
  intros [l E St] idx W HL. split; [|reflexivity]. unfold c14_to_stride, c14_map. simpl in *.
  destruct l; simpl.
  - rewrite c14_strides_of_left. apply c14_stride_canonical_left; auto.
  - rewrite c14_strides_of_right. apply c14_stride_canonical_right; auto.
  - unfold c14_wf in W; simpl in W. rewrite c14_strides_of_stride; tauto.
Qed.

Lemma c14_check_strides_spec : forall E St a, length St = length E ->
  c14_check_strides a (combine E St) = true -> St = c14_spec_strides_left_from a E.
Proof.
  induction E as [|e E IH]; intros [|s St] a HL H; simpl in *; try discriminate; [reflexivity|].
  apply andb_prop in H. destruct H as [H1 H2]. apply Z.eqb_eq in H1. subst s. f_equal. apply IH; auto.
Qed.

Lemma c14_stride_to_left_ok : forall E St m' idx, length St = length E -> length idx = length E ->
  c14_stride_to_left E St = Some m' ->
  c14_map m' idx = c14_map_stride St idx /\ c14_ext m' = E /\ c14_lay m' = C14_Left.
Proof.
  intros E St m' idx HL HI H. unfold c14_stride_to_left in H.
  destruct (c14_check_strides 1 (combine E St)) eqn:C; [|discriminate]. inversion H; subst m'. clear H.
  apply c14_check_strides_spec in C; auto. unfold c14_map; simpl. repeat split.
  rewrite C. symmetry. apply c14_stride_canonical_left; auto.
Qed.

Lemma c14_stride_to_right_ok : forall E St m' idx, length St = length E -> length idx = length E ->
  c14_stride_to_right E St = Some m' ->
  c14_map m' idx = c14_map_stride St idx /\ c14_ext m' = E /\ c14_lay m' = C14_Right.
Proof.
  intros E St m' idx HL HI H. unfold c14_stride_to_right in H.
  destruct (c14_check_strides 1 (combine (rev E) (rev St))) eqn:C; [|discriminate]. inversion H; subst m'. clear H.
  apply c14_check_strides_spec in C; [|rewrite !rev_length; auto]. unfold c14_map; simpl. repeat split.
  assert (Q : St = c14_spec_strides_right E).
  { pose proof (c14_strides_left_rev (rev E) 1) as R. rewrite rev_involutive, c14_map_mul1 in R.
    rewrite R, <- C, rev_involutive. reflexivity. }
  rewrite Q. symmetry. apply c14_stride_canonical_right; auto.
Qed.

Lemma c14_left_right_rank1 : forall E idx, (length E <= 1)%nat -> length idx = length E ->
  c14_map_left E idx = c14_map_right E idx.
Proof.
  intros [|e [|e' E]] [|i [|i' idx]] H HL; simpl in *; try lia; reflexivity.
Qed.

(* every conversion the headers offer preserves the addressing of all tuples *)
Lemma c14_relayout_ok : forall l m m' idx, c14_wf m -> length idx = length (c14_ext m) ->
  c14_relayout l m = Some m' -> c14_map m' idx = c14_map m idx /\ c14_ext m' = c14_ext m.
Proof.
  intros l [lm E St] m' idx W HL H. unfold c14_relayout in H. simpl in *.
  destruct l, lm; simpl in H;
    try (inversion H; subst m'; clear H; first
      [ apply (c14_to_stride_ok (C14_Mapping _ E St)); auto
      | split; reflexivity ]).
  - destruct (Nat.leb_spec (length E) 1); [|discriminate]. inversion H; subst m'. split; [|reflexivity].
    unfold c14_map; simpl. apply c14_left_right_rank1; auto.
  - unfold c14_wf in W; simpl in W. destruct W as [W1 W2].
    destruct (c14_stride_to_left_ok E St m' idx W1 HL H) as [A [B C]]. split; auto.
  - destruct (Nat.leb_spec (length E) 1); [|discriminate]. inversion H; subst m'. split; [|reflexivity].
    unfold c14_map; simpl. symmetry. apply c14_left_right_rank1; auto.
  - unfold c14_wf in W; simpl in W. destruct W as [W1 W2].
    destruct (c14_stride_to_right_ok E St m' idx W1 HL H) as [A [B C]]. split; auto.
Qed.

Lemma c14_relayout_lay : forall l m m', c14_relayout l m = Some m' -> c14_lay m' = l.
Proof.
  intros l [lm E St] m' H. unfold c14_relayout, c14_stride_to_left, c14_stride_to_right in H. simpl in H.
  destruct l, lm; simpl in H;
    repeat match type of H with context [if ?c then _ else _] => destruct c end;
    try discriminate; inversion H; reflexivity.
Qed.

(* mdarray(const mdspan&) for the layouts an mdarray can have (left/right): container sized by the index
   space, every element equal to the view's element *)
Lemma c14_mdarray_from_mdspan_ok : forall (T : Type) (dflt : T) l store base msrc,
  l <> C14_Stride -> c14_wf msrc -> c14_nonneg (c14_ext msrc) ->
  (forall t, c14_valid t (c14_ext msrc) -> exists v, c14_mdspan_get store base msrc t = Some v) ->
  forall mdst, c14_relayout l msrc = Some mdst ->
  exists cont, c14_mdarray_from_mdspan dflt l store base msrc = Some (cont, mdst) /\
    Z.of_nat (length cont) = c14_required_span_size mdst /\
    forall t, c14_valid t (c14_ext msrc) -> c14_mdarray_get cont mdst t = c14_mdspan_get store base msrc t.
Proof.
  intros T dflt l store base msrc Hl W HN Hsrc mdst HR.
  unfold c14_mdarray_from_mdspan. rewrite HR.
  pose proof (c14_relayout_lay _ _ _ HR) as HLay.
  assert (HE : c14_ext mdst = c14_ext msrc).
  { destruct (c14_relayout_ok l msrc mdst (map (fun _ => 0) (c14_ext msrc)) W ltac:(rewrite map_length; auto) HR); auto. }
  assert (Wd : c14_wf mdst) by (unfold c14_wf; rewrite HLay; destruct l; auto; congruence).
  assert (Ud : c14_unique mdst) by (unfold c14_unique; rewrite HLay; destruct l; auto; congruence).
  assert (Hrss : c14_required_span_size mdst = c14_md_size msrc).
  { unfold c14_required_span_size, c14_md_size. rewrite HLay, HE. destruct l; auto; congruence. }
  pose proof (c14_prod_nonneg _ HN) as HP.
  assert (Hlen : Z.of_nat (length (repeat dflt (Z.to_nat (c14_md_size msrc)))) = c14_md_size msrc).
  { rewrite repeat_length. unfold c14_md_size. rewrite c14_product_prod. lia. }
  destruct (c14_copy_loop_spec mdst store base msrc (c14_tuples (c14_ext msrc))
              (repeat dflt (Z.to_nat (c14_md_size msrc))) Wd Ud HE ltac:(lia)
              ltac:(intros t Ht; apply c14_in_tuples; auto) Hsrc) as [cont [C1 [C2 C3]]].
  rewrite C1. exists cont. split; [reflexivity|]. split; [lia|].
  intros t Vt. apply (C3 t Vt). apply c14_in_tuples; auto.
Qed.

(* the same for a view with an ARBITRARY accessor policy: the copy goes through the accessor, so the new array
   holds exactly the view's elements whatever cells the accessor designates *)
Lemma c14_mdarray_from_mdspan_acc_ok : forall (T : Type) (dflt : T) l store (acc : c14_accessor) h msrc,
  l <> C14_Stride -> c14_wf msrc -> c14_nonneg (c14_ext msrc) ->
  (forall t, c14_valid t (c14_ext msrc) -> exists v, c14_view_get store acc h msrc t = Some v) ->
  forall mdst, c14_relayout l msrc = Some mdst ->
  exists cont, c14_mdarray_from_mdspan_acc dflt l store acc h msrc = Some (cont, mdst) /\
    Z.of_nat (length cont) = c14_required_span_size mdst /\
    forall t, c14_valid t (c14_ext msrc) -> c14_mdarray_get cont mdst t = c14_view_get store acc h msrc t.
Proof.
  intros T dflt l store acc h msrc Hl W HN Hsrc mdst HR.
  unfold c14_mdarray_from_mdspan_acc. rewrite HR.
  pose proof (c14_relayout_lay _ _ _ HR) as HLay.
  assert (HE : c14_ext mdst = c14_ext msrc).
  { destruct (c14_relayout_ok l msrc mdst (map (fun _ => 0) (c14_ext msrc)) W ltac:(rewrite map_length; auto) HR); auto. }
  assert (Wd : c14_wf mdst) by (unfold c14_wf; rewrite HLay; destruct l; auto; congruence).
  assert (Ud : c14_unique mdst) by (unfold c14_unique; rewrite HLay; destruct l; auto; congruence).
  assert (Hrss : c14_required_span_size mdst = c14_md_size msrc).
  { unfold c14_required_span_size, c14_md_size. rewrite HLay, HE. destruct l; auto; congruence. }
  pose proof (c14_prod_nonneg _ HN) as HP.
  assert (Hlen : Z.of_nat (length (repeat dflt (Z.to_nat (c14_md_size msrc)))) = c14_md_size msrc).
  { rewrite repeat_length. unfold c14_md_size. rewrite c14_product_prod. lia. }
  destruct (c14_copy_loop_acc_spec mdst store acc h msrc (c14_tuples (c14_ext msrc))
              (repeat dflt (Z.to_nat (c14_md_size msrc))) Wd Ud HE ltac:(lia)
              ltac:(intros t Ht; apply c14_in_tuples; auto) Hsrc) as [cont [C1 [C2 C3]]].
  rewrite C1. exists cont. split; [reflexivity|]. split; [lia|].
  intros t Vt. apply (C3 t Vt). apply c14_in_tuples; auto.
Qed.


(* ------------------------------------------------------------------ span *)
Lemma c14_span_subspan_ok : forall s o c s', c14_span_subspan s o c = Some s' -> 0 <= o ->
  (forall i, c14_span_index s' i = c14_span_index s (o + i)) /\
  (forall i, 0 <= i < c14_sp_len s' -> 0 <= o + i < c14_sp_len s) /\
  c14_sp_len s' = match c with None => c14_sp_len s - o | Some n => n end.
Proof.
  intros [off len] o c s' H Ho. unfold c14_span_subspan, c14_span_index in *. simpl in *.
  destruct c as [n|].
  - destruct (Z.leb_spec o len); simpl in H; [|discriminate].
    destruct (Z.leb_spec n (len - o)); [|discriminate]. inversion H; subst; simpl.
    repeat split; intros; lia.
  - destruct (Z.leb_spec o len); [|discriminate]. inversion H; subst; simpl.
    repeat split; intros; lia.
Qed.

Lemma c14_span_first_ok : forall s c s', c14_span_first s c = Some s' ->
  (forall i, c14_span_index s' i = c14_span_index s i) /\ c14_sp_len s' = c /\ c <= c14_sp_len s.
Proof.
  intros [off len] c s' H. unfold c14_span_first, c14_span_index in *. simpl in *.
  destruct (Z.leb_spec c len); [|discriminate]. inversion H; subst; simpl. repeat split; auto.
Qed.

Lemma c14_span_last_ok : forall s c s', c14_span_last s c = Some s' ->
  (forall i, c14_span_index s' i = c14_span_index s (c14_sp_len s - c + i)) /\ c14_sp_len s' = c /\ c <= c14_sp_len s.
Proof.
  intros [off len] c s' H. unfold c14_span_last, c14_span_index in *. simpl in *.
  destruct (Z.leb_spec c len); [|discriminate]. inversion H; subst; simpl. repeat split; auto. intros; lia.
Qed.

Lemma c14_span_at_ok : forall s i,
  (c14_sp_len s <= i -> c14_span_at s i = None) /\
  (i < c14_sp_len s -> c14_span_at s i = Some (c14_span_index s i)).
Proof.
  intros [off len] i. unfold c14_span_at, c14_span_index. simpl.
  destruct (Z.leb_spec len i); split; intros; auto; lia.
Qed.

(* ------------------------------------------------------------------ swap / assignment *)
Lemma c14_view_swap_ok : forall x y idx,
  c14_view_offset (fst (c14_view_swap x y)) idx = c14_view_offset y idx /\
  c14_view_offset (snd (c14_view_swap x y)) idx = c14_view_offset x idx /\
  snd (fst (c14_view_swap x y)) = snd y /\ snd (snd (c14_view_swap x y)) = snd x.
Proof. intros. repeat split. Qed.

Lemma c14_view_assign_ok : forall x y idx,
  c14_view_offset (fst (c14_view_assign x y)) idx = c14_view_offset y idx /\
  c14_view_offset (snd (c14_view_assign x y)) idx = c14_view_offset y idx /\
  snd (fst (c14_view_assign x y)) = snd y.
Proof. intros. repeat split. Qed.

(* after swap each view is again inside its (new) storage range and addresses distinct elements *)
Lemma c14_view_swap_in_range : forall x y idx, c14_wf (snd y) -> c14_valid idx (c14_ext (snd y)) ->
  fst y <= c14_view_offset (fst (c14_view_swap x y)) idx < fst y + c14_required_span_size (snd y).
Proof.
  intros x y idx W V. pose proof (c14_in_range _ _ W V). unfold c14_view_offset, c14_mdspan_offset. simpl. lia.
Qed.

Lemma c14_array_swap_ok : forall (T : Type) (x y : c14_array T) idx,
  c14_array_get (fst (c14_array_swap x y)) idx = c14_array_get y idx /\
  c14_array_get (snd (c14_array_swap x y)) idx = c14_array_get x idx.
Proof. intros. split; reflexivity. Qed.

Lemma c14_array_assign_ok : forall (T : Type) (x y : c14_array T) idx,
  c14_array_get (fst (c14_array_assign x y)) idx = c14_array_get y idx /\
  c14_array_get (snd (c14_array_assign x y)) idx = c14_array_get y idx.
Proof. intros. split; reflexivity. Qed.

(* ------------------------------------------------------------------ non-vacuity witnesses *)
Lemma c14_ex_extents : c14_spec_compatible [Some 2; None; Some 3] [2; 4; 3] /\
  c14_extents_list [Some 2; None; Some 3] (c14_extents_ctor [Some 2; None; Some 3] [4]) = [2; 4; 3].
Proof. split; [simpl; auto|vm_compute; reflexivity]. Qed.

Lemma c14_ex_from_mdspan :
  c14_mdarray_from_mdspan 0 C14_Left [10; 11; 12; 13; 14; 15; 16] 1 (C14_Mapping C14_Left [2; 3] [])
  = Some ([11; 12; 13; 14; 15; 16], C14_Mapping C14_Left [2; 3] []).
Proof. vm_compute. reflexivity. Qed.

(* extents<int,dyn,4>{2} -> extents<int,2,dyn> and extents<int,dyn,3,dyn>{2,4} -> extents<int,dyn,dyn,4>:
   same number of dynamic extents at different positions *)
Lemma c14_ex_convert_cross :
  c14_spec_compatible [Some 2; None] (c14_extents_list [None; Some 4] [2]) /\
  c14_extents_list [Some 2; None] (c14_extents_convert [Some 2; None] [None; Some 4] [2]) = [2; 4] /\
  c14_extents_list [None; None; Some 4] (c14_extents_convert [None; None; Some 4] [None; Some 3; None] [2; 4]) = [2; 3; 4].
Proof. split; [simpl; auto|split; vm_compute; reflexivity]. Qed.
