(* C14 — lemmas and proofs, part 4 (deepening): facts the code establishes itself (canonical strides are unique /
   exhaustive / well formed), every mapping as a dot product, is_exhaustive() soundness for all layouts, sizes,
   machine-integer side conditions, constructors / conversions / to_mdspan of views and arrays, operator==, span extras. *)
From Coq Require Import List ZArith Bool Lia Permutation.
From DuneV Require Import C14_Params C14_Model C14_Spec C14_Proofs C14_Proofs_Access C14_Proofs_Perm.
Import ListNotations.
Local Open Scope Z_scope.

(* ------------------------------------------------------------------ canonical strides: chain condition for ANY extents *)
Lemma c14_chain_right_gen : forall E, c14_stride_chain (combine E (c14_spec_strides_right E)).
Proof.
  induction E as [|e E IH]; simpl; [auto|]. split; [|exact IH].
  destruct E as [|e' E']; simpl; lia.
Qed.

Lemma c14_chain_left_gen : forall E, c14_stride_chain_asc (combine E (c14_spec_strides_left E)).
Proof.
  intros E. unfold c14_stride_chain_asc.
  rewrite <- c14_combine_rev by (unfold c14_spec_strides_left; rewrite c14_strides_left_length; auto).
  unfold c14_spec_strides_left. rewrite <- c14_strides_left_rev, c14_map_mul1. apply c14_chain_right_gen.
Qed.

Lemma c14_strides_right_nonneg : forall E, c14_nonneg E -> Forall (fun s => 0 <= s) (c14_spec_strides_right E).
Proof. induction 1; simpl; constructor; auto. apply c14_prod_nonneg; auto. Qed.

Lemma c14_strides_left_nonneg : forall E a, c14_nonneg E -> 0 <= a -> Forall (fun s => 0 <= s) (c14_spec_strides_left_from a E).
Proof. intros E a H; revert a. induction H; intros a Ha; simpl; constructor; auto. apply IHForall. nia. Qed.

(* layout_stride::mapping(const M&) applied to a left/right mapping yields a well-formed, unique strided mapping:
   the hypotheses c14_wf / c14_unique of the layout theorems are established by the code itself *)
Lemma c14_to_stride_wf : forall m, c14_wf m -> c14_nonneg (c14_ext m) -> c14_wf (c14_to_stride m).
Proof.
  intros [l E St] W HN. unfold c14_wf, c14_to_stride in *. simpl in *.
  destruct l.
  - rewrite c14_strides_of_left. unfold c14_spec_strides_left. split; [apply c14_strides_left_length|].
    apply c14_strides_left_nonneg; auto; lia.
  - rewrite c14_strides_of_right. split; [apply c14_strides_right_length|apply c14_strides_right_nonneg; auto].
  - destruct W as [W1 W2]. rewrite c14_strides_of_stride; auto.
Qed.

Lemma c14_to_stride_unique : forall m, c14_lay m <> C14_Stride -> c14_unique (c14_to_stride m).
Proof.
  intros [l E St] H. unfold c14_unique, c14_to_stride. simpl in *.
  destruct l; try congruence.
  - rewrite c14_strides_of_left. split; [unfold c14_spec_strides_left; apply c14_strides_left_length|right; apply c14_chain_left_gen].
  - rewrite c14_strides_of_right. split; [apply c14_strides_right_length|left; apply c14_chain_right_gen].
Qed.

(* ------------------------------------------------------------------ every mapping is the dot product with its own stride(r) values *)
Lemma c14_map_as_dot : forall m idx, c14_wf m -> length idx = length (c14_ext m) ->
  c14_map m idx = c14_dot idx (c14_strides_of m).
Proof.
  intros m idx W HL. destruct (c14_to_stride_ok m idx W HL) as [A _]. rewrite <- A.
  unfold c14_to_stride, c14_map. simpl. apply c14_map_stride_dot.
Qed.

(* ------------------------------------------------------------------ span size of the canonical strided mappings *)
Lemma c14_all_pos_prod : forall E, Forall (fun e => 1 <= e) E -> 1 <= c14_prod E.
Proof. induction 1; simpl; nia. Qed.

Lemma c14_nonneg_prod_pos : forall E, c14_nonneg E -> c14_prod E <> 0 -> Forall (fun e => 1 <= e) E.
Proof.
  induction 1 as [|e E He H IH]; intros P; constructor; simpl in P.
  - assert (e <> 0) by nia. lia.
  - apply IH. nia.
Qed.

Lemma c14_sum_span_right : forall E, Forall (fun e => 1 <= e) E ->
  c14_sum_span E (c14_spec_strides_right E) = c14_prod E - 1.
Proof.
  unfold c14_sum_span. induction 1 as [|e E He H IH]; simpl; [reflexivity|]. rewrite IH. ring.
Qed.

Lemma c14_sum_span_left : forall E a,
  c14_sum_span E (c14_spec_strides_left_from a E) = a * (c14_prod E - 1).
Proof.
  unfold c14_sum_span. induction E as [|e E IH]; intros a; simpl; [ring|]. rewrite IH. ring.
Qed.

Lemma c14_to_stride_span : forall m, c14_wf m -> c14_nonneg (c14_ext m) ->
  c14_required_span_size (c14_to_stride m) = c14_required_span_size m.
Proof.
  intros [l E St] W HN. unfold c14_required_span_size, c14_to_stride. simpl in *.
  destruct l; simpl.
  - rewrite c14_strides_of_left. destruct E as [|e E]; [reflexivity|].
    rewrite c14_span_size_stride_spec by congruence. rewrite c14_product_prod.
    unfold c14_spec_strides_left. rewrite c14_sum_span_left.
    destruct (Z.eqb_spec (c14_prod (e :: E)) 0); lia.
  - rewrite c14_strides_of_right. destruct E as [|e E]; [reflexivity|].
    rewrite c14_span_size_stride_spec by congruence. rewrite c14_product_prod.
    destruct (Z.eqb_spec (c14_prod (e :: E)) 0) as [Q|Q]; [lia|].
    rewrite c14_sum_span_right by (apply c14_nonneg_prod_pos; auto). lia.
  - unfold c14_wf in W; simpl in W. rewrite c14_strides_of_stride; tauto.
Qed.

(* is_exhaustive() of the strided image of a left/right mapping answers true on a non-empty index space *)
Lemma c14_to_stride_exhaustive : forall m, c14_lay m <> C14_Stride -> c14_nonneg (c14_ext m) ->
  0 < c14_prod (c14_ext m) -> c14_is_exhaustive (c14_to_stride m) = true.
Proof.
  intros m HL HN HP.
  assert (W : c14_wf m) by (unfold c14_wf; destruct (c14_lay m); auto; congruence).
  pose proof (c14_to_stride_span m W HN) as S.
  destruct m as [l E St]. unfold c14_is_exhaustive, c14_required_span_size, c14_to_stride in *. simpl in *.
  unfold c14_is_exhaustive_stride. destruct E as [|e E]; [reflexivity|].
  rewrite S. destruct l; try congruence; rewrite c14_product_prod;
    (apply andb_true_intro; split; [apply Z.ltb_lt; lia|apply Z.eqb_eq; reflexivity]).
Qed.

(* ------------------------------------------------------------------ is_exhaustive() = true is sound for all three layouts *)
Lemma c14_is_exhaustive_sound : forall m, c14_wf m -> c14_nonneg (c14_ext m) ->
  (forall i j, c14_valid i (c14_ext m) -> c14_valid j (c14_ext m) -> c14_map m i = c14_map m j -> i = j) ->
  c14_is_exhaustive m = true ->
  forall k, 0 <= k < c14_required_span_size m -> exists idx, c14_valid idx (c14_ext m) /\ c14_map m idx = k.
Proof.
  intros [l E St] W HN Inj HX k Hk.
  destruct l.
  - apply c14_exhaustive; simpl; auto; congruence.
  - apply c14_exhaustive; simpl; auto; congruence.
  - unfold c14_is_exhaustive, c14_required_span_size, c14_map, c14_wf in *. simpl in *.
    destruct W as [W1 W2].
    destruct E as [|e E].
    + simpl in Hk. unfold c14_param_stride_rank0_span in Hk. exists []. split; [constructor|]. simpl. unfold c14_param_stride_rank0_offset. lia.
    + assert (HP : 0 < c14_prod (e :: E)).
      { unfold c14_is_exhaustive_stride in HX. apply andb_prop in HX. destruct HX as [H1 H2].
        apply Z.ltb_lt in H1. apply Z.eqb_eq in H2. rewrite c14_product_prod in H2. lia. }
      apply (proj1 (c14_stride_exhaustive_iff (e :: E) St ltac:(congruence) HN HP W2 Inj)); auto.
Qed.

(* ------------------------------------------------------------------ sizes *)
Lemma c14_size_counts_tuples : forall E, c14_nonneg E -> c14_product E = Z.of_nat (length (c14_tuples E)).
Proof.
  intros E H. rewrite c14_tuples_length by auto. rewrite c14_product_prod. pose proof (c14_prod_nonneg _ H). lia.
Qed.

Lemma c14_zero_tuple_valid : forall E, Forall (fun e => 1 <= e) E -> c14_valid (map (fun _ => 0) E) E.
Proof. induction 1; simpl; constructor; auto; lia. Qed.

Lemma c14_empty_iff : forall E, c14_nonneg E -> (c14_product E = 0 <-> forall idx, ~ c14_valid idx E).
Proof.
  intros E HN. rewrite c14_product_prod. split.
  - intros P idx V. pose proof (c14_valid_prod_pos _ _ V). lia.
  - intros H. destruct (Z.eq_dec (c14_prod E) 0) as [Q|Q]; auto.
    exfalso. apply (H (map (fun _ => 0) E)). apply c14_zero_tuple_valid. apply c14_nonneg_prod_pos; auto.
Qed.

(* ------------------------------------------------------------------ machine integers *)
Lemma c14_pow_half : forall b, 0 < b -> 2 ^ b = 2 * 2 ^ (b - 1).
Proof. intros b H. replace b with (Z.succ (b - 1)) at 1 by lia. rewrite Z.pow_succ_r by lia. reflexivity. Qed.

Lemma c14_wrap_fits : forall bits sg v, 0 < bits -> c14_fits bits sg v = true -> c14_wrap bits sg v = v.
Proof.
  intros bits sg v Hb F. unfold c14_fits, c14_wrap in *.
  pose proof (c14_pow_half bits Hb) as P2. assert (0 < 2 ^ (bits - 1)) by (apply Z.pow_pos_nonneg; lia).
  destruct sg; apply andb_prop in F; destruct F as [F1 F2].
  - apply Z.leb_le in F1. apply Z.ltb_lt in F2. simpl.
    destruct (Z_lt_le_dec v 0) as [N|N].
    + assert (Q : v mod 2 ^ bits = v + 2 ^ bits).
      { symmetry. apply Z.mod_unique with (q := -1); lia. }
      rewrite Q. destruct (Z.leb_spec (2 ^ (bits - 1)) (v + 2 ^ bits)); lia.
    + rewrite Z.mod_small by lia. destruct (Z.leb_spec (2 ^ (bits - 1)) v); lia.
  - apply Z.leb_le in F1. apply Z.ltb_lt in F2. simpl. apply Z.mod_small. lia.
Qed.

Lemma c14_fits_below : forall bits sg P x, 0 < bits -> c14_fits bits sg P = true -> 0 <= x <= P -> c14_fits bits sg x = true.
Proof.
  intros bits sg P x Hb F Hx. unfold c14_fits in *.
  assert (0 < 2 ^ (bits - 1)) by (apply Z.pow_pos_nonneg; lia).
  destruct sg; apply andb_prop in F; destruct F as [F1 F2]; apply andb_true_intro;
    apply Z.leb_le in F1; apply Z.ltb_lt in F2; split; try apply Z.leb_le; try apply Z.ltb_lt; lia.
Qed.

(* if the span size is representable in index_type, so is every value the Horner loops compute *)
Lemma c14_fits_trace_right : forall bits sg idx E, 0 < bits -> c14_valid idx E -> c14_fits bits sg (c14_product E) = true ->
  Forall (fun x => c14_fits bits sg x = true) (c14_map_right_trace E idx).
Proof.
  intros bits sg idx E Hb V F. eapply Forall_impl; [|apply c14_right_trace_bound; eauto].
  intros x Hx. simpl in Hx. apply (c14_fits_below bits sg (c14_product E)); auto; lia.
Qed.
Lemma c14_fits_trace_left : forall bits sg idx E, 0 < bits -> c14_valid idx E -> c14_fits bits sg (c14_product E) = true ->
  Forall (fun x => c14_fits bits sg x = true) (c14_map_left_trace E idx).
Proof.
  intros bits sg idx E Hb V F. eapply Forall_impl; [|apply c14_left_trace_bound; eauto].
  intros x Hx. simpl in Hx. apply (c14_fits_below bits sg (c14_product E)); auto; lia.
Qed.

(* stride(r) of left/right on a non-empty index space lies in [1, span size]: the stride loops do not overflow either *)
Lemma c14_forall_firstn_skipn : forall (P : Z -> Prop) n E, Forall P E -> Forall P (firstn n E) /\ Forall P (skipn n E).
Proof. intros P n E H. rewrite <- (firstn_skipn n E) in H. apply Forall_app in H. exact H. Qed.

Lemma c14_stride_bounds : forall idx E r, c14_valid idx E ->
  1 <= c14_stride_right E r <= c14_product E /\ 1 <= c14_stride_left E r <= c14_product E.
Proof.
  intros idx E r V. pose proof (c14_valid_prod_pos _ _ V) as HP.
  assert (A : Forall (fun e => 1 <= e) E) by (apply c14_nonneg_prod_pos; [eapply c14_valid_nonneg; eauto|lia]).
  unfold c14_stride_right, c14_stride_left. rewrite !c14_fold_mul, c14_product_prod.
  destruct (c14_forall_firstn_skipn _ (S r) E A) as [F1 S1]. destruct (c14_forall_firstn_skipn _ r E A) as [F2 S2].
  pose proof (c14_all_pos_prod _ F1). pose proof (c14_all_pos_prod _ S1).
  pose proof (c14_all_pos_prod _ F2). pose proof (c14_all_pos_prod _ S2).
  assert (Q1 : c14_prod E = c14_prod (firstn (S r) E) * c14_prod (skipn (S r) E)) by (rewrite <- c14_prod_app, firstn_skipn; auto).
  assert (Q2 : c14_prod E = c14_prod (firstn r E) * c14_prod (skipn r E)) by (rewrite <- c14_prod_app, firstn_skipn; auto).
  nia.
Qed.

(* ------------------------------------------------------------------ operator== *)
Lemma c14_extents_eqb_refl : forall a, c14_extents_eqb a a = true.
Proof.
  intros a. unfold c14_extents_eqb. rewrite Nat.eqb_refl. simpl.
  induction a as [|x a IH]; simpl; [reflexivity|]. rewrite Z.eqb_refl. exact IH.
Qed.

Lemma c14_extents_eqb_iff : forall a b, c14_extents_eqb a b = true <-> a = b.
Proof.
  intros a b. split; [|intros ->; apply c14_extents_eqb_refl].
  unfold c14_extents_eqb. revert b. induction a as [|x a IH]; intros [|y b]; simpl; intros H; try discriminate; auto.
  apply andb_prop in H. destruct H as [H1 H2]. apply Nat.eqb_eq in H1. apply andb_prop in H2. destruct H2 as [H2 H3].
  apply Z.eqb_eq in H2. subst. f_equal. apply IH. rewrite H3, andb_true_r. apply Nat.eqb_eq. lia.
Qed.

(* two mappings (of any layouts) that compare equal address every tuple identically *)
Lemma c14_mapping_eq_sound : forall a b, c14_wf a -> c14_wf b -> c14_mapping_eqb_cross a b = true ->
  c14_ext a = c14_ext b /\ forall idx, length idx = length (c14_ext a) -> c14_map a idx = c14_map b idx.
Proof.
  intros a b Wa Wb H. unfold c14_mapping_eqb_cross in H.
  destruct (c14_ext a) as [|e E] eqn:EA.
  - apply Nat.eqb_eq in H. destruct (c14_ext b) eqn:EB; [|discriminate]. split; [reflexivity|].
    intros [|i idx] HL; [|discriminate]. rewrite (c14_map_as_dot a) by (auto; rewrite EA; auto).
    rewrite (c14_map_as_dot b) by (auto; rewrite EB; auto). reflexivity.
  - apply andb_prop in H. destruct H as [H1 H2]. apply c14_extents_eqb_iff in H1. apply c14_extents_eqb_iff in H2.
    split; [auto|]. intros idx HL. rewrite (c14_map_as_dot a) by (auto; rewrite EA; auto).
    rewrite (c14_map_as_dot b) by (auto; rewrite <- H1; auto). rewrite H2. reflexivity.
Qed.

(* ------------------------------------------------------------------ constructors / conversions of views and arrays *)
Lemma c14_mdspan_of_extents_ok : forall l p vals h,
  (c14_spec_compatible p vals -> c14_ext (snd (c14_mdspan_of_extents l p vals h)) = vals) /\
  (length vals = c14_rank_dynamic p -> c14_ext (snd (c14_mdspan_of_extents l p vals h)) = c14_spec_fill p vals) /\
  c14_lay (snd (c14_mdspan_of_extents l p vals h)) = l /\ fst (c14_mdspan_of_extents l p vals h) = h.
Proof.
  intros. unfold c14_mdspan_of_extents. simpl. repeat split.
  - apply c14_extents_ctor_all.
  - apply c14_extents_ctor_dyn.
Qed.

Lemma c14_view_convert_ok : forall l x x' idx, c14_wf (snd x) -> length idx = length (c14_ext (snd x)) ->
  c14_view_convert l x = Some x' ->
  c14_view_offset x' idx = c14_view_offset x idx /\ c14_ext (snd x') = c14_ext (snd x).
Proof.
  intros l [h m] x' idx W HL H. unfold c14_view_convert in H. simpl in *.
  destruct (c14_relayout l m) as [m'|] eqn:R; [|discriminate]. inversion H; subst; clear H.
  destruct (c14_relayout_ok l m m' idx W HL R) as [A B]. unfold c14_view_offset, c14_mdspan_offset. simpl. rewrite A. auto.
Qed.

Section ArrayLemmas.
  Context {T : Type}.

  (* an owning array whose container holds required_span_size elements: every valid tuple is inside the container *)
  Lemma c14_array_access : forall (x : c14_array T) idx, c14_wf (snd x) -> c14_valid idx (c14_ext (snd x)) ->
    c14_required_span_size (snd x) <= Z.of_nat (length (fst x)) ->
    0 <= c14_map (snd x) idx < Z.of_nat (length (fst x)) /\ exists v, c14_array_get x idx = Some v.
  Proof.
    intros [c m] idx W V Hs. simpl in *. pose proof (c14_in_range m idx W V).
    split; [lia|]. unfold c14_array_get, c14_mdarray_get. simpl. apply c14_get_inside. lia.
  Qed.

  Lemma c14_mdarray_fill_ok : forall m (v : T) idx, c14_wf m -> c14_valid idx (c14_ext m) -> 0 <= c14_required_span_size m ->
    c14_array_get (c14_mdarray_fill m v) idx = Some v /\
    Z.of_nat (length (fst (c14_mdarray_fill m v))) = c14_required_span_size m.
  Proof.
    intros. unfold c14_mdarray_fill, c14_array_get. simpl. split; [apply c14_mdarray_new_get; auto|apply c14_mdarray_sized; auto].
  Qed.

  (* a write through operator[] of the array changes exactly the designated element *)
  Lemma c14_array_set_get : forall (x : c14_array T) idx v, c14_wf (snd x) -> c14_unique (snd x) ->
    c14_valid idx (c14_ext (snd x)) -> c14_required_span_size (snd x) <= Z.of_nat (length (fst x)) ->
    exists x', c14_array_set x idx v = Some x' /\ snd x' = snd x /\ length (fst x') = length (fst x) /\
      c14_array_get x' idx = Some v /\
      forall j, c14_valid j (c14_ext (snd x)) -> j <> idx -> c14_array_get x' j = c14_array_get x j.
  Proof.
    intros [c m] idx v W U V Hs. simpl in *.
    destruct (c14_mdspan_write_read c 0 m idx v W U V ltac:(lia) ltac:(lia)) as [c' [E1 [E2 [E3 [E4 _]]]]].
    unfold c14_array_set, c14_mdarray_set. simpl.
    change (c14_set c (c14_map m idx) v) with (c14_mdspan_set c 0 m idx v). rewrite E1.
    exists (c', m). repeat split; auto.
  Qed.

  (* to_mdspan(): the view reads the array's own elements, and a write through the view is a write to the array *)
  Lemma c14_to_mdspan_alias : forall (x : c14_array T) idx,
    c14_mdspan_get (fst (c14_to_mdspan x)) (fst (snd (c14_to_mdspan x))) (snd (snd (c14_to_mdspan x))) idx = c14_array_get x idx /\
    snd (snd (c14_to_mdspan x)) = snd x /\
    forall v, c14_mdspan_set (fst (c14_to_mdspan x)) 0 (snd x) idx v
              = match c14_array_set x idx v with Some x' => Some (fst x') | None => None end.
  Proof.
    intros [c m] idx. unfold c14_to_mdspan, c14_array_get, c14_array_set, c14_mdarray_set, c14_mdspan_set, c14_mdspan_offset. simpl.
    repeat split. intros v. destruct (c14_set c (c14_map m idx) v); reflexivity.
  Qed.

  (* converting constructor mdarray(const mdarray<...>&): same container, converted mapping: equal elements *)
  Lemma c14_mdarray_convert_ok : forall l (x x' : c14_array T) idx, c14_wf (snd x) -> length idx = length (c14_ext (snd x)) ->
    c14_mdarray_convert l x = Some x' ->
    c14_array_get x' idx = c14_array_get x idx /\ c14_ext (snd x') = c14_ext (snd x) /\ fst x' = fst x.
  Proof.
    intros l [c m] x' idx W HL H. unfold c14_mdarray_convert in H. simpl in *.
    destruct (c14_relayout l m) as [m'|] eqn:R; [|discriminate]. inversion H; subst; clear H.
    destruct (c14_relayout_ok l m m' idx W HL R) as [A B]. unfold c14_array_get, c14_mdarray_get. simpl. rewrite A. auto.
  Qed.

  (* mdarray(const mdspan&) when the view's storage really holds required_span_size elements (no read hypothesis left) *)
  Lemma c14_mdarray_from_mdspan_sized : forall (dflt : T) l store base msrc,
    l <> C14_Stride -> c14_wf msrc -> c14_nonneg (c14_ext msrc) ->
    0 <= base -> base + c14_required_span_size msrc <= Z.of_nat (length store) ->
    forall mdst, c14_relayout l msrc = Some mdst ->
    exists cont, c14_mdarray_from_mdspan dflt l store base msrc = Some (cont, mdst) /\
      Z.of_nat (length cont) = c14_required_span_size mdst /\
      forall t, c14_valid t (c14_ext msrc) -> c14_mdarray_get cont mdst t = c14_mdspan_get store base msrc t.
  Proof.
    intros dflt l store base msrc Hl W HN Hb Hs mdst HR.
    apply c14_mdarray_from_mdspan_ok; auto.
    intros t Vt. destruct (c14_mdspan_access store base msrc t W Vt Hb Hs) as [_ [_ Ex]]. exact Ex.
  Qed.
End ArrayLemmas.

(* the mapping built on converted extents addresses exactly as the mapping on the source extents *)
Lemma c14_convert_extents_mapping : forall l St p' p dyn idx, c14_spec_compatible p' (c14_extents_list p dyn) ->
  c14_map (C14_Mapping l (c14_extents_list p' (c14_extents_convert p' p dyn)) St) idx =
  c14_map (C14_Mapping l (c14_extents_list p dyn) St) idx /\
  c14_required_span_size (C14_Mapping l (c14_extents_list p' (c14_extents_convert p' p dyn)) St) =
  c14_required_span_size (C14_Mapping l (c14_extents_list p dyn) St).
Proof. intros. rewrite c14_extents_convert_ok by auto. split; reflexivity. Qed.

(* ------------------------------------------------------------------ span extras *)
Lemma c14_subspan_static_extent : forall s ext o c s' n, c14_span_subspan s o c = Some s' ->
  (forall e, ext = Some e -> e = c14_sp_len s) -> c14_subspan_extent ext o c = Some n -> n = c14_sp_len s'.
Proof.
  intros [off len] ext o c s' n H He Hn. unfold c14_span_subspan, c14_subspan_extent in *. simpl in *.
  destruct c as [k|].
  - inversion Hn; subst. destruct ((o <=? len) && (n <=? len - o)); [|discriminate]. inversion H; reflexivity.
  - destruct ext as [e|]; [|discriminate]. inversion Hn; subst. rewrite (He e eq_refl).
    destruct (o <=? len); [|discriminate]. inversion H; reflexivity.
Qed.

Lemma c14_zrange_nth : forall c k n, (n < c)%nat -> nth n (c14_zrange_from k c) 0 = k + Z.of_nat n.
Proof.
  induction c as [|c IH]; intros k n H; [lia|]. destruct n; simpl; [lia|]. rewrite IH by lia. lia.
Qed.

Lemma c14_span_iteration : forall s, 0 <= c14_sp_len s ->
  Z.of_nat (length (c14_span_elems s)) = c14_sp_len s /\
  forall n, (Z.of_nat n < c14_sp_len s) -> nth n (c14_span_elems s) 0 = c14_span_index s (Z.of_nat n).
Proof.
  intros [off len] H. unfold c14_span_elems, c14_span_index. simpl in *. rewrite map_length, c14_zrange_length. split; [lia|].
  intros n Hn. rewrite (nth_indep _ 0 (off + 0)) by (rewrite map_length, c14_zrange_length; lia).
  rewrite (map_nth (fun k => off + k)). unfold c14_zrange. rewrite c14_zrange_nth by lia. lia.
Qed.

Lemma c14_span_front_back : forall s, 0 < c14_sp_len s ->
  c14_span_front s = Some (c14_span_index s 0) /\ c14_span_back s = Some (c14_span_index s (c14_sp_len s - 1)).
Proof.
  intros [off len] H. unfold c14_span_front, c14_span_back, c14_span_index. simpl in *.
  destruct (Z.eqb_spec len 0); [lia|]. split; f_equal; lia.
Qed.

(* ------------------------------------------------------------------ refinement: index_type arithmetic = exact arithmetic *)
Lemma c14_horner_w_fold : forall bits sg, 0 < bits -> forall rest Et, c14_valid rest Et -> forall v B, 0 <= v < B ->
  c14_fits bits sg (B * c14_prod Et) = true ->
  fold_left (c14_horner_step_w bits sg) (combine rest Et) v = fold_left c14_horner_step (combine rest Et) v.
Proof.
  intros bits sg Hb. induction 1 as [|i e rest Et Hi H IH]; intros v B Hv F; [reflexivity|].
  cbn [combine fold_left].
  pose proof (c14_valid_prod_pos _ _ H) as HP.
  assert (A0 : 0 <= e * v) by (apply Z.mul_nonneg_nonneg; lia).
  assert (A1 : e * v <= e * (B - 1)) by (apply Z.mul_le_mono_nonneg_l; lia).
  assert (A2 : 0 <= e * B) by (apply Z.mul_nonneg_nonneg; lia).
  assert (A3 : e * B * 1 <= e * B * c14_prod Et) by (apply Z.mul_le_mono_nonneg_l; lia).
  assert (A4 : B * (e * c14_prod Et) = e * B * c14_prod Et) by ring.
  assert (A5 : e * (B - 1) = e * B - e) by ring.
  assert (E1 : 0 <= e * v <= B * (e * c14_prod Et)) by lia.
  assert (E2 : 0 <= i + e * v <= B * (e * c14_prod Et)) by lia.
  assert (S1 : c14_horner_step_w bits sg v (i, e) = c14_horner_step v (i, e)).
  { unfold c14_horner_step_w, c14_horner_step. simpl.
    rewrite (c14_wrap_fits bits sg (e * v)) by (auto; eapply c14_fits_below; eauto).
    apply c14_wrap_fits; auto. eapply c14_fits_below; eauto. }
  rewrite S1. apply (IH _ (B * e)).
  - unfold c14_horner_step; simpl. replace (B * e) with (e * B) by ring. lia.
  - replace (B * e * c14_prod Et) with (B * (e * c14_prod Et)) by ring. exact F.
Qed.

Lemma c14_machine_right : forall bits sg idx E, 0 < bits -> c14_valid idx E -> c14_fits bits sg (c14_product E) = true ->
  c14_map_right_w bits sg E idx = c14_map_right E idx.
Proof.
  intros bits sg idx E Hb V F. rewrite c14_product_prod in F.
  inversion V as [|i e rest Et Hi H]; subst; [reflexivity|]. simpl.
  apply (c14_horner_w_fold bits sg Hb rest Et H i e Hi). exact F.
Qed.

Lemma c14_machine_left : forall bits sg idx E, 0 < bits -> c14_valid idx E -> c14_fits bits sg (c14_product E) = true ->
  c14_map_left_w bits sg E idx = c14_map_left E idx.
Proof.
  intros bits sg idx E Hb V F.
  change (c14_map_left_w bits sg E idx) with (c14_map_right_w bits sg (rev E) (rev idx)).
  rewrite c14_left_as_right. apply c14_machine_right; auto using c14_valid_rev.
  rewrite c14_product_prod, c14_prod_rev, <- c14_product_prod. exact F.
Qed.

(* layout_stride with non-negative strides: every product and partial sum is bounded by the span size *)
Lemma c14_stride_w_fold : forall bits sg, 0 < bits -> forall idx E, c14_valid idx E -> forall St, Forall (fun s => 0 <= s) St ->
  forall P, c14_sum_span E St <= P -> c14_fits bits sg P = true ->
  fold_right (fun is acc => c14_wrap bits sg (c14_wrap bits sg (fst is * snd is) + acc)) 0 (combine idx St) = c14_dot idx St.
Proof.
  intros bits sg Hb. induction 1 as [|i e idx E Hi H IH]; intros St HS P HP F; [reflexivity|].
  destruct St as [|s St]; [reflexivity|].
  inversion HS as [|s' St' Hs HS']; subst.
  pose proof (c14_dot_le_sum_span _ _ H _ HS') as D.
  unfold c14_sum_span in *. cbn [combine fold_right map c14_dot fst snd] in *.
  rewrite (IH St HS' P ltac:(nia) F).
  assert (B1 : 0 <= i * s) by (apply Z.mul_nonneg_nonneg; lia).
  assert (B2 : i * s <= (e - 1) * s) by (apply Z.mul_le_mono_nonneg_r; lia).
  rewrite (c14_wrap_fits bits sg (i * s)) by (auto; apply (c14_fits_below bits sg P); auto; lia).
  apply c14_wrap_fits; auto. apply (c14_fits_below bits sg P); auto. lia.
Qed.

Lemma c14_machine_stride : forall bits sg idx E St, 0 < bits -> c14_valid idx E -> Forall (fun s => 0 <= s) St ->
  c14_fits bits sg (c14_span_size_stride E St) = true ->
  c14_map_stride_w bits sg St idx = c14_map_stride St idx.
Proof.
  intros bits sg idx E St Hb V HS F. rewrite c14_map_stride_dot.
  destruct idx as [|i idx]; [reflexivity|]. unfold c14_map_stride_w.
  inversion V as [|i' e idx' E' Hi H]; subst.
  assert (NE : e :: E' <> []) by congruence.
  rewrite (c14_span_size_stride_spec (e :: E') St NE) in F.
  pose proof (c14_valid_prod_pos _ _ V).
  destruct (Z.eqb_spec (c14_prod (e :: E')) 0); [lia|].
  apply (c14_stride_w_fold bits sg Hb (i :: idx) (e :: E') V St HS (1 + c14_sum_span (e :: E') St)); auto. lia.
Qed.

(* ------------------------------------------------------------------ coverage audit: one object in both roles, histories, index types *)
Lemma c14_swap_involutive : forall (x y : c14_view),
  c14_view_swap (fst (c14_view_swap x y)) (snd (c14_view_swap x y)) = (x, y) /\
  c14_view_swap x x = (x, x) /\ c14_view_assign x x = (x, x).
Proof. intros. repeat split. Qed.

Lemma c14_array_swap_involutive : forall (T : Type) (x y : c14_array T),
  c14_array_swap (fst (c14_array_swap x y)) (snd (c14_array_swap x y)) = (x, y) /\
  c14_array_swap x x = (x, x) /\ c14_array_assign x x = (x, x).
Proof. intros. repeat split. Qed.

(* indices (or strides) handed over in ANOTHER integral type and converted with index_type(...) designate the same
   element whenever they are representable in index_type *)
Lemma c14_wrap_list_fits : forall bits sg l, 0 < bits -> Forall (fun v => c14_fits bits sg v = true) l ->
  map (c14_wrap bits sg) l = l.
Proof.
  intros bits sg l Hb F. induction F as [|v l Hv F IH]; simpl; [reflexivity|].
  rewrite IH, (c14_wrap_fits bits sg v); auto.
Qed.

Lemma c14_valid_fits : forall bits sg idx E, 0 < bits -> c14_valid idx E -> Forall (fun e => c14_fits bits sg e = true) E ->
  Forall (fun v => c14_fits bits sg v = true) idx.
Proof.
  intros bits sg idx E Hb V. induction V as [|i e idx E Hi V IH]; intros F; constructor; inversion F; subst; auto.
  apply (c14_fits_below bits sg e); auto; lia.
Qed.

Lemma c14_index_conversion : forall bits sg m idx, 0 < bits -> c14_valid idx (c14_ext m) ->
  Forall (fun e => c14_fits bits sg e = true) (c14_ext m) ->
  c14_map m (map (c14_wrap bits sg) idx) = c14_map m idx.
Proof.
  intros bits sg m idx Hb V F. rewrite c14_wrap_list_fits; auto. eapply c14_valid_fits; eauto.
Qed.

Lemma c14_stride_conversion : forall bits sg E St, 0 < bits -> Forall (fun s => c14_fits bits sg s = true) St ->
  C14_Mapping C14_Stride E (map (c14_wrap bits sg) St) = C14_Mapping C14_Stride E St.
Proof. intros. rewrite c14_wrap_list_fits; auto. Qed.

(* ------------------------------------------------------------------ constant answers re-read from the headers are the ones the theorems justify *)
Lemma c14_flags_justified :
  (forall l, c14_is_unique l = true) /\ (forall l, c14_is_strided l = true) /\ (forall l, c14_is_always_unique l = true) /\
  (forall l, c14_is_always_strided l = true) /\
  (forall l, c14_is_always_exhaustive l = match l with C14_Stride => false | _ => true end) /\
  c14_param_dynamic_extent_is_sizemax = true /\ c14_param_mdspan_default_layout = 1%nat /\ c14_param_mdarray_default_layout = 1%nat.
Proof. repeat split; try (intros []; reflexivity); reflexivity. Qed.

(* ------------------------------------------------------------------ non-vacuity witnesses *)
Lemma c14_ex_deep :
  c14_is_exhaustive (c14_to_stride (C14_Mapping C14_Left [2; 3; 4] [])) = true /\
  c14_strides_of (c14_to_stride (C14_Mapping C14_Left [2; 3; 4] [])) = [1; 2; 6] /\
  c14_mapping_eqb_cross (c14_to_stride (C14_Mapping C14_Right [2; 3] [])) (C14_Mapping C14_Right [2; 3] []) = true /\
  c14_wrap 16 true 40000 = -25536 /\ c14_wrap 16 true 123 = 123 /\ c14_fits 16 true 32767 = true /\
  c14_subspan_extent (Some 7) 2 None = Some 5 /\ c14_span_elems (C14_Span 3 4) = [3; 4; 5; 6].
Proof. repeat split; vm_compute; reflexivity. Qed.
