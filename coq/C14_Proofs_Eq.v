(* C14, second cross-cutting audit: operator== between mappings of DIFFERENT extents / index types (the two sides of a
   comparison configured asymmetrically), with strides beyond the range of the narrower index type. *)
From Coq Require Import List ZArith Bool Lia.
From DuneV Require Import C14_Params C14_Model C14_Spec C14_Proofs C14_Proofs_Access C14_Proofs_Perm C14_Proofs_Deep.
Import ListNotations.
Open Scope Z_scope.

Lemma c14_map_wrap_fits : forall bits sg l, 0 < bits -> Forall (fun s => c14_fits bits sg s = true) l ->
  map (c14_wrap bits sg) l = l.
Proof.
  intros bits sg l Hb H. induction H as [|x l Hx _ IH]; simpl; auto.
  rewrite IH. rewrite c14_wrap_fits; auto.
Qed.

(* For ALL mappings: as long as every stride of the right-hand side is representable in the index type of the left-hand
   side, the comparison written in the header is the exact comparison. *)
Lemma c14_mapping_eq_cross_w_exact : forall bits sg a b, 0 < bits ->
  Forall (fun s => c14_fits bits sg s = true) (c14_strides_of b) ->
  c14_mapping_eqb_cross_w bits sg a b = c14_mapping_eqb_cross a b.
Proof.
  intros bits sg a b Hb F. unfold c14_mapping_eqb_cross_w, c14_mapping_eqb_cross.
  rewrite (c14_map_wrap_fits bits sg _ Hb F). reflexivity.
Qed.

(* The exact comparison is symmetric (a == b  iff  b == a), for all mappings. *)
Lemma c14_extents_eqb_sym : forall a b, c14_extents_eqb a b = c14_extents_eqb b a.
Proof.
  intros a b. destruct (c14_extents_eqb a b) eqn:H1.
  - apply c14_extents_eqb_iff in H1. subst. symmetry. apply c14_extents_eqb_refl.
  - destruct (c14_extents_eqb b a) eqn:H2; auto. apply c14_extents_eqb_iff in H2. subst.
    rewrite c14_extents_eqb_refl in H1. discriminate.
Qed.
Lemma c14_mapping_eq_cross_sym : forall a b, c14_mapping_eqb_cross a b = c14_mapping_eqb_cross b a.
Proof.
  intros a b. unfold c14_mapping_eqb_cross.
  destruct (c14_ext a) as [|x ea] eqn:Ea; destruct (c14_ext b) as [|y eb] eqn:Eb; try reflexivity.
  rewrite (c14_extents_eqb_sym (x :: ea) (y :: eb)).
  rewrite (c14_extents_eqb_sym (c14_strides_of a) (c14_strides_of b)). reflexivity.
Qed.

(* Without the representability hypothesis the header's comparison is NOT sound: index_type = short (16 bit, signed),
   a = (extents 2, stride 1), b = (extents 2, stride 65537): a == b holds although a(1) = 1 and b(1) = 65537, and the
   comparison is not symmetric (b == a, evaluated in b's 64-bit index type, is false). *)
Definition c14_eq_witness_a := C14_Mapping C14_Stride [2] [1].
Definition c14_eq_witness_b := C14_Mapping C14_Stride [2] [65537].
Lemma c14_mapping_eq_cross_w_refuted : exists a b idx, c14_wf a /\ c14_wf b /\ c14_valid idx (c14_ext a) /\
  c14_mapping_eqb_cross_w 16 true a b = true /\ c14_mapping_eqb_cross_w 64 true b a = false /\ c14_map a idx <> c14_map b idx.
Proof.
  exists c14_eq_witness_a, c14_eq_witness_b, [1].
  repeat split; try (vm_compute; reflexivity); try (simpl; repeat constructor; lia).
  - vm_compute. discriminate.
Qed.
