(* C14 — lemmas and proofs, part 3: uniqueness of a strided mapping when SOME ordering of the dimensions
   satisfies the chain condition (arbitrary stride permutations), and is_exhaustive() of layout_stride. *)
From Coq Require Import List ZArith Bool Lia Permutation.
From DuneV Require Import C14_Model C14_Spec C14_Proofs C14_Proofs_Access.
Import ListNotations.
Local Open Scope Z_scope.

Definition c14_quad := (Z * Z * Z * Z)%type.          (* (i_r, j_r, E_r, S_r) *)
Definition c14_qi (q : c14_quad) : Z := fst (fst (fst q)).
Definition c14_qj (q : c14_quad) : Z := snd (fst (fst q)).
Definition c14_qe (q : c14_quad) : Z := snd (fst q).
Definition c14_qs (q : c14_quad) : Z := snd q.
Definition c14_qes (q : c14_quad) : Z * Z := (c14_qe q, c14_qs q).

Fixpoint c14_zip4 (i j E St : list Z) : list c14_quad :=
  match i, j, E, St with
  | a :: i', b :: j', e :: E', s :: S' => (a, b, e, s) :: c14_zip4 i' j' E' S'
  | _, _, _, _ => []
  end.

Lemma c14_zip4_proj : forall i j E St, length i = length E -> length j = length E -> length St = length E ->
  map c14_qi (c14_zip4 i j E St) = i /\ map c14_qj (c14_zip4 i j E St) = j /\
  map c14_qes (c14_zip4 i j E St) = combine E St.
Proof.
  induction i as [|a i IH]; intros [|b j] [|e E] [|s St] H1 H2 H3; simpl in *; try discriminate; auto.
  destruct (IH j E St) as [A [B C]]; try lia. rewrite A, B, C. auto.
Qed.

Lemma c14_quads_valid : forall Q, Forall (fun q => 0 <= c14_qi q < c14_qe q) Q ->
  c14_valid (map c14_qi Q) (map c14_qe Q).
Proof. induction 1; simpl; constructor; auto. Qed.

Lemma c14_quads_valid_j : forall Q, Forall (fun q => 0 <= c14_qj q < c14_qe q) Q ->
  c14_valid (map c14_qj Q) (map c14_qe Q).
Proof. induction 1; simpl; constructor; auto. Qed.

Lemma c14_valid_quads : forall i j E St, c14_valid i E -> c14_valid j E -> length St = length E ->
  Forall (fun q => (0 <= c14_qi q < c14_qe q) /\ (0 <= c14_qj q < c14_qe q)) (c14_zip4 i j E St).
Proof.
  intros i j E St Vi; revert j St. induction Vi as [|a e i E Ha Vi IH]; intros j St Vj HL.
  - destruct j; simpl; constructor.
  - inversion Vj as [|b e' j' E' Hb Vj']; subst. destruct St as [|s St]; [discriminate|].
    simpl. constructor; [simpl; auto|]. apply IH; auto.
Qed.

Definition c14_qsum (f : c14_quad -> Z) (Q : list c14_quad) : Z := fold_right (fun q acc => f q + acc) 0 Q.

Lemma c14_qsum_perm : forall f Q Q', Permutation Q Q' -> c14_qsum f Q = c14_qsum f Q'.
Proof. induction 1; simpl; lia. Qed.

Lemma c14_dot_quads_i : forall Q, c14_dot (map c14_qi Q) (map c14_qs Q) = c14_qsum (fun q => c14_qi q * c14_qs q) Q.
Proof. induction Q as [|q Q IH]; simpl; [reflexivity|]. rewrite IH. reflexivity. Qed.
Lemma c14_dot_quads_j : forall Q, c14_dot (map c14_qj Q) (map c14_qs Q) = c14_qsum (fun q => c14_qj q * c14_qs q) Q.
Proof. induction Q as [|q Q IH]; simpl; [reflexivity|]. rewrite IH. reflexivity. Qed.

Lemma c14_combine_quads : forall Q, combine (map c14_qe Q) (map c14_qs Q) = map c14_qes Q.
Proof. induction Q as [|q Q IH]; simpl; [reflexivity|]. rewrite IH. reflexivity. Qed.

Lemma c14_map_eq_forall : forall Q, map c14_qi Q = map c14_qj Q -> Forall (fun q => c14_qi q = c14_qj q) Q.
Proof. induction Q as [|q Q IH]; simpl; intros H; constructor; inversion H; auto. Qed.

Lemma c14_forall_map_eq : forall Q, Forall (fun q => c14_qi q = c14_qj q) Q -> map c14_qi Q = map c14_qj Q.
Proof. induction 1; simpl; congruence. Qed.

(* the mapping is unique as soon as SOME ordering of the dimensions satisfies the chain condition *)
Lemma c14_stride_injective_perm : forall E St i j ES', length St = length E ->
  c14_valid i E -> c14_valid j E ->
  Permutation (combine E St) ES' -> c14_stride_chain ES' ->
  c14_map_stride St i = c14_map_stride St j -> i = j.
Proof.
  intros E St i j ES' HL Vi Vj HP HC Heq.
  pose proof (c14_valid_length _ _ Vi) as Li. pose proof (c14_valid_length _ _ Vj) as Lj.
  destruct (c14_zip4_proj i j E St Li Lj HL) as [Pi [Pj Pes]].
  set (Q := c14_zip4 i j E St) in *.
  rewrite <- Pes in HP. apply Permutation_sym in HP.
  apply Permutation_map_inv in HP. destruct HP as [Q' [HES HQ]].
  pose proof (c14_valid_quads i j E St Vi Vj HL) as FV. fold Q in FV.
  assert (FV' : Forall (fun q => (0 <= c14_qi q < c14_qe q) /\ (0 <= c14_qj q < c14_qe q)) Q')
    by (eapply Permutation_Forall; eauto).
  assert (Vi' : c14_valid (map c14_qi Q') (map c14_qe Q')).
  { apply c14_quads_valid. eapply Forall_impl; [|exact FV']. simpl; tauto. }
  assert (Vj' : c14_valid (map c14_qj Q') (map c14_qe Q')).
  { apply c14_quads_valid_j. eapply Forall_impl; [|exact FV']. simpl; tauto. }
  rewrite !c14_map_stride_dot in Heq.
  assert (Si : c14_dot i St = c14_dot (map c14_qi Q') (map c14_qs Q')).
  { rewrite c14_dot_quads_i, <- (c14_qsum_perm _ _ _ HQ), <- c14_dot_quads_i. rewrite Pi.
    f_equal. clear -Pes HL Li. 
    assert (G : forall (Q0 : list c14_quad), map snd (map c14_qes Q0) = map c14_qs Q0)
      by (induction Q0 as [|q Q0 IH]; simpl; [reflexivity|rewrite IH; reflexivity]).
    rewrite <- G, Pes.
    clear -HL. revert St HL. induction E as [|e E IH]; intros [|s St] HL; simpl in *; try discriminate; auto.
    rewrite <- IH by lia. reflexivity. }
  assert (Sj : c14_dot j St = c14_dot (map c14_qj Q') (map c14_qs Q')).
  { rewrite c14_dot_quads_j, <- (c14_qsum_perm _ _ _ HQ), <- c14_dot_quads_j. rewrite Pj.
    f_equal. clear -Pes HL.
    assert (G : forall (Q0 : list c14_quad), map snd (map c14_qes Q0) = map c14_qs Q0)
      by (induction Q0 as [|q Q0 IH]; simpl; [reflexivity|rewrite IH; reflexivity]).
    rewrite <- G, Pes.
    clear -HL. revert St HL. induction E as [|e E IH]; intros [|s St] HL; simpl in *; try discriminate; auto.
    rewrite <- IH by lia. reflexivity. }
  assert (E' : map c14_qi Q' = map c14_qj Q').
  { apply (c14_chain_injective _ _ Vi' _ (map c14_qs Q') Vj').
    - rewrite !map_length. reflexivity.
    - rewrite c14_combine_quads, <- HES. exact HC.
    - lia. }
  apply c14_map_eq_forall in E'.
  assert (EQ : Forall (fun q => c14_qi q = c14_qj q) Q) by (eapply Permutation_Forall; [apply Permutation_sym; exact HQ|exact E']).
  apply c14_forall_map_eq in EQ. congruence.
Qed.

(* ------------------------------------------------------------------ is_exhaustive() of layout_stride *)
Lemma c14_nodup_app : forall (A : Type) (l1 l2 : list A), NoDup l1 -> NoDup l2 ->
  (forall x, In x l1 -> ~ In x l2) -> NoDup (l1 ++ l2).
Proof.
  induction l1 as [|a l1 IH]; intros l2 N1 N2 D; simpl; auto.
  inversion N1; subst. constructor.
  - rewrite in_app_iff. intros [H|H]; [auto|]. apply (D a); simpl; auto.
  - apply IH; auto. intros x Hx. apply D. simpl; auto.
Qed.

Lemma c14_nodup_map_in : forall (A B : Type) (f : A -> B) l, NoDup l ->
  (forall x y, In x l -> In y l -> f x = f y -> x = y) -> NoDup (map f l).
Proof.
  induction l as [|a l IH]; intros N I; simpl; constructor; inversion N; subst.
  - rewrite in_map_iff. intros [x [Hx Hin]]. assert (x = a) by (apply I; simpl; auto). subst. auto.
  - apply IH; auto. intros; apply I; simpl; auto.
Qed.

Lemma c14_zrange_from_length : forall c k, length (c14_zrange_from k c) = c.
Proof. induction c; intros; simpl; auto. Qed.

Lemma c14_zrange_from_nodup : forall c k, NoDup (c14_zrange_from k c).
Proof.
  induction c as [|c IH]; intros k; simpl; constructor; auto.
  rewrite c14_in_zrange_from. lia.
Qed.

Lemma c14_zrange_length : forall n, length (c14_zrange n) = Z.to_nat n.
Proof. intros. apply c14_zrange_from_length. Qed.
Lemma c14_zrange_nodup : forall n, NoDup (c14_zrange n).
Proof. intros. apply c14_zrange_from_nodup. Qed.

Lemma c14_flat_cons_length : forall (T' : list (list Z)) l,
  length (flat_map (fun i => map (cons i) T') l) = (length l * length T')%nat.
Proof. induction l as [|a l IH]; simpl; [reflexivity|]. rewrite app_length, map_length, IH. reflexivity. Qed.

Lemma c14_tuples_length : forall E, c14_nonneg E -> length (c14_tuples E) = Z.to_nat (c14_prod E).
Proof.
  induction 1 as [|e E He H IH]; [reflexivity|].
  cbn [c14_tuples c14_prod]. rewrite c14_flat_cons_length, c14_zrange_length, IH.
  pose proof (c14_prod_nonneg _ H). rewrite Z2Nat.inj_mul; lia.
Qed.

Lemma c14_flat_cons_nodup : forall (T' : list (list Z)) l, NoDup T' -> NoDup l ->
  NoDup (flat_map (fun i => map (cons i) T') l).
Proof.
  intros T' l NT. induction l as [|a l IH]; intros NL; simpl; [constructor|].
  inversion NL; subst. apply c14_nodup_app; auto.
  - apply c14_nodup_map_in; auto. intros x y _ _ Q. inversion Q; auto.
  - intros x Hx Hf. apply in_map_iff in Hx. destruct Hx as [t [<- _]].
    apply in_flat_map in Hf. destruct Hf as [b [Hb Hin]]. apply in_map_iff in Hin.
    destruct Hin as [t' [Q _]]. inversion Q; subst. auto.
Qed.

Lemma c14_tuples_nodup : forall E, NoDup (c14_tuples E).
Proof.
  induction E as [|e E IH]; simpl.
  - constructor; [intros []|constructor].
  - apply c14_flat_cons_nodup; auto. apply c14_zrange_nodup.
Qed.

(* For a unique strided mapping with non-negative strides on a non-empty index space:
   is_exhaustive() is true exactly when the offsets fill [0, required_span_size). *)
Lemma c14_stride_exhaustive_iff : forall E St, E <> [] -> c14_nonneg E -> 0 < c14_prod E ->
  Forall (fun s => 0 <= s) St ->
  (forall i j, c14_valid i E -> c14_valid j E -> c14_map_stride St i = c14_map_stride St j -> i = j) ->
  (c14_is_exhaustive_stride E St = true <->
   forall k, 0 <= k < c14_span_size_stride E St -> exists idx, c14_valid idx E /\ c14_map_stride St idx = k).
Proof.
  intros E St HE HN HP HS Inj.
  set (rss := c14_span_size_stride E St).
  set (T := c14_tuples E). set (offs := map (c14_map_stride St) T).
  assert (NO : NoDup offs).
  { apply c14_nodup_map_in; [apply c14_tuples_nodup|]. intros x y Hx Hy. apply Inj; apply c14_in_tuples; auto. }
  assert (IO : incl offs (c14_zrange rss)).
  { intros o Ho. apply in_map_iff in Ho. destruct Ho as [t [<- Ht]]. apply c14_in_tuples in Ht.
    apply c14_in_zrange. apply c14_stride_in_range; auto. }
  assert (LO : length offs = Z.to_nat (c14_prod E)) by (unfold offs; rewrite map_length; apply c14_tuples_length; auto).
  assert (EX : c14_is_exhaustive_stride E St = ((0 <? rss) && (rss =? c14_prod E))).
  { unfold c14_is_exhaustive_stride. destruct E; [congruence|]. rewrite c14_product_prod. reflexivity. }
  assert (R0 : 0 <= rss).
  { destruct (c14_tuples E) as [|t0 T0] eqn:QT.
    - pose proof (c14_tuples_length E HN) as L. rewrite QT in L. simpl in L. lia.
    - assert (V0 : c14_valid t0 E) by (apply c14_in_tuples; rewrite QT; simpl; auto).
      pose proof (c14_stride_in_range _ _ St V0 HS). unfold rss. lia. }
  rewrite EX. split.
  - intros H. apply andb_prop in H. destruct H as [H1 H2]. apply Z.ltb_lt in H1. apply Z.eqb_eq in H2.
    intros k Hk.
    assert (incl (c14_zrange rss) offs).
    { apply NoDup_length_incl; auto. rewrite c14_zrange_length, LO. lia. }
    assert (Hin : In k offs) by (apply H; apply c14_in_zrange; auto).
    apply in_map_iff in Hin. destruct Hin as [t [Q Ht]]. exists t. split; [apply c14_in_tuples; auto|auto].
  - intros F.
    assert (I2 : incl (c14_zrange rss) offs).
    { intros k Hk. apply c14_in_zrange in Hk. destruct (F k Hk) as [idx [V Q]].
      apply in_map_iff. exists idx. split; auto. apply c14_in_tuples; auto. }
    pose proof (NoDup_incl_length (c14_zrange_nodup rss) I2) as L1.
    pose proof (NoDup_incl_length NO IO) as L2.
    rewrite c14_zrange_length, LO in *.
    assert (rss = c14_prod E) by lia.
    apply andb_true_intro. split; [apply Z.ltb_lt; lia|apply Z.eqb_eq; auto].
Qed.

(* on an empty index space is_exhaustive() is false although the (vacuous) fill statement holds *)
Lemma c14_stride_exhaustive_empty : 
  c14_is_exhaustive_stride [0; 3] [3; 1] = false /\ c14_span_size_stride [0; 3] [3; 1] = 0.
Proof. split; vm_compute; reflexivity. Qed.

Lemma c14_ex_perm : Permutation (combine [2; 3; 5] [15; 1; 3]) [(2, 15); (5, 3); (3, 1)] /\
  c14_stride_chain [(2, 15); (5, 3); (3, 1)].
Proof. split; [simpl; apply perm_skip; apply perm_swap|simpl; unfold c14_tail_bound; simpl; lia]. Qed.
