(* C14 — the abstract statement.  An index space is a list of extents E; a valid index tuple has
   0 <= i_r < E_r in every dimension.  A layout is the linear form  idx |-> sum_r i_r * s_r  with
   s_r = prod_{t>r} E_t (right / row-major), s_r = prod_{t<r} E_t (left / column-major) or given
   strides.  The functions below are the textbook formulas (not the loops of the code) and are
   the executable oracle of the correspondence check. *)
From Coq Require Import List ZArith Bool.
From DuneV Require Import C14_Model.
Import ListNotations.
Local Open Scope Z_scope.

Definition c14_valid (idx E : list Z) : Prop := Forall2 (fun i e => 0 <= i < e) idx E.
Definition c14_nonneg (E : list Z) : Prop := Forall (fun e => 0 <= e) E.

Fixpoint c14_prod (E : list Z) : Z := match E with [] => 1 | e :: E' => e * c14_prod E' end.
Fixpoint c14_dot (idx s : list Z) : Z :=
  match idx, s with i :: idx', x :: s' => i * x + c14_dot idx' s' | _, _ => 0 end.
(* s_r = prod_{t>r} E_t *)
Fixpoint c14_spec_strides_right (E : list Z) : list Z :=
  match E with [] => [] | _ :: E' => c14_prod E' :: c14_spec_strides_right E' end.
(* s_r = prod_{t<r} E_t *)
Fixpoint c14_spec_strides_left_from (acc : Z) (E : list Z) : list Z :=
  match E with [] => [] | e :: E' => acc :: c14_spec_strides_left_from (acc * e) E' end.
Definition c14_spec_strides_left (E : list Z) : list Z := c14_spec_strides_left_from 1 E.

Definition c14_spec_right (E idx : list Z) : Z := c14_dot idx (c14_spec_strides_right E).
Definition c14_spec_left (E idx : list Z) : Z := c14_dot idx (c14_spec_strides_left E).

(* the extents an extents<I,p...> object built from the dynamic values d is meant to have *)
Fixpoint c14_spec_fill (p : c14_pattern) (d : list Z) : list Z :=
  match p with
  | [] => []
  | Some e :: p' => e :: c14_spec_fill p' d
  | None :: p' => match d with x :: d' => x :: c14_spec_fill p' d' | [] => 0 :: c14_spec_fill p' [] end
  end.
(* the values a full list e agrees with the static part of the pattern (precondition of the constructors) *)
Fixpoint c14_spec_compatible (p : c14_pattern) (e : list Z) : Prop :=
  match p, e with
  | [], [] => True
  | Some s :: p', x :: e' => s = x /\ c14_spec_compatible p' e'
  | None :: p', _ :: e' => c14_spec_compatible p' e'
  | _, _ => False
  end.

(* unit step in dimension r *)
Fixpoint c14_bump (idx : list Z) (r : nat) : list Z :=
  match idx, r with
  | [], _ => []
  | i :: idx', O => (i + 1) :: idx'
  | i :: idx', S r' => i :: c14_bump idx' r'
  end.

(* inverse of the row-major map (digit decomposition), used for surjectivity *)
Fixpoint c14_unrank_right (E : list Z) (k : Z) : list Z :=
  match E with
  | [] => []
  | _ :: E' => (k / c14_prod E') :: c14_unrank_right E' (k mod c14_prod E')
  end.
Fixpoint c14_unrank_left (E : list Z) (k : Z) : list Z :=
  match E with
  | [] => []
  | e :: E' => (k mod e) :: c14_unrank_left E' (k / e)
  end.

(* A sufficient condition for a strided mapping to be unique (the usual one, up to the order of the
   dimensions): with the dimensions listed from the largest stride to the smallest, every stride
   is at least extent*stride of the next dimension, and the last stride is at least 1.
   c14_stride_chain_asc is the same condition with the dimensions listed the other way round. *)
Definition c14_tail_bound (ES : list (Z * Z)) : Z :=
  match ES with [] => 1 | es :: _ => fst es * snd es end.
Fixpoint c14_stride_chain (ES : list (Z * Z)) : Prop :=
  match ES with
  | [] => True
  | es :: ES' => c14_tail_bound ES' <= snd es /\ c14_stride_chain ES'
  end.
Definition c14_stride_chain_asc (ES : list (Z * Z)) : Prop := c14_stride_chain (rev ES).

(* well-formedness of a mapping record: a strided mapping carries one non-negative stride per dimension *)
Definition c14_wf (m : c14_mapping) : Prop :=
  match c14_lay m with
  | C14_Stride => length (c14_str m) = length (c14_ext m) /\ Forall (fun s => 0 <= s) (c14_str m)
  | _ => True
  end.
(* "stride vectors that make a unique mapping": the chain condition, dimensions ordered either way *)
Definition c14_unique (m : c14_mapping) : Prop :=
  match c14_lay m with
  | C14_Stride => length (c14_str m) = length (c14_ext m) /\
                  (c14_stride_chain (combine (c14_ext m) (c14_str m)) \/ c14_stride_chain_asc (combine (c14_ext m) (c14_str m)))
  | _ => True
  end.
