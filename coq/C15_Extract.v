(* Extraction of the C15 model and spec oracles for the correspondence check (ExtrOcamlBasic only). *)
From Coq Require Import Extraction ExtrOcamlBasic.
From Coq Require Import List NArith Bool Arith.
From DuneV Require Import C15_Model C15_Spec.
Extraction Language OCaml.
Extraction "c15_model.ml"
  c15_geometry c15_pa_geometry c15_chunk_bytes c15_run c15_client_empty c15_pool_destroy c15_ops_ok
  c15_spec_trace c15_spec_nchunks c15_spec_destroy
  c15_max_size c15_malloc_allocate c15_aligned_allocate c15_sys_malloc c15_sys_aligned c15_spec_malloc_must_refuse c15_spec_unservable
  c15_dbg_run c15_dbg_final c15_dbg_destroy c15_dbg_state0 c15_spec_dbg_trace c15_spec_dbg_servable c15_spec_dbg_destroy
  c15_dbgk_run c15_dbgk_state0 c15_pa_max_size c15_pa_equal c15_stateless_equal
  c15_isAligned c15_spec_isAligned c15_hrun c15_hclient_empty c15_mrun c15_mops_ok c15_alignedbase_new c15_debug_alignment.
