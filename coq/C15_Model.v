(* C15 — executable model of the dune-common allocators:
     dune/common/poolallocator.hh   (Pool<T,s>, PoolAllocator<T,s>)
     dune/common/mallocallocator.hh (MallocAllocator<T>)
     dune/common/alignedallocator.hh(AlignedAllocator<T,Alignment>)
     dune/common/debugallocator.hh  (DebugMemory::AllocationManager, DebugAllocator<T>)
     dune/common/debugalign.hh      (isAligned)
   Definitions only (no proofs): the model must run even when a proof breaks.

   Numbers are N.  The element type T enters only through (sT, aT) = (sizeof T, alignof T).
   C++ `int` / `size_t` arithmetic is totalised explicitly: a geometry whose compile-time
   `int` constants leave [0, 2^31) is `None` (the C++ does not compile / narrows), size_t
   arithmetic is taken modulo 2^64 where the code does not guard it.

   Pool: the intrusive free list (`head_`, `Reference::next_` stored inside the free slots) is
   modelled by the SEQUENCE of its nodes (first element = head_); a slot is (chunk number, byte
   offset inside chunk_[]); chunk numbers count `new Chunk` calls (0 = first).  The clients'
   writes into live blocks cannot touch the list because live blocks are not on it
   (C15_pool_inv). *)
From Coq Require Import List NArith Bool Arith.
From DuneV Require Import Params_gen.
Import ListNotations.
Local Open Scope N_scope.

(* ------------------------------------------------------------------ platform constants *)
Definition c15_sizeofRef : N := 8.       (* sizeof(Reference)  = sizeof(void* ) on the LP64 platform *)
Definition c15_alignofRef : N := 8.      (* alignof(Reference) *)
Definition c15_int_max : N := 2 ^ 31 - 1.
Definition c15_size_max : N := 2 ^ 64 - 1.   (* size_type(-1) *)
Definition c15_wrap (x : N) : N := x mod 2 ^ 64.

(* ------------------------------------------------------------------ Pool geometry (poolallocator.hh:113-150) *)
Record c15_geom := C15Geom {
  g_unionSize : N; g_size : N; g_alignment : N; g_alignedSize : N; g_chunkSize : N; g_elements : N }.

(* (x % al == 0) ? x : ((x / al + 1) * al) *)
Definition c15_roundup_gen (add x al : N) : N := if x mod al =? 0 then x else (x / al + add) * al.
Definition c15_roundup (x al : N) : N := c15_roundup_gen 1 x al.
(* the `+ 1` and std::lcm are re-read from poolallocator.hh (Params_gen.v: c15_param_roundup_add_*, c15_param_alignment_is_lcm) *)

Definition c15_geom_raw (sT aT s : N) : c15_geom :=
  let unionSize := if sT <? c15_sizeofRef then c15_sizeofRef else sT in
  let size := if (sT <=? s) && (c15_sizeofRef <=? s) then s else unionSize in
  let alignment := if c15_param_alignment_is_lcm then N.lcm aT c15_alignofRef else N.gcd aT c15_alignofRef in
  let alignedSize := c15_roundup_gen c15_param_roundup_add_aligned unionSize alignment in
  let chunkSize := c15_roundup_gen c15_param_roundup_add_chunk size alignment in
  C15Geom unionSize size alignment alignedSize chunkSize (chunkSize / alignedSize).

(* every `constexpr static int` (and the intermediates of its initialiser) representable *)
Definition c15_geom_in_range (sT aT s : N) : bool :=
  let g := c15_geom_raw sT aT s in
  (s <=? c15_int_max) && (sT <=? c15_int_max) && (g_alignment g <=? c15_int_max)
  && ((g_unionSize g / g_alignment g + c15_param_roundup_add_aligned) * g_alignment g <=? c15_int_max)
  && ((g_size g / g_alignment g + c15_param_roundup_add_chunk) * g_alignment g <=? c15_int_max).

Definition c15_geometry (sT aT s : N) : option c15_geom :=
  if c15_geom_in_range sT aT s then Some (c15_geom_raw sT aT s) else None.

(* PoolAllocator<T,s>: `constexpr static int size = s * sizeof(value_type)`, PoolType = Pool<T,size> *)
Definition c15_pa_geometry (sT aT s : N) : option c15_geom :=
  if s * sT <=? c15_int_max then c15_geometry sT aT (s * sT) else None.

(* sizeof(Chunk): alignas(alignment) char chunk_[chunkSize]; Chunk* next_;  — rounded to alignment *)
Definition c15_chunk_bytes (g : c15_geom) : N :=
  c15_roundup (g_chunkSize g + c15_sizeofRef) (g_alignment g).

(* ------------------------------------------------------------------ Pool state and operations *)
Definition c15_slot := (nat * N)%type.          (* (chunk number, byte offset in chunk_) *)
Definition c15_slot_eqb (a b : c15_slot) : bool := Nat.eqb (fst a) (fst b) && (snd a =? snd b).

Record c15_pool := C15Pool {
  p_chunks : list nat;          (* chunks_ list, head first *)
  p_free : list c15_slot }.     (* free list from head_ *)

Definition c15_pool_empty : c15_pool := C15Pool [] [].

(* grow(): for(char* element=start+alignedSize; element<last; element=element+alignedSize) *)
Fixpoint c15_grow_loop (fuel : nat) (element last alignedSize : N) : option (list N) :=
  if element <? last then
    match fuel with
    | O => None                                   (* out of fuel *)
    | S f => match c15_grow_loop f (element + alignedSize) last alignedSize with
             | Some l => Some (element :: l) | None => None end
    end
  else Some [].

Definition c15_grow (g : c15_geom) (p : c15_pool) : option c15_pool :=
  let c := length (p_chunks p) in                                  (* newChunk *)
  let last := g_elements g * g_alignedSize g in
  match c15_grow_loop (N.to_nat (g_elements g)) (g_alignedSize g) last (g_alignedSize g) with
  | Some offs => Some (C15Pool (c :: p_chunks p) (map (fun o => (c, o)) (0 :: offs)))   (* assert(!head_) *)
  | None => None
  end.

Inductive c15_res (A : Type) := C15Ok (a : A) | C15BadAlloc | C15OutOfFuel | C15Precond | C15Abort.
Arguments C15Ok {A} a. Arguments C15BadAlloc {A}. Arguments C15OutOfFuel {A}. Arguments C15Precond {A}. Arguments C15Abort {A}.

(* Pool::allocate() *)
Definition c15_pool_allocate (g : c15_geom) (p : c15_pool) : c15_res (c15_slot * c15_pool) :=
  match (match p_free p with [] => c15_grow g p | _ => Some p end) with
  | None => C15OutOfFuel
  | Some p1 => match p_free p1 with
               | b :: rest => C15Ok (b, C15Pool (p_chunks p1) rest)
               | [] => C15Precond          (* head_ == 0 after grow(): excluded by elements >= 1 *)
               end
  end.

(* Pool::free(b), checking build (no NDEBUG): b must lie in chunk_[0,chunkSize) of some chunk *)
Definition c15_pool_free (g : c15_geom) (p : c15_pool) (b : c15_slot) : c15_res c15_pool :=
  if existsb (Nat.eqb (fst b)) (p_chunks p) && (snd b <? g_chunkSize g)
  then C15Ok (C15Pool (p_chunks p) (b :: p_free p))
  else C15BadAlloc.

(* ~Pool(): walk chunks_, delete each *)
Definition c15_pool_destroy (p : c15_pool) : list nat := p_chunks p.

(* PoolAllocator::allocate(n): n == 1 ? pool.allocate() : throw bad_alloc *)
Definition c15_pa_allocate (g : c15_geom) (p : c15_pool) (n : N) : c15_res (c15_slot * c15_pool) :=
  if n =? c15_param_pa_alloc_n then c15_pool_allocate g p else C15BadAlloc.     (* `if(n==1)`, re-read from the source *)

(* ------------------------------------------------------------------ histories *)
Inductive c15_op :=
  | OpAlloc (n : N)
  | OpFree (i : nat)                 (* release the i-th live block (allocation order) with its own count *)
  | OpFreeN (i : nat) (n : N)        (* deallocate(p_i, n) with an explicit count (PoolAllocator: 0 = no-op; debug: 0 = "unknown") *)
  | OpFreeInvalid (null : bool)      (* release a null pointer / a pointer that never came from the allocator *)
  | OpCopy (k : N)                   (* copy-construct (0) / converting-construct (1) / rebind (2) the allocator and allocate from the copy *)
  | OpFreeBad (i : nat) (k : N).     (* debug allocator: wrong type (0), interior pointer (1), double free of the i-th released block (2, KEEP mode) *)
Inductive c15_obs := ObsBlock (c : nat) (off : N) | ObsBadAlloc | ObsFreed | ObsPrecond | ObsOutOfFuel | ObsAbort | ObsNoop | ObsCopyOk.

Fixpoint c15_remove_nth {A} (i : nat) (l : list A) : list A :=
  match l, i with
  | [], _ => []
  | _ :: t, O => t
  | h :: t, S j => h :: c15_remove_nth j t
  end.

Record c15_client := C15Client { cl_pool : c15_pool; cl_live : list c15_slot }.
Definition c15_client_empty := C15Client c15_pool_empty [].

Definition c15_step_free (g : c15_geom) (st : c15_client) (i : nat) : c15_client * c15_obs :=
  match nth_error (cl_live st) i with
  | None => (st, ObsPrecond)                   (* not a live block: undefined behaviour in C++ *)
  | Some b => match c15_pool_free g (cl_pool st) b with
              | C15Ok p' => (C15Client p' (c15_remove_nth i (cl_live st)), ObsFreed)
              | C15BadAlloc => (st, ObsBadAlloc)
              | _ => (st, ObsPrecond)
              end
  end.

(* PoolAllocator(const PoolAllocator&), PoolAllocator(const PoolAllocator<U,u>&), rebind<U>::other(a): "we allow copying but
   never copy the pool": the new allocator starts with an empty pool; its first block is slot 0 of a chunk of its own *)
Definition c15_pa_copy (p : c15_pool) : c15_pool := c15_pool_empty.

Definition c15_step (g : c15_geom) (st : c15_client) (op : c15_op) : c15_client * c15_obs :=
  match op with
  | OpAlloc n =>
      match c15_pa_allocate g (cl_pool st) n with
      | C15Ok (b, p') => (C15Client p' (cl_live st ++ [b]), ObsBlock (fst b) (snd b))
      | C15BadAlloc => (st, ObsBadAlloc)
      | C15OutOfFuel => (st, ObsOutOfFuel)
      | C15Precond => (st, ObsPrecond)
      | C15Abort => (st, ObsAbort)
      end
  | OpFree i => c15_step_free g st i
  | OpFreeN i n =>                               (* for(size_t i=0; i<n; i++) memoryPool_.free(p++); *)
      if n =? 0 then (match nth_error (cl_live st) i with Some _ => (st, ObsNoop) | None => (st, ObsPrecond) end)
      else if n =? 1 then c15_step_free g st i
      else (st, ObsPrecond)                      (* frees p+1, ...: blocks that were never handed out together *)
  | OpFreeInvalid null =>                        (* free(0): "Tried to free null pointer" + bad_alloc; foreign pointer: chunk search fails *)
      if null then (st, ObsBadAlloc)
      else match c15_pool_free g (cl_pool st) (S (length (p_chunks (cl_pool st))), 0) with
           | C15BadAlloc => (st, ObsBadAlloc) | _ => (st, ObsPrecond) end
  | OpCopy _ =>
      match c15_pool_allocate g (c15_pa_copy (cl_pool st)) with
      | C15Ok ((O, 0), _) => (st, ObsCopyOk)     (* the original is untouched *)
      | _ => (st, ObsPrecond)
      end
  | OpFreeBad _ _ => (st, ObsPrecond)
  end.

Fixpoint c15_run (g : c15_geom) (st : c15_client) (ops : list c15_op) : list c15_obs * c15_client :=
  match ops with
  | [] => ([], st)
  | op :: r => let '(st1, o) := c15_step g st op in
               let '(os, st2) := c15_run g st1 r in (o :: os, st2)
  end.

(* histories the generator emits / the theorems quantify over: every OpFree names a live block *)
Fixpoint c15_ops_ok (nlive : nat) (ops : list c15_op) : bool :=
  match ops with
  | [] => true
  | OpAlloc n :: r => c15_ops_ok (if n =? 1 then S nlive else nlive) r
  | OpFree i :: r => (i <? nlive)%nat && c15_ops_ok (pred nlive) r
  | OpFreeN i n :: r => (i <? nlive)%nat && (n <=? 1) && c15_ops_ok (if n =? 1 then pred nlive else nlive) r
  | OpFreeInvalid _ :: r => c15_ops_ok nlive r
  | OpCopy _ :: r => c15_ops_ok nlive r
  | OpFreeBad _ _ :: r => false
  end.

(* PoolAllocator::max_size() ("Not correctly implemented, yet!") *)
Definition c15_pa_max_size : N := c15_param_pa_max_size.
(* operator==: two PoolAllocators of the same value type are interchangeable only if they are the same object; allocators of
   different value types never; MallocAllocator / DebugAllocator (stateless) always *)
Definition c15_pa_equal (same_type same_object : bool) : bool := same_type && same_object.
Definition c15_stateless_equal : bool := true.

(* ------------------------------------------------------------------ several PoolAllocator objects
   Allocator j owns pool j.  Copy construction, converting construction and rebind create a NEW allocator whose pool is empty ("we
   allow copying but never copy the pool"); nothing is shared.  operator== is object identity.  Releasing a block of allocator j
   through allocator k <> j reaches Pool::free of pool k, whose checking-build search `chunk_ <= b < chunk_+chunkSize` over ITS chunks
   fails (c15_addr_in_pool below, on addresses): bad_alloc. *)
Inductive c15_mop :=
  | MAlloc (j : nat) (n : N) | MFree (j i : nat) | MCopy (j : nat)
  | MFreeVia (k j i : nat)              (* allocator k . deallocate(i-th live block of allocator j, 1) *)
  | MEqual (j k : nat).
Inductive c15_mobs := MObs (o : c15_obs) | MObsEq (b : bool).

Fixpoint c15_set_nth {A} (i : nat) (x : A) (l : list A) : list A :=
  match l, i with
  | [], _ => []
  | _ :: t, O => x :: t
  | h :: t, S j => h :: c15_set_nth j x t
  end.

(* Pool::free's search, on addresses: base k c = address of chunk_ of the c-th chunk of allocator k *)
Definition c15_addr_in_pool (base : nat -> nat -> N) (g : c15_geom) (k : nat) (chunks : list nat) (addr : N) : bool :=
  existsb (fun c => (base k c <=? addr) && (addr <? base k c + g_chunkSize g)) chunks.

Definition c15_mstep_on (g : c15_geom) (ms : list c15_client) (j : nat) (op : c15_op) : list c15_client * c15_mobs :=
  match nth_error ms j with
  | None => (ms, MObs ObsPrecond)
  | Some st => let '(st', o) := c15_step g st op in (c15_set_nth j st' ms, MObs o)
  end.

Definition c15_mstep (g : c15_geom) (ms : list c15_client) (op : c15_mop) : list c15_client * c15_mobs :=
  match op with
  | MAlloc j n => c15_mstep_on g ms j (OpAlloc n)
  | MFree j i => c15_mstep_on g ms j (OpFree i)
  | MCopy j => match nth_error ms j with
               | Some st => (ms ++ [C15Client (c15_pa_copy (cl_pool st)) []], MObs ObsCopyOk)
               | None => (ms, MObs ObsPrecond)
               end
  | MFreeVia k j i =>
      if Nat.eqb k j then c15_mstep_on g ms j (OpFree i)
      else match nth_error ms k, nth_error ms j with
           | Some _, Some stj => match nth_error (cl_live stj) i with
                                 | Some _ => (ms, MObs ObsBadAlloc)      (* not in any chunk of pool k *)
                                 | None => (ms, MObs ObsPrecond)
                                 end
           | _, _ => (ms, MObs ObsPrecond)
           end
  | MEqual j k => (ms, MObsEq (c15_pa_equal true (Nat.eqb j k)))
  end.

Fixpoint c15_mrun (g : c15_geom) (ms : list c15_client) (ops : list c15_mop) : list c15_mobs * list c15_client :=
  match ops with
  | [] => ([], ms)
  | op :: r => let '(ms1, o) := c15_mstep g ms op in
               let '(os, ms2) := c15_mrun g ms1 r in (o :: os, ms2)
  end.

(* valid multi-allocator histories: indices in range, every release names a live block of the allocator it belongs to *)
Definition c15_mop_ok (ms : list c15_client) (op : c15_mop) : bool :=
  match op with
  | MAlloc j _ => (j <? length ms)%nat
  | MFree j i => match nth_error ms j with Some st => (i <? length (cl_live st))%nat | None => false end
  | MCopy j => (j <? length ms)%nat
  | MFreeVia k j i => (k <? length ms)%nat && match nth_error ms j with Some st => (i <? length (cl_live st))%nat | None => false end
  | MEqual j k => (j <? length ms)%nat && (k <? length ms)%nat
  end.
Fixpoint c15_mops_ok (g : c15_geom) (ms : list c15_client) (ops : list c15_mop) : bool :=
  match ops with
  | [] => true
  | op :: r => c15_mop_ok ms op && c15_mops_ok g (fst (c15_mstep g ms op)) r
  end.

(* ------------------------------------------------------------------ the intrusive free list, literally
   The pool of the C++ code has no list object: `head_` points to a free slot and the `next_` pointer of a free slot is stored in
   the slot's own bytes.  c15_heap gives the contents of that word for every slot address (None = null pointer); the client may
   overwrite the word of a block it owns with anything (`junk`).  C15_pool_refines shows that this pool and the list-based one
   above produce the same observations for every history. *)
Definition c15_heap := c15_slot -> option c15_slot.
Definition c15_hupd (h : c15_heap) (a : c15_slot) (v : option c15_slot) : c15_heap :=
  fun x => if c15_slot_eqb x a then v else h x.
Record c15_hpool := C15HPool { hp_chunks : list nat; hp_head : option c15_slot; hp_heap : c15_heap }.
Definition c15_hpool_empty (h0 : c15_heap) : c15_hpool := C15HPool [] None h0.

(* grow(): Reference* ref = new (start) Reference; head_ = ref;
           for(element=start+alignedSize; element<last; element+=alignedSize) { next = new (element) Reference; ref->next_ = next; ref = next; }
           ref->next_ = 0; *)
Fixpoint c15_hgrow_loop (fuel : nat) (c : nat) (ref : c15_slot) (element last alignedSize : N) (h : c15_heap) : option c15_heap :=
  if element <? last then
    match fuel with
    | O => None
    | S f => c15_hgrow_loop f c (c, element) (element + alignedSize) last alignedSize (c15_hupd h ref (Some (c, element)))
    end
  else Some (c15_hupd h ref None).

Definition c15_hgrow (g : c15_geom) (p : c15_hpool) : option c15_hpool :=
  let c := length (hp_chunks p) in
  let ref := (c, 0) in
  match c15_hgrow_loop (N.to_nat (g_elements g)) c ref (g_alignedSize g) (g_elements g * g_alignedSize g) (g_alignedSize g) (hp_heap p) with
  | Some h' => Some (C15HPool (c :: hp_chunks p) (Some ref) h')
  | None => None
  end.

(* allocate(): if(!head_) grow(); p = head_; head_ = p->next_; return p; *)
Definition c15_hallocate (g : c15_geom) (p : c15_hpool) : c15_res (c15_slot * c15_hpool) :=
  match (match hp_head p with None => c15_hgrow g p | Some _ => Some p end) with
  | None => C15OutOfFuel
  | Some p1 => match hp_head p1 with
               | Some b => C15Ok (b, C15HPool (hp_chunks p1) (hp_heap p1 b) (hp_heap p1))
               | None => C15Precond
               end
  end.

(* free(b): freed->next_ = head_; head_ = freed; *)
Definition c15_hfree (g : c15_geom) (p : c15_hpool) (b : c15_slot) : c15_res c15_hpool :=
  if existsb (Nat.eqb (fst b)) (hp_chunks p) && (snd b <? g_chunkSize g)
  then C15Ok (C15HPool (hp_chunks p) (Some b) (c15_hupd (hp_heap p) b (hp_head p)))
  else C15BadAlloc.

Record c15_hclient := C15HClient { hc_pool : c15_hpool; hc_live : list c15_slot }.

Definition c15_hstep_free (g : c15_geom) (st : c15_hclient) (i : nat) : c15_hclient * c15_obs :=
  match nth_error (hc_live st) i with
  | None => (st, ObsPrecond)
  | Some b => match c15_hfree g (hc_pool st) b with
              | C15Ok p' => (C15HClient p' (c15_remove_nth i (hc_live st)), ObsFreed)
              | C15BadAlloc => (st, ObsBadAlloc)
              | _ => (st, ObsPrecond)
              end
  end.

(* junk b: what the client leaves in the first word of block b while it owns it *)
Definition c15_hstep (g : c15_geom) (junk : c15_slot -> option c15_slot) (st : c15_hclient) (op : c15_op) : c15_hclient * c15_obs :=
  match op with
  | OpAlloc n =>
      if n =? c15_param_pa_alloc_n then
        match c15_hallocate g (hc_pool st) with
        | C15Ok (b, p') =>
            (C15HClient (C15HPool (hp_chunks p') (hp_head p') (c15_hupd (hp_heap p') b (junk b))) (hc_live st ++ [b]), ObsBlock (fst b) (snd b))
        | C15BadAlloc => (st, ObsBadAlloc)
        | C15OutOfFuel => (st, ObsOutOfFuel)
        | C15Precond => (st, ObsPrecond)
        | C15Abort => (st, ObsAbort)
        end
      else (st, ObsBadAlloc)
  | OpFree i => c15_hstep_free g st i
  | OpFreeN i n =>
      if n =? 0 then (match nth_error (hc_live st) i with Some _ => (st, ObsNoop) | None => (st, ObsPrecond) end)
      else if n =? 1 then c15_hstep_free g st i
      else (st, ObsPrecond)
  | OpFreeInvalid null =>
      if null then (st, ObsBadAlloc)
      else match c15_hfree g (hc_pool st) (S (length (hp_chunks (hc_pool st))), 0) with
           | C15BadAlloc => (st, ObsBadAlloc) | _ => (st, ObsPrecond) end
  | OpCopy _ =>
      match c15_hallocate g (c15_hpool_empty junk) with
      | C15Ok ((O, 0), _) => (st, ObsCopyOk)
      | _ => (st, ObsPrecond)
      end
  | OpFreeBad _ _ => (st, ObsPrecond)
  end.

Fixpoint c15_hrun (g : c15_geom) (junk : c15_slot -> option c15_slot) (st : c15_hclient) (ops : list c15_op) : list c15_obs * c15_hclient :=
  match ops with
  | [] => ([], st)
  | op :: r => let '(st1, o) := c15_hstep g junk st op in
               let '(os, st2) := c15_hrun g junk st1 r in (o :: os, st2)
  end.
Definition c15_hclient_empty (h0 : c15_heap) := C15HClient (c15_hpool_empty h0) [].

(* ------------------------------------------------------------------ MallocAllocator / AlignedAllocator *)
Definition c15_max_size (sT : N) : N := if c15_param_max_size_divides then c15_size_max / sT else c15_size_max.       (* size_type(-1) / sizeof(T) *)

(* `sys bytes` = std::malloc(bytes), `sysal alignment bytes` = std::aligned_alloc(alignment, bytes): None = null pointer.
   `overal` = the over-aligned-type branch proposed in fixes/C15-3 (true: code after the fix; false: the tree as found,
   which calls malloc for every T). *)
Definition c15_max_align : N := 16.              (* alignof(std::max_align_t) *)
Definition c15_malloc_allocate_gen (overal : bool) (sT aT n : N) (sys : N -> option N) (sysal : N -> N -> option N) : c15_res N :=
  if c15_max_size sT <? n then C15BadAlloc
  else match (if overal && (c15_max_align <? aT) then sysal aT (c15_wrap (n * sT)) else sys (c15_wrap (n * sT))) with
       | None => C15BadAlloc | Some p => C15Ok p end.
Definition c15_malloc_allocate := c15_malloc_allocate_gen true.
Definition c15_malloc_allocate_orig := c15_malloc_allocate_gen false.

(* fixAlignment (non-Apple): (Alignment==-1) ? alignof(T) : Alignment;  al = None stands for -1 *)
Definition c15_aligned_alignment (aT : N) (al : option N) : N := match al with None => aT | Some a => a end.
(* `sys alignment bytes` = std::aligned_alloc(alignment, bytes) *)
Definition c15_aligned_allocate (sT aT : N) (al : option N) (n : N) (sys : N -> N -> option N) : c15_res N :=
  if c15_max_size sT <? n then C15BadAlloc
  else match sys (c15_aligned_alignment aT al) (c15_wrap (n * sT)) with None => C15BadAlloc | Some p => C15Ok p end.

(* the stand-in system allocator of the executable runs: serves everything below `limit` bytes *)
Definition c15_sys_limit : N := 2 ^ 47.   (* beyond the 47-bit user address space: can never be served *)
Definition c15_sys_malloc (bytes : N) : option N := if bytes <? c15_sys_limit then Some 0 else None.
Definition c15_sys_aligned (al bytes : N) : option N := if bytes <? c15_sys_limit then Some 0 else None.

(* ------------------------------------------------------------------ DebugAllocator (debugallocator.hh:117-190) *)
Record c15_dbg_info := C15Dbg {
  d_type : N; d_page_ptr : N; d_ptr : N; d_pages : N; d_capacity : N; d_size : N }.

(* AllocationManager::allocate<T>(n).  `guard` = the overflow guard proposed in fixes/C15-2
   (true: code after the fix; false: the tree as found).  `mm len` = mmap(NULL,len,...): None = MAP_FAILED.
   Result: the bookkeeping entry and the address of the PROT_NONE page. *)
Definition c15_dbg_allocate_gen (guard : bool) (page ty sT n : N) (mm : N -> option N)
  : c15_res (c15_dbg_info * N) :=
  if guard && c15_param_dbg_has_guard && ((c15_size_max - c15_param_dbg_guard_pages * page) / sT <? n) then C15BadAlloc else
  let capacity := c15_wrap (n * sT) in
  let pages := capacity / page + c15_param_dbg_extra_pages in
  let overlap := capacity mod page in
  match mm (c15_wrap (pages * page)) with
  | None => C15BadAlloc
  | Some page_ptr =>
      let ptr := page_ptr + page - overlap in
      C15Ok (C15Dbg ty page_ptr ptr pages capacity n, c15_wrap (page_ptr + (pages - 1) * page))
  end.

(* deallocate: page address recovered from the pointer.
   as found:  ptr - ptr % page_size
   fixes/C15-1: a block whose size is a multiple of the page size starts ON a page boundary, one page
   above the mapping start:  ptr - (ptr % page_size ? ptr % page_size : page_size) *)
Definition c15_dbg_page_of_gen (fx : bool) (page ptr : N) : N :=
  let r := ptr mod page in
  if fx && c15_param_dbg_page_boundary_case && (r =? 0) then ptr - page else ptr - r.

Inductive c15_dbg_err := DbgNotFound | DbgSize | DbgPtr | DbgType | DbgNotFree | DbgLost.

Fixpoint c15_dbg_dealloc_search (page_ptr ty ptr n : N) (l : list c15_dbg_info)
  : c15_dbg_err + list c15_dbg_info :=
  match l with
  | [] => inl DbgNotFound                                         (* "memory block not found" *)
  | it :: r =>
      if d_page_ptr it =? page_ptr then
        if negb (n =? 0) && negb (n =? d_size it) then inl DbgSize      (* ALLOCATION_ASSERT(n == it->size) *)
        else if negb (ptr =? d_ptr it) then inl DbgPtr                   (* ALLOCATION_ASSERT(ptr == it->ptr) *)
        else if negb (ty =? d_type it) then inl DbgType                  (* typeid(T) == *(it->type) *)
        else inr r                                                       (* munmap + erase(it) *)
      else match c15_dbg_dealloc_search page_ptr ty ptr n r with
           | inl e => inl e | inr r' => inr (it :: r') end
  end.

Definition c15_dbg_deallocate_gen (fx : bool) (page ty ptr n : N) (l : list c15_dbg_info)
  : c15_dbg_err + list c15_dbg_info :=
  c15_dbg_dealloc_search (c15_dbg_page_of_gen fx page ptr) ty ptr n l.

(* the code after the two proposed fixes, and the tree as found *)
Definition c15_dbg_allocate := c15_dbg_allocate_gen true.
Definition c15_dbg_deallocate := c15_dbg_deallocate_gen true.
Definition c15_dbg_allocate_orig := c15_dbg_allocate_gen false.
Definition c15_dbg_deallocate_orig := c15_dbg_deallocate_gen false.

(* stand-in mmap of the executable runs: bump allocator of page-aligned addresses, refuses >= limit.
   state = next free address *)
Definition c15_sys_mmap (next len : N) : option N :=
  if (0 <? len) && (len <? c15_sys_limit) && (next + len <=? 2 ^ 64) then Some next else None.

Inductive c15_dbg_obs := DObsOk (off : N) (cap : N) (guard_at_end : bool) | DObsBadAlloc | DObsFreed | DObsAbort (e : c15_dbg_err) | DObsPrecond.

Record c15_dbg_state := C15DbgSt { ds_list : list c15_dbg_info; ds_live : list (N * N); ds_next : N }.  (* live: (ptr, n) *)

Definition c15_dbg_step_free (fixd : bool) (page : N) (st : c15_dbg_state) (i : nat) (ty ptr n : N) : c15_dbg_state * c15_dbg_obs :=
  match c15_dbg_deallocate_gen fixd page ty ptr n (ds_list st) with
  | inr l' => (C15DbgSt l' (c15_remove_nth i (ds_live st)) (ds_next st), DObsFreed)
  | inl e => (st, DObsAbort e)         (* std::abort(): the run ends here *)
  end.

Definition c15_dbg_step (fixa fixd : bool) (page sT : N) (st : c15_dbg_state) (op : c15_op) : c15_dbg_state * c15_dbg_obs :=
  match op with
  | OpAlloc n =>
      match c15_dbg_allocate_gen fixa page 0 sT n (c15_sys_mmap (ds_next st)) with
      | C15Ok (ai, guardpage) =>
          (C15DbgSt (ds_list st ++ [ai]) (ds_live st ++ [(d_ptr ai, n)])
                    (ds_next st + c15_wrap (d_pages ai * page) + page),
           DObsOk (d_ptr ai mod page) (d_capacity ai) (guardpage =? d_ptr ai + d_capacity ai))
      | _ => (st, DObsBadAlloc)
      end
  | OpFree i =>
      match nth_error (ds_live st) i with
      | None => (st, DObsPrecond)
      | Some (ptr, n) => c15_dbg_step_free fixd page st i 0 ptr n
      end
  | OpFreeN i n' =>                              (* deallocate(p, n') with a count chosen by the caller; 0 = default argument *)
      match nth_error (ds_live st) i with
      | None => (st, DObsPrecond)
      | Some (ptr, _) => c15_dbg_step_free fixd page st i 0 ptr n'
      end
  | OpFreeInvalid null =>                        (* a pointer into no mapping of the manager (0, or below the first mapping) *)
      match c15_dbg_deallocate_gen fixd page 0 (if null then 0 else 8 * page + 8) 0 (ds_list st) with
      | inl e => (st, DObsAbort e) | inr _ => (st, DObsPrecond) end
  | OpFreeBad i k =>
      match nth_error (ds_live st) i with
      | None => (st, DObsPrecond)
      | Some (ptr, n) =>
          if k =? 0 then c15_dbg_step_free fixd page st i 1 ptr n             (* deallocate<U>(p) with U <> T *)
          else if k =? 1 then c15_dbg_step_free fixd page st i 0 (ptr + sT) n (* pointer to the second element *)
          else (st, DObsPrecond)
      end
  | OpCopy _ => (st, DObsPrecond)
  end.

Fixpoint c15_dbg_run (fixa fixd : bool) (page sT : N) (st : c15_dbg_state) (ops : list c15_op) : list c15_dbg_obs :=
  match ops with
  | [] => []
  | op :: r => let '(st1, o) := c15_dbg_step fixa fixd page sT st op in
               match o with
               | DObsAbort _ => [o]
               | _ => o :: c15_dbg_run fixa fixd page sT st1 r
               end
  end.
Definition c15_dbg_state0 (page : N) := C15DbgSt [] [] (16 * page).
(* the same run, returning the final state (None: the run was aborted) *)
Fixpoint c15_dbg_final (fixa fixd : bool) (page sT : N) (st : c15_dbg_state) (ops : list c15_op) : option c15_dbg_state :=
  match ops with
  | [] => Some st
  | op :: r => let '(st1, o) := c15_dbg_step fixa fixd page sT st op in
               match o with
               | DObsAbort _ => None
               | _ => c15_dbg_final fixa fixd page sT st1 r
               end
  end.

(* ~AllocationManager(): every mapping still listed is unmapped; entries still in use => allocation_error("lost allocations").
   Result: (mappings released, aborted?) *)
Definition c15_dbg_destroy (l : list c15_dbg_info) : list N * bool :=
  (map d_page_ptr l, negb (Nat.eqb (length l) 0)).       (* without DEBUG_ALLOCATOR_KEEP every listed entry is in use *)

(* ---- DEBUG_ALLOCATOR_KEEP=1: deallocate keeps the entry (not_free := false) and the mapping (PROT_NONE): double free is detected *)
Definition c15_dbgk_entry := (c15_dbg_info * bool)%type.
Fixpoint c15_dbgk_search (page_ptr ty ptr n : N) (l : list c15_dbgk_entry) : c15_dbg_err + list c15_dbgk_entry :=
  match l with
  | [] => inl DbgNotFound
  | (it, nf) :: r =>
      if d_page_ptr it =? page_ptr then
        if negb (n =? 0) && negb (n =? d_size it) then inl DbgSize
        else if negb (ptr =? d_ptr it) then inl DbgPtr
        else if negb nf then inl DbgNotFree                              (* ALLOCATION_ASSERT(true == it->not_free) *)
        else if negb (ty =? d_type it) then inl DbgType
        else inr ((it, false) :: r)
      else match c15_dbgk_search page_ptr ty ptr n r with
           | inl e => inl e | inr r' => inr ((it, nf) :: r') end
  end.
Definition c15_dbgk_deallocate (page ty ptr n : N) (l : list c15_dbgk_entry) :=
  c15_dbgk_search (c15_dbg_page_of_gen true page ptr) ty ptr n l.

Record c15_dbgk_state := C15DbgK { dk_list : list c15_dbgk_entry; dk_live : list (N * N); dk_dead : list (N * N); dk_next : N }.
Definition c15_dbgk_step (page sT : N) (st : c15_dbgk_state) (op : c15_op) : c15_dbgk_state * c15_dbg_obs :=
  match op with
  | OpAlloc n =>
      match c15_dbg_allocate_gen true page 0 sT n (c15_sys_mmap (dk_next st)) with
      | C15Ok (ai, guardpage) =>
          (C15DbgK (dk_list st ++ [(ai, true)]) (dk_live st ++ [(d_ptr ai, n)]) (dk_dead st)
                   (dk_next st + c15_wrap (d_pages ai * page) + page),
           DObsOk (d_ptr ai mod page) (d_capacity ai) (guardpage =? d_ptr ai + d_capacity ai))
      | _ => (st, DObsBadAlloc)
      end
  | OpFree i =>
      match nth_error (dk_live st) i with
      | None => (st, DObsPrecond)
      | Some (ptr, n) =>
          match c15_dbgk_deallocate page 0 ptr n (dk_list st) with
          | inr l' => (C15DbgK l' (c15_remove_nth i (dk_live st)) (dk_dead st ++ [(ptr, n)]) (dk_next st), DObsFreed)
          | inl e => (st, DObsAbort e)
          end
      end
  | OpFreeBad j _ =>                               (* release the j-th released block once more *)
      match nth_error (dk_dead st) j with
      | None => (st, DObsPrecond)
      | Some (ptr, n) =>
          match c15_dbgk_deallocate page 0 ptr n (dk_list st) with
          | inr l' => (C15DbgK l' (dk_live st) (dk_dead st) (dk_next st), DObsFreed)
          | inl e => (st, DObsAbort e)
          end
      end
  | _ => (st, DObsPrecond)
  end.
Fixpoint c15_dbgk_run (page sT : N) (st : c15_dbgk_state) (ops : list c15_op) : list c15_dbg_obs :=
  match ops with
  | [] => []
  | op :: r => let '(st1, o) := c15_dbgk_step page sT st op in
               match o with
               | DObsAbort _ => [o]
               | _ => o :: c15_dbgk_run page sT st1 r
               end
  end.
Definition c15_dbgk_state0 (page : N) := C15DbgK [] [] [] (16 * page).

(* ------------------------------------------------------------------ debugalign.hh: isAligned
   p == std::align(align, align, aligned_p, space = 2*align); libstdc++:
   if (space < size) return nullptr; aligned = (p - 1 + align) & -align;  diff = aligned - p;
   if (diff > space - size) return nullptr; else return aligned *)
Definition c15_std_align (align size p space : N) : option N :=
  if space <? size then None else
  let aligned := N.land (c15_wrap (p + (2 ^ 64 - 1) + align)) (c15_wrap (2 ^ 64 - align)) in
  let diff := c15_wrap (aligned + 2 ^ 64 - p) in
  if space - size <? diff then None else Some aligned.
Definition c15_isAligned (p align : N) : bool :=
  match c15_std_align align align p (c15_wrap (align * c15_param_isaligned_space_factor)) with Some q => q =? p | None => false end.

(* AlignedBase<align,Impl>::operator new / new[] (count, ptr):  if(!isAligned(ptr, align)) violatedAlignment(className, align, ptr);
   violatedAlignment:  const auto &handler = violatedAlignmentHandler(); if(handler) handler(className, expectedAlignment, address);
   the default handler prints a message and calls std::abort() *)
Inductive c15_handler := HandlerDefault | HandlerUser | HandlerEmpty.
Inductive c15_place_obs := PlacePlaced | PlaceReported | PlaceAbort.      (* Reported: the user's handler ran, then the object was placed *)
Definition c15_alignedbase_new (h : c15_handler) (p align : N) : c15_place_obs :=
  if c15_isAligned p align then PlacePlaced
  else match h with HandlerDefault => PlaceAbort | HandlerUser => PlaceReported | HandlerEmpty => PlacePlaced end.
(* debugAlignment = 2*alignof(std::max_align_t) *)
Definition c15_debug_alignment : N := c15_param_debug_align_factor * c15_max_align.
