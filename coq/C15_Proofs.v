(* C15 — proofs: pool geometry, pool invariant over all histories, block predicate. *)
From Coq Require Import List NArith Bool Arith Lia Permutation.
From DuneV Require Import Params_gen C15_Model C15_Spec.
Import ListNotations.
Local Open Scope N_scope.

Lemma c15_nodup_app {A} (l1 l2 : list A) : NoDup l1 -> NoDup l2 -> (forall x, In x l1 -> ~ In x l2) -> NoDup (l1 ++ l2).
Proof.
  induction l1 as [|h t IH]; intros H1 H2 H; cbn; [assumption|].
  inversion H1; subst. constructor.
  - rewrite in_app_iff. intros [Hh|Hh]; [contradiction|]. apply (H h); [left; reflexivity|assumption].
  - apply IH; try assumption. intros x Hx. apply H. right; assumption.
Qed.

(* ------------------------------------------------------------------ roundup *)
Lemma c15_roundup_spec x al : al <> 0 ->
  (al | c15_roundup x al) /\ x <= c15_roundup x al /\ c15_roundup x al < x + al.
Proof.
  intros Hal. unfold c15_roundup, c15_roundup_gen.
  destruct (x mod al =? 0) eqn:E.
  - apply N.eqb_eq in E. split; [apply N.mod_divide; assumption|lia].
  - apply N.eqb_neq in E.
    pose proof (N.div_mod x al Hal) as Hdm.
    pose proof (N.mod_upper_bound x al Hal) as Hub.
    split; [exists (x / al + 1); reflexivity|].
    set (q := x / al) in *. set (r := x mod al) in *. clearbody q r. subst x. split; nia.
Qed.

Lemma c15_roundup_mono x y al : al <> 0 -> x <= y -> c15_roundup x al <= c15_roundup y al.
Proof.
  intros Hal Hxy.
  destruct (c15_roundup_spec x al Hal) as ([a Ha] & Hx1 & Hx2).
  destruct (c15_roundup_spec y al Hal) as ([b Hb] & Hy1 & Hy2).
  rewrite Ha, Hb in *.
  destruct (N.le_gt_cases a b) as [Hab|Hab]; [apply N.mul_le_mono_r; assumption|].
  assert (H1 : (b + 1) * al <= a * al) by (apply N.mul_le_mono_r; lia). lia.
Qed.

(* ------------------------------------------------------------------ geometry *)
Record c15_geom_good (sT aT : N) (g : c15_geom) : Prop := {
  gg_al_pos : 0 < g_alignment g;
  gg_aT_al : (aT | g_alignment g);
  gg_ref_al : (c15_alignofRef | g_alignment g);
  gg_union_T : sT <= g_unionSize g;                       (* static_assert(sizeof(T)<=unionSize) *)
  gg_union_R : c15_sizeofRef <= g_unionSize g;            (* static_assert(sizeof(Reference)<=unionSize) *)
  gg_union_as : g_unionSize g <= g_alignedSize g;         (* static_assert(unionSize<=alignedSize) *)
  gg_T_chunk : sT <= g_chunkSize g;                       (* static_assert(sizeof(T)<=chunkSize) *)
  gg_R_chunk : c15_sizeofRef <= g_chunkSize g;            (* static_assert(sizeof(Reference)<=chunkSize) *)
  gg_chunk_al : (g_alignment g | g_chunkSize g);          (* static_assert(chunkSize % alignment == 0) *)
  gg_el : 1 <= g_elements g;                              (* static_assert(elements>=1) *)
  gg_fit : g_elements g * g_alignedSize g <= g_chunkSize g; (* static_assert(elements*alignedSize<=chunkSize) *)
  gg_as_al : (g_alignment g | g_alignedSize g);
  gg_int : g_chunkSize g <= c15_int_max /\ g_alignedSize g <= c15_int_max /\ g_elements g <= c15_int_max
}.

Lemma c15_geom_raw_good sT aT s : 1 <= sT -> 1 <= aT -> c15_geom_in_range sT aT s = true ->
  c15_geom_good sT aT (c15_geom_raw sT aT s).
Proof.
  intros HsT HaT Hr.
  unfold c15_geom_in_range, c15_param_roundup_add_aligned, c15_param_roundup_add_chunk in Hr. repeat rewrite andb_true_iff in Hr. repeat rewrite N.leb_le in Hr.
  destruct Hr as ((((Hs & HsT') & Hal') & Hu') & Hsz').
  remember (c15_geom_raw sT aT s) as g eqn:Eg.
  assert (Hal : g_alignment g <> 0).
  { subst g; cbn. intro H. apply N.lcm_eq_0 in H. unfold c15_alignofRef in H. lia. }
  assert (EU : g_unionSize g = if sT <? c15_sizeofRef then c15_sizeofRef else sT) by (subst g; reflexivity).
  assert (EA : g_alignedSize g = c15_roundup (g_unionSize g) (g_alignment g)) by (subst g; reflexivity).
  assert (EC : g_chunkSize g = c15_roundup (g_size g) (g_alignment g)) by (subst g; reflexivity).
  assert (EE : g_elements g = g_chunkSize g / g_alignedSize g) by (subst g; reflexivity).
  assert (ES : g_size g = if (sT <=? s) && (c15_sizeofRef <=? s) then s else g_unionSize g) by (subst g; reflexivity).
  assert (HU1 : sT <= g_unionSize g) by (rewrite EU; destruct (N.ltb_spec sT c15_sizeofRef); lia).
  assert (HU2 : c15_sizeofRef <= g_unionSize g) by (rewrite EU; destruct (N.ltb_spec sT c15_sizeofRef); lia).
  assert (HSU : g_unionSize g <= g_size g).
  { rewrite ES. destruct ((sT <=? s) && (c15_sizeofRef <=? s)) eqn:E; [|lia].
    apply andb_true_iff in E. destruct E as [E1 E2]. apply N.leb_le in E1, E2.
    rewrite EU. destruct (N.ltb_spec sT c15_sizeofRef); lia. }
  destruct (c15_roundup_spec (g_unionSize g) _ Hal) as (A1 & A2 & A3).
  destruct (c15_roundup_spec (g_size g) _ Hal) as (C1 & C2 & C3).
  pose proof (c15_roundup_mono _ _ _ Hal HSU) as Hmono.
  rewrite <- EA in *. rewrite <- EC in *.
  assert (Has : g_alignedSize g <> 0) by (unfold c15_sizeofRef in *; lia).
  assert (HCS : g_chunkSize g <= (g_size g / g_alignment g + 1) * g_alignment g).
  { rewrite EC. unfold c15_roundup, c15_roundup_gen. destruct (g_size g mod g_alignment g =? 0) eqn:E; [|lia].
    pose proof (N.div_mod (g_size g) _ Hal). pose proof (N.mod_upper_bound (g_size g) _ Hal). nia. }
  assert (HAS : g_alignedSize g <= (g_unionSize g / g_alignment g + 1) * g_alignment g).
  { rewrite EA. unfold c15_roundup, c15_roundup_gen. destruct (g_unionSize g mod g_alignment g =? 0) eqn:E; [|lia].
    pose proof (N.div_mod (g_unionSize g) _ Hal). pose proof (N.mod_upper_bound (g_unionSize g) _ Hal). nia. }
  constructor; try lia; try assumption.
  - subst g; cbn. apply N.divide_lcm_l.
  - subst g; cbn. apply N.divide_lcm_r.
  - rewrite EE. apply N.div_le_lower_bound; lia.
  - rewrite EE. rewrite N.mul_comm. apply N.mul_div_le. assumption.
  - repeat split; try lia.
    rewrite EE. etransitivity; [apply N.div_le_upper_bound with (q := g_chunkSize g); [assumption|nia]|lia].
Qed.

Lemma c15_geometry_good sT aT s g : 1 <= sT -> 1 <= aT -> c15_geometry sT aT s = Some g -> c15_geom_good sT aT g.
Proof.
  intros H1 H2 H. unfold c15_geometry in H. destruct (c15_geom_in_range sT aT s) eqn:E; [|discriminate].
  inversion H; subst. apply c15_geom_raw_good; assumption.
Qed.

Lemma c15_pa_geometry_good sT aT s g : 1 <= sT -> 1 <= aT -> c15_pa_geometry sT aT s = Some g -> c15_geom_good sT aT g.
Proof.
  intros H1 H2 H. unfold c15_pa_geometry in H. destruct (s * sT <=? c15_int_max); [|discriminate].
  eapply c15_geometry_good; eassumption.
Qed.

(* the guard is not vacuous: every parameter choice of moderate size is in range *)
Lemma c15_geom_in_range_sufficient sT aT s :
  1 <= sT -> 1 <= aT -> sT + 8 * aT + 8 <= c15_int_max -> s + 8 * aT <= c15_int_max ->
  c15_geom_in_range sT aT s = true.
Proof.
  intros HsT HaT H1 H2. unfold c15_geom_in_range, c15_param_roundup_add_aligned, c15_param_roundup_add_chunk.
  set (g := c15_geom_raw sT aT s).
  assert (Hal : g_alignment g <> 0).
  { subst g; cbn. intro H. apply N.lcm_eq_0 in H. unfold c15_alignofRef in H. lia. }
  assert (Hle : g_alignment g <= 8 * aT).
  { subst g; unfold c15_geom_raw; cbn [g_alignment]. unfold N.lcm, c15_alignofRef.
    assert (Hg : N.gcd aT 8 <> 0) by (intro Hg; apply N.gcd_eq_0 in Hg; lia).
    pose proof (N.div_le_upper_bound 8 (N.gcd aT 8) 8 Hg) as Hd.
    assert (Hq : 8 / N.gcd aT 8 <= 8).
    { apply Hd. assert (1 <= N.gcd aT 8) by lia. set (gg := N.gcd aT 8) in *. clearbody gg. nia. }
    rewrite (N.mul_comm 8). apply N.mul_le_mono_l. exact Hq. }
  assert (EU : g_unionSize g = if sT <? c15_sizeofRef then c15_sizeofRef else sT) by reflexivity.
  assert (ES : g_size g = if (sT <=? s) && (c15_sizeofRef <=? s) then s else g_unionSize g) by reflexivity.
  assert (HU : g_unionSize g <= sT + 8) by (rewrite EU; unfold c15_sizeofRef; destruct (N.ltb_spec sT 8); lia).
  assert (HS : g_size g <= N.max s (sT + 8)) by (rewrite ES; destruct (_ && _); lia).
  pose proof (N.mul_div_le (g_unionSize g) _ Hal). pose proof (N.mul_div_le (g_size g) _ Hal).
  repeat rewrite andb_true_iff. repeat rewrite N.leb_le. repeat split; nia.
Qed.

(* ------------------------------------------------------------------ grow *)
Lemma c15_grow_loop_spec a el : a <> 0 -> forall d fuel k, (k + d = el)%nat -> (d <= fuel)%nat ->
  c15_grow_loop fuel (N.of_nat k * a) (N.of_nat el * a) a = Some (map (fun i => N.of_nat i * a) (seq k d)).
Proof.
  intros Ha. induction d as [|d IH]; intros fuel k Hk Hf.
  - assert (k = el) by lia. subst k.
    destruct fuel; cbn [c15_grow_loop]; rewrite N.ltb_irrefl; reflexivity.
  - destruct fuel as [|f]; [lia|]. cbn [c15_grow_loop].
    assert (Hlt : N.of_nat k * a <? N.of_nat el * a = true) by (apply N.ltb_lt; nia).
    rewrite Hlt.
    replace (N.of_nat k * a + a) with (N.of_nat (S k) * a) by lia.
    rewrite (IH f (S k)) by lia. reflexivity.
Qed.

Definition c15_chunk_slots (g : c15_geom) (c : nat) : list c15_slot :=
  map (fun i => (c, N.of_nat i * g_alignedSize g)) (seq 0 (N.to_nat (g_elements g))).

Lemma c15_grow_spec g p : g_alignedSize g <> 0 -> 1 <= g_elements g ->
  c15_grow g p = Some (C15Pool (length (p_chunks p) :: p_chunks p) (c15_chunk_slots g (length (p_chunks p)))).
Proof.
  intros Ha Hel. unfold c15_grow, c15_chunk_slots.
  set (el := N.to_nat (g_elements g)).
  assert (Eel : g_elements g = N.of_nat el) by (subst el; rewrite N2Nat.id; reflexivity).
  assert (Hel1 : (1 <= el)%nat) by lia.
  pose proof (c15_grow_loop_spec (g_alignedSize g) el Ha (el - 1)%nat el 1%nat ltac:(lia) ltac:(lia)) as H.
  rewrite Eel. replace (N.of_nat 1 * g_alignedSize g) with (g_alignedSize g) in H by lia.
  rewrite H. f_equal. f_equal.
  destruct el as [|e]; [lia|]. cbn [seq map]. replace (S e - 1)%nat with e by lia.
  rewrite map_map. reflexivity.
Qed.

(* ------------------------------------------------------------------ invariant *)
Definition c15_slot_valid (g : c15_geom) (nch : nat) (b : c15_slot) : Prop :=
  (fst b < nch)%nat /\ exists k, k < g_elements g /\ snd b = k * g_alignedSize g.

Definition c15_pool_inv (g : c15_geom) (st : c15_client) : Prop :=
  p_chunks (cl_pool st) = rev (seq 0 (length (p_chunks (cl_pool st)))) /\
  NoDup (p_free (cl_pool st) ++ cl_live st) /\
  (forall b, In b (p_free (cl_pool st) ++ cl_live st) <-> c15_slot_valid g (length (p_chunks (cl_pool st))) b).

Lemma c15_chunk_slots_in g c b : In b (c15_chunk_slots g c) <-> fst b = c /\ exists k, k < g_elements g /\ snd b = k * g_alignedSize g.
Proof.
  unfold c15_chunk_slots. rewrite in_map_iff. split.
  - intros (i & Hi & Hin). apply in_seq in Hin. subst b. cbn. split; [reflexivity|].
    exists (N.of_nat i). split; [lia|reflexivity].
  - intros (Hc & k & Hk & Hs). exists (N.to_nat k). split.
    + destruct b as [c' o]; cbn in *. subst. rewrite N2Nat.id. reflexivity.
    + apply in_seq. lia.
Qed.

Lemma c15_chunk_slots_nodup g c : g_alignedSize g <> 0 -> NoDup (c15_chunk_slots g c).
Proof.
  intros Ha. unfold c15_chunk_slots. apply FinFun.Injective_map_NoDup; [|apply seq_NoDup].
  intros i j H. inversion H. nia.
Qed.

Lemma c15_inv_empty g : c15_pool_inv g c15_client_empty.
Proof.
  repeat split; cbn; try constructor; try contradiction.
  intros (H & _). cbn in H. lia.
Qed.

Lemma c15_remove_nth_split {A} (l : list A) i b : nth_error l i = Some b ->
  exists l1 l2, l = l1 ++ b :: l2 /\ c15_remove_nth i l = l1 ++ l2 /\ length l1 = i.
Proof.
  revert i. induction l as [|h t IH]; intros [|i] H; cbn in H; try discriminate.
  - inversion H; subst. exists [], t. repeat split.
  - destruct (IH i H) as (l1 & l2 & E1 & E2 & E3). exists (h :: l1), l2. cbn. rewrite E2. subst. repeat split.
Qed.

Lemma c15_rev_seq_S n : rev (seq 0 (S n)) = n :: rev (seq 0 n).
Proof. rewrite seq_S, rev_app_distr. reflexivity. Qed.

Lemma c15_rev_seq_in n c : In c (rev (seq 0 n)) <-> (c < n)%nat.
Proof. rewrite <- in_rev, in_seq. lia. Qed.

(* one allocation: shape of the result *)
Lemma c15_alloc_step g sT aT st : c15_geom_good sT aT g -> c15_pool_inv g st ->
  exists b p', c15_pool_allocate g (cl_pool st) = C15Ok (b, p') /\
    c15_pool_inv g (C15Client p' (cl_live st ++ [b])) /\
    ~ In b (cl_live st) /\
    c15_slot_valid g (length (p_chunks p')) b /\
    length (p_chunks p') = Nat.max (length (p_chunks (cl_pool st))) (S (fst b)) /\
    (fst b <= length (p_chunks (cl_pool st)))%nat.
Proof.
  intros GG (Hch & Hnd & Hin).
  assert (Ha : g_alignedSize g <> 0).
  { pose proof (gg_union_as _ _ _ GG). pose proof (gg_union_R _ _ _ GG). unfold c15_sizeofRef in *. lia. }
  pose proof (gg_el _ _ _ GG) as Hel.
  destruct st as [[chunks free] live]; cbn in *.
  unfold c15_pool_allocate; cbn.
  destruct free as [|b rest].
  - (* grow *)
    rewrite (c15_grow_spec g (C15Pool chunks []) Ha Hel); cbn.
    remember (length chunks) as c eqn:Ec.
    assert (Hsl : c15_chunk_slots g c = (c, 0) :: map (fun i => (c, N.of_nat i * g_alignedSize g)) (seq 1 (N.to_nat (g_elements g) - 1))).
    { unfold c15_chunk_slots. destruct (N.to_nat (g_elements g)) as [|e] eqn:E; [lia|].
      cbn [seq map]. replace (S e - 1)%nat with e by lia. reflexivity. }
    pose proof (c15_chunk_slots_nodup g c Ha) as Hnd2.
    pose proof (c15_chunk_slots_in g c) as Hin2.
    rewrite Hsl in *. set (rest := map _ (seq 1 _)) in *.
    exists (c, 0), (C15Pool (c :: chunks) rest). cbn.
    assert (Hfresh : forall x, In x ((c, 0) :: rest) -> ~ In x live).
    { intros x Hx Hl. apply Hin2 in Hx. apply Hin in Hl. destruct Hl as [Hl _]. destruct Hx as [Hx _]. lia. }
    split; [reflexivity|]. split; [|split; [|split; [|split]]].
    + unfold c15_pool_inv; cbn [cl_pool p_chunks p_free cl_live]. split; [|split].
      * cbn [length]. rewrite c15_rev_seq_S. rewrite <- Ec. f_equal. exact Hch.
      * apply (Permutation_NoDup (l := ((c, 0) :: rest) ++ live)).
        { cbn. rewrite app_assoc. apply Permutation_cons_append. }
        apply c15_nodup_app; try assumption.
      * intros x. rewrite app_assoc, in_app_iff. cbn [In]. rewrite in_app_iff.
        unfold c15_slot_valid in *. cbn [length]. rewrite <- Ec.
        split.
        -- intros [[H|H]|[H|[]]].
           ++ assert (Hx : In x ((c, 0) :: rest)) by (right; exact H). apply Hin2 in Hx.
              destruct Hx as [Hx1 Hx2]. split; [lia|exact Hx2].
           ++ apply Hin in H. destruct H as [H1 H2]. split; [lia|exact H2].
           ++ subst x. split; [cbn; lia|]. exists 0. split; [lia|reflexivity].
        -- intros [H1 H2]. destruct (Nat.eq_dec (fst x) c) as [E|E].
           ++ assert (Hx : In x ((c, 0) :: rest)) by (apply Hin2; split; assumption).
              destruct Hx as [Hx|Hx]; [right; left; exact Hx|left; left; exact Hx].
           ++ left; right. apply Hin. split; [lia|exact H2].
    + apply Hfresh. left; reflexivity.
    + split; [cbn; lia|]. exists 0. split; [lia|reflexivity].
    + cbn. lia.
    + cbn. lia.
  - (* pop *)
    exists b, (C15Pool chunks rest). cbn.
    assert (Hb : c15_slot_valid g (length chunks) b) by (apply Hin; left; reflexivity).
    split; [reflexivity|]. split; [|split; [|split; [|split]]].
    + unfold c15_pool_inv; cbn. split; [exact Hch|].
      assert (HP : Permutation ((b :: rest) ++ live) (rest ++ live ++ [b])).
      { cbn. rewrite app_assoc. apply Permutation_cons_append. }
      split.
      * eapply Permutation_NoDup; eassumption.
      * intros x. rewrite <- Hin. split; intro H.
        -- eapply Permutation_in; [symmetry; exact HP|exact H].
        -- eapply Permutation_in; [exact HP|exact H].
    + cbn in Hnd. inversion Hnd; subst. intro H. apply H1. apply in_or_app. right; exact H.
    + exact Hb.
    + destruct Hb as [Hb _]. lia.
    + destruct Hb as [Hb _]. lia.
Qed.

Lemma c15_as_pos g sT aT : c15_geom_good sT aT g -> g_alignedSize g <> 0 /\ sT <= g_alignedSize g.
Proof.
  intros GG. pose proof (gg_union_as _ _ _ GG). pose proof (gg_union_R _ _ _ GG). pose proof (gg_union_T _ _ _ GG).
  unfold c15_sizeofRef in *. lia.
Qed.

Lemma c15_valid_bound g sT aT nch b : c15_geom_good sT aT g -> c15_slot_valid g nch b ->
  snd b + g_alignedSize g <= g_chunkSize g.
Proof.
  intros GG (_ & k & Hk & Hs). pose proof (gg_fit _ _ _ GG). rewrite Hs.
  assert ((k + 1) * g_alignedSize g <= g_elements g * g_alignedSize g) by (apply N.mul_le_mono_r; lia). lia.
Qed.

Lemma c15_free_step g sT aT st i b : c15_geom_good sT aT g -> c15_pool_inv g st -> nth_error (cl_live st) i = Some b ->
  exists p', c15_pool_free g (cl_pool st) b = C15Ok p' /\
    c15_pool_inv g (C15Client p' (c15_remove_nth i (cl_live st))) /\
    length (p_chunks p') = length (p_chunks (cl_pool st)).
Proof.
  intros GG (Hch & Hnd & Hin) Hnth.
  destruct (c15_as_pos _ _ _ GG) as [Ha HsTa].
  destruct st as [[chunks free] live]; cbn in *.
  destruct (c15_remove_nth_split _ _ _ Hnth) as (l1 & l2 & El & Er & _).
  assert (Hb : c15_slot_valid g (length chunks) b).
  { apply Hin. apply in_or_app. right. rewrite El. apply in_or_app. right. left. reflexivity. }
  unfold c15_pool_free; cbn.
  assert (E1 : existsb (Nat.eqb (fst b)) chunks = true).
  { apply existsb_exists. exists (fst b). split; [|apply Nat.eqb_refl].
    rewrite Hch. apply c15_rev_seq_in. destruct Hb; assumption. }
  assert (E2 : snd b <? g_chunkSize g = true).
  { apply N.ltb_lt. pose proof (c15_valid_bound _ _ _ _ _ GG Hb). lia. }
  rewrite E1, E2. cbn. eexists. split; [reflexivity|]. split; [|reflexivity].
  unfold c15_pool_inv; cbn. split; [exact Hch|].
  rewrite Er. rewrite El in *.
  assert (HP : Permutation (free ++ l1 ++ b :: l2) (b :: free ++ l1 ++ l2)).
  { rewrite !app_assoc. symmetry. apply Permutation_middle. }
  split.
  - eapply Permutation_NoDup; eassumption.
  - intros x. rewrite <- Hin. split; intro H.
    + exact (Permutation_in x (Permutation_sym HP) H).
    + exact (Permutation_in x HP H).
Qed.

Lemma c15_slots_disjoint g sT aT n1 n2 b1 b2 : c15_geom_good sT aT g ->
  c15_slot_valid g n1 b1 -> c15_slot_valid g n2 b2 -> b1 <> b2 -> c15_blk_disjoint sT b1 b2 = true.
Proof.
  intros GG (_ & k1 & Hk1 & Hs1) (_ & k2 & Hk2 & Hs2) Hne.
  destruct (c15_as_pos _ _ _ GG) as [Ha HsTa].
  unfold c15_blk_disjoint. destruct b1 as [c1 o1], b2 as [c2 o2]; cbn in *.
  destruct (Nat.eqb_spec c1 c2) as [Ec|Ec]; cbn; [|reflexivity].
  subst. assert (Hk : k1 <> k2) by (intro; subst; apply Hne; reflexivity).
  apply orb_true_iff. rewrite !N.leb_le.
  destruct (N.lt_ge_cases k1 k2) as [Hlt|Hge].
  - left. assert ((k1 + 1) * g_alignedSize g <= k2 * g_alignedSize g) by (apply N.mul_le_mono_r; lia). lia.
  - right. assert ((k2 + 1) * g_alignedSize g <= k1 * g_alignedSize g) by (apply N.mul_le_mono_r; lia). lia.
Qed.

Lemma c15_valid_blk_ok g sT aT nch nch' live b : c15_geom_good sT aT g ->
  (forall x, In x live -> c15_slot_valid g nch x) -> c15_slot_valid g nch' b -> ~ In b live -> (fst b <= nch)%nat ->
  c15_blk_ok sT aT (g_chunkSize g) nch live b = true.
Proof.
  intros GG Hlive Hb Hnin Hle.
  destruct (c15_as_pos _ _ _ GG) as [Ha HsTa].
  unfold c15_blk_ok. repeat (apply andb_true_iff; split).
  - apply Nat.leb_le. exact Hle.
  - apply N.leb_le. pose proof (c15_valid_bound _ _ _ _ _ GG Hb). lia.
  - apply N.eqb_eq. destruct Hb as (_ & k & _ & Hs). rewrite Hs.
    assert (HaT : aT <> 0).
    { destruct (gg_aT_al _ _ _ GG) as [q Hq]. pose proof (gg_al_pos _ _ _ GG). intro; subst. lia. }
    apply N.mod_divide; [exact HaT|].
    apply N.divide_mul_r. eapply N.divide_trans; [apply (gg_aT_al _ _ _ GG)|apply (gg_as_al _ _ _ GG)].
  - apply forallb_forall. intros x Hx. eapply c15_slots_disjoint; try eassumption.
    + apply Hlive; assumption.
    + intro; subst; contradiction.
Qed.

Definition c15_nch (st : c15_client) : nat := length (p_chunks (cl_pool st)).

Lemma c15_step_free_ok g sT aT st i : c15_geom_good sT aT g -> c15_pool_inv g st -> (i < length (cl_live st))%nat ->
  exists b p', nth_error (cl_live st) i = Some b /\
    c15_step_free g st i = (C15Client p' (c15_remove_nth i (cl_live st)), ObsFreed) /\
    c15_pool_inv g (C15Client p' (c15_remove_nth i (cl_live st))) /\
    length (p_chunks p') = c15_nch st /\
    length (c15_remove_nth i (cl_live st)) = pred (length (cl_live st)).
Proof.
  intros GG Hinv Hi. unfold c15_step_free.
  destruct (nth_error (cl_live st) i) as [b|] eqn:Enth; [|apply nth_error_None in Enth; lia].
  destruct (c15_free_step g sT aT st i b GG Hinv Enth) as (p' & Ef & Hinv' & Hlen).
  assert (Hl : length (c15_remove_nth i (cl_live st)) = pred (length (cl_live st))).
  { destruct (c15_remove_nth_split _ _ _ Enth) as (l1 & l2 & E1 & E2 & _). rewrite E2, E1, !app_length. cbn. lia. }
  exists b, p'. rewrite Ef. split; [reflexivity|]. split; [reflexivity|]. split; [exact Hinv'|]. split; [exact Hlen|exact Hl].
Qed.

Lemma c15_copy_first g sT aT : c15_geom_good sT aT g ->
  exists p', c15_pool_allocate g (c15_pa_copy c15_pool_empty) = C15Ok ((0%nat, 0), p') /\
             forall p, c15_pa_copy p = c15_pool_empty.
Proof.
  intros GG. destruct (c15_as_pos _ _ _ GG) as [Ha _]. pose proof (gg_el _ _ _ GG) as Hel.
  unfold c15_pa_copy, c15_pool_allocate, c15_pool_empty. cbn [p_free].
  rewrite (c15_grow_spec g (C15Pool [] []) Ha Hel). cbn [p_chunks length p_free]. unfold c15_chunk_slots.
  destruct (N.to_nat (g_elements g)) as [|e] eqn:E; [lia|]. cbn [seq map N.of_nat N.mul].
  eexists. split; reflexivity.
Qed.

Lemma c15_foreign_refused g st : c15_pool_inv g st ->
  c15_pool_free g (cl_pool st) (S (length (p_chunks (cl_pool st))), 0) = C15BadAlloc.
Proof.
  intros (Hch & _). unfold c15_pool_free. cbn [fst snd].
  assert (E : existsb (Nat.eqb (S (length (p_chunks (cl_pool st))))) (p_chunks (cl_pool st)) = false).
  { destruct (existsb _ _) eqn:E; [|reflexivity]. apply existsb_exists in E. destruct E as (x & Hx & Hx2).
    apply Nat.eqb_eq in Hx2. rewrite Hch in Hx. apply c15_rev_seq_in in Hx. lia. }
  rewrite E. reflexivity.
Qed.

Lemma c15_run_ok g sT aT : c15_geom_good sT aT g -> forall ops st,
  c15_pool_inv g st -> c15_ops_ok (length (cl_live st)) ops = true ->
  c15_spec_trace sT aT (g_chunkSize g) (c15_nch st) (cl_live st) ops (fst (c15_run g st ops)) = true /\
  c15_pool_inv g (snd (c15_run g st ops)) /\
  c15_nch (snd (c15_run g st ops)) = Nat.max (c15_nch st) (c15_spec_nchunks (fst (c15_run g st ops))).
Proof.
  intros GG. induction ops as [|op ops IH]; intros st Hinv Hok.
  - cbn [c15_run fst snd c15_spec_trace c15_spec_nchunks]. rewrite Nat.max_0_r. split; [reflexivity|split; [assumption|reflexivity]].
  - assert (Hsame : forall o, c15_ops_ok (length (cl_live st)) ops = true ->
              c15_step g st op = (st, o) ->
              (forall os, c15_spec_trace sT aT (g_chunkSize g) (c15_nch st) (cl_live st) (op :: ops) (o :: os) =
                          c15_spec_trace sT aT (g_chunkSize g) (c15_nch st) (cl_live st) ops os) ->
              c15_spec_nchunks [o] = 0%nat ->
              c15_spec_trace sT aT (g_chunkSize g) (c15_nch st) (cl_live st) (op :: ops) (fst (c15_run g st (op :: ops))) = true /\
              c15_pool_inv g (snd (c15_run g st (op :: ops))) /\
              c15_nch (snd (c15_run g st (op :: ops))) = Nat.max (c15_nch st) (c15_spec_nchunks (fst (c15_run g st (op :: ops))))).
    { intros o Hok' Estep Hspec Hn. cbn [c15_run]. rewrite Estep.
      specialize (IH st Hinv Hok'). destruct IH as (IH1 & IH2 & IH3).
      destruct (c15_run g st ops) as [os st2] eqn:Er. cbn [fst snd] in *.
      rewrite Hspec. split; [exact IH1|split; [exact IH2|]].
      rewrite IH3. destruct o; cbn in Hn; try discriminate; cbn [c15_spec_nchunks]; try reflexivity. }
    assert (Hfree : forall i, (i < length (cl_live st))%nat -> c15_ops_ok (pred (length (cl_live st))) ops = true ->
              c15_step g st op = c15_step_free g st i ->
              (forall b os, nth_error (cl_live st) i = Some b ->
                          c15_spec_trace sT aT (g_chunkSize g) (c15_nch st) (cl_live st) (op :: ops) (ObsFreed :: os) =
                          c15_spec_trace sT aT (g_chunkSize g) (c15_nch st) (c15_remove_nth i (cl_live st)) ops os) ->
              c15_spec_trace sT aT (g_chunkSize g) (c15_nch st) (cl_live st) (op :: ops) (fst (c15_run g st (op :: ops))) = true /\
              c15_pool_inv g (snd (c15_run g st (op :: ops))) /\
              c15_nch (snd (c15_run g st (op :: ops))) = Nat.max (c15_nch st) (c15_spec_nchunks (fst (c15_run g st (op :: ops))))).
    { intros i Hi Hok' Estep Hspec.
      destruct (c15_step_free_ok g sT aT st i GG Hinv Hi) as (b & p' & Enth & Ef & Hinv' & Hlen & Hl).
      cbn [c15_run]. rewrite Estep, Ef.
      specialize (IH (C15Client p' (c15_remove_nth i (cl_live st))) Hinv'). cbn [cl_live] in IH. rewrite Hl in IH.
      specialize (IH Hok'). destruct IH as (IH1 & IH2 & IH3).
      destruct (c15_run g (C15Client p' (c15_remove_nth i (cl_live st))) ops) as [os st2] eqn:Er. cbn [fst snd] in *.
      rewrite (Hspec b os Enth). unfold c15_nch in *. cbn [cl_pool] in *. rewrite Hlen in *.
      split; [exact IH1|split; [exact IH2|exact IH3]]. }
    destruct op as [n|i|i n|nl|k|i k]; cbn [c15_ops_ok] in Hok.
    + (* allocate(n) *)
      cbn [c15_run c15_step]. unfold c15_pa_allocate, c15_param_pa_alloc_n.
      destruct (n =? 1) eqn:En.
      * destruct (c15_alloc_step g sT aT st GG Hinv) as (b & p' & Ea & Hinv' & Hnin & Hval & Hlen & Hle).
        rewrite Ea.
        specialize (IH (C15Client p' (cl_live st ++ [b])) Hinv').
        cbn [cl_live] in IH. rewrite app_length in IH. cbn [length] in IH. rewrite Nat.add_1_r in IH.
        specialize (IH Hok). destruct IH as (IH1 & IH2 & IH3).
        destruct (c15_run g (C15Client p' (cl_live st ++ [b])) ops) as [os st2] eqn:Er.
        cbn [fst snd] in *. cbn [c15_spec_trace c15_spec_nchunks]. rewrite En.
        unfold c15_nch in *. cbn [cl_pool] in *.
        split; [|split].
        -- apply andb_true_iff. split.
           ++ destruct b as [c off]. cbn [fst snd] in *.
              eapply c15_valid_blk_ok; try eassumption.
              intros x Hx. destruct Hinv as (_ & _ & Hin). apply Hin. apply in_or_app. right; exact Hx.
           ++ rewrite <- Hlen. destruct b; exact IH1.
        -- exact IH2.
        -- rewrite IH3, Hlen. lia.
      * specialize (IH st Hinv Hok). destruct IH as (IH1 & IH2 & IH3).
        destruct (c15_run g st ops) as [os st2] eqn:Er.
        cbn [fst snd] in *. cbn [c15_spec_trace c15_spec_nchunks]. rewrite En. split; [exact IH1|split; [exact IH2|exact IH3]].
    + (* free i *)
      apply andb_true_iff in Hok. destruct Hok as [Hi Hok]. apply Nat.ltb_lt in Hi.
      apply (Hfree i Hi Hok); [reflexivity|].
      intros b os Enth. cbn [c15_spec_trace]. rewrite Enth. reflexivity.
    + (* deallocate(p_i, n), n <= 1 *)
      apply andb_true_iff in Hok. destruct Hok as [Hok Hok2]. apply andb_true_iff in Hok. destruct Hok as [Hi Hn].
      apply Nat.ltb_lt in Hi. apply N.leb_le in Hn.
      destruct (nth_error (cl_live st) i) as [b|] eqn:Enth; [|apply nth_error_None in Enth; lia].
      destruct (N.eq_dec n 0) as [E0|E0].
      * subst n. cbn in Hok2. apply (Hsame ObsNoop Hok2).
        -- cbn [c15_step]. cbn. rewrite Enth. reflexivity.
        -- intros os. cbn [c15_spec_trace]. rewrite Enth. reflexivity.
        -- reflexivity.
      * assert (n = 1) by lia. subst n. cbn in Hok2. apply (Hfree i Hi Hok2); [reflexivity|].
        intros b' os Enth'. cbn [c15_spec_trace]. rewrite Enth'. reflexivity.
    + (* free(null) / free(foreign) *)
      apply (Hsame ObsBadAlloc Hok).
      * cbn [c15_step]. destruct nl; [reflexivity|]. rewrite (c15_foreign_refused g st Hinv). reflexivity.
      * intros os. reflexivity.
      * reflexivity.
    + (* copy / convert / rebind *)
      apply (Hsame ObsCopyOk Hok).
      * cbn [c15_step]. destruct (c15_copy_first g sT aT GG) as (p' & E & Hc). rewrite (Hc (cl_pool st)).
        rewrite (Hc c15_pool_empty) in E. rewrite E. reflexivity.
      * intros os. reflexivity.
      * reflexivity.
    + discriminate.
Qed.

(* destroy releases each chunk obtained exactly once *)
Lemma c15_destroy_ok g st : c15_pool_inv g st -> c15_spec_destroy (c15_nch st) (c15_pool_destroy (cl_pool st)) = true.
Proof.
  intros (Hch & _). unfold c15_spec_destroy, c15_pool_destroy, c15_nch.
  apply andb_true_iff. split; [apply Nat.eqb_refl|].
  apply forallb_forall. intros c Hc. apply in_seq in Hc.
  apply existsb_exists. exists c. split; [|apply Nat.eqb_refl].
  rewrite Hch. apply c15_rev_seq_in. lia.
Qed.

(* ---- the history theorem, from the empty pool *)
Theorem c15_pool_history sT aT g ops : c15_geom_good sT aT g -> c15_ops_ok 0 ops = true ->
  let r := c15_run g c15_client_empty ops in
  c15_spec_trace sT aT (g_chunkSize g) 0 [] ops (fst r) = true /\
  c15_spec_destroy (c15_spec_nchunks (fst r)) (c15_pool_destroy (cl_pool (snd r))) = true /\
  c15_pool_inv g (snd r).
Proof.
  intros GG Hok r.
  destruct (c15_run_ok g sT aT GG ops c15_client_empty (c15_inv_empty g) Hok) as (H1 & H2 & H3).
  fold r in H1, H2, H3. split; [exact H1|]. split; [|exact H2].
  pose proof (c15_destroy_ok g (snd r) H2) as Hd. rewrite H3 in Hd. exact Hd.
Qed.

(* the conjunction form used by Properties_C15.v *)
Lemma c15_geometry_asserts sT aT s g : 1 <= sT -> 1 <= aT -> c15_geometry sT aT s = Some g ->
  0 < g_alignment g /\ (aT | g_alignment g) /\ (c15_alignofRef | g_alignment g) /\
  sT <= g_unionSize g /\ c15_sizeofRef <= g_unionSize g /\ g_unionSize g <= g_alignedSize g /\
  sT <= g_chunkSize g /\ c15_sizeofRef <= g_chunkSize g /\ (g_alignment g | g_chunkSize g) /\
  1 <= g_elements g /\ g_elements g * g_alignedSize g <= g_chunkSize g /\ (g_alignment g | g_alignedSize g).
Proof.
  intros H1 H2 H. destruct (c15_geometry_good sT aT s g H1 H2 H). repeat split; assumption.
Qed.

Lemma c15_geometry_defined sT aT s : 1 <= sT -> 1 <= aT -> sT + 8 * aT + 8 <= c15_int_max -> s + 8 * aT <= c15_int_max ->
  exists g, c15_geometry sT aT s = Some g.
Proof.
  intros H1 H2 H3 H4. unfold c15_geometry. rewrite (c15_geom_in_range_sufficient sT aT s H1 H2 H3 H4).
  eexists; reflexivity.
Qed.
