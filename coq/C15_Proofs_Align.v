(* C15 — proofs: Dune::isAligned (debugalign.hh), i.e. libstdc++'s std::align bit trick, decides p mod 2^k = 0. *)
From Coq Require Import List NArith Bool Arith Lia.
From DuneV Require Import Params_gen C15_Model C15_Spec C15_Proofs_Sys.
Local Open Scope N_scope.

Lemma c15_testbit_high x n : x < 2 ^ 64 -> 64 <= n -> N.testbit x n = false.
Proof.
  intros Hx Hn. destruct (N.eq_dec x 0) as [E|E]; [subst; apply N.bits_0|].
  apply N.bits_above_log2. assert (N.log2 x < 64) by (apply N.log2_lt_pow2; lia). lia.
Qed.

(* x & -2^k clears the low k bits of a 64-bit word *)
Lemma c15_land_mask x k : x < 2 ^ 64 -> k <= 64 -> N.land x (2 ^ 64 - 2 ^ k) = 2 ^ k * (x / 2 ^ k).
Proof.
  intros Hx Hk.
  assert (EM : 2 ^ 64 - 2 ^ k = N.shiftl (N.ones (64 - k)) k).
  { rewrite N.shiftl_mul_pow2, N.ones_equiv, <- N.sub_1_r, N.mul_sub_distr_r, <- N.pow_add_r.
    replace (64 - k + k) with 64 by lia. lia. }
  rewrite EM, N.mul_comm, <- N.shiftr_div_pow2, <- N.shiftl_mul_pow2.
  apply N.bits_inj. intros n. rewrite N.land_spec.
  destruct (N.lt_ge_cases n k) as [Hn|Hn].
  - rewrite !N.shiftl_spec_low by assumption. apply andb_false_r.
  - rewrite !N.shiftl_spec_high' by assumption. rewrite N.shiftr_spec by lia.
    replace (n - k + k) with n by lia.
    destruct (N.lt_ge_cases n 64) as [H64|H64].
    + rewrite N.ones_spec_low by lia. apply andb_true_r.
    + rewrite N.ones_spec_high by lia. rewrite (c15_testbit_high x n Hx H64). reflexivity.
Qed.

Lemma c15_isAligned_correct p k : p < 2 ^ 64 -> k <= 62 ->
  c15_isAligned p (2 ^ k) = c15_spec_isAligned p (2 ^ k).
Proof.
  intros Hp Hk. set (a := 2 ^ k).
  assert (Ha1 : 1 <= a) by (unfold a; pose proof (N.pow_nonzero 2 k); lia).
  assert (Ha62 : a <= 2 ^ 62) by (unfold a; apply N.pow_le_mono_r; lia).
  assert (E64 : 2 ^ 64 = a * 2 ^ (64 - k)) by (unfold a; rewrite <- N.pow_add_r; f_equal; lia).
  change (2 ^ 62) with 4611686018427387904 in Ha62.
  unfold c15_isAligned, c15_spec_isAligned, c15_std_align, c15_wrap, c15_param_isaligned_space_factor.
  change (2 ^ 64) with 18446744073709551616 in *.
  rewrite (N.mod_small (a * 2)) by lia.
  assert (Es : a * 2 <? a = false) by (apply N.ltb_ge; lia). rewrite Es.
  rewrite (N.mod_small (18446744073709551616 - a)) by lia.
  set (x := (p + (18446744073709551616 - 1) + a) mod 18446744073709551616).
  assert (Hx : x < 18446744073709551616) by (apply N.mod_upper_bound; lia).
  pose proof (c15_land_mask x k) as HL. change (2 ^ 64) with 18446744073709551616 in HL. fold a in HL.
  rewrite HL by lia. clear HL.
  assert (Hane : a <> 0) by lia.
  pose proof (N.div_mod p a Hane) as Hdm. pose proof (N.mod_upper_bound p a Hane) as Hub.
  set (m := p / a) in Hdm. set (r := p mod a) in *.
  destruct (N.eq_dec r 0) as [Er|Er].
  - (* aligned address *)
    rewrite Er, N.eqb_refl. rewrite Er in Hdm.
    assert (Hq : x / a = m).
    { destruct (N.eq_dec p 0) as [E0|E0].
      - assert (H : m = 0) by nia. rewrite H. unfold x. rewrite E0.
        replace (0 + (18446744073709551616 - 1) + a) with ((a - 1) + 1 * 18446744073709551616) by lia.
        rewrite N.mod_add by lia. rewrite N.mod_small by lia. apply N.div_small. lia.
      - assert (Hm : 1 <= m) by nia.
        assert (Hle : p + a <= 18446744073709551616).
        { set (M := 2 ^ (64 - k)) in *. assert (m < M) by nia. assert (m + 1 <= M) by lia.
          assert (a * (m + 1) <= a * M) by (apply N.mul_le_mono_l; assumption). lia. }
        unfold x. replace (p + (18446744073709551616 - 1) + a) with ((p - 1 + a) + 1 * 18446744073709551616) by lia.
        rewrite N.mod_add by lia. rewrite N.mod_small by lia.
        symmetry. apply (N.div_unique _ _ _ (a - 1)); lia. }
    rewrite Hq. replace (a * m) with p by lia.
    replace ((p + 18446744073709551616 - p) mod 18446744073709551616) with 0
      by (replace (p + 18446744073709551616 - p) with 18446744073709551616 by lia; reflexivity).
    assert (Ed : a * 2 - a <? 0 = false) by (apply N.ltb_ge; lia). rewrite Ed. apply N.eqb_refl.
  - (* misaligned address: whatever std::align answers, it is not p *)
    assert (Ens : r =? 0 = false) by (apply N.eqb_neq; exact Er). rewrite Ens.
    assert (Hne : a * (x / a) <> p).
    { intro Heq. assert (Hdiv : (a | p)) by (exists (x / a); lia).
      apply N.mod_divide in Hdiv; [|exact Hane]. fold r in Hdiv. contradiction. }
    destruct (a * 2 - a <? _); [reflexivity|]. apply N.eqb_neq. exact Hne.
Qed.

(* the violation handler is consulted exactly for misaligned addresses; an empty handler lets the placement through *)
Lemma c15_alignedbase_new_correct h p k : p < 2 ^ 64 -> k <= 62 ->
  c15_alignedbase_new h p (2 ^ k) =
    if p mod 2 ^ k =? 0 then PlacePlaced
    else match h with HandlerDefault => PlaceAbort | HandlerUser => PlaceReported | HandlerEmpty => PlacePlaced end.
Proof.
  intros Hp Hk. unfold c15_alignedbase_new. rewrite (c15_isAligned_correct p k Hp Hk). reflexivity.
Qed.

Lemma c15_debug_alignment_pow2 : c15_debug_alignment = 2 ^ 5.
Proof. reflexivity. Qed.
