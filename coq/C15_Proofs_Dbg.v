(* C15 — proofs: the debugging allocator over whole histories (code after fixes/C15-1 and C15-2):
   for every sequence of allocate(n) / deallocate(live block) the spec oracle accepts the model's trace. *)
From Coq Require Import List NArith Bool Arith Lia Permutation.
From DuneV Require Import Params_gen C15_Model C15_Spec C15_Proofs C15_Proofs_Sys.
Import ListNotations.
Local Open Scope N_scope.

Definition c15_op_plain (op : c15_op) : bool := match op with OpAlloc _ | OpFree _ => true | _ => false end.

Definition c15_dbg_view (it : c15_dbg_info) : N * N := (d_ptr it, d_size it).

Record c15_dbg_inv (page : N) (st : c15_dbg_state) : Prop := {
  di_wf : Forall (c15_dbg_wf page) (ds_list st);
  di_nodup : NoDup (map d_page_ptr (ds_list st));
  di_below : Forall (fun it => d_page_ptr it < ds_next st) (ds_list st);
  di_next : (page | ds_next st);
  di_live : ds_live st = map c15_dbg_view (ds_list st);
  di_type : Forall (fun it => d_type it = 0) (ds_list st);
  (* every mapping has capacity/page + 2 pages and lies below the next free address; the mappings are disjoint and ordered *)
  di_ext : Forall (fun it => d_pages it = d_capacity it / page + 2 /\ d_page_ptr it + d_pages it * page <= ds_next st) (ds_list st);
  di_sep : ForallOrdPairs (fun a b => d_page_ptr a + d_pages a * page <= d_page_ptr b) (ds_list st)
}.

Lemma c15_fop_snoc {A} (R : A -> A -> Prop) l x : ForallOrdPairs R l -> Forall (fun a => R a x) l -> ForallOrdPairs R (l ++ [x]).
Proof.
  induction 1 as [|a l Ha Hl IH]; cbn; intros H; [repeat constructor|].
  inversion H; subst. constructor; [apply Forall_app; split; [exact Ha|repeat constructor; assumption]|apply IH; assumption].
Qed.
Lemma c15_fop_remove {A} (R : A -> A -> Prop) l1 x l2 : ForallOrdPairs R (l1 ++ x :: l2) -> ForallOrdPairs R (l1 ++ l2).
Proof.
  induction l1 as [|a l1 IH]; cbn; intros H; inversion H; subst; [assumption|].
  constructor; [|apply IH; assumption].
  apply Forall_app in H2. destruct H2 as [F1 F2]. inversion F2; subst. apply Forall_app; split; assumption.
Qed.

Lemma c15_dbg_inv0 page : c15_dbg_inv page (c15_dbg_state0 page).
Proof. constructor; cbn; try constructor. exists 16. reflexivity. Qed.

Lemma c15_dbg_alloc_cases page sT n next : 1 <= page -> 2 * page <= c15_size_max -> 1 <= sT ->
  c15_dbg_allocate_gen true page 0 sT n (c15_sys_mmap next) = C15BadAlloc \/
  (n <= c15_dbg_limit page sT /\
   exists ai gp, c15_dbg_allocate_gen true page 0 sT n (c15_sys_mmap next) = C15Ok (ai, gp) /\
     d_type ai = 0 /\ d_page_ptr ai = next /\ d_capacity ai = n * sT /\ d_size ai = n /\ d_pages ai = n * sT / page + 2 /\
     d_ptr ai = next + page - (n * sT) mod page /\ d_ptr ai + n * sT = gp /\ d_pages ai * page <= c15_size_max /\
     n * sT < c15_sys_limit).
Proof.
  intros Hp H2p HsT.
  destruct (c15_debug_layout page 0 sT n (c15_sys_mmap next) Hp H2p HsT) as [L1 L2].
  fold (c15_dbg_limit page sT) in L1, L2. unfold c15_dbg_allocate in *.
  destruct (N.lt_ge_cases (c15_dbg_limit page sT) n) as [Hn|Hn]; [left; apply L1; exact Hn|].
  specialize (L2 Hn). cbv zeta in L2. destruct L2 as (Hpg & LN & LS).
  destruct (c15_sys_mmap next ((n * sT / page + 2) * page)) as [pp|] eqn:Em; [|left; apply LN; reflexivity].
  right. split; [exact Hn|].
  unfold c15_sys_mmap in Em.
  destruct ((0 <? (n * sT / page + 2) * page) && ((n * sT / page + 2) * page <? c15_sys_limit) &&
            (next + (n * sT / page + 2) * page <=? 2 ^ 64)) eqn:Ec; [|discriminate].
  inversion Em; subst pp. apply andb_true_iff in Ec. destruct Ec as [Ec0 Ec]. apply N.leb_le in Ec.
  apply andb_true_iff in Ec0. destruct Ec0 as [_ Elim]. apply N.ltb_lt in Elim.
  destruct (LS next eq_refl Ec) as (ai & gp & Ea & Ht & Hpp & Hcap & Hsz & Hpgs & Hptr & _ & Hend & _).
  exists ai, gp. rewrite Hpgs. repeat split; try assumption.
  assert (Hpne : page <> 0) by lia.
  pose proof (N.div_mod (n * sT) page Hpne) as Hdm. pose proof (N.mod_upper_bound (n * sT) page Hpne) as Hub.
  set (q := n * sT / page) in *. set (r := (n * sT) mod page) in *. clearbody q r. nia.
Qed.

Lemma c15_remove_nth_map {A B} (f : A -> B) i l : c15_remove_nth i (map f l) = map f (c15_remove_nth i l).
Proof. revert i; induction l as [|h t IH]; intros [|i]; cbn; try reflexivity. rewrite IH; reflexivity. Qed.

Lemma c15_off_aligned page sT aT n : 1 <= page -> (aT | page) -> (aT | sT) -> (aT | c15_spec_dbg_off page sT n).
Proof.
  intros Hp Hap HaT. assert (Hpne : page <> 0) by lia. unfold c15_spec_dbg_off.
  pose proof (N.mod_upper_bound (n * sT) page Hpne) as Hub.
  assert (Hr : (aT | (n * sT) mod page)).
  { pose proof (N.div_mod (n * sT) page Hpne) as Hdm.
    apply (N.divide_add_cancel_r _ (page * (n * sT / page))).
    - apply N.divide_mul_l. exact Hap.
    - rewrite <- Hdm. apply N.divide_mul_r. exact HaT. }
  set (r := (n * sT) mod page) in *.
  destruct (N.eq_dec r 0) as [E|E].
  - rewrite E, N.sub_0_r, N.mod_same by assumption. apply N.divide_0_r.
  - rewrite N.mod_small by lia. destruct Hr as [x Hx]. destruct Hap as [y Hy]. exists (y - x). nia.
Qed.

Section C15DbgHistory.
  Variables (page sT aT : N).
  Hypothesis Hp : 1 <= page.
  Hypothesis H2p : 2 * page <= c15_size_max.
  Hypothesis HsT : 1 <= sT.
  Hypothesis Hap : (aT | page).
  Hypothesis HaT : (aT | sT).

  Lemma c15_dbg_step_alloc st n : c15_dbg_inv page st ->
    (c15_dbg_step true true page sT st (OpAlloc n) = (st, DObsBadAlloc)) \/
    (exists st', c15_dbg_step true true page sT st (OpAlloc n) = (st', DObsOk (c15_spec_dbg_off page sT n) (n * sT) true) /\
       c15_dbg_inv page st' /\ length (ds_live st') = S (length (ds_live st)) /\ c15_spec_dbg_servable page sT n = true).
  Proof.
    intros I. cbn [c15_dbg_step].
    destruct (c15_dbg_alloc_cases page sT n (ds_next st) Hp H2p HsT) as [E|(Hn & ai & gp & E & Ht & Hpp & Hcap & Hsz & Hpgs & Hptr & Hend & Hpg & Hlim)].
    - left. rewrite E. reflexivity.
    - right. rewrite E. eexists. split; [|split; [|split]].
      + f_equal. destruct (c15_debug_offset page sT aT n (ds_next st) Hp (di_next _ _ I)) as [Ho _].
        cbv zeta in Ho. rewrite Hptr, Ho, Hcap, <- Hend, <- Hptr, N.eqb_refl. reflexivity.
      + constructor; cbn [ds_list ds_live ds_next].
        * apply Forall_app. split; [apply (di_wf _ _ I)|]. constructor; [|constructor].
          split; [rewrite Hpp; apply (di_next _ _ I)|rewrite Hpp, Hcap; exact Hptr].
        * rewrite map_app. cbn. apply c15_nodup_app; [apply (di_nodup _ _ I)|constructor; [intros []|constructor]|].
          intros x Hx [Hy|[]]. apply in_map_iff in Hx. destruct Hx as (it & Hit & Hin).
          pose proof (di_below _ _ I) as Hb. rewrite Forall_forall in Hb. specialize (Hb it Hin). lia.
        * apply Forall_app. split.
          -- eapply Forall_impl; [|apply (di_below _ _ I)]. cbn. intros; lia.
          -- constructor; [|constructor]. rewrite Hpp. lia.
        * rewrite (c15_wrap_small _ Hpg). apply N.divide_add_r; [apply N.divide_add_r|].
          -- apply (di_next _ _ I).
          -- apply N.divide_mul_r. apply N.divide_refl.
          -- apply N.divide_refl.
        * rewrite map_app, (di_live _ _ I). cbn. unfold c15_dbg_view. rewrite Hsz. reflexivity.
        * apply Forall_app. split; [apply (di_type _ _ I)|]. constructor; [exact Ht|constructor].
        * rewrite (c15_wrap_small _ Hpg). apply Forall_app. split.
          -- eapply Forall_impl; [|apply (di_ext _ _ I)]. cbn. intros a [Ha1 Ha2]. split; [exact Ha1|lia].
          -- constructor; [|constructor]. rewrite Hpp, Hcap. split; [exact Hpgs|lia].
        * apply c15_fop_snoc; [apply (di_sep _ _ I)|].
          eapply Forall_impl; [|apply (di_ext _ _ I)]. cbn. intros a [_ Ha2]. rewrite Hpp. exact Ha2.
      + cbn [ds_live]. rewrite app_length. cbn. lia.
      + unfold c15_spec_dbg_servable, c15_spec_unservable, c15_unservable_bytes. unfold c15_sys_limit in Hlim.
        apply andb_true_iff. split.
        * apply N.leb_le. unfold c15_dbg_limit in Hn.
          assert (n * sT <= c15_size_max - 2 * page).
          { etransitivity; [apply N.mul_le_mono_r; exact Hn|]. rewrite N.mul_comm. apply N.mul_div_le. lia. }
          lia.
        * apply negb_true_iff. apply N.leb_gt. exact Hlim.
  Qed.

  Lemma c15_dbg_step_free_ok st i : c15_dbg_inv page st -> (i < length (ds_live st))%nat ->
    exists st', c15_dbg_step true true page sT st (OpFree i) = (st', DObsFreed) /\
      c15_dbg_inv page st' /\ length (ds_live st') = pred (length (ds_live st)).
  Proof.
    intros I Hi. cbn [c15_dbg_step].
    destruct (nth_error (ds_live st) i) as [[ptr n]|] eqn:En; [|apply nth_error_None in En; lia].
    rewrite (di_live _ _ I) in En.
    destruct (nth_error (ds_list st) i) as [it|] eqn:En2;
      [|rewrite nth_error_map, En2 in En; discriminate].
    rewrite nth_error_map, En2 in En. cbn in En. inversion En; subst ptr n.
    destruct (c15_remove_nth_split _ _ _ En2) as (l1 & l2 & El & Er & _).
    pose proof (di_type _ _ I) as Hty. rewrite Forall_forall in Hty.
    assert (Hit : d_type it = 0) by (apply Hty; rewrite El; apply in_or_app; right; left; reflexivity).
    pose proof (c15_debug_dealloc page l1 it l2 (d_size it) Hp) as Hd.
    rewrite <- El in Hd. specialize (Hd (di_wf _ _ I) (di_nodup _ _ I) (or_intror eq_refl)).
    unfold c15_dbg_deallocate in Hd. rewrite Hit in Hd. unfold c15_dbg_step_free. rewrite Hd.
    eexists. split; [reflexivity|]. split.
    - pose proof (di_wf _ _ I) as W. pose proof (di_nodup _ _ I) as D. pose proof (di_below _ _ I) as B.
      pose proof (di_type _ _ I) as T. pose proof (di_ext _ _ I) as X. pose proof (di_sep _ _ I) as S.
      rewrite El in W, D, B, T, X, S. rewrite map_app in D. cbn in D.
      apply Forall_app in X. destruct X as [X1 X2]. inversion X2; subst.
      apply Forall_app in W. destruct W as [W1 W2]. inversion W2; subst.
      apply Forall_app in B. destruct B as [B1 B2]. inversion B2; subst.
      apply Forall_app in T. destruct T as [T1 T2]. inversion T2; subst.
      constructor; cbn [ds_list ds_live ds_next].
      + apply Forall_app; split; assumption.
      + rewrite map_app. apply NoDup_remove_1 in D. exact D.
      + apply Forall_app; split; assumption.
      + apply (di_next _ _ I).
      + rewrite (di_live _ _ I), c15_remove_nth_map, Er. reflexivity.
      + apply Forall_app; split; assumption.
      + apply Forall_app; split; assumption.
      + eapply c15_fop_remove; exact S.
    - cbn [ds_live]. rewrite (di_live _ _ I), c15_remove_nth_map, Er, El, !map_length, !app_length. cbn. lia.
  Qed.

  Lemma c15_dbg_run_ok ops : forall st, c15_dbg_inv page st ->
    forallb c15_op_plain ops = true ->
    ~ In DObsPrecond (c15_dbg_run true true page sT st ops) ->
    c15_spec_dbg_trace page sT aT (length (ds_live st)) ops (c15_dbg_run true true page sT st ops) = true.
  Proof.
    induction ops as [|op ops IH]; intros st I Hpl Hnp; [reflexivity|].
    cbn [forallb] in Hpl. apply andb_true_iff in Hpl. destruct Hpl as [Hop Hpl].
    cbn [c15_dbg_run] in *. destruct op as [n|i| | | | ]; try discriminate.
    - destruct (c15_dbg_step_alloc st n I) as [E|(st' & E & I' & Hl & Hs)]; rewrite E in *.
      + cbn [c15_spec_dbg_trace]. apply IH; [exact I|exact Hpl|]. intro H; apply Hnp; right; exact H.
      + cbn [c15_spec_dbg_trace]. rewrite Hs, !N.eqb_refl. cbn [andb].
        assert (Ho : c15_spec_dbg_off page sT n mod aT =? 0 = true).
        { apply N.eqb_eq. apply N.mod_divide.
          - destruct Hap as [y Hy]. intro; subst. lia.
          - apply c15_off_aligned; assumption. }
        rewrite Ho. cbn [andb]. rewrite <- Hl. apply IH; [exact I'|exact Hpl|]. intro H; apply Hnp; right; exact H.
    - destruct (Nat.lt_ge_cases i (length (ds_live st))) as [Hi|Hi].
      + destruct (c15_dbg_step_free_ok st i I Hi) as (st' & E & I' & Hl). rewrite E in *.
        cbn [c15_spec_dbg_trace]. apply Nat.ltb_lt in Hi. rewrite Hi. cbn [andb]. rewrite <- Hl.
        apply IH; [exact I'|exact Hpl|]. intro H; apply Hnp; right; exact H.
      + exfalso. apply Hnp. cbn [c15_dbg_step].
        assert (En : nth_error (ds_live st) i = None) by (apply nth_error_None; lia).
        rewrite En. left; reflexivity.
  Qed.

  Lemma c15_dbg_final_inv ops : forall st, c15_dbg_inv page st -> forallb c15_op_plain ops = true ->
    forall st', c15_dbg_final true true page sT st ops = Some st' -> c15_dbg_inv page st'.
  Proof.
    induction ops as [|op ops IH]; intros st I Hpl st' Hf; [cbn in Hf; inversion Hf; subst; exact I|].
    cbn [forallb] in Hpl. apply andb_true_iff in Hpl. destruct Hpl as [Hop Hpl].
    cbn [c15_dbg_final] in Hf. destruct op as [n|i| | | | ]; try discriminate.
    - destruct (c15_dbg_step_alloc st n I) as [E|(st1 & E & I1 & _ & _)]; rewrite E in Hf; eapply IH; eassumption.
    - destruct (Nat.lt_ge_cases i (length (ds_live st))) as [Hi|Hi].
      + destruct (c15_dbg_step_free_ok st i I Hi) as (st1 & E & I1 & _). rewrite E in Hf. eapply IH; eassumption.
      + cbn [c15_dbg_step] in Hf. assert (En : nth_error (ds_live st) i = None) by (apply nth_error_None; lia).
        rewrite En in Hf. eapply IH; eassumption.
  Qed.

  Lemma c15_fop_impl_in {A} (R R' : A -> A -> Prop) l : (forall a b, In a l -> In b l -> R a b -> R' a b) ->
    ForallOrdPairs R l -> ForallOrdPairs R' l.
  Proof.
    intros Himp H. induction H as [|a l Ha Hl IH]; constructor.
    - rewrite Forall_forall in *. intros b Hb. apply Himp; [left; reflexivity|right; exact Hb|apply Ha; exact Hb].
    - apply IH. intros x y Hx Hy. apply Himp; right; assumption.
  Qed.

  (* in every state of the invariant: each live block lies inside its own mapping, directly below the guard page, and the blocks
     of different live allocations are disjoint (ordered by address in the bookkeeping list) *)
  Lemma c15_dbg_inv_blocks st : c15_dbg_inv page st ->
    Forall (fun it => d_page_ptr it <= d_ptr it /\ d_ptr it + d_capacity it + page = d_page_ptr it + d_pages it * page) (ds_list st) /\
    ForallOrdPairs (fun a b => d_ptr a + d_capacity a <= d_ptr b) (ds_list st).
  Proof.
    intros I. assert (Hpne : page <> 0) by lia.
    assert (HF : Forall (fun it => d_page_ptr it <= d_ptr it /\ d_ptr it + d_capacity it + page = d_page_ptr it + d_pages it * page) (ds_list st)).
    { pose proof (di_wf _ _ I) as W. pose proof (di_ext _ _ I) as X. rewrite Forall_forall in *. intros it Hit.
      destruct (W it Hit) as [_ Hptr]. destruct (X it Hit) as [Hpg _].
      pose proof (N.div_mod (d_capacity it) page Hpne) as Hdm. pose proof (N.mod_upper_bound (d_capacity it) page Hpne) as Hub.
      rewrite Hptr, Hpg. set (q := d_capacity it / page) in *. set (r := d_capacity it mod page) in *. clearbody q r. split; nia. }
    split; [exact HF|].
    eapply c15_fop_impl_in; [|apply (di_sep _ _ I)]. cbn. intros a b Ha Hb Hab.
    rewrite Forall_forall in HF. destruct (HF a Ha) as [_ Ea]. destruct (HF b Hb) as [Eb _]. lia.
  Qed.

  Theorem c15_debug_blocks_disjoint ops st' : forallb c15_op_plain ops = true ->
    c15_dbg_final true true page sT (c15_dbg_state0 page) ops = Some st' ->
    ds_live st' = map c15_dbg_view (ds_list st') /\
    Forall (fun it => d_page_ptr it <= d_ptr it /\ d_ptr it + d_capacity it + page = d_page_ptr it + d_pages it * page) (ds_list st') /\
    ForallOrdPairs (fun a b => d_ptr a + d_capacity a <= d_ptr b) (ds_list st').
  Proof.
    intros Hpl Hf. pose proof (c15_dbg_final_inv ops _ (c15_dbg_inv0 page) Hpl st' Hf) as I.
    split; [apply (di_live _ _ I)|apply c15_dbg_inv_blocks; exact I].
  Qed.

  (* destroying the manager after any history: every mapping still listed is returned; it aborts iff blocks are still in use *)
  Theorem c15_debug_destroy_final ops st' : forallb c15_op_plain ops = true ->
    c15_dbg_final true true page sT (c15_dbg_state0 page) ops = Some st' ->
    c15_spec_dbg_destroy (length (ds_live st')) (length (fst (c15_dbg_destroy (ds_list st')))) (snd (c15_dbg_destroy (ds_list st'))) = true.
  Proof.
    intros Hpl Hf. pose proof (c15_dbg_final_inv ops _ (c15_dbg_inv0 page) Hpl st' Hf) as I.
    unfold c15_spec_dbg_destroy, c15_dbg_destroy. cbn [fst snd].
    rewrite (di_live _ _ I), !map_length, Nat.eqb_refl. cbn. destruct (Nat.eqb _ 0); reflexivity.
  Qed.

  Theorem c15_debug_history ops : forallb c15_op_plain ops = true ->
    ~ In DObsPrecond (c15_dbg_run true true page sT (c15_dbg_state0 page) ops) ->
    c15_spec_dbg_trace page sT aT 0 ops (c15_dbg_run true true page sT (c15_dbg_state0 page) ops) = true.
  Proof. intros Hpl H. exact (c15_dbg_run_ok ops (c15_dbg_state0 page) (c15_dbg_inv0 page) Hpl H). Qed.
End C15DbgHistory.

(* ------------------------------------------------------------------ misuse is detected, never silently accepted *)
Lemma c15_dbg_search_notfound pp ty ptr n l : ~ In pp (map d_page_ptr l) ->
  c15_dbg_dealloc_search pp ty ptr n l = inl DbgNotFound.
Proof.
  induction l as [|x l IH]; cbn; intros H; [reflexivity|].
  assert (E : d_page_ptr x =? pp = false) by (apply N.eqb_neq; intro; apply H; left; assumption).
  rewrite E, IH; [reflexivity|]. intro; apply H; right; assumption.
Qed.

Lemma c15_dbg_search_detects pp ty ptr n l1 it l2 :
  ~ In pp (map d_page_ptr l1) -> d_page_ptr it = pp ->
  (n <> 0 /\ n <> d_size it -> c15_dbg_dealloc_search pp ty ptr n (l1 ++ it :: l2) = inl DbgSize) /\
  ((n = 0 \/ n = d_size it) -> ptr <> d_ptr it -> c15_dbg_dealloc_search pp ty ptr n (l1 ++ it :: l2) = inl DbgPtr) /\
  ((n = 0 \/ n = d_size it) -> ptr = d_ptr it -> ty <> d_type it -> c15_dbg_dealloc_search pp ty ptr n (l1 ++ it :: l2) = inl DbgType).
Proof.
  intros Hnin Hpp. induction l1 as [|x l1 IH].
  - cbn. rewrite Hpp, N.eqb_refl. repeat split.
    + intros [H1 H2]. apply N.eqb_neq in H1, H2. rewrite H1, H2. reflexivity.
    + intros Hn Hptr. apply N.eqb_neq in Hptr. rewrite Hptr.
      destruct Hn as [Hn|Hn]; subst n; rewrite ?N.eqb_refl; cbn; [reflexivity|]. destruct (d_size it =? 0); reflexivity.
    + intros Hn Hptr Hty. apply N.eqb_neq in Hty. rewrite Hptr, N.eqb_refl, Hty.
      destruct Hn as [Hn|Hn]; subst n; rewrite ?N.eqb_refl; cbn; [reflexivity|]. destruct (d_size it =? 0); reflexivity.
  - assert (E : d_page_ptr x =? pp = false) by (apply N.eqb_neq; intro; apply Hnin; left; assumption).
    assert (Hnin' : ~ In pp (map d_page_ptr l1)) by (intro; apply Hnin; right; assumption).
    destruct (IH Hnin') as (I1 & I2 & I3). cbn. rewrite E. repeat split; intros.
    + rewrite I1; auto.
    + rewrite I2; auto.
    + rewrite I3; auto.
Qed.

(* wrong count / wrong element type handed to deallocate for a block of the manager: the program is stopped with the
   corresponding assertion, the bookkeeping is never changed silently *)
Theorem c15_debug_detects page l1 it l2 n ty : 1 <= page ->
  Forall (c15_dbg_wf page) (l1 ++ it :: l2) -> NoDup (map d_page_ptr (l1 ++ it :: l2)) ->
  (n <> 0 /\ n <> d_size it -> c15_dbg_deallocate page ty (d_ptr it) n (l1 ++ it :: l2) = inl DbgSize) /\
  ((n = 0 \/ n = d_size it) -> ty <> d_type it -> c15_dbg_deallocate page ty (d_ptr it) n (l1 ++ it :: l2) = inl DbgType).
Proof.
  intros Hp Hwf Hnd. unfold c15_dbg_deallocate, c15_dbg_deallocate_gen.
  assert (Hit : c15_dbg_wf page it) by (eapply Forall_forall; [exact Hwf|apply in_or_app; right; left; reflexivity]).
  rewrite (c15_dbg_page_of_ok page it Hp Hit).
  assert (Hnin : ~ In (d_page_ptr it) (map d_page_ptr l1)).
  { rewrite map_app in Hnd. cbn in Hnd. apply NoDup_remove_2 in Hnd. intro H. apply Hnd. apply in_or_app. left; exact H. }
  destruct (c15_dbg_search_detects (d_page_ptr it) ty (d_ptr it) n l1 it l2 Hnin eq_refl) as (D1 & _ & D3).
  split; [exact D1|]. intros Hn Hty. apply D3; [exact Hn|reflexivity|exact Hty].
Qed.

(* a pointer into no mapping of the manager *)
Theorem c15_debug_foreign page ty ptr n l :
  ~ In (c15_dbg_page_of_gen true page ptr) (map d_page_ptr l) -> c15_dbg_deallocate page ty ptr n l = inl DbgNotFound.
Proof. intros H. unfold c15_dbg_deallocate, c15_dbg_deallocate_gen. apply c15_dbg_search_notfound. exact H. Qed.

(* destructor: every listed mapping is released; it aborts exactly when blocks are still in use *)
Theorem c15_debug_destroy page st : c15_dbg_inv page st ->
  c15_spec_dbg_destroy (length (ds_live st)) (length (fst (c15_dbg_destroy (ds_list st)))) (snd (c15_dbg_destroy (ds_list st))) = true.
Proof.
  intros I. unfold c15_spec_dbg_destroy, c15_dbg_destroy. cbn [fst snd].
  rewrite (di_live _ _ I), !map_length, Nat.eqb_refl. cbn. destruct (Nat.eqb _ 0); reflexivity.
Qed.

(* ------------------------------------------------------------------ DEBUG_ALLOCATOR_KEEP: double free is detected *)
Lemma c15_dbgk_search_ok pp ty ptr n l1 it l2 :
  ~ In pp (map (fun e => d_page_ptr (fst e)) l1) -> d_page_ptr it = pp -> d_ptr it = ptr -> d_type it = ty ->
  (n = 0 \/ n = d_size it) ->
  c15_dbgk_search pp ty ptr n (l1 ++ (it, true) :: l2) = inr (l1 ++ (it, false) :: l2) /\
  c15_dbgk_search pp ty ptr n (l1 ++ (it, false) :: l2) = inl DbgNotFree.
Proof.
  intros Hnin Hpp Hptr Hty Hn. induction l1 as [|[x nf] l1 IH]; cbn.
  - rewrite Hpp, N.eqb_refl, Hptr, Hty, !N.eqb_refl. cbn.
    destruct Hn as [Hn|Hn]; subst n; rewrite ?N.eqb_refl; cbn; [split; reflexivity|].
    destruct (d_size it =? 0); split; reflexivity.
  - assert (E : d_page_ptr x =? pp = false) by (apply N.eqb_neq; intro; apply Hnin; left; assumption).
    rewrite E. destruct IH as [I1 I2]; [intro; apply Hnin; right; assumption|]. rewrite I1, I2. split; reflexivity.
Qed.

Theorem c15_dbgk_double_free page l1 it l2 n : 1 <= page -> c15_dbg_wf page it ->
  ~ In (d_page_ptr it) (map (fun e => d_page_ptr (fst e)) l1) -> (n = 0 \/ n = d_size it) ->
  exists l', c15_dbgk_deallocate page (d_type it) (d_ptr it) n (l1 ++ (it, true) :: l2) = inr l' /\
             c15_dbgk_deallocate page (d_type it) (d_ptr it) n l' = inl DbgNotFree.
Proof.
  intros Hp Hwf Hnin Hn. unfold c15_dbgk_deallocate. rewrite (c15_dbg_page_of_ok page it Hp Hwf).
  destruct (c15_dbgk_search_ok (d_page_ptr it) (d_type it) (d_ptr it) n l1 it l2 Hnin eq_refl eq_refl eq_refl Hn) as [S1 S2].
  eexists. split; [exact S1|exact S2].
Qed.
