(* C15 — proofs: the literal intrusive free list (head_ + next_ words stored inside the free slots, clients scribbling over the
   blocks they own) refines the list-based pool of C15_Model.v: same observations for every history. *)
From Coq Require Import List NArith Bool Arith Lia Permutation.
From DuneV Require Import Params_gen C15_Model C15_Spec C15_Proofs.
Import ListNotations.
Local Open Scope N_scope.

Lemma c15_slot_eqb_eq a b : c15_slot_eqb a b = true <-> a = b.
Proof.
  destruct a as [c1 o1], b as [c2 o2]. unfold c15_slot_eqb. cbn. rewrite andb_true_iff, Nat.eqb_eq, N.eqb_eq.
  split; [intros [? ?]; subst; reflexivity|intros H; inversion H; auto].
Qed.
Lemma c15_hupd_same h a v : c15_hupd h a v a = v.
Proof. unfold c15_hupd. assert (E : c15_slot_eqb a a = true) by (apply c15_slot_eqb_eq; reflexivity). rewrite E. reflexivity. Qed.
Lemma c15_hupd_other h a v x : x <> a -> c15_hupd h a v x = h x.
Proof.
  intros H. unfold c15_hupd. destruct (c15_slot_eqb x a) eqn:E; [|reflexivity]. apply c15_slot_eqb_eq in E. contradiction.
Qed.

(* the chain of next_ words starting at hd visits exactly the slots of l and ends with a null pointer *)
Fixpoint c15_lseg (h : c15_heap) (hd : option c15_slot) (l : list c15_slot) : Prop :=
  match l with
  | [] => hd = None
  | b :: t => hd = Some b /\ c15_lseg h (h b) t
  end.

Lemma c15_lseg_upd h a v : forall l hd, ~ In a l -> c15_lseg h hd l -> c15_lseg (c15_hupd h a v) hd l.
Proof.
  induction l as [|b t IH]; cbn; intros hd Hn H; [exact H|]. destruct H as [H1 H2]. split; [exact H1|].
  rewrite c15_hupd_other by (intro; subst; apply Hn; left; reflexivity).
  apply IH; [intro; apply Hn; right; assumption|exact H2].
Qed.

Definition c15_slots (a : N) (c k d : nat) : list c15_slot := map (fun i => (c, N.of_nat i * a)) (seq k d).

Lemma c15_slots_in a c k d x : In x (c15_slots a c k d) -> exists i, (k <= i < k + d)%nat /\ x = (c, N.of_nat i * a).
Proof. unfold c15_slots. rewrite in_map_iff. intros (i & Hi & Hin). apply in_seq in Hin. exists i. split; [lia|symmetry; exact Hi]. Qed.

Lemma c15_hgrow_loop_spec a c el : a <> 0 -> forall d fuel k ref h, (k + d = el)%nat -> (d <= fuel)%nat ->
  ~ In ref (c15_slots a c k d) ->
  exists h', c15_hgrow_loop fuel c ref (N.of_nat k * a) (N.of_nat el * a) a h = Some h' /\
    c15_lseg h' (Some ref) (ref :: c15_slots a c k d) /\
    (forall x, x <> ref -> ~ In x (c15_slots a c k d) -> h' x = h x).
Proof.
  intros Ha. induction d as [|d IH]; intros fuel k ref h Hk Hf Hnin.
  - assert (k = el) by lia. subst k. exists (c15_hupd h ref None).
    split; [destruct fuel; cbn [c15_hgrow_loop]; rewrite N.ltb_irrefl; reflexivity|].
    split; [cbn; split; [reflexivity|apply c15_hupd_same]|].
    intros x Hx _. apply c15_hupd_other; exact Hx.
  - destruct fuel as [|f]; [lia|]. cbn [c15_hgrow_loop].
    assert (Hlt : N.of_nat k * a <? N.of_nat el * a = true) by (apply N.ltb_lt; nia). rewrite Hlt.
    replace (N.of_nat k * a + a) with (N.of_nat (S k) * a) by lia.
    set (ref' := (c, N.of_nat k * a)).
    assert (Esl : c15_slots a c k (S d) = ref' :: c15_slots a c (S k) d) by reflexivity.
    rewrite Esl in *.
    assert (Hnin' : ~ In ref' (c15_slots a c (S k) d)).
    { intro H. apply c15_slots_in in H. destruct H as (i & Hi & E). inversion E. nia. }
    destruct (IH f (S k) ref' (c15_hupd h ref (Some ref')) ltac:(lia) ltac:(lia) Hnin') as (h' & E & Hseg & Hfr).
    exists h'. split; [exact E|].
    assert (Hrr : ref <> ref') by (intro; subst; apply Hnin; left; reflexivity).
    assert (Hrn : ~ In ref (c15_slots a c (S k) d)) by (intro; apply Hnin; right; assumption).
    split.
    + cbn [c15_lseg]. split; [reflexivity|]. rewrite (Hfr ref Hrr Hrn), c15_hupd_same. exact Hseg.
    + intros x Hx Hxn. rewrite Hfr.
      * apply c15_hupd_other; exact Hx.
      * intro; subst; apply Hxn; left; reflexivity.
      * intro; apply Hxn; right; assumption.
Qed.

Lemma c15_chunk_slots_eq g c : 1 <= g_elements g ->
  c15_chunk_slots g c = (c, 0) :: c15_slots (g_alignedSize g) c 1 (N.to_nat (g_elements g) - 1).
Proof.
  intros Hel. unfold c15_chunk_slots, c15_slots. destruct (N.to_nat (g_elements g)) as [|e] eqn:E; [lia|].
  cbn [seq map]. replace (S e - 1)%nat with e by lia. reflexivity.
Qed.

Lemma c15_hgrow_spec g p : g_alignedSize g <> 0 -> 1 <= g_elements g ->
  exists h', c15_hgrow g p = Some (C15HPool (length (hp_chunks p) :: hp_chunks p) (Some (length (hp_chunks p), 0)) h') /\
    c15_lseg h' (Some (length (hp_chunks p), 0)) (c15_chunk_slots g (length (hp_chunks p))) /\
    (forall x, ~ In x (c15_chunk_slots g (length (hp_chunks p))) -> h' x = hp_heap p x).
Proof.
  intros Ha Hel. unfold c15_hgrow.
  set (c := length (hp_chunks p)). set (el := N.to_nat (g_elements g)).
  assert (Eel : g_elements g = N.of_nat el) by (subst el; rewrite N2Nat.id; reflexivity).
  assert (Hnin : ~ In (c, 0) (c15_slots (g_alignedSize g) c 1 (el - 1))).
  { intro H. apply c15_slots_in in H. destruct H as (i & Hi & E). inversion E. nia. }
  destruct (c15_hgrow_loop_spec (g_alignedSize g) c el Ha (el - 1)%nat el 1%nat (c, 0) (hp_heap p) ltac:(lia) ltac:(lia) Hnin)
    as (h' & E & Hseg & Hfr).
  replace (N.of_nat 1 * g_alignedSize g) with (g_alignedSize g) in E by lia.
  rewrite Eel, E. exists h'. split; [reflexivity|].
  rewrite (c15_chunk_slots_eq g c Hel). fold el. split; [exact Hseg|].
  intros x Hx. apply Hfr; [intro; subst; apply Hx; left; reflexivity|intro; apply Hx; right; assumption].
Qed.

(* ------------------------------------------------------------------ simulation *)
Definition c15_sim (hst : c15_hclient) (st : c15_client) : Prop :=
  hp_chunks (hc_pool hst) = p_chunks (cl_pool st) /\ hc_live hst = cl_live st /\
  c15_lseg (hp_heap (hc_pool hst)) (hp_head (hc_pool hst)) (p_free (cl_pool st)).

Lemma c15_nodup_app_disj {A} (l1 l2 : list A) x : NoDup (l1 ++ l2) -> In x l2 -> ~ In x l1.
Proof.
  induction l1 as [|h t IH]; cbn; intros H Hx; [intros []|]. inversion H; subst. intros [E|E].
  - subst. apply H2. apply in_or_app. right; exact Hx.
  - exact (IH H3 Hx E).
Qed.

Lemma c15_run_single g st op : c15_run g st [op] = ([snd (c15_step g st op)], fst (c15_step g st op)).
Proof. cbn. destruct (c15_step g st op). reflexivity. Qed.

Lemma c15_sim_free g sT aT hst st i : c15_geom_good sT aT g -> c15_pool_inv g st -> c15_sim hst st ->
  (i < length (cl_live st))%nat ->
  snd (c15_hstep_free g hst i) = snd (c15_step_free g st i) /\ c15_sim (fst (c15_hstep_free g hst i)) (fst (c15_step_free g st i)).
Proof.
  intros GG Hinv (Hc & Hl & Hseg) Hi.
  destruct (c15_step_free_ok g sT aT st i GG Hinv Hi) as (b & p' & Enth & Ef & _ & _ & _).
  unfold c15_hstep_free. rewrite Hl, Enth. rewrite Ef.
  unfold c15_step_free in Ef. rewrite Enth in Ef.
  unfold c15_pool_free in Ef. unfold c15_hfree. rewrite Hc.
  destruct (existsb (Nat.eqb (fst b)) (p_chunks (cl_pool st)) && (snd b <? g_chunkSize g)); [|discriminate].
  inversion Ef; subst p'. cbn [fst snd]. split; [reflexivity|].
  unfold c15_sim; cbn [hc_pool hc_live hp_chunks hp_head hp_heap cl_pool cl_live p_chunks p_free].
  split; [first [reflexivity|exact Hc]|]. split; [first [reflexivity|rewrite Hl; reflexivity]|].
  cbn [c15_lseg]. split; [reflexivity|]. rewrite c15_hupd_same.
  apply c15_lseg_upd; [|exact Hseg].
  destruct Hinv as (_ & Hnd & _). eapply c15_nodup_app_disj; [exact Hnd|]. eapply nth_error_In; exact Enth.
Qed.

Lemma c15_sim_step g sT aT junk hst st op : c15_geom_good sT aT g -> c15_pool_inv g st -> c15_sim hst st ->
  c15_ops_ok (length (cl_live st)) [op] = true ->
  snd (c15_hstep g junk hst op) = snd (c15_step g st op) /\ c15_sim (fst (c15_hstep g junk hst op)) (fst (c15_step g st op)).
Proof.
  intros GG Hinv Hsim Hok.
  destruct (c15_as_pos _ _ _ GG) as [Ha _]. pose proof (gg_el _ _ _ GG) as Hel.
  destruct op as [n|i|i n|nl|k|i k]; cbn [c15_ops_ok] in Hok.
  - (* allocate *)
    cbn [c15_hstep c15_step]. unfold c15_pa_allocate. destruct (n =? c15_param_pa_alloc_n); [|split; [reflexivity|exact Hsim]].
    destruct Hsim as (Hc & Hl & Hseg). destruct Hinv as (Hch & Hnd & Hin).
    destruct st as [[chunks free] live]. destruct hst as [[hchunks hd h] hlive]. cbn in Hc, Hl, Hseg, Hnd. subst hchunks hlive.
    unfold c15_pool_allocate, c15_hallocate. cbn [p_free hp_head cl_pool hc_pool].
    destruct free as [|b rest].
    + cbn in Hseg. subst hd.
      rewrite (c15_grow_spec g (C15Pool chunks []) Ha Hel).
      destruct (c15_hgrow_spec g (C15HPool chunks None h) Ha Hel) as (h' & Eg & Hs' & _). rewrite Eg.
      cbn [p_chunks hp_chunks p_free hp_head hp_heap] in *.
      pose proof (c15_chunk_slots_nodup g (length chunks) Ha) as Hnd2.
      rewrite (c15_chunk_slots_eq g (length chunks) Hel) in *.
      cbn [c15_lseg] in Hs'. destruct Hs' as [_ Hs']. cbn [fst snd].
      split; [reflexivity|]. unfold c15_sim; cbn. split; [reflexivity|]. split; [reflexivity|].
      apply c15_lseg_upd; [|exact Hs']. inversion Hnd2; assumption.
    + cbn [c15_lseg] in Hseg. destruct Hseg as [Hhd Hseg]. subst hd. cbn [fst snd hp_chunks hp_head hp_heap p_chunks].
      split; [reflexivity|]. unfold c15_sim; cbn. split; [reflexivity|]. split; [reflexivity|].
      apply c15_lseg_upd; [|exact Hseg].
      cbn in Hnd. inversion Hnd; subst. intro H; apply H1; apply in_or_app; left; exact H.
  - (* free *)
    apply andb_true_iff in Hok. destruct Hok as [Hi _]. apply Nat.ltb_lt in Hi.
    cbn [c15_hstep c15_step]. eapply c15_sim_free; eassumption.
  - (* deallocate(p, n) *)
    apply andb_true_iff in Hok. destruct Hok as [Hok _]. apply andb_true_iff in Hok. destruct Hok as [Hi Hn].
    apply Nat.ltb_lt in Hi. cbn [c15_hstep c15_step].
    destruct (n =? 0).
    + destruct Hsim as (Hc & Hl & Hseg). rewrite Hl. destruct (nth_error (cl_live st) i); split; try reflexivity; repeat split; assumption.
    + destruct (n =? 1); [eapply c15_sim_free; eassumption|split; [reflexivity|exact Hsim]].
  - (* null / foreign pointer *)
    cbn [c15_hstep c15_step]. destruct nl; [split; [reflexivity|exact Hsim]|].
    pose proof (c15_foreign_refused g st Hinv) as Ef. rewrite Ef.
    destruct Hsim as (Hc & Hl & Hseg). unfold c15_hfree. rewrite Hc. unfold c15_pool_free in Ef.
    destruct (existsb _ _ && _); [discriminate|]. split; [reflexivity|repeat split; assumption].
  - (* copy *)
    cbn [c15_hstep c15_step].
    destruct (c15_copy_first g sT aT GG) as (p' & E & Hcp). rewrite (Hcp (cl_pool st)). rewrite (Hcp c15_pool_empty) in E. rewrite E.
    unfold c15_hallocate, c15_hpool_empty. cbn [hp_head].
    destruct (c15_hgrow_spec g (C15HPool [] None junk) Ha Hel) as (h' & Eg & _ & _). rewrite Eg. cbn.
    split; [reflexivity|exact Hsim].
  - discriminate.
Qed.

Lemma c15_ops_ok_split n op ops : c15_ops_ok n (op :: ops) = true ->
  c15_ops_ok n [op] = true /\
  (forall g st, length (cl_live st) = n -> c15_pool_inv g st ->
     forall sT aT, c15_geom_good sT aT g -> c15_ops_ok (length (cl_live (fst (c15_step g st op)))) ops = true).
Proof.
  intros H. split.
  - destruct op as [m|i|i m|nl|k|i k]; cbn [c15_ops_ok] in *; try assumption; try discriminate.
    + reflexivity.
    + apply andb_true_iff in H. destruct H as [H _]. rewrite H. reflexivity.
    + apply andb_true_iff in H. destruct H as [H _]. rewrite H. reflexivity.
    + reflexivity.
    + reflexivity.
  - intros g st Hlen Hinv sT aT GG. subst n.
    destruct op as [m|i|i m|nl|k|i k]; cbn [c15_ops_ok] in H.
    + cbn [c15_step]. unfold c15_pa_allocate, c15_param_pa_alloc_n. destruct (m =? 1); [|exact H].
      destruct (c15_alloc_step g sT aT st GG Hinv) as (b & p' & Ea & _). rewrite Ea. cbn. rewrite app_length, Nat.add_1_r. exact H.
    + apply andb_true_iff in H. destruct H as [Hi H]. apply Nat.ltb_lt in Hi. cbn [c15_step].
      destruct (c15_step_free_ok g sT aT st i GG Hinv Hi) as (b & p' & _ & Ef & _ & _ & Hl). rewrite Ef. cbn. rewrite Hl. exact H.
    + apply andb_true_iff in H. destruct H as [H0 H]. apply andb_true_iff in H0. destruct H0 as [Hi Hm]. apply Nat.ltb_lt in Hi.
      cbn [c15_step]. destruct (m =? 0) eqn:E0.
      * apply N.eqb_eq in E0. subst m. cbn in H. destruct (nth_error (cl_live st) i); exact H.
      * destruct (m =? 1) eqn:E1; [|apply N.leb_le in Hm; apply N.eqb_neq in E0, E1; lia].
        destruct (c15_step_free_ok g sT aT st i GG Hinv Hi) as (b & p' & _ & Ef & _ & _ & Hl). rewrite Ef. cbn. rewrite Hl. exact H.
    + cbn [c15_step]. destruct nl; [exact H|]. rewrite (c15_foreign_refused g st Hinv). exact H.
    + cbn [c15_step]. destruct (c15_copy_first g sT aT GG) as (p' & E & Hcp). rewrite (Hcp (cl_pool st)). rewrite (Hcp c15_pool_empty) in E.
      rewrite E. exact H.
    + discriminate.
Qed.

Lemma c15_refines_from g sT aT junk : c15_geom_good sT aT g -> forall ops hst st,
  c15_pool_inv g st -> c15_sim hst st -> c15_ops_ok (length (cl_live st)) ops = true ->
  fst (c15_hrun g junk hst ops) = fst (c15_run g st ops).
Proof.
  intros GG. induction ops as [|op ops IH]; intros hst st Hinv Hsim Hok; [reflexivity|].
  destruct (c15_ops_ok_split _ _ _ Hok) as [Hok1 Hok2].
  destruct (c15_sim_step g sT aT junk hst st op GG Hinv Hsim Hok1) as [Eo Hsim'].
  pose proof (c15_run_ok g sT aT GG [op] st Hinv Hok1) as (_ & Hinv' & _). rewrite c15_run_single in Hinv'. cbn [snd] in Hinv'.
  specialize (Hok2 g st eq_refl Hinv sT aT GG).
  specialize (IH (fst (c15_hstep g junk hst op)) (fst (c15_step g st op)) Hinv' Hsim' Hok2).
  cbn [c15_hrun c15_run].
  destruct (c15_hstep g junk hst op) as [hst1 o1]. destruct (c15_step g st op) as [st1 o2]. cbn [fst snd] in *.
  destruct (c15_hrun g junk hst1 ops). destruct (c15_run g st1 ops). cbn [fst] in *. subst. reflexivity.
Qed.

(* the pool with the literal intrusive list (any initial memory contents h0, any client scribbling junk) and the list-based pool
   are observationally equal on every history *)
Theorem c15_pool_refines g sT aT junk h0 ops : c15_geom_good sT aT g -> c15_ops_ok 0 ops = true ->
  fst (c15_hrun g junk (c15_hclient_empty h0) ops) = fst (c15_run g c15_client_empty ops).
Proof.
  intros GG Hok. apply (c15_refines_from g sT aT junk GG ops); [apply c15_inv_empty| |exact Hok].
  repeat split.
Qed.

(* corollaries with the hypothesis "geometry is good" discharged from the template parameters themselves *)
Corollary c15_pool_history_params sT aT s g ops : 1 <= sT -> 1 <= aT ->
  (c15_geometry sT aT s = Some g \/ c15_pa_geometry sT aT s = Some g) -> c15_ops_ok 0 ops = true ->
  let r := c15_run g c15_client_empty ops in
  c15_spec_trace sT aT (g_chunkSize g) 0 [] ops (fst r) = true /\
  c15_spec_destroy (c15_spec_nchunks (fst r)) (c15_pool_destroy (cl_pool (snd r))) = true /\
  (forall junk h0, fst (c15_hrun g junk (c15_hclient_empty h0) ops) = fst r).
Proof.
  intros H1 H2 Hg Hok r.
  assert (GG : c15_geom_good sT aT g) by (destruct Hg; [eapply c15_geometry_good|eapply c15_pa_geometry_good]; eassumption).
  destruct (c15_pool_history sT aT g ops GG Hok) as (A & B & _). split; [exact A|]. split; [exact B|].
  intros junk h0. apply (c15_pool_refines g sT aT junk h0 ops GG Hok).
Qed.
