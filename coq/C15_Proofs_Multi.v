(* C15 — proofs: several PoolAllocator objects (copies / converted / rebound allocators never share a pool); releasing a block through
   another allocator is refused; operator== is exactly "blocks are interchangeable". *)
From Coq Require Import List NArith Bool Arith Lia Permutation.
From DuneV Require Import Params_gen C15_Model C15_Spec C15_Proofs C15_Proofs_Heap.
Import ListNotations.
Local Open Scope N_scope.

Lemma c15_step_inv g sT aT st op : c15_geom_good sT aT g -> c15_pool_inv g st ->
  c15_ops_ok (length (cl_live st)) [op] = true -> c15_pool_inv g (fst (c15_step g st op)).
Proof.
  intros GG Hinv Hok. pose proof (c15_run_ok g sT aT GG [op] st Hinv Hok) as (_ & H & _).
  rewrite c15_run_single in H. exact H.
Qed.

Lemma c15_set_nth_forall {A} (P : A -> Prop) i x l : Forall P l -> P x -> Forall P (c15_set_nth i x l).
Proof.
  revert i. induction l as [|h t IH]; intros [|i] Hl Hx; cbn; try constructor; inversion Hl; subst; try assumption.
  apply IH; assumption.
Qed.

Lemma c15_mstep_on_inv g sT aT ms j op : c15_geom_good sT aT g -> Forall (c15_pool_inv g) ms ->
  (forall st, nth_error ms j = Some st -> c15_ops_ok (length (cl_live st)) [op] = true) ->
  Forall (c15_pool_inv g) (fst (c15_mstep_on g ms j op)).
Proof.
  intros GG Hall Hok. unfold c15_mstep_on. destruct (nth_error ms j) as [st|] eqn:E; [|exact Hall].
  assert (Hinv : c15_pool_inv g st) by (rewrite Forall_forall in Hall; apply Hall; eapply nth_error_In; exact E).
  pose proof (c15_step_inv g sT aT st op GG Hinv (Hok st eq_refl)) as H.
  destruct (c15_step g st op) as [st' o]. cbn [fst] in *. apply c15_set_nth_forall; assumption.
Qed.

Lemma c15_mstep_inv g sT aT ms op : c15_geom_good sT aT g -> Forall (c15_pool_inv g) ms -> c15_mop_ok ms op = true ->
  Forall (c15_pool_inv g) (fst (c15_mstep g ms op)).
Proof.
  intros GG Hall Hok. destruct op as [j n|j i|j|k j i|j k]; cbn [c15_mstep c15_mop_ok] in *.
  - apply (c15_mstep_on_inv g sT aT); try assumption. intros st _. cbn. destruct (n =? 1); reflexivity.
  - apply (c15_mstep_on_inv g sT aT); try assumption. intros st E. rewrite E in Hok. cbn [c15_ops_ok]. rewrite Hok. reflexivity.
  - destruct (nth_error ms j); [|exact Hall]. cbn [fst]. apply Forall_app. split; [exact Hall|].
    constructor; [apply c15_inv_empty|constructor].
  - apply andb_true_iff in Hok. destruct Hok as [_ Hok]. destruct (Nat.eqb k j).
    + apply (c15_mstep_on_inv g sT aT); try assumption. intros st E. rewrite E in Hok. cbn [c15_ops_ok]. rewrite Hok. reflexivity.
    + destruct (nth_error ms k); [|exact Hall]. destruct (nth_error ms j) as [stj|]; [|exact Hall].
      destruct (nth_error (cl_live stj) i); exact Hall.
  - exact Hall.
Qed.

(* every allocator of every reachable configuration satisfies the pool invariant (free list + live blocks partition ITS chunks) *)
Theorem c15_multi_inv g sT aT : c15_geom_good sT aT g -> forall ops ms,
  Forall (c15_pool_inv g) ms -> c15_mops_ok g ms ops = true -> Forall (c15_pool_inv g) (snd (c15_mrun g ms ops)).
Proof.
  intros GG. induction ops as [|op ops IH]; intros ms Hall Hok; [exact Hall|].
  cbn [c15_mops_ok] in Hok. apply andb_true_iff in Hok. destruct Hok as [Hok1 Hok2].
  pose proof (c15_mstep_inv g sT aT ms op GG Hall Hok1) as H1. specialize (IH _ H1 Hok2).
  cbn [c15_mrun]. destruct (c15_mstep g ms op) as [ms1 o]. cbn [fst] in *. destruct (c15_mrun g ms1 ops). exact IH.
Qed.

(* releasing through another allocator object: refused, nothing changes; through the same object: the ordinary release.
   operator== (object identity) says exactly which of the two happens *)
Theorem c15_multi_release g sT aT ms k j i stk stj b : c15_geom_good sT aT g -> Forall (c15_pool_inv g) ms ->
  nth_error ms k = Some stk -> nth_error ms j = Some stj -> nth_error (cl_live stj) i = Some b ->
  snd (c15_mstep g ms (MEqual j k)) = MObsEq (Nat.eqb j k) /\
  (k <> j -> c15_mstep g ms (MFreeVia k j i) = (ms, MObs ObsBadAlloc)) /\
  (k = j -> snd (c15_mstep g ms (MFreeVia k j i)) = MObs ObsFreed).
Proof.
  intros GG Hall Ek Ej Eb. split; [reflexivity|]. split.
  - intros Hne. cbn [c15_mstep]. apply Nat.eqb_neq in Hne. rewrite Hne, Ek, Ej, Eb. reflexivity.
  - intros He. subst k. cbn [c15_mstep]. rewrite Nat.eqb_refl. unfold c15_mstep_on. rewrite Ej.
    assert (Hinv : c15_pool_inv g stj) by (rewrite Forall_forall in Hall; apply Hall; eapply nth_error_In; exact Ej).
    assert (Hi : (i < length (cl_live stj))%nat) by (apply nth_error_Some; rewrite Eb; discriminate).
    destruct (c15_step_free_ok g sT aT stj i GG Hinv Hi) as (b' & p' & _ & Ef & _). cbn [c15_step]. rewrite Ef. reflexivity.
Qed.

(* the address-level reason: chunks of different allocator objects are different storage (contract of `new Chunk`), so the
   checking-build search of Pool::free over the chunks of pool k never finds a block of pool j <> k, and always finds its own *)
Section C15MultiAddr.
  Variables (g : c15_geom) (sT aT : N) (base : nat -> nat -> N).
  Hypothesis GG : c15_geom_good sT aT g.
  Hypothesis Hdis : forall k c j c', (k, c) <> (j, c') ->
    base k c + g_chunkSize g <= base j c' \/ base j c' + g_chunkSize g <= base k c.

  Theorem c15_foreign_block_not_found k j chunks nch b : k <> j -> c15_slot_valid g nch b ->
    c15_addr_in_pool base g k chunks (base j (fst b) + snd b) = false.
  Proof.
    intros Hne Hb. pose proof (c15_valid_bound _ _ _ _ _ GG Hb) as Hbd. destruct (c15_as_pos _ _ _ GG) as [Ha _].
    unfold c15_addr_in_pool. destruct (existsb _ chunks) eqn:E; [|reflexivity].
    apply existsb_exists in E. destruct E as (c & _ & Hc). apply andb_true_iff in Hc. destruct Hc as [H1 H2].
    apply N.leb_le in H1. apply N.ltb_lt in H2.
    destruct (Hdis k c j (fst b)) as [H|H]; [intro E; inversion E; contradiction|lia|lia].
  Qed.

  Theorem c15_own_block_found j chunks nch b : In (fst b) chunks -> c15_slot_valid g nch b ->
    c15_addr_in_pool base g j chunks (base j (fst b) + snd b) = true.
  Proof.
    intros Hin Hb. pose proof (c15_valid_bound _ _ _ _ _ GG Hb) as Hbd. destruct (c15_as_pos _ _ _ GG) as [Ha _].
    unfold c15_addr_in_pool. apply existsb_exists. exists (fst b). split; [exact Hin|].
    apply andb_true_iff. split; [apply N.leb_le; lia|apply N.ltb_lt; lia].
  Qed.
End C15MultiAddr.
