(* C15 — proofs: address-level consequences for the pool; MallocAllocator / AlignedAllocator guards;
   DebugAllocator page layout and deallocate lookup (with the refutations for the tree as found). *)
From Coq Require Import List NArith Bool Arith Lia Permutation.
From DuneV Require Import Params_gen C15_Model C15_Spec C15_Proofs.
Import ListNotations.
Local Open Scope N_scope.

Lemma c15_nodup_app_r {A} (l1 l2 : list A) : NoDup (l1 ++ l2) -> NoDup l2.
Proof. induction l1 as [|h t IH]; cbn; intros H; [exact H|]. inversion H; subst. apply IH; assumption. Qed.

(* ------------------------------------------------------------------ pool blocks as address ranges *)
Section C15Addr.
  Variables (g : c15_geom) (sT aT : N) (base : nat -> N).
  Hypothesis GG : c15_geom_good sT aT g.
  (* contract of `new Chunk` (alignas(alignment) char chunk_[chunkSize] is the first member) *)
  Hypothesis Hbase_al : forall c, (g_alignment g | base c).
  Hypothesis Hbase_dis : forall c c', c <> c' ->
    base c + g_chunkSize g <= base c' \/ base c' + g_chunkSize g <= base c.

  Definition c15_addr (b : c15_slot) : N := base (fst b) + snd b.

  Lemma c15_addr_block nch b : c15_slot_valid g nch b ->
    (aT | c15_addr b) /\ base (fst b) <= c15_addr b /\ c15_addr b + sT <= base (fst b) + g_chunkSize g.
  Proof.
    intros Hb. pose proof (c15_valid_bound _ _ _ _ _ GG Hb) as Hbd.
    destruct (c15_as_pos _ _ _ GG) as [Ha HsTa].
    destruct Hb as (_ & k & _ & Hs). unfold c15_addr. repeat split; try lia.
    apply N.divide_add_r.
    - eapply N.divide_trans; [apply (gg_aT_al _ _ _ GG)|apply Hbase_al].
    - rewrite Hs. apply N.divide_mul_r.
      eapply N.divide_trans; [apply (gg_aT_al _ _ _ GG)|apply (gg_as_al _ _ _ GG)].
  Qed.

  Lemma c15_addr_disjoint n1 n2 b1 b2 : c15_slot_valid g n1 b1 -> c15_slot_valid g n2 b2 -> b1 <> b2 ->
    c15_addr b1 + sT <= c15_addr b2 \/ c15_addr b2 + sT <= c15_addr b1.
  Proof.
    intros H1 H2 Hne.
    pose proof (c15_valid_bound _ _ _ _ _ GG H1) as B1. pose proof (c15_valid_bound _ _ _ _ _ GG H2) as B2.
    destruct (c15_as_pos _ _ _ GG) as [Ha HsTa].
    pose proof (c15_slots_disjoint g sT aT n1 n2 b1 b2 GG H1 H2 Hne) as Hd.
    unfold c15_blk_disjoint in Hd. unfold c15_addr.
    destruct (Nat.eqb_spec (fst b1) (fst b2)) as [E|E]; cbn in Hd.
    - rewrite E. apply orb_true_iff in Hd. rewrite !N.leb_le in Hd. lia.
    - destruct (Hbase_dis _ _ E); lia.
  Qed.

  (* every reachable state: the live blocks are aligned, inside their chunk, pairwise disjoint *)
  Theorem c15_pool_live_blocks ops : c15_ops_ok 0 ops = true ->
    let live := cl_live (snd (c15_run g c15_client_empty ops)) in
    NoDup live /\
    (forall b, In b live -> (aT | c15_addr b) /\ base (fst b) <= c15_addr b /\ c15_addr b + sT <= base (fst b) + g_chunkSize g) /\
    (forall b1 b2, In b1 live -> In b2 live -> b1 <> b2 ->
       c15_addr b1 + sT <= c15_addr b2 \/ c15_addr b2 + sT <= c15_addr b1).
  Proof.
    intros Hok live.
    destruct (c15_pool_history sT aT g ops GG Hok) as (_ & _ & (_ & Hnd & Hin)).
    fold live in Hnd, Hin. split; [eapply c15_nodup_app_r; exact Hnd|]. split.
    - intros b Hb. eapply c15_addr_block. apply Hin. apply in_or_app. right; exact Hb.
    - intros b1 b2 H1 H2 Hne. eapply c15_addr_disjoint; try eassumption; apply Hin; apply in_or_app; right; assumption.
  Qed.
End C15Addr.

(* ------------------------------------------------------------------ MallocAllocator / AlignedAllocator *)
Lemma c15_max_size_nowrap sT n : 1 <= sT -> n <= c15_max_size sT -> n * sT <= c15_size_max.
Proof.
  intros HsT Hn. unfold c15_max_size in Hn.
  etransitivity; [apply N.mul_le_mono_r; exact Hn|]. rewrite N.mul_comm. apply N.mul_div_le. lia.
Qed.

Lemma c15_wrap_small x : x <= c15_size_max -> c15_wrap x = x.
Proof. intros H. unfold c15_wrap. apply N.mod_small. unfold c15_size_max in H. lia. Qed.

Theorem c15_malloc_guard sT aT n sys sysal : 1 <= sT ->
  (c15_max_size sT < n -> c15_malloc_allocate sT aT n sys sysal = C15BadAlloc) /\
  (n <= c15_max_size sT ->
     n * sT <= c15_size_max /\
     c15_malloc_allocate sT aT n sys sysal =
       match (if c15_max_align <? aT then sysal aT (n * sT) else sys (n * sT)) with
       | None => C15BadAlloc | Some p => C15Ok p end).
Proof.
  intros HsT. unfold c15_malloc_allocate, c15_malloc_allocate_gen. split; intros Hn.
  - apply N.ltb_lt in Hn. rewrite Hn. reflexivity.
  - pose proof (c15_max_size_nowrap _ _ HsT Hn) as Hw. split; [exact Hw|].
    assert (E : c15_max_size sT <? n = false) by (apply N.ltb_ge; exact Hn).
    rewrite E, (c15_wrap_small _ Hw). reflexivity.
Qed.

(* alignment of the result under the contract of malloc (fundamental alignment) and aligned_alloc *)
Theorem c15_malloc_aligned sT aT n sys sysal p :
  (forall b q, sys b = Some q -> (c15_max_align | q)) ->
  (forall a b q, sysal a b = Some q -> (a | q)) ->
  (c15_max_align < aT \/ (aT | c15_max_align)) ->
  c15_malloc_allocate sT aT n sys sysal = C15Ok p -> (aT | p).
Proof.
  intros Hsys Hsysal HaT. unfold c15_malloc_allocate, c15_malloc_allocate_gen.
  destruct (c15_max_size sT <? n); [discriminate|]. cbn [andb].
  destruct (c15_max_align <? aT) eqn:E.
  - destruct (sysal aT _) eqn:Es; [|discriminate]. intros H; inversion H; subst. eapply Hsysal; eassumption.
  - destruct (sys _) eqn:Es; [|discriminate]. intros H; inversion H; subst.
    apply N.ltb_ge in E. destruct HaT as [HaT|HaT]; [lia|].
    eapply N.divide_trans; [exact HaT|eapply Hsys; eassumption].
Qed.

(* the tree as found calls malloc for every T: a 32-aligned type can get a block that is only 16-aligned *)
Theorem c15_malloc_align_orig_refuted :
  exists sT aT n sys sysal p,
    (forall b q, sys b = Some q -> (c15_max_align | q)) /\ (forall a b q, sysal a b = Some q -> (a | q)) /\
    aT = 32 /\ (aT | sT) /\ c15_malloc_allocate_orig sT aT n sys sysal = C15Ok p /\ ~ (aT | p).
Proof.
  exists 32, 32, 1, (fun _ => Some 16), (fun a _ => Some a), 16.
  split; [intros b q H; inversion H; exists 1; reflexivity|].
  split; [intros a b q H; inversion H; exists 1; lia|].
  split; [reflexivity|]. split; [exists 1; reflexivity|]. split; [reflexivity|].
  intros [q Hq]. lia.
Qed.

Theorem c15_aligned_guard sT aT al n sys : 1 <= sT ->
  (c15_max_size sT < n -> c15_aligned_allocate sT aT al n sys = C15BadAlloc) /\
  (n <= c15_max_size sT ->
     n * sT <= c15_size_max /\
     c15_aligned_allocate sT aT al n sys =
       match sys (c15_aligned_alignment aT al) (n * sT) with None => C15BadAlloc | Some p => C15Ok p end) /\
  (forall p, (forall a b q, sys a b = Some q -> (a | q)) ->
     c15_aligned_allocate sT aT al n sys = C15Ok p -> (c15_aligned_alignment aT al | p)).
Proof.
  intros HsT. unfold c15_aligned_allocate. split; [|split].
  - intros Hn. apply N.ltb_lt in Hn. rewrite Hn. reflexivity.
  - intros H. pose proof (c15_max_size_nowrap _ _ HsT H) as Hw. split; [exact Hw|].
    assert (E : c15_max_size sT <? n = false) by (apply N.ltb_ge; exact H).
    rewrite E, (c15_wrap_small _ Hw). reflexivity.
  - intros p Hsys. destruct (c15_max_size sT <? n); [discriminate|].
    destruct (sys _ _) eqn:Es; [|discriminate]. intros H; inversion H; subst. eapply Hsys; eassumption.
Qed.

(* with the stand-in system allocator of the executable runs, a served request is never one the spec calls unservable
   (so the model's own traces pass the strengthened oracle; for the implementation this is what the oracle checks) *)
Lemma c15_model_serves_servable sT aT al n p : 1 <= sT ->
  (c15_malloc_allocate sT aT n c15_sys_malloc c15_sys_aligned = C15Ok p \/ c15_aligned_allocate sT aT al n c15_sys_aligned = C15Ok p) ->
  c15_spec_malloc_must_refuse sT n = false.
Proof.
  intros HsT H. unfold c15_spec_malloc_must_refuse, c15_spec_unservable.
  change c15_unservable_bytes with c15_sys_limit.
  assert (Hn : n <= c15_max_size sT /\ c15_wrap (n * sT) < c15_sys_limit).
  { unfold c15_malloc_allocate, c15_malloc_allocate_gen, c15_aligned_allocate, c15_sys_malloc, c15_sys_aligned in H.
    destruct (c15_max_size sT <? n) eqn:E; [destruct H as [H|H]; inversion H|]. apply N.ltb_ge in E. split; [exact E|].
    destruct (c15_wrap (n * sT) <? c15_sys_limit) eqn:E2; [apply N.ltb_lt; exact E2|].
    destruct H as [H|H]; [destruct (true && (c15_max_align <? aT))|]; inversion H. }
  destruct Hn as [Hn Hw]. pose proof (c15_max_size_nowrap _ _ HsT Hn) as Hnw. rewrite (c15_wrap_small _ Hnw) in Hw.
  apply orb_false_iff. split; [apply N.ltb_ge; exact Hnw|apply N.leb_gt; exact Hw].
Qed.

(* ------------------------------------------------------------------ DebugAllocator *)
Definition c15_dbg_limit (page sT : N) : N := (c15_size_max - 2 * page) / sT.

Theorem c15_debug_layout page ty sT n mm : 1 <= page -> 2 * page <= c15_size_max -> 1 <= sT ->
  (c15_dbg_limit page sT < n -> c15_dbg_allocate page ty sT n mm = C15BadAlloc) /\
  (n <= c15_dbg_limit page sT ->
     let cap := n * sT in
     let pages := cap / page + 2 in
     pages * page <= c15_size_max /\
     (mm (pages * page) = None -> c15_dbg_allocate page ty sT n mm = C15BadAlloc) /\
     (forall pp, mm (pages * page) = Some pp -> pp + pages * page <= 2 ^ 64 ->
        exists ai gp, c15_dbg_allocate page ty sT n mm = C15Ok (ai, gp) /\
          d_type ai = ty /\ d_page_ptr ai = pp /\ d_capacity ai = cap /\ d_size ai = n /\ d_pages ai = pages /\
          d_ptr ai = pp + page - cap mod page /\
          pp <= d_ptr ai /\                                  (* the block lies in the mapping ...              *)
          d_ptr ai + cap = gp /\                             (* ... and ends exactly where the guard page starts *)
          gp + page = pp + pages * page)).                   (* the guard page is the last page of the mapping *)
Proof.
  intros Hp H2p HsT. split.
  - unfold c15_dbg_allocate, c15_dbg_allocate_gen, c15_dbg_limit, c15_param_dbg_has_guard, c15_param_dbg_guard_pages, c15_param_dbg_extra_pages. cbn [andb].
    intros Hn. apply N.ltb_lt in Hn. rewrite Hn. reflexivity.
  - intros Hn cap pages. unfold c15_dbg_allocate, c15_dbg_allocate_gen, c15_dbg_limit, c15_param_dbg_has_guard, c15_param_dbg_guard_pages, c15_param_dbg_extra_pages in *. cbn [andb].
    assert (E : (c15_size_max - 2 * page) / sT <? n = false) by (apply N.ltb_ge; exact Hn). rewrite E.
    assert (Hcap : cap <= c15_size_max - 2 * page).
    { unfold cap. etransitivity; [apply N.mul_le_mono_r; exact Hn|]. rewrite N.mul_comm. apply N.mul_div_le. lia. }
    assert (Hpne : page <> 0) by lia.
    pose proof (N.div_mod cap page Hpne) as Hdm. pose proof (N.mod_upper_bound cap page Hpne) as Hub.
    assert (Hpg : pages * page <= c15_size_max).
    { unfold pages. set (q := cap / page) in *. set (r := cap mod page) in *. clearbody q r. nia. }
    fold cap. rewrite (c15_wrap_small cap) by lia. fold pages. rewrite (c15_wrap_small _ Hpg).
    split; [exact Hpg|]. split.
    + intros Hm. rewrite Hm. reflexivity.
    + intros pp Hm Hfit. rewrite Hm. eexists. eexists. split; [reflexivity|]. cbn.
      assert (Hgp : pp + (pages - 1) * page <= c15_size_max).
      { unfold c15_size_max. unfold pages in *. set (q := cap / page) in *. clearbody q.
        replace (q + 2 - 1) with (q + 1) by lia. nia. }
      rewrite (c15_wrap_small _ Hgp).
      unfold pages in *. set (q := cap / page) in *. set (r := cap mod page) in *. clearbody q r.
      replace (q + 2 - 1) with (q + 1) by lia.
      repeat split; try reflexivity; try nia.
Qed.

(* position of the block inside its first page, alignment *)
Lemma c15_debug_offset page sT aT n pp : 1 <= page -> (page | pp) ->
  let ptr := pp + page - (n * sT) mod page in
  ptr mod page = c15_spec_dbg_off page sT n /\ ((aT | page) -> (aT | sT) -> (aT | ptr)).
Proof.
  intros Hp [m Hm] ptr. assert (Hpne : page <> 0) by lia.
  pose proof (N.mod_upper_bound (n * sT) page Hpne) as Hub.
  unfold c15_spec_dbg_off. set (r := (n * sT) mod page) in *. split.
  - unfold ptr. subst pp. replace (m * page + page - r) with ((page - r) + m * page) by lia.
    rewrite N.mod_add by assumption. reflexivity.
  - intros Hap HaT. unfold ptr.
    assert (Hr : (aT | r)).
    { unfold r. pose proof (N.div_mod (n * sT) page Hpne) as Hdm.
      apply (N.divide_add_cancel_r _ (page * (n * sT / page))).
      - apply N.divide_mul_l. exact Hap.
      - rewrite <- Hdm. apply N.divide_mul_r. exact HaT. }
    destruct Hr as [x Hx]. destruct Hap as [y Hy]. exists (m * y + y - x). subst pp. nia.
Qed.

Definition c15_dbg_wf (page : N) (it : c15_dbg_info) : Prop :=
  (page | d_page_ptr it) /\ d_ptr it = d_page_ptr it + page - d_capacity it mod page.

Lemma c15_dbg_page_of_ok page it : 1 <= page -> c15_dbg_wf page it ->
  c15_dbg_page_of_gen true page (d_ptr it) = d_page_ptr it.
Proof.
  intros Hp ([m Hm] & Hptr). assert (Hpne : page <> 0) by lia.
  pose proof (N.mod_upper_bound (d_capacity it) page Hpne) as Hub.
  unfold c15_dbg_page_of_gen, c15_param_dbg_page_boundary_case. cbn [andb]. rewrite Hptr, Hm.
  set (r := d_capacity it mod page) in *.
  replace (m * page + page - r) with ((page - r) + m * page) by lia.
  rewrite N.mod_add by assumption.
  destruct (N.eq_dec r 0) as [E|E].
  - rewrite E, N.sub_0_r, N.mod_same by assumption. cbn. lia.
  - rewrite N.mod_small by lia.
    assert (E2 : page - r =? 0 = false) by (apply N.eqb_neq; lia). rewrite E2. lia.
Qed.

Lemma c15_dbg_search_ok pp ty ptr n l1 it l2 :
  ~ In pp (map d_page_ptr l1) -> d_page_ptr it = pp -> d_ptr it = ptr -> d_type it = ty -> (n = 0 \/ n = d_size it) ->
  c15_dbg_dealloc_search pp ty ptr n (l1 ++ it :: l2) = inr (l1 ++ l2).
Proof.
  intros Hnin Hpp Hptr Hty Hn. induction l1 as [|x l1 IH]; cbn.
  - rewrite Hpp, N.eqb_refl, Hptr, Hty, !N.eqb_refl. cbn.
    destruct Hn as [Hn|Hn]; subst n; rewrite ?N.eqb_refl; cbn; [reflexivity|].
    destruct (d_size it =? 0); reflexivity.
  - assert (E : d_page_ptr x =? pp = false) by (apply N.eqb_neq; intro; apply Hnin; left; assumption).
    rewrite E, IH; [reflexivity|]. intro; apply Hnin; right; assumption.
Qed.

(* after fixes/C15-1: deallocate finds (and removes exactly) the block it allocated *)
Theorem c15_debug_dealloc page l1 it l2 n : 1 <= page ->
  Forall (c15_dbg_wf page) (l1 ++ it :: l2) -> NoDup (map d_page_ptr (l1 ++ it :: l2)) ->
  (n = 0 \/ n = d_size it) ->
  c15_dbg_deallocate page (d_type it) (d_ptr it) n (l1 ++ it :: l2) = inr (l1 ++ l2).
Proof.
  intros Hp Hwf Hnd Hn. unfold c15_dbg_deallocate, c15_dbg_deallocate_gen.
  assert (Hit : c15_dbg_wf page it) by (eapply Forall_forall; [exact Hwf|apply in_or_app; right; left; reflexivity]).
  rewrite (c15_dbg_page_of_ok page it Hp Hit).
  apply c15_dbg_search_ok; try reflexivity; try assumption.
  rewrite map_app in Hnd. cbn in Hnd. apply NoDup_remove_2 in Hnd.
  intro H. apply Hnd. apply in_or_app. left; exact H.
Qed.

(* the tree as found: a block of exactly one page is laid out correctly but cannot be released *)
Theorem c15_debug_dealloc_orig_refuted :
  exists page sT n pp ai gp,
    (page | pp) /\ c15_dbg_allocate_orig page 0 sT n (fun _ => Some pp) = C15Ok (ai, gp) /\ c15_dbg_wf page ai /\
    c15_dbg_deallocate_orig page 0 (d_ptr ai) n [ai] = inl DbgNotFound.
Proof.
  exists 4096, 1, 4096, (16 * 4096).
  eexists. eexists. split; [exists 16; reflexivity|]. split; [vm_compute; reflexivity|].
  split; [split; [exists 16; reflexivity|vm_compute; reflexivity]|]. vm_compute. reflexivity.
Qed.

(* the tree as found: a request of 2^62+1 ints is answered with a 4-byte block *)
Theorem c15_debug_alloc_orig_refuted :
  exists page sT n pp ai gp,
    c15_dbg_allocate_orig page 0 sT n (fun _ => Some pp) = C15Ok (ai, gp) /\ d_capacity ai < n * sT.
Proof.
  exists 4096, 4, (2 ^ 62 + 1), (16 * 4096). eexists. eexists. split; [vm_compute; reflexivity|]. vm_compute. reflexivity.
Qed.

(* non-vacuity examples (restated in Properties_C15.v) *)
Lemma c15_ex_debug :
  exists ai gp, c15_dbg_allocate 4096 0 8 1000 (fun _ => Some 65536) = C15Ok (ai, gp) /\ d_ptr ai = 65536 + 4096 - 3904 /\ gp = 65536 + 2 * 4096 /\
    c15_dbg_deallocate 4096 0 (d_ptr ai) 1000 [ai] = inr [].
Proof. eexists; eexists; vm_compute; repeat split; reflexivity. Qed.
Lemma c15_ex_debug_page_multiple :
  exists ai gp, c15_dbg_allocate 4096 0 1 4096 (fun _ => Some 65536) = C15Ok (ai, gp) /\ c15_dbg_deallocate 4096 0 (d_ptr ai) 4096 [ai] = inr [] /\
    c15_dbg_allocate 4096 0 4 (2 ^ 62 + 1) (fun _ => Some 65536) = C15BadAlloc.
Proof. eexists; eexists; vm_compute; repeat split; reflexivity. Qed.
