(* C15 — the abstract statement, as executable oracles that judge an OBSERVED trace (the model's
   or the implementation's own output):

   a block is (chunk number, byte offset, extent sT).  For a history `ops` and the observations `obs`
   - every allocate(1) yields a block that lies inside the chunk's storage, whose offset is a multiple
     of alignof T (chunk bases are aligned by `new`), and that is disjoint from every block still live
     (=> a released block can be handed out again only after its release);
   - allocate(n), n <> 1, is refused with bad_alloc;  deallocate of a live block succeeds;
   - chunks are numbered in order of creation; destroying the pool releases each chunk exactly once. *)
From Coq Require Import List NArith Bool Arith.
From DuneV Require Import C15_Model.
Import ListNotations.
Local Open Scope N_scope.

Definition c15_blk_disjoint (sT : N) (a b : c15_slot) : bool :=
  negb (Nat.eqb (fst a) (fst b)) || (snd a + sT <=? snd b) || (snd b + sT <=? snd a).

Definition c15_blk_ok (sT aT storage : N) (nch : nat) (live : list c15_slot) (b : c15_slot) : bool :=
  (fst b <=? nch)%nat && (snd b + sT <=? storage) && (snd b mod aT =? 0) && forallb (c15_blk_disjoint sT b) live.

Fixpoint c15_spec_trace (sT aT storage : N) (nch : nat) (live : list c15_slot)
         (ops : list c15_op) (obs : list c15_obs) : bool :=
  match ops, obs with
  | [], [] => true
  | OpAlloc n :: ops', o :: obs' =>
      if n =? 1 then
        match o with
        | ObsBlock c off =>
            c15_blk_ok sT aT storage nch live (c, off)
            && c15_spec_trace sT aT storage (Nat.max nch (S c)) (live ++ [(c, off)]) ops' obs'
        | _ => false
        end
      else match o with ObsBadAlloc => c15_spec_trace sT aT storage nch live ops' obs' | _ => false end
  | OpFree i :: ops', o :: obs' =>
      match nth_error live i, o with
      | Some _, ObsFreed => c15_spec_trace sT aT storage nch (c15_remove_nth i live) ops' obs'
      | _, _ => false
      end
  | OpFreeN i n :: ops', o :: obs' =>            (* a count of 0 releases nothing: the block stays live *)
      match nth_error live i, o with
      | Some _, ObsNoop => (n =? 0) && c15_spec_trace sT aT storage nch live ops' obs'
      | Some _, ObsFreed => (n =? 1) && c15_spec_trace sT aT storage nch (c15_remove_nth i live) ops' obs'
      | _, _ => false
      end
  | OpFreeInvalid _ :: ops', o :: obs' =>        (* refused with an allocation error, nothing changes *)
      match o with ObsBadAlloc => c15_spec_trace sT aT storage nch live ops' obs' | _ => false end
  | OpCopy _ :: ops', o :: obs' =>               (* a copy owns separate storage; the original and its live blocks are untouched *)
      match o with ObsCopyOk => c15_spec_trace sT aT storage nch live ops' obs' | _ => false end
  | _, _ => false
  end.

Fixpoint c15_spec_nchunks (obs : list c15_obs) : nat :=
  match obs with
  | [] => O
  | ObsBlock c _ :: r => Nat.max (S c) (c15_spec_nchunks r)
  | _ :: r => c15_spec_nchunks r
  end.

(* destroy: `released` is exactly the set of chunks obtained, each once *)
Definition c15_spec_destroy (nch : nat) (released : list nat) : bool :=
  Nat.eqb (length released) nch && forallb (fun c => existsb (Nat.eqb c) released) (seq 0 nch).

(* ---- system-allocator wrappers: the request is refused iff it exceeds max_size (or the system refuses) *)
(* No allocator on this platform can provide 2^47 bytes or more: the user address space of x86-64 Linux is 47 bits wide.  A block
   "returned" for such a request cannot be large enough, whatever arithmetic led to it (wrap-around of n*sizeof T, of a rounded-up
   size, of a page count ...): the property demands an allocation error. *)
Definition c15_unservable_bytes : N := 2 ^ 47.
Definition c15_spec_unservable (sT n : N) : bool := c15_unservable_bytes <=? n * sT.
Definition c15_spec_malloc_must_refuse (sT n : N) : bool := (c15_size_max <? n * sT) || c15_spec_unservable sT n.

(* ---- debugging allocator: block [ptr, ptr+cap) with cap = n*sT ends exactly at the inaccessible page,
        so ptr mod page is determined; ptr is aligned for T; requests that do not fit the address space are refused *)
Definition c15_spec_dbg_servable (page sT n : N) : bool := (n * sT + 2 * page <=? c15_size_max) && negb (c15_spec_unservable sT n).
Definition c15_spec_dbg_off (page sT n : N) : N := (page - (n * sT) mod page) mod page.

Fixpoint c15_spec_dbg_trace (page sT aT : N) (nlive : nat) (ops : list c15_op) (obs : list c15_dbg_obs) : bool :=
  match ops, obs with
  | [], [] => true
  | OpAlloc n :: ops', o :: obs' =>
      match o with
      | DObsBadAlloc => c15_spec_dbg_trace page sT aT nlive ops' obs'        (* refusal is always safe *)
      | DObsOk off cap g =>
          c15_spec_dbg_servable page sT n && (cap =? n * sT) && g && (off =? c15_spec_dbg_off page sT n)
          && (off mod aT =? 0) && c15_spec_dbg_trace page sT aT (S nlive) ops' obs'
      | _ => false
      end
  | OpFree i :: ops', o :: obs' =>
      match o with
      | DObsFreed => (i <? nlive)%nat && c15_spec_dbg_trace page sT aT (pred nlive) ops' obs'
      | _ => false
      end
  | OpFreeN i n :: ops', o :: obs' =>            (* caller-supplied count: released, or the mismatch is detected (abort ends the trace) *)
      match o, obs' with
      | DObsFreed, _ => (i <? nlive)%nat && c15_spec_dbg_trace page sT aT (pred nlive) ops' obs'
      | DObsAbort DbgSize, [] => negb (n =? 0)
      | _, _ => false
      end
  | OpFreeInvalid _ :: _, [DObsAbort DbgNotFound] => true      (* "only free memory which was allocated with this allocator" *)
  | OpFreeBad i k :: _, [DObsAbort e] =>                       (* wrong type / pointer / double free: detected, never released *)
      match e with DbgLost => false | _ => (i <? nlive)%nat || (k =? 2) end
  | _, _ => false
  end.

(* destructor of the manager: all mappings returned; aborts iff blocks are still in use *)
Definition c15_spec_dbg_destroy (nlive : nat) (released : nat) (aborted : bool) : bool :=
  Nat.eqb released nlive && Bool.eqb aborted (negb (Nat.eqb nlive 0)).

(* ---- isAligned *)
Definition c15_spec_isAligned (p align : N) : bool := p mod align =? 0.
