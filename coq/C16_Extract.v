(* Extraction of the C16 model and oracle for the correspondence check.  ExtrOcamlBasic only:
   bool/option/unit/list/prod map to OCaml's; Z, positive, nat stay Coq inductives. *)
From Coq Require Import Extraction ExtrOcamlBasic.
From Coq Require Import List ZArith.
From DuneV Require Import C16_Model C16_Spec.
Extraction Language OCaml.
Extraction "c16_model.ml"
  c16_wrap c16_sext c16_norm c16_tmin c16_tmax c16_at
  c16_legacy_ops c16_bi_eq c16_bi_ne c16_nf_ops c16_nf_inc_by_advance c16_nf_dec_by_advance
  c16_dense_prims c16_same_container_eq c16_dense_rep c16_dense_unrep
  c16_generic_prims c16_alist_prims c16_alist_rep c16_alist_unrep
  c16_sl_prims c16_slmod_inc c16_slmod_eq
  c16_ir_ops c16_ir_diff_overflows c16_ir_rep c16_ir_unrep
  c16_vec_base c16_tr_ops c16_sparse_ops
  c16_idx_run c16_idx_index
  c16_range_loop c16_irange_elems c16_irange_size c16_irange_at c16_irange_empty c16_irange_contains c16_sirange_seq
  c16_tr_elems c16_tr_size c16_tr_empty c16_tr_at c16_sparse_elems
  c16_hy_size c16_hy_elementAt c16_hy_log c16_hy_accumulate c16_hy_ifElse
  c16_hy_switch_static c16_hy_switch_dynamic c16_hy_switch_range c16_hy_fun
  c16_nf_ops_manual c16_cw_prims c16_copy c16_dense_begin c16_dense_end c16_dense_before_end c16_dense_before_begin c16_dense_find
  c16_max_value c16_min_value c16_any_true c16_all_true c16_iseq_get c16_iseq_back c16_iseq_contains c16_iseq_difference_dec c16_iseq_equal
  c16_iseq_filter c16_iseq_sorted c16_hy_maxn c16_hy_minn Z.gtb
  c16_ir_ops_src c16_post_inc c16_post_dec c16_nplus c16_arrow c16_tag_prims c16_convert
  c16_sl_cur c16_sl_to_const c16_sl_to_it c16_sl_member_equals c16_sl_facade_eq c16_sl_facade_ne c16_sl_inc c16_sl_begin_modify c16_sl_end_modify
  c16_idx_plus c16_idx_minus c16_idx_post_inc c16_idx_post_dec c16_idx_ops c16_base_of_ops c16_tr_over c16_itr_over c16_sparse_over
  c16_assign_over c16_tag_assign_over c16_tag_convert_assign_over c16_idx_assign_over c16_tri_assign_over c16_tri_star c16_range_assign_over
  c16_sir_to_ir c16_idx_vs_base_eq c16_idx_vs_base_diff
  c16_swap c16_alist_begin c16_alist_end c16_iterrange c16_range_for c16_sirange_at c16_sirange_size
  c16_spec_cmp c16_spec_diff c16_spec_irange c16_spec_sparse c16_spec_switch c16_spec_fold c16_steps
  Z.add Z.sub Z.mul Z.div Z.modulo Z.opp Z.of_nat Z.to_nat Z.ltb Z.leb Z.eqb Z.max Z.min.
