(* C16 -- executable model of the iterator facades, ranges and hybrid helpers of dune-common.
   Definitions only (no proofs): the model must run even when a proof breaks.

   Anchors: dune/common/iteratorfacades.hh (Forward/Bidirectional/RandomAccessIteratorFacade, IteratorFacade),
   genericiterator.hh, densevector.hh (DenseIterator), arraylist.hh (ArrayListIterator, ConstArrayListIterator),
   sllist.hh (SLListIterator, SLListConstIterator, SLListModifyIterator), indexediterator.hh,
   rangeutilities.hh (IntegralRangeIterator, IntegralRange, StaticIntegralRange, TransformedRangeView, sparseRange),
   hybridutilities.hh.

   Shape: a derived iterator class supplies PRIMITIVES (c16_prims: increment/decrement/advance/distanceTo/equals/
   dereference/elementAt -- legacy facades; c16_base: the operators of baseIterator() -- new IteratorFacade); the
   facade templates DERIVE the user-visible operators (c16_ops) from them.  The derivations below are literal
   transcriptions of the template bodies, including the `is_convertible<T2,T1>` case split of the interoperable
   comparisons (flag `conv`).  Machine integers are explicit (c16_wrap / c16_sext); a position is a Z holding the
   bit pattern of the C++ member (`size_t position_`, `ptrdiff_t position_`, `T value_`). *)
From Coq Require Import List ZArith Bool.
From DuneV Require Import Params_gen.
Import ListNotations.
Local Open Scope Z_scope.

(* comparison-operator tables are re-read from the C++ source on every run (tools/params.d/C16.py -> Params_gen.v):
   code 0: x < y   1: x <= y   2: x > y   3: x >= y *)
Definition c16_cmp_code (c : nat) (x y : Z) : bool :=
  match c with 0%nat => x <? y | 1%nat => x <=? y | 2%nat => y <? x | _ => y <=? x end.
Definition c16_neg_if (c : nat) (d : Z) : Z := match c with 0%nat => d | _ => - d end.

(* ------------------------------------------------------------------ machine integers *)
Definition c16_wrap (w z : Z) : Z := z mod 2 ^ w.                        (* conversion to an unsigned w-bit type *)
Definition c16_sext (w z : Z) : Z :=                                     (* conversion to a signed w-bit type *)
  let m := z mod 2 ^ w in if m <? 2 ^ (w - 1) then m else m - 2 ^ w.
Record c16_ity := { c16_bits : Z; c16_signed : bool }.                   (* an integral type T *)
Definition c16_norm (t : c16_ity) (z : Z) : Z :=
  if c16_signed t then c16_sext (c16_bits t) z else c16_wrap (c16_bits t) z.
Definition c16_tmin (t : c16_ity) : Z := if c16_signed t then - 2 ^ (c16_bits t - 1) else 0.
Definition c16_tmax (t : c16_ity) : Z := if c16_signed t then 2 ^ (c16_bits t - 1) - 1 else 2 ^ (c16_bits t) - 1.

(* container[z]; None = out of bounds (UB in C++) *)
Definition c16_at {A} (xs : list A) (z : Z) : option A :=
  if (z <? 0) || (Z.of_nat (length xs) <=? z) then None else nth_error xs (Z.to_nat z).

(* ------------------------------------------------------------------ what a derived class supplies *)
Record c16_prims (P V : Type) := {
  c16_p_inc : P -> P;              (* increment() *)
  c16_p_dec : P -> P;              (* decrement() *)
  c16_p_adv : Z -> P -> P;         (* advance(n) *)
  c16_p_dist : P -> P -> Z;        (* a.distanceTo(b) *)
  c16_p_eq : P -> P -> bool;       (* a.equals(b) *)
  c16_p_deref : P -> V;            (* dereference() *)
  c16_p_elt : P -> Z -> V }.       (* elementAt(n) *)
Arguments c16_p_inc {P V}. Arguments c16_p_dec {P V}. Arguments c16_p_adv {P V}. Arguments c16_p_dist {P V}.
Arguments c16_p_eq {P V}. Arguments c16_p_deref {P V}. Arguments c16_p_elt {P V}.

(* what the user sees *)
Record c16_ops (P V : Type) := {
  c16_o_eq : P -> P -> bool; c16_o_ne : P -> P -> bool;
  c16_o_lt : P -> P -> bool; c16_o_le : P -> P -> bool; c16_o_gt : P -> P -> bool; c16_o_ge : P -> P -> bool;
  c16_o_diff : P -> P -> Z;            (* a - b *)
  c16_o_inc : P -> P; c16_o_dec : P -> P;
  c16_o_plus : P -> Z -> P; c16_o_minus : P -> Z -> P;          (* it + n, it - n *)
  c16_o_pluseq : P -> Z -> P; c16_o_minuseq : P -> Z -> P;      (* it += n, it -= n *)
  c16_o_index : P -> Z -> V;           (* it[n] *)
  c16_o_star : P -> V }.
Arguments c16_o_eq {P V}. Arguments c16_o_ne {P V}. Arguments c16_o_lt {P V}. Arguments c16_o_le {P V}.
Arguments c16_o_gt {P V}. Arguments c16_o_ge {P V}. Arguments c16_o_diff {P V}. Arguments c16_o_inc {P V}.
Arguments c16_o_dec {P V}. Arguments c16_o_plus {P V}. Arguments c16_o_minus {P V}. Arguments c16_o_pluseq {P V}.
Arguments c16_o_minuseq {P V}. Arguments c16_o_index {P V}. Arguments c16_o_star {P V}.

(* ------------------------------------------------------------------ legacy facades (iteratorfacades.hh 140-730)
   conv = std::is_convertible<T2,T1>::value for operator@(const Facade<T1..>& lhs, const Facade<T2..>& rhs):
   true for (same,same) and (const lhs, mutable rhs); false for (mutable lhs, const rhs). *)
Section Legacy.
  Context {P V : Type} (pr : c16_prims P V).
  Definition c16_ra_eq (conv : bool) (l r : P) : bool := if conv then c16_p_eq pr l r else c16_p_eq pr r l.
  Definition c16_ra_ne (conv : bool) (l r : P) : bool := if conv then negb (c16_p_eq pr l r) else negb (c16_p_eq pr r l).
  (* `lhs.distanceTo(rhs) OP 0` / `rhs.distanceTo(lhs) OP 0` with the operator tokens of the source *)
  Definition c16_ra_lt (conv : bool) (l r : P) : bool :=
    if conv then c16_cmp_code c16_param_ra_lt_conv (c16_p_dist pr l r) 0 else c16_cmp_code c16_param_ra_lt_else (c16_p_dist pr r l) 0.
  Definition c16_ra_le (conv : bool) (l r : P) : bool :=
    if conv then c16_cmp_code c16_param_ra_le_conv (c16_p_dist pr l r) 0 else c16_cmp_code c16_param_ra_le_else (c16_p_dist pr r l) 0.
  Definition c16_ra_gt (conv : bool) (l r : P) : bool :=
    if conv then c16_cmp_code c16_param_ra_gt_conv (c16_p_dist pr l r) 0 else c16_cmp_code c16_param_ra_gt_else (c16_p_dist pr r l) 0.
  Definition c16_ra_ge (conv : bool) (l r : P) : bool :=
    if conv then c16_cmp_code c16_param_ra_ge_conv (c16_p_dist pr l r) 0 else c16_cmp_code c16_param_ra_ge_else (c16_p_dist pr r l) 0.
  Definition c16_ra_diff (conv : bool) (l r : P) : Z :=
    if conv then c16_neg_if c16_param_ra_diff_conv_negated (c16_p_dist pr l r) else c16_neg_if c16_param_ra_diff_else_negated (c16_p_dist pr r l).
  (* BidirectionalIteratorFacade: two overloads of ==, != is !(lhs == rhs) *)
  Definition c16_bi_eq (conv : bool) (l r : P) : bool := if conv then c16_p_eq pr l r else c16_p_eq pr r l.
  Definition c16_bi_ne (conv : bool) (l r : P) : bool := negb (c16_bi_eq conv l r).
  Definition c16_legacy_ops (conv : bool) : c16_ops P V := {|
    c16_o_eq := c16_ra_eq conv; c16_o_ne := c16_ra_ne conv;
    c16_o_lt := c16_ra_lt conv; c16_o_le := c16_ra_le conv; c16_o_gt := c16_ra_gt conv; c16_o_ge := c16_ra_ge conv;
    c16_o_diff := c16_ra_diff conv;
    c16_o_inc := c16_p_inc pr; c16_o_dec := c16_p_dec pr;
    c16_o_plus := fun it n => c16_p_adv pr n it;                (* tmp = copy of this; tmp.advance(n) *)
    c16_o_minus := fun it n => c16_p_adv pr (- n) it;           (* tmp.advance(-n) *)
    c16_o_pluseq := fun it n => c16_p_adv pr n it;
    c16_o_minuseq := fun it n => c16_p_adv pr (- n) it;
    c16_o_index := c16_p_elt pr;
    c16_o_star := c16_p_deref pr |}.
End Legacy.

(* ------------------------------------------------------------------ new IteratorFacade (iteratorfacades.hh 1051-1407)
   everything forwarded to baseIterator() *)
Record c16_base (B V : Type) := {
  c16_b_inc : B -> B; c16_b_dec : B -> B;
  c16_b_addeq : Z -> B -> B;       (* base += n *)
  c16_b_sub : B -> B -> Z;         (* base1 - base2 *)
  c16_b_eq : B -> B -> bool;
  c16_b_deref : B -> V }.
Arguments c16_b_inc {B V}. Arguments c16_b_dec {B V}. Arguments c16_b_addeq {B V}. Arguments c16_b_sub {B V}.
Arguments c16_b_eq {B V}. Arguments c16_b_deref {B V}.

Section NewFacade.
  Context {B V W : Type} (bs : c16_base B V) (star : B -> W).   (* star: the derived class's own operator* *)
  Definition c16_nf_pluseq (it : B) (n : Z) : B := c16_b_addeq bs n it.
  Definition c16_nf_plus (it : B) (n : Z) : B := c16_nf_pluseq it n.          (* tmp(derived()); tmp += n *)
  Definition c16_nf_minuseq (it : B) (n : Z) : B := c16_nf_pluseq it (- n).   (* derived() += (-n) *)
  Definition c16_nf_minus (it : B) (n : Z) : B := c16_nf_minuseq it n.        (* tmp -= n *)
  Definition c16_nf_inc (it : B) : B := c16_b_inc bs it.                      (* ++baseIterator() *)
  Definition c16_nf_dec (it : B) : B := c16_b_dec bs it.
  Definition c16_nf_inc_by_advance (it : B) : B := c16_nf_pluseq it 1.        (* fallback: derived() += 1 *)
  Definition c16_nf_dec_by_advance (it : B) : B := c16_nf_minuseq it 1.       (* fallback: derived() -= 1 *)
  Definition c16_nf_diff (a b : B) : Z := c16_b_sub bs a b.
  Definition c16_nf_ops : c16_ops B W := {|
    c16_o_eq := c16_b_eq bs; c16_o_ne := fun a b => negb (c16_b_eq bs a b);
    (* `(derivedIt1 - derivedIt2) OP D1(0)` with the operator tokens of the source *)
    c16_o_lt := fun a b => c16_cmp_code c16_param_nf_lt (c16_nf_diff a b) 0; c16_o_le := fun a b => c16_cmp_code c16_param_nf_le (c16_nf_diff a b) 0;
    c16_o_gt := fun a b => c16_cmp_code c16_param_nf_gt (c16_nf_diff a b) 0; c16_o_ge := fun a b => c16_cmp_code c16_param_nf_ge (c16_nf_diff a b) 0;
    c16_o_diff := c16_nf_diff;
    c16_o_inc := c16_nf_inc; c16_o_dec := c16_nf_dec;
    c16_o_plus := c16_nf_plus; c16_o_minus := c16_nf_minus;
    c16_o_pluseq := c16_nf_pluseq; c16_o_minuseq := c16_nf_minuseq;
    c16_o_index := fun it n => star (c16_nf_plus it n);                       (* *(derived()+n) *)
    c16_o_star := star |}.
End NewFacade.

(* ------------------------------------------------------------------ instances: primitives of the derived classes *)
(* DenseIterator (densevector.hh 128-215): `SizeType position_` (size_t); beforeBegin() is position size_t(-1). *)
Definition c16_dense_prims (xs : list Z) : c16_prims Z (option Z) := {|
  c16_p_inc := fun p => c16_wrap 64 (p + 1);
  c16_p_dec := fun p => c16_wrap 64 (p - 1);
  c16_p_adv := fun n p => c16_wrap 64 (p + n);                                (* position_ = position_ + n *)
  c16_p_dist := fun a b => c16_sext 64 b - c16_sext 64 a;                     (* both cast to ptrdiff_t, then subtracted *)
  c16_p_eq := fun a b => a =? b;                                              (* && container_ == other.container_ : see c16_same_container *)
  c16_p_deref := fun p => c16_at xs p;
  c16_p_elt := fun p i => c16_at xs (c16_wrap 64 (p + i)) |}.
Definition c16_same_container_eq (same : bool) (poseq : bool) : bool := poseq && same.
Definition c16_dense_rep (z : Z) : Z := c16_wrap 64 z.
Definition c16_dense_unrep (p : Z) : Z := c16_sext 64 p.

(* GenericIterator (genericiterator.hh 130-277): `DifferenceType position_` (ptrdiff_t) *)
Definition c16_generic_prims (xs : list Z) : c16_prims Z (option Z) := {|
  c16_p_inc := fun p => p + 1;
  c16_p_dec := fun p => p - 1;
  c16_p_adv := fun n p => p + n;
  c16_p_dist := fun a b => b - a;
  c16_p_eq := fun a b => a =? b;
  c16_p_deref := fun p => c16_at xs p;
  c16_p_elt := fun p i => c16_at xs (p + i) |}.

(* ArrayListIterator / ConstArrayListIterator (arraylist.hh): `size_type position_` is the absolute slot
   start_ + i; storage st = flattened chunks (slot s -> chunks_[s/N][s%N]). *)
Definition c16_alist_prims (start size : Z) (st : list Z) : c16_prims Z (option Z) := {|
  c16_p_inc := fun p => c16_wrap 64 (p + 1);
  c16_p_dec := fun p => c16_wrap 64 (p - 1);
  c16_p_adv := fun n p => c16_wrap 64 (p + n);                                (* position_ += i *)
  c16_p_dist := fun a b => c16_sext 64 (c16_wrap 64 (b - a));                 (* size_t difference returned as difference_type *)
  c16_p_eq := fun a b => a =? b;
  c16_p_deref := fun p => if (start <=? p) && (p <? start + size) then c16_at st p else None;
  c16_p_elt := fun p i => let q := c16_wrap 64 (c16_wrap 64 i + p) in       (* elementAt(size_type i): list_->elementAt(i+position_) *)
                          if (start <=? q) && (q <? start + size) then c16_at st q else None |}.
Definition c16_alist_rep (start z : Z) : Z := c16_wrap 64 (start + z).
Definition c16_alist_unrep (start p : Z) : Z := c16_sext 64 (p - start).

(* SLList iterators (sllist.hh): forward only; a position is the index of the node `current_` points to
   (n = null = end()).  The modify iterator is the pair (beforeIterator_, iterator_). *)
Definition c16_sl_prims (xs : list Z) : c16_prims Z (option Z) := {|
  c16_p_inc := fun p => p + 1;                                                (* current_ = current_->next_ *)
  c16_p_dec := fun p => p;                                                    (* not offered *)
  c16_p_adv := fun _ p => p;                                                  (* not offered *)
  c16_p_dist := fun _ _ => 0;                                                 (* not offered *)
  c16_p_eq := fun a b => a =? b;                                              (* current_ == other.current_ *)
  c16_p_deref := fun p => c16_at xs p;
  c16_p_elt := fun _ _ => None |}.
Definition c16_slmod_inc (bi : Z * Z) : Z * Z := (fst bi + 1, snd bi + 1).    (* ++iterator_; ++beforeIterator_ *)
Definition c16_slmod_eq (a b : Z * Z) : bool := snd a =? snd b.               (* iterator_ == other.iterator_ *)

(* Impl::IntegralRangeIterator<T> (rangeutilities.hh 118-161): hand-written, no facade.
   `fixed = false` is the code as written (operator< returns <=, operator> returns >=);
   `fixed = true` is the code after fixes/C16-1.patch. *)
Definition c16_ir_ops (t : c16_ity) (fixed : bool) : c16_ops Z (option Z) :=
  let w := c16_bits t in {|
  c16_o_eq := fun a b => a =? b; c16_o_ne := fun a b => negb (a =? b);
  c16_o_lt := fun a b => if fixed then a <? b else a <=? b;
  c16_o_le := fun a b => a <=? b;
  c16_o_gt := fun a b => if fixed then b <? a else b <=? a;
  c16_o_ge := fun a b => b <=? a;
  (* static_cast<difference_type>(value_) - static_cast<difference_type>(other.value_), returned as difference_type *)
  c16_o_diff := fun a b => c16_sext w (c16_sext w a - c16_sext w b);
  c16_o_inc := fun v => c16_norm t (v + 1); c16_o_dec := fun v => c16_norm t (v - 1);
  c16_o_plus := fun v n => c16_norm t (v + n); c16_o_minus := fun v n => c16_norm t (v - n);
  c16_o_pluseq := fun v n => c16_norm t (v + n); c16_o_minuseq := fun v n => c16_norm t (v - n);
  c16_o_index := fun v n => Some (c16_norm t (v + n));
  c16_o_star := fun v => Some v |}.
(* the class as it stands in the source tree: comparison tokens re-read by tools/params.d/C16.py *)
Definition c16_ir_ops_src (t : c16_ity) : c16_ops Z (option Z) :=
  let o := c16_ir_ops t true in {|
  c16_o_eq := c16_o_eq o; c16_o_ne := c16_o_ne o;
  c16_o_lt := fun a b => c16_cmp_code c16_param_ir_lt a b; c16_o_le := fun a b => c16_cmp_code c16_param_ir_le a b;
  c16_o_gt := fun a b => c16_cmp_code c16_param_ir_gt a b; c16_o_ge := fun a b => c16_cmp_code c16_param_ir_ge a b;
  c16_o_diff := c16_o_diff o; c16_o_inc := c16_o_inc o; c16_o_dec := c16_o_dec o;
  c16_o_plus := c16_o_plus o; c16_o_minus := c16_o_minus o; c16_o_pluseq := c16_o_pluseq o; c16_o_minuseq := c16_o_minuseq o;
  c16_o_index := c16_o_index o; c16_o_star := c16_o_star o |}.
(* true iff operator- as written overflows its signed arithmetic type (UB; wraps on this platform):
   only possible when the subtraction is not done in a wider promoted type, i.e. for widths >= 32 *)
Definition c16_ir_diff_overflows (t : c16_ity) (a b : Z) : bool :=
  let w := c16_bits t in let d := c16_sext w a - c16_sext w b in
  (32 <=? w) && ((d <? - 2 ^ (w - 1)) || (2 ^ (w - 1) <=? d)).
Definition c16_ir_rep (t : c16_ity) (from z : Z) : Z := c16_norm t (from + z).
Definition c16_ir_unrep (t : c16_ity) (from v : Z) : Z := c16_sext (c16_bits t) (v - from).

(* base iterators for the new facade: a pointer-like random access iterator over a list (std::vector) *)
Definition c16_vec_base (xs : list Z) : c16_base Z (option Z) := {|
  c16_b_inc := fun p => p + 1; c16_b_dec := fun p => p - 1;
  c16_b_addeq := fun n p => p + n;
  c16_b_sub := fun a b => a - b;
  c16_b_eq := fun a b => a =? b;
  c16_b_deref := fun p => c16_at xs p |}.
(* Impl::TransformedRangeIterator with a value transformation f: dereferencing applies f to the dereferenced it_ *)
Definition c16_tr_ops (f : Z -> Z) (xs : list Z) : c16_ops Z (option Z) :=
  c16_nf_ops (c16_vec_base xs) (fun p => option_map f (c16_at xs p)).
(* ... with an iterator transformation g(it): sparseRange uses g(it) = pair of dereferenced it and it.index() *)
Definition c16_sparse_ops (xs : list Z) (index : Z -> Z) : c16_ops Z (option (Z * Z)) :=
  c16_nf_ops (c16_vec_base xs) (fun p => option_map (fun v => (v, index p)) (c16_at xs p)).

(* IndexedIterator<Iter> (indexediterator.hh): mixin over any iterator with ops o; (iter, index_) *)
Section Indexed.
  Context {P V : Type} (o : c16_ops P V).
  Definition c16_idx_inc (x : P * Z) : P * Z := (c16_o_inc o (fst x), snd x + 1).
  Definition c16_idx_dec (x : P * Z) : P * Z := (c16_o_dec o (fst x), snd x - 1).
  Definition c16_idx_pluseq (x : P * Z) (n : Z) : P * Z := (c16_o_pluseq o (fst x) n, snd x + n).
  Definition c16_idx_minuseq (x : P * Z) (n : Z) : P * Z := (c16_o_minuseq o (fst x) n, snd x - n).
  Definition c16_idx_index (x : P * Z) : Z := snd x.
  Inductive c16_idx_op := C16Inc | C16Dec | C16PlusEq (n : Z) | C16MinusEq (n : Z).
  Definition c16_idx_step (x : P * Z) (op : c16_idx_op) : P * Z :=
    match op with C16Inc => c16_idx_inc x | C16Dec => c16_idx_dec x
                | C16PlusEq n => c16_idx_pluseq x n | C16MinusEq n => c16_idx_minuseq x n end.
  Definition c16_idx_run (x : P * Z) (l : list c16_idx_op) : P * Z := fold_left c16_idx_step l x.
End Indexed.

(* ------------------------------------------------------------------ range-based for over [b, e) *)
Inductive c16_res (A : Type) := C16Ok (a : A) | C16OutOfFuel.
Arguments C16Ok {A}. Arguments C16OutOfFuel {A}.
Fixpoint c16_range_loop {P V} (o : c16_ops P V) (fuel : nat) (it e : P) (acc : list V) : c16_res (list V) :=
  match fuel with
  | O => C16OutOfFuel
  | S f => if c16_o_ne o it e then c16_range_loop o f (c16_o_inc o it) e (acc ++ [c16_o_star o it]) else C16Ok acc
  end.

(* IntegralRange<T>(from,to) (rangeutilities.hh 175-211) and StaticIntegralRange<T,to,from> (228-280) *)
Definition c16_irange_elems (t : c16_ity) (fixed : bool) (fuel : nat) (from to : Z) : c16_res (list (option Z)) :=
  c16_range_loop (c16_ir_ops t fixed) fuel from to [].
Definition c16_irange_size (t : c16_ity) (from to : Z) : Z :=
  let w := c16_bits t in c16_wrap w (c16_wrap w to - c16_wrap w from).       (* size_type(to_) - size_type(from_) *)
Definition c16_irange_at (t : c16_ity) (from i : Z) : Z := c16_norm t (from + i).   (* from_ + i *)
Definition c16_irange_empty (from to : Z) : bool := from =? to.
Definition c16_irange_contains (from to x : Z) : bool := (from <=? x) && (x <? to).
(* StaticIntegralRange::integer_sequence = shift_integer_sequence<from>(make_integer_sequence<T,to-from>) *)
Definition c16_sirange_seq (t : c16_ity) (from to : Z) : list Z :=
  map (fun i => c16_norm t (Z.of_nat i + from)) (seq 0 (Z.to_nat (to - from))).

(* TransformedRangeView over a vector: range-for, size(), empty(), operator[] *)
Definition c16_tr_elems (f : Z -> Z) (xs : list Z) (fuel : nat) : c16_res (list (option Z)) :=
  c16_range_loop (c16_tr_ops f xs) fuel 0 (Z.of_nat (length xs)) [].
Definition c16_tr_size (xs : list Z) : Z := Z.of_nat (length xs).
Definition c16_tr_empty (xs : list Z) : bool := c16_b_eq (c16_vec_base xs) 0 (Z.of_nat (length xs)).
Definition c16_tr_at (f : Z -> Z) (xs : list Z) (i : Z) : option Z := c16_o_index (c16_tr_ops f xs) 0 i.
(* sparseRange over a container whose iterator offers index() *)
Definition c16_sparse_elems (xs : list Z) (index : Z -> Z) (fuel : nat) : c16_res (list (option (Z * Z))) :=
  c16_range_loop (c16_sparse_ops xs index) fuel 0 (Z.of_nat (length xs)) [].

(* ------------------------------------------------------------------ Hybrid:: helpers (hybridutilities.hh)
   C16Static: tuple / std::array / TupleVector / integer_sequence / StaticIntegralRange (size is an
   integral_constant: the loop runs over make_index_sequence<size> and uses elementAt(range, index_constant<i>));
   C16Dynamic: vector / IntegralRange (plain range-based for). *)
Inductive c16_mode := C16Static | C16Dynamic.
Definition c16_hy_size (m : c16_mode) (xs : list Z) : Z := Z.of_nat (length xs).
Definition c16_hy_elementAt (m : c16_mode) (xs : list Z) (i : Z) : option Z := c16_at xs i.
Fixpoint c16_hy_dyn_foreach {A} (f : A -> Z -> A) (xs : list Z) (a : A) : A :=
  match xs with [] => a | x :: r => c16_hy_dyn_foreach f r (f a x) end.
Definition c16_hy_forEach {A} (m : c16_mode) (f : A -> Z -> A) (xs : list Z) (a : A) : A :=
  match m with
  | C16Static => fold_left (fun a i => match nth_error xs i with Some x => f a x | None => a end) (seq 0 (length xs)) a
  | C16Dynamic => c16_hy_dyn_foreach f xs a
  end.
Definition c16_hy_log (m : c16_mode) (xs : list Z) : list Z := c16_hy_forEach m (fun l x => l ++ [x]) xs [].
(* accumulate: value = f(value, entry) inside forEach *)
Definition c16_hy_accumulate (m : c16_mode) (f : Z -> Z -> Z) (xs : list Z) (v : Z) : Z := c16_hy_forEach m f xs v.
Definition c16_hy_ifElse {A} (m : c16_mode) (c : bool) (a b : A) : A :=
  match m with C16Static => (if c then a else b)       (* overload on std::true_type / std::false_type *)
             | C16Dynamic => if c then a else b end.
(* switchCases(integer_sequence, integral_constant value): fold expression ((t0==value)||...||(tt==value)) *)
Definition c16_hy_switch_static {A} (cases : list Z) (v : Z) (br : Z -> A) (el : A) : A :=
  if fold_right (fun t acc => (t =? v) || acc) false cases then br v else el.
(* switchCases(integer_sequence, run-time value): recursion over the sequence *)
Fixpoint c16_hy_switch_dynamic {A} (cases : list Z) (v : Z) (br : Z -> A) (el : A) : A :=
  match cases with [] => el | t0 :: ts => if t0 =? v then br t0 else c16_hy_switch_dynamic ts v br el end.
(* switchCases(IntegralRange<T>, value) *)
Definition c16_hy_switch_range {A} (from to v : Z) (br : Z -> A) (el : A) : A :=
  if c16_irange_contains from to v then br v else el.
(* HybridFunctor<F>: F applied to the values, whether all / some / no arguments are integral_constants *)
Inductive c16_hyfun := C16Plus | C16Minus | C16Max | C16Min | C16EqualTo.
Definition c16_hy_fun (m1 m2 : c16_mode) (o : c16_hyfun) (a b : Z) : Z :=
  match o with C16Plus => a + b | C16Minus => a - b | C16Max => Z.max a b | C16Min => Z.min a b
             | C16EqualTo => if a =? b then 1 else 0 end.

(* ================================================================== additions of the API-coverage audit *)
(* a derived class of the new IteratorFacade WITHOUT baseIterator() that implements *, +=, - and == itself:
   ++ and -- are the facade's fallbacks `derived() += 1` and `derived() -= 1` (the latter being `derived() += (-1)`) *)
Definition c16_nf_ops_manual {B V W} (bs : c16_base B V) (star : B -> W) : c16_ops B W :=
  let o := c16_nf_ops bs star in {|
    c16_o_eq := c16_o_eq o; c16_o_ne := c16_o_ne o; c16_o_lt := c16_o_lt o; c16_o_le := c16_o_le o;
    c16_o_gt := c16_o_gt o; c16_o_ge := c16_o_ge o; c16_o_diff := c16_o_diff o;
    c16_o_inc := c16_nf_inc_by_advance bs; c16_o_dec := c16_nf_dec_by_advance bs;
    c16_o_plus := c16_o_plus o; c16_o_minus := c16_o_minus o; c16_o_pluseq := c16_o_pluseq o; c16_o_minuseq := c16_o_minuseq o;
    c16_o_index := c16_o_index o; c16_o_star := c16_o_star o |}.

(* ContainerWrapperIterator (diagonalmatrix.hh 996-1082, on the BidirectionalIteratorFacade): `size_t position_` set from an
   `int`, advance(int), distanceTo = other.position_ - position_ in size_t returned as ptrdiff_t *)
Definition c16_cw_prims (xs : list Z) : c16_prims Z (option Z) := {|
  c16_p_inc := fun p => c16_wrap 64 (p + 1);
  c16_p_dec := fun p => c16_wrap 64 (p - 1);
  c16_p_adv := fun n p => c16_wrap 64 (p + c16_sext 32 n);
  c16_p_dist := fun a b => c16_sext 64 (c16_wrap 64 (b - a));
  c16_p_eq := fun a b => a =? b;
  c16_p_deref := fun p => c16_at xs p;
  c16_p_elt := fun p i => c16_at xs (c16_wrap 64 (p + c16_sext 32 i)) |}.

(* copying, assigning and mutable -> const conversion copy the members *)
Definition c16_copy {P} (p : P) : P := p.

(* iterators handed out by DenseVector / DenseMatrix: begin, end, beforeEnd, beforeBegin, find (densevector.hh 347-413) *)
Definition c16_dense_begin : Z := 0.
Definition c16_dense_end (n : Z) : Z := c16_wrap 64 n.
Definition c16_dense_before_end (n : Z) : Z := c16_wrap 64 (n - c16_param_dense_before_end_offset).
Definition c16_dense_before_begin : Z := c16_wrap 64 c16_param_dense_before_begin.
Definition c16_dense_find (n i : Z) : Z := Z.min (c16_wrap 64 i) n.         (* Iterator(this, std::min(i, size())) *)

(* rangeutilities.hh 36-111: max_value / min_value (std::max_element / min_element), any_true / all_true (loops as written) *)
Definition c16_max_value (x : Z) (xs : list Z) : Z := fold_left (fun m e => if m <? e then e else m) xs x.
Definition c16_min_value (x : Z) (xs : list Z) : Z := fold_left (fun m e => if e <? m then e else m) xs x.
Definition c16_any_true (xs : list bool) : bool := fold_left (fun b e => b || e) xs false.
Definition c16_all_true (xs : list bool) : bool := fold_left (fun b e => b && e) xs true.

(* integersequence.hh: everything is a list operation; `sorted` (a constexpr quicksort on std::array) is modelled by its
   result, which for integers is determined: the sorted permutation (insertion sort w.r.t. the comparison) *)
Definition c16_iseq_get (s : list Z) (i : Z) : option Z := c16_at s i.
Definition c16_iseq_back (s : list Z) : option Z := c16_at s (Z.of_nat (length s) - 1).
Definition c16_iseq_contains (s : list Z) (v : Z) : bool := fold_right (fun i acc => (i =? v) || acc) false s.
Fixpoint c16_iseq_difference (s j : list Z) : list Z :=
  match s with [] => [] | i0 :: r => if negb (c16_iseq_contains j i0) then i0 :: c16_iseq_difference r j else c16_iseq_difference r j end.
Definition c16_iseq_difference_dec (s j : list Z) : list Z :=     (* `if constexpr (iSeq.size() == 0 || jSeq.size() == 0) return iSeq` *)
  match s, j with [], _ => s | _, [] => s | _, _ => c16_iseq_difference s j end.
Fixpoint c16_iseq_equal (a b : list Z) : bool :=
  match a, b with [], [] => true | x :: a', y :: b' => (x =? y) && c16_iseq_equal a' b' | _, _ => false end.
Fixpoint c16_iseq_filter (f : Z -> bool) (s : list Z) : list Z :=
  match s with [] => [] | j0 :: r => if f j0 then j0 :: c16_iseq_filter f r else c16_iseq_filter f r end.
Fixpoint c16_insert (lt : Z -> Z -> bool) (x : Z) (l : list Z) : list Z :=
  match l with [] => [x] | y :: r => if lt y x then y :: c16_insert lt x r else x :: l end.
Definition c16_iseq_sorted (lt : Z -> Z -> bool) (s : list Z) : list Z := fold_right (c16_insert lt) [] s.

(* Hybrid::max / min with any number of arguments (std::max / std::min over an initializer list) *)
Definition c16_hy_maxn (x : Z) (xs : list Z) : Z := c16_max_value x xs.
Definition c16_hy_minn (x : Z) (xs : list Z) : Z := c16_min_value x xs.

(* ================================================================== additions of the proof-deepening round *)
(* postfix ++ / -- of all facades: `tmp = copy of this; ++ / -- on this; return tmp`  -> (returned value, new value of the object) *)
Definition c16_post_inc {P V} (o : c16_ops P V) (it : P) : P * P := let tmp := c16_copy it in (tmp, c16_o_inc o it).
Definition c16_post_dec {P V} (o : c16_ops P V) (it : P) : P * P := let tmp := c16_copy it in (tmp, c16_o_dec o it).
(* friend operator+(n, it) of the new IteratorFacade and of IntegralRangeIterator: tmp = copy; tmp += n *)
Definition c16_nplus {P V} (o : c16_ops P V) (n : Z) (it : P) : P := c16_o_pluseq o (c16_copy it) n.
(* operator->: legacy facades return the address of dereference(); the new facade std::addressof of operator* or a ProxyArrowResult
   holding its value: in every case the object reached through -> is the object operator* yields *)
Definition c16_arrow {P V} (o : c16_ops P V) (it : P) : V := c16_o_star o it.

(* iterators that also store the container (DenseIterator, GenericIterator: `C* container_`): equals additionally compares the
   container pointers; copying / converting mutable -> const copies both members *)
Definition c16_tag_prims {P V} (pr : c16_prims P V) : c16_prims (Z * P) V := {|
  c16_p_inc := fun x => (fst x, c16_p_inc pr (snd x));
  c16_p_dec := fun x => (fst x, c16_p_dec pr (snd x));
  c16_p_adv := fun n x => (fst x, c16_p_adv pr n (snd x));
  c16_p_dist := fun a b => c16_p_dist pr (snd a) (snd b);                       (* assert(other.container_==container_) *)
  c16_p_eq := fun a b => c16_p_eq pr (snd a) (snd b) && (fst a =? fst b);       (* position_ == other.position_ && container_ == other.container_ *)
  c16_p_deref := fun x => c16_p_deref pr (snd x);
  c16_p_elt := fun x n => c16_p_elt pr (snd x) n |}.
Definition c16_convert {P} (x : Z * P) : Z * P := (fst x, snd x).             (* : container_(other.container_), position_(other.position_) *)

(* SLList's three iterator classes (sllist.hh 268-530), positions = node indices *)
Inductive c16_sl := C16SlIt (cur : Z) | C16SlConst (cur : Z) | C16SlMod (before cur : Z).
Definition c16_sl_cur (x : c16_sl) : Z := match x with C16SlIt c => c | C16SlConst c => c | C16SlMod _ c => c end.
Definition c16_sl_class (x : c16_sl) : nat := match x with C16SlIt _ => 0%nat | C16SlConst _ => 1%nat | C16SlMod _ _ => 2%nat end.
(* converting constructors: SLListConstIterator(const SLListIterator&), (const SLListModifyIterator&); SLListIterator(const SLListModifyIterator&) *)
Definition c16_sl_to_const (x : c16_sl) : c16_sl := C16SlConst (c16_sl_cur x).
Definition c16_sl_to_it (x : c16_sl) : c16_sl := match x with C16SlMod _ c => C16SlIt c | _ => x end.
(* std::is_convertible<T2,T1> by class *)
Definition c16_sl_convertible (t2 t1 : nat) : bool :=
  match t2, t1 with
  | 0%nat, 0%nat | 1%nat, 1%nat | 2%nat, 2%nat => true
  | 0%nat, 1%nat | 2%nat, 1%nat | 2%nat, 0%nat => true
  | _, _ => false end.
(* operator== between SLListIterator and SLListConstIterator operands (needed by SLListModifyIterator::equals, which is written with ==) *)
Definition c16_sl_eq_basic (l r : c16_sl) : bool :=
  match l, r with
  | C16SlIt c, C16SlIt d => c =? d                                   (* lhs.equals(rhs): current_==other.current_ *)
  | C16SlIt c, C16SlConst d => d =? c16_sl_cur (c16_sl_to_const l)   (* not convertible: rhs.equals(lhs converted to const) *)
  | C16SlConst c, C16SlIt d => c =? c16_sl_cur (c16_sl_to_const r)   (* convertible: lhs.equals(rhs converted to const) *)
  | C16SlConst c, C16SlConst d => c =? d
  | _, _ => false end.
(* self.equals(arg), the argument converted implicitly where the class has no overload for it *)
Definition c16_sl_member_equals (self arg : c16_sl) : bool :=
  match self, arg with
  | C16SlIt c, C16SlConst d => c =? d
  | C16SlIt c, C16SlIt d => c =? d
  | C16SlIt c, C16SlMod _ d => c =? d                                (* current_==other.iterator_.current_ *)
  | C16SlConst c, _ => c =? c16_sl_cur (c16_sl_to_const arg)         (* only equals(const SLListConstIterator&) exists *)
  | C16SlMod _ c, C16SlConst _ => c16_sl_eq_basic (C16SlIt c) arg    (* iterator_== other *)
  | C16SlMod _ c, C16SlIt _ => c16_sl_eq_basic (C16SlIt c) arg       (* iterator_== other *)
  | C16SlMod _ c, C16SlMod _ d => c16_sl_eq_basic (C16SlIt c) (C16SlIt d)   (* iterator_== other.iterator_ *)
  end.
(* ForwardIteratorFacade operator== / operator!= *)
Definition c16_sl_facade_eq (l r : c16_sl) : bool :=
  if c16_sl_convertible (c16_sl_class r) (c16_sl_class l) then c16_sl_member_equals l r else c16_sl_member_equals r l.
Definition c16_sl_facade_ne (l r : c16_sl) : bool :=
  if c16_sl_convertible (c16_sl_class r) (c16_sl_class l) then negb (c16_sl_member_equals l r) else negb (c16_sl_member_equals r l).
Definition c16_sl_inc (x : c16_sl) : c16_sl :=
  match x with C16SlIt c => C16SlIt (c + 1) | C16SlConst c => C16SlConst (c + 1) | C16SlMod b c => C16SlMod (b + 1) (c + 1) end.
(* begin / end / beginModify / endModify of a list with n nodes: end is the null pointer (index n); beforeHead_ is index -1, tail_ index n-1 *)
Definition c16_sl_begin_modify : c16_sl := C16SlMod (-1) 0.
Definition c16_sl_end_modify (n : Z) : c16_sl := C16SlMod (n - 1) n.

(* IndexedIterator<Iter> as an iterator: everything except ++ -- += -= and index() is inherited from Iter and ignores index_.
   NOTE the inherited `it + n`, `it - n` return the BASE iterator type Iter (c16_idx_plus): the record fields o_plus / o_minus of
   c16_idx_ops hold the += / -= results, which are the only index-preserving random-access moves the class offers. *)
Section IndexedOps.
  Context {P V : Type} (o : c16_ops P V).
  Definition c16_idx_plus (x : P * Z) (n : Z) : P := c16_o_plus o (fst x) n.
  Definition c16_idx_minus (x : P * Z) (n : Z) : P := c16_o_minus o (fst x) n.
  Definition c16_idx_post_inc (x : P * Z) : (P * Z) * (P * Z) := let tmp := c16_copy x in (tmp, c16_idx_inc o x).
  Definition c16_idx_post_dec (x : P * Z) : (P * Z) * (P * Z) := let tmp := c16_copy x in (tmp, c16_idx_dec o x).
  Definition c16_idx_ops : c16_ops (P * Z) V := {|
    c16_o_eq := fun a b => c16_o_eq o (fst a) (fst b); c16_o_ne := fun a b => c16_o_ne o (fst a) (fst b);
    c16_o_lt := fun a b => c16_o_lt o (fst a) (fst b); c16_o_le := fun a b => c16_o_le o (fst a) (fst b);
    c16_o_gt := fun a b => c16_o_gt o (fst a) (fst b); c16_o_ge := fun a b => c16_o_ge o (fst a) (fst b);
    c16_o_diff := fun a b => c16_o_diff o (fst a) (fst b);
    c16_o_inc := c16_idx_inc o; c16_o_dec := c16_idx_dec o;
    c16_o_plus := c16_idx_pluseq o; c16_o_minus := c16_idx_minuseq o;
    c16_o_pluseq := c16_idx_pluseq o; c16_o_minuseq := c16_idx_minuseq o;
    c16_o_index := fun x n => c16_o_index o (fst x) n;
    c16_o_star := fun x => c16_o_star o (fst x) |}.
End IndexedOps.

(* any iterator can serve as baseIterator() of a TransformedRangeIterator *)
Definition c16_base_of_ops {P V} (o : c16_ops P V) : c16_base P V := {|
  c16_b_inc := c16_o_inc o; c16_b_dec := c16_o_dec o;
  c16_b_addeq := fun n p => c16_o_pluseq o p n;
  c16_b_sub := c16_o_diff o;
  c16_b_eq := c16_o_eq o;
  c16_b_deref := c16_o_star o |}.
(* value transformation f( *it ) and iterator transformation g(it) over an arbitrary underlying iterator *)
Definition c16_tr_over {P V W} (o : c16_ops P V) (f : V -> W) : c16_ops P W := c16_nf_ops (c16_base_of_ops o) (fun p => f (c16_o_star o p)).
Definition c16_itr_over {P V W} (o : c16_ops P V) (g : P -> W) : c16_ops P W := c16_nf_ops (c16_base_of_ops o) g.
(* sparseRange(range) = iteratorTransformedRangeView(range, it -> ( *it, it.index() )) *)
Definition c16_sparse_over {P V} (o : c16_ops P V) (index : P -> Z) : c16_ops P (V * Z) := c16_itr_over o (fun p => (c16_o_star o p, index p)).

(* IteratorRange<Iterator>: stores (_begin, _end) and hands them back *)
Definition c16_iterrange {P} (b e : P) : P * P := (b, e).
Definition c16_iterrange_begin {P} (r : P * P) : P := fst r.
Definition c16_iterrange_end {P} (r : P * P) : P := snd r.
Definition c16_range_for {P V} (o : c16_ops P V) (fuel : nat) (r : P * P) : c16_res (list V) :=
  c16_range_loop o fuel (c16_iterrange_begin r) (c16_iterrange_end r) [].

(* StaticIntegralRange<T,to,from>: operator[](size_type i) is from + static_cast<value_type>(i); the integral_constant overload the same at
   compile time; size() = static_cast<size_type>(to) - static_cast<size_type>(from) *)
Definition c16_sirange_at (t : c16_ity) (from i : Z) : Z := c16_norm t (from + c16_norm t i).
Definition c16_sirange_size (t : c16_ity) (from to : Z) : Z := c16_irange_size t from to.

(* ArrayList::begin() / end(): ArrayListIterator( *this, start_ ) and ( *this, start_ + size_ ) *)
Definition c16_alist_begin (start : Z) : Z := c16_wrap 64 start.
Definition c16_alist_end (start size : Z) : Z := c16_wrap 64 (start + size).

(* std::swap of two iterators (three moves); a moved-from iterator is a copy for all the classes here (trivially copyable members) *)
Definition c16_swap {P} (x y : P) : P * P := let tmp := c16_copy x in (c16_copy y, tmp).

(* ---- dimension audit 2 (mutants/C16/API_COVERAGE.md, "Dimension audit 2") *)
(* kind A -- PRE-EXISTING STATE OF THE TARGET.  None of the iterator / range classes declares operator=: the implicitly defined copy / move
   assignment overwrites EVERY data member of the target, and a converting assignment `K = M` is `K tmp(M); target = tmp`. *)
Definition c16_assign_over {P} (target source : P) : P := c16_copy source.
(* DenseIterator / GenericIterator: container_ = other.container_; position_ = other.position_ *)
Definition c16_tag_assign_over {P} (target source : Z * P) : Z * P := (fst source, snd source).
Definition c16_tag_convert_assign_over {P} (target source : Z * P) : Z * P := c16_tag_assign_over target (c16_convert source).
(* IndexedIterator<Iter>: Iter::operator=(other); index_ = other.index_ *)
Definition c16_idx_assign_over {P} (target source : P * Z) : P * Z := (c16_assign_over (fst target) (fst source), snd source).
(* TransformedRangeIterator: it_ = other.it_; f_ = other.f_ (f_ = address of the function object of the view that made the iterator) *)
Definition c16_tri_assign_over {P} (target source : P * Z) : P * Z := (fst source, snd source).
Definition c16_tri_star {P V W} (o : c16_ops P V) (fs : Z -> V -> W) (x : P * Z) : W := fs (snd x) (c16_o_star o (fst x)).
(* ranges: TransformedRangeView = (rawRange_, f_), IntegralRange = (from_, to_), IteratorRange = (begin_, end_): both members overwritten *)
Definition c16_range_assign_over {R F} (target source : R * F) : R * F := (fst source, snd source).
(* StaticIntegralRange<T,to,from>::operator IntegralRange<T>() is `return {from, to}` *)
Definition c16_sir_to_ir (from to : Z) : Z * Z := (from, to).
(* kind B -- ASYMMETRIC CONFIGURATION: two IndexedIterators with DIFFERENT indices, an IndexedIterator against its plain base iterator
   (derived-to-base conversion): the inherited operators of Iter see the base part only *)
Definition c16_idx_vs_base_eq {P V} (o : c16_ops P V) (x : P * Z) (y : P) : bool := c16_o_eq o (fst x) y.
Definition c16_idx_vs_base_diff {P V} (o : c16_ops P V) (x : P * Z) (y : P) : Z := c16_o_diff o (fst x) y.
