(* C16 -- proofs: facade derivations obey the laws; instances discharge the primitive laws. *)
From Coq Require Import List ZArith Bool Lia.
From DuneV Require Import Params_gen C16_Model C16_Spec.
Import ListNotations.
Local Open Scope Z_scope.

(* ------------------------------------------------------------------ boolean comparison helper *)
(* the operator tables come from Params_gen.v: unfold them to the concrete tokens of the current source *)
Ltac c16_params :=
  cbv beta iota delta [c16_cmp_code c16_neg_if
    c16_param_ra_lt_conv c16_param_ra_lt_else c16_param_ra_le_conv c16_param_ra_le_else c16_param_ra_gt_conv c16_param_ra_gt_else
    c16_param_ra_ge_conv c16_param_ra_ge_else c16_param_ra_diff_conv_negated c16_param_ra_diff_else_negated
    c16_param_nf_lt c16_param_nf_le c16_param_nf_gt c16_param_nf_ge c16_param_ir_lt c16_param_ir_le c16_param_ir_gt c16_param_ir_ge
    c16_param_dense_before_begin c16_param_dense_before_end_offset] in *.
Ltac zb :=
  c16_params;
  repeat match goal with
  | |- context [?x <? ?y] => destruct (Z.ltb_spec x y)
  | |- context [?x <=? ?y] => destruct (Z.leb_spec x y)
  | |- context [?x =? ?y] => destruct (Z.eqb_spec x y)
  | H : context [?x <? ?y] |- _ => destruct (Z.ltb_spec x y)
  | H : context [?x <=? ?y] |- _ => destruct (Z.leb_spec x y)
  | H : context [?x =? ?y] |- _ => destruct (Z.eqb_spec x y)
  end; cbn [negb andb orb] in *; try reflexivity; try lia; try congruence.

(* ------------------------------------------------------------------ machine integers *)
Lemma c16_pow_half : forall w, 0 < w -> 2 ^ w = 2 * 2 ^ (w - 1).
Proof. intros w H. replace w with (Z.succ (w - 1)) at 1 by lia. rewrite Z.pow_succ_r by lia. reflexivity. Qed.

Lemma c16_pow_pos : forall w, 0 <= w -> 0 < 2 ^ w.
Proof. intros. apply Z.pow_pos_nonneg; lia. Qed.

Lemma c16_wrap_small : forall w z, 0 <= w -> 0 <= z < 2 ^ w -> c16_wrap w z = z.
Proof. intros. unfold c16_wrap. apply Z.mod_small. lia. Qed.

Lemma c16_wrap_eq : forall w x y k, 0 <= w -> x = y + k * 2 ^ w -> 0 <= y < 2 ^ w -> c16_wrap w x = y.
Proof. intros w x y k Hw -> Hy. unfold c16_wrap. rewrite Z_mod_plus_full. apply Z.mod_small. lia. Qed.

Lemma c16_sext_small : forall w z, 0 < w -> - 2 ^ (w - 1) <= z < 2 ^ (w - 1) -> c16_sext w z = z.
Proof.
  intros w z Hw Hz. unfold c16_sext. pose proof (c16_pow_half w Hw) as Hh.
  pose proof (c16_pow_pos (w - 1) ltac:(lia)) as Hp.
  destruct (Z_lt_le_dec z 0).
  - assert (E : z mod 2 ^ w = z + 2 ^ w).
    { symmetry. apply Z.mod_unique with (q := -1); lia. }
    rewrite E. zb.
  - rewrite Z.mod_small by lia. zb.
Qed.

Lemma c16_sext_eq : forall w x y k, 0 < w -> x = y + k * 2 ^ w -> - 2 ^ (w - 1) <= y < 2 ^ (w - 1) -> c16_sext w x = y.
Proof.
  intros w x y k Hw -> Hy. rewrite <- (c16_sext_small w y Hw Hy) at 2.
  unfold c16_sext. rewrite Z_mod_plus_full. reflexivity.
Qed.

Lemma c16_wrap_spec : forall w z, 0 <= w -> exists k, c16_wrap w z = z + k * 2 ^ w.
Proof.
  intros w z Hw. unfold c16_wrap. exists (- (z / 2 ^ w)).
  pose proof (Z.div_mod z (2 ^ w) ltac:(pose proof (c16_pow_pos w Hw); lia)). lia.
Qed.

Lemma c16_sext_spec : forall w z, 0 < w -> exists k, c16_sext w z = z + k * 2 ^ w.
Proof.
  intros w z Hw. unfold c16_sext.
  pose proof (Z.div_mod z (2 ^ w) ltac:(pose proof (c16_pow_pos w ltac:(lia)); lia)) as E.
  destruct (z mod 2 ^ w <? 2 ^ (w - 1)).
  - exists (- (z / 2 ^ w)). lia.
  - exists (- (z / 2 ^ w) - 1). lia.
Qed.

Lemma c16_norm_id : forall t z, 0 < c16_bits t -> c16_tmin t <= z <= c16_tmax t -> c16_norm t z = z.
Proof.
  intros t z Hw. unfold c16_norm, c16_tmin, c16_tmax. destruct (c16_signed t); intros H.
  - apply c16_sext_small; lia.
  - apply c16_wrap_small; lia.
Qed.

(* ------------------------------------------------------------------ facade laws *)
Theorem c16_legacy_facade_laws :
  forall (P V : Type) (pr : c16_prims P V) (rep : Z -> P) (lo hi : Z),
    c16_prim_laws pr rep lo hi -> forall conv : bool, c16_iter_laws (c16_legacy_ops pr conv) rep lo hi.
Proof.
  intros P V pr rep lo hi (Hinc & Hdec & Hadv & Hdist & Heq & Helt) conv.
  unfold c16_iter_laws, c16_fwd_laws, c16_legacy_ops; simpl.
  repeat split; intros.
  - unfold c16_ra_eq. destruct conv; rewrite Heq by assumption; zb.
  - unfold c16_ra_ne. destruct conv; rewrite Heq by assumption; zb.
  - apply Hinc; assumption.
  - unfold c16_ra_lt. destruct conv; rewrite Hdist by assumption; zb.
  - unfold c16_ra_le. destruct conv; rewrite Hdist by assumption; zb.
  - unfold c16_ra_gt. destruct conv; rewrite Hdist by assumption; zb.
  - unfold c16_ra_ge. destruct conv; rewrite Hdist by assumption; zb.
  - unfold c16_ra_diff. destruct conv; rewrite Hdist by assumption; c16_params; lia.
  - apply Hdec; assumption.
  - apply Hadv; assumption.
  - apply Hadv; assumption.
  - apply Helt; assumption.
  - replace (a - n) with (a + - n) by lia. apply Hadv; [assumption|]. replace (a + - n) with (a - n) by lia. assumption.
  - replace (a - n) with (a + - n) by lia. apply Hadv; [assumption|]. replace (a + - n) with (a - n) by lia. assumption.
Qed.

Theorem c16_new_facade_laws :
  forall (B V W : Type) (bs : c16_base B V) (star : B -> W) (rep : Z -> B) (lo hi : Z),
    c16_base_laws bs rep lo hi -> c16_iter_laws (c16_nf_ops bs star) rep lo hi.
Proof.
  intros B V W bs star rep lo hi (Hinc & Hdec & Hadd & Hsub & Heq).
  unfold c16_iter_laws, c16_fwd_laws, c16_nf_ops; simpl.
  unfold c16_nf_diff, c16_nf_plus, c16_nf_minus, c16_nf_minuseq, c16_nf_pluseq, c16_nf_inc, c16_nf_dec.
  repeat split; intros;
    try (rewrite Hsub by assumption; zb);
    try (rewrite Heq by assumption; reflexivity);
    try (apply Hinc; assumption); try (apply Hdec; assumption); try (apply Hadd; assumption).
  all: try (rewrite Hadd by assumption; reflexivity).
  all: replace (a - n) with (a + - n) by lia; apply Hadd; [assumption|]; replace (a + - n) with (a - n) by lia; assumption.
Qed.

(* the fallbacks `derived() += 1` / `derived() -= 1` used when the base offers no ++/-- *)
Lemma c16_new_facade_inc_by_advance :
  forall (B V : Type) (bs : c16_base B V) (rep : Z -> B) (lo hi : Z),
    c16_base_laws bs rep lo hi ->
    forall a, c16_in lo hi a ->
      (c16_in lo hi (a + 1) -> c16_nf_inc_by_advance bs (rep a) = rep (a + 1)) /\
      (c16_in lo hi (a - 1) -> c16_nf_dec_by_advance bs (rep a) = rep (a - 1)).
Proof.
  intros B V bs rep lo hi (Hinc & Hdec & Hadd & Hsub & Heq) a Ha.
  unfold c16_nf_inc_by_advance, c16_nf_dec_by_advance, c16_nf_minuseq, c16_nf_pluseq. split; intros H.
  - apply Hadd; assumption.
  - replace (a - 1) with (a + - (1)) by lia. apply Hadd; [assumption|]. replace (a + - (1)) with (a - 1) by lia. assumption.
Qed.

(* ------------------------------------------------------------------ consequences of the laws *)
Section Consequences.
  Context {P V : Type} (o : c16_ops P V) (rep : Z -> P) (lo hi : Z) (L : c16_iter_laws o rep lo hi).

  Lemma c16_rep_injective : forall a b, c16_in lo hi a -> c16_in lo hi b -> rep a = rep b -> a = b.
  Proof.
    intros a b Ha Hb E. destruct L as ((Heq & _) & _).
    destruct (Heq a b Ha Hb) as (H1 & _). destruct (Heq a a Ha Ha) as (H2 & _).
    rewrite <- E in H1. rewrite H1 in H2. zb.
  Qed.

  (* ++ and -- are inverse *)
  Lemma c16_inc_dec_inverse : forall a, c16_in lo hi a ->
      (c16_in lo hi (a + 1) -> c16_o_dec o (c16_o_inc o (rep a)) = rep a) /\
      (c16_in lo hi (a - 1) -> c16_o_inc o (c16_o_dec o (rep a)) = rep a).
  Proof.
    intros a Ha. destruct L as ((_ & Hinc) & _ & Hdec & _). split; intros H.
    - rewrite Hinc by assumption. rewrite Hdec; [f_equal; lia | assumption | replace (a + 1 - 1) with a by lia; assumption].
    - rewrite Hdec by assumption. rewrite Hinc; [f_equal; lia | assumption | replace (a - 1 + 1) with a by lia; assumption].
  Qed.

  Lemma c16_iter_inc : forall n a, c16_in lo hi a -> c16_in lo hi (a + Z.of_nat n) ->
      Nat.iter n (c16_o_inc o) (rep a) = rep (a + Z.of_nat n).
  Proof.
    destruct L as ((_ & Hinc) & _).
    induction n; intros a Ha Hn.
    - simpl. f_equal. lia.
    - rewrite Nat2Z.inj_succ in *. simpl. rewrite IHn; [| assumption | unfold c16_in in *; lia].
      rewrite Hinc; [f_equal; lia | unfold c16_in in *; lia | unfold c16_in in *; replace (a + Z.of_nat n + 1) with (a + Z.succ (Z.of_nat n)) by lia; lia].
  Qed.

  Lemma c16_iter_dec : forall n a, c16_in lo hi a -> c16_in lo hi (a - Z.of_nat n) ->
      Nat.iter n (c16_o_dec o) (rep a) = rep (a - Z.of_nat n).
  Proof.
    destruct L as (_ & _ & Hdec & _).
    induction n; intros a Ha Hn.
    - simpl. f_equal. lia.
    - rewrite Nat2Z.inj_succ in *. simpl. rewrite IHn; [| assumption | unfold c16_in in *; lia].
      rewrite Hdec; [f_equal; lia | unfold c16_in in *; lia | unfold c16_in in *; lia].
  Qed.

  (* it + n  ==  n single steps (either sign)  ==  it += n ;  it - n == it -= n ;  it[n] == *(it + n) ;  (it + n) - it == n *)
  Lemma c16_plus_is_steps : forall a n, c16_in lo hi a -> c16_in lo hi (a + n) ->
      c16_o_plus o (rep a) n = c16_steps o (rep a) n /\
      c16_o_pluseq o (rep a) n = c16_steps o (rep a) n /\
      c16_o_minus o (rep a) (- n) = c16_steps o (rep a) n /\
      c16_o_minuseq o (rep a) (- n) = c16_steps o (rep a) n /\
      c16_o_index o (rep a) n = c16_o_star o (c16_o_plus o (rep a) n) /\
      c16_o_diff o (c16_o_plus o (rep a) n) (rep a) = n.
  Proof.
    intros a n Ha Hn.
    assert (S : c16_steps o (rep a) n = rep (a + n)).
    { unfold c16_steps. destruct (Z.leb_spec 0 n).
      - rewrite c16_iter_inc; rewrite ?Z2Nat.id by lia; auto.
      - rewrite c16_iter_dec; rewrite ?Z2Nat.id by lia; auto; [f_equal; lia | replace (a - - n) with (a + n) by lia; assumption]. }
    destruct L as (_ & Hcmp & _ & Hplus & Hminus).
    destruct (Hplus a n Ha Hn) as (E1 & E2 & E3).
    assert (Hn' : c16_in lo hi (a - - n)) by (replace (a - - n) with (a + n) by lia; assumption).
    destruct (Hminus a (- n) Ha Hn') as (E4 & E5).
    rewrite S, E1, E2, E3, E4, E5. replace (a - - n) with (a + n) by lia.
    repeat split; try reflexivity.
    destruct (Hcmp (a + n) a Hn Ha) as (_ & _ & _ & _ & D). rewrite D. lia.
  Qed.

  (* the six comparisons form a strict total order consistent with == and - *)
  Lemma c16_order : forall a b c, c16_in lo hi a -> c16_in lo hi b -> c16_in lo hi c ->
      let lt := c16_o_lt o in let eq := c16_o_eq o in let gt := c16_o_gt o in
      lt (rep a) (rep a) = false /\
      (lt (rep a) (rep b) = true -> lt (rep b) (rep c) = true -> lt (rep a) (rep c) = true) /\
      (lt (rep a) (rep b) = true -> lt (rep b) (rep a) = false) /\
      (* exactly one of < == > *)
      ((lt (rep a) (rep b) = true /\ eq (rep a) (rep b) = false /\ gt (rep a) (rep b) = false) \/
       (lt (rep a) (rep b) = false /\ eq (rep a) (rep b) = true /\ gt (rep a) (rep b) = false) \/
       (lt (rep a) (rep b) = false /\ eq (rep a) (rep b) = false /\ gt (rep a) (rep b) = true)) /\
      c16_o_le o (rep a) (rep b) = (lt (rep a) (rep b) || eq (rep a) (rep b)) /\
      c16_o_ge o (rep a) (rep b) = (gt (rep a) (rep b) || eq (rep a) (rep b)) /\
      gt (rep a) (rep b) = lt (rep b) (rep a) /\
      c16_o_ne o (rep a) (rep b) = negb (eq (rep a) (rep b)) /\
      (eq (rep a) (rep b) = true <-> a = b) /\
      (eq (rep a) (rep b) = true <-> c16_o_diff o (rep a) (rep b) = 0) /\
      (lt (rep a) (rep b) = true <-> c16_o_diff o (rep a) (rep b) < 0).
  Proof.
    intros a b c Ha Hb Hc. destruct L as ((Heq & _) & Hcmp & _). simpl.
    destruct (Hcmp a a Ha Ha) as (Laa & _).
    destruct (Hcmp a b Ha Hb) as (Lab & LEab & Gab & GEab & Dab).
    destruct (Hcmp b a Hb Ha) as (Lba & _).
    destruct (Hcmp b c Hb Hc) as (Lbc & _).
    destruct (Hcmp a c Ha Hc) as (Lac & _).
    destruct (Heq a b Ha Hb) as (Eab & Nab).
    rewrite Laa, Lab, LEab, Gab, GEab, Dab, Lba, Lbc, Lac, Eab, Nab.
    repeat split; intros; zb.
  Qed.
End Consequences.

(* ------------------------------------------------------------------ instances *)
Definition c16_big : Z := 2 ^ 61.

(* DenseIterator: positions -2^61 .. 2^61 around begin, which includes the wrapped one-before-begin size_t(-1) *)
Theorem c16_dense_prim_laws : forall xs, c16_prim_laws (c16_dense_prims xs) c16_dense_rep (- c16_big) c16_big.
Proof.
  intros xs. unfold c16_prim_laws, c16_dense_prims, c16_dense_rep, c16_in, c16_big; simpl.
  assert (H64 : 2 ^ 64 = 8 * 2 ^ 61) by reflexivity.
  assert (H63 : 2 ^ (64 - 1) = 4 * 2 ^ 61) by reflexivity.
  assert (Hp : 0 < 2 ^ 61) by reflexivity.
  repeat split; intros.
  - unfold c16_wrap. rewrite Zplus_mod_idemp_l. reflexivity.
  - unfold c16_wrap. rewrite Zminus_mod_idemp_l. reflexivity.
  - unfold c16_wrap. rewrite Zplus_mod_idemp_l. reflexivity.
  - destruct (c16_wrap_spec 64 a ltac:(lia)) as (ka & Ea). destruct (c16_wrap_spec 64 b ltac:(lia)) as (kb & Eb).
    rewrite (c16_sext_eq 64 (c16_wrap 64 b) b kb) by (try assumption; lia).
    rewrite (c16_sext_eq 64 (c16_wrap 64 a) a ka) by (try assumption; lia). reflexivity.
  - destruct (Z.eqb_spec a b) as [->|Hne]; [apply Z.eqb_refl|].
    apply Z.eqb_neq. intros E. apply Hne.
    assert (Sa : c16_sext 64 (c16_wrap 64 a) = a).
    { destruct (c16_wrap_spec 64 a ltac:(lia)) as (ka & Ea). apply (c16_sext_eq 64 _ a ka); try assumption; lia. }
    assert (Sb : c16_sext 64 (c16_wrap 64 b) = b).
    { destruct (c16_wrap_spec 64 b ltac:(lia)) as (kb & Eb). apply (c16_sext_eq 64 _ b kb); try assumption; lia. }
    rewrite <- Sa, <- Sb, E. reflexivity.
  - unfold c16_wrap. rewrite Zplus_mod_idemp_l. reflexivity.
Qed.

(* the distance of two such positions fits into ptrdiff_t, so the cast-and-subtract of distanceTo does not overflow *)
Lemma c16_dense_dist_representable : forall xs a b, c16_in (- c16_big) c16_big a -> c16_in (- c16_big) c16_big b ->
    - 2 ^ 63 <= c16_p_dist (c16_dense_prims xs) (c16_dense_rep a) (c16_dense_rep b) < 2 ^ 63.
Proof.
  intros xs a b Ha Hb. destruct (c16_dense_prim_laws xs) as (_ & _ & _ & Hd & _).
  rewrite Hd by assumption. unfold c16_in, c16_big in *.
  assert (2 ^ 63 = 4 * 2 ^ 61) by reflexivity. lia.
Qed.

Theorem c16_generic_prim_laws : forall xs lo hi, c16_prim_laws (c16_generic_prims xs) (fun z => z) lo hi.
Proof. intros. unfold c16_prim_laws, c16_generic_prims; simpl. repeat split; intros; reflexivity. Qed.

(* ArrayList iterators: absolute slot start + i in a size_t *)
Theorem c16_alist_prim_laws : forall start size st,
    c16_prim_laws (c16_alist_prims start size st) (c16_alist_rep start) (- c16_big) c16_big.
Proof.
  intros start size st. unfold c16_prim_laws, c16_alist_prims, c16_alist_rep, c16_in, c16_big; simpl.
  assert (H64 : 2 ^ 64 = 8 * 2 ^ 61) by reflexivity.
  assert (H63 : 2 ^ (64 - 1) = 4 * 2 ^ 61) by reflexivity.
  assert (Hp : 0 < 2 ^ 61) by reflexivity.
  repeat split; intros.
  - unfold c16_wrap. rewrite Zplus_mod_idemp_l. f_equal. lia.
  - unfold c16_wrap. rewrite Zminus_mod_idemp_l. f_equal. lia.
  - unfold c16_wrap. rewrite Zplus_mod_idemp_l. f_equal. lia.
  - destruct (c16_wrap_spec 64 (start + a) ltac:(lia)) as (ka & Ea). destruct (c16_wrap_spec 64 (start + b) ltac:(lia)) as (kb & Eb).
    destruct (c16_wrap_spec 64 (c16_wrap 64 (start + b) - c16_wrap 64 (start + a)) ltac:(lia)) as (kc & Ec).
    apply (c16_sext_eq 64 _ (b - a) (kb - ka + kc)); try lia.
  - destruct (Z.eqb_spec a b) as [->|Hne]; [apply Z.eqb_refl|].
    apply Z.eqb_neq. intros E. apply Hne.
    destruct (c16_wrap_spec 64 (start + a) ltac:(lia)) as (ka & Ea). destruct (c16_wrap_spec 64 (start + b) ltac:(lia)) as (kb & Eb).
    assert (a - b = (kb - ka) * 2 ^ 64) by lia.
    assert (kb - ka = 0) by nia. lia.
  - assert (E : c16_wrap 64 (c16_wrap 64 n + c16_wrap 64 (start + a)) = c16_wrap 64 (start + (a + n))).
    { unfold c16_wrap. rewrite <- Zplus_mod. f_equal. lia. }
    rewrite E. reflexivity.
Qed.

(* IntegralRangeIterator<T> after fixes/C16-1.patch: positions lo..hi around `from`, all values inside T,
   and the span representable in difference_type *)
Theorem c16_ir_iter_laws : forall t from lo hi,
    0 < c16_bits t -> lo <= 0 <= hi ->
    c16_tmin t <= from + lo -> from + hi <= c16_tmax t -> hi - lo < 2 ^ (c16_bits t - 1) ->
    c16_iter_laws (c16_ir_ops t true) (c16_ir_rep t from) lo hi.
Proof.
  intros t from lo hi Hw H0 Hlo Hhi Hspan.
  assert (R : forall a, c16_in lo hi a -> c16_ir_rep t from a = from + a).
  { intros a Ha. unfold c16_ir_rep. apply c16_norm_id; unfold c16_in in *; lia. }
  unfold c16_iter_laws, c16_fwd_laws, c16_ir_ops; simpl.
  repeat split; intros;
    repeat match goal with H : c16_in lo hi _ |- _ => rewrite (R _ H); try rewrite (R _ H) in *; revert H end; intros;
    try (zb; fail).
  - rewrite c16_norm_id; [lia | assumption | unfold c16_in in *; lia].
  - (* difference *)
    destruct (c16_sext_spec (c16_bits t) (from + a) Hw) as (ka & Ea).
    destruct (c16_sext_spec (c16_bits t) (from + b) Hw) as (kb & Eb).
    apply (c16_sext_eq (c16_bits t) _ (a - b) (ka - kb)); try assumption; unfold c16_in in *; lia.
  - rewrite c16_norm_id; [lia | assumption | unfold c16_in in *; lia].
  - rewrite c16_norm_id; [lia | assumption | unfold c16_in in *; lia].
  - rewrite c16_norm_id; [lia | assumption | unfold c16_in in *; lia].
  - rewrite c16_norm_id; [f_equal; lia | assumption | unfold c16_in in *; lia].
  - rewrite c16_norm_id; [lia | assumption | unfold c16_in in *; lia].
  - rewrite c16_norm_id; [lia | assumption | unfold c16_in in *; lia].
Qed.

(* the code as written: == != ++ are fine (enough for range-based for), but < is reflexive *)
Lemma c16_ir_fwd_laws : forall t fixed from lo hi,
    0 < c16_bits t -> c16_tmin t <= from + lo -> from + hi <= c16_tmax t ->
    c16_fwd_laws (c16_ir_ops t fixed) (c16_ir_rep t from) lo hi.
Proof.
  intros t fixed from lo hi Hw Hlo Hhi.
  assert (R : forall a, c16_in lo hi a -> c16_ir_rep t from a = from + a).
  { intros a Ha. unfold c16_ir_rep. apply c16_norm_id; unfold c16_in in *; lia. }
  unfold c16_fwd_laws, c16_ir_ops; simpl. repeat split; intros.
  - rewrite (R _ H), (R _ H0). zb.
  - rewrite (R _ H), (R _ H0). zb.
  - rewrite (R _ H), (R _ H0). rewrite c16_norm_id; [lia | assumption | unfold c16_in in *; lia].
Qed.

Theorem c16_ir_aswritten_refuted :
  forall t v, c16_o_lt (c16_ir_ops t false) v v = true /\ c16_o_gt (c16_ir_ops t false) v v = true.
Proof. intros. unfold c16_ir_ops; simpl. rewrite Z.leb_refl. split; reflexivity. Qed.

Theorem c16_ir_aswritten_not_strict :
  exists t from, ~ c16_iter_laws (c16_ir_ops t false) (c16_ir_rep t from) 0 1.
Proof.
  exists {| c16_bits := 32; c16_signed := true |}, 5. intros (_ & Hcmp & _).
  destruct (Hcmp 0 0 ltac:(unfold c16_in; lia) ltac:(unfold c16_in; lia)) as (H & _).
  vm_compute in H. discriminate.
Qed.

(* ------------------------------------------------------------------ range-based for *)
Lemma c16_range_loop_correct :
  forall (P V : Type) (o : c16_ops P V) (rep : Z -> P) (lo hi : Z), c16_fwd_laws o rep lo hi ->
  forall (n : nat) (a : Z) (fuel : nat) (acc : list V),
    c16_in lo hi a -> c16_in lo hi (a + Z.of_nat n) -> (n < fuel)%nat ->
    c16_range_loop o fuel (rep a) (rep (a + Z.of_nat n)) acc =
      C16Ok (acc ++ map (fun k => c16_o_star o (rep (a + Z.of_nat k))) (seq 0 n)).
Proof.
  intros P V o rep lo hi (Heq & Hinc). induction n; intros a fuel acc Ha Hb Hf.
  - destruct fuel; [lia|]. cbn [c16_range_loop Z.of_nat seq map]. replace (a + 0) with a by lia.
    destruct (Heq a a Ha Ha) as (_ & Hne). rewrite Hne, Z.eqb_refl. simpl. rewrite app_nil_r. reflexivity.
  - destruct fuel; [lia|]. cbn [c16_range_loop].
    destruct (Heq a (a + Z.of_nat (S n)) Ha Hb) as (_ & Hne). rewrite Hne.
    destruct (Z.eqb_spec a (a + Z.of_nat (S n))); [lia|]. simpl negb. cbv iota.
    assert (Ha1 : c16_in lo hi (a + 1)) by (unfold c16_in in *; lia).
    rewrite Hinc by assumption.
    replace (a + Z.of_nat (S n)) with (a + 1 + Z.of_nat n) by lia.
    rewrite IHn; [| assumption | replace (a + 1 + Z.of_nat n) with (a + Z.of_nat (S n)) by lia; assumption | lia].
    f_equal. rewrite <- app_assoc. f_equal. cbn [seq map app Z.of_nat]. rewrite Z.add_0_r. f_equal.
    rewrite <- seq_shift, map_map. apply map_ext. intros k. f_equal. f_equal. lia.
Qed.

(* IntegralRange<T>(from,to) enumerates from .. to-1 (also with the comparison defect: the loop only uses != and ++) *)
Theorem c16_irange_elems_correct : forall t fixed from to fuel,
    0 < c16_bits t -> c16_tmin t <= from -> from <= to -> to <= c16_tmax t -> (Z.to_nat (to - from) < fuel)%nat ->
    c16_irange_elems t fixed fuel from to = C16Ok (map Some (c16_spec_irange from to)).
Proof.
  intros t fixed from to fuel Hw Hlo Hle Hhi Hf. unfold c16_irange_elems.
  pose proof (c16_ir_fwd_laws t fixed from 0 (to - from) Hw ltac:(lia) ltac:(lia)) as L.
  pose proof (c16_range_loop_correct _ _ _ _ _ _ L (Z.to_nat (to - from)) 0 fuel [] ltac:(unfold c16_in; lia)
                ltac:(unfold c16_in; rewrite Z2Nat.id by lia; lia) Hf) as E.
  assert (R : forall a, c16_in 0 (to - from) a -> c16_ir_rep t from a = from + a).
  { intros a Ha. unfold c16_ir_rep. apply c16_norm_id; unfold c16_in in *; lia. }
  rewrite R in E by (unfold c16_in; lia). rewrite R in E by (unfold c16_in; rewrite Z2Nat.id by lia; lia).
  rewrite Z2Nat.id in E by lia. replace (from + 0) with from in E by lia. replace (from + (0 + (to - from))) with to in E by lia.
  rewrite E. rewrite app_nil_l. f_equal. unfold c16_spec_irange. rewrite map_map.
  apply map_ext_in. intros k Hk. apply in_seq in Hk.
  rewrite R by (unfold c16_in; lia). unfold c16_ir_ops; cbn [c16_o_star]. f_equal; lia.
Qed.

Theorem c16_irange_queries_correct : forall t from to,
    0 < c16_bits t -> c16_tmin t <= from -> from <= to -> to <= c16_tmax t ->
    c16_irange_size t from to = to - from /\
    (c16_irange_empty from to = true <-> c16_spec_irange from to = []) /\
    (forall i, 0 <= i < to - from -> Some (c16_irange_at t from i) = nth_error (c16_spec_irange from to) (Z.to_nat i)) /\
    (forall x, c16_irange_contains from to x = true <-> In x (c16_spec_irange from to)) /\
    c16_sirange_seq t from to = c16_spec_irange from to.
Proof.
  intros t from to Hw Hlo Hle Hhi.
  assert (Hpw : 0 < 2 ^ c16_bits t) by (apply c16_pow_pos; lia).
  assert (Hhalf := c16_pow_half (c16_bits t) Hw).
  assert (Hph : 0 < 2 ^ (c16_bits t - 1)) by (apply c16_pow_pos; lia).
  repeat split.
  - unfold c16_irange_size.
    destruct (c16_wrap_spec (c16_bits t) to ltac:(lia)) as (k1 & E1).
    destruct (c16_wrap_spec (c16_bits t) from ltac:(lia)) as (k2 & E2).
    apply (c16_wrap_eq _ _ (to - from) (k1 - k2)); try lia.
    unfold c16_tmin, c16_tmax in *. destruct (c16_signed t); lia.
  - unfold c16_irange_empty, c16_spec_irange. intros H. apply Z.eqb_eq in H. subst. rewrite Z.sub_diag. reflexivity.
  - unfold c16_irange_empty, c16_spec_irange. intros H. apply Z.eqb_eq.
    destruct (Z.to_nat (to - from)) eqn:E; [lia | simpl in H; discriminate].
  - intros i Hi. unfold c16_irange_at, c16_spec_irange.
    rewrite c16_norm_id by (try assumption; lia).
    rewrite nth_error_map. rewrite (nth_error_nth' _ 0%nat) by (rewrite seq_length; lia).
    rewrite seq_nth by lia. simpl. rewrite Z2Nat.id by lia. reflexivity.
  - unfold c16_irange_contains, c16_spec_irange. intros H. apply andb_prop in H. destruct H as (H1 & H2).
    apply Z.leb_le in H1. apply Z.ltb_lt in H2. apply in_map_iff. exists (Z.to_nat (x - from)). split; [lia|].
    apply in_seq. lia.
  - unfold c16_irange_contains, c16_spec_irange. intros H. apply in_map_iff in H. destruct H as (k & <- & Hk).
    apply in_seq in Hk. apply andb_true_intro. split; [apply Z.leb_le | apply Z.ltb_lt]; lia.
  - unfold c16_sirange_seq, c16_spec_irange. apply map_ext_in. intros k Hk. apply in_seq in Hk.
    rewrite c16_norm_id by (try assumption; lia). lia.
Qed.
