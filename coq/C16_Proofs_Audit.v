(* C16 -- proofs, part 3 (API-coverage audit): alternative protocols of the new facade, ContainerWrapperIterator,
   container-provided iterators, range utilities, integer-sequence helpers. *)
From Coq Require Import List ZArith Bool Lia Sorted Permutation.
From DuneV Require Import C16_Model C16_Spec C16_Proofs C16_Proofs_Ranges.
Import ListNotations.
Local Open Scope Z_scope.

(* derived class without baseIterator(): ++ / -- through `+= 1` / `-= 1` *)
Theorem c16_new_facade_manual_laws :
  forall (B V W : Type) (bs : c16_base B V) (star : B -> W) (rep : Z -> B) (lo hi : Z),
    c16_base_laws bs rep lo hi -> c16_iter_laws (c16_nf_ops_manual bs star) rep lo hi.
Proof.
  intros B V W bs star rep lo hi H.
  pose proof (c16_new_facade_laws B V W bs star rep lo hi H) as ((Heq & Hinc) & Hcmp & Hdec & Hplus & Hminus).
  pose proof (c16_new_facade_inc_by_advance B V bs rep lo hi H) as Hadv.
  unfold c16_iter_laws, c16_fwd_laws, c16_nf_ops_manual; cbn [c16_o_eq c16_o_ne c16_o_lt c16_o_le c16_o_gt c16_o_ge c16_o_diff c16_o_inc c16_o_dec
    c16_o_plus c16_o_minus c16_o_pluseq c16_o_minuseq c16_o_index c16_o_star].
  repeat split; intros; try (apply Heq; assumption); try (apply Hcmp; assumption); try (apply Hplus; assumption); try (apply Hminus; assumption).
  all: try (apply (Hadv a); assumption).
Qed.

(* ContainerWrapperIterator: a bidirectional iterator; ==, !=, ++, -- on positions incl. the wrapped one-before-begin *)
Theorem c16_cw_bidirectional_laws : forall xs conv,
    c16_fwd_laws (c16_legacy_ops (c16_cw_prims xs) conv) c16_dense_rep (- c16_big) c16_big /\
    (forall a, c16_in (- c16_big) c16_big a -> c16_in (- c16_big) c16_big (a - 1) ->
       c16_o_dec (c16_legacy_ops (c16_cw_prims xs) conv) (c16_dense_rep a) = c16_dense_rep (a - 1)) /\
    (forall a b, c16_in (- c16_big) c16_big a -> c16_in (- c16_big) c16_big b ->
       c16_bi_eq (c16_cw_prims xs) conv (c16_dense_rep a) (c16_dense_rep b) = (a =? b) /\
       c16_bi_ne (c16_cw_prims xs) conv (c16_dense_rep a) (c16_dense_rep b) = negb (a =? b)).
Proof.
  intros xs conv. destruct (c16_dense_prim_laws xs) as (Hinc & Hdec & _ & _ & Heq & _).
  pose proof (c16_legacy_forward_laws _ _ (c16_cw_prims xs) c16_dense_rep (- c16_big) c16_big Hinc Heq conv) as (F & E).
  split; [exact F | split; [| exact E]]. intros a Ha Hb. apply Hdec; assumption.
Qed.

(* iterators handed out by DenseVector / DenseMatrix *)
Theorem c16_dense_container_iterators : forall n i, 0 <= n < 2 ^ 63 -> 0 <= i < 2 ^ 64 ->
    c16_dense_begin = c16_dense_rep 0 /\ c16_dense_end n = c16_dense_rep n /\
    c16_dense_before_end n = c16_dense_rep (n - 1) /\ c16_dense_before_begin = c16_dense_rep (-1) /\
    c16_dense_find n i = c16_dense_rep (Z.min i n).
Proof.
  intros n i Hn Hi. unfold c16_dense_begin, c16_dense_end, c16_dense_before_end, c16_dense_before_begin, c16_dense_find, c16_dense_rep.
  assert (2 ^ 64 = 2 * 2 ^ 63) by reflexivity. assert (0 < 2 ^ 63) by reflexivity.
  repeat split; try reflexivity.
  rewrite (c16_wrap_small 64 i) by lia. rewrite (c16_wrap_small 64 (Z.min i n)) by lia. reflexivity.
Qed.

(* range utilities *)
Lemma c16_max_value_spec : forall xs x, In (c16_max_value x xs) (x :: xs) /\ (forall y, In y (x :: xs) -> y <= c16_max_value x xs).
Proof.
  unfold c16_max_value. induction xs as [|e xs IH]; intros x; simpl.
  - split; [left; reflexivity | intros y [E|[]]; lia].
  - destruct (IH (if x <? e then e else x)) as (I & U). split.
    + destruct I as [I|I]; [| right; right; exact I]. rewrite <- I. destruct (x <? e); [right; left | left]; reflexivity.
    + intros y Hy. pose proof (U (if x <? e then e else x) (or_introl eq_refl)) as U0. destruct Hy as [E|[E|Hy]].
      * rewrite <- E. destruct (Z.ltb_spec x e); lia.
      * rewrite <- E. destruct (Z.ltb_spec x e); lia.
      * apply U. right. exact Hy.
Qed.
Lemma c16_min_value_spec : forall xs x, In (c16_min_value x xs) (x :: xs) /\ (forall y, In y (x :: xs) -> c16_min_value x xs <= y).
Proof.
  unfold c16_min_value. induction xs as [|e xs IH]; intros x; simpl.
  - split; [left; reflexivity | intros y [E|[]]; lia].
  - destruct (IH (if e <? x then e else x)) as (I & U). split.
    + destruct I as [I|I]; [| right; right; exact I]. rewrite <- I. destruct (e <? x); [right; left | left]; reflexivity.
    + intros y Hy. pose proof (U (if e <? x then e else x) (or_introl eq_refl)) as U0. destruct Hy as [E|[E|Hy]].
      * rewrite <- E. destruct (Z.ltb_spec e x); lia.
      * rewrite <- E. destruct (Z.ltb_spec e x); lia.
      * apply U. right. exact Hy.
Qed.
Lemma c16_any_all_spec : forall xs, c16_any_true xs = existsb (fun b => b) xs /\ c16_all_true xs = forallb (fun b => b) xs.
Proof.
  intros xs. unfold c16_any_true, c16_all_true.
  assert (A : forall l a, fold_left (fun b e => b || e) l a = a || existsb (fun b => b) l).
  { induction l; intros; simpl; [rewrite orb_false_r; reflexivity | rewrite IHl, orb_assoc; reflexivity]. }
  assert (B : forall l a, fold_left (fun b e => b && e) l a = a && forallb (fun b => b) l).
  { induction l; intros; simpl; [rewrite andb_true_r; reflexivity | rewrite IHl, andb_assoc; reflexivity]. }
  rewrite A, B. split; reflexivity.
Qed.
Theorem c16_range_utilities_correct : forall x xs bs,
    (In (c16_max_value x xs) (x :: xs) /\ forall y, In y (x :: xs) -> y <= c16_max_value x xs) /\
    (In (c16_min_value x xs) (x :: xs) /\ forall y, In y (x :: xs) -> c16_min_value x xs <= y) /\
    c16_any_true bs = existsb (fun b => b) bs /\ c16_all_true bs = forallb (fun b => b) bs.
Proof. intros. split; [apply c16_max_value_spec | split; [apply c16_min_value_spec | apply c16_any_all_spec]]. Qed.

(* integer-sequence helpers *)
Lemma c16_iseq_contains_in : forall s v, c16_iseq_contains s v = true <-> In v s.
Proof.
  induction s as [|i s IH]; intros v; simpl; [split; [discriminate | tauto]|].
  rewrite orb_true_iff, IH, Z.eqb_eq. tauto.
Qed.
Lemma c16_insert_perm : forall lt x l, Permutation (c16_insert lt x l) (x :: l).
Proof.
  induction l as [|y r IH]; simpl; [apply Permutation_refl|].
  destruct (lt y x); [| apply Permutation_refl].
  eapply perm_trans; [apply perm_skip, IH | apply perm_swap].
Qed.
Lemma c16_insert_sorted_lt : forall x l, StronglySorted Z.le l -> StronglySorted Z.le (c16_insert Z.ltb x l).
Proof.
  induction l as [|y r IH]; intros S; simpl; [repeat constructor|].
  inversion S as [|? ? Sr Hy]; subst. destruct (Z.ltb_spec y x).
  - constructor; [apply IH; exact Sr|]. apply Forall_forall. intros z Hz.
    apply (Permutation_in _ (c16_insert_perm Z.ltb x r)) in Hz. destruct Hz as [<-|Hz]; [lia|].
    rewrite Forall_forall in Hy. apply Hy, Hz.
  - constructor; [exact S|]. constructor; [lia|]. rewrite Forall_forall in *. intros z Hz. specialize (Hy z Hz). lia.
Qed.
Lemma c16_insert_sorted_gt : forall x l, StronglySorted Z.ge l -> StronglySorted Z.ge (c16_insert Z.gtb x l).
Proof.
  induction l as [|y r IH]; intros S; simpl; [repeat constructor|].
  inversion S as [|? ? Sr Hy]; subst. rewrite Z.gtb_ltb. destruct (Z.ltb_spec x y).
  - constructor; [apply IH; exact Sr|]. apply Forall_forall. intros z Hz.
    apply (Permutation_in _ (c16_insert_perm Z.gtb x r)) in Hz. destruct Hz as [<-|Hz]; [lia|].
    rewrite Forall_forall in Hy. apply Hy, Hz.
  - constructor; [exact S|]. constructor; [lia|]. rewrite Forall_forall in *. intros z Hz. specialize (Hy z Hz). lia.
Qed.
Theorem c16_integer_sequence_helpers : forall s j v,
    (c16_iseq_contains s v = true <-> In v s) /\
    c16_iseq_difference_dec s j = filter (fun i => negb (c16_iseq_contains j i)) s /\
    (c16_iseq_equal s j = true <-> s = j) /\
    (forall f, c16_iseq_filter f s = filter f s) /\
    Permutation (c16_iseq_sorted Z.ltb s) s /\ StronglySorted Z.le (c16_iseq_sorted Z.ltb s) /\
    Permutation (c16_iseq_sorted Z.gtb s) s /\ StronglySorted Z.ge (c16_iseq_sorted Z.gtb s).
Proof.
  intros s j v. repeat split.
  - apply c16_iseq_contains_in.
  - apply c16_iseq_contains_in.
  - assert (D : forall s, c16_iseq_difference s j = filter (fun i => negb (c16_iseq_contains j i)) s).
    { induction s0 as [|i r IH]; simpl; [reflexivity|]. rewrite IH. reflexivity. }
    unfold c16_iseq_difference_dec. destruct s as [|i r]; [reflexivity|]. destruct j as [|j0 jr]; [| apply D].
    simpl. f_equal. clear. induction r; simpl; [reflexivity | f_equal; exact IHr].
  - revert j. induction s as [|x s IH]; intros [|y j]; simpl; intros H; try discriminate; [reflexivity|].
    apply andb_prop in H. destruct H as (H1 & H2). apply Z.eqb_eq in H1. f_equal; [exact H1 | apply IH, H2].
  - intros <-. induction s as [|x s IH]; simpl; [reflexivity | rewrite Z.eqb_refl, IH; reflexivity].
  - intros f. induction s as [|x s IH]; simpl; [reflexivity | rewrite IH; reflexivity].
  - unfold c16_iseq_sorted. induction s as [|x s IH]; simpl; [constructor|].
    eapply perm_trans; [apply c16_insert_perm | apply perm_skip, IH].
  - unfold c16_iseq_sorted. induction s as [|x s IH]; simpl; [constructor | apply c16_insert_sorted_lt, IH].
  - unfold c16_iseq_sorted. induction s as [|x s IH]; simpl; [constructor|].
    eapply perm_trans; [apply c16_insert_perm | apply perm_skip, IH].
  - unfold c16_iseq_sorted. induction s as [|x s IH]; simpl; [constructor | apply c16_insert_sorted_gt, IH].
Qed.
