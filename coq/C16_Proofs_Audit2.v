(* C16 -- proofs, part 6 (dimension audit 2): assignment onto a target with pre-existing state, asymmetric indices of IndexedIterator *)
From Coq Require Import List ZArith Bool Lia.
From DuneV Require Import C16_Model C16_Spec C16_Proofs.
Import ListNotations.
Local Open Scope Z_scope.

(* A: whatever the target held before (another container, position, index, function, range), after the assignment it IS the source *)
Theorem c16_assignment_overwrites_target :
  (forall (P : Type) (t s : P), c16_assign_over t s = s) /\
  (forall (P : Type) (t s : Z * P), c16_tag_assign_over t s = s /\ c16_tag_convert_assign_over t s = s) /\
  (forall (P : Type) (t s : P * Z), c16_idx_assign_over t s = s /\ c16_tri_assign_over t s = s) /\
  (forall (R F : Type) (t s : R * F), c16_range_assign_over t s = s) /\
  (forall (P V W : Type) (o : c16_ops P V) (fs : Z -> V -> W) (t s : P * Z),
      c16_tri_star o fs (c16_tri_assign_over t s) = fs (snd s) (c16_o_star o (fst s))).
Proof.
  repeat split; intros; try destruct s; try reflexivity.
Qed.

(* ... hence every observation made through ANY operator table is the observation of the source, for any two previous targets *)
Theorem c16_assignment_target_independent :
  forall (P V : Type) (o : c16_ops P V) (t1 t2 s x : P * Z),
    c16_idx_assign_over t1 s = c16_idx_assign_over t2 s /\
    c16_o_eq (c16_idx_ops o) (c16_idx_assign_over t1 s) x = c16_o_eq (c16_idx_ops o) s x /\
    c16_o_diff (c16_idx_ops o) (c16_idx_assign_over t1 s) x = c16_o_diff (c16_idx_ops o) s x /\
    c16_o_star (c16_idx_ops o) (c16_idx_assign_over t1 s) = c16_o_star (c16_idx_ops o) s /\
    c16_idx_index (c16_idx_assign_over t1 s) = c16_idx_index s.
Proof. intros. destruct s. repeat split; reflexivity. Qed.

(* B: the six comparisons, the difference and the dereference of IndexedIterators do not depend on the two indices *)
Theorem c16_indexed_index_independent :
  forall (P V : Type) (o : c16_ops P V) (a b : P) (i j : Z),
    let io := c16_idx_ops o in
    c16_o_eq io (a, i) (b, j) = c16_o_eq o a b /\ c16_o_ne io (a, i) (b, j) = c16_o_ne o a b /\
    c16_o_lt io (a, i) (b, j) = c16_o_lt o a b /\ c16_o_le io (a, i) (b, j) = c16_o_le o a b /\
    c16_o_gt io (a, i) (b, j) = c16_o_gt o a b /\ c16_o_ge io (a, i) (b, j) = c16_o_ge o a b /\
    c16_o_diff io (a, i) (b, j) = c16_o_diff o a b /\ c16_o_star io (a, i) = c16_o_star o a /\
    c16_idx_vs_base_eq o (a, i) b = c16_o_eq o a b /\ c16_idx_vs_base_diff o (a, i) b = c16_o_diff o a b.
Proof. intros. repeat split; reflexivity. Qed.

(* B: a range-based for over [ (b, i0), (e, j) ) does not depend on the index j stored in the END iterator *)
Lemma c16_idx_loop_end_index :
  forall (P V W : Type) (o : c16_ops P V) (g : P * Z -> W) (fuel : nat) (it : P * Z) (e : P) (j j' : Z) (acc : list W),
    c16_range_loop (c16_itr_over (c16_idx_ops o) g) fuel it (e, j) acc = c16_range_loop (c16_itr_over (c16_idx_ops o) g) fuel it (e, j') acc.
Proof.
  intros P V W o g fuel. induction fuel as [|f IH]; intros; [reflexivity|].
  cbn [c16_range_loop]. 
  change (c16_o_ne (c16_itr_over (c16_idx_ops o) g) it (e, j)) with (c16_o_ne (c16_itr_over (c16_idx_ops o) g) it (e, j')).
  destruct (c16_o_ne (c16_itr_over (c16_idx_ops o) g) it (e, j')); [apply IH | reflexivity].
Qed.

Theorem c16_sparse_indexed_end_index_irrelevant :
  forall (P V : Type) (o : c16_ops P V) (fuel : nat) (b : P * Z) (e : P) (j j' : Z),
    c16_range_for (c16_sparse_over (c16_idx_ops o) c16_idx_index) fuel (c16_iterrange b (e, j)) =
    c16_range_for (c16_sparse_over (c16_idx_ops o) c16_idx_index) fuel (c16_iterrange b (e, j')).
Proof. intros. unfold c16_range_for, c16_sparse_over, c16_iterrange. cbn [fst snd c16_iterrange_begin c16_iterrange_end]. apply c16_idx_loop_end_index. Qed.
