(* C16 -- proofs, part 4 (proof-deepening round): every operator of every iterator class as an instance of the Section theorems,
   postfix forms, conversions, container identity, SLList's three classes, IndexedIterator as an iterator, transformed / sparse ranges
   over arbitrary lawful iterators, IteratorRange, StaticIntegralRange. *)
From Coq Require Import List ZArith Bool Lia.
From DuneV Require Import Params_gen C16_Model C16_Spec C16_Proofs C16_Proofs_Ranges C16_Proofs_Audit.
Import ListNotations.
Local Open Scope Z_scope.

(* ------------------------------------------------------------------ postfix ++/--, n + it, -> *)
Theorem c16_postfix_laws :
  forall (P V : Type) (o : c16_ops P V) (rep : Z -> P) (lo hi : Z), c16_iter_laws o rep lo hi ->
  forall a, c16_in lo hi a ->
    (c16_in lo hi (a + 1) -> c16_post_inc o (rep a) = (rep a, rep (a + 1))) /\
    (c16_in lo hi (a - 1) -> c16_post_dec o (rep a) = (rep a, rep (a - 1))) /\
    (forall n, c16_in lo hi (a + n) -> c16_nplus o n (rep a) = rep (a + n) /\ c16_nplus o n (rep a) = c16_o_plus o (rep a) n) /\
    c16_arrow o (rep a) = c16_o_star o (rep a).
Proof.
  intros P V o rep lo hi ((_ & Hinc) & _ & Hdec & Hplus & _) a Ha. unfold c16_post_inc, c16_post_dec, c16_nplus, c16_arrow, c16_copy.
  repeat split; intros.
  - rewrite Hinc by assumption. reflexivity.
  - rewrite Hdec by assumption. reflexivity.
  - apply Hplus; assumption.
  - destruct (Hplus a n Ha H) as (E1 & E2 & _). rewrite E1, E2. reflexivity.
Qed.

Lemma c16_postfix_forward :
  forall (P V : Type) (o : c16_ops P V) (rep : Z -> P) (lo hi : Z), c16_fwd_laws o rep lo hi ->
  forall a, c16_in lo hi a -> c16_in lo hi (a + 1) -> c16_post_inc o (rep a) = (rep a, rep (a + 1)).
Proof. intros P V o rep lo hi (_ & Hinc) a Ha Hb. unfold c16_post_inc, c16_copy. rewrite Hinc by assumption. reflexivity. Qed.

(* ------------------------------------------------------------------ iterators that store their container *)
Theorem c16_tag_prim_laws :
  forall (P V : Type) (pr : c16_prims P V) (rep : Z -> P) (lo hi : Z), c16_prim_laws pr rep lo hi ->
  forall c : Z, c16_prim_laws (c16_tag_prims pr) (fun a => (c, rep a)) lo hi.
Proof.
  intros P V pr rep lo hi (Hinc & Hdec & Hadv & Hdist & Heq & Helt) c.
  unfold c16_prim_laws, c16_tag_prims; cbn [c16_p_inc c16_p_dec c16_p_adv c16_p_dist c16_p_eq c16_p_deref c16_p_elt fst snd].
  repeat split; intros.
  - rewrite Hinc by assumption. reflexivity.
  - rewrite Hdec by assumption. reflexivity.
  - rewrite Hadv by assumption. reflexivity.
  - apply Hdist; assumption.
  - rewrite Heq by assumption. rewrite Z.eqb_refl, andb_true_r. reflexivity.
  - apply Helt; assumption.
Qed.

Theorem c16_tag_container_identity :
  forall (P V : Type) (pr : c16_prims P V) (conv : bool) (c1 c2 : Z) (x y : P),
    c1 <> c2 ->
    c16_o_eq (c16_legacy_ops (c16_tag_prims pr) conv) (c1, x) (c2, y) = false /\
    c16_o_ne (c16_legacy_ops (c16_tag_prims pr) conv) (c1, x) (c2, y) = true /\
    c16_convert (c1, x) = (c1, x).
Proof.
  intros P V pr conv c1 c2 x y Hne. unfold c16_legacy_ops, c16_ra_eq, c16_ra_ne, c16_tag_prims, c16_convert; cbn [c16_o_eq c16_o_ne c16_p_eq fst snd].
  assert (E1 : (c1 =? c2) = false) by (apply Z.eqb_neq; assumption).
  assert (E2 : (c2 =? c1) = false) by (apply Z.eqb_neq; auto).
  destruct conv; rewrite ?E1, ?E2, ?andb_false_r; repeat split; reflexivity.
Qed.

(* ------------------------------------------------------------------ every class as an instance: the full operator table *)
Theorem c16_dense_iterator_laws : forall xs conv c,
    c16_iter_laws (c16_legacy_ops (c16_tag_prims (c16_dense_prims xs)) conv) (fun a => (c, c16_dense_rep a)) (- c16_big) c16_big.
Proof. intros. apply c16_legacy_facade_laws, c16_tag_prim_laws, c16_dense_prim_laws. Qed.

Theorem c16_generic_iterator_laws : forall xs conv c lo hi,
    c16_iter_laws (c16_legacy_ops (c16_tag_prims (c16_generic_prims xs)) conv) (fun a => (c, a)) lo hi.
Proof. intros. apply c16_legacy_facade_laws, (c16_tag_prim_laws _ _ _ (fun z => z)), c16_generic_prim_laws. Qed.

Theorem c16_arraylist_iterator_laws : forall start size st conv,
    c16_iter_laws (c16_legacy_ops (c16_alist_prims start size st) conv) (c16_alist_rep start) (- c16_big) c16_big.
Proof. intros. apply c16_legacy_facade_laws, c16_alist_prim_laws. Qed.

(* IntegralRangeIterator with the comparison tokens of the CURRENT source (Params_gen.v) *)
Theorem c16_ir_src_iter_laws : forall t from lo hi,
    0 < c16_bits t -> lo <= 0 <= hi ->
    c16_tmin t <= from + lo -> from + hi <= c16_tmax t -> hi - lo < 2 ^ (c16_bits t - 1) ->
    c16_iter_laws (c16_ir_ops_src t) (c16_ir_rep t from) lo hi.
Proof.
  intros t from lo hi Hw H0 Hlo Hhi Hspan.
  pose proof (c16_ir_iter_laws t from lo hi Hw H0 Hlo Hhi Hspan) as (F & Hcmp & Hdec & Hplus & Hminus).
  unfold c16_iter_laws, c16_fwd_laws, c16_ir_ops_src in *.
  cbn [c16_o_eq c16_o_ne c16_o_lt c16_o_le c16_o_gt c16_o_ge c16_o_diff c16_o_inc c16_o_dec c16_o_plus c16_o_minus c16_o_pluseq c16_o_minuseq c16_o_index c16_o_star] in *.
  repeat split; intros; try (apply F; assumption); try (apply Hdec; assumption); try (apply Hplus; assumption); try (apply Hminus; assumption).
  all: destruct (Hcmp a b H H1) as (L1 & L2 & L3 & L4 & L5); unfold c16_ir_ops in *; cbn [c16_o_lt c16_o_le c16_o_gt c16_o_ge c16_o_diff] in *; c16_params; assumption.
Qed.

(* TransformedRangeView / sparseRange over ANY lawful iterator *)
Lemma c16_base_of_ops_laws :
  forall (P V : Type) (o : c16_ops P V) (rep : Z -> P) (lo hi : Z), c16_iter_laws o rep lo hi -> c16_base_laws (c16_base_of_ops o) rep lo hi.
Proof.
  intros P V o rep lo hi ((Heq & Hinc) & Hcmp & Hdec & Hplus & _).
  unfold c16_base_laws, c16_base_of_ops; cbn [c16_b_inc c16_b_dec c16_b_addeq c16_b_sub c16_b_eq].
  repeat split; intros; try (apply Hinc; assumption); try (apply Hdec; assumption); try (apply Hplus; assumption); try (apply Hcmp; assumption); try (apply Heq; assumption).
Qed.

Theorem c16_transformed_iterator_laws :
  forall (P V W : Type) (o : c16_ops P V) (rep : Z -> P) (lo hi : Z), c16_iter_laws o rep lo hi ->
    (forall f : V -> W, c16_iter_laws (c16_tr_over o f) rep lo hi) /\
    (forall g : P -> W, c16_iter_laws (c16_itr_over o g) rep lo hi) /\
    (forall index, c16_iter_laws (c16_sparse_over o index) rep lo hi).
Proof.
  intros P V W o rep lo hi L. pose proof (c16_base_of_ops_laws _ _ _ _ _ _ L) as B.
  split; [| split]; intros; unfold c16_tr_over, c16_itr_over, c16_sparse_over; apply c16_new_facade_laws; exact B.
Qed.

Theorem c16_tr_vector_iterator_laws : forall f xs lo hi,
    c16_iter_laws (c16_tr_ops f xs) (fun z => z) lo hi /\ c16_iter_laws (c16_sparse_ops xs (fun p => p)) (fun z => z) lo hi.
Proof. intros. split; apply c16_new_facade_laws, c16_vec_base_laws. Qed.

(* ------------------------------------------------------------------ IndexedIterator as an iterator *)
Theorem c16_indexed_iterator_laws :
  forall (P V : Type) (o : c16_ops P V) (rep : Z -> P) (lo hi : Z), c16_iter_laws o rep lo hi ->
  forall i0 : Z,
    c16_iter_laws (c16_idx_ops o) (fun a => (rep a, i0 + a)) lo hi /\
    (forall a, c16_in lo hi a -> c16_idx_index (rep a, i0 + a) = i0 + a) /\
    (* the inherited it + n / it - n give the base iterator: the index is dropped *)
    (forall a n, c16_in lo hi a -> c16_in lo hi (a + n) -> c16_idx_plus o (rep a, i0 + a) n = rep (a + n)) /\
    (forall a n, c16_in lo hi a -> c16_in lo hi (a - n) -> c16_idx_minus o (rep a, i0 + a) n = rep (a - n)) /\
    (forall a, c16_in lo hi a -> c16_in lo hi (a + 1) -> c16_idx_post_inc o (rep a, i0 + a) = ((rep a, i0 + a), (rep (a + 1), i0 + (a + 1)))) /\
    (forall a, c16_in lo hi a -> c16_in lo hi (a - 1) -> c16_idx_post_dec o (rep a, i0 + a) = ((rep a, i0 + a), (rep (a - 1), i0 + (a - 1)))).
Proof.
  intros P V o rep lo hi ((Heq & Hinc) & Hcmp & Hdec & Hplus & Hminus) i0.
  unfold c16_iter_laws, c16_fwd_laws, c16_idx_ops, c16_idx_inc, c16_idx_dec, c16_idx_pluseq, c16_idx_minuseq, c16_idx_plus, c16_idx_minus,
    c16_idx_post_inc, c16_idx_post_dec, c16_idx_index, c16_copy;
    cbn [c16_o_eq c16_o_ne c16_o_lt c16_o_le c16_o_gt c16_o_ge c16_o_diff c16_o_inc c16_o_dec c16_o_plus c16_o_minus c16_o_pluseq c16_o_minuseq c16_o_index c16_o_star fst snd].
  repeat split; intros;
    try (apply Heq; assumption); try (apply Hcmp; assumption); try (apply Hplus; assumption); try (apply Hminus; assumption);
    cbv zeta; unfold c16_idx_inc, c16_idx_dec; cbn [fst snd];
    rewrite ?Hinc, ?Hdec by assumption;
    try (match goal with |- context [c16_o_pluseq o (rep ?a) ?n] =>
           let E := fresh in destruct (Hplus a n) as (_ & E & _); [assumption | assumption | rewrite E] end);
    try (match goal with |- context [c16_o_minuseq o (rep ?a) ?n] =>
           let E := fresh in destruct (Hminus a n) as (_ & E); [assumption | assumption | rewrite E] end);
    first [reflexivity | f_equal; lia | f_equal; f_equal; lia].
Qed.

(* ------------------------------------------------------------------ range-based for over IteratorRange / transformed / sparse ranges *)
Theorem c16_range_for_correct :
  forall (P V : Type) (o : c16_ops P V) (rep : Z -> P) (lo hi : Z), c16_fwd_laws o rep lo hi ->
  forall (n : nat) (a : Z) (fuel : nat), c16_in lo hi a -> c16_in lo hi (a + Z.of_nat n) -> (n < fuel)%nat ->
    c16_range_for o fuel (c16_iterrange (rep a) (rep (a + Z.of_nat n))) = C16Ok (map (fun k => c16_o_star o (rep (a + Z.of_nat k))) (seq 0 n)).
Proof.
  intros. unfold c16_range_for, c16_iterrange, c16_iterrange_begin, c16_iterrange_end; cbn [fst snd].
  rewrite (c16_range_loop_correct _ _ _ _ _ _ H n a fuel []) by assumption. reflexivity.
Qed.

Theorem c16_transformed_range_correct :
  forall (P V W : Type) (o : c16_ops P V) (rep : Z -> P) (lo hi : Z), c16_iter_laws o rep lo hi ->
  forall (f : V -> W) (index : P -> Z) (n : nat) (a : Z) (fuel : nat), c16_in lo hi a -> c16_in lo hi (a + Z.of_nat n) -> (n < fuel)%nat ->
    (* each element of the underlying range transformed exactly once, in order *)
    c16_range_for (c16_tr_over o f) fuel (c16_iterrange (rep a) (rep (a + Z.of_nat n))) =
      C16Ok (map (fun k => f (c16_o_star o (rep (a + Z.of_nat k)))) (seq 0 n)) /\
    (* entries paired with the index their iterator reports *)
    c16_range_for (c16_sparse_over o index) fuel (c16_iterrange (rep a) (rep (a + Z.of_nat n))) =
      C16Ok (map (fun k => (c16_o_star o (rep (a + Z.of_nat k)), index (rep (a + Z.of_nat k)))) (seq 0 n)).
Proof.
  intros P V W o rep lo hi L f index n a fuel Ha Hb Hf.
  destruct (c16_transformed_iterator_laws P V W o rep lo hi L) as (T & _ & _).
  destruct (c16_transformed_iterator_laws P V (V * Z) o rep lo hi L) as (_ & _ & S).
  destruct (T f) as (FT & _). destruct (S index) as (FS & _).
  split.
  - rewrite (c16_range_for_correct _ _ _ _ _ _ FT n a fuel) by assumption. reflexivity.
  - rewrite (c16_range_for_correct _ _ _ _ _ _ FS n a fuel) by assumption. reflexivity.
Qed.

(* sparseRange over an IteratorRange of IndexedIterators (start index i0): the k-th element is (entry k, i0 + k) *)
Theorem c16_sparse_indexed_range_correct :
  forall (P V : Type) (o : c16_ops P V) (rep : Z -> P) (lo hi : Z), c16_iter_laws o rep lo hi ->
  forall (i0 : Z) (n : nat) (a : Z) (fuel : nat), c16_in lo hi a -> c16_in lo hi (a + Z.of_nat n) -> (n < fuel)%nat ->
    c16_range_for (c16_sparse_over (c16_idx_ops o) c16_idx_index) fuel (c16_iterrange (rep a, i0 + a) (rep (a + Z.of_nat n), i0 + (a + Z.of_nat n))) =
      C16Ok (map (fun k => (c16_o_star o (rep (a + Z.of_nat k)), i0 + (a + Z.of_nat k))) (seq 0 n)).
Proof.
  intros P V o rep lo hi L i0 n a fuel Ha Hb Hf.
  destruct (c16_indexed_iterator_laws P V o rep lo hi L i0) as (LI & _).
  destruct (c16_transformed_range_correct _ _ V (c16_idx_ops o) (fun a => (rep a, i0 + a)) lo hi LI (fun v => v) c16_idx_index n a fuel Ha Hb Hf) as (_ & E).
  exact E.
Qed.

(* ------------------------------------------------------------------ SLList's three iterator classes *)
Definition c16_sl_wf (x : c16_sl) : Prop := match x with C16SlMod b c => b = c - 1 | _ => True end.

Theorem c16_sllist_classes_correct : forall l r : c16_sl,
    c16_sl_facade_eq l r = (c16_sl_cur l =? c16_sl_cur r) /\
    c16_sl_facade_ne l r = negb (c16_sl_cur l =? c16_sl_cur r) /\
    c16_sl_member_equals l r = (c16_sl_cur l =? c16_sl_cur r) /\
    c16_sl_cur (c16_sl_inc l) = c16_sl_cur l + 1 /\ c16_sl_class (c16_sl_inc l) = c16_sl_class l /\
    (c16_sl_wf l -> c16_sl_wf (c16_sl_inc l)) /\
    c16_sl_cur (c16_sl_to_const l) = c16_sl_cur l /\ c16_sl_cur (c16_sl_to_it l) = c16_sl_cur l /\
    c16_sl_wf c16_sl_begin_modify /\ (forall n, c16_sl_wf (c16_sl_end_modify n)) /\
    c16_sl_cur c16_sl_begin_modify = 0 /\ (forall n, c16_sl_cur (c16_sl_end_modify n) = n).
Proof.
  intros l r.
  assert (M : forall x y, c16_sl_member_equals x y = (c16_sl_cur x =? c16_sl_cur y)).
  { intros [c|c|b c] [d|d|b' d]; simpl; try reflexivity; apply Z.eqb_sym. }
  repeat split; try (apply M);
    try (unfold c16_sl_facade_eq; destruct (c16_sl_convertible _ _); rewrite M; [reflexivity | apply Z.eqb_sym]);
    try (unfold c16_sl_facade_ne; destruct (c16_sl_convertible _ _); rewrite M; [reflexivity | f_equal; apply Z.eqb_sym]);
    try (intros; destruct l; simpl in *; first [reflexivity | lia | exact I]);
    try (intros; simpl; lia).
Qed.

(* ------------------------------------------------------------------ StaticIntegralRange *)
Lemma c16_norm_spec : forall t z, 0 < c16_bits t -> exists k, c16_norm t z = z + k * 2 ^ c16_bits t.
Proof. intros t z Hw. unfold c16_norm. destruct (c16_signed t); [apply c16_sext_spec | apply c16_wrap_spec]; lia. Qed.
Lemma c16_norm_eq : forall t x y k, 0 < c16_bits t -> x = y + k * 2 ^ c16_bits t -> c16_tmin t <= y <= c16_tmax t -> c16_norm t x = y.
Proof.
  intros t x y k Hw E Hy. unfold c16_norm, c16_tmin, c16_tmax in *. destruct (c16_signed t).
  - apply (c16_sext_eq _ _ y k); try assumption; lia.
  - apply (c16_wrap_eq _ _ y k); try assumption; lia.
Qed.

Theorem c16_static_integral_range_correct : forall t from to,
    0 < c16_bits t -> c16_tmin t <= from -> from <= to -> to <= c16_tmax t ->
    c16_sirange_size t from to = to - from /\
    (forall i, 0 <= i < to - from -> Some (c16_sirange_at t from i) = nth_error (c16_spec_irange from to) (Z.to_nat i)) /\
    c16_sirange_seq t from to = c16_spec_irange from to /\
    (* begin()/end() are the iterators of the dynamic range: range-for yields the same list *)
    (forall fuel, (Z.to_nat (to - from) < fuel)%nat ->
       c16_range_for (c16_ir_ops_src t) fuel (c16_iterrange from to) = C16Ok (map Some (c16_spec_irange from to))).
Proof.
  intros t from to Hw Hlo Hle Hhi.
  destruct (c16_irange_queries_correct t from to Hw Hlo Hle Hhi) as (Hs & _ & Hat & _ & Hseq).
  repeat split.
  - exact Hs.
  - intros i Hi. rewrite <- (Hat i Hi). f_equal. unfold c16_sirange_at, c16_irange_at.
    destruct (c16_norm_spec t i Hw) as (k & E). rewrite E.
    rewrite (c16_norm_eq t (from + (i + k * 2 ^ c16_bits t)) (from + i) k) by (try assumption; lia).
    symmetry. apply c16_norm_id; [assumption | lia].
  - exact Hseq.
  - intros fuel Hf. pose proof (c16_irange_elems_correct t true from to fuel Hw Hlo Hle Hhi Hf) as E.
    unfold c16_irange_elems in E. unfold c16_range_for, c16_iterrange, c16_iterrange_begin, c16_iterrange_end; cbn [fst snd].
    rewrite <- E. clear E Hf.
    (* the loop uses only != ++ and *, which c16_ir_ops_src shares with c16_ir_ops *)
    generalize (@nil (option Z)). generalize from. induction fuel as [|f IH]; intros a acc; [reflexivity|].
    cbn [c16_range_loop]. unfold c16_ir_ops_src at 1 3 4. cbn [c16_o_ne c16_o_inc c16_o_star].
    destruct (c16_o_ne (c16_ir_ops t true) a to); [apply IH | reflexivity].
Qed.

(* ------------------------------------------------------------------ Hybrid::integralRange: static (StaticIntegralRange -> integer_sequence loop)
   and run-time (IntegralRange, range-based for) index loops visit the same indices *)
Theorem c16_hybrid_integral_range_correct : forall t from to fuel,
    0 < c16_bits t -> c16_tmin t <= from -> from <= to -> to <= c16_tmax t -> (Z.to_nat (to - from) < fuel)%nat ->
    c16_hy_log C16Static (c16_sirange_seq t from to) = c16_spec_irange from to /\
    c16_range_for (c16_ir_ops_src t) fuel (c16_iterrange from to) = C16Ok (map Some (c16_hy_log C16Static (c16_sirange_seq t from to))) /\
    c16_hy_size C16Static (c16_sirange_seq t from to) = to - from.
Proof.
  intros t from to fuel Hw Hlo Hle Hhi Hf.
  destruct (c16_static_integral_range_correct t from to Hw Hlo Hle Hhi) as (_ & _ & Hseq & Hfor).
  destruct (c16_hy_correct C16Static (c16_sirange_seq t from to)) as (Hlog & _ & Hsize & _).
  rewrite Hlog, Hseq. repeat split.
  - apply Hfor, Hf.
  - rewrite <- Hseq, Hsize, Hseq. unfold c16_spec_irange. rewrite map_length, seq_length. lia.
Qed.
