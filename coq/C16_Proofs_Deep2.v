(* C16 -- proofs, part 5: the containers' own begin()/end() iterators visit exactly the stored elements, in order. *)
From Coq Require Import List ZArith Bool Lia.
From DuneV Require Import Params_gen C16_Model C16_Spec C16_Proofs C16_Proofs_Ranges C16_Proofs_Audit C16_Proofs_Deep.
Import ListNotations.
Local Open Scope Z_scope.

Lemma c16_map_at_seq : forall (xs : list Z), map (fun k => c16_at xs (Z.of_nat k)) (seq 0 (length xs)) = map Some xs.
Proof.
  intros xs. pose proof (c16_map_nth_error_seq Z (option Z) (fun (_ : nat) o => o) xs 0) as M. cbn beta in M.
  etransitivity; [| etransitivity; [exact M|] ].
  - apply map_ext. intros k. apply c16_at_nat.
  - clear M. generalize 0%nat. induction xs; intros s; [reflexivity|]. simpl. f_equal. apply IHxs.
Qed.

Lemma c16_nth_error_firstn : forall (A : Type) (l : list A) n k, (k < n)%nat -> nth_error (firstn n l) k = nth_error l k.
Proof. intros A. induction l as [|x l IH]; intros [|n] [|k] H; simpl; try reflexivity; try lia. apply IH. lia. Qed.
Lemma c16_nth_error_skipn : forall (A : Type) (l : list A) n k, nth_error (skipn n l) k = nth_error l (n + k).
Proof. intros A. induction l as [|x l IH]; intros [|n] k; simpl; try reflexivity; [destruct k; reflexivity | apply IH]. Qed.

Lemma c16_map_at_seq_shift : forall (st : list Z) (start size : nat), (start + size <= length st)%nat ->
    map (fun k => c16_at st (Z.of_nat start + Z.of_nat k)) (seq 0 size) = map Some (firstn size (skipn start st)).
Proof.
  intros st start size H.
  assert (L : length (firstn size (skipn start st)) = size) by (rewrite firstn_length, skipn_length; lia).
  rewrite <- (c16_map_at_seq (firstn size (skipn start st))). rewrite L.
  apply map_ext_in. intros k Hk. apply in_seq in Hk.
  rewrite <- Nat2Z.inj_add, !c16_at_nat. rewrite c16_nth_error_firstn by lia. rewrite c16_nth_error_skipn. reflexivity.
Qed.

(* DenseVector / DenseMatrix rows, GenericIterator containers, SLList: begin() .. end() *)
Theorem c16_container_traversal : forall (xs : list Z) (conv : bool) (fuel : nat),
    Z.of_nat (length xs) <= c16_big -> (length xs < fuel)%nat ->
    let n := Z.of_nat (length xs) in
    c16_range_for (c16_legacy_ops (c16_dense_prims xs) conv) fuel (c16_iterrange c16_dense_begin (c16_dense_end n)) = C16Ok (map Some xs) /\
    c16_range_for (c16_legacy_ops (c16_generic_prims xs) conv) fuel (c16_iterrange 0 n) = C16Ok (map Some xs) /\
    c16_range_for (c16_legacy_ops (c16_sl_prims xs) conv) fuel (c16_iterrange 0 n) = C16Ok (map Some xs) /\
    c16_range_for (c16_legacy_ops (c16_cw_prims xs) conv) fuel (c16_iterrange c16_dense_begin (c16_dense_end n)) = C16Ok (map Some xs).
Proof.
  intros xs conv fuel Hn Hf n. subst n.
  assert (Hbig : 0 < c16_big) by reflexivity.
  assert (H64 : 2 ^ 64 = 8 * c16_big) by reflexivity.
  assert (W : forall k, (k <= length xs)%nat -> c16_dense_rep (0 + Z.of_nat k) = Z.of_nat k).
  { intros k Hk. unfold c16_dense_rep. apply c16_wrap_small; lia. }
  assert (E : c16_dense_end (Z.of_nat (length xs)) = c16_dense_rep (0 + Z.of_nat (length xs))) by reflexivity.
  assert (B : c16_dense_begin = c16_dense_rep 0) by reflexivity.
  repeat split.
  - destruct (c16_legacy_facade_laws _ _ _ _ _ _ (c16_dense_prim_laws xs) conv) as (F & _).
    rewrite E, B. rewrite (c16_range_for_correct _ _ _ _ _ _ F (length xs) 0 fuel) by (unfold c16_in; lia || assumption).
    f_equal. rewrite <- c16_map_at_seq. apply map_ext_in. intros k Hk. apply in_seq in Hk.
    rewrite W by lia. reflexivity.
  - destruct (c16_legacy_facade_laws _ _ _ (fun z => z) 0 (Z.of_nat (length xs)) (c16_generic_prim_laws xs 0 (Z.of_nat (length xs))) conv) as (F & _).
    pose proof (c16_range_for_correct _ _ _ (fun z => z) 0 (Z.of_nat (length xs)) F (length xs) 0 fuel ltac:(unfold c16_in; lia) ltac:(unfold c16_in; lia) Hf) as R.
    cbn beta in R. cbn [Z.add] in R. rewrite R. f_equal. rewrite <- c16_map_at_seq. reflexivity.
  - assert (F : c16_fwd_laws (c16_legacy_ops (c16_sl_prims xs) conv) (fun z => z) 0 (Z.of_nat (length xs))) by apply c16_sl_forward_laws.
    pose proof (c16_range_for_correct _ _ _ (fun z => z) 0 (Z.of_nat (length xs)) F (length xs) 0 fuel ltac:(unfold c16_in; lia) ltac:(unfold c16_in; lia) Hf) as R.
    cbn beta in R. cbn [Z.add] in R. rewrite R. f_equal. rewrite <- c16_map_at_seq. reflexivity.
  - destruct (c16_cw_bidirectional_laws xs conv) as (F & _).
    rewrite E, B. rewrite (c16_range_for_correct _ _ _ _ _ _ F (length xs) 0 fuel) by (unfold c16_in; lia || assumption).
    f_equal. rewrite <- c16_map_at_seq. apply map_ext_in. intros k Hk. apply in_seq in Hk.
    rewrite W by lia. reflexivity.
Qed.

(* ArrayList: begin() = iterator at slot start_, end() at slot start_ + size_; the traversal yields the live slots *)
Theorem c16_arraylist_traversal : forall (st : list Z) (start size : nat) (conv : bool) (fuel : nat),
    (start + size <= length st)%nat -> Z.of_nat (length st) <= c16_big -> (size < fuel)%nat ->
    c16_alist_begin (Z.of_nat start) = c16_alist_rep (Z.of_nat start) 0 /\
    c16_alist_end (Z.of_nat start) (Z.of_nat size) = c16_alist_rep (Z.of_nat start) (Z.of_nat size) /\
    c16_range_for (c16_legacy_ops (c16_alist_prims (Z.of_nat start) (Z.of_nat size) st) conv) fuel
        (c16_iterrange (c16_alist_begin (Z.of_nat start)) (c16_alist_end (Z.of_nat start) (Z.of_nat size)))
      = C16Ok (map Some (firstn size (skipn start st))).
Proof.
  intros st start size conv fuel Hs Hb Hf.
  assert (Hbig : 0 < c16_big) by reflexivity.
  assert (H64 : 2 ^ 64 = 8 * c16_big) by reflexivity.
  split; [unfold c16_alist_begin, c16_alist_rep; f_equal; lia | split; [reflexivity|]].
  destruct (c16_legacy_facade_laws _ _ _ _ _ _ (c16_alist_prim_laws (Z.of_nat start) (Z.of_nat size) st) conv) as (F & _).
  replace (c16_alist_begin (Z.of_nat start)) with (c16_alist_rep (Z.of_nat start) 0) by (unfold c16_alist_begin, c16_alist_rep; f_equal; lia).
  change (c16_alist_end (Z.of_nat start) (Z.of_nat size)) with (c16_alist_rep (Z.of_nat start) (0 + Z.of_nat size)).
  rewrite (c16_range_for_correct _ _ _ _ _ _ F size 0 fuel) by (unfold c16_in; lia || assumption).
  f_equal. rewrite <- (c16_map_at_seq_shift st start size Hs). apply map_ext_in. intros k Hk. apply in_seq in Hk.
  unfold c16_legacy_ops, c16_alist_prims; cbn [c16_o_star c16_p_deref].
  assert (R : c16_alist_rep (Z.of_nat start) (0 + Z.of_nat k) = Z.of_nat start + Z.of_nat k).
  { unfold c16_alist_rep. apply c16_wrap_small; lia. }
  rewrite R.
  destruct (Z.leb_spec (Z.of_nat start) (Z.of_nat start + Z.of_nat k)); [| lia].
  destruct (Z.ltb_spec (Z.of_nat start + Z.of_nat k) (Z.of_nat start + Z.of_nat size)); [reflexivity | lia].
Qed.

(* ALIASING: both operands the same iterator object; a += (a - a); swap *)
Theorem c16_self_operand_laws :
  forall (P V : Type) (o : c16_ops P V) (rep : Z -> P) (lo hi : Z), c16_iter_laws o rep lo hi ->
  forall a b, c16_in lo hi a -> c16_in lo hi b ->
    c16_o_eq o (rep a) (rep a) = true /\ c16_o_ne o (rep a) (rep a) = false /\
    c16_o_lt o (rep a) (rep a) = false /\ c16_o_le o (rep a) (rep a) = true /\
    c16_o_gt o (rep a) (rep a) = false /\ c16_o_ge o (rep a) (rep a) = true /\
    c16_o_diff o (rep a) (rep a) = 0 /\
    c16_o_pluseq o (rep a) (c16_o_diff o (rep a) (rep a)) = rep a /\
    c16_o_minuseq o (rep a) (c16_o_diff o (rep a) (rep a)) = rep a /\
    c16_swap (rep a) (rep b) = (rep b, rep a).
Proof.
  intros P V o rep lo hi ((Heq & _) & Hcmp & _ & Hplus & Hminus) a b Ha Hb.
  destruct (Heq a a Ha Ha) as (E1 & E2). destruct (Hcmp a a Ha Ha) as (L1 & L2 & L3 & L4 & L5).
  rewrite E1, E2, L1, L2, L3, L4, L5, Z.eqb_refl, Z.ltb_irrefl, Z.leb_refl, Z.sub_diag.
  assert (A0 : c16_in lo hi (a + 0)) by (rewrite Z.add_0_r; assumption).
  assert (S0 : c16_in lo hi (a - 0)) by (rewrite Z.sub_0_r; assumption).
  destruct (Hplus a 0 Ha A0) as (_ & P1 & _). destruct (Hminus a 0 Ha S0) as (_ & M1).
  rewrite P1, M1, Z.add_0_r, Z.sub_0_r. repeat split; reflexivity.
Qed.
