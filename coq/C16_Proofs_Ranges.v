(* C16 -- proofs, part 2: transformed and sparse ranges, IndexedIterator, hybrid helpers. *)
From Coq Require Import List ZArith Bool Lia.
From DuneV Require Import C16_Model C16_Spec C16_Proofs.
Import ListNotations.
Local Open Scope Z_scope.

(* ------------------------------------------------------------------ vector-like base iterator *)
Lemma c16_vec_base_laws : forall xs lo hi, c16_base_laws (c16_vec_base xs) (fun z => z) lo hi.
Proof. intros. unfold c16_base_laws, c16_vec_base; simpl. repeat split; intros; reflexivity. Qed.

Lemma c16_at_nat : forall (A : Type) (xs : list A) k, c16_at xs (Z.of_nat k) = nth_error xs k.
Proof.
  intros A xs k. unfold c16_at. destruct (Z.ltb_spec (Z.of_nat k) 0); [lia|]. simpl.
  destruct (Z.leb_spec (Z.of_nat (length xs)) (Z.of_nat k)).
  - symmetry. apply nth_error_None. lia.
  - rewrite Nat2Z.id. reflexivity.
Qed.

Lemma c16_map_nth_error_seq : forall (A B : Type) (g : nat -> option A -> B) (xs : list A) s,
    map (fun k => g (s + k)%nat (nth_error xs k)) (seq 0 (length xs)) =
    map (fun p => g (fst p) (Some (snd p))) (combine (seq s (length xs)) xs).
Proof.
  intros A B g xs. induction xs as [|x xs IH]; intros s; [reflexivity|].
  cbn [length seq map combine fst snd nth_error]. rewrite Nat.add_0_r. f_equal.
  rewrite <- seq_shift, map_map. cbn [nth_error].
  rewrite <- (IH (S s)). apply map_ext. intros k. f_equal. lia.
Qed.

(* TransformedRangeView over a vector: elements = map f xs, each once, in order *)
Theorem c16_tr_elems_correct : forall f xs fuel, (length xs < fuel)%nat ->
    c16_tr_elems f xs fuel = C16Ok (map (fun x => Some (f x)) xs).
Proof.
  intros f xs fuel Hf. unfold c16_tr_elems, c16_tr_ops.
  pose proof (c16_new_facade_laws _ _ _ (c16_vec_base xs) (fun p => option_map f (c16_at xs p)) (fun z => z) 0 (Z.of_nat (length xs))
                (c16_vec_base_laws xs _ _)) as (L & _).
  pose proof (c16_range_loop_correct _ _ _ _ _ _ L (length xs) 0 fuel [] ltac:(unfold c16_in; lia) ltac:(unfold c16_in; lia) Hf) as E.
  cbn [Z.add] in E. rewrite E. rewrite app_nil_l. f_equal. cbn [c16_nf_ops c16_o_star].
  pose proof (c16_map_nth_error_seq Z (option Z) (fun (_ : nat) o => option_map f o) xs 0) as M. cbn beta in M.
  etransitivity; [| etransitivity; [exact M|] ].
  - apply map_ext. intros k. cbn [Z.add]. rewrite c16_at_nat. reflexivity.
  - clear. generalize 0%nat. induction xs; intros s; [reflexivity|]. simpl. f_equal. apply IHxs.
Qed.

Theorem c16_tr_queries_correct : forall f xs,
    c16_tr_size xs = Z.of_nat (length xs) /\
    (c16_tr_empty xs = true <-> xs = []) /\
    (forall i, (i < length xs)%nat -> c16_tr_at f xs (Z.of_nat i) = option_map f (nth_error xs i)).
Proof.
  intros f xs. repeat split.
  - unfold c16_tr_empty, c16_vec_base; cbn [c16_b_eq]. intros H. apply Z.eqb_eq in H. destruct xs; [reflexivity | cbn [length] in H; lia].
  - intros ->. reflexivity.
  - intros i Hi. unfold c16_tr_at, c16_tr_ops, c16_nf_ops; cbn [c16_o_index].
    unfold c16_nf_plus, c16_nf_pluseq, c16_vec_base; cbn [c16_b_addeq]. cbn [Z.add]. rewrite c16_at_nat. reflexivity.
Qed.

(* sparseRange over a container whose iterators report index() = position: pairs (entry, index) *)
Theorem c16_sparse_elems_correct : forall xs fuel, (length xs < fuel)%nat ->
    c16_sparse_elems xs (fun p => p) fuel = C16Ok (map Some (c16_spec_sparse xs)).
Proof.
  intros xs fuel Hf. unfold c16_sparse_elems, c16_sparse_ops.
  pose proof (c16_new_facade_laws _ _ _ (c16_vec_base xs) (fun p => option_map (fun v => (v, p)) (c16_at xs p)) (fun z => z) 0 (Z.of_nat (length xs))
                (c16_vec_base_laws xs _ _)) as (L & _).
  pose proof (c16_range_loop_correct _ _ _ _ _ _ L (length xs) 0 fuel [] ltac:(unfold c16_in; lia) ltac:(unfold c16_in; lia) Hf) as E.
  cbn [Z.add] in E. rewrite E. rewrite app_nil_l. f_equal. cbn [c16_nf_ops c16_o_star].
  pose proof (c16_map_nth_error_seq Z (option (Z * Z)) (fun (j : nat) o => option_map (fun v : Z => (v, Z.of_nat j)) o) xs 0) as M. cbn beta in M.
  etransitivity; [| etransitivity; [exact M|] ].
  - apply map_ext. intros k. cbn [Z.add]. rewrite c16_at_nat. reflexivity.
  - unfold c16_spec_sparse. clear. generalize 0%nat. induction xs; intros s; [reflexivity|]. simpl. f_equal. apply IHxs.
Qed.

(* ------------------------------------------------------------------ IndexedIterator: index() tracks the displacement *)
Lemma c16_idx_total_acc : forall l s, fold_left (fun s op => s + c16_idx_delta op) l s = s + c16_idx_total l.
Proof.
  unfold c16_idx_total. induction l as [|op l IH]; intros s; simpl; [lia|].
  rewrite IH. rewrite (IH (c16_idx_delta op)). lia.
Qed.

Theorem c16_idx_run_correct :
  forall (P V : Type) (o : c16_ops P V) (rep : Z -> P) (lo hi : Z), c16_iter_laws o rep lo hi ->
  forall l a i, c16_in lo hi a -> c16_idx_inrange lo hi a l ->
    c16_idx_run o (rep a, i) l = (rep (a + c16_idx_total l), i + c16_idx_total l).
Proof.
  intros P V o rep lo hi L. pose proof L as ((_ & Hinc) & _ & Hdec & Hplus & Hminus).
  unfold c16_idx_run. induction l as [|op l IH]; intros a i Ha Hr.
  - simpl. unfold c16_idx_total. simpl. f_equal; [f_equal|]; lia.
  - destruct Hr as (H1 & Hr). cbn [fold_left].
    assert (S : c16_idx_step o (rep a, i) op = (rep (a + c16_idx_delta op), i + c16_idx_delta op)).
    { destruct op; cbn [c16_idx_step c16_idx_delta] in *; unfold c16_idx_inc, c16_idx_dec, c16_idx_pluseq, c16_idx_minuseq; cbn [fst snd].
      - rewrite Hinc by assumption. reflexivity.
      - rewrite Hdec by assumption. reflexivity.
      - destruct (Hplus a n Ha H1) as (_ & E & _). rewrite E. reflexivity.
      - destruct (Hminus a n Ha H1) as (_ & E). rewrite E. reflexivity. }
    rewrite S. rewrite IH by assumption.
    unfold c16_idx_total at 3 4. cbn [fold_left]. rewrite c16_idx_total_acc. f_equal; [f_equal|]; lia.
Qed.

(* ------------------------------------------------------------------ hybrid helpers: static = dynamic = the fold *)
Lemma c16_hy_dyn_foreach_fold : forall (A : Type) (f : A -> Z -> A) xs a, c16_hy_dyn_foreach f xs a = fold_left f xs a.
Proof. intros A f. induction xs; intros; simpl; auto. Qed.

Lemma c16_fold_left_map : forall (A B C : Type) (g : A -> C -> A) (h : B -> C) l a,
    fold_left g (map h l) a = fold_left (fun a x => g a (h x)) l a.
Proof. intros A B C g h. induction l; intros; simpl; auto. Qed.

Lemma c16_hy_static_foreach_fold : forall (A : Type) (f : A -> Z -> A) xs a,
    fold_left (fun a i => match nth_error xs i with Some x => f a x | None => a end) (seq 0 (length xs)) a = fold_left f xs a.
Proof.
  intros A f. induction xs as [|x xs IH]; intros a; [reflexivity|].
  cbn [length seq fold_left nth_error]. rewrite <- seq_shift, c16_fold_left_map. cbn [nth_error]. apply IH.
Qed.

Theorem c16_hy_forEach_correct : forall (A : Type) m (f : A -> Z -> A) xs a, c16_hy_forEach m f xs a = c16_spec_fold f xs a.
Proof.
  intros A m f xs a. unfold c16_spec_fold. destruct m; simpl.
  - apply c16_hy_static_foreach_fold.
  - apply c16_hy_dyn_foreach_fold.
Qed.

Lemma c16_fold_snoc : forall xs (acc : list Z), fold_left (fun l x => l ++ [x]) xs acc = acc ++ xs.
Proof. induction xs; intros; simpl; [rewrite app_nil_r; reflexivity|]. rewrite IHxs, <- app_assoc. reflexivity. Qed.

Theorem c16_hy_correct : forall m xs,
    (* forEach visits every element once, in order; accumulate is the left fold; size / elementAt agree *)
    c16_hy_log m xs = xs /\
    (forall f v, c16_hy_accumulate m f xs v = fold_left f xs v) /\
    c16_hy_size m xs = Z.of_nat (length xs) /\
    (forall i, c16_hy_elementAt m xs (Z.of_nat i) = nth_error xs i) /\
    (* and therefore nothing depends on static vs dynamic *)
    c16_hy_log C16Static xs = c16_hy_log C16Dynamic xs /\
    (forall f v, c16_hy_accumulate C16Static f xs v = c16_hy_accumulate C16Dynamic f xs v).
Proof.
  intros m xs. unfold c16_hy_log, c16_hy_accumulate. repeat split; intros; rewrite ?c16_hy_forEach_correct; unfold c16_spec_fold;
    try reflexivity.
  - apply c16_fold_snoc.
  - apply c16_at_nat.
Qed.

Lemma c16_contains_in : forall from to x, c16_irange_contains from to x = true <-> In x (c16_spec_irange from to).
Proof.
  intros from to x. unfold c16_irange_contains, c16_spec_irange. split; intros H.
  - apply andb_prop in H. destruct H as (H1 & H2).
    apply Z.leb_le in H1. apply Z.ltb_lt in H2. apply in_map_iff. exists (Z.to_nat (x - from)). split; [lia|].
    apply in_seq. lia.
  - apply in_map_iff in H. destruct H as (k & <- & Hk).
    apply in_seq in Hk. apply andb_true_intro. split; [apply Z.leb_le | apply Z.ltb_lt]; lia.
Qed.

Theorem c16_hy_switch_correct : forall (A : Type) cases v (br : Z -> A) el,
    c16_hy_switch_static cases v br el = c16_spec_switch cases v br el /\
    c16_hy_switch_dynamic cases v br el = c16_spec_switch cases v br el /\
    (forall from to, c16_hy_switch_range from to v br el = c16_spec_switch (c16_spec_irange from to) v br el) /\
    (* the branch is taken iff the value is among the cases *)
    (In v cases -> c16_spec_switch cases v br el = br v) /\ (~ In v cases -> c16_spec_switch cases v br el = el).
Proof.
  intros A cases v br el. unfold c16_spec_switch. repeat split.
  - unfold c16_hy_switch_static.
    assert (X : fold_right (fun t acc => (t =? v) || acc) false cases = existsb (Z.eqb v) cases).
    { induction cases as [|t ts IH]; simpl; [reflexivity|]. rewrite IH, (Z.eqb_sym t v). reflexivity. }
    rewrite X. reflexivity.
  - induction cases as [|t ts IH]; simpl; [reflexivity|]. rewrite (Z.eqb_sym v t).
    destruct (Z.eqb_spec t v) as [->|]; simpl; [reflexivity | apply IH].
  - intros from to. unfold c16_hy_switch_range.
    destruct (c16_irange_contains from to v) eqn:E.
    + apply c16_contains_in in E. assert (X : existsb (Z.eqb v) (c16_spec_irange from to) = true).
      { apply existsb_exists. exists v. split; [assumption | apply Z.eqb_refl]. } rewrite X. reflexivity.
    + assert (X : existsb (Z.eqb v) (c16_spec_irange from to) = false).
      { destruct (existsb (Z.eqb v) (c16_spec_irange from to)) eqn:Y; [|reflexivity].
        apply existsb_exists in Y. destruct Y as (y & Hy & Ey). apply Z.eqb_eq in Ey. subst y.
        apply c16_contains_in in Hy. congruence. } rewrite X. reflexivity.
  - intros H. assert (X : existsb (Z.eqb v) cases = true) by (apply existsb_exists; exists v; split; [assumption | apply Z.eqb_refl]).
    rewrite X. reflexivity.
  - intros H. destruct (existsb (Z.eqb v) cases) eqn:Y; [|reflexivity].
    apply existsb_exists in Y. destruct Y as (y & Hy & Ey). apply Z.eqb_eq in Ey. subst y. contradiction.
Qed.

Theorem c16_hy_ifelse_fun_correct : forall (A : Type) (c : bool) (a b : A) o x y m1 m2,
    c16_hy_ifElse C16Static c a b = c16_hy_ifElse C16Dynamic c a b /\
    c16_hy_ifElse C16Dynamic c a b = (if c then a else b) /\
    c16_hy_fun m1 m2 o x y = c16_hy_fun C16Dynamic C16Dynamic o x y.
Proof. intros. repeat split. Qed.

(* ------------------------------------------------------------------ forward iterators (SLList): only == != ++ exist *)
Theorem c16_legacy_forward_laws :
  forall (P V : Type) (pr : c16_prims P V) (rep : Z -> P) (lo hi : Z),
    (forall a, c16_in lo hi a -> c16_in lo hi (a + 1) -> c16_p_inc pr (rep a) = rep (a + 1)) ->
    (forall a b, c16_in lo hi a -> c16_in lo hi b -> c16_p_eq pr (rep a) (rep b) = (a =? b)) ->
    forall conv : bool,
      c16_fwd_laws (c16_legacy_ops pr conv) rep lo hi /\
      (forall a b, c16_in lo hi a -> c16_in lo hi b ->
         c16_bi_eq pr conv (rep a) (rep b) = (a =? b) /\ c16_bi_ne pr conv (rep a) (rep b) = negb (a =? b)).
Proof.
  intros P V pr rep lo hi Hinc Heq conv. unfold c16_fwd_laws, c16_legacy_ops; simpl.
  repeat split; intros; unfold c16_ra_eq, c16_ra_ne, c16_bi_ne, c16_bi_eq; try (destruct conv; rewrite Heq by assumption; zb; fail).
  apply Hinc; assumption.
Qed.

Theorem c16_sl_forward_laws : forall xs lo hi conv,
    c16_fwd_laws (c16_legacy_ops (c16_sl_prims xs) conv) (fun z => z) lo hi /\
    (* the modify iterator (beforeIterator_, iterator_) moves both parts and compares by iterator_ *)
    (forall p, c16_slmod_inc (p - 1, p) = (p + 1 - 1, p + 1)) /\
    (forall a b, c16_slmod_eq (a - 1, a) (b - 1, b) = (a =? b)).
Proof.
  intros xs lo hi conv. split; [| split].
  - apply (c16_legacy_forward_laws _ _ (c16_sl_prims xs) (fun z => z) lo hi); intros; reflexivity.
  - intros p. unfold c16_slmod_inc; simpl. f_equal; lia.
  - intros a b. reflexivity.
Qed.
