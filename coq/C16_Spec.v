(* C16 -- the abstract statement.  An iterator IS a position (an integer lo..hi, 0 = begin, n = end,
   -1 = one-before-begin where offered); `rep` embeds positions into the iterator representation.
   The laws say that every operator does on iterators what integer arithmetic does on positions.
   Ranges are the lists they enumerate; hybrid helpers are folds.  The executable functions are the
   oracle: they are applied to what the implementation printed. *)
From Coq Require Import List ZArith Bool.
From DuneV Require Import C16_Model.
Import ListNotations.
Local Open Scope Z_scope.

Definition c16_in (lo hi a : Z) : Prop := lo <= a <= hi.

(* forward part: ==, !=, ++, (and nothing else) *)
Definition c16_fwd_laws {P V} (o : c16_ops P V) (rep : Z -> P) (lo hi : Z) : Prop :=
  (forall a b, c16_in lo hi a -> c16_in lo hi b ->
      c16_o_eq o (rep a) (rep b) = (a =? b) /\ c16_o_ne o (rep a) (rep b) = negb (a =? b)) /\
  (forall a, c16_in lo hi a -> c16_in lo hi (a + 1) -> c16_o_inc o (rep a) = rep (a + 1)).

(* the laws of a random access iterator, all phrased on positions *)
Definition c16_iter_laws {P V} (o : c16_ops P V) (rep : Z -> P) (lo hi : Z) : Prop :=
  c16_fwd_laws o rep lo hi /\
  (forall a b, c16_in lo hi a -> c16_in lo hi b ->
      c16_o_lt o (rep a) (rep b) = (a <? b) /\ c16_o_le o (rep a) (rep b) = (a <=? b) /\
      c16_o_gt o (rep a) (rep b) = (b <? a) /\ c16_o_ge o (rep a) (rep b) = (b <=? a) /\
      c16_o_diff o (rep a) (rep b) = a - b) /\
  (forall a, c16_in lo hi a -> c16_in lo hi (a - 1) -> c16_o_dec o (rep a) = rep (a - 1)) /\
  (forall a n, c16_in lo hi a -> c16_in lo hi (a + n) ->
      c16_o_plus o (rep a) n = rep (a + n) /\ c16_o_pluseq o (rep a) n = rep (a + n) /\
      c16_o_index o (rep a) n = c16_o_star o (rep (a + n))) /\
  (forall a n, c16_in lo hi a -> c16_in lo hi (a - n) ->
      c16_o_minus o (rep a) n = rep (a - n) /\ c16_o_minuseq o (rep a) n = rep (a - n)).

(* what a derived class has to guarantee for its primitives (legacy facades) *)
Definition c16_prim_laws {P V} (pr : c16_prims P V) (rep : Z -> P) (lo hi : Z) : Prop :=
  (forall a, c16_in lo hi a -> c16_in lo hi (a + 1) -> c16_p_inc pr (rep a) = rep (a + 1)) /\
  (forall a, c16_in lo hi a -> c16_in lo hi (a - 1) -> c16_p_dec pr (rep a) = rep (a - 1)) /\
  (forall a n, c16_in lo hi a -> c16_in lo hi (a + n) -> c16_p_adv pr n (rep a) = rep (a + n)) /\
  (forall a b, c16_in lo hi a -> c16_in lo hi b -> c16_p_dist pr (rep a) (rep b) = b - a) /\
  (forall a b, c16_in lo hi a -> c16_in lo hi b -> c16_p_eq pr (rep a) (rep b) = (a =? b)) /\
  (forall a n, c16_in lo hi a -> c16_in lo hi (a + n) -> c16_p_elt pr (rep a) n = c16_p_deref pr (rep (a + n))).

(* ... and for baseIterator() (new IteratorFacade) *)
Definition c16_base_laws {B V} (bs : c16_base B V) (rep : Z -> B) (lo hi : Z) : Prop :=
  (forall a, c16_in lo hi a -> c16_in lo hi (a + 1) -> c16_b_inc bs (rep a) = rep (a + 1)) /\
  (forall a, c16_in lo hi a -> c16_in lo hi (a - 1) -> c16_b_dec bs (rep a) = rep (a - 1)) /\
  (forall a n, c16_in lo hi a -> c16_in lo hi (a + n) -> c16_b_addeq bs n (rep a) = rep (a + n)) /\
  (forall a b, c16_in lo hi a -> c16_in lo hi b -> c16_b_sub bs (rep a) (rep b) = a - b) /\
  (forall a b, c16_in lo hi a -> c16_in lo hi b -> c16_b_eq bs (rep a) (rep b) = (a =? b)).

(* ------------------------------------------------------------------ executable oracle *)
(* == != < <= > >= on positions i, j, and i - j *)
Definition c16_spec_cmp (i j : Z) : list bool := [i =? j; negb (i =? j); i <? j; i <=? j; j <? i; j <=? i].
Definition c16_spec_diff (i j : Z) : Z := i - j.
(* the integers from .. to-1 *)
Definition c16_spec_irange (from to : Z) : list Z := map (fun k => from + Z.of_nat k) (seq 0 (Z.to_nat (to - from))).
Definition c16_spec_sparse (xs : list Z) : list (Z * Z) := combine xs (map Z.of_nat (seq 0 (length xs))).
Definition c16_spec_fold {A} (f : A -> Z -> A) (xs : list Z) (a : A) : A := fold_left f xs a.
Definition c16_spec_switch {A} (cases : list Z) (v : Z) (br : Z -> A) (el : A) : A :=
  if existsb (Z.eqb v) cases then br v else el.
(* n single steps: ++ n times for n >= 0, -- |n| times for n < 0 *)
Definition c16_steps {P V} (o : c16_ops P V) (it : P) (n : Z) : P :=
  if 0 <=? n then Nat.iter (Z.to_nat n) (c16_o_inc o) it else Nat.iter (Z.to_nat (- n)) (c16_o_dec o) it.

(* IndexedIterator: net displacement of an operation sequence, and "never leaves [lo,hi]" *)
Definition c16_idx_delta (op : c16_idx_op) : Z :=
  match op with C16Inc => 1 | C16Dec => -1 | C16PlusEq n => n | C16MinusEq n => - n end.
Fixpoint c16_idx_inrange (lo hi a : Z) (l : list c16_idx_op) : Prop :=
  match l with [] => True | op :: r => c16_in lo hi (a + c16_idx_delta op) /\ c16_idx_inrange lo hi (a + c16_idx_delta op) r end.
Definition c16_idx_total (l : list c16_idx_op) : Z := fold_left (fun s op => s + c16_idx_delta op) l 0.

(* additions of the API-coverage audit *)
Definition c16_spec_sorted (le : Z -> Z -> Prop) (l : list Z) : Prop :=
  forall i j, (i < j < length l)%nat -> le (nth i l 0) (nth j l 0).
