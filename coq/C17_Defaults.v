(* C17 — the defaulted template / function arguments of float_cmp.hh, from constants re-read from the source
   (tools/params.d/C17.py -> Params_gen.v): defaultCmpStyle, defaultRoundingStyle, DefaultEpsilon<T,style>::value(). *)
From Coq Require Import ZArith.
From Flocq Require Import Core BinarySingleNaN.
From DuneV Require Import Params_gen C17_Model.

Definition c17_default_cstyle : c17_cstyle :=
  match c17_param_default_cstyle with 0%nat => C17_RelWeak | 1%nat => C17_RelStrong | _ => C17_Absolute end.
Definition c17_default_rstyle : c17_rstyle :=
  match c17_param_default_rstyle with 0%nat => C17_TowardZero | 1%nat => C17_TowardInf | 2%nat => C17_Downward | _ => C17_Upward end.

Section Defaults.
Variable prec emax : Z.
Context (Hprec : Prec_gt_0 prec) (Hmax : Prec_lt_emax prec emax).
Notation fl := (binary_float prec emax).
Notation ofZ := (c17_of_Z prec emax Hprec Hmax).

(* std::numeric_limits<T>::epsilon() = 2^(1-prec) *)
Definition c17_machine_eps : fl := binary_normalize prec emax Hprec Hmax mode_NE 1 (1 - prec) false.
(* the literals are `double` literals (8., 1e-6): correctly rounded to binary64 first, then converted to the epsilon type
   (conversion = correct rounding of the binary64 value into the format; exact for long double) *)
Definition c17_conv_from_double (d : binary_float c17_prec64 c17_emax64) : fl :=
  match d with
  | B754_zero s => B754_zero s
  | B754_infinity s => B754_infinity s
  | B754_nan => B754_nan
  | B754_finite s m e _ => binary_normalize prec emax Hprec Hmax mode_NE (cond_Zopp s (Zpos m)) e s
  end.
Definition c17_literal (num den : Z) : fl :=
  c17_conv_from_double
    (c17_fdiv c17_prec64 c17_emax64 c17_Hprec64 c17_Hmax64
       (c17_of_Z c17_prec64 c17_emax64 c17_Hprec64 c17_Hmax64 num) (c17_of_Z c17_prec64 c17_emax64 c17_Hprec64 c17_Hmax64 den)).

(* DefaultEpsilon<T,style>::value():  epsilon()*8.  (relative styles),  std::max(epsilon(), 1e-6)  (absolute) *)
Definition c17_default_eps (s : c17_cstyle) : fl :=
  match s with
  | C17_RelWeak => c17_fmul prec emax Hprec Hmax c17_machine_eps (c17_literal c17_param_eps_weak_num c17_param_eps_weak_den)
  | C17_RelStrong => c17_fmul prec emax Hprec Hmax c17_machine_eps (c17_literal c17_param_eps_strong_num c17_param_eps_strong_den)
  | C17_Absolute => c17_fmax prec emax c17_machine_eps (c17_literal c17_param_eps_abs_num c17_param_eps_abs_den)
  end.

(* FloatCmpOps(EpsilonType epsilon = DefaultEpsilon<EpsilonType, cstyle>::value()) *)
Definition c17_ops_default (cs : c17_cstyle) (rs : c17_rstyle) : c17_ops prec emax :=
  C17_Ops prec emax cs rs (c17_default_eps cs).
End Defaults.

(* math.hh sign: `return (val < 0 ? -1 : 1);` with the two literals re-read from the source *)
Definition c17_isign_src (v : Z) : Z := if (v <? 0)%Z then c17_param_sign_neg else c17_param_sign_nonneg.
(* math.hh binomial(integral_constant<T,n>, integral_constant<T,n>): `(n >= 0 ? 1 : 0)`, literals re-read *)
Definition c17_binomial_nn_src (n : Z) : Z := if (0 <=? n)%Z then c17_param_binom_nn_then else c17_param_binom_nn_else.

