(* Extraction of the C17 model and oracles for the correspondence check (ExtrOcamlBasic only;
   Z, positive, Q, nat stay Coq inductives; Flocq's proof arguments are erased). *)
From Coq Require Import Extraction ExtrOcamlBasic.
From Coq Require Import ZArith List.
From Flocq Require Import Core BinarySingleNaN.
From DuneV Require Import Params_gen C17_Model C17_Spec C17_Defaults.
Extraction Language OCaml.
Extraction "c17_model.ml"
  c17_ipower c17_factorial c17_binomial c17_isign c17_inrange c17_fit
  c17_eq c17_ne c17_gt c17_lt c17_ge c17_le c17_veq c17_vne c17_vgt c17_vlt c17_vge c17_vle c17_flt c17_fgt
  c17_default_cstyle c17_default_rstyle c17_default_eps c17_ops_default c17_ops_set_eps
  c17_ops_eq c17_ops_ne c17_ops_gt c17_ops_lt c17_ops_ge c17_ops_le c17_ops_round c17_ops_trunc
  c17_vcisnan c17_vcisinf c17_vcisfinite c17_visunordered1 c17_isign_src c17_binomial_nn_src
  c17_round c17_trunc c17_binomial_fix c17_round_fix c17_trunc_fix c17_trunc_v2 c17_fpower c17_fsign
  c17_isnan c17_isinf c17_isfinite c17_isunordered c17_visnan c17_visinf c17_visfinite
  c17_cisnan c17_cisinf c17_cisfinite
  c17_of_bits c17_to_bits c17_of_Z
  c17_cmp_laws c17_spec_eq_exact c17_eq_verdict c17_spec_veq c17_spec_trunc_ok c17_spec_round_ok c17_spec_trunc_ideal c17_spec_round_ideal c17_spec_default_eps_ok c17_to_dy
  c17_dy_floor c17_dy_mul c17_dy_sub c17_dy_abs c17_dy_leb c17_dy_eqb c17_dy_of_Z c17_dy_pow2
  c17_spec_power c17_spec_factorial c17_spec_binomial_fast c17_spec_sign c17_spec_int_ok
  c17_spec_any_nan c17_spec_any_inf c17_spec_all_finite
  Z.div_eucl Z.pow Z.of_nat.
