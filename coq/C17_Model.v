(* C17 — executable model (definitions only) of the anchored code AS FOUND (c17_binomial, c17_round, c17_trunc: kept for the
   `_refuted` theorems and for recognising an unfixed tree) and AFTER fixes/C17-1..3.patch (`_fix` variants), of
     dune/common/float_cmp.cc   eq_t / eq ne gt lt ge le / round_t / trunc_t  (all CmpStyles, all RoundingStyles)
     dune/common/math.hh        power, factorial, binomial, sign, isNaN / isInf / isFinite / isUnordered
     dune/common/fvector.hh     MathOverloads for FieldVector (any/all loops)
   Floating point: Flocq BinarySingleNaN [binary_float prec emax], generic in the format
   (binary32 = (24,128), binary64 = (53,1024)); every C++ floating operation is one correctly
   rounded (round-to-nearest-even) Flocq operation, in the order the C++ expression evaluates.
   Machine integers: Z with an explicit integer type (signedness, width); signed overflow,
   division by zero and out-of-range float->int casts are undefined behaviour in C++ and are
   an explicit [C17_UB] here (DESIGN 2.5); unsigned arithmetic wraps modulo 2^w as in C++. *)
From Coq Require Import ZArith List Bool.
From Flocq Require Import Core BinarySingleNaN.
Import ListNotations.
Local Open Scope Z_scope.

Inductive c17_cstyle := C17_RelWeak | C17_RelStrong | C17_Absolute.
Inductive c17_rstyle := C17_TowardZero | C17_TowardInf | C17_Downward | C17_Upward.

(* ------------------------------------------------------------------ machine integers *)
Record c17_ity := C17_Ity { c17_signed : bool; c17_width : Z }.

Inductive c17_ires := C17_Val (z : Z) | C17_UB | C17_OutOfFuel.

Definition c17_imin (t : c17_ity) : Z := if c17_signed t then - 2 ^ (c17_width t - 1) else 0.
Definition c17_imax (t : c17_ity) : Z := if c17_signed t then 2 ^ (c17_width t - 1) - 1 else 2 ^ c17_width t - 1.
Definition c17_inrange (t : c17_ity) (z : Z) : bool := (c17_imin t <=? z) && (z <=? c17_imax t).

(* result of an arithmetic operation whose exact value is z, computed in type t *)
Definition c17_fit (t : c17_ity) (z : Z) : c17_ires :=
  if c17_signed t then (if c17_inrange t z then C17_Val z else C17_UB)
  else C17_Val (z mod 2 ^ c17_width t).

(* integer types narrower than int are promoted: `lower+1` on a short / unsigned short is an int expression (no wrap, no
   overflow for these magnitudes); the value is converted back to the narrow type only when it is stored or returned,
   and that conversion is modular (C++20) *)
Definition c17_promoted (t : c17_ity) : bool := c17_width t <? 32.
Definition c17_expr (t : c17_ity) (z : Z) : c17_ires :=            (* value of an arithmetic expression whose operands have type t *)
  if c17_promoted t then C17_Val z else c17_fit t z.
Definition c17_store (t : c17_ity) (z : Z) : c17_ires :=           (* conversion of such a value to t *)
  if c17_promoted t
  then C17_Val (if c17_signed t then (z + 2 ^ (c17_width t - 1)) mod 2 ^ c17_width t - 2 ^ (c17_width t - 1) else z mod 2 ^ c17_width t)
  else C17_Val z.

Definition c17_bind (r : c17_ires) (f : Z -> c17_ires) : c17_ires :=
  match r with C17_Val z => f z | C17_UB => C17_UB | C17_OutOfFuel => C17_OutOfFuel end.

(* T(a) / T(b): integer division truncating toward zero; b = 0 and INT_MIN / -1 are UB *)
Definition c17_idiv (t : c17_ity) (a b : Z) : c17_ires :=
  if b =? 0 then C17_UB else c17_fit t (Z.quot a b).

(* math.hh power<Base,Exponent> for an integral Base of type t and Exponent = int (32 bit):
     auto result = Base(1); auto absp = (p<0) ? -p : p;
     for (Exponent i = 0; i<absp; i++) result *= m;
     if (p<0) result = Base(1)/result;                                            *)
Fixpoint c17_ipower_loop (t : c17_ity) (m : Z) (n : nat) (result : Z) : c17_ires :=
  match n with
  | O => C17_Val result
  | S n' => c17_bind (c17_fit t (result * m)) (c17_ipower_loop t m n')
  end.

Definition c17_int32 := C17_Ity true 32.

Definition c17_ipower (t : c17_ity) (m p : Z) : c17_ires :=
  c17_bind (if p <? 0 then c17_fit c17_int32 (- p) else C17_Val p) (fun absp =>
  c17_bind (c17_ipower_loop t m (Z.to_nat absp) 1) (fun result =>
  if p <? 0 then c17_idiv t 1 result else C17_Val result)).

(* factorial<T>:  T fac = 1; for (T k = 0; k < n; ++k) fac *= k+1;  — loop state (k, fac) *)
Fixpoint c17_factorial_loop (t : c17_ity) (cnt : nat) (k fac : Z) : c17_ires :=
  match cnt with
  | O => C17_Val fac
  | S c => c17_bind (c17_fit t (fac * (k + 1))) (c17_factorial_loop t c (k + 1))
  end.

Definition c17_factorial (t : c17_ity) (n : Z) : c17_ires :=
  c17_factorial_loop t (Z.to_nat n) 0 1.

(* binomial<T>:
     if (k < 0 || k > n) return 0;
     if (2*k > n) return binomial(n, n-k);
     T bin = 1; for (auto i = n-k; i < n; ++i) bin *= i+1;
     return bin / factorial(k);                                                   *)
Fixpoint c17_binomial_loop (t : c17_ity) (cnt : nat) (i bin : Z) : c17_ires :=
  match cnt with
  | O => C17_Val bin
  | S c => c17_bind (c17_fit t (bin * (i + 1))) (c17_binomial_loop t c (i + 1))
  end.

Fixpoint c17_binomial_fuel (fuel : nat) (t : c17_ity) (n k : Z) : c17_ires :=
  match fuel with
  | O => C17_OutOfFuel
  | S f =>
    if (k <? 0) || (n <? k) then C17_Val 0 else
    c17_bind (c17_fit t (2 * k)) (fun k2 =>
    if n <? k2 then c17_bind (c17_fit t (n - k)) (fun nk => c17_binomial_fuel f t n nk) else
    c17_bind (c17_fit t (n - k)) (fun i0 =>
    c17_bind (c17_binomial_loop t (Z.to_nat (n - i0)) i0 1) (fun bin =>
    c17_bind (c17_factorial t k) (fun fk => c17_idiv t bin fk))))
  end.

Definition c17_binomial (t : c17_ity) (n k : Z) : c17_ires := c17_binomial_fuel 2 t n k.

(* ---- binomial<T> after fixes/C17-1.patch:
     if (k < 0 || k > n) return 0;
     if (k > n-k) return binomial(n, n-k);
     T bin = 1;
     for (T i = 1; i <= k; ++i) {
       T g = bin, r = i;
       while (r != 0) { const T t = g % r; g = r; r = t; }          (Euclid: g = gcd(bin, i))
       bin = (bin/g) * ((n-k+i)/(i/g));
     }
     return bin;                                                                            *)
(* a % b: remainder of the division truncating toward zero; b = 0 is UB *)
Definition c17_irem (t : c17_ity) (a b : Z) : c17_ires :=
  if b =? 0 then C17_UB else c17_fit t (Z.rem a b).

(* the while loop, state (g, r); fuel exhaustion is C17_OutOfFuel (C17_euclid_gcd: fuel > r suffices) *)
Fixpoint c17_euclid_loop (fuel : nat) (t : c17_ity) (g r : Z) : c17_ires :=
  match fuel with
  | O => C17_OutOfFuel
  | S f => if r =? 0 then C17_Val g
           else c17_bind (c17_irem t g r) (fun t' => c17_euclid_loop f t r t')
  end.

(* fuel used by the model for gcd(bin, i): i + 1 (the remainders decrease strictly) *)
Definition c17_euclid_fuel (i : Z) : nat := S (Z.to_nat i).

Fixpoint c17_binomial_fix_loop (t : c17_ity) (cnt : nat) (nk i bin : Z) : c17_ires :=
  match cnt with
  | O => C17_Val bin
  | S c =>
    c17_bind (c17_euclid_loop (c17_euclid_fuel i) t bin i) (fun g =>
    c17_bind (c17_idiv t bin g) (fun a =>
    c17_bind (c17_fit t (nk + i)) (fun b =>
    c17_bind (c17_idiv t i g) (fun d =>
    c17_bind (c17_idiv t b d) (fun e =>
    c17_bind (c17_fit t (a * e)) (fun bin' =>
    c17_bind (c17_fit t (i + 1)) (fun i' =>
    c17_binomial_fix_loop t c nk i' bin')))))))
  end.

Fixpoint c17_binomial_fix_fuel (fuel : nat) (t : c17_ity) (n k : Z) : c17_ires :=
  match fuel with
  | O => C17_OutOfFuel
  | S f =>
    if (k <? 0) || (n <? k) then C17_Val 0 else
    c17_bind (c17_fit t (n - k)) (fun nk =>
    if nk <? k then c17_binomial_fix_fuel f t n nk
    else c17_binomial_fix_loop t (Z.to_nat k) nk 1 1)
  end.

Definition c17_binomial_fix (t : c17_ity) (n k : Z) : c17_ires := c17_binomial_fix_fuel 2 t n k.

(* sign:  val < 0 ? -1 : 1 *)
Definition c17_isign (v : Z) : Z := if v <? 0 then -1 else 1.

(* ------------------------------------------------------------------ floating point *)
Section C17Float.
Variable prec emax : Z.
Context (Hprec : Prec_gt_0 prec) (Hmax : Prec_lt_emax prec emax).
Notation fl := (binary_float prec emax).

Definition c17_fsub (a b : fl) : fl := Bminus mode_NE a b.
Definition c17_fmul (a b : fl) : fl := Bmult mode_NE a b.
Definition c17_fdiv (a b : fl) : fl := Bdiv mode_NE a b.
Definition c17_fabs (a : fl) : fl := Babs a.
Definition c17_flt (a b : fl) : bool := Bltb a b.          (* a <  b, false if unordered *)
Definition c17_fle (a b : fl) : bool := Bleb a b.          (* a <= b, false if unordered *)
Definition c17_fgt (a b : fl) : bool := Bltb b a.          (* a >  b *)
(* std::max(a,b) = (a < b) ? b : a ;  std::min(a,b) = (b < a) ? b : a *)
Definition c17_fmax (a b : fl) : fl := if c17_flt a b then b else a.
Definition c17_fmin (a b : fl) : fl := if c17_flt b a then b else a.
Definition c17_fzero : fl := B754_zero false.
(* T(i) for an integer i: correctly rounded conversion *)
Definition c17_of_Z (z : Z) : fl := binary_normalize prec emax Hprec Hmax mode_NE z 0 false.

(* eq_t<T,style>::eq *)
Definition c17_eq (s : c17_cstyle) (eps a b : fl) : bool :=
  let d := c17_fabs (c17_fsub a b) in
  match s with
  | C17_RelWeak => c17_fle d (c17_fmul eps (c17_fmax (c17_fabs a) (c17_fabs b)))
  | C17_RelStrong => c17_fle d (c17_fmul eps (c17_fmin (c17_fabs a) (c17_fabs b)))
  | C17_Absolute => c17_fle d eps
  end.
Definition c17_ne s eps a b := negb (c17_eq s eps a b).
Definition c17_gt s eps a b := c17_fgt a b && c17_ne s eps a b.
Definition c17_lt s eps a b := c17_flt a b && c17_ne s eps a b.
Definition c17_ge s eps a b := c17_fgt a b || c17_eq s eps a b.
Definition c17_le s eps a b := c17_flt a b || c17_eq s eps a b.

(* eq_t_std_vec: sizes must agree, then first failing component decides; eq_t_fvec: same loop *)
Fixpoint c17_veq (s : c17_cstyle) (eps : fl) (a b : list fl) : bool :=
  match a, b with
  | [], [] => true
  | x :: a', y :: b' => if negb (c17_eq s eps x y) then false else c17_veq s eps a' b'
  | _, _ => false
  end.

(* gt / lt / ge / le on std::vector<T> (and FieldVector<T,1>): `first > second` is the lexicographic three-way comparison
   of the C++20 operator<=> of std::vector: the first non-equivalent pair decides (an unordered pair makes the
   result unordered, then neither < nor > holds), a proper prefix is less *)
Fixpoint c17_vlex (a b : list fl) : option comparison :=
  match a, b with
  | [], [] => Some Eq
  | [], _ :: _ => Some Lt
  | _ :: _, [] => Some Gt
  | x :: a', y :: b' => match Bcompare x y with Some Eq => c17_vlex a' b' | c => c end
  end.
Definition c17_vfgt (a b : list fl) : bool := match c17_vlex a b with Some Gt => true | _ => false end.
Definition c17_vflt (a b : list fl) : bool := match c17_vlex a b with Some Lt => true | _ => false end.
Definition c17_vne s eps a b := negb (c17_veq s eps a b).
Definition c17_vgt s eps a b := c17_vfgt a b && c17_vne s eps a b.
Definition c17_vlt s eps a b := c17_vflt a b && c17_vne s eps a b.
Definition c17_vge s eps a b := c17_vfgt a b || c17_veq s eps a b.
Definition c17_vle s eps a b := c17_vflt a b || c17_veq s eps a b.

(* I(val): conversion float -> integer type t truncates toward zero; UB when the truncated value
   is not representable in t (includes NaN and infinities) *)
Definition c17_cast (t : c17_ity) (v : fl) : c17_ires :=
  match v with
  | B754_nan | B754_infinity _ => C17_UB
  | _ => let z := Btrunc v in if c17_inrange t z then C17_Val z else C17_UB
  end.

(* round_t<I,T,cstyle,downward|upward>::round ; [up]=false: le(...) decides, [up]=true: lt(...) *)
Definition c17_round_du (up : bool) (t : c17_ity) (s : c17_cstyle) (eps val : fl) : c17_ires :=
  c17_bind (c17_cast t val) (fun lower =>
  if c17_eq s eps (c17_of_Z lower) val then C17_Val lower else
  c17_bind (if c17_fgt (c17_of_Z lower) val
            then c17_fit t (lower - 1)
            else C17_Val lower) (fun lower' =>
  c17_bind (if c17_fgt (c17_of_Z lower) val then C17_Val lower else c17_fit t (lower + 1)) (fun upper =>
  let dl := c17_fsub val (c17_of_Z lower') in
  let du := c17_fsub (c17_of_Z upper) val in
  if (if up then c17_lt s eps dl du else c17_le s eps dl du) then C17_Val lower' else C17_Val upper))).

Definition c17_round (r : c17_rstyle) (t : c17_ity) (s : c17_cstyle) (eps val : fl) : c17_ires :=
  match r with
  | C17_Downward => c17_round_du false t s eps val
  | C17_Upward => c17_round_du true t s eps val
  | C17_TowardZero => if c17_fgt val c17_fzero then c17_round_du false t s eps val else c17_round_du true t s eps val
  | C17_TowardInf => if c17_fgt val c17_fzero then c17_round_du true t s eps val else c17_round_du false t s eps val
  end.

(* trunc_t<I,T,cstyle,downward>::trunc *)
Definition c17_trunc_down (t : c17_ity) (s : c17_cstyle) (eps val : fl) : c17_ires :=
  if negb (c17_signed t) && c17_eq s eps val c17_fzero then C17_Val 0 else
  c17_bind (c17_cast t val) (fun lower =>
  c17_bind (if c17_fgt (c17_of_Z lower) val then c17_fit t (lower - 1) else C17_Val lower) (fun lower' =>
  c17_bind (c17_fit t (lower' + 1)) (fun l1 =>
  if c17_eq s eps (c17_of_Z l1) val then C17_Val l1 else C17_Val lower'))).

(* trunc_t<...,upward>::trunc:  I upper = trunc_down(val); if (ne(T(upper), val)) ++upper; *)
Definition c17_trunc_up (t : c17_ity) (s : c17_cstyle) (eps val : fl) : c17_ires :=
  c17_bind (c17_trunc_down t s eps val) (fun upper =>
  if c17_ne s eps (c17_of_Z upper) val then c17_fit t (upper + 1) else C17_Val upper).

Definition c17_trunc (r : c17_rstyle) (t : c17_ity) (s : c17_cstyle) (eps val : fl) : c17_ires :=
  match r with
  | C17_Downward => c17_trunc_down t s eps val
  | C17_Upward => c17_trunc_up t s eps val
  | C17_TowardZero => if c17_fgt val c17_fzero then c17_trunc_down t s eps val else c17_trunc_up t s eps val
  | C17_TowardInf => if c17_fgt val c17_fzero then c17_trunc_up t s eps val else c17_trunc_down t s eps val
  end.

(* ---- round_t after fixes/C17-2.patch: when the neighbour on the other side of val is not a value of I
        (lower == min and T(lower) > val, or lower == max and T(lower) <= val) lower is returned ---- *)
Definition c17_round_decide (up : bool) (s : c17_cstyle) (eps val : fl) (lower upper : Z) : c17_ires :=
  let dl := c17_fsub val (c17_of_Z lower) in
  let du := c17_fsub (c17_of_Z upper) val in
  if (if up then c17_lt s eps dl du else c17_le s eps dl du) then C17_Val lower else C17_Val upper.

Definition c17_round_du_fix (up : bool) (t : c17_ity) (s : c17_cstyle) (eps val : fl) : c17_ires :=
  c17_bind (c17_cast t val) (fun lower =>
  if c17_eq s eps (c17_of_Z lower) val then C17_Val lower else
  if c17_fgt (c17_of_Z lower) val then
    (if lower =? c17_imin t then C17_Val lower
     else c17_bind (c17_fit t (lower - 1)) (fun lower' => c17_round_decide up s eps val lower' lower))
  else
    (if lower =? c17_imax t then C17_Val lower
     else c17_bind (c17_fit t (lower + 1)) (fun upper => c17_round_decide up s eps val lower upper))).

Definition c17_round_fix (r : c17_rstyle) (t : c17_ity) (s : c17_cstyle) (eps val : fl) : c17_ires :=
  match r with
  | C17_Downward => c17_round_du_fix false t s eps val
  | C17_Upward => c17_round_du_fix true t s eps val
  | C17_TowardZero => if c17_fgt val c17_fzero then c17_round_du_fix false t s eps val else c17_round_du_fix true t s eps val
  | C17_TowardInf => if c17_fgt val c17_fzero then c17_round_du_fix true t s eps val else c17_round_du_fix false t s eps val
  end.

(* ---- trunc_t after fixes/C17-3.patch:  I lower = I(val);  if (T(lower) == val) return lower;  ... ---- *)
Definition c17_feqb (a b : fl) : bool := Beqb a b.          (* a == b, false if unordered *)

Definition c17_trunc_down_fix (t : c17_ity) (s : c17_cstyle) (eps val : fl) : c17_ires :=
  if negb (c17_signed t) && c17_eq s eps val c17_fzero then C17_Val 0 else
  c17_bind (c17_cast t val) (fun lower =>
  if c17_feqb (c17_of_Z lower) val then C17_Val lower else
  c17_bind (if c17_fgt (c17_of_Z lower) val then c17_fit t (lower - 1) else C17_Val lower) (fun lower' =>
  if lower' =? c17_imax t then C17_Val lower' else       (* fixes/C17-4.patch: lower+1 is not a value of I *)
  c17_bind (c17_expr t (lower' + 1)) (fun l1 =>        (* T(lower+1): the int expression for narrow I; `return lower+1` converts *)
  if c17_eq s eps (c17_of_Z l1) val then c17_store t l1 else C17_Val lower'))).

Definition c17_trunc_up_fix (t : c17_ity) (s : c17_cstyle) (eps val : fl) : c17_ires :=
  c17_bind (c17_trunc_down_fix t s eps val) (fun upper =>
  if c17_ne s eps (c17_of_Z upper) val then c17_fit t (upper + 1) else C17_Val upper).

Definition c17_trunc_fix (r : c17_rstyle) (t : c17_ity) (s : c17_cstyle) (eps val : fl) : c17_ires :=
  match r with
  | C17_Downward => c17_trunc_down_fix t s eps val
  | C17_Upward => c17_trunc_up_fix t s eps val
  | C17_TowardZero => if c17_fgt val c17_fzero then c17_trunc_down_fix t s eps val else c17_trunc_up_fix t s eps val
  | C17_TowardInf => if c17_fgt val c17_fzero then c17_trunc_up_fix t s eps val else c17_trunc_down_fix t s eps val
  end.

(* ---- trunc_t as in the repository BEFORE fixes/C17-4.patch (no guard at max(I)): only used to recognise a tree without that fix ---- *)
Definition c17_trunc_down_v2 (t : c17_ity) (s : c17_cstyle) (eps val : fl) : c17_ires :=
  if negb (c17_signed t) && c17_eq s eps val c17_fzero then C17_Val 0 else
  c17_bind (c17_cast t val) (fun lower =>
  if c17_feqb (c17_of_Z lower) val then C17_Val lower else
  c17_bind (if c17_fgt (c17_of_Z lower) val then c17_fit t (lower - 1) else C17_Val lower) (fun lower' =>
  c17_bind (c17_expr t (lower' + 1)) (fun l1 =>        (* T(lower+1): the int expression for narrow I; `return lower+1` converts *)
  if c17_eq s eps (c17_of_Z l1) val then c17_store t l1 else C17_Val lower'))).

Definition c17_trunc_up_v2 (t : c17_ity) (s : c17_cstyle) (eps val : fl) : c17_ires :=
  c17_bind (c17_trunc_down_v2 t s eps val) (fun upper =>
  if c17_ne s eps (c17_of_Z upper) val then c17_fit t (upper + 1) else C17_Val upper).

Definition c17_trunc_v2 (r : c17_rstyle) (t : c17_ity) (s : c17_cstyle) (eps val : fl) : c17_ires :=
  match r with
  | C17_Downward => c17_trunc_down_v2 t s eps val
  | C17_Upward => c17_trunc_up_v2 t s eps val
  | C17_TowardZero => if c17_fgt val c17_fzero then c17_trunc_down_v2 t s eps val else c17_trunc_up_v2 t s eps val
  | C17_TowardInf => if c17_fgt val c17_fzero then c17_trunc_up_v2 t s eps val else c17_trunc_down_v2 t s eps val
  end.

(* power<T,int> for a floating Base: repeated multiplication, reciprocal for p < 0 *)
Fixpoint c17_fpower_loop (m : fl) (n : nat) (result : fl) : fl :=
  match n with O => result | S n' => c17_fpower_loop m n' (c17_fmul result m) end.
Definition c17_fpower (m : fl) (p : Z) : fl :=
  let r := c17_fpower_loop m (Z.abs_nat p) (c17_of_Z 1) in
  if p <? 0 then c17_fdiv (c17_of_Z 1) r else r.

(* sign(val) = val < 0 ? -1 : 1   (NaN and -0.0 give 1) *)
Definition c17_fsign (v : fl) : Z := if c17_flt v c17_fzero then -1 else 1.

(* classifiers: std::isnan / isinf / isfinite on scalars *)
Definition c17_isnan (v : fl) : bool := is_nan v.
Definition c17_isinf (v : fl) : bool := match v with B754_infinity _ => true | _ => false end.
Definition c17_isfinite (v : fl) : bool := is_finite v.
Definition c17_isunordered (a b : fl) : bool := c17_isnan a || c17_isnan b.
(* fvector.hh: bool out = false; for i: out |= isNaN(b[i]);   /  out = true; out &= isFinite(b[i]) *)
Definition c17_visnan (v : list fl) : bool := fold_left (fun out x => out || c17_isnan x) v false.
Definition c17_visinf (v : list fl) : bool := fold_left (fun out x => out || c17_isinf x) v false.
Definition c17_visfinite (v : list fl) : bool := fold_left (fun out x => out && c17_isfinite x) v true.
(* math.hh complex overloads: isNaN(real) || isNaN(imag) ; isFinite(real) && isFinite(imag) *)
Definition c17_cisnan (re im : fl) : bool := c17_isnan re || c17_isnan im.
Definition c17_cisinf (re im : fl) : bool := c17_isinf re || c17_isinf im.
Definition c17_cisfinite (re im : fl) : bool := c17_isfinite re && c17_isfinite im.

(* FieldVector<std::complex<K>,n> (fvector.hh loops over math.hh's complex overloads): out |= isNaN(b[i]) etc. *)
Definition c17_vcisnan (v : list (fl * fl)) : bool := fold_left (fun out x => out || c17_cisnan (fst x) (snd x)) v false.
Definition c17_vcisinf (v : list (fl * fl)) : bool := fold_left (fun out x => out || c17_cisinf (fst x) (snd x)) v false.
Definition c17_vcisfinite (v : list (fl * fl)) : bool := fold_left (fun out x => out && c17_cisfinite (fst x) (snd x)) v true.
(* isUnordered(FieldVector<K,1> b, FieldVector<K,1> c) = isUnordered(b[0], c[0]) *)
Definition c17_visunordered1 (b c : fl) : bool := c17_isunordered b c.

(* FloatCmpOps<T, cstyle_, rstyle_>: the object is (cstyle_, rstyle_, epsilon_); every member forwards exactly these *)
Record c17_ops := C17_Ops { c17_ops_cstyle : c17_cstyle; c17_ops_rstyle : c17_rstyle; c17_ops_eps : fl }.
Definition c17_ops_set_eps (o : c17_ops) (e : fl) : c17_ops := C17_Ops (c17_ops_cstyle o) (c17_ops_rstyle o) e.   (* epsilon(e) *)
Definition c17_ops_eq (o : c17_ops) a b := c17_eq (c17_ops_cstyle o) (c17_ops_eps o) a b.
Definition c17_ops_ne (o : c17_ops) a b := c17_ne (c17_ops_cstyle o) (c17_ops_eps o) a b.
Definition c17_ops_gt (o : c17_ops) a b := c17_gt (c17_ops_cstyle o) (c17_ops_eps o) a b.
Definition c17_ops_lt (o : c17_ops) a b := c17_lt (c17_ops_cstyle o) (c17_ops_eps o) a b.
Definition c17_ops_ge (o : c17_ops) a b := c17_ge (c17_ops_cstyle o) (c17_ops_eps o) a b.
Definition c17_ops_le (o : c17_ops) a b := c17_le (c17_ops_cstyle o) (c17_ops_eps o) a b.
Definition c17_ops_round (o : c17_ops) (t : c17_ity) (v : fl) : c17_ires :=
  c17_round_fix (c17_ops_rstyle o) t (c17_ops_cstyle o) (c17_ops_eps o) v.
Definition c17_ops_trunc (o : c17_ops) (t : c17_ity) (v : fl) : c17_ires :=
  c17_trunc_fix (c17_ops_rstyle o) t (c17_ops_cstyle o) (c17_ops_eps o) v.

(* bit patterns <-> values (interchange format of total width w = sign + (w-prec) exponent bits + prec-1) *)
Definition c17_of_bits (w x : Z) : fl :=
  let mw := prec - 1 in
  let ew := w - prec in
  let frac := x mod 2 ^ mw in
  let eb := (x / 2 ^ mw) mod 2 ^ ew in
  let s := Z.odd (x / 2 ^ (w - 1)) in
  if eb =? 2 ^ ew - 1 then (if frac =? 0 then B754_infinity s else B754_nan)
  else if eb =? 0 then
    (if frac =? 0 then B754_zero s
     else binary_normalize prec emax Hprec Hmax mode_NE (cond_Zopp s frac) (3 - emax - prec) s)
  else binary_normalize prec emax Hprec Hmax mode_NE (cond_Zopp s (frac + 2 ^ mw)) (eb - (emax - 1) - mw) s.

Definition c17_to_bits (w : Z) (v : fl) : Z :=
  let mw := prec - 1 in
  let ew := w - prec in
  let sb (s : bool) := if s then 2 ^ (w - 1) else 0 in
  match v with
  | B754_zero s => sb s
  | B754_infinity s => sb s + (2 ^ ew - 1) * 2 ^ mw
  | B754_nan => (2 ^ ew - 1) * 2 ^ mw + 2 ^ (mw - 1)
  | B754_finite s m e _ =>
    if Zpos m <? 2 ^ mw then sb s + Zpos m
    else sb s + (e + (emax - 1) + mw) * 2 ^ mw + (Zpos m - 2 ^ mw)
  end.

End C17Float.

(* the two formats of the correspondence check *)
Definition c17_prec32 := 24.  Definition c17_emax32 := 128.
Definition c17_prec64 := 53.  Definition c17_emax64 := 1024.
Definition c17_Hprec32 : Prec_gt_0 c17_prec32 := eq_refl.
Definition c17_Hmax32 : Prec_lt_emax c17_prec32 c17_emax32 := eq_refl.
Definition c17_Hprec64 : Prec_gt_0 c17_prec64 := eq_refl.
Definition c17_Hmax64 : Prec_lt_emax c17_prec64 c17_emax64 := eq_refl.
(* x87 extended precision (long double on x86-64): 64-bit significand, emax = 16384 *)
Definition c17_prec80 := 64.  Definition c17_emax80 := 16384.
Definition c17_Hprec80 : Prec_gt_0 c17_prec80 := eq_refl.
Definition c17_Hmax80 : Prec_lt_emax c17_prec80 c17_emax80 := eq_refl.
