(* C17 — lemmas: classifiers (any / all semantics). *)
From Coq Require Import ZArith List Bool.
From Flocq Require Import Core BinarySingleNaN.
From DuneV Require Import C17_Model C17_Spec.
Import ListNotations.

Section Classifiers.
Variable prec emax : Z.
Notation fl := (binary_float prec emax).

Lemma c17_fold_or (f : fl -> bool) (v : list fl) (acc : bool) :
  fold_left (fun out x => out || f x) v acc = acc || existsb f v.
Proof.
  revert acc; induction v as [|x v IH]; intro acc; simpl.
  - now rewrite orb_false_r.
  - rewrite IH. now rewrite orb_assoc.
Qed.

Lemma c17_fold_and (f : fl -> bool) (v : list fl) (acc : bool) :
  fold_left (fun out x => out && f x) v acc = acc && forallb f v.
Proof.
  revert acc; induction v as [|x v IH]; intro acc; simpl.
  - now rewrite andb_true_r.
  - rewrite IH. now rewrite andb_assoc.
Qed.

Lemma C17_classifiers_lemma (v : list fl) (re im : fl) :
  c17_visnan prec emax v = c17_spec_any_nan prec emax v /\
  c17_visinf prec emax v = c17_spec_any_inf prec emax v /\
  c17_visfinite prec emax v = c17_spec_all_finite prec emax v /\
  c17_cisnan prec emax re im = c17_spec_any_nan prec emax [re; im] /\
  c17_cisinf prec emax re im = c17_spec_any_inf prec emax [re; im] /\
  c17_cisfinite prec emax re im = c17_spec_all_finite prec emax [re; im] /\
  (* the three classes partition the scalars *)
  (forall x : fl, c17_isfinite prec emax x = negb (c17_isnan prec emax x) && negb (c17_isinf prec emax x)).
Proof.
  unfold c17_visnan, c17_visinf, c17_visfinite, c17_spec_any_nan, c17_spec_any_inf, c17_spec_all_finite.
  rewrite !c17_fold_or, c17_fold_and. simpl.
  unfold c17_cisnan, c17_cisinf, c17_cisfinite, c17_isnan, c17_isfinite.
  rewrite !orb_false_r, !andb_true_r.
  repeat split; try reflexivity.
  intros [ | | | ]; reflexivity.
Qed.
End Classifiers.
