(* C17 — lemmas: classifiers (any / all semantics). *)
From Coq Require Import ZArith List Bool.
From Flocq Require Import Core BinarySingleNaN.
From DuneV Require Import C17_Model C17_Spec.
Import ListNotations.

Section Classifiers.
Variable prec emax : Z.
Notation fl := (binary_float prec emax).

Lemma c17_fold_or (f : fl -> bool) (v : list fl) (acc : bool) :
  fold_left (fun out x => out || f x) v acc = acc || existsb f v.
Proof.
  revert acc; induction v as [|x v IH]; intro acc; simpl.
  - now rewrite orb_false_r.
  - rewrite IH. now rewrite orb_assoc.
Qed.

Lemma c17_fold_and (f : fl -> bool) (v : list fl) (acc : bool) :
  fold_left (fun out x => out && f x) v acc = acc && forallb f v.
Proof.
  revert acc; induction v as [|x v IH]; intro acc; simpl.
  - now rewrite andb_true_r.
  - rewrite IH. now rewrite andb_assoc.
Qed.

Lemma C17_classifiers_lemma (v : list fl) (re im : fl) :
  c17_visnan prec emax v = c17_spec_any_nan prec emax v /\
  c17_visinf prec emax v = c17_spec_any_inf prec emax v /\
  c17_visfinite prec emax v = c17_spec_all_finite prec emax v /\
  c17_cisnan prec emax re im = c17_spec_any_nan prec emax [re; im] /\
  c17_cisinf prec emax re im = c17_spec_any_inf prec emax [re; im] /\
  c17_cisfinite prec emax re im = c17_spec_all_finite prec emax [re; im] /\
  (* the three classes partition the scalars *)
  (forall x : fl, c17_isfinite prec emax x = negb (c17_isnan prec emax x) && negb (c17_isinf prec emax x)).
Proof.
  unfold c17_visnan, c17_visinf, c17_visfinite, c17_spec_any_nan, c17_spec_any_inf, c17_spec_all_finite.
  rewrite !c17_fold_or, c17_fold_and. simpl.
  unfold c17_cisnan, c17_cisinf, c17_cisfinite, c17_isnan, c17_isfinite.
  rewrite !orb_false_r, !andb_true_r.
  repeat split; try reflexivity.
  intros [ | | | ]; reflexivity.
Qed.

(* FieldVector<complex<K>,n>: any component with a NaN / infinite part; all components with both parts finite *)
Lemma c17_fold_or_pair (f : fl * fl -> bool) (v : list (fl * fl)) (acc : bool) :
  fold_left (fun out x => out || f x) v acc = acc || existsb f v.
Proof.
  revert acc; induction v as [|x v IH]; intro acc; simpl.
  - now rewrite orb_false_r.
  - rewrite IH. now rewrite orb_assoc.
Qed.
Lemma c17_fold_and_pair (f : fl * fl -> bool) (v : list (fl * fl)) (acc : bool) :
  fold_left (fun out x => out && f x) v acc = acc && forallb f v.
Proof.
  revert acc; induction v as [|x v IH]; intro acc; simpl.
  - now rewrite andb_true_r.
  - rewrite IH. now rewrite andb_assoc.
Qed.

Definition c17_flat (v : list (fl * fl)) : list fl := flat_map (fun x => [fst x; snd x]) v.

Lemma c17_existsb_flat (f : fl -> bool) (v : list (fl * fl)) :
  existsb (fun x => f (fst x) || f (snd x)) v = existsb f (c17_flat v).
Proof. induction v as [|[x y] v IH]; simpl; [reflexivity|]. now rewrite IH, orb_assoc. Qed.
Lemma c17_forallb_flat (f : fl -> bool) (v : list (fl * fl)) :
  forallb (fun x => f (fst x) && f (snd x)) v = forallb f (c17_flat v).
Proof. induction v as [|[x y] v IH]; simpl; [reflexivity|]. now rewrite IH, andb_assoc. Qed.

Lemma C17_classifiers_complex_vector_lemma (v : list (fl * fl)) (a b : fl) :
  c17_vcisnan prec emax v = existsb (@is_nan prec emax) (c17_flat v) /\
  c17_vcisinf prec emax v = existsb (@c17_isinf prec emax) (c17_flat v) /\
  c17_vcisfinite prec emax v = forallb (@is_finite prec emax) (c17_flat v) /\
  (* isUnordered: exactly when an argument is NaN; the FieldVector<K,1> form is the scalar one *)
  c17_isunordered prec emax a b = (is_nan a || is_nan b) /\
  c17_visunordered1 prec emax a b = (is_nan a || is_nan b) /\
  (* isFinite is NOT the negation of isInf (NaN is neither), also for complex *)
  (c17_cisfinite prec emax B754_nan a = false /\ c17_cisinf prec emax B754_nan (B754_zero false) = false).
Proof.
  unfold c17_vcisnan, c17_vcisinf, c17_vcisfinite, c17_flat.
  rewrite !c17_fold_or_pair, c17_fold_and_pair. simpl.
  split; [exact (c17_existsb_flat (@is_nan prec emax) v)|].
  split; [exact (c17_existsb_flat (@c17_isinf prec emax) v)|].
  split; [exact (c17_forallb_flat (@is_finite prec emax) v)|].
  repeat split; reflexivity.
Qed.
End Classifiers.
