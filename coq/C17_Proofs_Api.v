(* C17 — the remaining public entry points: ordering comparisons on vectors, defaulted epsilons / styles. *)
From Coq Require Import ZArith Reals List Bool Lia.
From Flocq Require Import Core BinarySingleNaN.
From DuneV Require Import Params_gen C17_Model C17_Spec C17_Spec_Round C17_Defaults C17_Proofs_Cmp C17_Proofs_Int C17_Proofs_BinFix C17_Proofs_Round.
Import ListNotations.

Section VecOrder.
Variable prec emax : Z.
Context (Hprec : Prec_gt_0 prec) (Hmax : Prec_lt_emax prec emax).
Notation fl := (binary_float prec emax).

Definition c17_opp_oc (c : option comparison) : option comparison :=
  match c with Some x => Some (CompOpp x) | None => None end.

Lemma c17_vlex_swap (a b : list fl) : c17_vlex prec emax b a = c17_opp_oc (c17_vlex prec emax a b).
Proof.
  revert b; induction a as [|x a IH]; intros [|y b]; simpl; try reflexivity.
  rewrite (Bcompare_swap prec emax x y). destruct (Bcompare x y) as [[| |]|]; simpl; auto.
Qed.

Lemma c17_vfgt_swap (a b : list fl) : c17_vfgt prec emax a b = c17_vflt prec emax b a.
Proof. unfold c17_vfgt, c17_vflt. rewrite (c17_vlex_swap a b). destruct (c17_vlex prec emax a b) as [[| |]|]; reflexivity. Qed.

Lemma c17_vflt_vfgt_excl (a b : list fl) : c17_vflt prec emax a b && c17_vfgt prec emax a b = false.
Proof. unfold c17_vfgt, c17_vflt. destruct (c17_vlex prec emax a b) as [[| |]|]; reflexivity. Qed.

Lemma c17_veq_sym (s : c17_cstyle) (eps : fl) (a b : list fl) :
  Forall (fun x => is_finite x = true) a -> Forall (fun x => is_finite x = true) b ->
  c17_veq prec emax Hprec Hmax s eps a b = c17_veq prec emax Hprec Hmax s eps b a.
Proof.
  intros Fa; revert b; induction Fa as [|x a Fx Fa IH]; intros b Fb; destruct Fb as [|y b Fy Fb]; simpl; try reflexivity.
  rewrite (c17_eq_sym prec emax Hprec Hmax s eps x y Fx Fy). rewrite (IH b Fb). reflexivity.
Qed.

(* ne = !eq, ge = gt || eq, le = lt || eq, never both lt and gt (any lists); gt a b = lt b a, ge a b = le b a (finite components) *)
Lemma C17_vector_order_lemma (s : c17_cstyle) (eps : fl) (a b : list fl) :
  let VEQ := c17_veq prec emax Hprec Hmax s eps in
  let VNE := c17_vne prec emax Hprec Hmax s eps in
  let VGT := c17_vgt prec emax Hprec Hmax s eps in
  let VLT := c17_vlt prec emax Hprec Hmax s eps in
  let VGE := c17_vge prec emax Hprec Hmax s eps in
  let VLE := c17_vle prec emax Hprec Hmax s eps in
  VNE a b = negb (VEQ a b) /\ VGE a b = (VGT a b || VEQ a b) /\ VLE a b = (VLT a b || VEQ a b) /\
  VLT a b && VGT a b = false /\ (VEQ a b = true -> VLT a b = false /\ VGT a b = false) /\
  (Forall (fun x => is_finite x = true) a -> Forall (fun x => is_finite x = true) b ->
   VEQ a b = VEQ b a /\ VGT a b = VLT b a /\ VGE a b = VLE b a).
Proof.
  cbv zeta. unfold c17_vge, c17_vle, c17_vgt, c17_vlt, c17_vne.
  pose proof (c17_vflt_vfgt_excl a b) as X.
  split; [reflexivity|].
  split; [destruct (c17_vfgt prec emax a b), (c17_veq prec emax Hprec Hmax s eps a b); reflexivity|].
  split; [destruct (c17_vflt prec emax a b), (c17_veq prec emax Hprec Hmax s eps a b); reflexivity|].
  split; [destruct (c17_vflt prec emax a b), (c17_vfgt prec emax a b), (c17_veq prec emax Hprec Hmax s eps a b); try reflexivity; discriminate X|].
  split; [intros ->; now rewrite !andb_false_r|].
  intros Fa Fb. split; [now apply c17_veq_sym|].
  rewrite (c17_vfgt_swap a b), (c17_veq_sym s eps a b Fa Fb). split; reflexivity.
Qed.
End VecOrder.

(* DefaultEpsilon<T,style>::value() for float and double, with the literals re-read from the source:
   finite, non-negative, and the documented values 8 * machine epsilon resp. max(machine epsilon, 1e-6) *)
Definition c17_deps32 := c17_default_eps 24 128 c17_Hprec32 c17_Hmax32.
Definition c17_deps64 := c17_default_eps 53 1024 c17_Hprec64 c17_Hmax64.

Lemma C17_default_eps_lemma :
  (forall s, is_finite (c17_deps32 s) = true /\ Bsign (c17_deps32 s) = false) /\
  (forall s, is_finite (c17_deps64 s) = true /\ Bsign (c17_deps64 s) = false) /\
  c17_to_bits 24 128 32 (c17_deps32 C17_RelWeak) = 0x35800000%Z /\
  c17_to_bits 24 128 32 (c17_deps32 C17_RelStrong) = 0x35800000%Z /\
  c17_to_bits 24 128 32 (c17_deps32 C17_Absolute) = 0x358637bd%Z /\
  c17_to_bits 53 1024 64 (c17_deps64 C17_RelWeak) = 0x3ce0000000000000%Z /\
  c17_to_bits 53 1024 64 (c17_deps64 C17_RelStrong) = 0x3ce0000000000000%Z /\
  c17_to_bits 53 1024 64 (c17_deps64 C17_Absolute) = 0x3eb0c6f7a0b5ed8d%Z /\
  c17_default_cstyle = C17_RelWeak /\ c17_default_rstyle = C17_TowardZero.
Proof.
  repeat split; try (destruct s; vm_compute; reflexivity); vm_compute; reflexivity.
Qed.

(* hence the comparison algebra holds for the overloads that default the epsilon (float, double; every style) *)
Lemma C17_cmp_algebra_default_eps_lemma :
  (forall (s : c17_cstyle) (a b : binary_float 24 128), is_finite a = true -> is_finite b = true ->
     let e := c17_deps32 s in
     c17_cmp_laws (c17_flt 24 128 a b) (c17_fgt 24 128 a b)
       (c17_eq 24 128 c17_Hprec32 c17_Hmax32 s e a b) (c17_ne 24 128 c17_Hprec32 c17_Hmax32 s e a b)
       (c17_gt 24 128 c17_Hprec32 c17_Hmax32 s e a b) (c17_lt 24 128 c17_Hprec32 c17_Hmax32 s e a b)
       (c17_ge 24 128 c17_Hprec32 c17_Hmax32 s e a b) (c17_le 24 128 c17_Hprec32 c17_Hmax32 s e a b) = true) /\
  (forall (s : c17_cstyle) (a b : binary_float 53 1024), is_finite a = true -> is_finite b = true ->
     let e := c17_deps64 s in
     c17_cmp_laws (c17_flt 53 1024 a b) (c17_fgt 53 1024 a b)
       (c17_eq 53 1024 c17_Hprec64 c17_Hmax64 s e a b) (c17_ne 53 1024 c17_Hprec64 c17_Hmax64 s e a b)
       (c17_gt 53 1024 c17_Hprec64 c17_Hmax64 s e a b) (c17_lt 53 1024 c17_Hprec64 c17_Hmax64 s e a b)
       (c17_ge 53 1024 c17_Hprec64 c17_Hmax64 s e a b) (c17_le 53 1024 c17_Hprec64 c17_Hmax64 s e a b) = true).
Proof.
  destruct C17_default_eps_lemma as (D32 & D64 & _).
  split; intros s a b Fa Fb e.
  - destruct (D32 s) as [Fe Se].
    destruct (C17_cmp_algebra_lemma 24 128 c17_Hprec32 c17_Hmax32 s e a b Fa Fb Fe (c17_sign_false_nonneg _ _ e Se))
      as (_ & _ & _ & _ & _ & _ & _ & _ & _ & _ & L). exact L.
  - destruct (D64 s) as [Fe Se].
    destruct (C17_cmp_algebra_lemma 53 1024 c17_Hprec64 c17_Hmax64 s e a b Fa Fb Fe (c17_sign_false_nonneg _ _ e Se))
      as (_ & _ & _ & _ & _ & _ & _ & _ & _ & _ & L). exact L.
Qed.

(* ---------------------------------------------------------------- long double = x87 extended = the format (64, 16384) *)
Definition c17_deps80 := c17_default_eps 64 16384 c17_Hprec80 c17_Hmax80.

(* DefaultEpsilon<long double, style>: 8 * 2^-63 = 2^-60 and max(2^-63, (long double)(double)1e-6); bit patterns in the
   interchange layout 1 + 15 + 63 (integer bit implicit): 0x3fc3|8000000000000000 and 0x3feb|8637bd05af6c6800 as x87 words *)
Lemma C17_default_eps_x87_lemma :
  (forall s, is_finite (c17_deps80 s) = true /\ Bsign (c17_deps80 s) = false) /\
  c17_to_bits 64 16384 79 (c17_deps80 C17_RelWeak) = 0x1fe18000000000000000%Z /\
  c17_to_bits 64 16384 79 (c17_deps80 C17_RelStrong) = 0x1fe18000000000000000%Z /\
  c17_to_bits 64 16384 79 (c17_deps80 C17_Absolute) = 0x1ff58637bd05af6c6800%Z.
Proof. repeat split; try (destruct s; vm_compute; reflexivity); vm_compute; reflexivity. Qed.

Lemma C17_cmp_algebra_x87_lemma (s : c17_cstyle) (eps a b : binary_float 64 16384) :
  is_finite a = true -> is_finite b = true -> is_finite eps = true -> (0 <= B2R eps)%R ->
  c17_eq 64 16384 c17_Hprec80 c17_Hmax80 s eps a b = c17_eq 64 16384 c17_Hprec80 c17_Hmax80 s eps b a /\
  c17_eq 64 16384 c17_Hprec80 c17_Hmax80 s eps a a = true /\
  c17_cmp_laws (c17_flt 64 16384 a b) (c17_fgt 64 16384 a b)
    (c17_eq 64 16384 c17_Hprec80 c17_Hmax80 s eps a b) (c17_ne 64 16384 c17_Hprec80 c17_Hmax80 s eps a b)
    (c17_gt 64 16384 c17_Hprec80 c17_Hmax80 s eps a b) (c17_lt 64 16384 c17_Hprec80 c17_Hmax80 s eps a b)
    (c17_ge 64 16384 c17_Hprec80 c17_Hmax80 s eps a b) (c17_le 64 16384 c17_Hprec80 c17_Hmax80 s eps a b) = true.
Proof.
  intros Fa Fb Fe Pe.
  destruct (C17_cmp_algebra_lemma 64 16384 c17_Hprec80 c17_Hmax80 s eps a b Fa Fb Fe Pe)
    as (S & R & _ & _ & _ & _ & _ & _ & _ & _ & L). auto.
Qed.


(* ---------------------------------------------------------------- FloatCmpOps members forward (cstyle_, rstyle_, epsilon_) *)
Section Ops.
Variable prec emax : Z.
Context (Hprec : Prec_gt_0 prec) (Hmax : Prec_lt_emax prec emax).
Notation fl := (binary_float prec emax).
Notation ops := (c17_ops prec emax).

Lemma C17_ops_forwarding_lemma (o : ops) (e : fl) (t : c17_ity) (a b v : fl) :
  (* every member is the free function at the object's own template arguments and epsilon *)
  c17_ops_eq prec emax Hprec Hmax o a b = c17_eq prec emax Hprec Hmax (c17_ops_cstyle prec emax o) (c17_ops_eps prec emax o) a b /\
  c17_ops_ne prec emax Hprec Hmax o a b = c17_ne prec emax Hprec Hmax (c17_ops_cstyle prec emax o) (c17_ops_eps prec emax o) a b /\
  c17_ops_gt prec emax Hprec Hmax o a b = c17_gt prec emax Hprec Hmax (c17_ops_cstyle prec emax o) (c17_ops_eps prec emax o) a b /\
  c17_ops_lt prec emax Hprec Hmax o a b = c17_lt prec emax Hprec Hmax (c17_ops_cstyle prec emax o) (c17_ops_eps prec emax o) a b /\
  c17_ops_ge prec emax Hprec Hmax o a b = c17_ge prec emax Hprec Hmax (c17_ops_cstyle prec emax o) (c17_ops_eps prec emax o) a b /\
  c17_ops_le prec emax Hprec Hmax o a b = c17_le prec emax Hprec Hmax (c17_ops_cstyle prec emax o) (c17_ops_eps prec emax o) a b /\
  c17_ops_round prec emax Hprec Hmax o t v =
    c17_round_fix prec emax Hprec Hmax (c17_ops_rstyle prec emax o) t (c17_ops_cstyle prec emax o) (c17_ops_eps prec emax o) v /\
  c17_ops_trunc prec emax Hprec Hmax o t v =
    c17_trunc_fix prec emax Hprec Hmax (c17_ops_rstyle prec emax o) t (c17_ops_cstyle prec emax o) (c17_ops_eps prec emax o) v /\
  (* epsilon(e) stores e and nothing else; epsilon() returns it *)
  c17_ops_eps prec emax (c17_ops_set_eps prec emax o e) = e /\
  c17_ops_cstyle prec emax (c17_ops_set_eps prec emax o e) = c17_ops_cstyle prec emax o /\
  c17_ops_rstyle prec emax (c17_ops_set_eps prec emax o e) = c17_ops_rstyle prec emax o /\
  (* the default constructor takes DefaultEpsilon of the object's own compare style *)
  (forall cs rs, c17_ops_eps prec emax (c17_ops_default prec emax Hprec Hmax cs rs) = c17_default_eps prec emax Hprec Hmax cs).
Proof. repeat split. Qed.

(* hence the comparison algebra for the member forms *)
Lemma C17_ops_algebra_lemma (o : ops) (a b : fl) :
  is_finite a = true -> is_finite b = true -> is_finite (c17_ops_eps prec emax o) = true -> (0 <= B2R (c17_ops_eps prec emax o))%R ->
  c17_ops_eq prec emax Hprec Hmax o a b = c17_ops_eq prec emax Hprec Hmax o b a /\
  c17_cmp_laws (c17_flt prec emax a b) (c17_fgt prec emax a b)
    (c17_ops_eq prec emax Hprec Hmax o a b) (c17_ops_ne prec emax Hprec Hmax o a b) (c17_ops_gt prec emax Hprec Hmax o a b)
    (c17_ops_lt prec emax Hprec Hmax o a b) (c17_ops_ge prec emax Hprec Hmax o a b) (c17_ops_le prec emax Hprec Hmax o a b) = true.
Proof.
  intros Fa Fb Fe Pe. unfold c17_ops_eq, c17_ops_ne, c17_ops_gt, c17_ops_lt, c17_ops_ge, c17_ops_le.
  destruct (C17_cmp_algebra_lemma prec emax Hprec Hmax (c17_ops_cstyle prec emax o) (c17_ops_eps prec emax o) a b Fa Fb Fe Pe)
    as (S & _ & _ & _ & _ & _ & _ & _ & _ & _ & L). auto.
Qed.
End Ops.

(* the compare style of the object matters for trunc / round (a member that ignored cstyle_ or rstyle_ would be visible):
   binary64, eps = 0.05, val = 2.9: relativeWeak says 3 is near (0.1 <= 0.05*3), absolute does not;
   val = 2.5: round downward 2, upward 3 *)
Definition c17_ex_f64' (bits : Z) : binary_float 53 1024 := c17_of_bits 53 1024 c17_Hprec64 c17_Hmax64 64 bits.
Lemma C17_ops_styles_matter_lemma :
  let eps := c17_ex_f64' 0x3fa999999999999a in
  let i32 := C17_Ity true 32 in
  c17_ops_trunc 53 1024 c17_Hprec64 c17_Hmax64 (C17_Ops 53 1024 C17_RelWeak C17_Downward eps) i32 (c17_ex_f64' 0x4007333333333333) = C17_Val 3%Z /\
  c17_ops_trunc 53 1024 c17_Hprec64 c17_Hmax64 (C17_Ops 53 1024 C17_Absolute C17_Downward eps) i32 (c17_ex_f64' 0x4007333333333333) = C17_Val 2%Z /\
  c17_ops_round 53 1024 c17_Hprec64 c17_Hmax64 (C17_Ops 53 1024 C17_Absolute C17_Downward eps) i32 (c17_ex_f64' 0x4004000000000000) = C17_Val 2%Z /\
  c17_ops_round 53 1024 c17_Hprec64 c17_Hmax64 (C17_Ops 53 1024 C17_Absolute C17_Upward eps) i32 (c17_ex_f64' 0x4004000000000000) = C17_Val 3%Z.
Proof. cbv zeta. repeat split; vm_compute; reflexivity. Qed.

(* the literals of math.hh re-read from the source agree with the model *)
Lemma C17_source_literals_lemma :
  (forall v : Z, c17_isign_src v = c17_isign v) /\
  (forall n : Z, c17_binomial_nn_src n = if (0 <=? n)%Z then 1%Z else 0%Z) /\
  (forall (t : c17_ity) (n : Z), c17_inrange t 0%Z = true -> c17_inrange t n = true -> c17_inrange t 1%Z = true ->
     c17_binomial_fix t n n = C17_Val (c17_binomial_nn_src n)).
Proof.
  split; [|split].
  - intros v. unfold c17_isign_src, c17_isign. destruct (v <? 0)%Z; reflexivity.
  - intros n. unfold c17_binomial_nn_src. destruct (0 <=? n)%Z; reflexivity.
  - intros t n R0 Rn R1. unfold c17_binomial_nn_src.
    change c17_param_binom_nn_then with 1%Z. change c17_param_binom_nn_else with 0%Z.
    destruct (Z.leb_spec 0 n) as [Hn|Hn].
    + rewrite (C17_Proofs_BinFix.C17_binomial_exact_lemma t n n ltac:(lia) R0 Rn).
      * unfold c17_spec_binomial. rewrite (proj2 (Z.ltb_ge n 0)), Z.ltb_irrefl by lia. simpl. now rewrite C17_Proofs_Int.c17_choose_nn.
      * unfold c17_spec_binomial. rewrite (proj2 (Z.ltb_ge n 0)), Z.ltb_irrefl by lia. simpl. now rewrite C17_Proofs_Int.c17_choose_nn.
    + apply C17_Proofs_BinFix.C17_binomial_fix_outside_lemma. lia.
Qed.

(* integer promotion of narrow result types in trunc: `T(lower+1)` is evaluated on the int expression, the returned value is
   converted back modulo 2^w; invisible whenever floor(val)+1 is a value of the type (C17_trunc_round), visible one past the top *)
Lemma C17_promotion_lemma :
  (forall (t : c17_ity) (z : Z), c17_inrange t z = true -> c17_expr t z = C17_Val z /\ c17_store t z = C17_Val z) /\
  c17_expr (C17_Ity false 16) 65536 = C17_Val 65536%Z /\ c17_store (C17_Ity false 16) 65536 = C17_Val 0%Z /\
  c17_store (C17_Ity true 16) 32768 = C17_Val (-32768)%Z /\
  c17_expr (C17_Ity false 32) 4294967296 = C17_Val 0%Z /\
  (* trunc<unsigned short, double, relativeStrong, upward>(65535.999999999985, eps 1) == 1 before fixes/C17-4.patch, 65535 after *)
  c17_trunc_v2 53 1024 c17_Hprec64 c17_Hmax64 C17_Upward (C17_Ity false 16) C17_RelStrong
    (c17_ex_f64' 0x3ff0000000000000) (c17_ex_f64' 0x40effffffffffffe) = C17_Val 1%Z /\
  c17_trunc_fix 53 1024 c17_Hprec64 c17_Hmax64 C17_Upward (C17_Ity false 16) C17_RelStrong
    (c17_ex_f64' 0x3ff0000000000000) (c17_ex_f64' 0x40effffffffffffe) = C17_Val 65535%Z.
Proof.
  split; [intros t z H; split; [now apply c17_expr_in | now apply c17_store_in]|].
  repeat split; vm_compute; reflexivity.
Qed.

(* F-C17-4: before fixes/C17-4.patch (c17_trunc_v2) / after (c17_trunc_fix), binary64, eps = 1e-4 (0x3f1a36e2eb1c432d), val = 32767.9999 / 65535.9999 *)
Lemma C17_trunc_top_witnesses_lemma :
  let eps := c17_ex_f64' 0x3f1a36e2eb1c432d in
  c17_trunc_v2 53 1024 c17_Hprec64 c17_Hmax64 C17_Downward (C17_Ity true 16) C17_RelWeak eps (c17_ex_f64' 0x40dffffffe5c91d1) = C17_Val (-32768)%Z /\
  c17_trunc_fix 53 1024 c17_Hprec64 c17_Hmax64 C17_Downward (C17_Ity true 16) C17_RelWeak eps (c17_ex_f64' 0x40dffffffe5c91d1) = C17_Val 32767%Z /\
  c17_trunc_v2 53 1024 c17_Hprec64 c17_Hmax64 C17_Downward (C17_Ity false 16) C17_RelWeak eps (c17_ex_f64' 0x40efffffff2e48e9) = C17_Val 0%Z /\
  c17_trunc_fix 53 1024 c17_Hprec64 c17_Hmax64 C17_Downward (C17_Ity false 16) C17_RelWeak eps (c17_ex_f64' 0x40efffffff2e48e9) = C17_Val 65535%Z /\
  c17_trunc_v2 53 1024 c17_Hprec64 c17_Hmax64 C17_Downward (C17_Ity true 32) C17_RelWeak eps (c17_ex_f64' 0x41dfffffffe00000) = C17_UB /\
  c17_trunc_fix 53 1024 c17_Hprec64 c17_Hmax64 C17_Downward (C17_Ity true 32) C17_RelWeak eps (c17_ex_f64' 0x41dfffffffe00000) = C17_Val 2147483647%Z.
Proof. cbv zeta. repeat split; vm_compute; reflexivity. Qed.
