(* C17 — the remaining public entry points: ordering comparisons on vectors, defaulted epsilons / styles. *)
From Coq Require Import ZArith Reals List Bool Lia.
From Flocq Require Import Core BinarySingleNaN.
From DuneV Require Import Params_gen C17_Model C17_Spec C17_Spec_Round C17_Defaults C17_Proofs_Cmp C17_Proofs_Round.
Import ListNotations.

Section VecOrder.
Variable prec emax : Z.
Context (Hprec : Prec_gt_0 prec) (Hmax : Prec_lt_emax prec emax).
Notation fl := (binary_float prec emax).

Definition c17_opp_oc (c : option comparison) : option comparison :=
  match c with Some x => Some (CompOpp x) | None => None end.

Lemma c17_vlex_swap (a b : list fl) : c17_vlex prec emax b a = c17_opp_oc (c17_vlex prec emax a b).
Proof.
  revert b; induction a as [|x a IH]; intros [|y b]; simpl; try reflexivity.
  rewrite (Bcompare_swap prec emax x y). destruct (Bcompare x y) as [[| |]|]; simpl; auto.
Qed.

Lemma c17_vfgt_swap (a b : list fl) : c17_vfgt prec emax a b = c17_vflt prec emax b a.
Proof. unfold c17_vfgt, c17_vflt. rewrite (c17_vlex_swap a b). destruct (c17_vlex prec emax a b) as [[| |]|]; reflexivity. Qed.

Lemma c17_vflt_vfgt_excl (a b : list fl) : c17_vflt prec emax a b && c17_vfgt prec emax a b = false.
Proof. unfold c17_vfgt, c17_vflt. destruct (c17_vlex prec emax a b) as [[| |]|]; reflexivity. Qed.

Lemma c17_veq_sym (s : c17_cstyle) (eps : fl) (a b : list fl) :
  Forall (fun x => is_finite x = true) a -> Forall (fun x => is_finite x = true) b ->
  c17_veq prec emax Hprec Hmax s eps a b = c17_veq prec emax Hprec Hmax s eps b a.
Proof.
  intros Fa; revert b; induction Fa as [|x a Fx Fa IH]; intros b Fb; destruct Fb as [|y b Fy Fb]; simpl; try reflexivity.
  rewrite (c17_eq_sym prec emax Hprec Hmax s eps x y Fx Fy). rewrite (IH b Fb). reflexivity.
Qed.

(* ne = !eq, ge = gt || eq, le = lt || eq, never both lt and gt (any lists); gt a b = lt b a, ge a b = le b a (finite components) *)
Lemma C17_vector_order_lemma (s : c17_cstyle) (eps : fl) (a b : list fl) :
  let VEQ := c17_veq prec emax Hprec Hmax s eps in
  let VNE := c17_vne prec emax Hprec Hmax s eps in
  let VGT := c17_vgt prec emax Hprec Hmax s eps in
  let VLT := c17_vlt prec emax Hprec Hmax s eps in
  let VGE := c17_vge prec emax Hprec Hmax s eps in
  let VLE := c17_vle prec emax Hprec Hmax s eps in
  VNE a b = negb (VEQ a b) /\ VGE a b = (VGT a b || VEQ a b) /\ VLE a b = (VLT a b || VEQ a b) /\
  VLT a b && VGT a b = false /\ (VEQ a b = true -> VLT a b = false /\ VGT a b = false) /\
  (Forall (fun x => is_finite x = true) a -> Forall (fun x => is_finite x = true) b ->
   VEQ a b = VEQ b a /\ VGT a b = VLT b a /\ VGE a b = VLE b a).
Proof.
  cbv zeta. unfold c17_vge, c17_vle, c17_vgt, c17_vlt, c17_vne.
  pose proof (c17_vflt_vfgt_excl a b) as X.
  split; [reflexivity|].
  split; [destruct (c17_vfgt prec emax a b), (c17_veq prec emax Hprec Hmax s eps a b); reflexivity|].
  split; [destruct (c17_vflt prec emax a b), (c17_veq prec emax Hprec Hmax s eps a b); reflexivity|].
  split; [destruct (c17_vflt prec emax a b), (c17_vfgt prec emax a b), (c17_veq prec emax Hprec Hmax s eps a b); try reflexivity; discriminate X|].
  split; [intros ->; now rewrite !andb_false_r|].
  intros Fa Fb. split; [now apply c17_veq_sym|].
  rewrite (c17_vfgt_swap a b), (c17_veq_sym s eps a b Fa Fb). split; reflexivity.
Qed.
End VecOrder.

(* DefaultEpsilon<T,style>::value() for float and double, with the literals re-read from the source:
   finite, non-negative, and the documented values 8 * machine epsilon resp. max(machine epsilon, 1e-6) *)
Definition c17_deps32 := c17_default_eps 24 128 c17_Hprec32 c17_Hmax32.
Definition c17_deps64 := c17_default_eps 53 1024 c17_Hprec64 c17_Hmax64.

Lemma C17_default_eps_lemma :
  (forall s, is_finite (c17_deps32 s) = true /\ Bsign (c17_deps32 s) = false) /\
  (forall s, is_finite (c17_deps64 s) = true /\ Bsign (c17_deps64 s) = false) /\
  c17_to_bits 24 128 32 (c17_deps32 C17_RelWeak) = 0x35800000%Z /\
  c17_to_bits 24 128 32 (c17_deps32 C17_RelStrong) = 0x35800000%Z /\
  c17_to_bits 24 128 32 (c17_deps32 C17_Absolute) = 0x358637bd%Z /\
  c17_to_bits 53 1024 64 (c17_deps64 C17_RelWeak) = 0x3ce0000000000000%Z /\
  c17_to_bits 53 1024 64 (c17_deps64 C17_RelStrong) = 0x3ce0000000000000%Z /\
  c17_to_bits 53 1024 64 (c17_deps64 C17_Absolute) = 0x3eb0c6f7a0b5ed8d%Z /\
  c17_default_cstyle = C17_RelWeak /\ c17_default_rstyle = C17_TowardZero.
Proof.
  repeat split; try (destruct s; vm_compute; reflexivity); vm_compute; reflexivity.
Qed.

(* hence the comparison algebra holds for the overloads that default the epsilon (float, double; every style) *)
Lemma C17_cmp_algebra_default_eps_lemma :
  (forall (s : c17_cstyle) (a b : binary_float 24 128), is_finite a = true -> is_finite b = true ->
     let e := c17_deps32 s in
     c17_cmp_laws (c17_flt 24 128 a b) (c17_fgt 24 128 a b)
       (c17_eq 24 128 c17_Hprec32 c17_Hmax32 s e a b) (c17_ne 24 128 c17_Hprec32 c17_Hmax32 s e a b)
       (c17_gt 24 128 c17_Hprec32 c17_Hmax32 s e a b) (c17_lt 24 128 c17_Hprec32 c17_Hmax32 s e a b)
       (c17_ge 24 128 c17_Hprec32 c17_Hmax32 s e a b) (c17_le 24 128 c17_Hprec32 c17_Hmax32 s e a b) = true) /\
  (forall (s : c17_cstyle) (a b : binary_float 53 1024), is_finite a = true -> is_finite b = true ->
     let e := c17_deps64 s in
     c17_cmp_laws (c17_flt 53 1024 a b) (c17_fgt 53 1024 a b)
       (c17_eq 53 1024 c17_Hprec64 c17_Hmax64 s e a b) (c17_ne 53 1024 c17_Hprec64 c17_Hmax64 s e a b)
       (c17_gt 53 1024 c17_Hprec64 c17_Hmax64 s e a b) (c17_lt 53 1024 c17_Hprec64 c17_Hmax64 s e a b)
       (c17_ge 53 1024 c17_Hprec64 c17_Hmax64 s e a b) (c17_le 53 1024 c17_Hprec64 c17_Hmax64 s e a b) = true).
Proof.
  destruct C17_default_eps_lemma as (D32 & D64 & _).
  split; intros s a b Fa Fb e.
  - destruct (D32 s) as [Fe Se].
    destruct (C17_cmp_algebra_lemma 24 128 c17_Hprec32 c17_Hmax32 s e a b Fa Fb Fe (c17_sign_false_nonneg _ _ e Se))
      as (_ & _ & _ & _ & _ & _ & _ & _ & _ & _ & L). exact L.
  - destruct (D64 s) as [Fe Se].
    destruct (C17_cmp_algebra_lemma 53 1024 c17_Hprec64 c17_Hmax64 s e a b Fa Fb Fe (c17_sign_false_nonneg _ _ e Se))
      as (_ & _ & _ & _ & _ & _ & _ & _ & _ & _ & L). exact L.
Qed.

(* ---------------------------------------------------------------- long double = x87 extended = the format (64, 16384) *)
Definition c17_deps80 := c17_default_eps 64 16384 c17_Hprec80 c17_Hmax80.

(* DefaultEpsilon<long double, style>: 8 * 2^-63 = 2^-60 and max(2^-63, (long double)(double)1e-6); bit patterns in the
   interchange layout 1 + 15 + 63 (integer bit implicit): 0x3fc3|8000000000000000 and 0x3feb|8637bd05af6c6800 as x87 words *)
Lemma C17_default_eps_x87_lemma :
  (forall s, is_finite (c17_deps80 s) = true /\ Bsign (c17_deps80 s) = false) /\
  c17_to_bits 64 16384 79 (c17_deps80 C17_RelWeak) = 0x1fe18000000000000000%Z /\
  c17_to_bits 64 16384 79 (c17_deps80 C17_RelStrong) = 0x1fe18000000000000000%Z /\
  c17_to_bits 64 16384 79 (c17_deps80 C17_Absolute) = 0x1ff58637bd05af6c6800%Z.
Proof. repeat split; try (destruct s; vm_compute; reflexivity); vm_compute; reflexivity. Qed.

Lemma C17_cmp_algebra_x87_lemma (s : c17_cstyle) (eps a b : binary_float 64 16384) :
  is_finite a = true -> is_finite b = true -> is_finite eps = true -> (0 <= B2R eps)%R ->
  c17_eq 64 16384 c17_Hprec80 c17_Hmax80 s eps a b = c17_eq 64 16384 c17_Hprec80 c17_Hmax80 s eps b a /\
  c17_eq 64 16384 c17_Hprec80 c17_Hmax80 s eps a a = true /\
  c17_cmp_laws (c17_flt 64 16384 a b) (c17_fgt 64 16384 a b)
    (c17_eq 64 16384 c17_Hprec80 c17_Hmax80 s eps a b) (c17_ne 64 16384 c17_Hprec80 c17_Hmax80 s eps a b)
    (c17_gt 64 16384 c17_Hprec80 c17_Hmax80 s eps a b) (c17_lt 64 16384 c17_Hprec80 c17_Hmax80 s eps a b)
    (c17_ge 64 16384 c17_Hprec80 c17_Hmax80 s eps a b) (c17_le 64 16384 c17_Hprec80 c17_Hmax80 s eps a b) = true.
Proof.
  intros Fa Fb Fe Pe.
  destruct (C17_cmp_algebra_lemma 64 16384 c17_Hprec80 c17_Hmax80 s eps a b Fa Fb Fe Pe)
    as (S & R & _ & _ & _ & _ & _ & _ & _ & _ & L). auto.
Qed.

