(* C17 — binomial after fixes/C17-1.patch (incremental product, reduced by the gcd that a literal Euclid loop computes):
   exact whenever C(n,k) is representable. *)
From Coq Require Import ZArith Znumtheory List Bool Lia.
From DuneV Require Import C17_Model C17_Spec C17_Proofs_Int.
Local Open Scope Z_scope.

Lemma c17_choose_pos (n k : nat) : (k <= n)%nat -> 1 <= c17_choose n k.
Proof.
  intros H. pose proof (c17_choose_fact n k H) as F. pose proof (c17_choose_nonneg n k) as P.
  pose proof (c17_fact_pos n). pose proof (c17_fact_pos k). pose proof (c17_fact_pos (n - k)).
  destruct (Z.eq_dec (c17_choose n k) 0) as [E|E]; [rewrite E in F; lia | lia].
Qed.

(* absorption:  (j+1) C(m+j+1, j+1) = (m+j+1) C(m+j, j) *)
Lemma c17_choose_absorb (m j : nat) :
  Z.of_nat (S j) * c17_choose (S (m + j)) (S j) = Z.of_nat (S (m + j)) * c17_choose (m + j) j.
Proof.
  assert (H1 : (S j <= S (m + j))%nat) by lia. assert (H2 : (j <= m + j)%nat) by lia.
  pose proof (c17_choose_fact _ _ H1) as F1. pose proof (c17_choose_fact _ _ H2) as F2.
  replace (S (m + j) - S j)%nat with m in F1 by lia. replace (m + j - j)%nat with m in F2 by lia.
  change (c17_fact (S j)) with (Z.of_nat (S j) * c17_fact j) in F1.
  change (c17_fact (S (m + j))) with (Z.of_nat (S (m + j)) * c17_fact (m + j)) in F1.
  pose proof (c17_fact_pos j). pose proof (c17_fact_pos m).
  apply (Z.mul_cancel_r _ _ (c17_fact j * c17_fact m)); [nia|].
  rewrite <- F2 in F1.
  replace (Z.of_nat (S j) * c17_choose (S (m + j)) (S j) * (c17_fact j * c17_fact m))
    with (c17_choose (S (m + j)) (S j) * (Z.of_nat (S j) * c17_fact j * c17_fact m)) by ring.
  rewrite F1. ring.
Qed.

Lemma c17_choose_step_mono (m j : nat) : c17_choose (m + j) j <= c17_choose (S (m + j)) (S j).
Proof.
  change (c17_choose (S (m + j)) (S j)) with (c17_choose (m + j) j + c17_choose (m + j) (S j)).
  pose proof (c17_choose_nonneg (m + j) (S j)). lia.
Qed.

Lemma c17_choose_diag_mono (m j c : nat) : c17_choose (m + j) j <= c17_choose (m + (j + c)) (j + c).
Proof.
  induction c as [|c IH].
  - rewrite Nat.add_0_r. lia.
  - replace (j + S c)%nat with (S (j + c)) by lia. replace (m + S (j + c))%nat with (S (m + (j + c))) by lia.
    pose proof (c17_choose_step_mono m (j + c)). lia.
Qed.

(* one step of the arithmetic: bin (m+i) / i computed as (bin/g) * ((m+i) / (i/g)),  g = gcd(bin, i) *)
Lemma c17_gcd_step (bin i b c' : Z) :
  0 < bin -> 0 < i -> i * c' = b * bin ->
  let g := Z.gcd bin i in
  0 < g /\ 0 < i / g /\ (bin / g) * (b / (i / g)) = c'.
Proof.
  intros Hb Hi E g.
  assert (Hg : 0 < g).
  { unfold g. pose proof (Z.gcd_nonneg bin i). destruct (Z.eq_dec (Z.gcd bin i) 0) as [Z0|]; [|lia].
    apply Z.gcd_eq_0_l in Z0. lia. }
  destruct (Z.gcd_divide_l bin i) as [a Ha]. destruct (Z.gcd_divide_r bin i) as [d Hd].
  fold g in Ha, Hd.
  assert (Ea : bin / g = a) by (rewrite Ha; apply Z.div_mul; lia).
  assert (Ed : i / g = d) by (rewrite Hd; apply Z.div_mul; lia).
  assert (Pd : 0 < d) by nia. assert (Pa : 0 < a) by nia.
  assert (Cop : Z.gcd a d = 1).
  { rewrite <- Ea, <- Ed. apply Z.gcd_div_gcd; [lia | reflexivity]. }
  (* d c' = b a *)
  assert (E2 : d * c' = b * a).
  { apply (Z.mul_cancel_l _ _ g); [lia|]. rewrite Ha, Hd in E. nia. }
  assert (Dv : (d | b)).
  { apply (Z.gauss d a b); [exists c'; lia | now rewrite Z.gcd_comm]. }
  destruct Dv as [e He].
  repeat split; try lia.
  rewrite Ea, Ed, He, Z.div_mul by lia.
  apply (Z.mul_cancel_l _ _ d); [lia|]. rewrite E2, He. ring.
Qed.

Lemma c17_idiv_pos (t : c17_ity) (a b : Z) :
  0 <= a -> 0 < b -> c17_inrange t 0 = true -> c17_inrange t a = true -> c17_idiv t a b = C17_Val (a / b).
Proof.
  intros Ha Hb R0 Ra. unfold c17_idiv.
  assert (E : (b =? 0) = false) by (apply Z.eqb_neq; lia). rewrite E.
  rewrite Z.quot_div_nonneg by lia.
  apply c17_fit_in. apply (c17_inrange_between t 0 _ a); auto.
  split; [apply Z.div_pos; lia | apply Z.div_le_upper_bound; nia].
Qed.

(* Euclid's loop computes Z.gcd for non-negative representable arguments, and never runs out of fuel once fuel > r *)
Lemma C17_euclid_gcd_lemma (t : c17_ity) (fuel : nat) : forall g r : Z,
  c17_inrange t 0 = true -> c17_inrange t g = true -> c17_inrange t r = true ->
  0 <= g -> 0 <= r -> (Z.to_nat r < fuel)%nat ->
  c17_euclid_loop fuel t g r = C17_Val (Z.gcd g r).
Proof.
  induction fuel as [|f IH]; intros g r R0 Rg Rr Hg Hr Hf; [lia|].
  cbn [c17_euclid_loop]. destruct (Z.eqb_spec r 0) as [->|Nz].
  - rewrite Z.gcd_0_r, Z.abs_eq by lia. reflexivity.
  - unfold c17_irem. assert (E : (r =? 0) = false) by (now apply Z.eqb_neq). rewrite E.
    rewrite Z.rem_mod_nonneg by lia.
    pose proof (Z.mod_pos_bound g r ltac:(lia)) as B.
    rewrite (c17_fit_in t (g mod r)) by (apply (c17_inrange_between t 0 _ r); auto; lia).
    cbn [c17_bind]. rewrite IH; auto; try lia.
    + f_equal. rewrite (Z.gcd_comm r (g mod r)), Z.gcd_mod by lia. apply Z.gcd_comm.
    + apply (c17_inrange_between t 0 _ r); auto; lia.
Qed.

Lemma c17_binomial_fix_loop_S (t : c17_ity) (c : nat) (nk i bin : Z) :
  c17_binomial_fix_loop t (S c) nk i bin =
    c17_bind (c17_euclid_loop (c17_euclid_fuel i) t bin i) (fun g =>
    c17_bind (c17_idiv t bin g) (fun a =>
    c17_bind (c17_fit t (nk + i)) (fun b =>
    c17_bind (c17_idiv t i g) (fun d =>
    c17_bind (c17_idiv t b d) (fun e =>
    c17_bind (c17_fit t (a * e)) (fun bin' =>
    c17_bind (c17_fit t (i + 1)) (fun i' =>
    c17_binomial_fix_loop t c nk i' bin'))))))).
Proof. reflexivity. Qed.

(* the loop: after j completed iterations bin = C(m+j, j); cnt more iterations give C(m+j+cnt, j+cnt) *)
Lemma c17_binomial_fix_loop_ok (t : c17_ity) (m : nat) (cnt : nat) : forall j : nat,
  c17_inrange t 0 = true ->
  (j + cnt <= m)%nat ->                                                  (* k <= n-k: so ++i stays <= n *)
  c17_inrange t (Z.of_nat (m + (j + cnt))) = true ->
  c17_inrange t (c17_choose (m + (j + cnt)) (j + cnt)) = true ->
  c17_binomial_fix_loop t cnt (Z.of_nat m) (Z.of_nat (S j)) (c17_choose (m + j) j)
    = C17_Val (c17_choose (m + (j + cnt)) (j + cnt)).
Proof.
  induction cnt as [|c IH]; intros j R0 Hjm RN' RC.
  - simpl. now rewrite Nat.add_0_r.
  - rewrite c17_binomial_fix_loop_S.
    set (bin := c17_choose (m + j) j). set (i := Z.of_nat (S j)).
    set (c' := c17_choose (S (m + j)) (S j)). set (b := Z.of_nat m + i).
    assert (Pb : 0 < bin) by (pose proof (c17_choose_pos (m + j) j ltac:(lia)); unfold bin; lia).
    assert (Pi : 0 < i) by (unfold i; lia).
    assert (E : i * c' = b * bin).
    { unfold i, c', b, bin. rewrite c17_choose_absorb. f_equal. lia. }
    destruct (c17_gcd_step bin i b c' Pb Pi E) as (Pg & Pd & Eq).
    set (g := Z.gcd bin i) in *.
    (* ranges *)
    set (fin := c17_choose (m + (j + S c)) (j + S c)) in *.
    assert (Lfin : c' <= fin).
    { unfold c', fin. replace (S (m + j)) with (m + S j)%nat by lia.
      replace (j + S c)%nat with (S j + c)%nat by lia. apply c17_choose_diag_mono. }
    assert (Lbc : bin <= c') by (apply c17_choose_step_mono).
    assert (Rbin : c17_inrange t bin = true) by (apply (c17_inrange_between t 0 _ fin); auto; lia).
    assert (Rb : c17_inrange t b = true).
    { apply (c17_inrange_between t 0 _ (Z.of_nat (m + (j + S c)))); auto. unfold b, i. lia. }
    assert (Ri : c17_inrange t i = true).
    { apply (c17_inrange_between t 0 _ (Z.of_nat (m + (j + S c)))); auto. unfold i. lia. }
    rewrite (C17_euclid_gcd_lemma t (c17_euclid_fuel i) bin i R0 Rbin Ri) by (unfold c17_euclid_fuel; lia).
    cbn [c17_bind]. fold g.
    rewrite (c17_idiv_pos t bin g) by (auto; lia). cbn [c17_bind].
    fold i. fold b. rewrite (c17_fit_in t b Rb). cbn [c17_bind].
    rewrite (c17_idiv_pos t i g) by (auto; lia). cbn [c17_bind].
    rewrite (c17_idiv_pos t b (i / g)) by (auto; unfold b, i; lia). cbn [c17_bind].
    rewrite Eq.
    rewrite (c17_fit_in t c') by (apply (c17_inrange_between t 0 _ fin); auto; lia). cbn [c17_bind].
    rewrite (c17_fit_in t (i + 1)).
    2:{ apply (c17_inrange_between t 0 _ (Z.of_nat (m + (j + S c)))); auto. unfold i. lia. }
    cbn [c17_bind].
    replace (i + 1) with (Z.of_nat (S (S j))) by (unfold i; lia).
    unfold c'. replace (S (m + j)) with (m + S j)%nat by lia.
    rewrite (IH (S j)); auto.
    + unfold fin. f_equal. f_equal; lia.
    + lia.
    + replace (m + (S j + c))%nat with (m + (j + S c))%nat by lia. exact RN'.
    + replace (S j + c)%nat with (j + S c)%nat by lia. exact RC.
Qed.

(* binomial after the fix: the exact Pascal-triangle value whenever C(n,k) is representable
   (n, k values of the type, 0 <= k <= n); no other hypothesis *)
Lemma C17_binomial_exact_lemma (t : c17_ity) (n k : Z) :
  0 <= k <= n ->
  c17_inrange t 0 = true -> c17_inrange t n = true ->
  c17_inrange t (c17_spec_binomial n k) = true ->
  c17_binomial_fix t n k = C17_Val (c17_spec_binomial n k).
Proof.
  intros Hk R0 Rn RC. unfold c17_spec_binomial in *.
  assert (E1 : (k <? 0) = false) by (apply Z.ltb_ge; lia).
  assert (E2 : (n <? k) = false) by (apply Z.ltb_ge; lia).
  rewrite E1, E2 in *. cbn [orb] in *.
  set (N := Z.to_nat n) in *. set (K := Z.to_nat k) in *.
  assert (En : n = Z.of_nat N) by (unfold N; lia). assert (Ek : k = Z.of_nat K) by (unfold K; lia).
  assert (HKN : (K <= N)%nat) by lia.
  unfold c17_binomial_fix. cbn [c17_binomial_fix_fuel]. rewrite E1, E2. cbn [orb].
  rewrite (c17_fit_in t (n - k)) by (apply (c17_inrange_between t 0 _ n); auto; lia). cbn [c17_bind].
  destruct (Z.ltb_spec (n - k) k) as [Hlt|Hge].
  - (* symmetry reduction: binomial(n, n-k) *)
    assert (E3 : (n - k <? 0) = false) by (apply Z.ltb_ge; lia).
    assert (E4 : (n <? n - k) = false) by (apply Z.ltb_ge; lia).
    rewrite E3, E4. cbn [orb].
    rewrite (c17_fit_in t (n - (n - k))) by (apply (c17_inrange_between t 0 _ n); auto; lia). cbn [c17_bind].
    assert (E5 : (n - (n - k) <? n - k) = false) by (apply Z.ltb_ge; lia). rewrite E5.
    replace (n - (n - k)) with (Z.of_nat K) by lia.
    replace (Z.to_nat (n - k)) with (N - K)%nat by lia.
    pose proof (c17_binomial_fix_loop_ok t K (N - K) 0 R0) as L.
    replace (K + (0 + (N - K)))%nat with N in L by lia. replace (0 + (N - K))%nat with (N - K)%nat in L by lia.
    rewrite Nat.add_0_r in L. change (c17_choose K 0) with (c17_choose K 0) in L. rewrite c17_choose_n0 in L.
    change (Z.of_nat 1) with 1 in L.
    rewrite L.
    + f_equal. symmetry. apply c17_choose_sym. lia.
    + lia.
    + now rewrite <- En.
    + rewrite <- c17_choose_sym by lia. exact RC.
  - replace (Z.to_nat k) with K by reflexivity.
    replace (n - k) with (Z.of_nat (N - K)) by lia.
    pose proof (c17_binomial_fix_loop_ok t (N - K) K 0 R0) as L.
    replace (N - K + (0 + K))%nat with N in L by lia. replace (0 + K)%nat with K in L by lia.
    rewrite Nat.add_0_r in L. rewrite c17_choose_n0 in L. change (Z.of_nat 1) with 1 in L.
    apply L; [lia | now rewrite <- En | exact RC].
Qed.

Lemma C17_binomial_fix_outside_lemma (t : c17_ity) (n k : Z) :
  k < 0 \/ n < k -> c17_binomial_fix t n k = C17_Val 0.
Proof.
  intros H. unfold c17_binomial_fix. cbn [c17_binomial_fix_fuel].
  assert (E : (k <? 0) || (n <? k) = true).
  { destruct H; [apply orb_true_intro; left; now apply Z.ltb_lt | apply orb_true_intro; right; now apply Z.ltb_lt]. }
  now rewrite E.
Qed.

(* the former witnesses are repaired, also for the unsigned type *)
Lemma C17_binomial_fix_witnesses_lemma :
  c17_binomial_fix (C17_Ity true 32) 18 9 = C17_Val 48620 /\
  c17_binomial_fix (C17_Ity false 32) 18 9 = C17_Val 48620 /\
  c17_binomial_fix (C17_Ity true 64) 40 20 = C17_Val 137846528820 /\
  c17_binomial_fix (C17_Ity true 32) 33 16 = C17_Val 1166803110 /\      (* 16 C(33,16) does not fit int32: the gcd reduction matters *)
  c17_binomial_fix (C17_Ity false 32) 2147483649 2147483648 = C17_Val 2147483649.
Proof. repeat split; vm_compute; reflexivity. Qed.
