(* C17 — the comparison algebra.
   Part 1: over an abstract structure (any carrier, any exact order [lt], any tolerant equality [eq])
           from three laws: eq symmetric, lt asymmetric, "neither less nor greater => eq".
   Part 2: the three laws for the Flocq model [c17_eq] at every format (prec, emax), every style,
           all finite arguments, every finite eps >= 0 (overflow of a-b and of eps*max included). *)
From Coq Require Import ZArith Reals List Bool Lia Lra.
From Flocq Require Import Core BinarySingleNaN.
From DuneV Require Import C17_Model C17_Spec.
Import ListNotations.

(* ------------------------------------------------------------------ Part 1 *)
Section Abstract.
Variable T : Type.
Variable lt : T -> T -> bool.          (* exact order: first < second *)
Variable eq : T -> T -> bool.          (* tolerant equality *)
Variable dom : T -> Prop.              (* the arguments the laws are claimed for (finite numbers) *)
Hypothesis eq_sym : forall a b, dom a -> dom b -> eq a b = eq b a.
Hypothesis lt_asym : forall a b, dom a -> dom b -> lt a b = true -> lt b a = false.
Hypothesis tri_eq : forall a b, dom a -> dom b -> lt a b = false -> lt b a = false -> eq a b = true.

Definition a_ne a b := negb (eq a b).
Definition a_gt a b := lt b a && a_ne a b.
Definition a_lt a b := lt a b && a_ne a b.
Definition a_ge a b := lt b a || eq a b.
Definition a_le a b := lt a b || eq a b.

Lemma abstract_cmp_laws a b : dom a -> dom b ->
  c17_cmp_laws (lt a b) (lt b a) (eq a b) (a_ne a b) (a_gt a b) (a_lt a b) (a_ge a b) (a_le a b) = true.
Proof.
  intros Da Db. unfold c17_cmp_laws, a_ge, a_le, a_gt, a_lt, a_ne.
  pose proof (lt_asym a b Da Db) as H1. pose proof (lt_asym b a Db Da) as H2.
  pose proof (tri_eq a b Da Db) as H3.
  destruct (lt a b) eqn:E1, (lt b a) eqn:E2, (eq a b) eqn:E3; simpl; try reflexivity;
    try (specialize (H1 eq_refl); discriminate H1);
    try (specialize (H2 eq_refl); discriminate H2);
    try (specialize (H3 eq_refl eq_refl); discriminate H3).
Qed.

Lemma abstract_refl a : dom a -> eq a a = true.
Proof.
  intros Da. destruct (lt a a) eqn:E.
  - pose proof (lt_asym a a Da Da E). congruence.
  - now apply tri_eq.
Qed.
End Abstract.

(* what [c17_cmp_laws] = true means, spelled out *)
Lemma c17_cmp_laws_spelled xlt xgt eq ne gt lt ge le :
  c17_cmp_laws xlt xgt eq ne gt lt ge le = true ->
  ne = negb eq /\ gt = (xgt && ne) /\ lt = (xlt && ne) /\ ge = (gt || eq) /\ le = (lt || eq) /\
  ((lt = true /\ eq = false /\ gt = false) \/ (lt = false /\ eq = true /\ gt = false) \/ (lt = false /\ eq = false /\ gt = true)).
Proof.
  unfold c17_cmp_laws.
  destruct xlt, xgt, eq, ne, gt, lt, ge, le; simpl; intro H; try discriminate H; repeat split; auto.
Qed.

(* ------------------------------------------------------------------ Part 2 *)
Section Flocq.
Variable prec emax : Z.
Context (Hprec : Prec_gt_0 prec) (Hmax : Prec_lt_emax prec emax).
Notation fl := (binary_float prec emax).
Notation fexp := (SpecFloat.fexp prec emax).
Notation rnd := (round radix2 fexp ZnearestE).

Local Instance fexp_valid : Valid_exp fexp := fexp_correct prec emax Hprec.

(* |a - b| = |b - a| as floats, for finite a b, including the overflow of the subtraction *)
Lemma c17_absdiff_sym (a b : fl) :
  is_finite a = true -> is_finite b = true ->
  Babs (Bminus mode_NE a b) = Babs (Bminus mode_NE b a).
Proof.
  intros Fa Fb.
  pose proof (Bminus_correct prec emax Hprec Hmax mode_NE a b Fa Fb) as H1.
  pose proof (Bminus_correct prec emax Hprec Hmax mode_NE b a Fb Fa) as H2.
  simpl round_mode in H1, H2.
  replace (B2R b - B2R a)%R with (- (B2R a - B2R b))%R in H2 by ring.
  rewrite round_NE_opp in H2. rewrite Rabs_Ropp in H2.
  destruct (Rlt_bool (Rabs (rnd (B2R a - B2R b))) (bpow radix2 emax)).
  - destruct H1 as (R1 & F1 & _). destruct H2 as (R2 & F2 & _).
    apply B2R_Bsign_inj.
    + now rewrite is_finite_Babs.
    + now rewrite is_finite_Babs.
    + rewrite !B2R_Babs, R1, R2. now rewrite Rabs_Ropp.
    + now rewrite !Bsign_Babs.
  - destruct H1 as (S1 & _). destruct H2 as (S2 & _).
    unfold binary_overflow in S1, S2. simpl in S1, S2.
    destruct (Bminus mode_NE a b); try discriminate S1.
    destruct (Bminus mode_NE b a); try discriminate S2.
    reflexivity.
Qed.

(* std::max / std::min of two absolute values are symmetric (no signed-zero ambiguity after abs) *)
Lemma c17_abs_eq_of_not_lt (x y : fl) :
  is_finite x = true -> is_finite y = true ->
  Bltb (Babs x) (Babs y) = false -> Bltb (Babs y) (Babs x) = false -> Babs x = Babs y.
Proof.
  intros Fx Fy H1 H2.
  rewrite Bltb_correct in H1, H2 by now rewrite is_finite_Babs.
  apply B2R_Bsign_inj; try now rewrite is_finite_Babs.
  - destruct (Rlt_bool_spec (B2R (Babs x)) (B2R (Babs y))); try discriminate.
    destruct (Rlt_bool_spec (B2R (Babs y)) (B2R (Babs x))); try discriminate. lra.
  - now rewrite !Bsign_Babs.
Qed.

Lemma c17_lt_asym (x y : fl) :
  is_finite x = true -> is_finite y = true -> Bltb x y = true -> Bltb y x = false.
Proof.
  intros Fx Fy. rewrite !Bltb_correct by assumption.
  destruct (Rlt_bool_spec (B2R x) (B2R y)); try discriminate.
  intros _. destruct (Rlt_bool_spec (B2R y) (B2R x)); try reflexivity. lra.
Qed.

Lemma c17_fmax_abs_sym (a b : fl) :
  is_finite a = true -> is_finite b = true ->
  c17_fmax prec emax (Babs a) (Babs b) = c17_fmax prec emax (Babs b) (Babs a).
Proof.
  intros Fa Fb. unfold c17_fmax, c17_flt.
  destruct (Bltb (Babs a) (Babs b)) eqn:E1.
  - rewrite (c17_lt_asym _ _) by (rewrite ?is_finite_Babs; assumption). reflexivity.
  - destruct (Bltb (Babs b) (Babs a)) eqn:E2; [reflexivity|].
    now apply c17_abs_eq_of_not_lt.
Qed.

Lemma c17_fmin_abs_sym (a b : fl) :
  is_finite a = true -> is_finite b = true ->
  c17_fmin prec emax (Babs a) (Babs b) = c17_fmin prec emax (Babs b) (Babs a).
Proof.
  intros Fa Fb. unfold c17_fmin, c17_flt.
  destruct (Bltb (Babs b) (Babs a)) eqn:E1.
  - rewrite (c17_lt_asym _ _) by (rewrite ?is_finite_Babs; assumption). reflexivity.
  - destruct (Bltb (Babs a) (Babs b)) eqn:E2; [reflexivity|].
    symmetry. now apply c17_abs_eq_of_not_lt.
Qed.

Lemma c17_eq_sym (s : c17_cstyle) (eps a b : fl) :
  is_finite a = true -> is_finite b = true ->
  c17_eq prec emax Hprec Hmax s eps a b = c17_eq prec emax Hprec Hmax s eps b a.
Proof.
  intros Fa Fb. unfold c17_eq, c17_fabs, c17_fsub.
  rewrite (c17_absdiff_sym a b Fa Fb).
  destruct s.
  - now rewrite (c17_fmax_abs_sym a b Fa Fb).
  - now rewrite (c17_fmin_abs_sym a b Fa Fb).
  - reflexivity.
Qed.

(* a finite float with positive value has sign bit false *)
Lemma c17_pos_sign (x : fl) : is_finite x = true -> (0 < B2R x)%R -> Bsign x = false.
Proof.
  destruct x as [s|s| |s m e H]; simpl; intros F P; try discriminate; try lra.
  destruct s; [|reflexivity].
  exfalso. apply (Rlt_irrefl 0). apply Rlt_trans with (1 := P).
  now apply F2R_lt_0.
Qed.

(* +0 <= eps * m   for finite eps >= 0 and finite m with sign bit false (also when the product overflows) *)
Lemma c17_zero_le_mult (eps m : fl) :
  is_finite eps = true -> (0 <= B2R eps)%R -> is_finite m = true -> Bsign m = false ->
  Bleb (B754_zero false) (Bmult mode_NE eps m) = true.
Proof.
  intros Fe Pe Fm Sm.
  assert (Pm : (0 <= B2R m)%R).
  { destruct m as [s|s| |s mm e H]; simpl in *; try lra. subst s. now apply F2R_ge_0. }
  pose proof (Bmult_correct prec emax Hprec Hmax mode_NE eps m) as H.
  simpl round_mode in H.
  destruct (Rlt_bool (Rabs (rnd (B2R eps * B2R m))) (bpow radix2 emax)) eqn:E.
  - destruct H as (R1 & F1 & _). rewrite Fe, Fm in F1. simpl in F1.
    rewrite Bleb_correct by (auto). simpl B2R at 1. rewrite R1.
    apply Rle_bool_true.
    rewrite <- (round_0 radix2 fexp ZnearestE).
    apply round_le; auto with typeclass_instances.
    now apply Rmult_le_pos.
  - (* overflow: the exact product is not 0, so eps > 0 and the result is +infinity *)
    assert (Pe' : (0 < B2R eps)%R).
    { destruct Pe as [Pe|Pe]; [exact Pe|]. exfalso. rewrite <- Pe, Rmult_0_l, round_0, Rabs_R0 in E by auto with typeclass_instances.
      rewrite Rlt_bool_true in E by apply bpow_gt_0. discriminate. }
    rewrite (c17_pos_sign eps Fe Pe'), Sm in H. unfold binary_overflow in H. simpl in H.
    destruct (Bmult mode_NE eps m); try discriminate H. injection H as ->. reflexivity.
Qed.

(* neither a < b nor b < a (finite) => the tolerant equality holds: the "equal" region is never empty *)
Lemma c17_tri_eq (s : c17_cstyle) (eps a b : fl) :
  is_finite eps = true -> (0 <= B2R eps)%R ->
  is_finite a = true -> is_finite b = true ->
  Bltb a b = false -> Bltb b a = false -> c17_eq prec emax Hprec Hmax s eps a b = true.
Proof.
  intros Fe Pe Fa Fb L1 L2.
  rewrite Bltb_correct in L1, L2 by assumption.
  assert (Eab : B2R a = B2R b).
  { destruct (Rlt_bool_spec (B2R a) (B2R b)); try discriminate.
    destruct (Rlt_bool_spec (B2R b) (B2R a)); try discriminate. lra. }
  (* |a - b| is +0 *)
  assert (D0 : Babs (Bminus mode_NE a b) = B754_zero false).
  { pose proof (Bminus_correct prec emax Hprec Hmax mode_NE a b Fa Fb) as H. simpl round_mode in H.
    rewrite Eab, Rminus_diag_eq, round_0, Rabs_R0 in H by auto with typeclass_instances.
    rewrite Rlt_bool_true in H by apply bpow_gt_0.
    destruct H as (R1 & F1 & _).
    apply B2R_Bsign_inj; try reflexivity.
    - now rewrite is_finite_Babs.
    - rewrite B2R_Babs, R1. simpl. now rewrite Rabs_R0.
    - now rewrite Bsign_Babs. }
  unfold c17_eq, c17_fabs, c17_fsub, c17_fle, c17_fmul. rewrite D0.
  destruct s.
  - apply c17_zero_le_mult; auto.
    + unfold c17_fmax. destruct (c17_flt _ _ _ _); now rewrite is_finite_Babs.
    + unfold c17_fmax. destruct (c17_flt _ _ _ _); now rewrite Bsign_Babs.
  - apply c17_zero_le_mult; auto.
    + unfold c17_fmin. destruct (c17_flt _ _ _ _); now rewrite is_finite_Babs.
    + unfold c17_fmin. destruct (c17_flt _ _ _ _); now rewrite Bsign_Babs.
  - rewrite Bleb_correct by auto. simpl B2R at 1. now apply Rle_bool_true.
Qed.

(* ---- the main statement for the model ---- *)
Lemma C17_cmp_algebra_lemma (s : c17_cstyle) (eps a b : fl) :
  is_finite a = true -> is_finite b = true -> is_finite eps = true -> (0 <= B2R eps)%R ->
  let EQ := c17_eq prec emax Hprec Hmax s eps in
  let NE := c17_ne prec emax Hprec Hmax s eps in
  let GT := c17_gt prec emax Hprec Hmax s eps in
  let LT := c17_lt prec emax Hprec Hmax s eps in
  let GE := c17_ge prec emax Hprec Hmax s eps in
  let LE := c17_le prec emax Hprec Hmax s eps in
  (* symmetry and reflexivity *)
  EQ a b = EQ b a /\ EQ a a = true /\
  (* not-equal is the negation *)
  NE a b = negb (EQ a b) /\
  (* exactly one of less / equal / greater *)
  ((LT a b = true /\ EQ a b = false /\ GT a b = false) \/
   (LT a b = false /\ EQ a b = true /\ GT a b = false) \/
   (LT a b = false /\ EQ a b = false /\ GT a b = true)) /\
  (* less-or-equal is less or equal, likewise greater-or-equal *)
  LE a b = (LT a b || EQ a b) /\ GE a b = (GT a b || EQ a b) /\
  (* gt / lt are the exact order outside the equal region; and mirror each other *)
  GT a b = (Bltb b a && NE a b) /\ LT a b = (Bltb a b && NE a b) /\ GT a b = LT b a /\ GE a b = LE b a /\
  (* the oracle's law function accepts the model's six results *)
  c17_cmp_laws (c17_flt prec emax a b) (c17_fgt prec emax a b) (EQ a b) (NE a b) (GT a b) (LT a b) (GE a b) (LE a b) = true.
Proof.
  intros Fa Fb Fe Pe EQ NE GT LT GE LE.
  set (dom := fun x : fl => is_finite x = true).
  assert (L : c17_cmp_laws (Bltb a b) (Bltb b a) (EQ a b) (NE a b) (GT a b) (LT a b) (GE a b) (LE a b) = true).
  { apply (abstract_cmp_laws fl (@Bltb prec emax) EQ dom); auto.
    - intros x y Dx Dy. now apply c17_lt_asym.
    - intros x y Dx Dy. now apply c17_tri_eq. }
  assert (S : EQ a b = EQ b a) by now apply c17_eq_sym.
  assert (R : EQ a a = true).
  { apply (abstract_refl fl (@Bltb prec emax) EQ dom); auto.
    - intros x y Dx Dy. now apply c17_lt_asym.
    - intros x y Dx Dy. now apply c17_tri_eq. }
  destruct (c17_cmp_laws_spelled _ _ _ _ _ _ _ _ L) as (H1 & H2 & H3 & H4 & H5 & H6).
  repeat split; auto.
  - unfold GT, LT, c17_gt, c17_lt, c17_fgt, c17_flt, c17_ne. fold EQ. now rewrite S.
  - unfold GE, LE, c17_ge, c17_le, c17_fgt, c17_flt. fold EQ. now rewrite S.
Qed.

(* vector comparison = equal length and conjunction over the components (no finiteness needed) *)
Lemma C17_veq_conj_lemma (s : c17_cstyle) (eps : fl) (a b : list fl) :
  c17_veq prec emax Hprec Hmax s eps a b =
  c17_spec_veq (c17_eq prec emax Hprec Hmax s eps) a b.
Proof.
  unfold c17_spec_veq. revert b; induction a as [|x a IH]; intros [|y b]; simpl; try reflexivity.
  rewrite IH. destruct (c17_eq prec emax Hprec Hmax s eps x y); simpl; [reflexivity | now rewrite andb_false_r].
Qed.

(* the real-number reading of the absolute style: when a - b does not overflow,
   eq  <->  | round(a - b) | <= eps *)
Lemma C17_eq_absolute_real_lemma (eps a b : fl) :
  is_finite a = true -> is_finite b = true -> is_finite eps = true ->
  (Rabs (rnd (B2R a - B2R b)) < bpow radix2 emax)%R ->
  (c17_eq prec emax Hprec Hmax C17_Absolute eps a b = true <-> (Rabs (rnd (B2R a - B2R b)) <= B2R eps)%R).
Proof.
  intros Fa Fb Fe NO.
  pose proof (Bminus_correct prec emax Hprec Hmax mode_NE a b Fa Fb) as H. simpl round_mode in H.
  rewrite Rlt_bool_true in H by exact NO. destruct H as (R1 & F1 & _).
  unfold c17_eq, c17_fle, c17_fabs, c17_fsub.
  rewrite Bleb_correct by (rewrite ?is_finite_Babs; auto).
  rewrite B2R_Babs, R1.
  destruct (Rle_bool_spec (Rabs (rnd (B2R a - B2R b))) (B2R eps)); split; intro; auto; try discriminate; lra.
Qed.

End Flocq.

(* non-vacuity: binary32 values 1.0, 1.0 + 2^-22, 2.0 and eps = 2^-20 satisfy the hypotheses; all three
   outcomes (equal / less / greater) occur *)
Lemma c17_sign_false_nonneg (prec emax : Z) (x : binary_float prec emax) : Bsign x = false -> (0 <= B2R x)%R.
Proof.
  destruct x as [s|s| |s m e H]; simpl; intros S; try lra. subst s. now apply F2R_ge_0.
Qed.

Definition c17_ex_f32 (bits : Z) : binary_float 24 128 := c17_of_bits 24 128 c17_Hprec32 c17_Hmax32 32 bits.

Lemma C17_cmp_algebra_nonvacuous_lemma :
  let eps := c17_ex_f32 0x35800000 in       (* 2^-20 *)
  let one := c17_ex_f32 0x3f800000 in
  let one' := c17_ex_f32 0x3f800002 in      (* 1 + 2^-22 *)
  let two := c17_ex_f32 0x40000000 in
  is_finite eps = true /\ (0 <= B2R eps)%R /\ is_finite one = true /\ is_finite one' = true /\ is_finite two = true /\
  c17_eq 24 128 c17_Hprec32 c17_Hmax32 C17_RelWeak eps one one' = true /\ Bltb one one' = true /\
  c17_lt 24 128 c17_Hprec32 c17_Hmax32 C17_RelWeak eps one two = true /\
  c17_gt 24 128 c17_Hprec32 c17_Hmax32 C17_RelStrong eps two one = true.
Proof.
  cbv zeta. repeat split; try (vm_compute; reflexivity).
  apply c17_sign_false_nonneg. vm_compute. reflexivity.
Qed.

