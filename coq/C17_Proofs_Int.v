(* C17 — integer helpers of math.hh over machine integers: power, factorial, binomial, sign. *)
From Coq Require Import ZArith List Bool Lia.
From Flocq Require Import Core BinarySingleNaN.
From DuneV Require Import C17_Model C17_Spec.
Local Open Scope Z_scope.

Lemma c17_fit_in (t : c17_ity) (z : Z) : c17_inrange t z = true -> c17_fit t z = C17_Val z.
Proof.
  unfold c17_fit. intros H. destruct (c17_signed t) eqn:S; [now rewrite H|].
  f_equal. unfold c17_inrange, c17_imin, c17_imax in H. rewrite S in H.
  apply andb_prop in H. destruct H as [H1 H2]. apply Z.leb_le in H1, H2.
  apply Z.mod_small. lia.
Qed.

Lemma c17_inrange_between (t : c17_ity) (a z b : Z) :
  c17_inrange t a = true -> c17_inrange t b = true -> a <= z <= b -> c17_inrange t z = true.
Proof.
  unfold c17_inrange. intros Ha Hb Hz.
  apply andb_prop in Ha. apply andb_prop in Hb. destruct Ha as [A1 A2], Hb as [B1 B2].
  apply Z.leb_le in A1. apply Z.leb_le in A2. apply Z.leb_le in B1. apply Z.leb_le in B2.
  destruct Hz as [Hz1 Hz2].
  apply andb_true_intro; split; apply Z.leb_le.
  - exact (Z.le_trans _ _ _ A1 Hz1).
  - exact (Z.le_trans _ _ _ Hz2 B2).
Qed.

Lemma c17_expr_in (t : c17_ity) (z : Z) : c17_inrange t z = true -> c17_expr t z = C17_Val z.
Proof. intros H. unfold c17_expr. destruct (c17_promoted t); [reflexivity | now apply c17_fit_in]. Qed.

Lemma c17_store_in (t : c17_ity) (z : Z) : c17_inrange t z = true -> c17_store t z = C17_Val z.
Proof.
  intros H. unfold c17_store. destruct (c17_promoted t); [|reflexivity]. f_equal.
  unfold c17_inrange, c17_imin, c17_imax in H. apply andb_prop in H. destruct H as [H1 H2].
  apply Z.leb_le in H1. apply Z.leb_le in H2.
  destruct (c17_signed t).
  - destruct (Z.le_gt_cases (c17_width t) 0) as [W|W].
    + (* degenerate width: the range is empty *)
      assert (E : 2 ^ (c17_width t - 1) = 0) by (apply Z.pow_neg_r; lia). rewrite E in *. lia.
    + assert (E : 2 ^ c17_width t = 2 * 2 ^ (c17_width t - 1)).
      { replace (c17_width t) with (Z.succ (c17_width t - 1)) at 1 by lia. apply Z.pow_succ_r. lia. }
      rewrite Z.mod_small; lia.
  - apply Z.mod_small. lia.
Qed.

(* ------------------------------------------------------------------ factorial *)
Lemma c17_fact_pos (n : nat) : 1 <= c17_fact n.
Proof.
  induction n; [simpl; lia|].
  change (c17_fact (S n)) with (Z.of_nat (S n) * c17_fact n). nia.
Qed.

Lemma c17_fact_mono (n m : nat) : (n <= m)%nat -> c17_fact n <= c17_fact m.
Proof.
  induction 1; [lia|]. change (c17_fact (S m)) with (Z.of_nat (S m) * c17_fact m). pose proof (c17_fact_pos m). nia.
Qed.

Lemma c17_factorial_loop_ok (t : c17_ity) (cnt k : nat) :
  c17_inrange t 1 = true ->
  c17_inrange t (c17_fact (k + cnt)) = true ->
  c17_factorial_loop t cnt (Z.of_nat k) (c17_fact k) = C17_Val (c17_fact (k + cnt)).
Proof.
  intros H1. revert k. induction cnt as [|c IH]; intros k H; simpl.
  - now rewrite Nat.add_0_r.
  - replace (k + S c)%nat with (S k + c)%nat in * by lia.
    assert (E : c17_fact k * (Z.of_nat k + 1) = c17_fact (S k)).
    { change (c17_fact (S k)) with (Z.of_nat (S k) * c17_fact k). lia. }
    rewrite E. rewrite c17_fit_in.
    + cbn [c17_bind]. replace (Z.of_nat k + 1) with (Z.of_nat (S k)) by lia. now apply IH.
    + apply (c17_inrange_between t 1 _ (c17_fact (S k + c))); auto.
      split; [apply c17_fact_pos|apply c17_fact_mono; lia].
Qed.

(* factorial returns the exact value whenever it is representable (all n, also n <= 0 where it is 1) *)
Lemma C17_factorial_lemma (t : c17_ity) (n : Z) :
  c17_inrange t 1 = true ->
  c17_inrange t (c17_spec_factorial n) = true ->
  c17_factorial t n = C17_Val (c17_spec_factorial n).
Proof.
  intros H1 H. unfold c17_factorial, c17_spec_factorial in *.
  exact (c17_factorial_loop_ok t (Z.to_nat n) 0 H1 H).
Qed.

(* ------------------------------------------------------------------ power *)
Lemma c17_ipower_loop_ok (t : c17_ity) (m : Z) (n : nat) (acc : Z) :
  (forall i : nat, (1 <= i <= n)%nat -> c17_inrange t (acc * m ^ Z.of_nat i) = true) ->
  c17_ipower_loop t m n acc = C17_Val (acc * m ^ Z.of_nat n).
Proof.
  revert acc. induction n as [|n IH]; intros acc H; simpl c17_ipower_loop.
  - simpl. now rewrite Z.mul_1_r.
  - rewrite c17_fit_in.
    + cbn [c17_bind]. rewrite IH.
      * f_equal. rewrite Nat2Z.inj_succ, Z.pow_succ_r by lia. ring.
      * intros i Hi. specialize (H (S i)). rewrite Nat2Z.inj_succ, Z.pow_succ_r in H by lia.
        rewrite <- Z.mul_assoc. apply H. lia.
    + specialize (H 1%nat). simpl Z.of_nat in H. rewrite Z.pow_1_r in H. apply H. lia.
Qed.

(* power<Base,int>(m, p), p >= 0: exact whenever every partial product m^1 .. m^p is representable *)
Lemma C17_power_lemma (t : c17_ity) (m p : Z) :
  0 <= p ->
  (forall i, 1 <= i <= p -> c17_inrange t (m ^ i) = true) ->
  c17_ipower t m p = C17_Val (c17_spec_power m p).
Proof.
  intros Hp H. unfold c17_ipower, c17_spec_power.
  destruct (p <? 0) eqn:E; [apply Z.ltb_lt in E; lia|].
  cbn [c17_bind]. rewrite c17_ipower_loop_ok.
  - rewrite Z.mul_1_l, Z2Nat.id by lia. reflexivity.
  - intros i Hi. rewrite Z.mul_1_l. apply H. lia.
Qed.

(* ------------------------------------------------------------------ binomial *)
(* Pascal's triangle facts *)
Lemma c17_choose_gt (n k : nat) : (n < k)%nat -> c17_choose n k = 0.
Proof.
  revert k; induction n as [|n IH]; intros [|k] H; simpl; try lia.
  rewrite !IH by lia. reflexivity.
Qed.

Lemma c17_choose_nn (n : nat) : c17_choose n n = 1.
Proof. induction n; simpl; [reflexivity|]. rewrite IHn, c17_choose_gt by lia. lia. Qed.

Lemma c17_choose_n0 (n : nat) : c17_choose n 0 = 1.
Proof. destruct n; reflexivity. Qed.

(* C(n,k) * k! * (n-k)! = n! *)
Lemma c17_choose_fact (n k : nat) : (k <= n)%nat ->
  c17_choose n k * (c17_fact k * c17_fact (n - k)) = c17_fact n.
Proof.
  revert k; induction n as [|n IH]; intros k H.
  - assert (k = 0)%nat by lia. subst. reflexivity.
  - destruct k as [|k].
    + rewrite c17_choose_n0. simpl c17_fact at 1. rewrite Nat.sub_0_r. lia.
    + destruct (Nat.eq_dec k n) as [->|Hne].
      * rewrite c17_choose_nn, Nat.sub_diag. simpl c17_fact at 2. lia.
      * assert (Hk : (k <= n)%nat) by lia. assert (Hk' : (S k <= n)%nat) by lia.
        pose proof (IH k Hk) as I1. pose proof (IH (S k) Hk') as I2.
        change (c17_choose (S n) (S k)) with (c17_choose n k + c17_choose n (S k)).
        replace (S n - S k)%nat with (n - k)%nat by lia.
        replace (n - k)%nat with (S (n - S k)) in * by lia.
        set (a := c17_choose n k) in *. set (b := c17_choose n (S k)) in *.
        set (fk := c17_fact k) in *. set (fr := c17_fact (n - S k)) in *.
        assert (E1 : c17_fact (S k) = Z.of_nat (S k) * fk) by reflexivity.
        assert (E2 : c17_fact (S (n - S k)) = Z.of_nat (S (n - S k)) * fr) by reflexivity.
        assert (E3 : c17_fact (S n) = Z.of_nat (S n) * c17_fact n) by reflexivity.
        rewrite E1, E2, E3 in *.
        assert (E4 : Z.of_nat (S n) = Z.of_nat (S k) + Z.of_nat (S (n - S k))) by lia.
        rewrite E4. nia.
Qed.

Lemma c17_choose_nonneg (n k : nat) : 0 <= c17_choose n k.
Proof. revert k; induction n; intros [|k]; simpl; try lia. pose proof (IHn k); pose proof (IHn (S k)); lia. Qed.

(* symmetry *)
Lemma c17_choose_sym (n k : nat) : (k <= n)%nat -> c17_choose n k = c17_choose n (n - k).
Proof.
  intros H. pose proof (c17_choose_fact n k H) as A.
  assert (H' : (n - k <= n)%nat) by lia. pose proof (c17_choose_fact n (n - k) H') as B.
  replace (n - (n - k))%nat with k in B by lia.
  pose proof (c17_fact_pos k). pose proof (c17_fact_pos (n - k)).
  assert (P : 0 < c17_fact k * c17_fact (n - k)) by nia.
  apply (Z.mul_cancel_r _ _ (c17_fact k * c17_fact (n - k))); [lia|].
  rewrite A. rewrite <- B. ring.
Qed.

(* rising product (i+1)(i+2)...(i+cnt) : what the loop `for (i = n-k; i < n; ++i) bin *= i+1` accumulates *)
Fixpoint c17_rise (i : Z) (cnt : nat) : Z :=
  match cnt with O => 1 | S c => (i + 1) * c17_rise (i + 1) c end.

Lemma c17_rise_pos (i : Z) (cnt : nat) : 0 <= i -> 1 <= c17_rise i cnt.
Proof. revert i; induction cnt as [|c IH]; intros i H; simpl; [lia|]. specialize (IH (i + 1)). nia. Qed.

Lemma c17_fact_rise (i cnt : nat) : c17_fact (i + cnt) = c17_fact i * c17_rise (Z.of_nat i) cnt.
Proof.
  revert i; induction cnt as [|c IH]; intros i; simpl c17_rise.
  - rewrite Nat.add_0_r. lia.
  - replace (i + S c)%nat with (S i + c)%nat by lia. rewrite IH.
    change (c17_fact (S i)) with (Z.of_nat (S i) * c17_fact i).
    replace (Z.of_nat (S i)) with (Z.of_nat i + 1) by lia. ring.
Qed.

Lemma c17_rise_mono (cnt : nat) : forall i j, 0 <= i <= j -> c17_rise i cnt <= c17_rise j cnt.
Proof.
  induction cnt as [|c IH]; intros i j H; simpl; [lia|].
  specialize (IH (i + 1) (j + 1)). pose proof (c17_rise_pos (i + 1) c). nia.
Qed.

Lemma c17_fact_le_rise (i : Z) (cnt : nat) : 0 <= i -> c17_fact cnt <= c17_rise i cnt.
Proof.
  intros Hi. pose proof (c17_fact_rise 0 cnt) as H.
  change (0 + cnt)%nat with cnt in H. change (c17_fact 0) with 1 in H. change (Z.of_nat 0) with 0 in H.
  rewrite H, Z.mul_1_l. apply c17_rise_mono. lia.
Qed.

Lemma c17_binomial_loop_ok (t : c17_ity) (cnt : nat) : forall (i bin : Z),
  0 <= i -> 1 <= bin -> c17_inrange t bin = true ->
  c17_inrange t (bin * c17_rise i cnt) = true ->
  c17_binomial_loop t cnt i bin = C17_Val (bin * c17_rise i cnt).
Proof.
  induction cnt as [|c IH]; intros i bin Hi Hb Rb R; simpl.
  - now rewrite Z.mul_1_r.
  - assert (P : 1 <= c17_rise (i + 1) c) by (apply c17_rise_pos; lia).
    simpl c17_rise in R.
    rewrite c17_fit_in.
    + cbn [c17_bind]. rewrite IH; try lia.
      * f_equal. ring.
      * apply (c17_inrange_between t bin _ (bin * ((i + 1) * c17_rise (i + 1) c))); auto. nia.
      * now rewrite <- Z.mul_assoc.
    + apply (c17_inrange_between t bin _ (bin * ((i + 1) * c17_rise (i + 1) c))); auto. nia.
Qed.

Lemma c17_binomial_fuel_S (f : nat) (t : c17_ity) (n k : Z) :
  c17_binomial_fuel (S f) t n k =
    if (k <? 0) || (n <? k) then C17_Val 0 else
    c17_bind (c17_fit t (2 * k)) (fun k2 =>
    if n <? k2 then c17_bind (c17_fit t (n - k)) (fun nk => c17_binomial_fuel f t n nk) else
    c17_bind (c17_fit t (n - k)) (fun i0 =>
    c17_bind (c17_binomial_loop t (Z.to_nat (n - i0)) i0 1) (fun bin =>
    c17_bind (c17_factorial t k) (fun fk => c17_idiv t bin fk)))).
Proof. reflexivity. Qed.

(* the part of binomial after the symmetry reduction, for 2K <= N *)
Lemma c17_binomial_core_ok (t : c17_ity) (N K : nat) (fuel : nat) :
  (2 * K <= N)%nat ->
  c17_inrange t 0 = true -> c17_inrange t 1 = true ->
  c17_inrange t (Z.of_nat N) = true ->
  c17_inrange t (c17_rise (Z.of_nat (N - K)) K) = true ->      (* N!/(N-K)!, the intermediate product *)
  c17_binomial_fuel (S fuel) t (Z.of_nat N) (Z.of_nat K) = C17_Val (c17_choose N K).
Proof.
  intros H2 R0 R1 RN RR. rewrite c17_binomial_fuel_S.
  assert (E1 : (Z.of_nat K <? 0) = false) by (apply Z.ltb_ge; lia).
  assert (E2 : (Z.of_nat N <? Z.of_nat K) = false) by (apply Z.ltb_ge; lia).
  rewrite E1, E2. cbn [orb].
  rewrite (c17_fit_in t (2 * Z.of_nat K)) by (apply (c17_inrange_between t 0 _ (Z.of_nat N)); auto; lia).
  cbn [c17_bind].
  assert (E3 : (Z.of_nat N <? 2 * Z.of_nat K) = false) by (apply Z.ltb_ge; lia).
  rewrite E3.
  rewrite (c17_fit_in t (Z.of_nat N - Z.of_nat K)) by (apply (c17_inrange_between t 0 _ (Z.of_nat N)); auto; lia).
  cbn [c17_bind].
  replace (Z.to_nat (Z.of_nat N - (Z.of_nat N - Z.of_nat K))) with K by lia.
  replace (Z.of_nat N - Z.of_nat K) with (Z.of_nat (N - K)) by lia.
  rewrite c17_binomial_loop_ok; try lia; auto; try (now rewrite Z.mul_1_l).
  cbn [c17_bind]. rewrite Z.mul_1_l.
  set (bin := c17_rise (Z.of_nat (N - K)) K) in *.
  assert (Fle : c17_fact K <= bin) by (apply c17_fact_le_rise; lia).
  pose proof (c17_fact_pos K) as Fp.
  assert (RF : c17_inrange t (c17_fact K) = true) by (apply (c17_inrange_between t 1 _ bin); auto; lia).
  pose proof (C17_factorial_lemma t (Z.of_nat K) R1) as FK.
  unfold c17_spec_factorial in FK. rewrite Nat2Z.id in FK. rewrite (FK RF).
  cbn [c17_bind]. unfold c17_idiv.
  assert (E4 : (c17_fact K =? 0) = false) by (apply Z.eqb_neq; lia).
  rewrite E4.
  (* bin = C(N,K) * K! *)
  assert (HK : (K <= N)%nat) by lia.
  pose proof (c17_choose_fact N K HK) as CF.
  pose proof (c17_fact_rise (N - K) K) as FR. replace (N - K + K)%nat with N in FR by lia. fold bin in FR.
  pose proof (c17_fact_pos (N - K)) as Fq.
  assert (EB : bin = c17_choose N K * c17_fact K).
  { apply (Z.mul_cancel_l _ _ (c17_fact (N - K))); [lia|]. rewrite <- FR, <- CF. ring. }
  rewrite EB, Z.quot_mul by lia.
  apply c17_fit_in.
  pose proof (c17_choose_nonneg N K).
  apply (c17_inrange_between t 0 _ bin); auto. nia.
Qed.

(* binomial(n,k) for 0 <= k <= n: the exact binomial coefficient, under the guard that the intermediate
   product n!/(n-k')! (k' = min(k, n-k)) is representable; n, 2k are values of the type *)
Lemma C17_binomial_lemma (t : c17_ity) (n k : Z) :
  0 <= k <= n ->
  c17_inrange t 0 = true -> c17_inrange t 1 = true -> c17_inrange t n = true -> c17_inrange t (2 * k) = true ->
  (let k' := Z.min k (n - k) in c17_inrange t (c17_rise (n - k') (Z.to_nat k')) = true) ->
  c17_binomial t n k = C17_Val (c17_spec_binomial n k).
Proof.
  intros Hk R0 R1 Rn R2k RR.
  unfold c17_spec_binomial.
  assert (E1 : (k <? 0) = false) by (apply Z.ltb_ge; lia).
  assert (E2 : (n <? k) = false) by (apply Z.ltb_ge; lia).
  rewrite E1, E2. cbn [orb].
  set (N := Z.to_nat n). set (K := Z.to_nat k).
  assert (En : n = Z.of_nat N) by (unfold N; lia). assert (Ek : k = Z.of_nat K) by (unfold K; lia).
  destruct (Z.leb_spec (2 * k) n) as [Hle|Hgt].
  - (* no symmetry reduction *)
    unfold c17_binomial. rewrite En, Ek. apply c17_binomial_core_ok; try lia; auto; try (now rewrite <- En).
    simpl in RR. rewrite Z.min_l in RR by lia. rewrite En, Ek in RR.
    replace (Z.of_nat N - Z.of_nat K) with (Z.of_nat (N - K)) in RR by lia. now rewrite Nat2Z.id in RR.
  - (* binomial(n, n-k) *)
    unfold c17_binomial. rewrite c17_binomial_fuel_S.
    rewrite E1, E2. cbn [orb].
    rewrite (c17_fit_in t (2 * k)) by exact R2k. cbn [c17_bind].
    assert (E3 : (n <? 2 * k) = true) by (apply Z.ltb_lt; lia). rewrite E3.
    rewrite (c17_fit_in t (n - k)) by (apply (c17_inrange_between t 0 _ n); auto; lia). cbn [c17_bind].
    replace (n - k) with (Z.of_nat (N - K)) by lia. rewrite En.
    rewrite c17_binomial_core_ok; try lia; auto; try (now rewrite <- En).
    + f_equal. symmetry. apply c17_choose_sym. lia.
    + simpl in RR. rewrite Z.min_r in RR by lia. rewrite En, Ek in RR.
      replace (Z.of_nat N - (Z.of_nat N - Z.of_nat K)) with (Z.of_nat (N - (N - K))) in RR by lia.
      replace (Z.to_nat (Z.of_nat N - Z.of_nat K)) with (N - K)%nat in RR by lia. exact RR.
Qed.

(* outside 0 <= k <= n the result is 0 (no arithmetic happens) *)
Lemma C17_binomial_outside_lemma (t : c17_ity) (n k : Z) :
  k < 0 \/ n < k -> c17_binomial t n k = C17_Val 0 /\ c17_spec_binomial n k = 0.
Proof.
  intros H. unfold c17_binomial, c17_spec_binomial. simpl.
  assert (E : (k <? 0) || (n <? k) = true).
  { destruct H; [apply orb_true_intro; left; now apply Z.ltb_lt | apply orb_true_intro; right; now apply Z.ltb_lt]. }
  now rewrite E.
Qed.

(* Pascal's rule and symmetry of the specification, 0 outside *)
Lemma C17_binomial_spec_lemma :
  (forall n k : nat, c17_choose (S n) (S k) = c17_choose n k + c17_choose n (S k)) /\
  (forall n k : nat, (k <= n)%nat -> c17_choose n k = c17_choose n (n - k)) /\
  (forall n k : nat, (n < k)%nat -> c17_choose n k = 0) /\
  (forall n k : nat, (k <= n)%nat -> c17_choose n k * (c17_fact k * c17_fact (n - k)) = c17_fact n).
Proof.
  repeat split.
  - apply c17_choose_sym.
  - apply c17_choose_gt.
  - apply c17_choose_fact.
Qed.

(* the unguarded claim "exact whenever C(n,k) is representable" is false: binomial<int>(18,9) *)
Lemma C17_binomial_unguarded_refuted_lemma :
  exists (t : c17_ity) (n k : Z),
    0 <= k <= n /\ c17_inrange t n = true /\ c17_inrange t (2 * k) = true /\
    c17_inrange t (c17_spec_binomial n k) = true /\
    c17_binomial t n k <> C17_Val (c17_spec_binomial n k).
Proof.
  exists (C17_Ity true 32), 18, 9. repeat split; vm_compute; congruence.
Qed.

(* and for an unsigned type, where nothing is undefined: the result is a wrong number *)
Lemma C17_binomial_unsigned_refuted_lemma :
  c17_spec_binomial 18 9 = 48620 /\ c17_inrange (C17_Ity false 32) 48620 = true /\
  c17_binomial (C17_Ity false 32) 18 9 = C17_Val 1276.
Proof. repeat split; vm_compute; reflexivity. Qed.

(* sign *)
Lemma C17_sign_lemma (v : Z) : c17_isign v = c17_spec_sign v /\ (c17_isign v = -1 <-> v < 0) /\ (c17_isign v = 1 <-> 0 <= v).
Proof.
  unfold c17_isign, c17_spec_sign. destruct (Z.ltb_spec v 0); repeat split; intros; try lia; try reflexivity.
Qed.

(* the oracle's fast binomial agrees with Pascal's triangle (bounded sweep: n <= 16, -1 <= k <= n+1) *)
Lemma C17_binomial_fast_agrees_upto_16_lemma :
  forallb (fun n => forallb (fun k => c17_spec_binomial_fast n (k - 1) =? c17_spec_binomial n (k - 1))
                            (map Z.of_nat (seq 0 19))) (map Z.of_nat (seq 0 17)) = true.
Proof. vm_compute. reflexivity. Qed.

(* non-vacuity of the guards of C17_binomial: int32, n = 16, k = 8 satisfies them (and 18, 9 does not) *)
Lemma C17_binomial_nonvacuous_lemma :
  let t := C17_Ity true 32 in
  0 <= 8 <= 16 /\ c17_inrange t 0 = true /\ c17_inrange t 1 = true /\ c17_inrange t 16 = true /\ c17_inrange t (2 * 8) = true /\
  c17_inrange t (c17_rise (16 - Z.min 8 (16 - 8)) (Z.to_nat (Z.min 8 (16 - 8)))) = true /\
  c17_binomial t 16 8 = C17_Val 12870 /\
  c17_inrange t (c17_rise (18 - Z.min 9 (18 - 9)) (Z.to_nat (Z.min 9 (18 - 9)))) = false.
Proof. cbv zeta. repeat split; try lia; vm_compute; reflexivity. Qed.


(* ------------------------------------------------------------------ power guarded on the FINAL value only *)
(* partial products never leave the range when the final product is in range: |m^i| <= |m^p| / 2 for |m| >= 2, i < p *)
Lemma c17_pow_half (m i p : Z) : 2 <= Z.abs m -> 0 <= i < p -> 2 * Z.abs (m ^ i) <= Z.abs (m ^ p).
Proof.
  intros Hm Hi. replace p with (i + (p - i)) by lia. rewrite Z.pow_add_r, Z.abs_mul, !Z.abs_pow by lia.
  assert (P : 0 <= Z.abs m ^ i) by (apply Z.pow_nonneg; lia).
  assert (Q : 2 <= Z.abs m ^ (p - i)).
  { apply Z.le_trans with (Z.abs m ^ 1); [rewrite Z.pow_1_r; lia | apply Z.pow_le_mono_r; lia]. }
  nia.
Qed.

Lemma c17_signed_range (t : c17_ity) : c17_signed t = true -> c17_imin t = - (c17_imax t + 1).
Proof. unfold c17_imin, c17_imax. intros ->. lia. Qed.

Lemma c17_unsigned_range (t : c17_ity) : c17_signed t = false -> c17_imin t = 0.
Proof. unfold c17_imin. now intros ->. Qed.

Lemma c17_inrange_iff (t : c17_ity) (z : Z) : c17_inrange t z = true <-> c17_imin t <= z <= c17_imax t.
Proof.
  unfold c17_inrange. split.
  - intros H. apply andb_prop in H. destruct H as [A B]. apply Z.leb_le in A. apply Z.leb_le in B. lia.
  - intros [A B]. apply andb_true_intro; split; now apply Z.leb_le.
Qed.

Lemma c17_pow_partial_inrange (t : c17_ity) (m p i : Z) :
  c17_inrange t 1 = true -> c17_inrange t m = true -> c17_inrange t (m ^ p) = true ->
  1 <= i <= p -> c17_inrange t (m ^ i) = true.
Proof.
  intros R1 Rm Rp Hi.
  destruct (Z.eq_dec i p) as [->|Ne]; [exact Rp|].
  destruct (Z.eq_dec m 0) as [->|Nz].
  { rewrite Z.pow_0_l by lia. now rewrite Z.pow_0_l in Rp by lia. }
  destruct (Z.eq_dec m 1) as [->|N1]; [now rewrite Z.pow_1_l by lia|].
  destruct (Z.eq_dec m (-1)) as [->|Nm1].
  { destruct (Z.Even_or_Odd i) as [[k ->]|[k ->]].
    - rewrite Z.pow_mul_r by lia. simpl ((-1) ^ 2). now rewrite Z.pow_1_l by lia.
    - rewrite Z.pow_add_r, Z.pow_mul_r by lia. simpl ((-1) ^ 2). rewrite Z.pow_1_l by lia. exact Rm. }
  assert (Hm : 2 <= Z.abs m) by lia.
  pose proof (c17_pow_half m i p Hm ltac:(lia)) as Half.
  apply c17_inrange_iff in R1. apply c17_inrange_iff in Rm. apply c17_inrange_iff in Rp. apply c17_inrange_iff.
  destruct (c17_signed t) eqn:S.
  - rewrite (c17_signed_range t S) in *. lia.
  - rewrite (c17_unsigned_range t S) in *.
    assert (0 <= m ^ i) by (apply Z.pow_nonneg; lia). assert (0 <= m ^ p) by (apply Z.pow_nonneg; lia). lia.
Qed.

(* power<Base,int>(m, p), p >= 0, integral Base: the exact value whenever m^p itself is representable
   (m is a value of the type; 1 = Base(1) is) -- no hypothesis on the partial products *)
Lemma C17_power_final_lemma (t : c17_ity) (m p : Z) :
  0 <= p -> c17_inrange t 1 = true -> c17_inrange t m = true -> c17_inrange t (m ^ p) = true ->
  c17_ipower t m p = C17_Val (m ^ p).
Proof.
  intros Hp R1 Rm Rp. apply C17_power_lemma; auto.
  intros i Hi. now apply (c17_pow_partial_inrange t m p i).
Qed.

(* and the guard is necessary: when m^p is not representable the result is not m^p *)
Lemma C17_power_final_converse_lemma (t : c17_ity) (m p : Z) :
  c17_signed t = true -> c17_inrange t 1 = true -> c17_inrange t (m ^ p) = false -> c17_ipower t m p <> C17_Val (m ^ p).
Proof.
  intros S R1 R H.
  (* every value the signed model returns went through c17_fit, hence is in range *)
  assert (Fit : forall z v, c17_fit t z = C17_Val v -> c17_inrange t v = true).
  { intros z v. unfold c17_fit. rewrite S. destruct (c17_inrange t z) eqn:E; intros X; inversion X; subst; exact E. }
  assert (Loop : forall n acc v, c17_inrange t acc = true -> c17_ipower_loop t m n acc = C17_Val v -> c17_inrange t v = true).
  { induction n as [|n IH]; intros acc v Ra; simpl.
    - intros X; inversion X; subst; exact Ra.
    - destruct (c17_fit t (acc * m)) as [z| |] eqn:F; simpl; try discriminate. intros X. apply (IH z v); auto. now apply (Fit (acc * m)). }
  unfold c17_ipower in H.
  destruct (p <? 0) eqn:Ep.
  - destruct (c17_fit c17_int32 (- p)) as [a| |]; simpl in H; try discriminate.
    destruct (c17_ipower_loop t m (Z.to_nat a) 1) as [r| |] eqn:L; simpl in H; try discriminate.
    unfold c17_idiv in H. destruct (r =? 0); try discriminate. apply Fit in H. congruence.
  - simpl in H. destruct (c17_ipower_loop t m (Z.to_nat p) 1) as [r| |] eqn:L; simpl in H; try discriminate.
    inversion H; subst r.
    apply Loop in L; auto. congruence.
Qed.

(* ------------------------------------------------------------------ width guards for every integer type *)
Import ListNotations.
Definition c17_all_types : list c17_ity :=
  [C17_Ity true 8; C17_Ity false 8; C17_Ity true 16; C17_Ity false 16; C17_Ity true 32; C17_Ity false 32; C17_Ity true 64; C17_Ity false 64].
(* largest n with n! representable / largest n with every C(n,k) representable, per type (same order) *)
Definition c17_fact_limits : list Z := [5; 5; 7; 8; 12; 12; 20; 20].
Definition c17_binom_limits : list Z := [9; 10; 17; 18; 33; 34; 66; 67].

Definition c17_range (n : Z) : list Z := map Z.of_nat (seq 0 (Z.to_nat (n + 1))).
Definition c17_is_val (r : c17_ires) (v : Z) : bool := match r with C17_Val z => z =? v | _ => false end.

(* factorial: exact for every n <= limit, n! not representable at limit + 1 (so the result there is not n!) *)
Lemma C17_factorial_widths_lemma :
  forallb (fun tl => let t := fst tl in let l := snd tl in
     forallb (fun n => c17_is_val (c17_factorial t n) (c17_spec_factorial n)) (c17_range l)
     && negb (c17_inrange t (c17_spec_factorial (l + 1)))
     && negb (c17_is_val (c17_factorial t (l + 1)) (c17_spec_factorial (l + 1))))
    (combine c17_all_types c17_fact_limits) = true.
Proof. vm_compute. reflexivity. Qed.

(* binomial (fixed code): exact for every 0 <= k <= n <= limit (and 0 for k = -1, n+1), and C(limit+1, (limit+1)/2) is not representable *)
Lemma C17_binomial_widths_lemma :
  forallb (fun tl => let t := fst tl in let l := snd tl in
     forallb (fun n => forallb (fun k => c17_is_val (c17_binomial_fix t n (k - 1)) (c17_spec_binomial_fast n (k - 1))
                                         || negb (c17_inrange t (k - 1)))
                               (c17_range (n + 2))) (c17_range l)
     && negb (c17_inrange t (c17_spec_binomial_fast (l + 1) ((l + 1) / 2))))
    (combine c17_all_types c17_binom_limits) = true.
Proof. vm_compute. reflexivity. Qed.

(* sign: -1 or 1; for a value of an unsigned type always 1 *)
Lemma C17_sign_types_lemma (t : c17_ity) (v : Z) :
  (c17_isign v = -1 \/ c17_isign v = 1) /\ (c17_signed t = false -> c17_inrange t v = true -> c17_isign v = 1).
Proof.
  unfold c17_isign. split.
  - destruct (v <? 0); auto.
  - intros S R. apply c17_inrange_iff in R. rewrite (c17_unsigned_range t S) in R.
    destruct (Z.ltb_spec v 0); [lia | reflexivity].
Qed.
