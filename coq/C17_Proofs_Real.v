(* C17 — real-number readings: eq for all three styles (two roundings explicit), power with negative exponents. *)
From Coq Require Import ZArith Reals List Bool Lia Lra.
From Flocq Require Import Core BinarySingleNaN.
From DuneV Require Import C17_Model C17_Spec C17_Proofs_Cmp C17_Proofs_Int C17_Proofs_Round.

Section RealReading.
Variable prec emax : Z.
Context (Hprec : Prec_gt_0 prec) (Hmax : Prec_lt_emax prec emax).
Notation fl := (binary_float prec emax).
Notation fexp := (SpecFloat.fexp prec emax).
Notation rnd := (round radix2 fexp ZnearestE).
Notation EQ := (c17_eq prec emax Hprec Hmax).
Notation ofZ := (c17_of_Z prec emax Hprec Hmax).

Local Instance fexp_valid'' : Valid_exp fexp := fexp_correct prec emax Hprec.

Lemma c17_fmax_real (x y : fl) : is_finite x = true -> is_finite y = true ->
  B2R (c17_fmax prec emax x y) = Rmax (B2R x) (B2R y) /\ is_finite (c17_fmax prec emax x y) = true.
Proof.
  intros Fx Fy. unfold c17_fmax, c17_flt. rewrite (Bltb_correct prec emax x y Fx Fy).
  destruct (Rlt_bool_spec (B2R x) (B2R y)); split; auto; [rewrite Rmax_right | rewrite Rmax_left]; lra.
Qed.

Lemma c17_fmin_real (x y : fl) : is_finite x = true -> is_finite y = true ->
  B2R (c17_fmin prec emax x y) = Rmin (B2R x) (B2R y) /\ is_finite (c17_fmin prec emax x y) = true.
Proof.
  intros Fx Fy. unfold c17_fmin, c17_flt. rewrite (Bltb_correct prec emax y x Fy Fx).
  destruct (Rlt_bool_spec (B2R y) (B2R x)); split; auto; [rewrite Rmin_right | rewrite Rmin_left]; lra.
Qed.

(* the exact scale the style multiplies eps with *)
Definition c17_scale (s : c17_cstyle) (a b : R) : option R :=
  match s with
  | C17_RelWeak => Some (Rmax (Rabs a) (Rabs b))
  | C17_RelStrong => Some (Rmin (Rabs a) (Rabs b))
  | C17_Absolute => None
  end.
(* right-hand side as computed: round(eps * scale) resp. eps *)
Definition c17_rhs_real (s : c17_cstyle) (eps a b : R) : R :=
  match c17_scale s a b with Some m => rnd (eps * m) | None => eps end.

(* eq <-> | round(a - b) | <= round(eps * max|min(|a|,|b|))   (resp. <= eps), both roundings explicit;
   hypotheses: finite arguments, neither a - b nor eps * scale overflows *)
Lemma C17_eq_real_lemma (s : c17_cstyle) (eps a b : fl) :
  is_finite a = true -> is_finite b = true -> is_finite eps = true ->
  (Rabs (rnd (B2R a - B2R b)) < bpow radix2 emax)%R ->
  (Rabs (c17_rhs_real s (B2R eps) (B2R a) (B2R b)) < bpow radix2 emax)%R ->
  (EQ s eps a b = true <-> (Rabs (rnd (B2R a - B2R b)) <= c17_rhs_real s (B2R eps) (B2R a) (B2R b))%R).
Proof.
  intros Fa Fb Fe NO1 NO2.
  pose proof (Bminus_correct prec emax Hprec Hmax mode_NE a b Fa Fb) as H. simpl round_mode in H.
  rewrite Rlt_bool_true in H by exact NO1. destruct H as (R1 & F1 & _).
  assert (FA : is_finite (Babs a) = true) by now rewrite is_finite_Babs.
  assert (FB : is_finite (Babs b) = true) by now rewrite is_finite_Babs.
  assert (Key : forall m : fl, is_finite m = true ->
            (Rabs (rnd (B2R eps * B2R m)) < bpow radix2 emax)%R ->
            (Bleb (Babs (Bminus mode_NE a b)) (Bmult mode_NE eps m) = true <->
             (Rabs (rnd (B2R a - B2R b)) <= rnd (B2R eps * B2R m))%R)).
  { intros m Fm NO.
    pose proof (Bmult_correct prec emax Hprec Hmax mode_NE eps m) as HM. simpl round_mode in HM.
    rewrite Rlt_bool_true in HM by exact NO. destruct HM as (M1 & M2 & _). rewrite Fe, Fm in M2. simpl in M2.
    rewrite Bleb_correct by (rewrite ?is_finite_Babs; auto).
    rewrite B2R_Babs, R1, M1.
    destruct (Rle_bool_spec (Rabs (rnd (B2R a - B2R b))) (rnd (B2R eps * B2R m))); split; intro; auto; try discriminate; lra. }
  unfold c17_eq, c17_fle, c17_fabs, c17_fsub, c17_fmul. unfold c17_rhs_real, c17_scale in *.
  destruct s.
  - destruct (c17_fmax_real (Babs a) (Babs b) FA FB) as [V F]. rewrite !B2R_Babs in V.
    rewrite <- V in *. now apply Key.
  - destruct (c17_fmin_real (Babs a) (Babs b) FA FB) as [V F]. rewrite !B2R_Babs in V.
    rewrite <- V in *. now apply Key.
  - rewrite Bleb_correct by (rewrite ?is_finite_Babs; auto).
    rewrite B2R_Babs, R1.
    destruct (Rle_bool_spec (Rabs (rnd (B2R a - B2R b))) (B2R eps)); split; intro; auto; try discriminate; lra.
Qed.

(* the same statement with the right-hand side spelled out per style (this is the form restated in Properties_C17.v) *)
Lemma C17_eq_real_spelled_lemma (s : c17_cstyle) (eps a b : fl) :
  let rhs := match s with
             | C17_RelWeak => rnd (B2R eps * Rmax (Rabs (B2R a)) (Rabs (B2R b)))%R
             | C17_RelStrong => rnd (B2R eps * Rmin (Rabs (B2R a)) (Rabs (B2R b)))%R
             | C17_Absolute => B2R eps
             end in
  is_finite a = true -> is_finite b = true -> is_finite eps = true ->
  (Rabs (rnd (B2R a - B2R b)) < bpow radix2 emax)%R -> (Rabs rhs < bpow radix2 emax)%R ->
  (EQ s eps a b = true <-> (Rabs (rnd (B2R a - B2R b)) <= rhs)%R).
Proof. destruct s; cbv zeta; intros Fa Fb Fe N1 N2; [apply (C17_eq_real_lemma C17_RelWeak) | apply (C17_eq_real_lemma C17_RelStrong) | apply (C17_eq_real_lemma C17_Absolute)]; assumption. Qed.

(* ---------------------------------------------------------------- power<T,int> for floating T, any sign of the exponent *)
(* the value the loop computes: one rounding per multiplication *)
Fixpoint c17_rpow (x : R) (n : nat) (acc : R) : R :=
  match n with O => acc | S n' => c17_rpow x n' (rnd (acc * x)) end.
(* no intermediate product overflows *)
Fixpoint c17_rpow_ok (x : R) (n : nat) (acc : R) : Prop :=
  match n with O => True | S n' => (Rabs (rnd (acc * x)) < bpow radix2 emax)%R /\ c17_rpow_ok x n' (rnd (acc * x)) end.

Lemma c17_fpower_loop_real (m : fl) (n : nat) : forall acc : fl,
  is_finite m = true -> is_finite acc = true -> c17_rpow_ok (B2R m) n (B2R acc) ->
  B2R (c17_fpower_loop prec emax Hprec Hmax m n acc) = c17_rpow (B2R m) n (B2R acc) /\
  is_finite (c17_fpower_loop prec emax Hprec Hmax m n acc) = true.
Proof.
  induction n as [|n IH]; intros acc Fm Fa OK; simpl.
  - split; auto.
  - destruct OK as [NO OK].
    pose proof (Bmult_correct prec emax Hprec Hmax mode_NE acc m) as HM. simpl round_mode in HM.
    rewrite Rlt_bool_true in HM by exact NO. destruct HM as (M1 & M2 & _). rewrite Fa, Fm in M2. simpl in M2.
    unfold c17_fmul. rewrite <- M1 in OK. rewrite <- M1. apply IH; auto.
Qed.

Lemma c17_one_exact : B2R (ofZ 1) = 1%R /\ is_finite (ofZ 1) = true.
Proof.
  apply (c17_ofZ_small prec emax Hprec Hmax 1).
  simpl Z.abs. change 1%Z with (2 ^ 0)%Z at 1. apply Z.pow_le_mono_r; [lia|]. pose proof (c17_prec_pos prec Hprec). lia.
Qed.

(* power(m, p):  p >= 0: the iterated rounded product;  p < 0: the correctly rounded reciprocal of it *)
Lemma C17_fpower_real_lemma (m : fl) (p : Z) :
  is_finite m = true -> c17_rpow_ok (B2R m) (Z.abs_nat p) 1 ->
  let r := c17_rpow (B2R m) (Z.abs_nat p) 1 in
  ((0 <= p)%Z -> B2R (c17_fpower prec emax Hprec Hmax m p) = r /\ is_finite (c17_fpower prec emax Hprec Hmax m p) = true) /\
  ((p < 0)%Z -> r <> 0%R -> (Rabs (rnd (1 / r)) < bpow radix2 emax)%R ->
     B2R (c17_fpower prec emax Hprec Hmax m p) = rnd (1 / r) /\ is_finite (c17_fpower prec emax Hprec Hmax m p) = true).
Proof.
  intros Fm OK r. destruct c17_one_exact as [V1 F1].
  rewrite <- V1 in OK. destruct (c17_fpower_loop_real m (Z.abs_nat p) (ofZ 1) Fm F1 OK) as [VL FL].
  rewrite V1 in VL. fold r in VL.
  unfold c17_fpower. split.
  - intros Hp. assert (E : (p <? 0)%Z = false) by (apply Z.ltb_ge; lia). rewrite E. split; assumption.
  - intros Hp Nz NO. assert (E : (p <? 0)%Z = true) by (apply Z.ltb_lt; lia). rewrite E.
    set (L := c17_fpower_loop prec emax Hprec Hmax m (Z.abs_nat p) (ofZ 1)) in *.
    assert (NzL : B2R L <> 0%R) by (rewrite VL; exact Nz).
    pose proof (Bdiv_correct prec emax Hprec Hmax mode_NE (ofZ 1) L NzL) as HD. simpl round_mode in HD.
    rewrite V1, VL in HD. rewrite Rlt_bool_true in HD by exact NO.
    destruct HD as (D1 & D2 & _). unfold c17_fdiv. rewrite D2, F1. split; auto.
Qed.

(* when every partial product m^1 .. m^|p| is representable (and in range) the loop is exact: m^p for p >= 0,
   the correctly rounded 1/m^|p| for p < 0  ("exact whenever representable", floating T) *)
Lemma c17_rpow_exact (x : R) (n : nat) : forall (k : nat),
  (forall i : nat, (k < i <= k + n)%nat -> generic_format radix2 fexp (x ^ i) /\ (Rabs (x ^ i) < bpow radix2 emax)%R) ->
  c17_rpow x n (x ^ k) = (x ^ (k + n))%R /\ c17_rpow_ok x n (x ^ k).
Proof.
  induction n as [|n IH]; intros k H; simpl.
  - rewrite Nat.add_0_r. split; auto.
  - assert (E : (x ^ k * x)%R = (x ^ S k)%R) by (simpl; ring).
    destruct (H (S k) ltac:(lia)) as [G B].
    rewrite E, (round_generic radix2 fexp ZnearestE _ G).
    destruct (IH (S k)) as [I1 I2].
    + intros i Hi. apply H. lia.
    + replace (k + S n)%nat with (S k + n)%nat by lia. split; [exact I1 | split; [exact B | exact I2]].
Qed.

Lemma C17_fpower_exact_lemma (m : fl) (p : Z) :
  is_finite m = true ->
  (forall i : nat, (0 < i <= Z.abs_nat p)%nat ->
     generic_format radix2 fexp (B2R m ^ i) /\ (Rabs (B2R m ^ i) < bpow radix2 emax)%R) ->
  ((0 <= p)%Z -> B2R (c17_fpower prec emax Hprec Hmax m p) = (B2R m ^ Z.abs_nat p)%R) /\
  ((p < 0)%Z -> (B2R m ^ Z.abs_nat p <> 0)%R -> (Rabs (rnd (1 / B2R m ^ Z.abs_nat p)) < bpow radix2 emax)%R ->
     B2R (c17_fpower prec emax Hprec Hmax m p) = rnd (1 / B2R m ^ Z.abs_nat p)).
Proof.
  intros Fm H.
  destruct (c17_rpow_exact (B2R m) (Z.abs_nat p) 0) as [E OK].
  { intros i Hi. apply H. lia. }
  simpl pow in E, OK. simpl plus in E.
  destruct (C17_fpower_real_lemma m p Fm OK) as [P N]. cbv zeta in P, N. rewrite E in P, N.
  split.
  - intros Hp. now destruct (P Hp).
  - intros Hp Nz NO. now destruct (N Hp Nz NO).
Qed.

End RealReading.

(* ---------------------------------------------------------------- power for an integral Base and p < 0:
   Base(1)/result with integer division: 1/m^|p| truncates to 0 for |m| > 1, is +-1 for m = +-1 and undefined for m = 0;
   this is why C17_power claims the exact value m^p only for p >= 0 (math.hh: "Make sure that Base is a non-integer type
   when using negative exponents!") *)
Local Open Scope Z_scope.
Lemma C17_ipower_negative_lemma (t : c17_ity) (m p : Z) :
  p < 0 -> - 2 ^ 31 < p ->
  (forall i, 1 <= i <= - p -> c17_inrange t (m ^ i) = true) ->
  c17_inrange t 0 = true -> c17_inrange t 1 = true ->
  c17_ipower t m p =
    (if m =? 0 then C17_UB
     else if Z.abs m =? 1 then C17_Val (m ^ (- p))      (* 1/(+-1) = +-1 = m^p *)
     else C17_Val 0).                                     (* the integer quotient, not m^p *)
Proof.
  intros Hp Hlo H R0 R1. unfold c17_ipower.
  assert (E : (p <? 0) = true) by (apply Z.ltb_lt; lia). rewrite E.
  rewrite (c17_fit_in c17_int32 (- p)).
  2:{ unfold c17_inrange, c17_int32, c17_imin, c17_imax. simpl c17_signed. simpl c17_width. cbv iota.
      apply andb_true_intro; split; apply Z.leb_le; simpl; lia. }
  cbn [c17_bind]. rewrite c17_ipower_loop_ok.
  2:{ intros i Hi. rewrite Z.mul_1_l. apply H. lia. }
  cbn [c17_bind]. rewrite Z.mul_1_l, Z2Nat.id by lia.
  unfold c17_idiv.
  destruct (Z.eqb_spec m 0) as [->|Nz].
  - rewrite Z.pow_0_l by lia. reflexivity.
  - assert (Pnz : m ^ (- p) <> 0) by (apply Z.pow_nonzero; lia).
    assert (E2 : (m ^ (- p) =? 0) = false) by (now apply Z.eqb_neq). rewrite E2.
    destruct (Z.eqb_spec (Z.abs m) 1) as [A1|A1].
    + assert (Hm : m = 1 \/ m = -1) by lia.
      assert (Hv : m ^ (- p) = 1 \/ m ^ (- p) = -1).
      { destruct Hm as [->| ->]; [left; apply Z.pow_1_l; lia|].
        destruct (Z.Even_or_Odd (- p)) as [[k Hk]|[k Hk]]; rewrite Hk.
        - left. rewrite Z.pow_mul_r by lia. simpl ((-1) ^ 2). apply Z.pow_1_l. lia.
        - right. rewrite Z.pow_add_r, Z.pow_mul_r by lia. simpl ((-1) ^ 2). rewrite Z.pow_1_l by lia. reflexivity. }
      destruct Hv as [Hv|Hv]; rewrite Hv.
      * simpl Z.quot. now apply c17_fit_in.
      * simpl Z.quot. apply c17_fit_in. specialize (H (- p) ltac:(lia)). now rewrite Hv in H.
    + assert (Big : 2 <= Z.abs (m ^ (- p))).
      { rewrite Z.abs_pow. assert (2 <= Z.abs m) by lia.
        apply Z.le_trans with (Z.abs m ^ 1); [rewrite Z.pow_1_r; lia | apply Z.pow_le_mono_r; lia]. }
      assert (Q0 : Z.quot 1 (m ^ (- p)) = 0) by (apply Z.quot_small_iff; [lia | right; lia] || (apply Z.quot_small_iff; [lia|]; lia)).
      rewrite Q0. now apply c17_fit_in.
Qed.
