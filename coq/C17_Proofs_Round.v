(* C17 — trunc / round AFTER fixes/C17-2.patch and fixes/C17-3.patch, over the Flocq model at every format:
   the result is the real truncated / a nearest integer in the documented direction, unless an adjacent
   integer is tolerantly equal to the argument (C17_trunc_round). *)
From Coq Require Import ZArith Reals List Bool Lia Lra.
From Flocq Require Import Core Plus_error BinarySingleNaN.
From DuneV Require Import C17_Model C17_Spec C17_Spec_Round C17_Proofs_Cmp C17_Proofs_Int.

Section Round.
Variable prec emax : Z.
Context (Hprec : Prec_gt_0 prec) (Hmax : Prec_lt_emax prec emax).
Notation fl := (binary_float prec emax).
Notation fexp := (SpecFloat.fexp prec emax).
Notation rnd := (round radix2 fexp ZnearestE).
Notation ofZ := (c17_of_Z prec emax Hprec Hmax).
Notation EQ := (c17_eq prec emax Hprec Hmax).

Local Instance fexp_valid' : Valid_exp fexp := fexp_correct prec emax Hprec.

Lemma c17_prec_pos : (0 < prec)%Z.
Proof. exact Hprec. Qed.
Lemma c17_prec_lt_emax : (prec < emax)%Z.
Proof. exact Hmax. Qed.

(* T(z): exact whenever the integer is representable in the format *)
Lemma c17_ofZ_exact (z : Z) :
  generic_format radix2 fexp (IZR z) -> (Rabs (IZR z) < bpow radix2 emax)%R ->
  B2R (ofZ z) = IZR z /\ is_finite (ofZ z) = true.
Proof.
  intros G B. unfold c17_of_Z.
  pose proof (binary_normalize_correct prec emax Hprec Hmax mode_NE z 0 false) as H.
  cbv zeta in H. simpl round_mode in H.
  replace (F2R (Float radix2 z 0)) with (IZR z) in H by (unfold F2R; simpl; ring).
  rewrite (round_generic radix2 fexp ZnearestE (IZR z) G) in H.
  rewrite Rlt_bool_true in H by exact B.
  destruct H as (H1 & H2 & _). split; assumption.
Qed.

(* integers of magnitude at most 2^(prec-1) are in every format *)
Lemma c17_small_int_format (z : Z) :
  (Z.abs z <= 2 ^ (prec - 1))%Z -> generic_format radix2 fexp (IZR z) /\ (Rabs (IZR z) < bpow radix2 emax)%R.
Proof.
  intros Hz. pose proof c17_prec_pos as Pp. pose proof c17_prec_lt_emax as Pe.
  assert (Hlt : (Z.abs z < 2 ^ prec)%Z).
  { apply Z.le_lt_trans with (1 := Hz). apply Z.pow_lt_mono_r; lia. }
  split.
  - apply (generic_format_FLT radix2 (3 - emax - prec) prec).
    apply (FLT_spec radix2 (3 - emax - prec) prec (IZR z) (Float radix2 z 0)).
    + unfold F2R; simpl; ring.
    + cbn [Fnum]. exact Hlt.
    + cbn [Fexp]. lia.
  - rewrite <- abs_IZR. apply Rlt_le_trans with (IZR (2 ^ prec)).
    + now apply IZR_lt.
    + change 2%Z with (radix_val radix2). rewrite IZR_Zpower by lia. apply bpow_le. lia.
Qed.

(* a finite float that is not an integer is smaller than 2^(prec-1) in magnitude *)
Lemma c17_nonint_small (v : fl) :
  is_finite v = true -> IZR (Zfloor (B2R v)) <> B2R v -> (Rabs (B2R v) < bpow radix2 (prec - 1))%R.
Proof.
  intros F NI. destruct v as [s|s| |s m e Hb]; try discriminate F.
  - exfalso. apply NI. simpl. now rewrite Zfloor_IZR.
  - simpl B2R in *.
    destruct (Z_le_gt_dec 0 e) as [He|He].
    + exfalso. apply NI.
      assert (EI : F2R (Float radix2 (cond_Zopp s (Z.pos m)) e) = IZR (cond_Zopp s (Z.pos m) * 2 ^ e)).
      { unfold F2R. simpl Fnum. simpl Fexp. rewrite mult_IZR. f_equal.
        change 2%Z with (radix_val radix2). now rewrite IZR_Zpower. }
      rewrite EI. now rewrite Zfloor_IZR.
    + pose proof (canonical_bounded prec emax s m e Hb) as C. unfold canonical, cexp in C. simpl Fexp in C.
      set (x := F2R (Float radix2 (cond_Zopp s (Z.pos m)) e)) in *.
      assert (Hm : (mag radix2 x - prec <= e)%Z).
      { rewrite C. unfold SpecFloat.fexp. lia. }
      apply Rlt_le_trans with (1 := bpow_mag_gt radix2 x). apply bpow_le. lia.
Qed.

Lemma c17_bpow_prec_m1 : bpow radix2 (prec - 1) = IZR (2 ^ (prec - 1)).
Proof. pose proof c17_prec_pos. change 2%Z with (radix_val radix2). rewrite IZR_Zpower by lia. reflexivity. Qed.

(* so floor and floor+1 of a non-integral finite float are exactly representable *)
Lemma c17_nonint_neighbours (v : fl) :
  is_finite v = true -> IZR (Zfloor (B2R v)) <> B2R v ->
  (Z.abs (Zfloor (B2R v)) <= 2 ^ (prec - 1))%Z /\ (Z.abs (Zfloor (B2R v) + 1) <= 2 ^ (prec - 1))%Z.
Proof.
  intros F NI. pose proof (c17_nonint_small v F NI) as S. rewrite c17_bpow_prec_m1 in S.
  set (x := B2R v) in *. pose proof (Zfloor_lb x) as L. pose proof (Zfloor_ub x) as U.
  apply Rabs_def2 in S. destruct S as [S1 S2].
  set (P := (2 ^ (prec - 1))%Z) in *.
  assert (A : (Zfloor x < P)%Z) by (apply lt_IZR; lra).
  assert (B : (- P - 1 < Zfloor x)%Z).
  { apply lt_IZR. rewrite minus_IZR, opp_IZR. lra. }
  (* floor x = -P - ... : floor x >= -P since x > -P and -P is an integer <= x ... use: x > -P  =>  floor x >= -P *)
  assert (B' : (- P <= Zfloor x)%Z).
  { apply Zfloor_lub. rewrite opp_IZR. lra. }
  split; lia.
Qed.

(* I(val): truncation toward zero *)
Lemma c17_cast_finite (t : c17_ity) (v : fl) :
  is_finite v = true ->
  c17_cast prec emax t v =
    if c17_inrange t (Ztrunc (B2R v)) then C17_Val (Ztrunc (B2R v)) else C17_UB.
Proof.
  intros F.
  assert (E : Btrunc v = Ztrunc (B2R v)).
  { apply eq_IZR. rewrite (Btrunc_correct prec emax Hmax). exact (round_FIX_IZR Ztrunc (B2R v)). }
  unfold c17_cast. destruct v as [s|s| |s m e Hb]; try discriminate F; rewrite E; reflexivity.
Qed.

Lemma c17_ofZ_zero : ofZ 0 = c17_fzero prec emax.
Proof. reflexivity. Qed.

(* T(k) when val is the integer k *)
Lemma c17_ofZ_of_integral (val : fl) (k : Z) :
  is_finite val = true -> IZR k = B2R val -> B2R (ofZ k) = B2R val /\ is_finite (ofZ k) = true.
Proof.
  intros F E. rewrite <- E. apply c17_ofZ_exact.
  - rewrite E. apply generic_format_B2R.
  - rewrite E. apply abs_B2R_lt_emax.
Qed.

Lemma c17_ofZ_small (z : Z) :
  (Z.abs z <= 2 ^ (prec - 1))%Z -> B2R (ofZ z) = IZR z /\ is_finite (ofZ z) = true.
Proof. intros H. destruct (c17_small_int_format z H). now apply c17_ofZ_exact. Qed.

Lemma c17_fgt_real (a b : fl) : is_finite a = true -> is_finite b = true ->
  c17_fgt prec emax a b = Rlt_bool (B2R b) (B2R a).
Proof. intros Fa Fb. unfold c17_fgt. now apply Bltb_correct. Qed.

Lemma c17_feqb_real (a b : fl) : is_finite a = true -> is_finite b = true ->
  c17_feqb prec emax a b = Req_bool (B2R a) (B2R b).
Proof. intros Fa Fb. unfold c17_feqb. now apply Beqb_correct. Qed.

(* equal real values are tolerantly equal (eps finite, >= 0) *)
Lemma c17_eq_of_same_value (s : c17_cstyle) (eps a b : fl) :
  is_finite eps = true -> (0 <= B2R eps)%R -> is_finite a = true -> is_finite b = true ->
  B2R a = B2R b -> EQ s eps a b = true.
Proof.
  intros Fe Pe Fa Fb E. apply c17_tri_eq; auto; rewrite Bltb_correct by auto; rewrite E; apply Rlt_bool_false; lra.
Qed.

Lemma c17_floor_nonint_cases (x : R) : IZR (Zfloor x) <> x ->
  ((x < 0)%R /\ Ztrunc x = (Zfloor x + 1)%Z /\ (x < IZR (Zfloor x + 1))%R) \/ ((0 < x)%R /\ Ztrunc x = Zfloor x /\ (IZR (Zfloor x) < x)%R).
Proof.
  intros NI. pose proof (Zfloor_lb x) as L. pose proof (Zfloor_ub x) as U.
  unfold Ztrunc. destruct (Rlt_bool_spec x 0) as [N|P].
  - left. rewrite (Zceil_floor_neq x NI). rewrite plus_IZR. repeat split; auto; lra.
  - right. assert (x <> 0%R).
    { intros ->. apply NI. change 0%R with (IZR 0). now rewrite Zfloor_IZR. }
    repeat split; auto; lra.
Qed.

Notation fzero := (c17_fzero prec emax).
Notation c17_dir_down := (c17_dir_down prec emax).
Notation c17_trunc_post := (c17_trunc_post prec emax Hprec Hmax).
Notation c17_decide_post := (c17_decide_post prec emax Hprec Hmax).
Notation c17_round_post := (c17_round_post prec emax Hprec Hmax).
Notation TRD := (c17_trunc_down_fix prec emax Hprec Hmax).
Notation TRU := (c17_trunc_up_fix prec emax Hprec Hmax).

(* ---------------------------------------------------------------- trunc, downward *)
Lemma c17_trunc_down_fix_int (t : c17_ity) (s : c17_cstyle) (eps val : fl) (k : Z) :
  is_finite val = true -> IZR k = B2R val -> c17_inrange t k = true ->
  exists z, TRD t s eps val = C17_Val z /\
    (z = k \/ (c17_signed t = false /\ z = 0%Z /\ EQ s eps val fzero = true)).
Proof.
  intros F E R. unfold c17_trunc_down_fix.
  destruct (negb (c17_signed t) && EQ s eps val fzero) eqn:Sp.
  - exists 0%Z. split; [reflexivity|]. right. apply andb_prop in Sp. destruct Sp as [S1 S2].
    repeat split; auto. now apply negb_true_iff in S1.
  - rewrite (c17_cast_finite t val F). rewrite <- E, Ztrunc_IZR, R. cbn [c17_bind].
    destruct (c17_ofZ_of_integral val k F E) as [V Fk].
    rewrite (c17_feqb_real _ _ Fk F), V, Req_bool_true by reflexivity.
    exists k. split; auto.
Qed.

Lemma c17_trunc_down_fix_nonint (t : c17_ity) (s : c17_cstyle) (eps val : fl) :
  let f := Zfloor (B2R val) in
  is_finite val = true -> IZR f <> B2R val -> c17_inrange t f = true -> c17_inrange t (f + 1) = true ->
  exists z, TRD t s eps val = C17_Val z /\
    ((z = (f + 1)%Z /\ EQ s eps (ofZ (f + 1)) val = true) \/
     (z = f /\ EQ s eps (ofZ (f + 1)) val = false) \/
     (c17_signed t = false /\ z = 0%Z /\ EQ s eps val fzero = true)).
Proof.
  intros f F NI Rf Rf1. unfold c17_trunc_down_fix.
  destruct (negb (c17_signed t) && EQ s eps val fzero) eqn:Sp.
  - exists 0%Z. split; [reflexivity|]. right; right. apply andb_prop in Sp. destruct Sp as [S1 S2].
    repeat split; auto. now apply negb_true_iff in S1.
  - destruct (c17_nonint_neighbours val F NI) as [Nf Nf1]. fold f in Nf, Nf1.
    destruct (c17_ofZ_small f Nf) as [Vf Ff]. destruct (c17_ofZ_small (f + 1) Nf1) as [Vf1 Ff1].
    assert (Gd : (f =? c17_imax t)%Z = false).           (* the guard at max(I) does not fire: f + 1 is a value of I *)
    { apply Z.eqb_neq. apply c17_inrange_iff in Rf1. lia. }
    rewrite (c17_cast_finite t val F).
    destruct (c17_floor_nonint_cases (B2R val) NI) as [(Neg & Tr & Lt)|(Pos & Tr & Lt)]; fold f in Tr, Lt; rewrite Tr.
    + (* val < 0: the cast gives f+1 > val, corrected to f *)
      rewrite Rf1. cbn [c17_bind].
      rewrite (c17_feqb_real _ _ Ff1 F), Vf1, Req_bool_false by lra.
      rewrite (c17_fgt_real _ _ Ff1 F), Vf1, Rlt_bool_true by lra.
      replace (f + 1 - 1)%Z with f by lia. rewrite (c17_fit_in t f Rf). cbn [c17_bind].
      rewrite Gd.
      rewrite (c17_expr_in t (f + 1) Rf1). cbn [c17_bind].
      destruct (EQ s eps (ofZ (f + 1)) val) eqn:Q.
      * exists (f + 1)%Z. split; auto using c17_store_in.
      * exists f. split; auto.
    + rewrite Rf. cbn [c17_bind].
      rewrite (c17_feqb_real _ _ Ff F), Vf, Req_bool_false by lra.
      rewrite (c17_fgt_real _ _ Ff F), Vf, Rlt_bool_false by lra.
      cbn [c17_bind]. rewrite Gd. rewrite (c17_expr_in t (f + 1) Rf1). cbn [c17_bind].
      destruct (EQ s eps (ofZ (f + 1)) val) eqn:Q.
      * exists (f + 1)%Z. split; auto using c17_store_in.
      * exists f. split; auto.
Qed.

(* at the top of the range (fixes/C17-4.patch): floor(val) = max(I), val not integral: the truncated value max(I) is returned,
   whatever the tolerance says about the unrepresentable max(I)+1 *)
Lemma C17_trunc_down_top_lemma (t : c17_ity) (s : c17_cstyle) (eps val : fl) :
  let f := Zfloor (B2R val) in
  is_finite val = true -> IZR f <> B2R val -> f = c17_imax t -> c17_inrange t f = true ->
  (0 < B2R val)%R ->
  negb (c17_signed t) && EQ s eps val fzero = false ->
  TRD t s eps val = C17_Val f.
Proof.
  intros f F NI Top Rf Pos Sp. unfold c17_trunc_down_fix. rewrite Sp.
  destruct (c17_nonint_neighbours val F NI) as [Nf Nf1]. fold f in Nf, Nf1.
  destruct (c17_ofZ_small f Nf) as [Vf Ff].
  rewrite (c17_cast_finite t val F).
  destruct (c17_floor_nonint_cases (B2R val) NI) as [(Neg & _)|(_ & Tr & Lt)]; [lra|]. fold f in Tr, Lt. rewrite Tr, Rf.
  cbn [c17_bind].
  rewrite (c17_feqb_real _ _ Ff F), Vf, Req_bool_false by lra.
  rewrite (c17_fgt_real _ _ Ff F), Vf, Rlt_bool_false by lra.
  cbn [c17_bind]. rewrite Top, Z.eqb_refl. reflexivity.
Qed.

(* ---------------------------------------------------------------- trunc, upward *)
Lemma c17_eq_zero_sym (s : c17_cstyle) (eps val : fl) :
  is_finite val = true -> EQ s eps (ofZ 0) val = EQ s eps val fzero.
Proof. intros F. rewrite c17_ofZ_zero. now apply c17_eq_sym. Qed.

Lemma c17_trunc_up_fix_int (t : c17_ity) (s : c17_cstyle) (eps val : fl) (k : Z) :
  is_finite eps = true -> (0 <= B2R eps)%R ->
  is_finite val = true -> IZR k = B2R val -> c17_inrange t k = true ->
  exists z, TRU t s eps val = C17_Val z /\
    (z = k \/ (c17_signed t = false /\ z = 0%Z /\ EQ s eps val fzero = true)).
Proof.
  intros Fe Pe F E R. unfold c17_trunc_up_fix.
  destruct (c17_trunc_down_fix_int t s eps val k F E R) as (z0 & -> & [->|(S1 & -> & S2)]); cbn [c17_bind]; unfold c17_ne.
  - destruct (c17_ofZ_of_integral val k F E) as [V Fk].
    rewrite (c17_eq_of_same_value s eps (ofZ k) val Fe Pe Fk F V). cbn [negb].
    exists k. split; auto.
  - rewrite (c17_eq_zero_sym s eps val F), S2. cbn [negb]. exists 0%Z. split; auto.
Qed.

Lemma c17_trunc_up_fix_nonint (t : c17_ity) (s : c17_cstyle) (eps val : fl) :
  let f := Zfloor (B2R val) in
  is_finite val = true -> IZR f <> B2R val -> c17_inrange t f = true -> c17_inrange t (f + 1) = true ->
  exists z, TRU t s eps val = C17_Val z /\
    ((z = (f + 1)%Z /\ (EQ s eps (ofZ (f + 1)) val = true \/ EQ s eps (ofZ f) val = false)) \/
     (z = f /\ EQ s eps (ofZ (f + 1)) val = false /\ EQ s eps (ofZ f) val = true) \/
     (c17_signed t = false /\ z = 0%Z /\ EQ s eps val fzero = true)).
Proof.
  intros f F NI Rf Rf1. unfold c17_trunc_up_fix.
  destruct (c17_trunc_down_fix_nonint t s eps val F NI Rf Rf1) as (z0 & -> & [(-> & Q)|[(-> & Q)|(S1 & -> & S2)]]);
    fold f; try fold f in Q; cbn [c17_bind]; unfold c17_ne.
  - rewrite Q. cbn [negb]. exists (f + 1)%Z. split; auto.
  - destruct (EQ s eps (ofZ f) val) eqn:Qf; cbn [negb].
    + exists f. split; auto.
    + rewrite (c17_fit_in t (f + 1) Rf1). exists (f + 1)%Z. split; auto.
  - rewrite (c17_eq_zero_sym s eps val F), S2. cbn [negb]. exists 0%Z. split; auto 10.
Qed.

(* ---------------------------------------------------------------- trunc, all four rounding styles *)
Lemma c17_dir_down_real (r : c17_rstyle) (val : fl) : is_finite val = true ->
  c17_dir_down r val = match r with
                       | C17_Downward => true | C17_Upward => false
                       | C17_TowardZero => Rlt_bool 0 (B2R val)
                       | C17_TowardInf => negb (Rlt_bool 0 (B2R val)) end.
Proof.
  intros F. unfold c17_dir_down. destruct r; try reflexivity; rewrite (c17_fgt_real val fzero F eq_refl); reflexivity.
Qed.

Lemma C17_trunc_fixed_lemma (r : c17_rstyle) (t : c17_ity) (s : c17_cstyle) (eps val : fl) :
  is_finite eps = true -> (0 <= B2R eps)%R -> is_finite val = true ->
  let f := Zfloor (B2R val) in
  c17_inrange t f = true -> (IZR f <> B2R val -> c17_inrange t (f + 1) = true) ->
  exists z, c17_trunc_fix prec emax Hprec Hmax r t s eps val = C17_Val z /\
            c17_trunc_post (c17_dir_down r val) t s eps val z.
Proof.
  intros Fe Pe F f Rf Rf1.
  assert (D : forall down : bool, exists z,
             (if down then TRD t s eps val else TRU t s eps val) = C17_Val z /\ c17_trunc_post down t s eps val z).
  { intros down. unfold c17_trunc_post. fold f.
    destruct (Req_dec (IZR f) (B2R val)) as [E|NI].
    - destruct down.
      + destruct (c17_trunc_down_fix_int t s eps val f F E Rf) as (z & Hz & [Ez|Sp]); exists z; split; auto.
      + destruct (c17_trunc_up_fix_int t s eps val f Fe Pe F E Rf) as (z & Hz & [Ez|Sp]); exists z; split; auto.
    - specialize (Rf1 NI).
      destruct (c17_nonint_neighbours val F NI) as [Nf Nf1]. fold f in Nf, Nf1.
      destruct (c17_ofZ_small f Nf) as [Vf _]. destruct (c17_ofZ_small (f + 1) Nf1) as [Vf1 _].
      destruct down.
      + destruct (c17_trunc_down_fix_nonint t s eps val F NI Rf Rf1) as (z & Hz & [A|[A|Sp]]); try fold f in A; exists z; split; auto 10.
      + destruct (c17_trunc_up_fix_nonint t s eps val F NI Rf Rf1) as (z & Hz & [A|[A|Sp]]); try fold f in A; exists z; split; auto 10. }
  unfold c17_trunc_fix, c17_dir_down. destruct r.
  - destruct (c17_fgt prec emax val fzero); [exact (D true) | exact (D false)].
  - destruct (c17_fgt prec emax val fzero); cbn [negb]; [exact (D false) | exact (D true)].
  - exact (D true).
  - exact (D false).
Qed.

(* the plain reading: the result is floor or ceiling of val (so within 1 of val), equal to val when val is integral,
   and differs from the real truncated value in the style's direction only if it is tolerantly equal to val *)
Lemma C17_trunc_fixed_plain_lemma (down : bool) (t : c17_ity) (s : c17_cstyle) (eps val : fl) (z : Z) :
  c17_trunc_post down t s eps val z ->
  (c17_signed t = false /\ z = 0%Z /\ EQ s eps val fzero = true) \/
  ((z = Zfloor (B2R val) \/ z = Zceil (B2R val)) /\ (Rabs (IZR z - B2R val) < 1)%R /\
   (z <> (if down then Zfloor (B2R val) else Zceil (B2R val)) -> EQ s eps (ofZ z) val = true /\ B2R (ofZ z) = IZR z)).
Proof.
  unfold c17_trunc_post. set (x := B2R val). set (f := Zfloor x).
  intros [Sp|[(E & ->)|(NI & Vf & Vf1 & H)]]; [left; exact Sp | right | right].
  - assert (C : Zceil x = f) by (rewrite <- E; apply Zceil_IZR).
    split; [left; reflexivity|]. split.
    + rewrite E, Rminus_diag_eq, Rabs_R0 by reflexivity. lra.
    + intros N. exfalso. apply N. destruct down; auto.
  - pose proof (Zceil_floor_neq x NI) as C. fold f in C.
    pose proof (Zfloor_lb x) as L. pose proof (Zfloor_ub x) as U. fold f in L, U.
    assert (Bf : (Rabs (IZR f - x) < 1)%R) by (apply Rabs_def1; lra).
    assert (Bf1 : (Rabs (IZR (f + 1) - x) < 1)%R).
    { rewrite plus_IZR. assert (IZR f <> x) by exact NI. apply Rabs_def1; lra. }
    destruct down.
    + destruct H as [(-> & Q)|(-> & Q)].
      * split; [right; now rewrite C|]. split; [exact Bf1|]. intros _. split; assumption.
      * split; [left; reflexivity|]. split; [exact Bf|]. intros N. exfalso. now apply N.
    + rewrite C. destruct H as [(-> & Q)|(-> & Q1 & Q2)].
      * split; [right; reflexivity|]. split; [exact Bf1|]. intros N. exfalso. now apply N.
      * split; [left; reflexivity|]. split; [exact Bf|]. intros _. split; assumption.
Qed.

(* ---------------------------------------------------------------- round *)
Notation RDU := (c17_round_du_fix prec emax Hprec Hmax).
Notation FSUB := (c17_fsub prec emax Hprec Hmax).

Lemma c17_one_format : generic_format radix2 fexp 1 /\ (1 < bpow radix2 emax)%R.
Proof.
  pose proof c17_prec_pos as Pp.
  assert (H : (Z.abs 1 <= 2 ^ (prec - 1))%Z).
  { simpl Z.abs. change 1%Z with (2 ^ 0)%Z at 1. apply Z.pow_le_mono_r; lia. }
  destruct (c17_small_int_format 1 H) as [G B]. split; [exact G|].
  rewrite Rabs_R1 in B. exact B.
Qed.

(* a difference in [0,1] is computed with one rounding, stays in [0,1] and is finite *)
Lemma c17_fsub_unit (a b : fl) :
  is_finite a = true -> is_finite b = true -> (0 <= B2R a - B2R b <= 1)%R ->
  B2R (FSUB a b) = rnd (B2R a - B2R b) /\ is_finite (FSUB a b) = true.
Proof.
  intros Fa Fb [L U]. destruct c17_one_format as [G1 B1].
  pose proof (Bminus_correct prec emax Hprec Hmax mode_NE a b Fa Fb) as H. simpl round_mode in H.
  assert (R0 : (0 <= rnd (B2R a - B2R b))%R).
  { rewrite <- (round_0 radix2 fexp ZnearestE). apply round_le; auto with typeclass_instances. }
  assert (R1 : (rnd (B2R a - B2R b) <= 1)%R).
  { apply Rle_trans with (rnd 1); [apply round_le; auto with typeclass_instances | rewrite (round_generic radix2 fexp ZnearestE 1 G1); lra]. }
  rewrite Rlt_bool_true in H.
  - destruct H as (H1 & H2 & _). split; assumption.
  - rewrite Rabs_pos_eq by exact R0. lra.
Qed.

Lemma c17_rnd_mono (a b : R) : (a <= b)%R -> (rnd a <= rnd b)%R.
Proof. intros H. apply round_le; auto with typeclass_instances. Qed.

Lemma c17_round_decide_ok (up : bool) (s : c17_cstyle) (eps val : fl) :
  let f := Zfloor (B2R val) in
  is_finite eps = true -> (0 <= B2R eps)%R -> is_finite val = true -> IZR f <> B2R val ->
  exists z, c17_round_decide prec emax Hprec Hmax up s eps val f (f + 1) = C17_Val z /\ c17_decide_post up s eps val z.
Proof.
  intros f Fe Pe F NI.
  destruct (c17_nonint_neighbours val F NI) as [Nf Nf1]. fold f in Nf, Nf1.
  destruct (c17_ofZ_small f Nf) as [Vf Ff]. destruct (c17_ofZ_small (f + 1) Nf1) as [Vf1 Ff1].
  set (x := B2R val) in *.
  pose proof (Zfloor_lb x) as L. pose proof (Zfloor_ub x) as U. fold f in L, U.
  assert (I1 : IZR (f + 1) = (IZR f + 1)%R) by apply plus_IZR.
  set (a := (x - IZR f)%R). set (b := (IZR (f + 1) - x)%R).
  assert (Ha : (0 <= a <= 1)%R) by (unfold a; lra). assert (Hb : (0 <= b <= 1)%R) by (unfold b; lra).
  destruct (c17_fsub_unit val (ofZ f) F Ff) as [Va Fa]; [rewrite Vf; exact Ha|].
  destruct (c17_fsub_unit (ofZ (f + 1)) val Ff1 F) as [Vb Fb]; [rewrite Vf1; exact Hb|].
  rewrite Vf in Va. rewrite Vf1 in Vb. fold x in Va, Vb. fold a in Va. fold b in Vb.
  set (dl := FSUB val (ofZ f)) in *. set (du := FSUB (ofZ (f + 1)) val) in *.
  unfold c17_round_decide, c17_decide_post. fold f. fold x. fold dl. fold du. fold a. fold b.
  unfold c17_lt, c17_le, c17_ne, c17_flt.
  rewrite (Bltb_correct prec emax dl du Fa Fb), Va, Vb.
  destruct (Rlt_bool_spec (rnd a) (rnd b)) as [Lt|Ge].
  - (* dl' < du': then a < b *)
    assert (Hab : (a < b)%R).
    { destruct (Rlt_or_le a b) as [H|H]; [exact H|]. apply c17_rnd_mono in H. lra. }
    destruct up; cbn [andb orb].
    + destruct (EQ s eps dl du) eqn:T; cbn [negb].
      * exists (f + 1)%Z. split; [reflexivity|]. right. auto.
      * exists f. split; [reflexivity|]. left. repeat split; auto; fold f; unfold a, b in *; lra.
    + exists f. split; [reflexivity|]. left. split; [reflexivity|]. left. fold f; unfold a, b in *; lra.
  - (* dl' >= du' *)
    assert (Hor : (b < a)%R \/ EQ s eps dl du = true).
    { destruct (Rlt_or_le b a) as [H|H]; [left; exact H|]. right.
      apply c17_rnd_mono in H. apply c17_eq_of_same_value; auto. rewrite Va, Vb. lra. }
    destruct up; cbn [andb orb].
    + exists (f + 1)%Z. split; [reflexivity|]. right. split; [reflexivity|].
      destruct Hor as [H|H]; [left; fold f; unfold a, b in *; lra | right; exact H].
    + destruct (EQ s eps dl du) eqn:T.
      * exists f. split; [reflexivity|]. left. auto.
      * exists (f + 1)%Z. split; [reflexivity|]. right. destruct Hor as [H|H]; [auto | discriminate H].
Qed.

Lemma c17_inrange_pred (t : c17_ity) (z : Z) :
  c17_inrange t z = true -> (z =? c17_imin t)%Z = false -> c17_inrange t (z - 1) = true.
Proof.
  unfold c17_inrange. intros H N. apply andb_prop in H. destruct H as [H1 H2].
  apply Z.leb_le in H1. apply Z.leb_le in H2. apply Z.eqb_neq in N.
  apply andb_true_intro; split; apply Z.leb_le; lia.
Qed.

Lemma c17_inrange_succ (t : c17_ity) (z : Z) :
  c17_inrange t z = true -> (z =? c17_imax t)%Z = false -> c17_inrange t (z + 1) = true.
Proof.
  unfold c17_inrange. intros H N. apply andb_prop in H. destruct H as [H1 H2].
  apply Z.leb_le in H1. apply Z.leb_le in H2. apply Z.eqb_neq in N.
  apply andb_true_intro; split; apply Z.leb_le; lia.
Qed.

Lemma c17_round_du_fix_ok (up : bool) (t : c17_ity) (s : c17_cstyle) (eps val : fl) :
  is_finite eps = true -> (0 <= B2R eps)%R -> is_finite val = true ->
  c17_inrange t (Ztrunc (B2R val)) = true ->
  exists z, RDU up t s eps val = C17_Val z /\ c17_round_post up t s eps val z.
Proof.
  intros Fe Pe F Rc. unfold c17_round_du_fix, c17_round_post.
  set (x := B2R val) in *. set (f := Zfloor x).
  rewrite (c17_cast_finite t val F). fold x. rewrite Rc. cbn [c17_bind].
  destruct (Req_dec (IZR f) x) as [E|NI].
  - (* integral *)
    assert (Tk : Ztrunc x = f) by (rewrite <- E; apply Ztrunc_IZR).
    rewrite Tk. destruct (c17_ofZ_of_integral val f F E) as [V Fk].
    rewrite (c17_eq_of_same_value s eps (ofZ f) val Fe Pe Fk F V).
    exists f. split; auto.
  - destruct (c17_nonint_neighbours val F NI) as [Nf Nf1]. fold x in Nf, Nf1. fold f in Nf, Nf1.
    destruct (c17_ofZ_small f Nf) as [Vf Ff]. destruct (c17_ofZ_small (f + 1) Nf1) as [Vf1 Ff1].
    destruct (c17_round_decide_ok up s eps val Fe Pe F NI) as (zd & Hd & Pd). fold x in Hd. fold f in Hd.
    destruct (c17_floor_nonint_cases x NI) as [(Neg & Tr & Lt)|(Pos & Tr & Lt)]; fold f in Tr, Lt; rewrite Tr in *.
    + destruct (EQ s eps (ofZ (f + 1)) val) eqn:Q.
      * exists (f + 1)%Z. split; [reflexivity|]. right. repeat split; auto.
      * rewrite (c17_fgt_real _ _ Ff1 F), Vf1. fold x. rewrite Rlt_bool_true by lra.
        destruct ((f + 1 =? c17_imin t)%Z) eqn:M.
        -- apply Z.eqb_eq in M. exists (f + 1)%Z. split; [reflexivity|]. right. repeat split; auto 10.
        -- pose proof (c17_inrange_pred t (f + 1) Rc M) as Rf. replace (f + 1 - 1)%Z with f in * by lia.
           rewrite (c17_fit_in t f Rf). cbn [c17_bind]. rewrite Hd.
           exists zd. split; [reflexivity|]. right. repeat split; auto 10.
    + destruct (EQ s eps (ofZ f) val) eqn:Q.
      * exists f. split; [reflexivity|]. right. repeat split; auto.
      * rewrite (c17_fgt_real _ _ Ff F), Vf. fold x. rewrite Rlt_bool_false by lra.
        destruct ((f =? c17_imax t)%Z) eqn:M.
        -- apply Z.eqb_eq in M. exists f. split; [reflexivity|]. right. repeat split; auto 10.
        -- pose proof (c17_inrange_succ t f Rc M) as Rf1.
           rewrite (c17_fit_in t (f + 1) Rf1). cbn [c17_bind]. rewrite Hd.
           exists zd. split; [reflexivity|]. right. repeat split; auto 10.
Qed.

Lemma C17_round_fixed_lemma (r : c17_rstyle) (t : c17_ity) (s : c17_cstyle) (eps val : fl) :
  is_finite eps = true -> (0 <= B2R eps)%R -> is_finite val = true ->
  c17_inrange t (Ztrunc (B2R val)) = true ->
  exists z, c17_round_fix prec emax Hprec Hmax r t s eps val = C17_Val z /\
            c17_round_post (negb (c17_dir_down r val)) t s eps val z.
Proof.
  intros Fe Pe F Rc. unfold c17_round_fix, c17_dir_down. destruct r.
  - destruct (c17_fgt prec emax val fzero); cbn [negb]; now apply c17_round_du_fix_ok.
  - destruct (c17_fgt prec emax val fzero); cbn [negb]; now apply c17_round_du_fix_ok.
  - now apply c17_round_du_fix_ok.
  - now apply c17_round_du_fix_ok.
Qed.

(* plain reading: floor or ceiling of val, hence within 1; and when both neighbours are representable and the cast
   value is not tolerantly equal to val, the result is a nearest integer unless the two distances are tolerantly equal *)
Lemma C17_round_fixed_plain_lemma (up : bool) (t : c17_ity) (s : c17_cstyle) (eps val : fl) (z : Z) :
  c17_round_post up t s eps val z ->
  (z = Zfloor (B2R val) \/ z = Zceil (B2R val)) /\ (Rabs (IZR z - B2R val) < 1)%R.
Proof.
  unfold c17_round_post, c17_decide_post. set (x := B2R val). set (f := Zfloor x).
  intros [(E & ->)|(NI & Vf & Vf1 & H)].
  - split; [left; reflexivity|]. rewrite E, Rminus_diag_eq, Rabs_R0 by reflexivity. lra.
  - pose proof (Zceil_floor_neq x NI) as C. fold f in C. rewrite C.
    pose proof (Zfloor_lb x) as L. pose proof (Zfloor_ub x) as U. fold f in L, U.
    assert (NI' : IZR f <> x) by exact NI.
    assert (Bf : (Rabs (IZR f - x) < 1)%R) by (apply Rabs_def1; lra).
    assert (Bf1 : (Rabs (IZR (f + 1) - x) < 1)%R) by (rewrite plus_IZR; apply Rabs_def1; lra).
    assert (Z2 : z = f \/ z = (f + 1)%Z).
    { destruct H as [(-> & _)|[(_ & _ & ->)|[(_ & _ & ->)|(_ & _ & D)]]]; auto.
      - destruct (c17_floor_nonint_cases x NI) as [(_ & -> & _)|(_ & -> & _)]; auto.
      - destruct up; destruct D as [(-> & _)|(-> & _)]; auto. }
    destruct Z2 as [-> | ->]; auto.
Qed.

(* ---------------------------------------------------------------- epsilon = 0: no tolerance, exact floor / ceiling *)
Local Instance fexp_mono' : Monotone_exp fexp := fexp_monotone prec emax.

(* with epsilon 0 (any style) the tolerant equality is the exact one *)
Lemma c17_eq_eps0 (s : c17_cstyle) (eps x y : fl) :
  is_finite eps = true -> B2R eps = 0%R -> is_finite x = true -> is_finite y = true ->
  EQ s eps x y = true -> B2R x = B2R y.
Proof.
  intros Fe Ze Fx Fy.
  assert (Key : forall rhs : fl, is_finite rhs = true -> B2R rhs = 0%R ->
            Bleb (Babs (Bminus mode_NE x y)) rhs = true -> B2R x = B2R y).
  { intros rhs Fr Zr H.
    pose proof (Bminus_correct prec emax Hprec Hmax mode_NE x y Fx Fy) as M. simpl round_mode in M.
    destruct (Rlt_bool (Rabs (rnd (B2R x - B2R y))) (bpow radix2 emax)).
    - destruct M as (M1 & M2 & _).
      rewrite Bleb_correct in H by (rewrite ?is_finite_Babs; auto).
      rewrite B2R_Babs, M1, Zr in H.
      destruct (Rle_bool_spec (Rabs (rnd (B2R x - B2R y))) 0) as [L|L]; try discriminate.
      assert (Z0 : rnd (B2R x - B2R y) = 0%R).
      { pose proof (Rabs_pos (rnd (B2R x - B2R y))). apply Rabs_eq_R0. lra. }
      unfold Rminus in Z0.
      apply (round_plus_eq_0 radix2 fexp ZnearestE) in Z0.
      + lra.
      + apply generic_format_B2R.
      + apply generic_format_opp. apply generic_format_B2R.
    - destruct M as (M1 & _). unfold binary_overflow in M1. simpl in M1.
      destruct (Bminus mode_NE x y); try discriminate M1.
      destruct rhs as [sr|sr| |sr mr er Hr]; try discriminate Fr; simpl in H; discriminate H. }
  unfold c17_eq, c17_fle, c17_fabs, c17_fsub, c17_fmul.
  assert (Mul : forall m : fl, is_finite m = true ->
            is_finite (Bmult mode_NE eps m) = true /\ B2R (Bmult mode_NE eps m) = 0%R).
  { intros m Fm. pose proof (Bmult_correct prec emax Hprec Hmax mode_NE eps m) as HM. simpl round_mode in HM.
    rewrite Ze, Rmult_0_l, round_0, Rabs_R0 in HM by auto with typeclass_instances.
    rewrite Rlt_bool_true in HM by apply bpow_gt_0. destruct HM as (M1 & M2 & _). rewrite Fe, Fm in M2. auto. }
  destruct s.
  - destruct (Mul (c17_fmax prec emax (Babs x) (Babs y))) as [F Z].
    + unfold c17_fmax. destruct (c17_flt _ _ _ _); now rewrite is_finite_Babs.
    + now apply Key.
  - destruct (Mul (c17_fmin prec emax (Babs x) (Babs y))) as [F Z].
    + unfold c17_fmin. destruct (c17_flt _ _ _ _); now rewrite is_finite_Babs.
    + now apply Key.
  - now apply Key.
Qed.

(* trunc with epsilon 0: exactly floor (downward direction) / ceiling (upward direction) of val, every style *)
Lemma C17_trunc_eps0_lemma (r : c17_rstyle) (t : c17_ity) (s : c17_cstyle) (eps val : fl) :
  is_finite eps = true -> B2R eps = 0%R -> is_finite val = true ->
  let f := Zfloor (B2R val) in
  c17_inrange t f = true -> (IZR f <> B2R val -> c17_inrange t (f + 1) = true) ->
  c17_trunc_fix prec emax Hprec Hmax r t s eps val =
    C17_Val (if c17_dir_down r val then Zfloor (B2R val) else Zceil (B2R val)).
Proof.
  intros Fe Ze F f Rf Rf1.
  destruct (C17_trunc_fixed_lemma r t s eps val Fe ltac:(lra) F Rf Rf1) as (z & Hz & P).
  rewrite Hz. f_equal.
  unfold C17_Spec_Round.c17_trunc_post in P. fold f in P.
  assert (Zero : forall i : Z, B2R (ofZ i) = IZR i -> is_finite (ofZ i) = true -> EQ s eps (ofZ i) val = true -> IZR i = B2R val).
  { intros i Vi Fi Q. rewrite <- Vi. now apply (c17_eq_eps0 s eps (ofZ i) val). }
  destruct P as [(Su & -> & Q)|[(E & ->)|(NI & Vf & Vf1 & H)]].
  - (* unsigned, val tolerantly 0 with eps = 0: val = 0 *)
    assert (B2R val = 0%R).
    { symmetry. change 0%R with (B2R (c17_fzero prec emax)). symmetry. now apply (c17_eq_eps0 s eps val (c17_fzero prec emax)). }
    rewrite H. change 0%R with (IZR 0). rewrite Zfloor_IZR, Zceil_IZR. now destruct (c17_dir_down r val).
  - fold f. assert (Zceil (B2R val) = f) by (rewrite <- E; apply Zceil_IZR). rewrite H. now destruct (c17_dir_down r val).
  - destruct (c17_nonint_neighbours val F NI) as [Nf Nf1]. fold f in Nf, Nf1.
    destruct (c17_ofZ_small f Nf) as [_ Ff]. destruct (c17_ofZ_small (f + 1) Nf1) as [_ Ff1].
    pose proof (Zceil_floor_neq (B2R val) NI) as C. fold f in C. rewrite C. fold f.
    pose proof (Zfloor_ub (B2R val)) as U. fold f in U. pose proof (Zfloor_lb (B2R val)) as L. fold f in L.
    assert (N1 : EQ s eps (ofZ (f + 1)) val = false).
    { destruct (EQ s eps (ofZ (f + 1)) val) eqn:Q; auto. apply (Zero (f + 1)%Z Vf1 Ff1) in Q. rewrite plus_IZR in Q. lra. }
    assert (N0 : EQ s eps (ofZ f) val = false).
    { destruct (EQ s eps (ofZ f) val) eqn:Q; auto. apply (Zero f Vf Ff) in Q. contradiction. }
    destruct (c17_dir_down r val).
    + destruct H as [(_ & Q)|(-> & _)]; [congruence | reflexivity].
    + destruct H as [(-> & _)|(_ & _ & Q)]; [reflexivity | congruence].
Qed.

(* round at an exact tie val = k + 1/2 (cast value not tolerantly equal, both neighbours representable):
   downward direction -> k, upward direction -> k + 1 *)
Lemma C17_round_exact_tie_lemma (up : bool) (t : c17_ity) (s : c17_cstyle) (eps val : fl) (z : Z) :
  let x := B2R val in let f := Zfloor x in
  c17_round_post up t s eps val z ->
  (x - IZR f = 1 / 2)%R -> EQ s eps (ofZ (Ztrunc x)) val = false ->
  c17_inrange t f = true -> c17_inrange t (f + 1) = true ->
  z = if up then (f + 1)%Z else f.
Proof.
  intros x f P T Q Rf Rf1. unfold C17_Spec_Round.c17_round_post in P. fold x in P. fold f in P.
  assert (I1 : IZR (f + 1) = (IZR f + 1)%R) by apply plus_IZR.
  destruct P as [(E & _)|(NI & _ & _ & H)]; [lra|].
  apply c17_inrange_iff in Rf. apply c17_inrange_iff in Rf1.
  destruct H as [(_ & Q')|[(_ & M & _)|[(_ & M & _)|(_ & _ & D)]]]; try congruence; try lia.
  unfold C17_Spec_Round.c17_decide_post in D. fold x in D. fold f in D.
  destruct up.
  - destruct D as [(_ & Lt & _)|(-> & _)]; [lra | reflexivity].
  - destruct D as [(-> & _)|(_ & Lt & _)]; [reflexivity | lra].
Qed.

End Round.

Lemma C17_trunc_round_lemma :
  forall (prec emax : Z) (Hp : Prec_gt_0 prec) (Hm : Prec_lt_emax prec emax)
         (r : c17_rstyle) (t : c17_ity) (s : c17_cstyle) (eps val : binary_float prec emax),
  is_finite eps = true -> (0 <= B2R eps)%R -> is_finite val = true ->
  (c17_inrange t (Zfloor (B2R val)) = true ->
   (IZR (Zfloor (B2R val)) <> B2R val -> c17_inrange t (Zfloor (B2R val) + 1) = true) ->
   exists z, c17_trunc_fix prec emax Hp Hm r t s eps val = C17_Val z /\
             c17_trunc_post prec emax Hp Hm (c17_dir_down prec emax r val) t s eps val z) /\
  (c17_inrange t (Ztrunc (B2R val)) = true ->
   exists z, c17_round_fix prec emax Hp Hm r t s eps val = C17_Val z /\
             c17_round_post prec emax Hp Hm (negb (c17_dir_down prec emax r val)) t s eps val z).
Proof.
  intros prec emax Hp Hm r t s eps val Fe Pe F. split.
  - intros R1 R2. now apply C17_trunc_fixed_lemma.
  - intros R. now apply C17_round_fixed_lemma.
Qed.

Definition c17_ex_f64 (bits : Z) : binary_float 53 1024 := c17_of_bits 53 1024 c17_Hprec64 c17_Hmax64 64 bits.

Lemma C17_trunc_round_witnesses_lemma :
  c17_trunc 53 1024 c17_Hprec64 c17_Hmax64 C17_Downward (C17_Ity true 64) C17_Absolute (c17_ex_f64 0) (c17_ex_f64 0x4340000000000000) = C17_Val 9007199254740993%Z /\
  c17_trunc_fix 53 1024 c17_Hprec64 c17_Hmax64 C17_Downward (C17_Ity true 64) C17_Absolute (c17_ex_f64 0) (c17_ex_f64 0x4340000000000000) = C17_Val 9007199254740992%Z /\
  c17_round 53 1024 c17_Hprec64 c17_Hmax64 C17_TowardZero (C17_Ity false 32) C17_RelWeak (c17_ex_f64 0x3cb0000000000000) (c17_ex_f64 0xbfb5c28f5c28f5c3) = C17_Val 4294967295%Z /\
  c17_round_fix 53 1024 c17_Hprec64 c17_Hmax64 C17_TowardZero (C17_Ity false 32) C17_RelWeak (c17_ex_f64 0x3cb0000000000000) (c17_ex_f64 0xbfb5c28f5c28f5c3) = C17_Val 0%Z.
Proof. repeat split; vm_compute; reflexivity. Qed.

