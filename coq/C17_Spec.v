(* C17 — the abstract statement and the executable oracles.
   (1) comparison algebra: [c17_cmp_laws] (what the six results must satisfy given the exact order),
       documented definitions over exact dyadic rationals [c17_spec_eq_exact] with a rounding margin [c17_eq_verdict];
   (2) documented rounding / truncation over exact dyadic rationals [c17_spec_trunc_ok], [c17_spec_round_ok];
   (3) integer helpers: exact power, factorial, binomial coefficient (Pascal's triangle IS the definition);
   (4) classifiers: any / all.
   The oracles are applied to the implementation's own output by the correspondence check. *)
From Coq Require Import ZArith List Bool.
From Flocq Require Import Core BinarySingleNaN.
From DuneV Require Import C17_Model.
Import ListNotations.

(* ---------------------------------------------------------------- (1) comparison algebra *)
(* xlt, xgt: the exact order of the two arguments (first < second, first > second). *)
Definition c17_cmp_laws (xlt xgt eq ne gt lt ge le : bool) : bool :=
  Bool.eqb ne (negb eq) &&
  Bool.eqb gt (xgt && ne) && Bool.eqb lt (xlt && ne) &&
  Bool.eqb ge (gt || eq) && Bool.eqb le (lt || eq) &&
  (* exactly one of less / equal / greater *)
  (if eq then negb lt && negb gt else xorb lt gt).

(* exact dyadic numbers m * 2^e (every finite binary float is one); exact +, -, *, comparisons *)
Record c17_dy := C17_Dy { c17_dm : Z; c17_de : Z }.
Definition c17_dy_of_Z (z : Z) : c17_dy := C17_Dy z 0.
Definition c17_dy_pow2 (e : Z) : c17_dy := C17_Dy 1 e.
Definition c17_dy_mul (a b : c17_dy) : c17_dy := C17_Dy (c17_dm a * c17_dm b) (c17_de a + c17_de b).
Definition c17_dy_al (a b : c17_dy) : Z * Z :=
  let e := Z.min (c17_de a) (c17_de b) in
  (Z.shiftl (c17_dm a) (c17_de a - e), Z.shiftl (c17_dm b) (c17_de b - e)).
Definition c17_dy_add (a b : c17_dy) : c17_dy :=
  let (x, y) := c17_dy_al a b in C17_Dy (x + y) (Z.min (c17_de a) (c17_de b)).
Definition c17_dy_sub (a b : c17_dy) : c17_dy :=
  let (x, y) := c17_dy_al a b in C17_Dy (x - y) (Z.min (c17_de a) (c17_de b)).
Definition c17_dy_abs (a : c17_dy) : c17_dy := C17_Dy (Z.abs (c17_dm a)) (c17_de a).
Definition c17_dy_leb (a b : c17_dy) : bool := let (x, y) := c17_dy_al a b in (x <=? y)%Z.
Definition c17_dy_ltb (a b : c17_dy) : bool := let (x, y) := c17_dy_al a b in (x <? y)%Z.
Definition c17_dy_eqb (a b : c17_dy) : bool := let (x, y) := c17_dy_al a b in (x =? y)%Z.
Definition c17_dy_max (a b : c17_dy) : c17_dy := if c17_dy_leb a b then b else a.
Definition c17_dy_min (a b : c17_dy) : c17_dy := if c17_dy_leb a b then a else b.
Definition c17_dy_floor (a : c17_dy) : Z :=
  if (0 <=? c17_de a)%Z then Z.shiftl (c17_dm a) (c17_de a) else Z.shiftr (c17_dm a) (- c17_de a).

Definition c17_spec_rhs (s : c17_cstyle) (eps a b : c17_dy) : c17_dy :=
  match s with
  | C17_RelWeak => c17_dy_mul eps (c17_dy_max (c17_dy_abs a) (c17_dy_abs b))
  | C17_RelStrong => c17_dy_mul eps (c17_dy_min (c17_dy_abs a) (c17_dy_abs b))
  | C17_Absolute => eps
  end.
(* the documented definition, exact arithmetic:  |a - b| <= eps * max|min(|a|,|b|)  resp.  <= eps *)
Definition c17_spec_eq_exact (s : c17_cstyle) (eps a b : c17_dy) : bool :=
  c17_dy_leb (c17_dy_abs (c17_dy_sub a b)) (c17_spec_rhs s eps a b).

(* What a correctly rounded evaluation in format (prec, emax) may answer: [Some b] = must be b,
   [None] = the two sides are within rounding distance of each other (or near overflow). *)
Definition c17_eq_verdict_slack (extra : c17_dy) (prec emax : Z) (s : c17_cstyle) (eps a b : c17_dy) : option bool :=
  let l := c17_dy_abs (c17_dy_sub a b) in
  let r := c17_spec_rhs s eps a b in
  let slack := c17_dy_add (c17_dy_add (c17_dy_mul (c17_dy_add l r) (c17_dy_pow2 (3 - prec))) (c17_dy_pow2 (5 - emax - prec))) extra in
  let big := c17_dy_pow2 (emax - 2) in
  if c17_dy_leb big l || c17_dy_leb big r || c17_dy_leb big (c17_dy_abs a) || c17_dy_leb big (c17_dy_abs b) then None
  else if c17_dy_eqb a b then Some true          (* |a-b| = 0 exactly, and 0 <= eps*x for every eps, x >= 0 *)
  else if c17_dy_ltb (c17_dy_add l slack) r then Some true
  else if c17_dy_ltb (c17_dy_add r slack) l then Some false
  else None.
Definition c17_eq_verdict := c17_eq_verdict_slack (C17_Dy 0 0).

(* documented defaults (float_cmp.hh): "an epsilon, which defaults to 8 times the machine epsilon ... for relative comparisons,
   or simply 1e-6 for absolute comparisons"; machine epsilon = 2^(1-prec).  Judges the implementation's DefaultEpsilon values
   independently of the literals re-read into Params_gen.v *)
Definition c17_spec_default_eps_ok (prec : Z) (s : c17_cstyle) (v : c17_dy) : bool :=
  match s with
  | C17_Absolute =>
    c17_dy_leb (c17_dy_abs (c17_dy_sub (c17_dy_mul v (c17_dy_of_Z 1000000)) (c17_dy_of_Z 1))) (c17_dy_pow2 (-20))
    || (c17_dy_eqb v (c17_dy_pow2 (1 - prec)) && c17_dy_leb (c17_dy_pow2 (-20)) (c17_dy_pow2 (1 - prec)))
  | _ => c17_dy_eqb v (c17_dy_pow2 (4 - prec))
  end.

(* vectors: conjunction over components (and equal length) *)
Definition c17_spec_veq {A : Type} (eqc : A -> A -> bool) (a b : list A) : bool :=
  Nat.eqb (length a) (length b) && forallb (fun p => eqc (fst p) (snd p)) (combine a b).

(* ---------------------------------------------------------------- (2) rounding / truncation *)
Definition c17_compat (v : option bool) (b : bool) : bool :=
  match v with None => true | Some x => Bool.eqb x b end.

Definition c17_spec_down (r : c17_rstyle) (v : c17_dy) : bool :=
  match r with
  | C17_Downward => true | C17_Upward => false
  | C17_TowardZero => (0 <? c17_dm v)%Z
  | C17_TowardInf => negb (0 <? c17_dm v)%Z
  end.

(* trunc: "If val is already near an integer in terms of epsilon, the result will be that integer
   instead of the real truncated value"; downward = floor, upward = ceiling.
   [c17_spec_trunc_ideal] is the real truncated value. *)
Definition c17_spec_trunc_ideal (r : c17_rstyle) (v : c17_dy) : Z :=
  let fl := c17_dy_floor v in
  if c17_dy_eqb (c17_dy_of_Z fl) v then fl else if c17_spec_down r v then fl else (fl + 1)%Z.

Definition c17_spec_trunc_ok (prec emax : Z) (r : c17_rstyle) (s : c17_cstyle) (eps v : c17_dy) (z : Z) : bool :=
  let near (i : Z) := c17_eq_verdict prec emax s eps (c17_dy_of_Z i) v in
  let fl := c17_dy_floor v in
  let ideal := c17_spec_trunc_ideal r v in
  let other := if Z.eqb ideal fl then (fl + 1)%Z else fl in
  if Z.eqb z ideal then c17_compat (near other) false || c17_compat (near ideal) true
  else c17_compat (near z) true.

(* round: a nearest integer; near-ties (in terms of epsilon) go downward / upward as documented.
   [c17_spec_round_ideal] is the exactly rounded value (exact ties in the documented direction). *)
Definition c17_spec_round_ideal (r : c17_rstyle) (v : c17_dy) : Z :=
  let fl := c17_dy_floor v in
  let dl := c17_dy_sub v (c17_dy_of_Z fl) in
  let du := c17_dy_sub (c17_dy_of_Z (fl + 1)) v in
  if c17_dy_eqb (c17_dy_of_Z fl) v then fl
  else if c17_dy_ltb dl du then fl else if c17_dy_ltb du dl then (fl + 1)%Z
  else if c17_spec_down r v then fl else (fl + 1)%Z.

Definition c17_spec_round_ok (prec emax : Z) (r : c17_rstyle) (s : c17_cstyle) (eps v : c17_dy) (z : Z) : bool :=
  let fl := c17_dy_floor v in
  let dl := c17_dy_sub v (c17_dy_of_Z fl) in
  let du := c17_dy_sub (c17_dy_of_Z (fl + 1)) v in
  let close := c17_dy_leb (c17_dy_abs (c17_dy_sub dl du)) (c17_dy_pow2 (3 - prec)) in
  let tie := if close then None
             else c17_eq_verdict_slack (c17_dy_mul (c17_dy_add (c17_dy_of_Z 4) (c17_dy_mul (c17_dy_of_Z 4) eps)) (c17_dy_pow2 (- prec))) prec emax s eps dl du in
  let near (i : Z) := c17_eq_verdict prec emax s eps (c17_dy_of_Z i) v in
  let down := c17_spec_down r v in
  if c17_dy_eqb (c17_dy_of_Z fl) v then Z.eqb z fl
  else
    (Z.eqb z fl &&
       (c17_compat (near fl) true || close ||
        (if down then c17_dy_leb dl du || c17_compat tie true
         else c17_dy_ltb dl du && c17_compat tie false)))
    || (Z.eqb z (fl + 1) &&
       (c17_compat (near (fl + 1)%Z) true || close ||
        (if down then c17_dy_leb du dl && c17_compat tie false
         else c17_dy_leb du dl || c17_compat tie true))).

(* exact value of a finite float *)
Definition c17_to_dy {prec emax : Z} (v : binary_float prec emax) : c17_dy :=
  match v with
  | B754_finite s m e _ => C17_Dy (cond_Zopp s (Zpos m)) e
  | _ => C17_Dy 0 0
  end.

(* ---------------------------------------------------------------- (3) integer helpers *)
Local Open Scope Z_scope.

Definition c17_spec_power (m p : Z) : Z := m ^ p.                  (* p >= 0 *)

Fixpoint c17_fact (n : nat) : Z :=
  match n with O => 1 | S n' => Z.of_nat n * c17_fact n' end.
Definition c17_spec_factorial (n : Z) : Z := c17_fact (Z.to_nat n).

(* Pascal's triangle *)
Fixpoint c17_choose (n k : nat) : Z :=
  match n, k with
  | _, O => 1
  | O, S _ => 0
  | S n', S k' => c17_choose n' k' + c17_choose n' k
  end.
Definition c17_spec_binomial (n k : Z) : Z :=
  if (k <? 0) || (n <? k) then 0 else c17_choose (Z.to_nat n) (Z.to_nat k).
(* fast evaluation for the oracle (agreement with the triangle: bounded sweep C17_binomial_fast_agrees_upto_16): incremental product  C(m+i,i) = C(m+i-1,i-1) * (m+i) / i  after the symmetry reduction *)
Fixpoint c17_binom_inc (m : Z) (cnt : nat) (i acc : Z) : Z :=
  match cnt with O => acc | S c => c17_binom_inc m c (i + 1) (acc * (m + i) / i) end.
Definition c17_spec_binomial_fast (n k : Z) : Z :=
  if (k <? 0) || (n <? k) then 0
  else let k' := Z.min k (n - k) in c17_binom_inc (n - k') (Z.to_nat k') 1 1.

Definition c17_spec_sign (v : Z) : Z := if v <? 0 then -1 else 1.

(* "the exact mathematical value whenever it is representable": the verdict on an observed result *)
Definition c17_spec_int_ok (t : c17_ity) (exact : Z) (observed : c17_ires) : bool :=
  if c17_inrange t exact then match observed with C17_Val z => Z.eqb z exact | _ => false end
  else true.

(* ---------------------------------------------------------------- (4) classifiers *)
Section Classifiers.
Variable prec emax : Z.
Notation fl := (binary_float prec emax).
Definition c17_spec_any_nan (v : list fl) : bool := existsb (@is_nan prec emax) v.
Definition c17_spec_any_inf (v : list fl) : bool := existsb (@c17_isinf prec emax) v.
Definition c17_spec_all_finite (v : list fl) : bool := forallb (@is_finite prec emax) v.
End Classifiers.
