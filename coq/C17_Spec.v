(* C17 — the abstract statement and the executable oracles.
   (1) comparison algebra: [c17_cmp_laws] (what the six results must satisfy given the exact order),
       documented definitions over exact rationals [c17_spec_eqQ] with a rounding margin [c17_eq_verdict];
   (2) documented rounding / truncation over exact rationals [c17_spec_trunc_ok], [c17_spec_round_ok];
   (3) integer helpers: exact power, factorial, binomial coefficient (Pascal's triangle IS the definition);
   (4) classifiers: any / all.
   The oracles are applied to the implementation's own output by the correspondence check. *)
From Coq Require Import ZArith QArith Qabs Qround Qminmax List Bool.
From Flocq Require Import Core BinarySingleNaN.
From DuneV Require Import C17_Model.
Import ListNotations.

(* ---------------------------------------------------------------- (1) comparison algebra *)
(* xlt, xgt: the exact order of the two arguments (first < second, first > second). *)
Definition c17_cmp_laws (xlt xgt eq ne gt lt ge le : bool) : bool :=
  Bool.eqb ne (negb eq) &&
  Bool.eqb gt (xgt && ne) && Bool.eqb lt (xlt && ne) &&
  Bool.eqb ge (gt || eq) && Bool.eqb le (lt || eq) &&
  (* exactly one of less / equal / greater *)
  (if eq then negb lt && negb gt else xorb lt gt).

Definition c17_spec_rhsQ (s : c17_cstyle) (eps a b : Q) : Q :=
  match s with
  | C17_RelWeak => eps * Qmax (Qabs a) (Qabs b)
  | C17_RelStrong => eps * Qmin (Qabs a) (Qabs b)
  | C17_Absolute => eps
  end.
(* the documented definition, exact arithmetic *)
Definition c17_spec_eqQ (s : c17_cstyle) (eps a b : Q) : bool :=
  Qle_bool (Qabs (a - b)) (c17_spec_rhsQ s eps a b).

Definition c17_pow2Q (e : Z) : Q :=
  match e with Z0 => 1 | Zpos p => inject_Z (2 ^ Zpos p) | Zneg p => 1 # (2 ^ p)%positive end.

(* What a correctly rounded evaluation in format (prec, emax) may answer: [Some b] = must be b,
   [None] = the two sides are within rounding distance of each other (or near overflow). *)
Definition c17_eq_verdict (prec emax : Z) (s : c17_cstyle) (eps a b : Q) : option bool :=
  let l := Qabs (a - b) in
  let r := c17_spec_rhsQ s eps a b in
  let slack := (l + r) * c17_pow2Q (3 - prec) + c17_pow2Q (5 - emax - prec) in
  let big := c17_pow2Q (emax - 2) in
  if Qle_bool big l || Qle_bool big r || Qle_bool big (Qabs a) || Qle_bool big (Qabs b) then None
  else if Qle_bool (l + slack) r && negb (Qeq_bool (l + slack) r) then Some true
  else if Qle_bool (r + slack) l && negb (Qeq_bool (r + slack) l) then Some false
  else None.

(* vectors: conjunction over components (and equal length) *)
Definition c17_spec_veq (eqc : Q -> Q -> bool) (a b : list Q) : bool :=
  Nat.eqb (length a) (length b) && forallb (fun p => eqc (fst p) (snd p)) (combine a b).

(* ---------------------------------------------------------------- (2) rounding / truncation *)
Definition c17_compat (v : option bool) (b : bool) : bool :=
  match v with None => true | Some x => Bool.eqb x b end.

(* trunc: "If val is already near an integer in terms of epsilon, the result will be that integer
   instead of the real truncated value"; downward = floor, upward = ceiling. *)
Definition c17_spec_trunc_ok (prec emax : Z) (r : c17_rstyle) (s : c17_cstyle) (eps v : Q) (z : Z) : bool :=
  let near (i : Z) := c17_eq_verdict prec emax s eps (inject_Z i) v in
  let fl := Qfloor v in
  let down := match r with
              | C17_Downward => true | C17_Upward => false
              | C17_TowardZero => Qle_bool 0 v && negb (Qeq_bool 0 v)
              | C17_TowardInf => negb (Qle_bool 0 v && negb (Qeq_bool 0 v)) end in
  if Qeq_bool (inject_Z fl) v then Z.eqb z fl
  else if down then
    (Z.eqb z fl && c17_compat (near (fl + 1)%Z) false) || (Z.eqb z (fl + 1) && c17_compat (near (fl + 1)%Z) true)
  else
    (Z.eqb z (fl + 1) && (c17_compat (near fl) false || c17_compat (near (fl + 1)%Z) true))
    || (Z.eqb z fl && c17_compat (near fl) true && c17_compat (near (fl + 1)%Z) false).

(* round: a nearest integer; near-ties (in terms of epsilon) go downward / upward as documented *)
Definition c17_spec_round_ok (prec emax : Z) (r : c17_rstyle) (s : c17_cstyle) (eps v : Q) (z : Z) : bool :=
  let fl := Qfloor v in
  let dl := v - inject_Z fl in
  let du := inject_Z (fl + 1) - v in
  let close := Qle_bool (Qabs (dl - du)) (c17_pow2Q (3 - prec)) in
  let tie := if close then None else c17_eq_verdict prec emax s eps dl du in
  let near (i : Z) := c17_eq_verdict prec emax s eps (inject_Z i) v in
  let down := match r with
              | C17_Downward => true | C17_Upward => false
              | C17_TowardZero => Qle_bool 0 v && negb (Qeq_bool 0 v)
              | C17_TowardInf => negb (Qle_bool 0 v && negb (Qeq_bool 0 v)) end in
  if Qeq_bool (inject_Z fl) v then Z.eqb z fl
  else
    (Z.eqb z fl &&
       (c17_compat (near fl) true || close ||
        (if down then Qle_bool dl du || c17_compat tie true
         else (Qle_bool dl du && negb (Qeq_bool dl du)) && c17_compat tie false)))
    || (Z.eqb z (fl + 1) &&
       (c17_compat (near (fl + 1)%Z) true || close ||
        (if down then Qle_bool du dl && c17_compat tie false
         else Qle_bool du dl || c17_compat tie true))).

(* exact value of a finite float *)
Definition c17_toQ {prec emax : Z} (v : binary_float prec emax) : Q :=
  match v with
  | B754_finite s m e _ => inject_Z (cond_Zopp s (Zpos m)) * c17_pow2Q e
  | _ => 0
  end.

(* ---------------------------------------------------------------- (3) integer helpers *)
Local Open Scope Z_scope.

Definition c17_spec_power (m p : Z) : Z := m ^ p.                  (* p >= 0 *)

Fixpoint c17_fact (n : nat) : Z :=
  match n with O => 1 | S n' => Z.of_nat n * c17_fact n' end.
Definition c17_spec_factorial (n : Z) : Z := c17_fact (Z.to_nat n).

(* Pascal's triangle *)
Fixpoint c17_choose (n k : nat) : Z :=
  match n, k with
  | _, O => 1
  | O, S _ => 0
  | S n', S k' => c17_choose n' k' + c17_choose n' k
  end.
Definition c17_spec_binomial (n k : Z) : Z :=
  if (k <? 0) || (n <? k) then 0 else c17_choose (Z.to_nat n) (Z.to_nat k).
(* fast evaluation for the oracle (proved equal to the triangle: C17_choose_fast_correct) *)
Definition c17_spec_binomial_fast (n k : Z) : Z :=
  if (k <? 0) || (n <? k) then 0
  else c17_spec_factorial n / (c17_spec_factorial k * c17_spec_factorial (n - k)).

Definition c17_spec_sign (v : Z) : Z := if v <? 0 then -1 else 1.

(* "the exact mathematical value whenever it is representable": the verdict on an observed result *)
Definition c17_spec_int_ok (t : c17_ity) (exact : Z) (observed : c17_ires) : bool :=
  if c17_inrange t exact then match observed with C17_Val z => Z.eqb z exact | _ => false end
  else true.

(* ---------------------------------------------------------------- (4) classifiers *)
Section Classifiers.
Variable prec emax : Z.
Notation fl := (binary_float prec emax).
Definition c17_spec_any_nan (v : list fl) : bool := existsb (@is_nan prec emax) v.
Definition c17_spec_any_inf (v : list fl) : bool := existsb (@c17_isinf prec emax) v.
Definition c17_spec_all_finite (v : list fl) : bool := forallb (@is_finite prec emax) v.
End Classifiers.
