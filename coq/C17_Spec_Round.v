(* C17 — the documented results of FloatCmp::trunc / FloatCmp::round as predicates on the returned integer
   (Prop level; real-number reading through B2R).  Used by C17_trunc_round (code after fixes/C17-2, C17-3). *)
From Coq Require Import ZArith Reals List Bool.
From Flocq Require Import Core BinarySingleNaN.
From DuneV Require Import C17_Model.

Section RoundSpec.
Variable prec emax : Z.
Context (Hprec : Prec_gt_0 prec) (Hmax : Prec_lt_emax prec emax).
Notation fl := (binary_float prec emax).
Notation ofZ := (c17_of_Z prec emax Hprec Hmax).
Notation EQ := (c17_eq prec emax Hprec Hmax).
Notation fzero := (c17_fzero prec emax).
Notation FSUB := (c17_fsub prec emax Hprec Hmax).

(* the direction a rounding style takes at val: true = downward *)
Definition c17_dir_down (r : c17_rstyle) (val : fl) : bool :=
  match r with
  | C17_Downward => true | C17_Upward => false
  | C17_TowardZero => c17_fgt prec emax val fzero
  | C17_TowardInf => negb (c17_fgt prec emax val fzero)
  end.

(* documented result of trunc:  [down]: floor unless floor+1 is tolerantly equal to val;
   [up]: ceiling unless floor is tolerantly equal to val and the ceiling is not; an integral val is returned unchanged;
   for an unsigned integer type 0 is returned when val is tolerantly equal to 0 *)
Definition c17_trunc_post (down : bool) (t : c17_ity) (s : c17_cstyle) (eps val : fl) (z : Z) : Prop :=
  let x := B2R val in let f := Zfloor x in
  (c17_signed t = false /\ z = 0%Z /\ EQ s eps val fzero = true) \/
  (IZR f = x /\ z = f) \/
  (IZR f <> x /\ B2R (ofZ f) = IZR f /\ B2R (ofZ (f + 1)) = IZR (f + 1) /\
   if down then (z = (f + 1)%Z /\ EQ s eps (ofZ (f + 1)) val = true) \/ (z = f /\ EQ s eps (ofZ (f + 1)) val = false)
   else (z = (f + 1)%Z /\ (EQ s eps (ofZ (f + 1)) val = true \/ EQ s eps (ofZ f) val = false)) \/
        (z = f /\ EQ s eps (ofZ (f + 1)) val = false /\ EQ s eps (ofZ f) val = true)).

(* the decision between floor and floor+1 of a non-integral val *)
Definition c17_decide_post (up : bool) (s : c17_cstyle) (eps val : fl) (z : Z) : Prop :=
  let x := B2R val in let f := Zfloor x in
  let tie := EQ s eps (FSUB val (ofZ f)) (FSUB (ofZ (f + 1)) val) in
  if up then (z = f /\ (x - IZR f < IZR (f + 1) - x)%R /\ tie = false) \/
             (z = (f + 1)%Z /\ ((IZR (f + 1) - x <= x - IZR f)%R \/ tie = true))
  else (z = f /\ ((x - IZR f <= IZR (f + 1) - x)%R \/ tie = true)) \/
       (z = (f + 1)%Z /\ (IZR (f + 1) - x < x - IZR f)%R /\ tie = false).

(* documented result of round: an integral val is returned unchanged; otherwise the integer produced by the cast if it is
   tolerantly equal to val; otherwise the only representable neighbour; otherwise a nearest integer, ties and
   near-ties (difference of the two distances tolerantly zero) going down / up as the style says *)
Definition c17_round_post (up : bool) (t : c17_ity) (s : c17_cstyle) (eps val : fl) (z : Z) : Prop :=
  let x := B2R val in let f := Zfloor x in
  (IZR f = x /\ z = f) \/
  (IZR f <> x /\ B2R (ofZ f) = IZR f /\ B2R (ofZ (f + 1)) = IZR (f + 1) /\
   ((z = Ztrunc x /\ EQ s eps (ofZ (Ztrunc x)) val = true) \/
    ((x < 0)%R /\ (f + 1)%Z = c17_imin t /\ z = (f + 1)%Z) \/
    ((0 < x)%R /\ f = c17_imax t /\ z = f) \/
    (c17_inrange t f = true /\ c17_inrange t (f + 1) = true /\ c17_decide_post up s eps val z))).

End RoundSpec.
