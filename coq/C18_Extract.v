(* Extraction of the C18 model and spec oracle for the correspondence check.
   ExtrOcamlBasic + ExtrOcamlString only: bool/option/list/prod map to OCaml's, ascii to char; nat stays Peano. *)
From Coq Require Import Extraction ExtrOcamlBasic ExtrOcamlString.
From Coq Require Import List Arith Ascii.
From DuneV Require Import Params_gen C18_Model C18_Spec.
Extraction Language OCaml.
Extraction "c18_model.ml"
  c18_processPath c18_processPath_fuel c18_fuel c18_prettyPath c18_prettyPath1 c18_pathIndicatesDirectory
  c18_concatPaths c18_relativePath c18_hasPrefix c18_hasSuffix c18_hasPrefix_c c18_hasSuffix_c c18_cstr
  c18_formatString c18_formatString_err c18_param_format_buffer
  c18_canon c18_denote c18_nf c18_eq_loc c18_spec_pretty c18_spec_isdir c18_spec_concat
  c18_spec_rel_defined c18_spec_rel_accepts c18_spec_prefix c18_spec_suffix c18_eqs
  c18_relativePath_msg c18_spec_rel_message c18_msg_format c18_denote_then c18_is_abs c18_formatString_n c18_snprintf.
