(* C18 -- executable model of dune/common/path.cc and dune/common/stringutility.hh.
   Definitions only (no proofs): the model must run even when a proof breaks.
   A std::string is a `list ascii`; positions (src, dst, preflen) are `nat` indices as in the code.
   Every function mirrors one C++ function, statement by statement:
     - the two in-place src/dst copy loops of processPath are filters (dst <= src always holds, so the
       in-place writes never change a character that is still to be read);
     - the `/../` loop is index based and fuelled exactly like the `while(true)` of the code;
     - std::snprintf is represented by its contract on the full expansion F (trusted, DESIGN section 3). *)
From Coq Require Import List Arith Bool Ascii.
From Coq Require String.
From DuneV Require Import Params_gen.
Import ListNotations.
Local Open Scope char_scope.

Definition c18_str := list ascii.

Definition c18_is_slash (c : ascii) : bool := Ascii.eqb c "/".
Definition c18_is_dot (c : ascii) : bool := Ascii.eqb c ".".

(* operator== on strings *)
Fixpoint c18_eqs (a b : c18_str) : bool :=
  match a, b with
  | [], [] => true
  | x :: a', y :: b' => Ascii.eqb x y && c18_eqs a' b'
  | _, _ => false
  end.

(* ---------------------------------------------------------------- stringutility.hh *)

(* std::equal(p, p+len, it) where at least len characters are available behind `it` *)
Fixpoint c18_equal (p s : c18_str) : bool :=
  match p with
  | [] => true
  | x :: p' => match s with [] => false | y :: s' => Ascii.eqb x y && c18_equal p' s' end
  end.

(* hasPrefix: c.size() >= len && std::equal(prefix, prefix+len, c.begin()) *)
Definition c18_hasPrefix (c prefix : c18_str) : bool :=
  let len := length prefix in
  Nat.leb len (length c) && c18_equal prefix c.

(* hasSuffix: if(c.size() < len) return false; advance(it, c.size()-len); return equal(suffix, suffix+len, it) *)
Definition c18_hasSuffix (c suffix : c18_str) : bool :=
  let len := length suffix in
  if Nat.ltb (length c) len then false
  else c18_equal suffix (skipn (length c - len) c).

(* std::snprintf(buf, n, fmt, args...) for an expansion F: returns |F|, stores the first n-1
   characters of F followed by NUL (n > 0). *)
Definition c18_snprintf (n : nat) (F : c18_str) : nat * c18_str := (length F, firstn (n - 1) F).

(* std::string from a C string: up to the first NUL *)
Fixpoint c18_cstr (b : c18_str) : c18_str :=
  match b with
  | [] => []
  | c :: b' => if Ascii.eqb c zero then [] else c :: c18_cstr b'
  end.

(* formatString for a call whose full expansion is F (r < 0 cannot happen for a successful expansion) *)
Definition c18_formatString_n (bufferSize : nat) (F : c18_str) : c18_str :=
  let '(r, buffer) := c18_snprintf bufferSize F in
  if Nat.ltb r bufferSize then c18_cstr buffer
  else
    let dynamicBufferSize := r + 1 in
    let '(_, dyn) := c18_snprintf dynamicBufferSize F in
    c18_cstr dyn.
Definition c18_formatString (F : c18_str) : c18_str := c18_formatString_n c18_param_format_buffer F.

(* the prefix / suffix argument is a `const char*`: what the function sees is the C string up to the first NUL
   (std::strlen); the container may be any character container (std::string, string_view, vector<char>,
   list<char>, deque<char> ...): only size(), begin() and std::advance are used, so one model serves all *)
Definition c18_hasPrefix_c (c prefix : c18_str) : bool := c18_hasPrefix c (c18_cstr prefix).
Definition c18_hasSuffix_c (c suffix : c18_str) : bool := c18_hasSuffix c (c18_cstr suffix).

(* formatString when snprintf may fail (negative return value, e.g. an unconvertible wide character):
   None = Dune::Exception *)
Definition c18_formatString_err (F : option c18_str) : option c18_str :=
  match F with
  | None => None                                         (* if (r<0) DUNE_THROW(Dune::Exception, ...) *)
  | Some F => Some (c18_formatString F)
  end.

(* ---------------------------------------------------------------- path.cc *)

(* concatPaths *)
Definition c18_concatPaths (base p : c18_str) : c18_str :=
  match p with
  | [] => base                                           (* if(p == "") return base; *)
  | c :: _ =>
      if c18_is_slash c then p                           (* if(p[0] == '/') return p; *)
      else match base with
           | [] => p                                     (* if(base == "") return p; *)
           | _ => if c18_hasSuffix base ["/"] then base ++ p
                  else base ++ "/" :: p
           end
  end.

(* pass 1: collapse multiple '/'.  prev = "the character just copied was a '/'" (inner while skips) *)
Fixpoint c18_pass1 (prev : bool) (s : c18_str) : c18_str :=
  match s with
  | [] => []
  | c :: t =>
      if c18_is_slash c then (if prev then c18_pass1 true t else c :: c18_pass1 true t)
      else c :: c18_pass1 false t
  end.

(* pass 2: collapse "/./" to "/".  after = "the character just copied was a '/'": the inner while
   skips "./" pairs as long as src+1 < size && s[src]=='.' && s[src+1]=='/' *)
Fixpoint c18_pass2 (after : bool) (s : c18_str) : c18_str :=
  match s with
  | [] => []
  | c :: t =>
      match t with
      | d :: t' =>
          if after && c18_is_dot c && c18_is_slash d then c18_pass2 true t'
          else c :: c18_pass2 (c18_is_slash c) t
      | [] => c :: c18_pass2 (c18_is_slash c) t
      end
  end.

(* pass 3: if(hasPrefix(result, "./")) result.erase(0, 2); *)
Definition c18_pass3 (s : c18_str) : c18_str :=
  if c18_hasPrefix s ["."; "/"] then skipn 2 s else s.

(* std::string::find("/../", pos) *)
Definition c18_starts4 (s : c18_str) : bool :=
  match s with
  | c0 :: c1 :: c2 :: c3 :: _ => c18_is_slash c0 && c18_is_dot c1 && c18_is_dot c2 && c18_is_slash c3
  | _ => false
  end.
Fixpoint c18_find4_0 (s : c18_str) : option nat :=
  match s with
  | [] => None
  | _ :: t => if c18_starts4 s then Some 0 else option_map S (c18_find4_0 t)
  end.
Definition c18_find4 (s : c18_str) (pos : nat) : option nat :=
  option_map (Nat.add pos) (c18_find4_0 (skipn pos s)).

(* for(dst = src; dst > 0 && result[dst-1] != '/'; --dst) ; *)
Fixpoint c18_backup (s : c18_str) (dst : nat) : nat :=
  match dst with
  | O => O
  | S d => if c18_is_slash (nth d s "/") then dst else c18_backup s d
  end.

Definition c18_substr (s : c18_str) (pos n : nat) : c18_str := firstn n (skipn pos s).
Definition c18_erase (s : c18_str) (pos n : nat) : c18_str := firstn pos s ++ skipn (pos + n) s.

Inductive c18_res :=
| C18_Ok (s : c18_str)
| C18_NotImplemented
| C18_OutOfFuel.

(* pass 4: remove "<component>/../" pairs *)
Fixpoint c18_pass4 (fuel : nat) (s : c18_str) (src : nat) : c18_res :=
  match fuel with
  | O => C18_OutOfFuel
  | S f =>
      match c18_find4 s src with                          (* src = result.find("/../", src); *)
      | None => C18_Ok s                                  (* npos: break *)
      | Some src =>
          let dst := c18_backup s src in
          if c18_eqs (c18_substr s dst (src - dst)) ["."; "."] then
            c18_pass4 f s (src + 3)                       (* don't remove "../../" *)
          else if Nat.eqb dst src then
            c18_pass4 f (c18_erase s 0 3) src             (* leading "/../" of an absolute path *)
          else
            let s' := c18_erase s dst (src - dst + 4) in  (* remove "<component>/../" *)
            let src := dst in
            c18_pass4 f s' (if Nat.ltb 0 src then src - 1 else src)
      end
  end.

(* passes 0-3 of processPath *)
Definition c18_pre4 (p : c18_str) : c18_str :=
  let result := match p with [] => [] | _ => p ++ ["/"] end in    (* if(result != "") result += '/'; *)
  c18_pass3 (c18_pass2 false (c18_pass1 false result)).

Definition c18_processPath_fuel (fuel : nat) (p : c18_str) : c18_res := c18_pass4 fuel (c18_pre4 p) 0.
Definition c18_fuel (p : c18_str) : nat := length p + 2.
Definition c18_processPath (p : c18_str) : c18_res := c18_processPath_fuel (c18_fuel p) p.

(* pathIndicatesDirectory *)
Definition c18_pathIndicatesDirectory (p : c18_str) : bool :=
  if c18_eqs p [] then true
  else if c18_eqs p ["."] then true
  else if c18_eqs p ["."; "."] then true
  else if c18_hasSuffix p ["/"] then true
  else if c18_hasSuffix p ["/"; "."] then true
  else if c18_hasSuffix p ["/"; "."; "."] then true
  else false.

(* prettyPath(p, isDirectory) *)
Definition c18_prettyPath (p : c18_str) (isDirectory : bool) : c18_res :=
  match c18_processPath p with
  | C18_Ok result =>
      if c18_eqs result [] then C18_Ok ["."]
      else if c18_eqs result ["/"] then C18_Ok result
      else
        let result := firstn (length result - 1) result in        (* resize(size()-1) *)
        if c18_eqs result ["."; "."] || c18_hasSuffix result ["/"; "."; "."] then C18_Ok result
        else if isDirectory then C18_Ok (result ++ ["/"])
        else C18_Ok result
  | r => r
  end.

(* prettyPath(p) *)
Definition c18_prettyPath1 (p : c18_str) : c18_res := c18_prettyPath p (c18_pathIndicatesDirectory p).

(* while(preflen < a.size() && preflen < b.size() && a[preflen] == b[preflen]) ++preflen; *)
Fixpoint c18_common_len (a b : c18_str) : nat :=
  match a, b with
  | x :: a', y :: b' => if Ascii.eqb x y then S (c18_common_len a' b') else 0
  | _, _ => 0
  end.

Fixpoint c18_count_slash (s : c18_str) : nat :=
  match s with [] => 0 | c :: t => (if c18_is_slash c then 1 else 0) + c18_count_slash t end.

Fixpoint c18_ups (n : nat) : c18_str :=
  match n with O => [] | S m => "." :: "." :: "/" :: c18_ups m end.

(* relativePath(newbase, p) *)
Definition c18_relativePath (newbase p : c18_str) : c18_res :=
  let absbase := c18_hasPrefix newbase ["/"] in
  let absp := c18_hasPrefix p ["/"] in
  if negb (Bool.eqb absbase absp) then C18_NotImplemented
  else
    match c18_processPath newbase, c18_processPath p with
    | C18_Ok mybase, C18_Ok myp =>
        let preflen := c18_common_len mybase myp in
        let preflen := c18_backup myp preflen in           (* backup to the beginning of the component *)
        let mybase := skipn preflen mybase in              (* erase(0, preflen) *)
        let myp := skipn preflen myp in
        if c18_hasPrefix mybase ["."; "."; "/"] then C18_NotImplemented
        else
          let count := c18_count_slash mybase in
          C18_Ok (c18_ups count ++ myp)
    | C18_OutOfFuel, _ => C18_OutOfFuel
    | _, C18_OutOfFuel => C18_OutOfFuel
    | _, _ => C18_NotImplemented
    end.

(* ---------------------------------------------------------------- the thrown messages (DUNE_THROW streams)
   The literal texts are re-read from path.cc / stringutility.hh into Params_gen.v on every run. *)
Definition c18_lit (s : String.string) : c18_str := String.list_ascii_of_string s.

(* "relativePath: paths must be either both relative or both absolute: newbase=\"" << newbase << "\" p=\"" << p << "\"" *)
Definition c18_msg_abs (newbase p : c18_str) : c18_str :=
  c18_lit c18_param_msg_abs_pre ++ newbase ++ c18_lit c18_param_msg_abs_mid ++ p ++ c18_lit c18_param_msg_abs_post.
(* "relativePath: newbase has too many leading \"..\" components: newbase=\"" << newbase << "\" p=\"" << p << "\"" *)
Definition c18_msg_up (newbase p : c18_str) : c18_str :=
  c18_lit c18_param_msg_up_pre ++ newbase ++ c18_lit c18_param_msg_up_mid ++ p ++ c18_lit c18_param_msg_up_post.
Definition c18_msg_format : c18_str := c18_lit c18_param_msg_format.

Inductive c18_res2 :=
| C18_Result (s : c18_str)
| C18_Throw (msg : c18_str)          (* Dune::NotImplemented with this message text *)
| C18_Fuel.

(* relativePath(newbase, p) again, now with the exception payload (same statements as c18_relativePath) *)
Definition c18_relativePath_msg (newbase p : c18_str) : c18_res2 :=
  let absbase := c18_hasPrefix newbase ["/"] in
  let absp := c18_hasPrefix p ["/"] in
  if negb (Bool.eqb absbase absp) then C18_Throw (c18_msg_abs newbase p)
  else
    match c18_processPath newbase, c18_processPath p with
    | C18_Ok mybase, C18_Ok myp =>
        let preflen := c18_common_len mybase myp in
        let preflen := c18_backup myp preflen in
        let mybase := skipn preflen mybase in
        let myp := skipn preflen myp in
        if c18_hasPrefix mybase ["."; "."; "/"] then C18_Throw (c18_msg_up newbase p)
        else
          let count := c18_count_slash mybase in
          C18_Result (c18_ups count ++ myp)
    | C18_OutOfFuel, _ => C18_Fuel
    | _, C18_OutOfFuel => C18_Fuel
    | _, _ => C18_Throw []
    end.
