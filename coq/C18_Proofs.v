(* C18 -- main lemmas: processPath is the rendering of the denotation (bridge), and its consequences. *)
From Coq Require Import List Arith Bool Ascii Lia.
From DuneV Require Import Params_gen C18_Model C18_Spec C18_Proofs_Str C18_Proofs_Passes C18_Proofs_Pass4.
Import ListNotations.
Local Open Scope char_scope.

Definition c18_marker (abs : bool) : list c18_str := if abs then [[]] else [].

(* what a component must satisfy to be pushed by the stack machine *)
Definition c18_pushable (c : c18_str) : Prop := c18_sf c /\ c <> [] /\ c <> ["."].

Lemma c18_repeat_snoc : forall (A : Type) (x : A) n, repeat x n ++ [x] = x :: repeat x n.
Proof. induction n; simpl; [reflexivity|]. rewrite IHn. reflexivity. Qed.

Lemma c18_rev_repeat : forall (A : Type) (x : A) n, rev (repeat x n) = repeat x n.
Proof. induction n; simpl; [reflexivity|]. rewrite IHn. apply c18_repeat_snoc. Qed.

Lemma c18_is_dotc_false : forall c, c <> ["."] -> c18_is_dotc c = false.
Proof. intros c H. apply c18_eqs_false. exact H. Qed.

Lemma c18_is_empty_false : forall c, c <> [] -> c18_is_empty c = false.
Proof. destruct c; [congruence | reflexivity]. Qed.

Lemma c18_ordinary_parts : forall c, c18_ordinary c = true ->
  c18_sf c /\ c18_is_empty c = false /\ c18_is_dotc c = false /\ c18_is_dotdot c = false.
Proof.
  intros c H. unfold c18_ordinary in H. rewrite !andb_true_iff, !negb_true_iff in H. tauto.
Qed.

Lemma c18_step_pushable : forall abs u stk c, c18_pushable c ->
  c18_step abs (u, stk) c =
  if c18_is_dotdot c then
    match stk with
    | _ :: stk' => (u, stk')
    | [] => if abs then (u, []) else (S u, [])
    end
  else (u, c :: stk).
Proof.
  intros abs u stk c [Hsf [Hne Hnd]]. unfold c18_step.
  rewrite c18_is_empty_false, c18_is_dotc_false by assumption. reflexivity.
Qed.

Lemma c18_run_cons : forall abs c cs st, c18_run abs (c :: cs) st = c18_run abs cs (c18_step abs st c).
Proof. reflexivity. Qed.

(* ---- the component normaliser of pass 4 is the stack machine *)
Lemma c18_norm4_run : forall todo abs u stk,
  (abs = true -> u = 0) -> forallb c18_ordinary stk = true -> Forall c18_pushable todo ->
  c18_norm4 (stk ++ repeat c18_dotdot u ++ c18_marker abs) todo =
  let '(u', stk') := c18_run abs todo (u, stk) in rev (stk' ++ repeat c18_dotdot u' ++ c18_marker abs).
Proof.
  induction todo as [|c todo IH]; intros abs u stk Habs Hstk Htodo.
  - reflexivity.
  - inversion Htodo as [|? ? Hc Htodo']; subst.
    rewrite c18_run_cons, c18_step_pushable by exact Hc.
    simpl c18_norm4.
    destruct (c18_is_dotdot c) eqn:DD.
    + destruct stk as [|s stk'].
      * destruct abs.
        -- rewrite (Habs eq_refl). simpl. apply (IH true 0 []); auto.
        -- simpl c18_marker. rewrite !app_nil_r. simpl app.
           apply c18_is_dotdot_true in DD. subst c.
           destruct u as [|u'].
           ++ simpl. specialize (IH false 1 []). simpl in IH. apply IH; auto. discriminate.
           ++ simpl repeat. change (c18_is_dotdot c18_dotdot) with true. cbv iota.
              specialize (IH false (S (S u')) []). simpl in IH. rewrite !app_nil_r in IH. apply IH; auto. discriminate.
      * simpl in Hstk. apply andb_true_iff in Hstk. destruct Hstk as [Hs Hstk'].
        apply c18_ordinary_parts in Hs. destruct Hs as [_ [He [_ Hdd]]].
        simpl app. cbv iota beta. rewrite Hdd, He. apply IH; auto.
    + change (c :: stk ++ repeat c18_dotdot u ++ c18_marker abs) with ((c :: stk) ++ repeat c18_dotdot u ++ c18_marker abs).
      apply IH; auto. simpl. rewrite Hstk, andb_true_r.
      destruct Hc as [Hsf [Hne Hnd]]. unfold c18_ordinary.
      rewrite Hsf, c18_is_empty_false, c18_is_dotc_false, DD by assumption. reflexivity.
Qed.

(* the stack machine ignores empty and "." components *)
Lemma c18_run_filter : forall abs cs st,
  c18_run abs cs st = c18_run abs (filter c18_notdot (filter c18_nonempty cs)) st.
Proof.
  induction cs as [|c cs IH]; intro st; [reflexivity|].
  unfold c18_run in *. simpl fold_left. simpl filter.
  destruct c as [|x c].
  - simpl. destruct st. apply IH.
  - simpl filter. unfold c18_notdot at 1.
    destruct (c18_is_dotc (x :: c)) eqn:D; simpl negb; cbv iota.
    + unfold c18_step at 2. destruct st. simpl c18_is_empty. rewrite D. simpl. apply IH.
    + simpl fold_left. apply IH.
Qed.

Lemma c18_filters_pushable : forall cs, Forall c18_sf cs ->
  Forall c18_pushable (filter c18_notdot (filter c18_nonempty cs)).
Proof.
  induction 1 as [|c cs Hc _ IH]; simpl; [constructor|].
  destruct c as [|x c]; simpl; [exact IH|].
  unfold c18_notdot at 1. destruct (c18_is_dotc (x :: c)) eqn:D; simpl; [exact IH|].
  constructor; [|exact IH]. split; [exact Hc|]. split; [discriminate|].
  intro E. rewrite E in D. discriminate.
Qed.

Lemma c18_pushable_ne_sf : forall cs, Forall c18_pushable cs -> Forall c18_sf cs /\ Forall (fun c => c <> []) cs.
Proof. induction 1 as [|c cs [H1 [H2 _]] _ [IH1 IH2]]; split; constructor; auto. Qed.

Lemma c18_filter_length : forall (A : Type) (f : A -> bool) l, length (filter f l) <= length l.
Proof. induction l; simpl; [lia|]. destruct (f a); simpl; lia. Qed.

Lemma c18_cs3_length : forall p, length (c18_cs3 p) <= S (length p).
Proof.
  intro p. unfold c18_cs3. pose proof (c18_split_length p) as L.
  destruct (c18_split p) as [|c cs]; simpl in *; [lia|].
  pose proof (c18_filter_length _ c18_notdot (filter c18_nonempty cs)).
  pose proof (c18_filter_length _ c18_nonempty cs).
  destruct (c18_is_dotc c); simpl; lia.
Qed.

(* ---- THE BRIDGE: for every string and every fuel > |p|+1 *)
Lemma c18_processPath_fuel_canon : forall p fuel, length p + 1 < fuel ->
  c18_processPath_fuel fuel p = C18_Ok (c18_canon p).
Proof.
  intros p fuel Hf. unfold c18_processPath_fuel.
  destruct p as [|x0 p0] eqn:Ep.
  { destruct fuel; [inversion Hf | reflexivity]. }
  rewrite <- Ep in *. assert (Hp : p <> []) by (rewrite Ep; discriminate). clear Ep x0 p0.
  rewrite c18_pre4_join by exact Hp.
  pose proof (c18_split_sf p) as SF.
  pose proof (c18_cs3_length p) as LEN.
  unfold c18_canon, c18_denote.
  unfold c18_cs3 in *.
  destruct (c18_split p) as [|c cs] eqn:S; [exfalso; eapply c18_split_not_nil; eauto|].
  inversion SF as [|? ? Hc SFcs]; subst.
  pose proof (c18_filters_pushable cs SFcs) as PU.
  destruct (c18_pushable_ne_sf _ PU) as [PUsf PUne].
  set (cs' := filter c18_notdot (filter c18_nonempty cs)) in *.
  pose proof (c18_split_head_empty p c cs S) as HE.
  assert (P4 : forall todo, Forall c18_sf todo -> Forall (fun c => c <> []) (tl todo) -> length todo < fuel ->
             c18_pass4 fuel (c18_join todo) 0 = C18_Ok (c18_join (c18_norm4 [] todo))).
  { intros todo H1 H2 H3. apply (c18_pass4_norm todo [] fuel); [exact I | split; assumption | exact H3]. }
  destruct c as [|x c].
  - (* absolute *)
    assert (A : c18_is_abs p = true) by (destruct HE as [HE _]; destruct (HE eq_refl); [contradiction | assumption]).
    rewrite A. change (c18_is_dotc []) with false in *. cbv iota in *.
    rewrite P4; [| constructor; assumption | exact PUne | simpl in *; lia].
    rewrite c18_norm4_nil_cons.
    pose proof (c18_norm4_run cs' true 0 [] (fun _ => eq_refl) eq_refl PU) as N.
    etransitivity; [apply f_equal; apply f_equal; exact N|].
    rewrite c18_run_cons. change (c18_step true (0, []) []) with (0, @nil c18_str).
    rewrite (c18_run_filter true cs). fold cs'.
    destruct (c18_run true cs' (0, [])) as [u' stk'].
    unfold c18_render. rewrite !rev_app_distr, c18_rev_repeat. simpl c18_marker. simpl rev.
    rewrite !c18_join_app, <- !app_assoc. reflexivity.
  - assert (A : c18_is_abs p = false).
    { destruct (c18_is_abs p) eqn:A; auto. destruct HE as [_ HE]. discriminate HE. auto. }
    rewrite A.
    destruct (c18_is_dotc (x :: c)) eqn:D.
    + (* leading "." *)
      rewrite P4; [| exact PUsf | destruct cs'; [constructor | inversion PUne; assumption] | simpl in *; lia].
      pose proof (c18_norm4_run cs' false 0 [] (fun H => False_ind _ (diff_false_true H)) eq_refl PU) as N.
      etransitivity; [apply f_equal; apply f_equal; exact N|].
      rewrite c18_run_cons.
      replace (c18_step false (0, []) (x :: c)) with (0, @nil c18_str)
        by (unfold c18_step; simpl c18_is_empty; rewrite D; reflexivity).
      rewrite (c18_run_filter false cs). fold cs'.
      destruct (c18_run false cs' (0, [])) as [u' stk'].
      unfold c18_render. rewrite !rev_app_distr, c18_rev_repeat. simpl c18_marker. simpl rev. simpl app. rewrite ?c18_join_app, <- ?app_assoc. reflexivity.
    + assert (PU' : Forall c18_pushable ((x :: c) :: cs')).
      { constructor; [|exact PU]. split; [exact Hc|]. split; [discriminate|]. intro E. rewrite E in D. discriminate. }
      rewrite P4; [| constructor; assumption | exact PUne | simpl in *; lia].
      pose proof (c18_norm4_run _ false 0 [] (fun H => False_ind _ (diff_false_true H)) eq_refl PU') as N.
      etransitivity; [apply f_equal; apply f_equal; exact N|].
      unfold c18_str in *.
      match goal with |- context [c18_run false ((x :: c) :: cs) ?st] =>
        assert (R : c18_run false ((x :: c) :: cs) st = c18_run false ((x :: c) :: cs') st) end.
      { rewrite (c18_run_filter false ((x :: c) :: cs)). simpl filter. unfold c18_notdot at 1. rewrite D. reflexivity. }
      rewrite R.
      match goal with |- context [c18_run false ((x :: c) :: cs') ?st] =>
        destruct (c18_run false ((x :: c) :: cs') st) as [u' stk'] end.
      unfold c18_render. rewrite !rev_app_distr, c18_rev_repeat. simpl c18_marker. simpl rev. simpl app. rewrite ?c18_join_app, <- ?app_assoc. reflexivity.
Qed.

Lemma c18_processPath_canon : forall p, c18_processPath p = C18_Ok (c18_canon p).
Proof. intro p. apply c18_processPath_fuel_canon. unfold c18_fuel. lia. Qed.

(* ---- well-formed locations *)
Definition c18_wf_loc (d : c18_loc) : Prop :=
  let '(abs, u, cs) := d in (abs = true -> u = 0) /\ forallb c18_ordinary cs = true.

Lemma c18_run_app : forall abs a b st, c18_run abs (a ++ b) st = c18_run abs b (c18_run abs a st).
Proof. intros. unfold c18_run. apply fold_left_app. Qed.

Lemma c18_step_wf : forall abs u stk c, c18_sf c -> (abs = true -> u = 0) -> forallb c18_ordinary stk = true ->
  let '(u', stk') := c18_step abs (u, stk) c in (abs = true -> u' = 0) /\ forallb c18_ordinary stk' = true.
Proof.
  intros abs u stk c Hc Hu Hs. unfold c18_step.
  destruct (c18_is_empty c) eqn:E; simpl orb; cbv iota; [auto|].
  destruct (c18_is_dotc c) eqn:D; cbv iota; [auto|].
  destruct (c18_is_dotdot c) eqn:DD.
  - destruct stk as [|s stk'].
    + destruct abs; split; auto. discriminate.
    + simpl in Hs. apply andb_true_iff in Hs. tauto.
  - split; auto. simpl. rewrite Hs, andb_true_r. unfold c18_ordinary. rewrite Hc, E, D, DD. reflexivity.
Qed.

Lemma c18_run_wf : forall cs abs u stk, Forall c18_sf cs -> (abs = true -> u = 0) -> forallb c18_ordinary stk = true ->
  let '(u', stk') := c18_run abs cs (u, stk) in (abs = true -> u' = 0) /\ forallb c18_ordinary stk' = true.
Proof.
  induction cs as [|c cs IH]; intros abs u stk Hsf Hu Hs; [simpl; auto|].
  inversion Hsf; subst. rewrite c18_run_cons.
  pose proof (c18_step_wf abs u stk c H1 Hu Hs) as W.
  destruct (c18_step abs (u, stk) c) as [u1 stk1]. destruct W. apply IH; auto.
Qed.

Lemma c18_forallb_rev : forall (A : Type) (f : A -> bool) l, forallb f (rev l) = forallb f l.
Proof.
  intros. induction l; simpl; [reflexivity|]. rewrite forallb_app, IHl. simpl. rewrite andb_true_r. apply andb_comm.
Qed.

Lemma c18_denote_wf : forall p, c18_wf_loc (c18_denote p).
Proof.
  intro p. unfold c18_denote.
  pose proof (c18_run_wf (c18_split p) (c18_is_abs p) 0 [] (c18_split_sf p) (fun _ => eq_refl) eq_refl) as W.
  destruct (c18_run (c18_is_abs p) (c18_split p) (0, [])) as [u stk]. simpl. rewrite c18_forallb_rev. exact W.
Qed.

(* ---- rendering a well-formed location gives the documented normal form ... *)
Lemma c18_render_normal : forall d, c18_wf_loc d -> C18_NormalForm (c18_render d).
Proof.
  intros [[abs u] cs] [Hu Hcs]. unfold c18_render, C18_NormalForm.
  destruct abs.
  - rewrite (Hu eq_refl). exists ([] :: cs). split; [reflexivity|]. left. exists cs. auto.
  - exists (repeat c18_dotdot u ++ cs). split; [reflexivity|]. right. exists u, cs. auto.
Qed.

(* ... whose denotation is the location itself *)
Lemma c18_run_ordinary : forall cs abs u stk, forallb c18_ordinary cs = true ->
  c18_run abs cs (u, stk) = (u, rev cs ++ stk).
Proof.
  induction cs as [|c cs IH]; intros abs u stk H; [reflexivity|].
  simpl in H. apply andb_true_iff in H. destruct H as [Hc H].
  apply c18_ordinary_parts in Hc. destruct Hc as [Hsf [He [Hd Hdd]]].
  rewrite c18_run_cons. unfold c18_step. rewrite He, Hd, Hdd. simpl orb. cbv iota.
  rewrite IH by exact H. simpl. rewrite <- app_assoc. reflexivity.
Qed.

Lemma c18_run_dotdots : forall n k, c18_run false (repeat c18_dotdot n) (k, []) = (k + n, []).
Proof.
  induction n as [|n IH]; intro k; simpl repeat; [rewrite Nat.add_0_r; reflexivity|].
  rewrite c18_run_cons. change (c18_step false (k, []) c18_dotdot) with (S k, @nil c18_str).
  rewrite IH. rewrite Nat.add_succ_r. reflexivity.
Qed.

Lemma c18_ordinary_sf_all : forall cs, forallb c18_ordinary cs = true -> Forall c18_sf cs.
Proof.
  induction cs as [|c cs IH]; intro H; constructor; simpl in H; apply andb_true_iff in H; destruct H as [Hc H].
  - apply c18_ordinary_parts in Hc. tauto.
  - auto.
Qed.

Lemma c18_repeat_sf : forall n, Forall c18_sf (repeat c18_dotdot n).
Proof. induction n; simpl; constructor; auto. reflexivity. Qed.

Lemma c18_denote_render : forall d, c18_wf_loc d -> c18_denote (c18_render d) = d.
Proof.
  intros [[abs u] cs] [Hu Hcs]. unfold c18_render.
  pose proof (c18_ordinary_sf_all cs Hcs) as SFcs.
  destruct abs.
  - rewrite (Hu eq_refl). simpl repeat. simpl app.
    change ("/" :: c18_join cs) with (c18_join ([] :: cs)).
    unfold c18_denote. rewrite c18_split_join by (constructor; [reflexivity | exact SFcs]).
    change (c18_is_abs (c18_join ([] :: cs))) with true.
    change (([] :: cs) ++ [[]]) with ([] :: (cs ++ [[]])).
    rewrite c18_run_cons. change (c18_step true (0, []) []) with (0, @nil c18_str).
    rewrite c18_run_app, c18_run_ordinary by exact Hcs. simpl. rewrite app_nil_r, rev_involutive. reflexivity.
  - simpl app.
    assert (A : c18_is_abs (c18_join (repeat c18_dotdot u ++ cs)) = false).
    { destruct u; simpl repeat; [|reflexivity]. simpl app.
      destruct cs as [|c cs']; [reflexivity|]. simpl in Hcs. apply andb_true_iff in Hcs. destruct Hcs as [Hc _].
      apply c18_ordinary_parts in Hc. destruct Hc as [Hsf [He _]].
      destruct c as [|x c]; [discriminate|]. apply c18_sf_cons in Hsf. destruct Hsf as [Hx _].
      rewrite c18_join_cons. simpl. exact Hx. }
    unfold c18_denote. rewrite A.
    rewrite c18_split_join by (apply Forall_app; split; [apply c18_repeat_sf | exact SFcs]).
    rewrite !c18_run_app, c18_run_dotdots, c18_run_ordinary by exact Hcs.
    simpl. rewrite app_nil_r, rev_involutive. reflexivity.
Qed.

(* ---- consequences of the bridge *)
Lemma c18_normal_form : forall p, exists r, c18_processPath p = C18_Ok r /\ C18_NormalForm r.
Proof.
  intro p. exists (c18_canon p). split; [apply c18_processPath_canon|].
  apply c18_render_normal, c18_denote_wf.
Qed.

Lemma c18_denote_preserved : forall p r, c18_processPath p = C18_Ok r -> c18_denote r = c18_denote p.
Proof.
  intros p r H. rewrite c18_processPath_canon in H. inversion H; subst.
  apply c18_denote_render, c18_denote_wf.
Qed.

Lemma c18_idempotent : forall p r, c18_processPath p = C18_Ok r -> c18_processPath r = C18_Ok r.
Proof.
  intros p r H. pose proof (c18_denote_preserved p r H) as D.
  rewrite c18_processPath_canon in *. inversion H; subst. f_equal.
  unfold c18_canon at 1. rewrite D. reflexivity.
Qed.

Lemma c18_abs_never_escapes : forall p, c18_is_abs p = true ->
  exists cs, c18_processPath p = C18_Ok (c18_join ([] :: cs)) /\ forallb c18_ordinary cs = true
             /\ c18_denote p = (true, 0, cs).
Proof.
  intros p A. pose proof (c18_denote_wf p) as W. rewrite c18_processPath_canon. unfold c18_canon.
  assert (E : fst (fst (c18_denote p)) = c18_is_abs p).
  { unfold c18_denote. destruct (c18_run (c18_is_abs p) (c18_split p) (0, [])). reflexivity. }
  destruct (c18_denote p) as [[abs u] cs]. simpl in E. subst abs. rewrite A in *.
  destruct W as [Hu Hcs]. rewrite (Hu eq_refl). exists cs. auto.
Qed.

Lemma c18_terminates : forall p fuel, length p + 1 < fuel -> c18_processPath_fuel fuel p <> C18_OutOfFuel.
Proof. intros p fuel H. rewrite c18_processPath_fuel_canon by exact H. discriminate. Qed.

(* a relative path stays relative, an absolute one absolute *)
Lemma c18_denote_abs : forall p, fst (fst (c18_denote p)) = c18_is_abs p.
Proof. intro p. unfold c18_denote. destruct (c18_run (c18_is_abs p) (c18_split p) (0, [])). reflexivity. Qed.
