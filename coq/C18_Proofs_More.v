(* C18 -- further full-strength statements: round trip of relativePath at the string level, normal forms are
   exactly the fixed points of processPath, concatPaths of sanitised paths is sanitised (path.hh),
   the trailing-slash rule of prettyPath, soundness AND completeness of the executable oracles,
   formatString at the buffer boundary. *)
From Coq Require Import List Arith Bool Ascii Lia.
From DuneV Require Import Params_gen C18_Model C18_Spec C18_Proofs_Str C18_Proofs_Passes C18_Proofs_Pass4 C18_Proofs
  C18_Proofs_Tables C18_Proofs_Pretty C18_Proofs_Rel.
Import ListNotations.
Local Open Scope char_scope.

(* ---- equal denotation = equal sanitised string *)
Lemma c18_canon_of_denote : forall p q, c18_denote p = c18_denote q -> c18_processPath p = c18_processPath q.
Proof. intros p q H. rewrite !c18_processPath_canon. unfold c18_canon. rewrite H. reflexivity. Qed.

Lemma c18_denote_of_canon : forall p q, c18_processPath p = c18_processPath q -> c18_denote p = c18_denote q.
Proof.
  intros p q H. rewrite !c18_processPath_canon in H. inversion H as [E]. unfold c18_canon in E.
  rewrite <- (c18_denote_render _ (c18_denote_wf p)), <- (c18_denote_render _ (c18_denote_wf q)), E. reflexivity.
Qed.

(* concat(base, relative(base, p)) sanitises to the same string as p *)
Lemma c18_relative_roundtrip : forall base p r, c18_relativePath base p = C18_Ok r ->
  c18_processPath (c18_concatPaths base r) = c18_processPath p.
Proof.
  intros base p r H. apply c18_canon_of_denote. destruct (c18_relative_inverse base p) as [I _]. apply I. exact H.
Qed.

(* ---- normal forms are exactly the fixed points *)
Lemma c18_canon_render : forall d, c18_wf_loc d -> c18_canon (c18_render d) = c18_render d.
Proof. intros d W. unfold c18_canon. rewrite c18_denote_render by exact W. reflexivity. Qed.

Lemma c18_normal_is_render : forall s, C18_NormalForm s -> exists d, c18_wf_loc d /\ s = c18_render d.
Proof.
  intros s [cs [E [[r [Ec Or]] | [u [r [Ec Or]]]]]]; subst.
  - exists (true, 0, r). split; [split; auto|]. reflexivity.
  - exists (false, u, r). split; [split; [discriminate | auto]|]. reflexivity.
Qed.

Lemma c18_normal_form_fixpoint : forall s, C18_NormalForm s <-> c18_processPath s = C18_Ok s.
Proof.
  intro s. split.
  - intro N. destruct (c18_normal_is_render s N) as [d [W E]]. subst s.
    rewrite c18_processPath_canon, c18_canon_render by exact W. reflexivity.
  - intro H. destruct (c18_normal_form s) as [r [Hr N]]. rewrite H in Hr. inversion Hr; subst. exact N.
Qed.

(* ---- path.hh, concatPaths: "If both base and p are sanitized as per processPath(), and if p does not contain
        any leading "../", then the result will also be sanitized." *)
Lemma c18_concat_sanitized : forall base p,
  C18_NormalForm base -> C18_NormalForm p -> c18_hasPrefix p ["."; "."; "/"] = false ->
  C18_NormalForm (c18_concatPaths base p).
Proof.
  intros base p Nb Np Hup. unfold c18_concatPaths.
  destruct p as [|c p'] eqn:Ep; [exact Nb|]. rewrite <- Ep in *.
  destruct (c18_is_slash c) eqn:Sc; [exact Np|].
  destruct base as [|b0 base'] eqn:Eb; [exact Np|]. rewrite <- Eb in *.
  assert (Ab : c18_is_abs p = false) by (rewrite Ep; exact Sc).
  (* p is a relative normal form without leading "..": ordinary components only *)
  destruct Np as [csp [Ejp Fp]].
  assert (Rp : exists r, csp = r /\ forallb c18_ordinary r = true).
  { destruct Fp as [[r [Ec Or]] | [u [r [Ec Or]]]].
    - exfalso. rewrite Ejp, Ec, c18_join_cons in Ab. simpl in Ab. discriminate.
    - destruct u as [|u'].
      + exists r. rewrite Ec. auto.
      + exfalso. rewrite Ejp, Ec in Hup. simpl repeat in Hup. change ((c18_dotdot :: repeat c18_dotdot u') ++ r) with (c18_dotdot :: (repeat c18_dotdot u' ++ r)) in Hup.
        rewrite c18_join_cons in Hup. rewrite c18_hasPrefix_updir in Hup by reflexivity. discriminate. }
  destruct Rp as [r [-> Or]].
  (* base is non-empty and ends in '/' *)
  destruct Nb as [csb [Ejb Fb]].
  assert (S : c18_hasSuffix base ["/"] = true).
  { apply c18_hasSuffix_iff. destruct (c18_join_boundary csb) as [E | [K E]]; rewrite <- Ejb in E; [rewrite Eb in E; discriminate | eauto]. }
  rewrite S. rewrite Ejb, Ejp, <- c18_join_app.
  exists (csb ++ r). split; [reflexivity|].
  destruct Fb as [[rb [Ec Orb]] | [u [rb [Ec Orb]]]]; subst csb.
  - left. exists (rb ++ r). split; [reflexivity|]. rewrite forallb_app. apply andb_true_iff. split; assumption.
  - right. exists u, (rb ++ r). split; [rewrite app_assoc; reflexivity|]. rewrite forallb_app. apply andb_true_iff. split; assumption.
Qed.

(* ---- prettyPath: trailing slash exactly when there is an ordinary last component and a directory is wanted;
        a path ending in ".." never gets one (and a component merely ENDING in ".." is ordinary) *)
Lemma c18_pretty_trailing_slash : forall p,
  let '(abs, u, cs) := c18_denote p in
  (cs <> [] -> exists x, c18_prettyPath p true = C18_Ok (x ++ ["/"]) /\ c18_prettyPath p false = C18_Ok x)
  /\ (cs = [] -> c18_prettyPath p true = c18_prettyPath p false).
Proof.
  intro p. pose proof (c18_pretty_table p true) as T. pose proof (c18_pretty_table p false) as F.
  unfold c18_spec_pretty in *. destruct (c18_denote p) as [[abs u] cs]. split.
  - intro Hc. destruct (repeat c18_dotdot u ++ cs) as [|a0 all] eqn:EA.
    + exfalso. destruct u; simpl in EA; [congruence | discriminate].
    + destruct cs as [|c0 cs0]; [congruence|]. eexists. split; [exact T | exact F].
  - intros ->. rewrite T, F. destruct (repeat c18_dotdot u ++ []); reflexivity.
Qed.

(* ---- the executable oracles used by the correspondence check are exactly the stated predicates *)
Lemma c18_eq_comps_iff : forall a b, c18_eq_comps a b = true <-> a = b.
Proof.
  induction a as [|x a IH]; destruct b as [|y b]; simpl; split; intro H; try discriminate; try reflexivity.
  - apply andb_true_iff in H. destruct H as [H1 H2]. apply c18_eqs_eq in H1. apply IH in H2. congruence.
  - inversion H; subst. rewrite c18_eqs_refl. simpl. apply IH. reflexivity.
Qed.

Lemma c18_eq_loc_iff : forall a b, c18_eq_loc a b = true <-> a = b.
Proof.
  intros [[aa au] ac] [[ba bu] bc]. unfold c18_eq_loc. rewrite !andb_true_iff, c18_eq_comps_iff, Nat.eqb_eq, eqb_true_iff.
  split; [intros [[-> ->] ->]; reflexivity | intro H; inversion H; auto].
Qed.

Lemma c18_drop_dotdots_form : forall cs, exists u r, cs = repeat c18_dotdot u ++ r /\ c18_drop_dotdots cs = r.
Proof.
  induction cs as [|c cs [u [r [E D]]]]; [exists 0, []; auto|].
  simpl. destruct (c18_is_dotdot c) eqn:DD.
  - apply c18_is_dotdot_true in DD. subst c. exists (S u), r. split; [simpl; rewrite E; reflexivity | exact D].
  - exists 0, (c :: cs). auto.
Qed.

Lemma c18_drop_dotdots_repeat : forall u r, forallb c18_ordinary r = true -> c18_drop_dotdots (repeat c18_dotdot u ++ r) = r.
Proof.
  induction u as [|u IH]; intros r H.
  - simpl. destruct r as [|c r]; [reflexivity|]. simpl in H. apply andb_true_iff in H. destruct H as [Hc _].
    apply c18_ordinary_parts in Hc. destruct Hc as [_ [_ [_ Hd]]]. simpl. rewrite Hd. reflexivity.
  - simpl. apply IH. exact H.
Qed.

Lemma c18_is_empty_true : forall c, c18_is_empty c = true -> c = [].
Proof. destruct c; [reflexivity | discriminate]. Qed.

Lemma c18_nf_iff : forall s, c18_nf s = true <-> C18_NormalForm s.
Proof.
  intro s. split.
  - intro H. destruct s as [|x s'] eqn:Es.
    { exists []. split; [reflexivity|]. right. exists 0, []. auto. }
    rewrite <- Es in *. assert (Hs : c18_nf s = (let cs := c18_split s in
        c18_is_empty (last cs ["x"]) && match removelast cs with [] => false | c1 :: rest =>
          if c18_is_empty c1 then forallb c18_ordinary rest else forallb c18_ordinary (c18_drop_dotdots (c1 :: rest)) end))
      by (rewrite Es; reflexivity).
    rewrite Hs in H. cbv zeta in H. apply andb_true_iff in H. destruct H as [HL HR].
    pose proof (c18_split_not_nil s) as NN.
    pose proof (@app_removelast_last c18_str (c18_split s) (["x"] : c18_str) NN) as AL.
    apply c18_is_empty_true in HL. rewrite HL in AL.
    pose proof (c18_join_split s) as JS. rewrite AL, c18_join_app in JS.
    change (c18_join [[]]) with ["/"] in JS. apply app_inv_tail in JS.
    remember (removelast (c18_split s)) as cs' eqn:ER. destruct cs' as [|c1 rest]; [simpl in HR; discriminate HR|].
    exists (c1 :: rest). split; [symmetry; exact JS|].
    destruct c1 as [|y c1'].
    + left. exists rest. auto.
    + simpl c18_is_empty in HR. cbv iota in HR. right.
      match type of HR with context [c18_drop_dotdots ?t] =>
        destruct (c18_drop_dotdots_form t) as [u [r [E D]]]; rewrite D in HR end.
      exists u, r. split; [exact E | exact HR].
  - intros [cs [E F]]. destruct s as [|x s'] eqn:Es; [reflexivity|]. rewrite <- Es in *.
    assert (Hs : c18_nf s = (let cs := c18_split s in
        c18_is_empty (last cs ["x"]) && match removelast cs with [] => false | c1 :: rest =>
          if c18_is_empty c1 then forallb c18_ordinary rest else forallb c18_ordinary (c18_drop_dotdots (c1 :: rest)) end))
      by (rewrite Es; reflexivity).
    rewrite Hs. cbv zeta. clear Hs.
    assert (SF : Forall c18_sf cs).
    { destruct F as [[r [Ec Or]] | [u [r [Ec Or]]]]; subst cs.
      - constructor; [reflexivity | apply c18_ordinary_sf_all; exact Or].
      - apply Forall_app. split; [apply c18_repeat_sf | apply c18_ordinary_sf_all; exact Or]. }
    rewrite E, c18_split_join by exact SF. rewrite last_last, removelast_last. simpl andb.
    destruct F as [[r [Ec Or]] | [u [r [Ec Or]]]]; subst cs.
    + exact Or.
    + destruct u as [|u'].
      * simpl repeat. simpl app. destruct r as [|c1 rest]; [exfalso; rewrite E in Es; discriminate|].
        pose proof Or as Or'. simpl in Or'. apply andb_true_iff in Or'. destruct Or' as [Oc _].
        apply c18_ordinary_parts in Oc. destruct Oc as [_ [He [_ Hd]]]. rewrite He.
        simpl c18_drop_dotdots. rewrite Hd. exact Or.
      * simpl repeat. change ((c18_dotdot :: repeat c18_dotdot u') ++ r) with (c18_dotdot :: (repeat c18_dotdot u' ++ r)).
        cbv iota. change (c18_is_empty c18_dotdot) with false. cbv iota.
        change (c18_drop_dotdots (c18_dotdot :: repeat c18_dotdot u' ++ r)) with (c18_drop_dotdots (repeat c18_dotdot u' ++ r)).
        rewrite c18_drop_dotdots_repeat by exact Or. exact Or.
Qed.

(* ---- formatString at the boundary: the first attempt into the stack buffer yields F exactly while
        |F| < bufferSize; from |F| = bufferSize on it is truncated, and the heap retry repairs it *)
Lemma c18_nulfree_firstn : forall n F, c18_nulfree F -> c18_nulfree (firstn n F).
Proof.
  induction n as [|n IH]; intros F H; simpl; [constructor|]. destruct F as [|c F]; [constructor|].
  inversion H; subst. constructor; auto. apply IH. assumption.
Qed.

Lemma c18_format_boundary_n : forall n F, 1 <= n -> c18_nulfree F ->
  let first_attempt := c18_cstr (snd (c18_snprintf n F)) in
  (length F < n -> first_attempt = F)
  /\ (n <= length F -> first_attempt = firstn (n - 1) F /\ first_attempt <> F)
  /\ c18_formatString_n n F = F.
Proof.
  intros n F Hn NF. cbv zeta. unfold c18_snprintf. simpl snd.
  rewrite (c18_cstr_nulfree _ (c18_nulfree_firstn (n - 1) F NF)). split; [|split].
  - intro L. apply firstn_all2. lia.
  - intro L. split; [reflexivity|]. intro E. apply (f_equal (@length ascii)) in E. rewrite firstn_length in E. lia.
  - rewrite c18_formatString_n_cstr by exact Hn. apply c18_cstr_nulfree. exact NF.
Qed.

Lemma c18_format_boundary : forall F, c18_nulfree F ->
  let B := c18_param_format_buffer in
  let first_attempt := c18_cstr (snd (c18_snprintf B F)) in
  (length F < B -> first_attempt = F)
  /\ (B <= length F -> first_attempt = firstn (B - 1) F /\ first_attempt <> F)
  /\ c18_formatString F = F.
Proof. intros F NF. apply (c18_format_boundary_n c18_param_format_buffer F c18_buffer_positive NF). Qed.

(* ---- the exception payload of relativePath *)
Lemma c18_relativePath_msg_agrees : forall base p,
  match c18_relativePath_msg base p with
  | C18_Result r => c18_relativePath base p = C18_Ok r
  | C18_Throw m => c18_relativePath base p = C18_NotImplemented
                   /\ c18_spec_rel_defined base p = false /\ m = c18_spec_rel_message base p
  | C18_Fuel => False
  end.
Proof.
  intros base p. destruct (c18_relative_inverse base p) as [_ [[NI _] _]]. revert NI.
  unfold c18_relativePath_msg, c18_relativePath, c18_spec_rel_message. rewrite !c18_hasPrefix_abs.
  destruct (Bool.eqb (c18_is_abs base) (c18_is_abs p)); simpl negb; cbv iota.
  2:{ intro NI. repeat split. apply NI. reflexivity. }
  rewrite !c18_processPath_canon. cbv zeta.
  destruct (c18_hasPrefix _ _); [intro NI; repeat split; apply NI; reflexivity | reflexivity].
Qed.

(* ---- pretty printing preserves the location *)
Lemma c18_split_join_app : forall l X, Forall c18_sf l -> c18_split (c18_join l ++ X) = l ++ c18_split X.
Proof.
  induction 1 as [|c l Hc _ IH]; [reflexivity|].
  rewrite c18_join_cons. change ((c ++ "/" :: c18_join l) ++ X) with ((c ++ "/" :: c18_join l) ++ X).
  rewrite <- app_assoc. simpl app. rewrite c18_split_comp by exact Hc. rewrite IH. reflexivity.
Qed.

Lemma c18_denote_of_comps : forall (abs : bool) u cs s, c18_wf_loc (abs, u, cs) ->
  c18_is_abs s = abs ->
  (exists tail, c18_split s = c18_marker abs ++ (repeat c18_dotdot u ++ cs) ++ tail /\ (tail = [] \/ tail = [[]])) ->
  c18_denote s = (abs, u, cs).
Proof.
  intros abs u cs s [Hu Hcs] A [tail [E T]]. unfold c18_denote. rewrite A, E.
  assert (R : c18_run abs (c18_marker abs ++ (repeat c18_dotdot u ++ cs) ++ tail) (0, []) = (u, rev cs)).
  { rewrite !c18_run_app.
    assert (R0 : c18_run abs (c18_marker abs) (0, []) = (0, [])) by (destruct abs; reflexivity).
    rewrite R0.
    assert (R1 : c18_run abs (repeat c18_dotdot u) (0, []) = (u, [])).
    { destruct abs; [rewrite (Hu eq_refl); reflexivity | rewrite c18_run_dotdots; reflexivity]. }
    rewrite R1, c18_run_ordinary by exact Hcs. rewrite app_nil_r.
    destruct T as [-> | ->]; [reflexivity | rewrite c18_run_cons, c18_step_empty; reflexivity]. }
  rewrite R, rev_involutive. reflexivity.
Qed.

Lemma c18_pretty_loc_denote : forall loc d, c18_wf_loc loc -> c18_denote (c18_spec_pretty_loc loc d) = loc.
Proof.
  intros [[abs u] cs] d W. pose proof W as [Hu Hcs]. unfold c18_spec_pretty_loc.
  destruct (repeat c18_dotdot u ++ cs) as [|a0 all'] eqn:EA.
  - assert (u = 0 /\ cs = []) as [-> ->] by (destruct u; simpl in EA; [auto | discriminate]).
    destruct abs; reflexivity.
  - rewrite <- EA. assert (NE : repeat c18_dotdot u ++ cs <> []) by (rewrite EA; discriminate). clear EA a0 all'.
    set (all := repeat c18_dotdot u ++ cs) in *.
    assert (SF : Forall c18_sf all).
    { apply Forall_app. split; [apply c18_repeat_sf | apply c18_ordinary_sf_all; exact Hcs]. }
    assert (NA : Forall c18_ne_sf all).
    { apply Forall_app. split; [apply c18_ne_sf_repeat | apply c18_ne_sf_of_ordinary; exact Hcs]. }
    (* the two possible shapes: body, or body ++ "/" *)
    assert (Body : forall slash : bool, c18_denote (((if abs then ["/"] else []) ++ c18_intercalate all) ++ (if slash then ["/"] else [])) = (abs, u, cs)).
    { intro slash. destruct (exists_last NE) as [l [c El]].
      assert (SFl : Forall c18_sf l /\ c18_sf c).
      { rewrite El in SF. apply Forall_app in SF. destruct SF as [S1 S2]. inversion S2; auto. }
      destruct SFl as [SFl SFc].
      assert (Sp : c18_split (c18_intercalate all ++ (if slash then ["/"] else [])) = all ++ (if slash then [[]] else [])).
      { rewrite El, c18_intercalate_snoc, <- app_assoc, c18_split_join_app by exact SFl.
        destruct slash.
        - rewrite c18_split_comp by exact SFc. simpl. rewrite <- app_assoc. reflexivity.
        - rewrite app_nil_r, c18_split_sf_single by exact SFc. rewrite app_nil_r. reflexivity. }
      apply c18_denote_of_comps; [exact W | |].
      - destruct abs; [reflexivity|]. simpl app.
        destruct all as [|c1 all1]; [congruence|]. inversion NA as [|? ? [S1 N1] _]; subst.
        destruct c1 as [|y c1']; [congruence|]. apply c18_sf_cons in S1. destruct S1 as [Sy _].
        destruct all1; simpl; exact Sy.
      - exists (if slash then [[]] else []). split; [|destruct slash; auto].
        rewrite <- app_assoc. destruct abs.
        + change (["/"] ++ c18_intercalate all ++ (if slash then ["/"] else [])) with ("/" :: (c18_intercalate all ++ (if slash then ["/"] else []))).
          simpl c18_split. rewrite Sp. reflexivity.
        + simpl app. rewrite Sp. reflexivity. }
    destruct cs as [|c0 cs0] eqn:EC.
    + specialize (Body false). rewrite app_nil_r in Body. exact Body.
    + destruct d; [exact (Body true) | specialize (Body false); rewrite app_nil_r in Body; exact Body].
Qed.

Lemma c18_pretty_denote : forall p d r, c18_prettyPath p d = C18_Ok r -> c18_denote r = c18_denote p.
Proof.
  intros p d r H. rewrite c18_pretty_table in H. inversion H; subst.
  rewrite c18_spec_pretty_loc_eq. apply c18_pretty_loc_denote, c18_denote_wf.
Qed.

Lemma c18_pretty_idempotent : forall p d r, c18_prettyPath p d = C18_Ok r -> c18_prettyPath r d = C18_Ok r.
Proof.
  intros p d r H. rewrite <- H. apply c18_pretty_of_canon. unfold c18_canon.
  rewrite (c18_pretty_denote p d r H). reflexivity.
Qed.

(* ---- the intermediate assertions written as comments in processPath ("each path component now has a trailing '/'",
        "free of multiple '/' in a row", "free of "."-components"): the string before the `/../` loop is a list of
        slash-free components each followed by '/', none of them empty or "." except that the first may be empty *)
Lemma c18_pre4_structure : forall p, exists cs,
  c18_pre4 p = c18_join cs /\ Forall c18_sf cs /\ Forall c18_pushable (tl cs) /\ hd [] cs <> ["."].
Proof.
  intro p. destruct p as [|x p'] eqn:Ep.
  { exists []. repeat split; try constructor. discriminate. }
  rewrite <- Ep. assert (Hp : p <> []) by (rewrite Ep; discriminate).
  exists (c18_cs3 p). split; [apply c18_pre4_join; exact Hp|].
  unfold c18_cs3. pose proof (c18_split_sf p) as SF.
  destruct (c18_split p) as [|c cs]; [repeat split; try constructor; discriminate|].
  inversion SF as [|? ? Hc SFcs]; subst.
  pose proof (c18_filters_pushable cs SFcs) as PU. destruct (c18_pushable_ne_sf _ PU) as [PUsf _].
  destruct (c18_is_dotc c) eqn:D.
  - split; [exact PUsf|]. split.
    + destruct PU; simpl; [constructor | assumption].
    + destruct PU as [|c0 l [_ [_ Hd]] _]; simpl; [discriminate | exact Hd].
  - split; [constructor; assumption|]. split; [exact PU|]. simpl. intro E. rewrite E in D. discriminate.
Qed.

(* ---- one value in two roles (the harness also passes ONE object for both parameters) *)
Lemma c18_relative_self : forall p, c18_relativePath p p = C18_Ok [].
Proof.
  intro p. pose proof (c18_denote_abs p) as A. destruct (c18_denote p) as [[ab u] cs] eqn:Hp. simpl in A. subst ab.
  rewrite (c18_relativePath_compute p p u cs u cs (repeat c18_dotdot u ++ cs) [] [] eq_refl Hp Hp);
    [reflexivity | rewrite app_nil_r; reflexivity | rewrite app_nil_r; reflexivity | exact I].
Qed.

Lemma c18_self_prefix_suffix : forall s k,
  c18_hasPrefix s (firstn k s) = true /\ c18_hasSuffix s (skipn k s) = true.
Proof.
  intros s k. split.
  - apply c18_hasPrefix_iff. exists (skipn k s). symmetry. apply firstn_skipn.
  - apply c18_hasSuffix_iff. exists (firstn k s). symmetry. apply firstn_skipn.
Qed.

(* ---- the example tables of path.hh, transcribed (used by the Examples of Properties_C18.v) *)
From Coq Require Import String.
Definition c18_doc_process_table : list (String.string * String.string) :=
  [("",""); (".",""); ("./",""); ("a/..",""); ("..","../"); ("../a","../a/"); ("a","a/"); ("a//","a/");
   ("a///b","a/b/"); ("/","/"); ("/.","/"); ("/..","/"); ("/a/..","/"); ("/a","/a/"); ("/a/","/a/"); ("/../a/","/a/")]%string.
Definition c18_doc_pretty_table : list (String.string * bool * String.string) :=
  [("",true,"."); ("",false,"."); (".",true,"."); (".",false,"."); ("./",true,"."); ("./",false,".");
   ("a/..",true,"."); ("a/..",false,"."); ("..",true,".."); ("..",false,".."); ("../a",true,"../a/"); ("../a",false,"../a");
   ("a",true,"a/"); ("a",false,"a"); ("a//",true,"a/"); ("a//",false,"a"); ("a///b",true,"a/b/"); ("a///b",false,"a/b");
   ("/",true,"/"); ("/",false,"/"); ("/.",true,"/"); ("/.",false,"/"); ("/..",true,"/"); ("/..",false,"/");
   ("/a/..",true,"/"); ("/a/..",false,"/"); ("/a",true,"/a/"); ("/a",false,"/a"); ("/a/",true,"/a/"); ("/a/",false,"/a");
   ("/../a/",true,"/a/"); ("/../a/",false,"/a")]%string.
Definition c18_doc_concat_table : list (String.string * String.string * String.string) :=
  [("anything","/abs/path","/abs/path"); ("a","b","a/b"); ("/a","b","/a/b"); ("a/","b","a/b"); ("a","b/","a/b/");
   ("..","b","../b"); ("a","..","a/.."); (".","b","./b"); ("a",".","a/."); ("","b","b"); ("a","","a"); ("","","")]%string.
(* dune/common/test/pathtest.cc: relativePath *)
Definition c18_doc_relative_table : list (String.string * String.string * option String.string) :=
  [("","",Some ""); ("","b",Some "b/"); ("","..",Some "../"); ("a","",Some "../"); ("a","b",Some "../b/"); ("/","/",Some "");
   ("/a","/",Some "../"); ("/","/b",Some "b/"); ("/a","/b",Some "../b/");
   ("","/",None); ("a","/",None); ("/","",None); ("/","b",None); ("..","",None)]%string.

Definition c18_is_ok (r : c18_res) (expected : String.string) : bool :=
  match r with C18_Ok o => c18_eqs o (c18_lit expected) | _ => false end.
Definition c18_doc_tables_hold : bool :=
  forallb (fun '(p, r) => c18_is_ok (c18_processPath (c18_lit p)) r) c18_doc_process_table
  && forallb (fun '(p, d, r) => c18_is_ok (c18_prettyPath (c18_lit p) d) r) c18_doc_pretty_table
  && forallb (fun '(a, b, r) => c18_eqs (c18_concatPaths (c18_lit a) (c18_lit b)) (c18_lit r)) c18_doc_concat_table
  && forallb (fun '(a, b, r) => match r, c18_relativePath (c18_lit a) (c18_lit b) with
                                | Some r, C18_Ok o => c18_eqs o (c18_lit r)
                                | None, C18_NotImplemented => true
                                | _, _ => false end) c18_doc_relative_table.
