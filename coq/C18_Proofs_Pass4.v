(* C18 -- bridge, part 2: the index-based `/../` loop of processPath (pass 4) computes the
   component-level stack normaliser c18_norm4.  The loop state (string, src) is a zipper
   (done components, reversed | components still to scan) with src at the last '/' of the done part. *)
From Coq Require Import List Arith Bool Ascii Lia.
From DuneV Require Import Params_gen C18_Model C18_Spec C18_Proofs_Str C18_Proofs_Passes.
Import ListNotations.
Local Open Scope char_scope.

(* component-level meaning of pass 4; `done` is the reversed stack of components already scanned *)
Fixpoint c18_norm4 (done todo : list c18_str) : list c18_str :=
  match todo with
  | [] => rev done
  | c :: todo' =>
      if c18_is_dotdot c then
        match done with
        | [] => c18_norm4 [c] todo'                       (* leading ".." of a relative path: kept *)
        | d :: done' =>
            if c18_is_dotdot d then c18_norm4 (c :: done) todo'      (* "../../" kept *)
            else if c18_is_empty d then c18_norm4 done todo'         (* "/../" at the root: ".." dropped *)
            else c18_norm4 done' todo'                               (* "<d>/../" removed *)
        end
      else c18_norm4 (c :: done) todo'
  end.

(* ---- find *)
Lemma c18_option_map_map : forall (A B C : Type) (f : A -> B) (g : B -> C) o,
  option_map g (option_map f o) = option_map (fun x => g (f x)) o.
Proof. destruct o; reflexivity. Qed.

Lemma c18_option_map_ext : forall (A B : Type) (f g : A -> B) o, (forall x, f x = g x) -> option_map f o = option_map g o.
Proof. intros. destruct o; simpl; congruence. Qed.

Lemma c18_find4_0_cons : forall x t,
  c18_find4_0 (x :: t) = if c18_starts4 (x :: t) then Some 0 else option_map S (c18_find4_0 t).
Proof. reflexivity. Qed.

Lemma c18_find4_0_sf : forall c X, c18_sf c ->
  c18_find4_0 (c ++ X) = option_map (Nat.add (length c)) (c18_find4_0 X).
Proof.
  induction c as [|x c IH]; intros X H.
  - simpl. destruct (c18_find4_0 X); reflexivity.
  - apply c18_sf_cons in H. destruct H as [Hx Hc].
    change ((x :: c) ++ X) with (x :: (c ++ X)).
    assert (St : c18_starts4 (x :: c ++ X) = false).
    { unfold c18_starts4. destruct (c ++ X) as [|? [|? [|? ?]]]; try reflexivity. rewrite Hx. reflexivity. }
    rewrite c18_find4_0_cons, St. rewrite IH by exact Hc.
    rewrite c18_option_map_map. reflexivity.
Qed.

Lemma c18_starts4_comp : forall c R, c18_sf c -> c <> c18_dotdot ->
  c18_starts4 ("/" :: c ++ "/" :: R) = false.
Proof.
  intros c R H Hn. destruct c as [|x [|y [|z c]]].
  - destruct R as [|r1 [|r2 R]]; reflexivity.
  - destruct R as [|r1 R]; [reflexivity|]. simpl. destruct (c18_is_dot x); reflexivity.
  - simpl. destruct (c18_is_dot x) eqn:Dx; [|reflexivity]. destruct (c18_is_dot y) eqn:Dy; [|reflexivity].
    apply Ascii.eqb_eq in Dx, Dy. subst. exfalso. apply Hn. reflexivity.
  - apply c18_sf_cons in H. destruct H as [_ H]. apply c18_sf_cons in H. destruct H as [_ H].
    apply c18_sf_cons in H. destruct H as [Hz _]. simpl. rewrite Hz, !andb_false_r. reflexivity.
Qed.

Lemma c18_find4_0_slash_comp : forall c R, c18_sf c -> c <> c18_dotdot ->
  c18_find4_0 ("/" :: c ++ "/" :: R) = option_map (Nat.add (S (length c))) (c18_find4_0 ("/" :: R)).
Proof.
  intros c R H Hn.
  rewrite c18_find4_0_cons.
  rewrite c18_starts4_comp by assumption. rewrite c18_find4_0_sf by exact H.
  rewrite c18_option_map_map. reflexivity.
Qed.

Lemma c18_skipn_app_len : forall (A : Type) (a b : list A), skipn (length a) (a ++ b) = b.
Proof. intros. rewrite skipn_app, skipn_all, Nat.sub_diag. reflexivity. Qed.

Lemma c18_firstn_app_len : forall (A : Type) (a b : list A), firstn (length a) (a ++ b) = a.
Proof. intros. rewrite firstn_app, firstn_all, Nat.sub_diag. simpl. apply app_nil_r. Qed.

Lemma c18_find4_at : forall J R, c18_find4 (J ++ R) (length J) = option_map (Nat.add (length J)) (c18_find4_0 R).
Proof. intros. unfold c18_find4. rewrite c18_skipn_app_len. reflexivity. Qed.

(* pass4 looks at src only through find *)
Lemma c18_pass4_find_ext : forall fuel s a b, c18_find4 s a = c18_find4 s b -> c18_pass4 fuel s a = c18_pass4 fuel s b.
Proof. intros [|f] s a b H; simpl; [reflexivity|]. rewrite H. reflexivity. Qed.

(* ---- backup *)
Lemma c18_nth_app_len : forall (a b : c18_str) x d, nth (length a) (a ++ x :: b) d = x.
Proof. intros. rewrite app_nth2, Nat.sub_diag by lia. reflexivity. Qed.

Lemma c18_backup_comp : forall d pre X, c18_sf d ->
  c18_backup (pre ++ d ++ X) (length pre + length d) = c18_backup (pre ++ d ++ X) (length pre).
Proof.
  intros d. induction d as [|x d IH] using rev_ind; intros pre X H.
  - simpl. rewrite Nat.add_0_r. reflexivity.
  - assert (Hd : c18_sf d /\ c18_is_slash x = false).
    { unfold c18_sf, c18_slashfree in *. rewrite forallb_app in H. apply andb_true_iff in H. destruct H as [H1 H2].
      simpl in H2. rewrite andb_true_r, negb_true_iff in H2. auto. }
    destruct Hd as [Hd Hx].
    rewrite app_length. simpl length. replace (length pre + (length d + 1)) with (S (length pre + length d)) by lia.
    simpl c18_backup.
    replace (nth (length pre + length d) (pre ++ (d ++ [x]) ++ X) "/") with x.
    2:{ rewrite <- app_assoc. simpl. rewrite app_assoc, <- app_length. symmetry. apply c18_nth_app_len. }
    rewrite Hx. rewrite <- app_assoc. simpl. apply IH. exact Hd.
Qed.

Definition c18_boundary (J : c18_str) : Prop := J = [] \/ exists K, J = K ++ ["/"].

Lemma c18_backup_boundary : forall J X, c18_boundary J -> c18_backup (J ++ X) (length J) = length J.
Proof.
  intros J X [->|[K ->]]; [reflexivity|].
  rewrite app_length. simpl. replace (length K + 1) with (S (length K)) by lia. simpl.
  rewrite <- app_assoc. simpl. rewrite c18_nth_app_len. reflexivity.
Qed.

Lemma c18_backup_at : forall J d X, c18_boundary J -> c18_sf d ->
  c18_backup (J ++ d ++ X) (length J + length d) = length J.
Proof. intros. rewrite c18_backup_comp by assumption. apply c18_backup_boundary. assumption. Qed.

Lemma c18_erase_mid : forall J M R, c18_erase (J ++ M ++ R) (length J) (length M) = J ++ R.
Proof.
  intros. unfold c18_erase. rewrite c18_firstn_app_len. f_equal.
  rewrite app_assoc, <- app_length. apply c18_skipn_app_len.
Qed.

(* ---- one real iteration of the loop: the scan stands at the '/' in front of a ".." component *)
Lemma c18_pass4_iter : forall f J d R, c18_boundary J -> c18_sf d ->
  let s := J ++ d ++ "/" :: "." :: "." :: "/" :: R in
  c18_pass4 (S f) s (length J + length d) =
    if c18_is_dotdot d then c18_pass4 f s (length J + length d + 3)
    else if c18_is_empty d then c18_pass4 f (c18_erase s 0 3) (length J)
    else c18_pass4 f (J ++ R) (pred (length J)).
Proof.
  intros f J d R HJ Hd s.
  assert (Fd : c18_find4 s (length J + length d) = Some (length J + length d)).
  { unfold s. rewrite app_assoc, <- app_length, c18_find4_at. simpl. f_equal. lia. }
  assert (Bk : c18_backup s (length J + length d) = length J) by (unfold s; apply c18_backup_at; assumption).
  simpl c18_pass4. rewrite Fd, !Bk.
  replace (length J + length d - length J) with (length d) by lia.
  assert (Sub : c18_substr s (length J) (length d) = d).
  { unfold c18_substr, s. rewrite c18_skipn_app_len, c18_firstn_app_len. reflexivity. }
  rewrite Sub. fold c18_dotdot. fold (c18_is_dotdot d).
  destruct (c18_is_dotdot d) eqn:DD; [reflexivity|].
  destruct d as [|x d].
  - simpl length. rewrite Nat.add_0_r, Nat.eqb_refl. reflexivity.
  - simpl c18_is_empty. cbv iota.
    replace (Nat.eqb (length J) (length J + length (x :: d))) with false
      by (symmetry; apply Nat.eqb_neq; simpl; lia).
    assert (Er : c18_erase s (length J) (length (x :: d) + 4) = J ++ R).
    { unfold s. replace (length (x :: d) + 4) with (length ((x :: d) ++ ["/"; "."; "."; "/"])) by (rewrite app_length; reflexivity).
      rewrite <- (c18_erase_mid J ((x :: d) ++ ["/"; "."; "."; "/"]) R). rewrite <- !app_assoc. reflexivity. }
    rewrite Er. destruct (length J) eqn:LJ; [reflexivity|]. simpl. rewrite Nat.sub_0_r. reflexivity.
Qed.

(* ---- the zipper invariant *)
Definition c18_srcpos (done : list c18_str) : nat := pred (length (c18_join (rev done))).

Fixpoint c18_done_ok (done : list c18_str) : Prop :=
  match done with
  | [] => True
  | d :: r => c18_sf d /\ (r <> [] -> d <> []) /\ c18_done_ok r
  end.

Definition c18_todo_ok (done todo : list c18_str) : Prop :=
  Forall c18_sf todo /\ Forall (fun c => c <> []) (match done with [] => tl todo | _ => todo end).

Lemma c18_join_rev_cons : forall d done, c18_join (rev (d :: done)) = c18_join (rev done) ++ d ++ ["/"].
Proof. intros. simpl rev. rewrite c18_join_app. unfold c18_join at 2. simpl. rewrite app_nil_r. reflexivity. Qed.

Lemma c18_join_boundary : forall cs, c18_boundary (c18_join cs).
Proof.
  intro cs. destruct cs as [|x l] using rev_ind; [left; reflexivity|].
  right. exists (c18_join l ++ x). rewrite c18_join_app. unfold c18_join at 2. simpl.
  rewrite app_nil_r, app_assoc. reflexivity.
Qed.

Lemma c18_srcpos_cons : forall d done, c18_srcpos (d :: done) = length (c18_join (rev done)) + length d.
Proof. intros. unfold c18_srcpos. rewrite c18_join_rev_cons, !app_length. simpl. lia. Qed.

Lemma c18_norm4_nil_cons : forall c t, c18_norm4 [] (c :: t) = c18_norm4 [c] t.
Proof. intros. simpl. destruct (c18_is_dotdot c); reflexivity. Qed.

Lemma c18_is_dotdot_true : forall c, c18_is_dotdot c = true -> c = c18_dotdot.
Proof. intros c H. apply c18_eqs_eq in H. exact H. Qed.

Lemma c18_pass4_norm : forall todo done fuel,
  c18_done_ok done -> c18_todo_ok done todo -> length todo < fuel ->
  c18_pass4 fuel (c18_join (rev done) ++ c18_join todo) (c18_srcpos done)
  = C18_Ok (c18_join (c18_norm4 done todo)).
Proof.
  induction todo as [|c todo IH]; intros done fuel Hd [Hsf Hne] Hf.
  - (* nothing left to scan: find fails *)
    destruct fuel as [|f]; [inversion Hf|]. rewrite c18_join_nil, app_nil_r. simpl c18_norm4.
    destruct done as [|d done'].
    + reflexivity.
    + rewrite c18_srcpos_cons. rewrite c18_join_rev_cons.
      simpl c18_pass4.
      replace (c18_find4 (c18_join (rev done') ++ d ++ ["/"]) (length (c18_join (rev done')) + length d)) with (@None nat).
      * reflexivity.
      * rewrite app_assoc, <- app_length, c18_find4_at. reflexivity.
  - inversion Hsf as [|? ? Hc Hsf']; subst.
    rewrite c18_join_cons.
    destruct done as [|d done'].
    + (* start of the string: the first component is skipped by find *)
      rewrite c18_norm4_nil_cons.
      specialize (IH [c] fuel).
      assert (E : c18_join (rev [c]) ++ c18_join todo = c ++ "/" :: c18_join todo).
      { simpl rev. unfold c18_join at 1. simpl. rewrite app_nil_r, <- app_assoc. reflexivity. }
      rewrite E in IH. rewrite <- IH.
      * apply c18_pass4_find_ext.
        assert (SP : c18_srcpos [c] = length c).
        { unfold c18_srcpos. simpl rev. unfold c18_join. simpl. rewrite app_nil_r, app_length. simpl. lia. }
        rewrite SP. rewrite c18_find4_at.
        unfold c18_find4. simpl skipn. rewrite c18_find4_0_sf by exact Hc.
        rewrite c18_option_map_map. reflexivity.
      * simpl. split; [exact Hc|]. split; [congruence | exact I].
      * split; [exact Hsf' | exact Hne].
      * simpl in Hf. lia.
    + simpl in Hd. destruct Hd as [Hdsf [Hdne Hd']].
      destruct (c18_is_dotdot c) eqn:DD.
      * (* c = "..": one real loop iteration *)
        apply c18_is_dotdot_true in DD. subst c.
        destruct fuel as [|f]; [inversion Hf|].
        rewrite c18_srcpos_cons, c18_join_rev_cons.
        rewrite <- !app_assoc. simpl app.
        pose proof (c18_pass4_iter f (c18_join (rev done')) d (c18_join todo) (c18_join_boundary _) Hdsf) as IT.
        cbv zeta in IT. unfold c18_dotdot. rewrite IT. clear IT.
        assert (Hne' : Forall (fun c => c <> []) todo) by (inversion Hne; assumption).
        simpl c18_norm4. change (c18_is_dotdot ["."; "."]) with true. cbv iota.
        destruct (c18_is_dotdot d) eqn:Dd.
        -- (* "../../" is kept *)
           specialize (IH (c18_dotdot :: d :: done') f).
           rewrite c18_srcpos_cons, !c18_join_rev_cons, app_length, app_length in IH.
           rewrite <- !app_assoc in IH. simpl app in IH. simpl length in IH.
           replace (length (c18_join (rev done')) + (length d + 1) + 2) with (length (c18_join (rev done')) + length d + 3) in IH by lia.
           apply IH.
           ++ simpl. repeat split; auto; try discriminate.
           ++ split; assumption.
           ++ simpl in Hf. lia.
        -- destruct d as [|x d]; simpl c18_is_empty; cbv iota.
           ++ (* the root absorbs ".." *)
              assert (done' = []) by (destruct done'; [reflexivity | exfalso; apply Hdne; [discriminate | reflexivity]]).
              subst done'. simpl rev. rewrite c18_join_nil. simpl app. simpl length.
              specialize (IH [[]] f). simpl in IH. apply IH.
              ** repeat split; auto. 
              ** split; assumption.
              ** simpl in Hf. lia.
           ++ (* "<d>/../" removed *)
              apply (IH done' f).
              ** exact Hd'.
              ** split; [assumption|]. destruct done'; [destruct todo; simpl; [constructor | inversion Hne'; assumption] | assumption].
              ** simpl in Hf. lia.
      * (* an ordinary component after a '/': skipped by find *)
        assert (Hcd : c <> c18_dotdot) by (intro; subst c; discriminate).
        simpl c18_norm4. rewrite DD.
        specialize (IH (c :: d :: done') fuel).
        rewrite <- IH.
        -- rewrite (c18_join_rev_cons c (d :: done')).
           rewrite <- !app_assoc. change (["/"] ++ c18_join todo) with ("/" :: c18_join todo).
           apply c18_pass4_find_ext.
           rewrite (c18_srcpos_cons c (d :: done')), c18_srcpos_cons.
           rewrite c18_join_rev_cons.
           set (J' := c18_join (rev done')). set (T := c18_join todo).
           assert (E0 : (J' ++ d ++ ["/"]) ++ c ++ "/" :: T = ((J' ++ d ++ ["/"]) ++ c ++ ["/"]) ++ T)
             by (rewrite <- !app_assoc; reflexivity).
           assert (E1 : (J' ++ d ++ ["/"]) ++ c ++ "/" :: T = (J' ++ d) ++ "/" :: c ++ "/" :: T)
             by (rewrite <- !app_assoc; reflexivity).
           assert (E2 : (J' ++ d ++ ["/"]) ++ c ++ "/" :: T = ((J' ++ d ++ ["/"]) ++ c) ++ "/" :: T)
             by (rewrite <- !app_assoc; reflexivity).
           transitivity (c18_find4 ((J' ++ d) ++ "/" :: c ++ "/" :: T) (length (J' ++ d))).
           { rewrite <- E1, app_length. reflexivity. }
           transitivity (c18_find4 (((J' ++ d ++ ["/"]) ++ c) ++ "/" :: T) (length ((J' ++ d ++ ["/"]) ++ c))).
           2:{ rewrite <- E2, (app_length (J' ++ d ++ ["/"]) c). reflexivity. }
           rewrite !c18_find4_at.
           rewrite c18_find4_0_slash_comp by assumption.
           rewrite c18_option_map_map. apply c18_option_map_ext. intro n. rewrite !app_length. simpl. lia.
        -- simpl. repeat split; auto. intros _. inversion Hne; assumption.
        -- split; [assumption|]. inversion Hne; assumption.
        -- simpl in Hf. lia.
Qed.
