(* C18 -- bridge, part 1: the character-level passes 0-3 of processPath act on the component list.
     p ++ "/"  =  join (split p);   pass 1 removes the empty components (but the first);
     pass 2 removes the "." components (but the first); pass 3 removes a first "." component. *)
From Coq Require Import List Arith Bool Ascii Lia.
From DuneV Require Import Params_gen C18_Model C18_Spec C18_Proofs_Str.
Import ListNotations.
Local Open Scope char_scope.

Definition c18_sf (c : c18_str) : Prop := c18_slashfree c = true.
Definition c18_nonempty (c : c18_str) : bool := negb (c18_is_empty c).
Definition c18_notdot (c : c18_str) : bool := negb (c18_is_dotc c).

Lemma c18_is_slash_true : forall c, c18_is_slash c = true -> c = "/".
Proof. intros c H. apply Ascii.eqb_eq in H. exact H. Qed.

Lemma c18_sf_cons : forall x c, c18_sf (x :: c) <-> c18_is_slash x = false /\ c18_sf c.
Proof.
  intros x c. unfold c18_sf. simpl. rewrite andb_true_iff, negb_true_iff. reflexivity.
Qed.

Lemma c18_sf_nil : c18_sf [].
Proof. reflexivity. Qed.

Lemma c18_join_cons : forall c cs, c18_join (c :: cs) = c ++ "/" :: c18_join cs.
Proof. intros. unfold c18_join. simpl. rewrite <- app_assoc. reflexivity. Qed.

Lemma c18_join_nil : c18_join [] = [].
Proof. reflexivity. Qed.

Lemma c18_join_app : forall a b, c18_join (a ++ b) = c18_join a ++ c18_join b.
Proof. intros. unfold c18_join. rewrite map_app, concat_app. reflexivity. Qed.

(* ---- split / join *)
Lemma c18_split_not_nil : forall s, c18_split s <> [].
Proof.
  destruct s as [|c t]; simpl; [discriminate|].
  destruct (c18_is_slash c); [discriminate|]. destruct (c18_split t); discriminate.
Qed.

Lemma c18_join_split : forall s, c18_join (c18_split s) = s ++ ["/"].
Proof.
  induction s as [|c t IH]; simpl; [reflexivity|].
  destruct (c18_is_slash c) eqn:E.
  - apply c18_is_slash_true in E. subst c. rewrite c18_join_cons, IH. reflexivity.
  - destruct (c18_split t) as [|h r] eqn:S; [exfalso; eapply c18_split_not_nil; eauto|].
    rewrite c18_join_cons in *. simpl. rewrite IH. reflexivity.
Qed.

Lemma c18_split_sf : forall s, Forall c18_sf (c18_split s).
Proof.
  induction s as [|c t IH]; simpl.
  - constructor; [apply c18_sf_nil | constructor].
  - destruct (c18_is_slash c) eqn:E.
    + constructor; [apply c18_sf_nil | exact IH].
    + destruct (c18_split t) as [|h r]; [constructor; [apply c18_sf_cons; split; auto; apply c18_sf_nil|constructor]|].
      inversion IH; subst. constructor; auto. apply c18_sf_cons. auto.
Qed.

Lemma c18_split_comp : forall c rest, c18_sf c -> c18_split (c ++ "/" :: rest) = c :: c18_split rest.
Proof.
  induction c as [|x c IH]; intros rest H; simpl; [reflexivity|].
  apply c18_sf_cons in H. destruct H as [Hx Hc]. rewrite Hx, IH by exact Hc. reflexivity.
Qed.

Lemma c18_split_join : forall cs, Forall c18_sf cs -> c18_split (c18_join cs) = cs ++ [[]].
Proof.
  induction 1 as [|c cs Hc _ IH]; [reflexivity|].
  rewrite c18_join_cons, c18_split_comp, IH by exact Hc. reflexivity.
Qed.

Lemma c18_split_length : forall s, length (c18_split s) <= S (length s).
Proof.
  induction s as [|c t IH]; simpl; [lia|].
  destruct (c18_is_slash c); simpl; [lia|].
  destruct (c18_split t); simpl in *; lia.
Qed.

Lemma c18_split_head_empty : forall s c cs, c18_split s = c :: cs ->
  (c = [] <-> (s = [] \/ c18_is_abs s = true)).
Proof.
  intros s c cs H. destruct s as [|x t]; simpl in *.
  - inversion H; subst. tauto.
  - destruct (c18_is_slash x) eqn:E.
    + inversion H; subst. split; auto.
    + destruct (c18_split t); inversion H; subst; split; try discriminate; intros [?|?]; discriminate.
Qed.

(* ---- pass 1 *)
Lemma c18_pass1_comp : forall c b rest, c18_sf c ->
  c18_pass1 b (c ++ "/" :: rest) =
  match c with
  | [] => if b then c18_pass1 true rest else "/" :: c18_pass1 true rest
  | _ => c ++ "/" :: c18_pass1 true rest
  end.
Proof.
  induction c as [|x c IH]; intros b rest H.
  - simpl. destruct b; reflexivity.
  - apply c18_sf_cons in H. destruct H as [Hx Hc].
    change ((x :: c) ++ "/" :: rest) with (x :: (c ++ "/" :: rest)).
    simpl c18_pass1. rewrite Hx. rewrite IH by exact Hc.
    destruct c; reflexivity.
Qed.

Lemma c18_pass1_join_true : forall cs, Forall c18_sf cs ->
  c18_pass1 true (c18_join cs) = c18_join (filter c18_nonempty cs).
Proof.
  induction 1 as [|c cs Hc _ IH]; [reflexivity|].
  rewrite c18_join_cons, c18_pass1_comp by exact Hc. simpl filter.
  destruct c as [|x c]; simpl c18_nonempty; cbv iota; [exact IH|].
  unfold c18_nonempty at 1. simpl. rewrite c18_join_cons, IH. reflexivity.
Qed.

Lemma c18_pass1_join_false : forall c cs, Forall c18_sf (c :: cs) ->
  c18_pass1 false (c18_join (c :: cs)) = c18_join (c :: filter c18_nonempty cs).
Proof.
  intros c cs H. inversion H; subst.
  rewrite !c18_join_cons, c18_pass1_comp, c18_pass1_join_true by assumption.
  destruct c; reflexivity.
Qed.

(* ---- pass 2 *)
Lemma c18_pass2_nil : forall b, c18_pass2 b [] = [].
Proof. reflexivity. Qed.

Lemma c18_pass2_false_cons : forall x t, c18_pass2 false (x :: t) = x :: c18_pass2 (c18_is_slash x) t.
Proof. intros x t. destruct t; reflexivity. Qed.

Lemma c18_pass2_true_cons2 : forall x d t, c18_pass2 true (x :: d :: t) =
  if c18_is_dot x && c18_is_slash d then c18_pass2 true t else x :: c18_pass2 (c18_is_slash x) (d :: t).
Proof. reflexivity. Qed.

Lemma c18_pass2_comp_false : forall c rest, c18_sf c ->
  c18_pass2 false (c ++ "/" :: rest) = c ++ "/" :: c18_pass2 true rest.
Proof.
  induction c as [|x c IH]; intros rest H.
  - simpl app. rewrite c18_pass2_false_cons. reflexivity.
  - apply c18_sf_cons in H. destruct H as [Hx Hc].
    change ((x :: c) ++ "/" :: rest) with (x :: (c ++ "/" :: rest)).
    rewrite c18_pass2_false_cons, Hx, IH by exact Hc. reflexivity.
Qed.

Lemma c18_pass2_comp_true : forall c rest, c18_sf c -> c <> [] -> c <> ["."] ->
  c18_pass2 true (c ++ "/" :: rest) = c ++ "/" :: c18_pass2 true rest.
Proof.
  intros c rest H Hne Hnd. destruct c as [|x c]; [congruence|].
  apply c18_sf_cons in H. destruct H as [Hx Hc].
  pose proof (c18_pass2_comp_false c rest Hc) as P.
  destruct c as [|y c].
  - (* single character, not '.' *)
    simpl app in *. rewrite c18_pass2_true_cons2.
    assert (D : c18_is_dot x = false).
    { destruct (c18_is_dot x) eqn:D; auto. apply Ascii.eqb_eq in D. subst. congruence. }
    rewrite D, Hx. simpl andb. cbv iota. f_equal. exact P.
  - apply c18_sf_cons in Hc. destruct Hc as [Hy Hc].
    change ((x :: y :: c) ++ "/" :: rest) with (x :: y :: (c ++ "/" :: rest)).
    change ((y :: c) ++ "/" :: rest) with (y :: (c ++ "/" :: rest)) in P.
    rewrite c18_pass2_true_cons2, Hy, andb_false_r, Hx. rewrite P. reflexivity.
Qed.

Lemma c18_pass2_dot_true : forall rest, c18_pass2 true ("." :: "/" :: rest) = c18_pass2 true rest.
Proof. reflexivity. Qed.

Definition c18_ne_sf (c : c18_str) : Prop := c18_sf c /\ c <> [].

Lemma c18_is_dotc_true : forall c, c18_is_dotc c = true -> c = ["."].
Proof. intros c H. apply c18_eqs_eq in H. exact H. Qed.

Lemma c18_pass2_join_true : forall cs, Forall c18_ne_sf cs ->
  c18_pass2 true (c18_join cs) = c18_join (filter c18_notdot cs).
Proof.
  induction 1 as [|c cs [Hc Hne] _ IH]; [reflexivity|].
  rewrite c18_join_cons. simpl filter. unfold c18_notdot at 1.
  destruct (c18_is_dotc c) eqn:D; simpl negb; cbv iota.
  - apply c18_is_dotc_true in D. subst c. simpl app. rewrite c18_pass2_dot_true. exact IH.
  - rewrite c18_pass2_comp_true, c18_join_cons, IH; auto.
    intro E. subst c. discriminate.
Qed.

Lemma c18_pass2_join_false : forall c cs, c18_sf c -> Forall c18_ne_sf cs ->
  c18_pass2 false (c18_join (c :: cs)) = c18_join (c :: filter c18_notdot cs).
Proof.
  intros c cs Hc H. rewrite !c18_join_cons, c18_pass2_comp_false, c18_pass2_join_true by assumption.
  reflexivity.
Qed.

(* ---- pass 3 *)
Lemma c18_pass3_join : forall c cs, c18_sf c ->
  c18_pass3 (c18_join (c :: cs)) = if c18_is_dotc c then c18_join cs else c18_join (c :: cs).
Proof.
  intros c cs Hc. unfold c18_pass3. rewrite c18_join_cons.
  destruct (c18_is_dotc c) eqn:D.
  - apply c18_is_dotc_true in D. subst c. reflexivity.
  - destruct (c18_hasPrefix (c ++ "/" :: c18_join cs) ["."; "/"]) eqn:P; [|reflexivity].
    exfalso. apply c18_hasPrefix_iff in P. destruct P as [t P].
    destruct c as [|x [|y c]]; simpl in P; inversion P; subst.
    + discriminate.
    + apply c18_sf_cons in Hc. destruct Hc as [_ Hc]. apply c18_sf_cons in Hc. destruct Hc as [Hc _]. discriminate.
Qed.

(* ---- passes 0-3 together *)
Definition c18_cs3 (p : c18_str) : list c18_str :=
  match c18_split p with
  | c :: cs =>
      let cs' := filter c18_notdot (filter c18_nonempty cs) in
      if c18_is_dotc c then cs' else c :: cs'
  | [] => []
  end.

Lemma c18_filter_ne_sf : forall cs, Forall c18_sf cs -> Forall c18_ne_sf (filter c18_nonempty cs).
Proof.
  induction 1 as [|c cs Hc _ IH]; simpl; [constructor|].
  destruct c; simpl; auto. constructor; auto. split; auto. discriminate.
Qed.

Lemma c18_pre4_join : forall p, p <> [] -> c18_pre4 p = c18_join (c18_cs3 p).
Proof.
  intros p Hp. unfold c18_pre4, c18_cs3.
  destruct p as [|x p]; [congruence|]. set (q := x :: p).
  rewrite <- c18_join_split.
  pose proof (c18_split_sf q) as SF.
  destruct (c18_split q) as [|c cs] eqn:S; [exfalso; eapply c18_split_not_nil; eauto|].
  rewrite c18_pass1_join_false by exact SF.
  inversion SF; subst.
  rewrite c18_pass2_join_false by (auto using c18_filter_ne_sf).
  rewrite c18_pass3_join by assumption. destruct (c18_is_dotc c); reflexivity.
Qed.
