(* C18 -- prettyPath equals its documented table for ALL strings (uses the bridge). *)
From Coq Require Import List Arith Bool Ascii Lia.
From DuneV Require Import Params_gen C18_Model C18_Spec C18_Proofs_Str C18_Proofs_Passes C18_Proofs_Pass4 C18_Proofs C18_Proofs_Tables.
Import ListNotations.
Local Open Scope char_scope.

Definition c18_pretty_post (result : c18_str) (isDirectory : bool) : c18_str :=
  if c18_eqs result [] then ["."]
  else if c18_eqs result ["/"] then result
  else
    let result := firstn (length result - 1) result in
    if c18_eqs result ["."; "."] || c18_hasSuffix result ["/"; "."; "."] then result
    else if isDirectory then result ++ ["/"] else result.

Lemma c18_pretty_model_post : forall p d, c18_prettyPath p d = C18_Ok (c18_pretty_post (c18_canon p) d).
Proof.
  intros p d. unfold c18_prettyPath, c18_pretty_post. rewrite c18_processPath_canon.
  destruct (c18_eqs (c18_canon p) []); [reflexivity|].
  destruct (c18_eqs (c18_canon p) ["/"]); [reflexivity|]. cbv zeta.
  destruct (c18_eqs _ ["."; "."] || c18_hasSuffix _ ["/"; "."; "."]); [reflexivity|].
  destruct d; reflexivity.
Qed.

Definition c18_spec_pretty_loc (loc : c18_loc) (isDirectory : bool) : c18_str :=
  let '(abs, u, cs) := loc in
  match repeat c18_dotdot u ++ cs with
  | [] => if abs then ["/"] else ["."]
  | all =>
      let body := (if abs then ["/"] else []) ++ c18_intercalate all in
      match cs with
      | [] => body
      | _ => if isDirectory then body ++ ["/"] else body
      end
  end.

Lemma c18_spec_pretty_loc_eq : forall p d, c18_spec_pretty p d = c18_spec_pretty_loc (c18_denote p) d.
Proof. reflexivity. Qed.

Lemma c18_intercalate_cons2 : forall c c' r, c18_intercalate (c :: c' :: r) = c ++ "/" :: c18_intercalate (c' :: r).
Proof. reflexivity. Qed.

Lemma c18_join_intercalate : forall all, all <> [] -> c18_join all = c18_intercalate all ++ ["/"].
Proof.
  induction all as [|c r IH]; [congruence|]. intros _. destruct r as [|c' r'].
  - unfold c18_join. simpl. rewrite app_nil_r. reflexivity.
  - rewrite c18_join_cons, IH by discriminate. rewrite c18_intercalate_cons2, <- app_assoc. reflexivity.
Qed.

Lemma c18_intercalate_snoc : forall l c, c18_intercalate (l ++ [c]) = c18_join l ++ c.
Proof.
  induction l as [|x l IH]; intro c; [reflexivity|]. destruct l as [|y l'].
  - simpl. unfold c18_join. simpl. rewrite app_nil_r, <- app_assoc. reflexivity.
  - change ((x :: y :: l') ++ [c]) with (x :: y :: (l' ++ [c])). rewrite c18_intercalate_cons2.
    change (y :: l' ++ [c]) with ((y :: l') ++ [c]). rewrite IH, (c18_join_cons x (y :: l')), <- app_assoc. reflexivity.
Qed.

Lemma c18_firstn_pred_snoc : forall (A : Type) (b : list A) x, firstn (length (b ++ [x]) - 1) (b ++ [x]) = b.
Proof.
  intros. rewrite app_length. simpl. replace (length b + 1 - 1) with (length b) by lia. apply c18_firstn_app_len.
Qed.

(* the stripped result ends in a ".." component iff there is no ordinary component *)
Lemma c18_ends_dotdot_repeat : forall (abs : bool) u, u <> 0 ->
  let body := (if abs then ["/"] else []) ++ c18_intercalate (repeat c18_dotdot u) in
  (abs = true -> False) -> c18_eqs body ["."; "."] || c18_hasSuffix body ["/"; "."; "."] = true.
Proof.
  intros abs u Hu body Habs. destruct abs; [exfalso; auto|]. unfold body. simpl app.
  destruct u as [|[|n]]; [congruence | reflexivity |].
  apply orb_true_iff. right. apply c18_hasSuffix_iff.
  replace (repeat c18_dotdot (S (S n))) with (repeat c18_dotdot (S n) ++ [c18_dotdot])
    by (rewrite c18_repeat_snoc; reflexivity).
  rewrite c18_intercalate_snoc.
  destruct (c18_join_boundary (repeat c18_dotdot (S n))) as [E | [K E]].
  - simpl repeat in E. rewrite c18_join_cons in E. discriminate.
  - rewrite E. exists K. rewrite <- app_assoc. reflexivity.
Qed.

Lemma c18_not_ends_dotdot : forall (abs : bool) l c, c18_ordinary c = true ->
  let body := (if abs then ["/"] else []) ++ c18_intercalate (l ++ [c]) in
  c18_eqs body ["."; "."] || c18_hasSuffix body ["/"; "."; "."] = false.
Proof.
  intros abs l c Hc body. apply c18_ordinary_parts in Hc. destruct Hc as [Hsf [_ [_ Hdd]]].
  unfold body. rewrite c18_intercalate_snoc.
  assert (B : c18_boundary ((if abs then ["/"] else []) ++ c18_join l)).
  { destruct abs; [|apply c18_join_boundary]. change (["/"] ++ c18_join l) with (c18_join ([] :: l)). apply c18_join_boundary. }
  rewrite app_assoc. destruct B as [E | [K E]]; rewrite E.
  - simpl app. rewrite c18_hasSuffix_slash_sf by exact Hsf. rewrite orb_false_r. exact Hdd.
  - rewrite <- app_assoc. simpl app.
    rewrite (c18_hasSuffix_last K c ["."; "."] Hsf) by reflexivity.
    replace (c18_eqs (K ++ "/" :: c) ["."; "."]) with false.
    + exact Hdd.
    + symmetry. apply c18_eqs_false. intro X.
      assert (S : c18_sf (K ++ "/" :: c)) by (rewrite X; reflexivity). eapply c18_not_sf_slash; eauto.
Qed.

Lemma c18_pretty_render : forall loc d, c18_wf_loc loc -> c18_pretty_post (c18_render loc) d = c18_spec_pretty_loc loc d.
Proof.
  intros [[abs u] cs] d [Hu Hcs]. unfold c18_render, c18_spec_pretty_loc, c18_pretty_post.
  set (all := repeat c18_dotdot u ++ cs).
  destruct all as [|a0 all'] eqn:EA.
  - destruct abs; reflexivity.
  - assert (NE : all <> []) by (rewrite EA; discriminate). rewrite <- EA in *. clear EA a0 all'.
    set (M := if abs then ["/"] else []).
    assert (J : M ++ c18_join all = (M ++ c18_intercalate all) ++ ["/"])
      by (rewrite c18_join_intercalate by exact NE; apply app_assoc).
    (* the first component is non-empty, so the result is neither "" nor "/" *)
    assert (I1 : c18_intercalate all <> []).
    { unfold all in *. destruct u as [|u'].
      - simpl app in *. destruct cs as [|c cs']; [congruence|]. simpl in Hcs. apply andb_true_iff in Hcs. destruct Hcs as [Hc _].
        apply c18_ordinary_parts in Hc. destruct Hc as [_ [He _]]. destruct c as [|x c]; [discriminate|].
        destruct cs'; simpl; discriminate.
      - simpl repeat. simpl app. destruct (repeat c18_dotdot u' ++ cs); simpl; discriminate. }
    rewrite J.
    replace (c18_eqs ((M ++ c18_intercalate all) ++ ["/"]) []) with false
      by (symmetry; apply c18_eqs_false; destruct (M ++ c18_intercalate all); discriminate).
    replace (c18_eqs ((M ++ c18_intercalate all) ++ ["/"]) ["/"]) with false.
    2:{ symmetry. apply c18_eqs_false. intro X. apply (f_equal (@length ascii)) in X. rewrite !app_length in X. simpl in X.
        destruct (c18_intercalate all); [congruence | simpl in X; lia]. }
    cbv zeta. rewrite c18_firstn_pred_snoc.
    destruct cs as [|c0 cs0] eqn:EC.
    + (* only ".." components *)
      unfold all in *. rewrite app_nil_r in *.
      assert (U : u <> 0) by (intro; subst u; apply NE; reflexivity).
      pose proof (c18_ends_dotdot_repeat abs u U) as P. cbv zeta in P. fold M in P.
      rewrite P; [reflexivity|]. intro A. apply U. auto.
    + rewrite <- EC in *.
      assert (NEc : cs <> []) by (rewrite EC; discriminate).
      destruct (exists_last NEc) as [l [c E]].
      assert (Oc : c18_ordinary c = true).
      { rewrite E, forallb_app in Hcs. apply andb_true_iff in Hcs. destruct Hcs as [_ Hc]. simpl in Hc. rewrite andb_true_r in Hc. exact Hc. }
      pose proof (c18_not_ends_dotdot abs (repeat c18_dotdot u ++ l) c Oc) as P. cbv zeta in P. fold M in P.
      assert (EQ : (repeat c18_dotdot u ++ l) ++ [c] = all) by (unfold all; rewrite <- EC, E, app_assoc; reflexivity).
      rewrite EQ in P. rewrite P. reflexivity.
Qed.

Lemma c18_pretty_table : forall p d, c18_prettyPath p d = C18_Ok (c18_spec_pretty p d).
Proof.
  intros p d. rewrite c18_pretty_model_post, c18_spec_pretty_loc_eq. f_equal.
  unfold c18_canon. apply c18_pretty_render, c18_denote_wf.
Qed.

Lemma c18_pretty1_table : forall p, c18_prettyPath1 p = C18_Ok (c18_spec_pretty p (c18_spec_isdir p)).
Proof. intro p. unfold c18_prettyPath1. rewrite c18_isdir_table. apply c18_pretty_table. Qed.
