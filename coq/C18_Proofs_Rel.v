(* C18 -- relativePath, unbounded: the character-level common prefix + back-up of two rendered
   locations is the rendered common component prefix; hence the inverse law and the exact error condition. *)
From Coq Require Import List Arith Bool Ascii Lia.
From DuneV Require Import Params_gen C18_Model C18_Spec C18_Proofs_Str C18_Proofs_Passes C18_Proofs_Pass4 C18_Proofs C18_Proofs_Tables.
Import ListNotations.
Local Open Scope char_scope.

(* ---- longest common component prefix, as a decomposition *)
Definition c18_diverge (a b : list c18_str) : Prop :=
  match a, b with x :: _, y :: _ => x <> y | _, _ => True end.

Lemma c18_lcp_exists : forall a b : list c18_str,
  exists C a' b', a = C ++ a' /\ b = C ++ b' /\ c18_diverge a' b'.
Proof.
  induction a as [|x a IH]; intro b.
  - exists [], [], b. simpl. auto.
  - destruct b as [|y b]; [exists [], (x :: a), []; simpl; auto|].
    destruct (c18_eqs x y) eqn:E.
    + apply c18_eqs_eq in E. subst y. destruct (IH b) as [C [a' [b' [H1 [H2 H3]]]]].
      exists (x :: C), a', b'. simpl. rewrite <- H1, <- H2. auto.
    + exists [], (x :: a), (y :: b). simpl. repeat split; auto. apply c18_eqs_false. exact E.
Qed.

(* ---- character-level common prefix *)
Lemma c18_common_len_app : forall J X Y, c18_common_len (J ++ X) (J ++ Y) = length J + c18_common_len X Y.
Proof. induction J as [|c J IH]; intros; simpl; [reflexivity|]. rewrite Ascii.eqb_refl, IH. reflexivity. Qed.

Lemma c18_common_len_nil_r : forall a, c18_common_len a [] = 0.
Proof. destruct a; reflexivity. Qed.

Lemma c18_eqb_slash : forall c, Ascii.eqb "/" c = c18_is_slash c.
Proof.
  intro c. unfold c18_is_slash. destruct (Ascii.eqb c "/") eqn:E.
  - apply Ascii.eqb_eq in E. subst. reflexivity.
  - destruct (Ascii.eqb "/" c) eqn:F; [|reflexivity]. apply Ascii.eqb_eq in F. subst c. rewrite Ascii.eqb_refl in E. discriminate.
Qed.

Lemma c18_common_len_cons : forall a A b B,
  c18_common_len (a :: A) (b :: B) = if Ascii.eqb a b then S (c18_common_len A B) else 0.
Proof. reflexivity. Qed.

Lemma c18_common_comp : forall x y X Y, c18_sf x -> c18_sf y -> x <> y ->
  exists w y', y = w ++ y' /\ c18_common_len (x ++ "/" :: X) (y ++ "/" :: Y) = length w.
Proof.
  induction x as [|a x IH]; intros y X Y Hx Hy Hn.
  - destruct y as [|c y]; [congruence|]. apply c18_sf_cons in Hy. destruct Hy as [Hc _].
    exists [], (c :: y). split; [reflexivity|].
    change ([] ++ "/" :: X) with ("/" :: X). change ((c :: y) ++ "/" :: Y) with (c :: (y ++ "/" :: Y)).
    rewrite c18_common_len_cons, c18_eqb_slash, Hc. reflexivity.
  - apply c18_sf_cons in Hx. destruct Hx as [Ha Hx]. destruct y as [|c y].
    + exists [], []. split; [reflexivity|].
      change ((a :: x) ++ "/" :: X) with (a :: (x ++ "/" :: X)). change ([] ++ "/" :: Y) with ("/" :: Y).
      rewrite c18_common_len_cons. fold (c18_is_slash a). rewrite Ha. reflexivity.
    + apply c18_sf_cons in Hy. destruct Hy as [Hc Hy].
      change ((a :: x) ++ "/" :: X) with (a :: (x ++ "/" :: X)). change ((c :: y) ++ "/" :: Y) with (c :: (y ++ "/" :: Y)).
      rewrite c18_common_len_cons. destruct (Ascii.eqb a c) eqn:E.
      * apply Ascii.eqb_eq in E. subst c.
        destruct (IH y X Y Hx Hy) as [w [y' [E1 E2]]]; [congruence|].
        exists (a :: w), y'. split; [simpl; rewrite E1; reflexivity | simpl; rewrite E2; reflexivity].
      * exists [], (c :: y). auto.
Qed.

Lemma c18_prefix_backup : forall J a' b', c18_boundary J -> Forall c18_ne_sf a' -> Forall c18_ne_sf b' -> c18_diverge a' b' ->
  c18_backup (J ++ c18_join b') (c18_common_len (J ++ c18_join a') (J ++ c18_join b')) = length J.
Proof.
  intros J a' b' HJ Ha Hb D. rewrite c18_common_len_app.
  assert (W : exists w rest, c18_join b' = w ++ rest /\ c18_sf w /\ c18_common_len (c18_join a') (c18_join b') = length w).
  { destruct a' as [|x a'']; [exists [], (c18_join b'); repeat split; reflexivity|].
    destruct b' as [|y b'']; [exists [], []; split; [reflexivity|]; split; [reflexivity|]; apply c18_common_len_nil_r|].
    inversion Ha as [|? ? [Hx _] _]; subst. inversion Hb as [|? ? [Hy _] _]; subst. simpl in D.
    rewrite !c18_join_cons.
    destruct (c18_common_comp x y (c18_join a'') (c18_join b'') Hx Hy D) as [w [y' [E1 E2]]].
    exists w, (y' ++ "/" :: c18_join b''). split; [rewrite E1, <- app_assoc; reflexivity|]. split; [|exact E2].
    rewrite E1 in Hy. apply c18_sf_app in Hy. tauto. }
  destruct W as [w [rest [E1 [E2 E3]]]]. rewrite E3, E1. apply c18_backup_at; assumption.
Qed.

(* ---- the other ingredients of relativePath *)
Lemma c18_hasPrefix_abs : forall s, c18_hasPrefix s ["/"] = c18_is_abs s.
Proof.
  destruct s as [|c t]; [reflexivity|]. unfold c18_hasPrefix.
  change (Nat.leb (length ["/"]) (length (c :: t))) with true.
  change (c18_equal ["/"] (c :: t)) with (Ascii.eqb "/" c && true).
  rewrite c18_eqb_slash, andb_true_r. reflexivity.
Qed.

Lemma c18_hasPrefix_updir : forall x R, c18_sf x ->
  c18_hasPrefix (x ++ "/" :: R) ["."; "."; "/"] = c18_is_dotdot x.
Proof.
  intros x R H. apply eq_true_iff_eq. rewrite c18_hasPrefix_iff. unfold c18_is_dotdot. rewrite c18_eqs_eq. split.
  - intros [t E]. destruct x as [|a [|b [|c x]]]; simpl in E; inversion E; subst; try reflexivity.
    exfalso. apply c18_sf_cons in H. destruct H as [_ H]. apply c18_sf_cons in H. destruct H as [_ H].
    apply c18_sf_cons in H. destruct H as [H _]. discriminate.
  - intros ->. exists R. reflexivity.
Qed.

Lemma c18_count_slash_sf : forall c X, c18_sf c -> c18_count_slash (c ++ X) = c18_count_slash X.
Proof.
  induction c as [|x c IH]; intros X H; [reflexivity|]. apply c18_sf_cons in H. destruct H as [Hx Hc].
  simpl. rewrite Hx, IH by exact Hc. reflexivity.
Qed.

Lemma c18_count_slash_join : forall L, Forall c18_sf L -> c18_count_slash (c18_join L) = length L.
Proof.
  induction 1 as [|c L Hc _ IH]; [reflexivity|].
  rewrite c18_join_cons, c18_count_slash_sf by exact Hc. simpl. rewrite IH. reflexivity.
Qed.

Lemma c18_ups_join : forall n, c18_ups n = c18_join (repeat c18_dotdot n).
Proof. induction n as [|n IH]; [reflexivity|]. simpl c18_ups. simpl repeat. rewrite c18_join_cons, IH. reflexivity. Qed.

Lemma c18_ne_sf_of_ordinary : forall cs, forallb c18_ordinary cs = true -> Forall c18_ne_sf cs.
Proof.
  induction cs as [|c cs IH]; intro H; constructor; simpl in H; apply andb_true_iff in H; destruct H as [Hc H]; auto.
  apply c18_ordinary_parts in Hc. destruct Hc as [Hs [He _]]. split; [exact Hs|]. intro; subst; discriminate.
Qed.

Lemma c18_ne_sf_repeat : forall n, Forall c18_ne_sf (repeat c18_dotdot n).
Proof. induction n; simpl; constructor; auto. split; [reflexivity | discriminate]. Qed.

Lemma c18_ne_sf_sf : forall L, Forall c18_ne_sf L -> Forall c18_sf L.
Proof. induction 1 as [|c L [H _] _ IH]; constructor; auto. Qed.

Lemma c18_is_abs_join : forall L, Forall c18_ne_sf L -> c18_is_abs (c18_join L) = false.
Proof.
  destruct 1 as [|c L [Hs Hn] _]; [reflexivity|]. rewrite c18_join_cons.
  destruct c as [|x c]; [congruence|]. apply c18_sf_cons in Hs. destruct Hs as [Hx _]. simpl. exact Hx.
Qed.

Definition c18_head_dotdot (a : list c18_str) : bool := match a with x :: _ => c18_is_dotdot x | [] => false end.

(* what relativePath computes, in terms of the common component prefix C of the two rendered locations *)
Lemma c18_relativePath_compute : forall base p ub cb up cp C a' b',
  c18_is_abs base = c18_is_abs p ->
  c18_denote base = (c18_is_abs base, ub, cb) -> c18_denote p = (c18_is_abs p, up, cp) ->
  repeat c18_dotdot ub ++ cb = C ++ a' -> repeat c18_dotdot up ++ cp = C ++ b' -> c18_diverge a' b' ->
  c18_relativePath base p =
    if c18_head_dotdot a' then C18_NotImplemented
    else C18_Ok (c18_join (repeat c18_dotdot (length a') ++ b')).
Proof.
  intros base p ub cb up cp C a' b' AB Hb Hp E1 E2 D.
  pose proof (c18_denote_wf base) as Wb. pose proof (c18_denote_wf p) as Wp. rewrite Hb in Wb. rewrite Hp in Wp.
  destruct Wb as [_ Ob]. destruct Wp as [_ Op].
  assert (Na : Forall c18_ne_sf (C ++ a')).
  { rewrite <- E1. apply Forall_app. split; [apply c18_ne_sf_repeat | apply c18_ne_sf_of_ordinary; exact Ob]. }
  assert (Nb : Forall c18_ne_sf (C ++ b')).
  { rewrite <- E2. apply Forall_app. split; [apply c18_ne_sf_repeat | apply c18_ne_sf_of_ordinary; exact Op]. }
  apply Forall_app in Na. destruct Na as [NC Na]. apply Forall_app in Nb. destruct Nb as [_ Nb].
  unfold c18_relativePath. rewrite !c18_hasPrefix_abs, AB, eqb_reflx. simpl negb. cbv iota.
  rewrite !c18_processPath_canon. unfold c18_canon. rewrite Hb, Hp. unfold c18_render. rewrite E1, E2, <- AB.
  rewrite !c18_join_app, !app_assoc.
  set (J := (if c18_is_abs base then ["/"] else []) ++ c18_join C).
  assert (BJ : c18_boundary J).
  { unfold J. destruct (c18_is_abs base); [|apply c18_join_boundary].
    change (["/"] ++ c18_join C) with (c18_join ([] :: C)). apply c18_join_boundary. }
  cbv zeta. rewrite c18_prefix_backup by assumption. rewrite !c18_skipn_app_len.
  assert (HP : c18_hasPrefix (c18_join a') ["."; "."; "/"] = c18_head_dotdot a').
  { destruct a' as [|x a'']; [reflexivity|]. rewrite c18_join_cons. inversion Na as [|? ? [Hx _] _]; subst.
    apply c18_hasPrefix_updir. exact Hx. }
  rewrite HP. destruct (c18_head_dotdot a'); [reflexivity|].
  rewrite c18_count_slash_join by (apply c18_ne_sf_sf; exact Na). rewrite c18_ups_join. reflexivity.
Qed.

(* ---- the stack machine on the result *)
Lemma c18_run_pops : forall abs s1 u s2, c18_run abs (repeat c18_dotdot (length s1)) (u, s1 ++ s2) = (u, s2).
Proof.
  induction s1 as [|a s1 IH]; intros u s2; [reflexivity|]. simpl length. simpl repeat. rewrite c18_run_cons.
  change (c18_step abs (u, (a :: s1) ++ s2) c18_dotdot) with (u, s1 ++ s2). apply IH.
Qed.

Lemma c18_run_shift : forall cs u s, c18_run false cs (S u, s) = let '(u', s') := c18_run false cs (u, s) in (S u', s').
Proof.
  induction cs as [|c cs IH]; intros u s; [reflexivity|]. rewrite !c18_run_cons.
  assert (H : c18_step false (S u, s) c = let '(u1, s1) := c18_step false (u, s) c in (S u1, s1)).
  { unfold c18_step. destruct (c18_is_empty c || c18_is_dotc c); [reflexivity|].
    destruct (c18_is_dotdot c); [destruct s; reflexivity | reflexivity]. }
  rewrite H. destruct (c18_step false (u, s) c) as [u1 s1]. apply IH.
Qed.

Lemma c18_ordinary_dotdot : c18_ordinary c18_dotdot = false.
Proof. reflexivity. Qed.

Lemma c18_ordinary_dotdot_cons : forall L, forallb c18_ordinary (c18_dotdot :: L) = false.
Proof. reflexivity. Qed.

Lemma c18_rel_core : forall ub up abs cb cp C a' b',
  (abs = true -> ub = 0) -> (abs = true -> up = 0) ->
  forallb c18_ordinary cb = true -> forallb c18_ordinary cp = true ->
  repeat c18_dotdot ub ++ cb = C ++ a' -> repeat c18_dotdot up ++ cp = C ++ b' -> c18_diverge a' b' ->
  c18_head_dotdot a' = negb (Nat.leb ub up)
  /\ (ub <= up -> c18_run abs (repeat c18_dotdot (length a') ++ b') (ub, rev cb) = (up, rev cp)).
Proof.
  induction ub as [|ub IH]; intros up abs cb cp C a' b' Hab Hap Ocb Ocp E1 E2 D.
  - simpl in E1. subst cb. rewrite forallb_app in Ocb. apply andb_true_iff in Ocb. destruct Ocb as [OC Oa].
    split.
    + destruct a' as [|x a'']; [reflexivity|]. simpl in Oa. apply andb_true_iff in Oa. destruct Oa as [Ox _].
      apply c18_ordinary_parts in Ox. simpl. tauto.
    + intros _. rewrite c18_run_app, rev_app_distr. rewrite <- (rev_length a'), c18_run_pops.
      destruct up as [|up'].
      * simpl in E2. subst cp. rewrite forallb_app in Ocp. apply andb_true_iff in Ocp. destruct Ocp as [_ Ob].
        rewrite c18_run_ordinary by exact Ob. rewrite rev_app_distr. reflexivity.
      * destruct abs; [specialize (Hap eq_refl); discriminate|].
        destruct C as [|c C'].
        -- change ([] ++ b') with b' in E2. subst b'. simpl rev. rewrite c18_run_app.
           rewrite c18_run_dotdots. rewrite c18_run_ordinary by exact Ocp. rewrite app_nil_r. reflexivity.
        -- exfalso. simpl in E2. inversion E2; subst c. rewrite c18_ordinary_dotdot_cons in OC. discriminate.
  - destruct abs; [specialize (Hab eq_refl); discriminate|]. simpl in E1.
    destruct C as [|c C'].
    + simpl in E1, E2. subst a' b'.
      assert (U : up = 0).
      { destruct up as [|up']; [reflexivity|]. exfalso. simpl in D. apply D. reflexivity. }
      subst up. split; [reflexivity | intro; lia].
    + simpl in E1. inversion E1 as [[Ec E1']]. subst c.
      destruct up as [|up'].
      * exfalso. simpl in E2. subst cp. rewrite c18_ordinary_dotdot_cons in Ocp. discriminate.
      * simpl in E2. inversion E2 as [E2'].
        destruct (IH up' false cb cp C' a' b') as [I1 I2]; auto; try discriminate.
        split; [rewrite I1; reflexivity|].
        intro L. rewrite c18_run_shift, I2 by lia. reflexivity.
Qed.

Lemma c18_denote_run : forall s a u cs, c18_denote s = (a, u, cs) ->
  c18_run (c18_is_abs s) (c18_split s) (0, []) = (u, rev cs).
Proof.
  intros s a u cs H. unfold c18_denote in H. destruct (c18_run (c18_is_abs s) (c18_split s) (0, [])) as [u0 stk].
  inversion H; subst. rewrite rev_involutive. reflexivity.
Qed.

Lemma c18_suffix_form : forall up cp C b', repeat c18_dotdot up ++ cp = C ++ b' -> forallb c18_ordinary cp = true ->
  exists k r, b' = repeat c18_dotdot k ++ r /\ forallb c18_ordinary r = true.
Proof.
  induction up as [|up IH]; intros cp C b' E O.
  - simpl in E. subst cp. rewrite forallb_app in O. apply andb_true_iff in O. exists 0, b'. tauto.
  - destruct C as [|c C'].
    + exists (S up), cp. auto.
    + simpl in E. inversion E. eapply IH; eauto.
Qed.

(* ---- THE THEOREM *)
Lemma c18_relative_inverse : forall base p,
  (forall r, c18_relativePath base p = C18_Ok r ->
     c18_denote (c18_concatPaths base r) = c18_denote p /\ C18_NormalForm r)
  /\ (c18_relativePath base p = C18_NotImplemented <-> c18_spec_rel_defined base p = false)
  /\ c18_relativePath base p <> C18_OutOfFuel.
Proof.
  intros base p.
  pose proof (c18_denote_abs base) as Ab. pose proof (c18_denote_abs p) as Ap.
  pose proof (c18_denote_wf base) as Wb. pose proof (c18_denote_wf p) as Wp.
  unfold c18_spec_rel_defined.
  destruct (c18_denote base) as [[ab ub] cb] eqn:Hb. destruct (c18_denote p) as [[ap up] cp] eqn:Hp.
  simpl in Ab, Ap. subst ab ap. destruct Wb as [Ub Ob]. destruct Wp as [Up Op].
  destruct (Bool.eqb (c18_is_abs base) (c18_is_abs p)) eqn:AB.
  2:{ assert (R : c18_relativePath base p = C18_NotImplemented)
        by (unfold c18_relativePath; rewrite !c18_hasPrefix_abs, AB; reflexivity).
      rewrite R. simpl. repeat split; auto; discriminate. }
  apply eqb_prop in AB.
  destruct (c18_lcp_exists (repeat c18_dotdot ub ++ cb) (repeat c18_dotdot up ++ cp)) as [C [a' [b' [E1 [E2 D]]]]].
  pose proof (c18_relativePath_compute base p ub cb up cp C a' b' AB Hb Hp E1 E2 D) as R.
  assert (Up' : c18_is_abs base = true -> up = 0) by (rewrite AB; exact Up).
  destruct (c18_rel_core ub up (c18_is_abs base) cb cp C a' b' Ub Up' Ob Op E1 E2 D) as [HD RUN].
  rewrite R, HD. simpl andb.
  destruct (Nat.leb ub up) eqn:LE; simpl negb; cbv iota.
  - split; [|split; [split; discriminate | discriminate]].
    intros r Hr. inversion Hr; subst r. clear Hr.
    apply Nat.leb_le in LE. specialize (RUN LE).
    assert (NR : Forall c18_ne_sf (repeat c18_dotdot (length a') ++ b')).
    { apply Forall_app. split; [apply c18_ne_sf_repeat|].
      assert (N : Forall c18_ne_sf (C ++ b')).
      { rewrite <- E2. apply Forall_app. split; [apply c18_ne_sf_repeat | apply c18_ne_sf_of_ordinary; exact Op]. }
      apply Forall_app in N. tauto. }
    rewrite c18_concat_denote by (apply c18_is_abs_join; exact NR).
    unfold c18_denote_then. rewrite (c18_denote_run base _ _ _ Hb).
    rewrite c18_split_join by (apply c18_ne_sf_sf; exact NR).
    split; [rewrite c18_run_trailing_empty, RUN, rev_involutive, AB; reflexivity|].
    destruct (c18_suffix_form up cp C b' E2 Op) as [k [r0 [Eb Or]]].
    exists (repeat c18_dotdot (length a' + k) ++ r0). split.
    + rewrite Eb, repeat_app, <- app_assoc. reflexivity.
    + right. exists (length a' + k), r0. auto.
  - split; [intros r Hr; discriminate|]. split; [split; reflexivity | discriminate].
Qed.
